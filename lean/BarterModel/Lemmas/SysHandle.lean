import BarterModel.Model.SysHandle
import BarterModel.Lemmas.Audit
import BarterModel.Props.C10
/-! Helper lemmas for the sub-check C20S (`Props/C20S.lean`): feed algebra, the four runners, the
invariant of the scheduler-driven system. -/
namespace BarterModel.SysHandle

variable {σ χ μ α κ ρ : Type}

/-! ### feed algebra -/

@[simp] theorem marketOf_nil : marketOf ([] : List (Ev μ α κ)) = [] := rfl
@[simp] theorem accountOf_nil : accountOf ([] : List (Ev μ α κ)) = [] := rfl
@[simp] theorem handleOf_nil : handleOf ([] : List (Ev μ α κ)) = [] := rfl
@[simp] theorem marketOf_append (a b : List (Ev μ α κ)) : marketOf (a ++ b) = marketOf a ++ marketOf b := by
  simp [marketOf, List.filterMap_append]
@[simp] theorem accountOf_append (a b : List (Ev μ α κ)) : accountOf (a ++ b) = accountOf a ++ accountOf b := by
  simp [accountOf, List.filterMap_append]
@[simp] theorem handleOf_append (a b : List (Ev μ α κ)) : handleOf (a ++ b) = handleOf a ++ handleOf b := by
  simp [handleOf, List.filter_append]

@[simp] theorem marketOf_cons_market (m : μ) (l : List (Ev μ α κ)) : marketOf (.market m :: l) = m :: marketOf l := rfl
@[simp] theorem marketOf_cons_account (a : α) (l : List (Ev μ α κ)) : marketOf (.account a :: l) = marketOf l := rfl
@[simp] theorem marketOf_cons_command (c : κ) (l : List (Ev μ α κ)) : marketOf (.command c :: l) = marketOf l := rfl
@[simp] theorem marketOf_cons_trading (b : Bool) (l : List (Ev μ α κ)) : marketOf (.trading b :: l) = marketOf l := rfl
@[simp] theorem marketOf_cons_shutdown (l : List (Ev μ α κ)) : marketOf (.shutdown :: l) = marketOf l := rfl

@[simp] theorem accountOf_cons_market (m : μ) (l : List (Ev μ α κ)) : accountOf (.market m :: l) = accountOf l := rfl
@[simp] theorem accountOf_cons_account (a : α) (l : List (Ev μ α κ)) : accountOf (.account a :: l) = a :: accountOf l := rfl
@[simp] theorem accountOf_cons_command (c : κ) (l : List (Ev μ α κ)) : accountOf (.command c :: l) = accountOf l := rfl
@[simp] theorem accountOf_cons_trading (b : Bool) (l : List (Ev μ α κ)) : accountOf (.trading b :: l) = accountOf l := rfl
@[simp] theorem accountOf_cons_shutdown (l : List (Ev μ α κ)) : accountOf (.shutdown :: l) = accountOf l := rfl

@[simp] theorem handleOf_cons_market (m : μ) (l : List (Ev μ α κ)) : handleOf (.market m :: l) = handleOf l := rfl
@[simp] theorem handleOf_cons_account (a : α) (l : List (Ev μ α κ)) : handleOf (.account a :: l) = handleOf l := rfl
@[simp] theorem handleOf_cons_command (c : κ) (l : List (Ev μ α κ)) : handleOf (.command c :: l) = .command c :: handleOf l := rfl
@[simp] theorem handleOf_cons_trading (b : Bool) (l : List (Ev μ α κ)) : handleOf (.trading b :: l) = .trading b :: handleOf l := rfl
@[simp] theorem handleOf_cons_shutdown (l : List (Ev μ α κ)) : handleOf (.shutdown :: l) = .shutdown :: handleOf l := rfl

theorem handleOf_cons_of_handle (e : Ev μ α κ) (l : List (Ev μ α κ)) (h : e.isHandle = true) :
    handleOf (e :: l) = e :: handleOf l := by
  cases e <;> simp_all [Ev.isHandle]

theorem handleOf_cons_of_not_handle (e : Ev μ α κ) (l : List (Ev μ α κ)) (h : e.isHandle = false) :
    handleOf (e :: l) = handleOf l := by
  cases e <;> simp_all [Ev.isHandle]

theorem marketOf_cons_of_handle (e : Ev μ α κ) (l : List (Ev μ α κ)) (h : e.isHandle = true) :
    marketOf (e :: l) = marketOf l := by
  cases e <;> simp_all [Ev.isHandle]

theorem accountOf_cons_of_handle (e : Ev μ α κ) (l : List (Ev μ α κ)) (h : e.isHandle = true) :
    accountOf (e :: l) = accountOf l := by
  cases e <;> simp_all [Ev.isHandle]

theorem mem_handleOf {e : Ev μ α κ} {l : List (Ev μ α κ)} : e ∈ handleOf l ↔ e ∈ l ∧ e.isHandle = true := by
  simp [handleOf]

theorem shutdown_mem_handleOf (l : List (Ev μ α κ)) : Ev.shutdown ∈ handleOf l ↔ Ev.shutdown ∈ l := by
  simp [mem_handleOf, Ev.isHandle]

theorem Call.event_isHandle (c : Call κ) : (c.event : Ev μ α κ).isHandle = true := by
  cases c <;> rfl

theorem Call.event_ne_shutdown (c : Call κ) : (c.event : Ev μ α κ) ≠ .shutdown := by
  cases c <;> simp [Call.event]

/-! ### the engine along a history -/

/-- The engine (state and sequence) after `process_with_audit` over a history. -/
def engAfter (E : Engine σ μ α κ ρ) (e : Eng σ) (h : List (Ev μ α κ)) : Eng σ :=
  h.foldl (fun e ev => (processWithAudit E e ev).1) e

@[simp] theorem engAfter_nil (E : Engine σ μ α κ ρ) (e : Eng σ) : engAfter E e [] = e := rfl

theorem engAfter_cons (E : Engine σ μ α κ ρ) (e : Eng σ) (ev : Ev μ α κ) (h : List (Ev μ α κ)) :
    engAfter E e (ev :: h) = engAfter E (processWithAudit E e ev).1 h := rfl

theorem engAfter_append (E : Engine σ μ α κ ρ) (e : Eng σ) (h : List (Ev μ α κ)) (ev : Ev μ α κ) :
    engAfter E e (h ++ [ev]) = (processWithAudit E (engAfter E e h) ev).1 := by
  simp [engAfter, List.foldl_append]

theorem engAfter_state (E : Engine σ μ α κ ρ) (e : Eng σ) (h : List (Ev μ α κ)) :
    (engAfter E e h).state = engFold E e.state h := by
  induction h generalizing e with
  | nil => rfl
  | cons ev h ih => rw [engAfter_cons, ih]; rfl

theorem engAfter_seq (E : Engine σ μ α κ ρ) (e : Eng σ) (h : List (Ev μ α κ)) :
    (engAfter E e h).seq = e.seq + h.length := by
  induction h generalizing e with
  | nil => rfl
  | cons ev h ih => rw [engAfter_cons, ih]; simp [processWithAudit]; omega

theorem engFold_append (E : Engine σ μ α κ ρ) (e0 : σ) (h : List (Ev μ α κ)) (e : Ev μ α κ) :
    engFold E e0 (h ++ [e]) = (E.process (engFold E e0 h) e).1 := by
  simp [engFold, List.foldl_append]

theorem engFold_append_list (E : Engine σ μ α κ ρ) (e0 : σ) (h h' : List (Ev μ α κ)) :
    engFold E e0 (h ++ h') = engFold E (engFold E e0 h) h' := by
  simp [engFold, List.foldl_append]

@[simp] theorem ticksOf_nil (E : Engine σ μ α κ ρ) (e : Eng σ) : ticksOf E e [] = [] := rfl

theorem ticksOf_append (E : Engine σ μ α κ ρ) (e : Eng σ) (h : List (Ev μ α κ)) (ev : Ev μ α κ) :
    ticksOf E e (h ++ [ev]) = ticksOf E e h ++ [(processWithAudit E (engAfter E e h) ev).2.1] := by
  induction h generalizing e with
  | nil => rfl
  | cons x h ih => simp only [List.cons_append, ticksOf, ih, engAfter_cons]

theorem ticksOf_length (E : Engine σ μ α κ ρ) (e : Eng σ) (h : List (Ev μ α κ)) :
    (ticksOf E e h).length = h.length := by
  induction h generalizing e with
  | nil => rfl
  | cons x h ih => simp [ticksOf, ih]

/-- the ticks carry the history's events -/
theorem ticksOf_events (E : Engine σ μ α κ ρ) (e : Eng σ) (h : List (Ev μ α κ)) :
    (ticksOf E e h).filterMap Tick.event? = h := by
  induction h generalizing e with
  | nil => rfl
  | cons x h ih => simp [ticksOf, processWithAudit, Tick.event?, ih]

/-- … with consecutive sequence numbers -/
theorem ticksOf_consecutive (E : Engine σ μ α κ ρ) (e : Eng σ) (h : List (Ev μ α κ)) :
    consecutiveFrom e.seq (ticksOf E e h) = true := by
  induction h generalizing e with
  | nil => rfl
  | cons x h ih =>
    simp only [ticksOf, consecutiveFrom, Bool.and_eq_true]
    refine ⟨by simp [processWithAudit, Tick.seq], ?_⟩
    have := ih (processWithAudit E e x).1
    simpa [processWithAudit] using this

theorem ticksOf_seqs (E : Engine σ μ α κ ρ) (e : Eng σ) (h : List (Ev μ α κ)) :
    (ticksOf E e h).map Tick.seq = List.range' e.seq h.length := by
  induction h generalizing e with
  | nil => rfl
  | cons x h ih =>
    simp only [ticksOf, List.map_cons, List.length_cons, List.range'_succ]
    rw [ih]; simp [processWithAudit, Tick.seq]

/-! ### the four runners -/

/-- The prefix of a feed a runner consumes: up to and including the first terminal tick. -/
def consumed (E : Engine σ μ α κ ρ) (e : Eng σ) : List (Ev μ α κ) → List (Ev μ α κ)
  | [] => []
  | ev :: rest =>
    if (processWithAudit E e ev).2.1.terminal then [ev]
    else ev :: consumed E (processWithAudit E e ev).1 rest

/-- The runner ran out of feed (every sender dropped) before any terminal tick. -/
def feedEnds (E : Engine σ μ α κ ρ) (e : Eng σ) : List (Ev μ α κ) → Bool
  | [] => true
  | ev :: rest =>
    if (processWithAudit E e ev).2.1.terminal then false
    else feedEnds E (processWithAudit E e ev).1 rest

theorem asyncRun_eq_syncRun (E : Engine σ μ α κ ρ) (e : Eng σ) (feed : List (Ev μ α κ)) :
    asyncRun E e feed = syncRun E e feed := by
  induction feed generalizing e with
  | nil => rfl
  | cons ev rest ih => simp only [asyncRun, syncRun, ih]

theorem asyncRunWithAudit_eq_syncRunWithAudit (E : Engine σ μ α κ ρ) (e : Eng σ)
    (feed : List (Ev μ α κ)) : asyncRunWithAudit E e feed = syncRunWithAudit E e feed := by
  induction feed generalizing e with
  | nil => rfl
  | cons ev rest ih => simp only [asyncRunWithAudit, syncRunWithAudit, ih]

/-- Sending the audits changes nothing else. -/
theorem syncRunWithAudit_eq_syncRun (E : Engine σ μ α κ ρ) (e : Eng σ) (feed : List (Ev μ α κ)) :
    syncRunWithAudit E e feed = { syncRun E e feed with sent := (syncRunWithAudit E e feed).sent } := by
  induction feed generalizing e with
  | nil => rfl
  | cons ev rest ih =>
    simp only [syncRunWithAudit, syncRun]
    split
    · rfl
    · rw [ih]

theorem syncRun_sent (E : Engine σ μ α κ ρ) (e : Eng σ) (feed : List (Ev μ α κ)) :
    (syncRun E e feed).sent = [] := by
  induction feed generalizing e with
  | nil => rfl
  | cons ev rest ih =>
    simp only [syncRun]
    split
    · rfl
    · exact ih _

theorem syncRun_engine (E : Engine σ μ α κ ρ) (e : Eng σ) (feed : List (Ev μ α κ)) :
    (syncRun E e feed).engine =
      if feedEnds E e feed then ⟨(engAfter E e (consumed E e feed)).state, (engAfter E e (consumed E e feed)).seq + 1⟩
      else engAfter E e (consumed E e feed) := by
  induction feed generalizing e with
  | nil => rfl
  | cons ev rest ih =>
    simp only [syncRun, consumed, feedEnds]
    split
    · simp [engAfter]
    · simp only [engAfter_cons]; exact ih _

theorem syncRun_rest (E : Engine σ μ α κ ρ) (e : Eng σ) (feed : List (Ev μ α κ)) :
    consumed E e feed ++ (syncRun E e feed).rest = feed := by
  induction feed generalizing e with
  | nil => rfl
  | cons ev rest ih =>
    simp only [syncRun, consumed]
    split
    · rfl
    · simp only [List.cons_append]; rw [ih]

theorem syncRunWithAudit_sent (E : Engine σ μ α κ ρ) (e : Eng σ) (feed : List (Ev μ α κ)) :
    (syncRunWithAudit E e feed).sent =
      ticksOf E e (consumed E e feed) ++
        (if feedEnds E e feed then [.feedEnded (engAfter E e (consumed E e feed)).seq] else []) := by
  induction feed generalizing e with
  | nil => rfl
  | cons ev rest ih =>
    simp only [syncRunWithAudit, consumed, feedEnds]
    split
    · simp [ticksOf]
    · simp only [ticksOf, engAfter_cons, List.cons_append]; rw [ih]

/-- the returned shutdown audit is the last audit sent -/
theorem syncRunWithAudit_last (E : Engine σ μ α κ ρ) (e : Eng σ) (feed : List (Ev μ α κ)) :
    (syncRunWithAudit E e feed).sent.getLast? = some (syncRunWithAudit E e feed).shutdownAudit := by
  induction feed generalizing e with
  | nil => rfl
  | cons ev rest ih =>
    simp only [syncRunWithAudit]
    split
    · rfl
    · have := ih (processWithAudit E e ev).1
      simp only [List.getLast?_cons, this]; rfl

/-- nothing is processed after a terminal tick: no consumed event but the last one is terminal -/
theorem consumed_terminal (E : Engine σ μ α κ ρ) (e : Eng σ) (feed : List (Ev μ α κ)) :
    (feedEnds E e feed = true → ∀ t ∈ ticksOf E e (consumed E e feed), t.terminal = false) ∧
    (feedEnds E e feed = false → terminalLast (ticksOf E e (consumed E e feed)) = true) := by
  induction feed generalizing e with
  | nil => exact ⟨by simp [consumed], by simp [feedEnds]⟩
  | cons ev rest ih =>
    simp only [consumed, feedEnds]
    split
    · rename_i ht
      exact ⟨by simp, by intro _; simpa [ticksOf, terminalLast] using ht⟩
    · rename_i ht
      have hf : (processWithAudit E e ev).2.1.terminal = false := by simpa using ht
      have := ih (processWithAudit E e ev).1
      constructor
      · intro h t hm
        simp only [ticksOf, List.mem_cons] at hm
        rcases hm with rfl | hm
        · exact hf
        · exact this.1 h t hm
      · intro h
        have h2 := this.2 h
        simp only [ticksOf]
        cases hc : ticksOf E (processWithAudit E e ev).1 (consumed E (processWithAudit E e ev).1 rest) with
        | nil => simp [hc, terminalLast] at h2
        | cons t ts => simp [terminalLast, hf]; simpa [hc] using h2

/-! ### the scheduler-driven system: invariants for every action list -/

/-- the engine as `init_internal` hands it to the runner -/
def eng0 (e0 : σ) (a : AuditMode) : Eng σ := ⟨e0, seq0 a⟩

/-- The execution requests the engine sends along a history, in order. -/
def requestsOf (E : Engine σ μ α κ ρ) (e : Eng σ) : List (Ev μ α κ) → List ρ
  | [] => []
  | ev :: h => (processWithAudit E e ev).2.2 ++ requestsOf E (processWithAudit E e ev).1 h

theorem requestsOf_append (E : Engine σ μ α κ ρ) (e : Eng σ) (h : List (Ev μ α κ)) (ev : Ev μ α κ) :
    requestsOf E e (h ++ [ev]) = requestsOf E e h ++ (processWithAudit E (engAfter E e h) ev).2.2 := by
  induction h generalizing e with
  | nil => simp [requestsOf]
  | cons x h ih => simp only [List.cons_append, requestsOf, ih, List.append_assoc, engAfter_cons]

theorem respondAll_append (X : Exchange χ ρ α) (x : χ) (rs rs' : List ρ) :
    respondAll X x (rs ++ rs') =
      ((respondAll X (respondAll X x rs).1 rs').1,
       (respondAll X x rs).2 ++ (respondAll X (respondAll X x rs).1 rs').2) := by
  induction rs generalizing x with
  | nil => simp [respondAll]
  | cons r rs ih => simp [respondAll, ih]

theorem perm_cons_eraseIdx {γ : Type} (l : List γ) (k : Nat) (a : γ) (h : l[k]? = some a) :
    (a :: l.eraseIdx k).Perm l := by
  induction l generalizing k with
  | nil => simp at h
  | cons x l ih =>
    cases k with
    | zero => simp at h; subst h; simp
    | succ k =>
      simp only [List.getElem?_cons_succ] at h
      simp only [List.eraseIdx_cons_succ]
      exact (List.Perm.swap x a _).trans ((ih k h).cons x)

/-- Engine, audit stream and execution side are functions of the processed history. -/
structure OwnInv (E : Engine σ μ α κ ρ) (X : Exchange χ ρ α) (e0 : σ) (x0 : χ) (acc0 : List α)
    (a : AuditMode) (s : Sys σ χ μ α κ ρ) : Prop where
  mode : s.auditMode = a
  own : s.eng = engAfter E (eng0 e0 a) s.processed
  ticks : s.ticks = if a = .enabled then ticksOf E (eng0 e0 a) s.processed else []
  snap : s.snapshot = if a = .enabled then some (e0, 0) else none
  reqs : s.requests = requestsOf E (eng0 e0 a) s.processed
  exch : s.exch = (respondAll X x0 s.requests).1
  produced : s.produced = acc0 ++ (respondAll X x0 s.requests).2

theorem ownInv_init (E : Engine σ μ α κ ρ) (X : Exchange χ ρ α) (b : SystemBuild σ) (x0 : χ)
    (acc0 : List α) :
    OwnInv E X b.engine x0 acc0 b.auditMode (b.init x0 acc0 : Sys σ χ μ α κ ρ) := by
  constructor <;> simp [SystemBuild.init, eng0, requestsOf, respondAll]

theorem ownInv_step (E : Engine σ μ α κ ρ) (X : Exchange χ ρ α) (e0 : σ) (x0 : χ) (acc0 : List α)
    (a : AuditMode) (s : Sys σ χ μ α κ ρ) (h : OwnInv E X e0 x0 acc0 a s) (act : Act μ κ) :
    OwnInv E X e0 x0 acc0 a (step E X s act) := by
  cases act with
  | push m => exact ⟨h.mode, h.own, h.ticks, h.snap, h.reqs, h.exch, h.produced⟩
  | fwdMarket =>
    simp only [step]; unfold stepFwdMarket
    split
    · exact h
    · split <;> exact ⟨h.mode, h.own, h.ticks, h.snap, h.reqs, h.exch, h.produced⟩
  | fwdAccount k =>
    simp only [step]; unfold stepFwdAccount
    split
    · exact h
    · split <;> exact ⟨h.mode, h.own, h.ticks, h.snap, h.reqs, h.exch, h.produced⟩
  | call c =>
    simp only [step]; unfold stepCall send
    split
    · exact h
    · split <;> exact ⟨h.mode, h.own, h.ticks, h.snap, h.reqs, h.exch, h.produced⟩
  | close how =>
    simp only [step]; unfold stepClose send
    split
    · exact h
    · split <;> exact ⟨h.mode, h.own, h.ticks, h.snap, h.reqs, h.exch, h.produced⟩
  | takeAudit =>
    simp only [step]; unfold stepTakeAudit
    split
    · exact h
    · exact ⟨h.mode, h.own, h.ticks, h.snap, h.reqs, h.exch, h.produced⟩
  | engine =>
    simp only [step]; unfold stepEngine
    split
    · exact h
    · split
      · exact h
      · rename_i e rest hf
        refine ⟨h.mode, ?_, ?_, h.snap, ?_, ?_, ?_⟩
        · simp only [engAfter_append, ← h.own]
        · simp only [h.mode, ticksOf_append, ← h.own, h.ticks]
          split <;> simp
        · simp only [requestsOf_append, ← h.own, h.reqs]
        · simp only [respondAll_append, ← h.exch]
        · simp only [respondAll_append, ← h.exch, h.produced, List.append_assoc]

theorem ownInv_run (E : Engine σ μ α κ ρ) (X : Exchange χ ρ α) (e0 : σ) (x0 : χ) (acc0 : List α)
    (a : AuditMode) (acts : List (Act μ κ)) (s : Sys σ χ μ α κ ρ) (h : OwnInv E X e0 x0 acc0 a s) :
    OwnInv E X e0 x0 acc0 a (run E X s acts) := by
  induction acts generalizing s with
  | nil => exact h
  | cons act acts ih => exact ih _ (ownInv_step E X e0 x0 acc0 a s h act)

/-- Conservation of what flows through the feed: per source nothing is invented, duplicated or
reordered; `Shutdown` is sent at most once, as the last thing the handle ever sends. -/
structure FlowInv (s : Sys σ χ μ α κ ρ) : Prop where
  handle : handleOf s.processed ++ handleOf s.feed = s.sent
  mkt : s.stopped = none → marketOf s.processed ++ marketOf s.feed ++ s.market = s.pushed
  mktPre : ∃ rest, marketOf s.processed ++ marketOf s.feed ++ rest = s.pushed
  acc : s.stopped = none → (accountOf s.processed ++ accountOf s.feed ++ s.pending).Perm s.produced
  accSub : ∃ rest, (accountOf s.processed ++ accountOf s.feed ++ rest).Perm s.produced
  sdOpen : s.closed = none → Ev.shutdown ∉ s.sent
  sdLast : ∀ xs y, s.sent = xs ++ [y] → Ev.shutdown ∉ xs

theorem flowInv_init (b : SystemBuild σ) (x0 : χ) (acc0 : List α) :
    FlowInv (b.init x0 acc0 : Sys σ χ μ α κ ρ) := by
  refine ⟨rfl, fun _ => rfl, ⟨[], rfl⟩, fun _ => ?_, ⟨acc0, ?_⟩, fun _ => ?_, ?_⟩
  · simp [SystemBuild.init]
  · simp [SystemBuild.init]
  · simp [SystemBuild.init]
  · intro xs y hxy; simp [SystemBuild.init] at hxy

theorem stopped_none_of_not_isSome {s : Sys σ χ μ α κ ρ} (h : ¬ s.stopped.isSome = true) :
    s.stopped = none := by
  cases hs : s.stopped <;> simp_all

theorem flowInv_step (E : Engine σ μ α κ ρ) (X : Exchange χ ρ α) (s : Sys σ χ μ α κ ρ)
    (h : FlowInv s) (act : Act μ κ) : FlowInv (step E X s act) := by
  cases act with
  | push m =>
    refine ⟨h.handle, ?_, ?_, h.acc, h.accSub, h.sdOpen, h.sdLast⟩
    · intro hc
      have := h.mkt hc
      simp only [step, stepPush] at hc ⊢
      rw [← this]; simp [List.append_assoc]
    · obtain ⟨rest, hr⟩ := h.mktPre
      exact ⟨rest ++ [m], by simp only [step, stepPush]; rw [← hr]; simp [List.append_assoc]⟩
  | fwdMarket =>
    simp only [step]; unfold stepFwdMarket
    split
    · exact h
    · rename_i m ms hm
      split
      · rename_i hs
        refine ⟨h.handle, ?_, h.mktPre, ?_, h.accSub, h.sdOpen, h.sdLast⟩
        · intro hc; simp [show s.stopped = none from hc] at hs
        · intro hc; simp [show s.stopped = none from hc] at hs
      · rename_i hs
        have h0 := stopped_none_of_not_isSome hs
        refine ⟨by simpa using h.handle, ?_, ?_, ?_, ?_, h.sdOpen, h.sdLast⟩
        · intro _; have := h.mkt h0; simp [hm] at this ⊢; exact this
        · exact ⟨ms, by have := h.mkt h0; simp [hm] at this ⊢; exact this⟩
        · intro _; simpa using h.acc h0
        · simpa using h.accSub
  | fwdAccount k =>
    simp only [step]; unfold stepFwdAccount
    split
    · exact h
    · rename_i a ha
      split
      · rename_i hs
        refine ⟨h.handle, ?_, h.mktPre, ?_, h.accSub, h.sdOpen, h.sdLast⟩
        · intro hc; simp [show s.stopped = none from hc] at hs
        · intro hc; simp [show s.stopped = none from hc] at hs
      · rename_i hs
        have h0 := stopped_none_of_not_isSome hs
        have hp : (accountOf s.processed ++ accountOf (s.feed ++ [Ev.account a]) ++ s.pending.eraseIdx k).Perm
            s.produced := by
          have hp := h.acc h0
          simp only [accountOf_append, accountOf_cons_account, accountOf_nil, List.append_assoc]
          refine List.Perm.trans ?_ (by simpa [List.append_assoc] using hp)
          exact List.Perm.append_left _ (List.Perm.append_left _ (perm_cons_eraseIdx _ k a ha))
        refine ⟨by simpa using h.handle, ?_, ?_, fun _ => hp, ⟨_, hp⟩, h.sdOpen, h.sdLast⟩
        · intro _; simpa using h.mkt h0
        · simpa using h.mktPre
  | takeAudit =>
    simp only [step]; unfold stepTakeAudit
    split
    · exact h
    · exact ⟨h.handle, h.mkt, h.mktPre, h.acc, h.accSub, h.sdOpen, h.sdLast⟩
  | call c =>
    simp only [step]; unfold stepCall send
    split
    · exact h
    · rename_i hcl
      have hcn : s.closed = none := by cases hx : s.closed <;> simp_all
      split
      · exact ⟨h.handle, h.mkt, h.mktPre, h.acc, h.accSub, h.sdOpen, h.sdLast⟩
      · refine ⟨?_, ?_, ?_, ?_, ?_, ?_, ?_⟩
        · simp only [handleOf_append, handleOf_cons_of_handle _ _ (Call.event_isHandle c), handleOf_nil]
          rw [← h.handle]; simp [List.append_assoc]
        · intro hc; have := h.mkt hc
          simpa [marketOf_cons_of_handle _ _ (Call.event_isHandle c)] using this
        · simpa [marketOf_cons_of_handle _ _ (Call.event_isHandle c)] using h.mktPre
        · intro hc; have := h.acc hc
          simpa [accountOf_cons_of_handle _ _ (Call.event_isHandle c)] using this
        · simpa [accountOf_cons_of_handle _ _ (Call.event_isHandle c)] using h.accSub
        · intro _ hm
          simp only [List.mem_append, List.mem_singleton] at hm
          rcases hm with hm | hm
          · exact h.sdOpen hcn hm
          · exact Call.event_ne_shutdown c hm.symm
        · intro xs y hxy
          have := List.append_inj' hxy (by simp)
          rw [← this.1]; exact h.sdOpen hcn
  | close how =>
    simp only [step]; unfold stepClose send
    split
    · exact h
    · rename_i hcl
      have hcn : s.closed = none := by cases hx : s.closed <;> simp_all
      split
      · refine ⟨h.handle, h.mkt, h.mktPre, h.acc, h.accSub, ?_, h.sdLast⟩
        intro hc; simp at hc
      · refine ⟨?_, ?_, ?_, ?_, ?_, ?_, ?_⟩
        · simp only [handleOf_append, handleOf_cons_shutdown, handleOf_nil]
          rw [← h.handle]; simp [List.append_assoc]
        · intro hc; have := h.mkt hc; simpa using this
        · simpa using h.mktPre
        · intro hc; have := h.acc hc; simpa using this
        · simpa using h.accSub
        · intro hc; simp at hc
        · intro xs y hxy
          have := List.append_inj' hxy (by simp)
          rw [← this.1]; exact h.sdOpen hcn
  | engine =>
    simp only [step]; unfold stepEngine
    split
    · exact h
    · rename_i hs
      have h0 := stopped_none_of_not_isSome hs
      split
      · exact h
      · rename_i e rest hf
        have hh := h.handle
        have hm := h.mkt h0
        have ha := h.acc h0
        rw [hf] at hh hm ha
        have hh' : handleOf (s.processed ++ [e]) ++ handleOf rest = s.sent := by
          rw [← hh]; cases e <;> simp
        have hm' : marketOf (s.processed ++ [e]) ++ marketOf rest ++ s.market = s.pushed := by
          rw [← hm]; cases e <;> simp
        have ha' : (accountOf (s.processed ++ [e]) ++ accountOf rest ++
            (s.pending ++ (respondAll X s.exch (processWithAudit E s.eng e).2.2).2)).Perm
            (s.produced ++ (respondAll X s.exch (processWithAudit E s.eng e).2.2).2) := by
          have e1 : accountOf (s.processed ++ [e]) ++ accountOf rest ++
              (s.pending ++ (respondAll X s.exch (processWithAudit E s.eng e).2.2).2) =
              (accountOf s.processed ++ accountOf (e :: rest) ++ s.pending) ++
                (respondAll X s.exch (processWithAudit E s.eng e).2.2).2 := by
            cases e <;> simp [List.append_assoc]
          rw [e1]; exact ha.append_right _
        refine ⟨hh', fun _ => hm', ⟨s.market, hm'⟩, fun _ => ha', ⟨_, ha'⟩, h.sdOpen, h.sdLast⟩

theorem flowInv_run (E : Engine σ μ α κ ρ) (X : Exchange χ ρ α) (acts : List (Act μ κ))
    (s : Sys σ χ μ α κ ρ) (h : FlowInv s) : FlowInv (run E X s acts) := by
  induction acts generalizing s with
  | nil => exact h
  | cons act acts ih => exact ih _ (flowInv_step E X s h act)

/-- The runner stops exactly on the first terminal tick and hands that tick back. -/
structure HaltInv (E : Engine σ μ α κ ρ) (e0 : σ) (a : AuditMode) (s : Sys σ χ μ α κ ρ) : Prop where
  running : s.stopped = none →
    (∀ t ∈ ticksOf E (eng0 e0 a) s.processed, t.terminal = false) ∧ s.shutdownAudit = none
  halted : ∀ st, s.stopped = some st → ∃ pre last, s.processed = pre ++ [last] ∧
    (∀ t ∈ ticksOf E (eng0 e0 a) pre, t.terminal = false) ∧
    s.shutdownAudit = some (processWithAudit E (engAfter E (eng0 e0 a) pre) last).2.1 ∧
    (processWithAudit E (engAfter E (eng0 e0 a) pre) last).2.1.terminal = true ∧
    (st = .shutdown ↔ last.isShutdown = true)

theorem haltInv_init (E : Engine σ μ α κ ρ) (b : SystemBuild σ) (x0 : χ) (acc0 : List α) :
    HaltInv E b.engine b.auditMode (b.init x0 acc0 : Sys σ χ μ α κ ρ) := by
  refine ⟨fun _ => ⟨by simp [SystemBuild.init], rfl⟩, ?_⟩
  intro st hst; simp [SystemBuild.init] at hst

theorem haltInv_step (E : Engine σ μ α κ ρ) (X : Exchange χ ρ α) (e0 : σ) (a : AuditMode)
    (s : Sys σ χ μ α κ ρ) (hown : s.eng = engAfter E (eng0 e0 a) s.processed)
    (h : HaltInv E e0 a s) (act : Act μ κ) : HaltInv E e0 a (step E X s act) := by
  cases act with
  | push m => exact ⟨h.running, h.halted⟩
  | fwdMarket =>
    simp only [step]; unfold stepFwdMarket
    split
    · exact h
    · split <;> exact ⟨h.running, h.halted⟩
  | fwdAccount k =>
    simp only [step]; unfold stepFwdAccount
    split
    · exact h
    · split <;> exact ⟨h.running, h.halted⟩
  | call c =>
    simp only [step]; unfold stepCall send
    split
    · exact h
    · split <;> exact ⟨h.running, h.halted⟩
  | close how =>
    simp only [step]; unfold stepClose send
    split
    · exact h
    · split <;> exact ⟨h.running, h.halted⟩
  | takeAudit =>
    simp only [step]; unfold stepTakeAudit
    split
    · exact h
    · exact ⟨h.running, h.halted⟩
  | engine =>
    simp only [step]; unfold stepEngine
    split
    · exact h
    · rename_i hs
      have h0 := stopped_none_of_not_isSome hs
      split
      · exact h
      · rename_i e rest hf
        have hrun := h.running h0
        have hterm : (processWithAudit E s.eng e).2.1.terminal = (e.isShutdown || E.fatal s.eng.state e) := rfl
        by_cases hsd : e.isShutdown = true
        · refine ⟨?_, ?_⟩
          · intro hc; simp [hsd] at hc
          · intro st hst
            simp only [hsd, ↓reduceIte, Option.some.injEq] at hst
            refine ⟨s.processed, e, rfl, hrun.1, ?_, ?_, ?_⟩
            · rw [← hown]; simp [hterm, hsd]
            · rw [← hown]; simp [hterm, hsd]
            · rw [← hst]; simp [hsd]
        · by_cases hfat : E.fatal s.eng.state e = true
          · refine ⟨?_, ?_⟩
            · intro hc; simp [hsd, hfat] at hc
            · intro st hst
              have hsd' : e.isShutdown = false := by simpa using hsd
              simp [hsd', hfat] at hst
              refine ⟨s.processed, e, rfl, hrun.1, ?_, ?_, ?_⟩
              · rw [← hown]; simp [hterm, hfat]
              · rw [← hown]; simp [hterm, hfat]
              · rw [← hst]; simp [hsd']
          · have hsd' : e.isShutdown = false := by simpa using hsd
            have hfat' : E.fatal s.eng.state e = false := by simpa using hfat
            refine ⟨?_, ?_⟩
            · intro _
              refine ⟨?_, by simp [hterm, hsd', hfat']⟩
              intro t ht
              rw [ticksOf_append, List.mem_append, List.mem_singleton] at ht
              rcases ht with ht | ht
              · exact hrun.1 t ht
              · rw [ht, ← hown, hterm]; simp [hsd', hfat']
            · intro st hst; simp [hsd', hfat'] at hst

/-- All three invariants together, for a system started by `SystemBuild::init`. -/
structure Inv (E : Engine σ μ α κ ρ) (X : Exchange χ ρ α) (e0 : σ) (x0 : χ) (acc0 : List α)
    (a : AuditMode) (s : Sys σ χ μ α κ ρ) : Prop where
  own : OwnInv E X e0 x0 acc0 a s
  flow : FlowInv s
  halt : HaltInv E e0 a s

theorem inv_init (E : Engine σ μ α κ ρ) (X : Exchange χ ρ α) (b : SystemBuild σ) (x0 : χ)
    (acc0 : List α) :
    Inv E X b.engine x0 acc0 b.auditMode (b.init x0 acc0 : Sys σ χ μ α κ ρ) :=
  ⟨ownInv_init E X b x0 acc0, flowInv_init b x0 acc0, haltInv_init E b x0 acc0⟩

theorem inv_step (E : Engine σ μ α κ ρ) (X : Exchange χ ρ α) (e0 : σ) (x0 : χ) (acc0 : List α)
    (a : AuditMode) (s : Sys σ χ μ α κ ρ) (h : Inv E X e0 x0 acc0 a s) (act : Act μ κ) :
    Inv E X e0 x0 acc0 a (step E X s act) :=
  ⟨ownInv_step E X e0 x0 acc0 a s h.own act, flowInv_step E X s h.flow act,
   haltInv_step E X e0 a s h.own.own h.halt act⟩

theorem inv_run (E : Engine σ μ α κ ρ) (X : Exchange χ ρ α) (e0 : σ) (x0 : χ) (acc0 : List α)
    (a : AuditMode) (acts : List (Act μ κ)) (s : Sys σ χ μ α κ ρ) (h : Inv E X e0 x0 acc0 a s) :
    Inv E X e0 x0 acc0 a (run E X s acts) := by
  induction acts generalizing s with
  | nil => exact h
  | cons act acts ih => exact ih _ (inv_step E X e0 x0 acc0 a s h act)

/-- Every state reachable from `SystemBuild::init` satisfies the invariants. -/
theorem inv_reach (E : Engine σ μ α κ ρ) (X : Exchange χ ρ α) (b : SystemBuild σ) (x0 : χ)
    (acc0 : List α) (acts : List (Act μ κ)) :
    Inv E X b.engine x0 acc0 b.auditMode (run E X (b.init x0 acc0) acts) :=
  inv_run E X _ _ _ _ acts _ (inv_init E X b x0 acc0)

/-! ### further consequences used by `Props/C20S.lean` -/

theorem runner_eq (E : Engine σ μ α κ ρ) (m : EngineFeedMode) (a : AuditMode) (e : Eng σ)
    (feed : List (Ev μ α κ)) :
    runner E m a e feed = if a = .enabled then syncRunWithAudit E e feed else syncRun E e feed := by
  cases m <;> cases a <;>
    simp [runner, asyncRunWithAudit_eq_syncRunWithAudit, asyncRun_eq_syncRun]

/-- a history none of whose ticks is terminal contains no `Shutdown` -/
theorem no_shutdown_of_nonterminal (E : Engine σ μ α κ ρ) (e : Eng σ) (h : List (Ev μ α κ))
    (hn : ∀ t ∈ ticksOf E e h, t.terminal = false) : Ev.shutdown ∉ h := by
  induction h generalizing e with
  | nil => simp
  | cons x h ih =>
    simp only [ticksOf, List.mem_cons, forall_eq_or_imp] at hn
    intro hm
    rcases List.mem_cons.mp hm with hx | hx
    · subst hx
      have := hn.1
      simp [processWithAudit, Tick.terminal, Ev.isShutdown] at this
    · exact ih _ hn.2 hx

/-- a feed whose first terminal tick is that of `last`, after the non-terminal `pre` -/
theorem consumed_of_halted (E : Engine σ μ α κ ρ) (e : Eng σ) (pre : List (Ev μ α κ))
    (last : Ev μ α κ) (rest : List (Ev μ α κ))
    (hn : ∀ t ∈ ticksOf E e pre, t.terminal = false)
    (ht : (processWithAudit E (engAfter E e pre) last).2.1.terminal = true) :
    consumed E e (pre ++ last :: rest) = pre ++ [last] ∧ feedEnds E e (pre ++ last :: rest) = false := by
  induction pre generalizing e with
  | nil =>
    simp only [List.nil_append, consumed, feedEnds]
    simp only [engAfter_nil] at ht
    simp [ht]
  | cons x pre ih =>
    simp only [ticksOf, List.mem_cons, forall_eq_or_imp] at hn
    simp only [List.cons_append, consumed, feedEnds, hn.1]
    have := ih (processWithAudit E e x).1 hn.2 (by simpa [engAfter_cons] using ht)
    simp [this.1, this.2]

/-- Once the runner has returned, nothing the engine owns changes any more. -/
theorem step_frozen (E : Engine σ μ α κ ρ) (X : Exchange χ ρ α) (s : Sys σ χ μ α κ ρ)
    (st : Stop) (hs : s.stopped = some st) (act : Act μ κ) :
    (step E X s act).stopped = some st ∧ (step E X s act).processed = s.processed ∧
    (step E X s act).eng = s.eng ∧ (step E X s act).ticks = s.ticks ∧
    (step E X s act).shutdownAudit = s.shutdownAudit ∧ (step E X s act).feed = s.feed ∧
    (step E X s act).exch = s.exch ∧ (step E X s act).requests = s.requests ∧
    (step E X s act).sent = s.sent := by
  cases act with
  | push m => exact ⟨hs, rfl, rfl, rfl, rfl, rfl, rfl, rfl, rfl⟩
  | fwdMarket =>
    simp only [step]; unfold stepFwdMarket
    split
    · exact ⟨hs, rfl, rfl, rfl, rfl, rfl, rfl, rfl, rfl⟩
    · simp [hs]
  | fwdAccount k =>
    simp only [step]; unfold stepFwdAccount
    split
    · exact ⟨hs, rfl, rfl, rfl, rfl, rfl, rfl, rfl, rfl⟩
    · simp [hs]
  | engine =>
    simp only [step]; unfold stepEngine
    simp [hs]
  | call c =>
    simp only [step]; unfold stepCall send
    split
    · exact ⟨hs, rfl, rfl, rfl, rfl, rfl, rfl, rfl, rfl⟩
    · simp [hs]
  | close how =>
    simp only [step]; unfold stepClose send
    split
    · exact ⟨hs, rfl, rfl, rfl, rfl, rfl, rfl, rfl, rfl⟩
    · simp [hs]
  | takeAudit =>
    simp only [step]; unfold stepTakeAudit
    split <;> exact ⟨hs, rfl, rfl, rfl, rfl, rfl, rfl, rfl, rfl⟩

theorem run_frozen (E : Engine σ μ α κ ρ) (X : Exchange χ ρ α) (acts : List (Act μ κ))
    (s : Sys σ χ μ α κ ρ) (st : Stop) (hs : s.stopped = some st) :
    (run E X s acts).stopped = some st ∧ (run E X s acts).processed = s.processed ∧
    (run E X s acts).eng = s.eng ∧ (run E X s acts).ticks = s.ticks ∧
    (run E X s acts).shutdownAudit = s.shutdownAudit ∧ (run E X s acts).feed = s.feed ∧
    (run E X s acts).exch = s.exch ∧ (run E X s acts).requests = s.requests ∧
    (run E X s acts).sent = s.sent := by
  induction acts generalizing s with
  | nil => exact ⟨hs, rfl, rfl, rfl, rfl, rfl, rfl, rfl, rfl⟩
  | cons act acts ih =>
    have h1 := step_frozen E X s st hs act
    have h2 := ih (step E X s act) h1.1
    simp only [run, List.foldl_cons] at h2 ⊢
    obtain ⟨a1, a2, a3, a4, a5, a6, a7, a8, a9⟩ := h1
    obtain ⟨b1, b2, b3, b4, b5, b6, b7, b8, b9⟩ := h2
    exact ⟨b1, b2.trans a2, b3.trans a3, b4.trans a4, b5.trans a5, b6.trans a6, b7.trans a7,
      b8.trans a8, b9.trans a9⟩

theorem run_append (E : Engine σ μ α κ ρ) (X : Exchange χ ρ α) (s : Sys σ χ μ α κ ρ)
    (a b : List (Act μ κ)) : run E X s (a ++ b) = run E X (run E X s a) b := by
  simp [run, List.foldl_append]

/-! `shutdown` vs `abort`: forget which of the two consumed the handle. -/

def Act.norm : Act μ κ → Act μ κ
  | .close _ => .close .graceful
  | a => a

def Sys.norm (s : Sys σ χ μ α κ ρ) : Sys σ χ μ α κ ρ :=
  { s with closed := s.closed.map fun _ => .graceful }

theorem norm_step (E : Engine σ μ α κ ρ) (X : Exchange χ ρ α) (s : Sys σ χ μ α κ ρ) (act : Act μ κ) :
    (step E X s act).norm = step E X s.norm act.norm := by
  cases act with
  | push m => rfl
  | fwdMarket =>
    cases hm : s.market <;> cases hst : s.stopped <;>
      simp [step, stepFwdMarket, Sys.norm, Act.norm, hm, hst]
  | fwdAccount k =>
    cases hp : s.pending[k]? <;> cases hst : s.stopped <;>
      simp [step, stepFwdAccount, Sys.norm, Act.norm, hp, hst]
  | engine =>
    cases hf : s.feed <;> cases hst : s.stopped <;>
      simp [step, stepEngine, Sys.norm, Act.norm, hf, hst]
  | call c =>
    cases hc : s.closed <;> cases hst : s.stopped <;>
      simp [step, stepCall, send, Sys.norm, Act.norm, hc, hst]
  | close how =>
    cases hc : s.closed <;> cases hst : s.stopped <;>
      simp [step, stepClose, send, Sys.norm, Act.norm, hc, hst]
  | takeAudit =>
    cases hc : s.closed <;> simp [step, stepTakeAudit, Sys.norm, Act.norm, hc]

theorem norm_run (E : Engine σ μ α κ ρ) (X : Exchange χ ρ α) (acts : List (Act μ κ))
    (s : Sys σ χ μ α κ ρ) : (run E X s acts).norm = run E X s.norm (acts.map Act.norm) := by
  induction acts generalizing s with
  | nil => rfl
  | cons act acts ih =>
    simp only [run, List.foldl_cons, List.map_cons] at ih ⊢
    rw [ih, norm_step]

/-- `System.audit` is `Some` only in a system built with the audit enabled. -/
theorem held_enabled (E : Engine σ μ α κ ρ) (X : Exchange χ ρ α) (b : SystemBuild σ) (x0 : χ)
    (acc0 : List α) (acts : List (Act μ κ)) :
    (run E X (b.init x0 acc0 : Sys σ χ μ α κ ρ) acts).auditHeld = true → b.auditMode = .enabled := by
  suffices H : ∀ (s : Sys σ χ μ α κ ρ), (s.auditHeld = true → b.auditMode = .enabled) →
      ((run E X s acts).auditHeld = true → b.auditMode = .enabled) by
    exact H _ (by simp [SystemBuild.init])
  induction acts with
  | nil => intro s h; exact h
  | cons act acts ih =>
    intro s h
    simp only [run, List.foldl_cons]
    apply ih
    cases act with
    | push m => exact h
    | fwdMarket =>
      simp only [step]; unfold stepFwdMarket
      split
      · exact h
      · split <;> exact h
    | fwdAccount k =>
      simp only [step]; unfold stepFwdAccount
      split
      · exact h
      · split <;> exact h
    | engine =>
      simp only [step]; unfold stepEngine
      split
      · exact h
      · split <;> exact h
    | call c =>
      simp only [step]; unfold stepCall send
      split
      · exact h
      · split <;> exact h
    | close how =>
      simp only [step]; unfold stepClose send
      split
      · exact h
      · split <;> exact h
    | takeAudit =>
      simp only [step]; unfold stepTakeAudit
      split
      · exact h
      · intro hc; simp at hc

theorem syncRun_requests (E : Engine σ μ α κ ρ) (e : Eng σ) (feed : List (Ev μ α κ)) :
    (syncRun E e feed).requests = requestsOf E e (consumed E e feed) := by
  induction feed generalizing e with
  | nil => rfl
  | cons ev rest ih =>
    simp only [syncRun, consumed]
    split
    · simp [requestsOf]
    · simp only [requestsOf]; rw [ih]

theorem syncRun_shutdownAudit (E : Engine σ μ α κ ρ) (e : Eng σ) (feed : List (Ev μ α κ)) :
    (syncRun E e feed).shutdownAudit = (syncRunWithAudit E e feed).shutdownAudit := by
  rw [syncRunWithAudit_eq_syncRun]

/-- The output of any of the four runners on a feed whose first terminal tick is that of `last`. -/
theorem runner_output_of_halted (E : Engine σ μ α κ ρ) (m : EngineFeedMode) (a : AuditMode) (e : Eng σ)
    (pre : List (Ev μ α κ)) (last : Ev μ α κ) (rest : List (Ev μ α κ))
    (hn : ∀ t ∈ ticksOf E e pre, t.terminal = false)
    (ht : (processWithAudit E (engAfter E e pre) last).2.1.terminal = true) :
    let o := runner E m a e ((pre ++ [last]) ++ rest)
    o.engine = engAfter E e (pre ++ [last]) ∧
    o.shutdownAudit = (processWithAudit E (engAfter E e pre) last).2.1 ∧
    o.sent = (if a = .enabled then ticksOf E e (pre ++ [last]) else []) ∧
    o.rest = rest ∧ o.requests = requestsOf E e (pre ++ [last]) := by
  intro o
  have hfeed : (pre ++ [last]) ++ rest = pre ++ last :: rest := by simp
  have hc := consumed_of_halted E e pre last rest hn ht
  rw [← hfeed] at hc
  have hrest := syncRun_rest E e ((pre ++ [last]) ++ rest)
  rw [hc.1] at hrest
  have hrest' : (syncRun E e ((pre ++ [last]) ++ rest)).rest = rest := List.append_cancel_left hrest
  have heng := syncRun_engine E e ((pre ++ [last]) ++ rest)
  rw [hc.1, hc.2] at heng
  have hsent := syncRunWithAudit_sent E e ((pre ++ [last]) ++ rest)
  rw [hc.1, hc.2] at hsent
  have hlast := syncRunWithAudit_last E e ((pre ++ [last]) ++ rest)
  have hsa : (syncRunWithAudit E e ((pre ++ [last]) ++ rest)).shutdownAudit =
      (processWithAudit E (engAfter E e pre) last).2.1 := by
    rw [hsent] at hlast
    simp only [Bool.false_eq_true, ↓reduceIte, List.append_nil, ticksOf_append] at hlast
    simpa using hlast.symm
  have hreq := syncRun_requests E e ((pre ++ [last]) ++ rest)
  rw [hc.1] at hreq
  have ho : o = if a = .enabled then syncRunWithAudit E e ((pre ++ [last]) ++ rest)
      else syncRun E e ((pre ++ [last]) ++ rest) := runner_eq E m a e _
  by_cases ha : a = .enabled
  · simp only [ha, ↓reduceIte] at ho ⊢
    rw [ho, syncRunWithAudit_eq_syncRun]
    refine ⟨by simpa using heng, ?_, by simpa using hsent, hrest', hreq⟩
    rw [← hsa, syncRun_shutdownAudit]
  · simp only [ha, ↓reduceIte] at ho ⊢
    rw [ho]
    refine ⟨by simpa using heng, ?_, syncRun_sent E e _, hrest', hreq⟩
    rw [syncRun_shutdownAudit, hsa]

/-! ### the concrete engine: trading state and `on_trading_disabled` count along a history -/

section Concrete
open BarterModel.Engine BarterModel.Orders

/-- the parts of the engine model that only trading-state updates touch -/
def Frame (e e' : Engine.Eng) : Prop :=
  e'.enabled = e.enabled ∧ e'.disabledCalls = e.disabledCalls ∧ e'.links = e.links

theorem Frame.refl (e : Engine.Eng) : Frame e e := ⟨rfl, rfl, rfl⟩
theorem Frame.trans {a b c : Engine.Eng} (h1 : Frame a b) (h2 : Frame b c) : Frame a c :=
  ⟨h2.1.trans h1.1, h2.2.1.trans h1.2.1, h2.2.2.trans h1.2.2⟩

theorem frame_recordOpens (e : Engine.Eng) (rs : List OpenReq) : Frame e (recordOpens e rs) := by
  induction rs generalizing e with
  | nil => exact Frame.refl e
  | cons r rs ih =>
    simp only [recordOpens, List.foldl_cons]
    exact Frame.trans ⟨rfl, rfl, rfl⟩ (ih (recordOpen e r))

theorem frame_recordCancels (e : Engine.Eng) (rs : List CancelReq) : Frame e (recordCancels e rs) := by
  induction rs generalizing e with
  | nil => exact Frame.refl e
  | cons r rs ih =>
    simp only [recordCancels, List.foldl_cons]
    exact Frame.trans ⟨rfl, rfl, rfl⟩ (ih (recordCancel e r))

theorem frame_sendRequests {β : Type} (e : Engine.Eng) (toReq : β → Req) (rs : List β) :
    Frame e (sendRequests e toReq rs).1 := ⟨rfl, rfl, rfl⟩

theorem frame_generateAlgoOrders (e : Engine.Eng) (cs : List CancelReq) (os : List OpenReq)
    (rf : Key → Bool) : Frame e (generateAlgoOrders e cs os rf).1 := by
  simp only [generateAlgoOrders]
  exact Frame.trans (Frame.trans (Frame.trans (frame_sendRequests e _ _) (frame_sendRequests _ _ _))
    (frame_recordCancels _ _)) (frame_recordOpens _ _)

theorem frame_generateStage (e : Engine.Eng) (cmd : Option ActionOut) (cs : List CancelReq)
    (os : List OpenReq) (rf : Key → Bool) : Frame e (generateStage e cmd cs os rf).1 := by
  unfold generateStage
  split
  · exact frame_generateAlgoOrders e cs os rf
  · exact Frame.refl e

theorem frame_action (e : Engine.Eng) (c : Command) : Frame e (action e c).1 := by
  cases c with
  | sendCancelRequests rs =>
    simp only [action]; exact Frame.trans (frame_sendRequests e _ _) (frame_recordCancels _ _)
  | sendOpenRequests rs =>
    simp only [action]; exact Frame.trans (frame_sendRequests e _ _) (frame_recordOpens _ _)
  | closePositions f =>
    simp only [action]
    exact Frame.trans (Frame.trans (Frame.trans (frame_sendRequests e _ _) (frame_sendRequests _ _ _))
      (frame_recordCancels _ _)) (frame_recordOpens _ _)
  | cancelOrders f =>
    simp only [action]; exact Frame.trans (frame_sendRequests e _ _) (frame_recordCancels _ _)

theorem frame_applyUpdate (e : Engine.Eng) (u : Update) : Frame e (applyUpdate e u) := by
  cases u <;> exact ⟨rfl, rfl, rfl⟩

/-- `Engine::process`: only a trading-state update changes the trading state, and
`on_trading_disabled` is invoked exactly on an `Enabled → Disabled` transition. -/
theorem process_trading (e : Engine.Eng) (ev : Engine.Event) (cs : List CancelReq) (os : List OpenReq)
    (rf : Key → Bool) :
    (BarterModel.Engine.process e ev cs os rf).1.enabled =
      (match ev with | .tradingState on => on | _ => e.enabled) ∧
    (BarterModel.Engine.process e ev cs os rf).1.disabledCalls =
      e.disabledCalls + (match ev with | .tradingState on => if e.enabled && !on then 1 else 0 | _ => 0) := by
  cases ev with
  | shutdown => exact ⟨rfl, rfl⟩
  | command c =>
    simp only [BarterModel.Engine.process]
    have ha := frame_action e c
    split
    · exact ⟨ha.1, by simpa using ha.2.1⟩
    · have hg := Frame.trans ha (frame_generateStage (action e c).1 (some (action e c).2) cs os rf)
      exact ⟨hg.1, by simpa using hg.2.1⟩
  | tradingState on =>
    simp only [BarterModel.Engine.process]
    have hg := frame_generateStage (updateTradingState e on) none cs os rf
    refine ⟨?_, ?_⟩
    · rw [hg.1]; unfold updateTradingState; split
      · rename_i hc; simp at hc; simp [hc.2]
      · rfl
    · rw [hg.2.1]; unfold updateTradingState; split
      · rename_i hc; simp
      · rename_i hc; simp
  | update u =>
    simp only [BarterModel.Engine.process]
    have hg := Frame.trans (frame_applyUpdate e u) (frame_generateStage (applyUpdate e u) none cs os rf)
    exact ⟨hg.1, by simpa using hg.2.1⟩

def engTrading? : Engine.Event → Option Bool
  | .tradingState on => some on
  | _ => none

def evTrading? : Ev μ α κ → Option Bool
  | .trading on => some on
  | _ => none

theorem toEngineEvent_trading (e : Engine.Eng) (ev : CEv) :
    engTrading? (toEngineEvent e ev) = evTrading? ev := by
  cases ev with
  | shutdown => rfl
  | command c => rfl
  | trading on => rfl
  | market m => simp only [toEngineEvent]; split <;> rfl
  | account a =>
    cases a with
    | snapshot q bs => rfl
    | balance x t => rfl
    | order i cid q p f x => rfl
    | cancelErr i cid => rfl
    | trade i sd q p => simp only [toEngineEvent]; split <;> rfl

theorem process_trading' (e : Engine.Eng) (ev : Engine.Event) (cs : List CancelReq) (os : List OpenReq)
    (rf : Key → Bool) :
    (BarterModel.Engine.process e ev cs os rf).1.enabled = (engTrading? ev).getD e.enabled ∧
    (BarterModel.Engine.process e ev cs os rf).1.disabledCalls =
      e.disabledCalls + (match engTrading? ev with | some on => if e.enabled && !on then 1 else 0 | none => 0) := by
  have h := process_trading e ev cs os rf
  cases ev <;> exact h

theorem cStep_trading (s : CEng) (ev : CEv) :
    (cStep s ev).1.eng.enabled = (evTrading? ev).getD s.eng.enabled ∧
    (cStep s ev).1.eng.disabledCalls =
      s.eng.disabledCalls + (match evTrading? ev with | some on => if s.eng.enabled && !on then 1 else 0 | none => 0) := by
  have h := process_trading' s.eng (toEngineEvent s.eng ev) (cAsk s ev).algoC (cAsk s ev).algoO (cAsk s ev).refuse
  rw [toEngineEvent_trading] at h
  exact h

/-- The trading state of the engine after ANY history is the last trading-state update in it (the
initial state if there is none), and the number of `on_trading_disabled` invocations is the number
of `Enabled → Disabled` transitions. -/
theorem engFold_trading (s : CEng) (h : List CEv) :
    (engFold cEngine s h).eng.enabled = specTrading s.eng.enabled h ∧
    (engFold cEngine s h).eng.disabledCalls = s.eng.disabledCalls + specDisabledCalls s.eng.enabled h := by
  induction h generalizing s with
  | nil => exact ⟨rfl, rfl⟩
  | cons ev h ih =>
    have hstep := cStep_trading s ev
    have := ih (cStep s ev).1
    have e1 : engFold cEngine s (ev :: h) = engFold cEngine (cStep s ev).1 h := rfl
    rw [e1, this.1, this.2, hstep.1, hstep.2]
    cases ev <;> simp only [specTrading, specDisabledCalls, evTrading?, Option.getD] <;>
      refine ⟨trivial, ?_⟩ <;> omega

/-- the trading state only depends on the handle events of a history -/
theorem specTrading_handleOf (init : Bool) (h : List (Ev μ α κ)) :
    specTrading init (handleOf h) = specTrading init h ∧
    specDisabledCalls init (handleOf h) = specDisabledCalls init h := by
  induction h generalizing init with
  | nil => exact ⟨rfl, rfl⟩
  | cons ev h ih =>
    cases ev with
    | trading on =>
      simp only [handleOf_cons_trading, specTrading, specDisabledCalls]
      exact ⟨(ih on).1, by rw [(ih on).2]⟩
    | shutdown => simp only [handleOf_cons_shutdown, specTrading, specDisabledCalls]; exact ih init
    | command c => simp only [handleOf_cons_command, specTrading, specDisabledCalls]; exact ih init
    | market m => simp only [handleOf_cons_market, specTrading, specDisabledCalls]; exact ih init
    | account a => simp only [handleOf_cons_account, specTrading, specDisabledCalls]; exact ih init

/-! ### link to the audit / replica model of C10 (`Model/Audit.lean`, `Props/C10.lean`, read-only) -/

open BarterModel.Audit BarterModel.Props.C10

/-- no order is confirmed open by the exchange (only in-flight request markers, if anything) -/
def NoConfirmed (e : Engine.Eng) : Prop := ∀ i c, strip (orderState e i c) = none

/-- the engine events the mock exchange of this model can cause: order reports are final states
(fully filled / open failed) or cancel responses -/
def MockEvent : Engine.Event → Prop
  | .update (.order _ (.snapshot sn)) => ∃ k, sn.state = .inactive k
  | .update (.order _ (.cancelResp _ _)) => True
  | .update (.order _ _) => False
  | _ => True

theorem mockEvent_toEngineEvent (e : Engine.Eng) (ev : CEv) : MockEvent (toEngineEvent e ev) := by
  cases ev with
  | shutdown => trivial
  | command c => trivial
  | trading on => trivial
  | market m => simp only [toEngineEvent]; split <;> trivial
  | account a =>
    cases a with
    | snapshot q bs => trivial
    | balance x t => trivial
    | order i cid q p f x => exact ⟨_, rfl⟩
    | cancelErr i cid => trivial
    | trade i sd q p => simp only [toEngineEvent]; split <;> trivial

theorem mockEvent_eventOk (ev : Engine.Event) (h : MockEvent ev) : EventOk ev := by
  cases ev with
  | update u =>
    cases u with
    | order i op =>
      cases op with
      | snapshot sn =>
        obtain ⟨k, hk⟩ := h
        simp [EventOk, Op.exchangeReport, hk]
      | cancelResp c ok => rfl
      | recOpen c q p x => exact absurd h id
      | recCancel c => exact absurd h id
    | _ => trivial
  | _ => trivial

theorem noConfirmed_applyUpdate (e : Engine.Eng) (u : Update) (hn : NoConfirmed e)
    (hm : MockEvent (.update u)) : NoConfirmed (applyUpdate e u) := by
  intro j c
  cases u with
  | order i op =>
    rw [orderState_applyUpdate_order]
    by_cases hj : j = i
    · subst hj
      simp only [↓reduceIte]
      cases hx : e.instruments[j]? with
      | none => rfl
      | some st =>
        simp only
        have hbase : stateOf ([] : Orders) c = strip (stateOf st.orders c) := by
          have := hn j c
          simp only [orderState, hx] at this
          rw [this]; rfl
        have hrep : Op.exchangeReport op = true := mockEvent_eventOk _ hm
        have := strip_step_tables st.orders [] op c hrep hbase
        rw [← this]
        cases op with
        | snapshot sn =>
          obtain ⟨k, hk⟩ := hm
          simp [Orders.step, updateFromSnapshot, lookup, hk, stateOf]
        | cancelResp c' ok => simp [Orders.step, updateFromCancelResponse, lookup, stateOf]
        | recOpen c' q p x => exact absurd hm id
        | recCancel c' => exact absurd hm id
    · simp only [hj, ↓reduceIte]; exact hn j c
  | position i sd q => rw [orderState_applyUpdate_other _ _ _ _ (by intro i op; simp)]; exact hn j c
  | flat i => rw [orderState_applyUpdate_other _ _ _ _ (by intro i op; simp)]; exact hn j c
  | price i p => rw [orderState_applyUpdate_other _ _ _ _ (by intro i op; simp)]; exact hn j c
  | other => exact hn j c

theorem noConfirmed_generateStage (e : Engine.Eng) (cmd : Option ActionOut) (cs : List CancelReq)
    (os : List OpenReq) (rf : Key → Bool) (hn : NoConfirmed e) :
    NoConfirmed (generateStage e cmd cs os rf).1 := by
  intro i c
  unfold generateStage
  split
  · simp only [generateAlgoOrders]
    apply strip_recordOpens_none
    rw [strip_recordCancels_eq]
    simpa [orderState, sendRequests] using hn i c
  · exact hn i c

theorem noConfirmed_process (e : Engine.Eng) (ev : Engine.Event) (cs : List CancelReq)
    (os : List OpenReq) (rf : Key → Bool) (hn : NoConfirmed e) (hm : MockEvent ev) :
    NoConfirmed (BarterModel.Engine.process e ev cs os rf).1 := by
  cases ev with
  | shutdown => exact hn
  | command c =>
    simp only [BarterModel.Engine.process]
    have ha : NoConfirmed (action e c).1 := fun i cid => strip_action_none e c i cid (hn i cid)
    split
    · exact ha
    · exact noConfirmed_generateStage _ _ _ _ _ ha
  | tradingState on =>
    simp only [BarterModel.Engine.process]
    apply noConfirmed_generateStage
    intro i c
    have := (updateTradingState_fields e on).1
    simpa [orderState, this] using hn i c
  | update u =>
    simp only [BarterModel.Engine.process]
    exact noConfirmed_generateStage _ _ _ _ _ (noConfirmed_applyUpdate e u hn hm)

theorem noConfirmed_preState (e : Engine.Eng) (ev : Engine.Event) (hn : NoConfirmed e)
    (hm : MockEvent ev) : NoConfirmed (preState e ev) := by
  cases ev with
  | update u => exact noConfirmed_applyUpdate e u hn hm
  | _ => exact hn

/-- Every feed history of the concrete system satisfies the hypotheses of the C10 replication
theorem, provided no order was confirmed open at the start. -/
theorem historyOk_cHist (s : CEng) (h : List CEv) (hn : NoConfirmed s.eng) :
    HistoryOk s.eng (cHist s h) := by
  induction h generalizing s with
  | nil => trivial
  | cons ev h ih =>
    have hm := mockEvent_toEngineEvent s.eng ev
    refine ⟨mockEvent_eventOk _ hm, ?_, ?_⟩
    · intro o _
      exact noConfirmed_preState s.eng _ hn hm _ _
    · exact ih (cStep s ev).1 (noConfirmed_process s.eng _ _ _ _ hn hm)

theorem engFold_eq_engineRun (s : CEng) (h : List CEv) :
    (engFold cEngine s h).eng = engineRun s.eng (cHist s h) := by
  induction h generalizing s with
  | nil => rfl
  | cons ev h ih =>
    have e1 : engFold cEngine s (ev :: h) = engFold cEngine (cStep s ev).1 h := rfl
    rw [e1, ih]; rfl

def engIsShutdown : Engine.Event → Bool
  | .shutdown => true
  | _ => false

theorem auditTick_terminal (q : Nat) (ev : Engine.Event) (a : Engine.Audit) :
    (Audit.Tick.process q ev a).terminal = (engIsShutdown ev || a.fatal) := by
  cases ev <;> rfl

theorem toEngineEvent_isShutdown (e : Engine.Eng) (ev : CEv) :
    engIsShutdown (toEngineEvent e ev) = ev.isShutdown := by
  cases ev with
  | shutdown => rfl
  | command c => rfl
  | trading on => rfl
  | market m => simp only [toEngineEvent]; split <;> rfl
  | account a =>
    cases a with
    | trade i sd q p => simp only [toEngineEvent]; split <;> rfl
    | _ => rfl

/-- the audit stream of `Model/Audit.lean` agrees tick by tick with the runner's ticks -/
theorem cAuditTicks_agree (s : CEng) (q : Nat) (h : List CEv) :
    (cAuditTicks s q h).map Audit.Tick.seq = (ticksOf cEngine ⟨s, q⟩ h).map Tick.seq ∧
    (cAuditTicks s q h).map Audit.Tick.terminal = (ticksOf cEngine ⟨s, q⟩ h).map Tick.terminal := by
  induction h generalizing s q with
  | nil => exact ⟨rfl, rfl⟩
  | cons ev h ih =>
    have := ih (cStep s ev).1 (q + 1)
    simp only [cAuditTicks, ticksOf, List.map_cons]
    refine ⟨?_, ?_⟩
    · rw [this.1]; rfl
    · rw [this.2, auditTick_terminal, toEngineEvent_isShutdown]; rfl

theorem consumed_of_running (E : Engine σ μ α κ ρ) (e : Eng σ) (h : List (Ev μ α κ))
    (hn : ∀ t ∈ ticksOf E e h, t.terminal = false) : consumed E e h = h := by
  induction h generalizing e with
  | nil => rfl
  | cons x h ih =>
    simp only [ticksOf, List.mem_cons, forall_eq_or_imp] at hn
    simp only [consumed, hn.1]
    rw [ih _ hn.2]; simp

/-- `StateReplicaManager::run` over the ticks of a history: it applies the ticks of the consumed
prefix (it stops itself on a terminal tick), never skips, never rejects. -/
theorem replica_run_ticks (s : CEng) (r : Engine.Eng) (n : Nat) (h : List CEv) :
    Replica.run ⟨r, n⟩ (cAuditTicks s (n + 1) h) =
      .ok ⟨replicaRun r (cHist s (consumed cEngine ⟨s, n + 1⟩ h)),
           n + (consumed cEngine ⟨s, n + 1⟩ h).length⟩ := by
  induction h generalizing s r n with
  | nil => rfl
  | cons ev h ih =>
    have hterm := (cAuditTicks_agree s (n + 1) [ev]).2
    simp only [cAuditTicks, ticksOf, List.map_cons, List.map_nil, List.cons.injEq, and_true] at hterm
    simp only [cAuditTicks, Replica.run, Replica.step]
    have h1 : ¬ n ≥ n + 1 := by omega
    simp only [h1, ↓reduceIte, ne_eq, not_true_eq_false]
    simp only [consumed]
    have hpw : (processWithAudit cEngine ⟨s, n + 1⟩ ev).1 = ⟨(cStep s ev).1, n + 1 + 1⟩ := rfl
    rw [hpw]
    by_cases ht : (processWithAudit cEngine ⟨s, n + 1⟩ ev).2.1.terminal = true
    · rw [hterm, ht]
      simp [cHist, replicaRun]
    · have ht' : (processWithAudit cEngine ⟨s, n + 1⟩ ev).2.1.terminal = false := by simpa using ht
      rw [hterm, ht']
      simp only [Bool.false_eq_true, ↓reduceIte]
      have := ih (cStep s ev).1 (replicaApply r (toEngineEvent s.eng ev)) (n + 1)
      rw [this]
      simp only [cHist, replicaRun, List.length_cons]
      congr 2
      omega

/-! ### account events of one block commute (what the correspondence's canonicalisation relies on) -/

def sgn : Option (Side × Rat) → Rat
  | none => 0
  | some (.buy, q) => q
  | some (.sell, q) => -q

def Canon (p : Option (Side × Rat)) : Prop := ∀ sd q, p = some (sd, q) → 0 < q

theorem netPosition_sgn (cur : Option (Side × Rat)) (side : Side) (q : Rat) (hq : 0 < q)
    (hc : Canon cur) :
    sgn (netPosition cur side q) = sgn cur + sgn (some (side, q)) ∧ Canon (netPosition cur side q) := by
  cases cur with
  | none =>
    refine ⟨by cases side <;> simp [netPosition, sgn] <;> grind, ?_⟩
    intro sd q' h; simp [netPosition] at h; rw [← h.2]; exact hq
  | some p =>
    obtain ⟨s0, q0⟩ := p
    have h0 : 0 < q0 := hc _ _ rfl
    by_cases hs : s0 = side
    · subst hs
      refine ⟨by cases s0 <;> simp [netPosition, sgn] <;> grind, ?_⟩
      intro sd q' h; simp [netPosition] at h; rw [← h.2]; grind
    · by_cases h1 : q < q0
      · refine ⟨by cases s0 <;> cases side <;> simp_all [netPosition, sgn] <;> grind, ?_⟩
        intro sd q' h; simp [netPosition, hs, h1] at h; rw [← h.2]; grind
      · by_cases h2 : q = q0
        · subst h2
          refine ⟨by cases s0 <;> cases side <;> simp_all [netPosition, sgn] <;> grind, ?_⟩
          intro sd q' h; simp [netPosition, hs] at h
        · refine ⟨by cases s0 <;> cases side <;> simp_all [netPosition, sgn] <;> grind, ?_⟩
          intro sd q' h; simp [netPosition, hs, h1, h2] at h; rw [← h.2]; grind

theorem sgn_inj (p p' : Option (Side × Rat)) (h : Canon p) (h' : Canon p') (he : sgn p = sgn p') :
    p = p' := by
  cases p with
  | none =>
    cases p' with
    | none => rfl
    | some x =>
      obtain ⟨s, q⟩ := x
      have := h' _ _ rfl
      cases s <;> simp [sgn] at he <;> grind
  | some x =>
    obtain ⟨s, q⟩ := x
    have hq := h _ _ rfl
    cases p' with
    | none => cases s <;> simp [sgn] at he <;> grind
    | some y =>
      obtain ⟨s', q'⟩ := y
      have hq' := h' _ _ rfl
      cases s <;> cases s' <;> simp [sgn] at he <;> first | (subst he; rfl) | grind

theorem netPosition_comm (cur : Option (Side × Rat)) (s1 s2 : Side) (q1 q2 : Rat)
    (h1 : 0 < q1) (h2 : 0 < q2) (hc : Canon cur) :
    netPosition (netPosition cur s1 q1) s2 q2 = netPosition (netPosition cur s2 q2) s1 q1 := by
  have a1 := netPosition_sgn cur s1 q1 h1 hc
  have a2 := netPosition_sgn cur s2 q2 h2 hc
  have b1 := netPosition_sgn _ s2 q2 h2 a1.2
  have b2 := netPosition_sgn _ s1 q1 h1 a2.2
  apply sgn_inj _ _ b1.2 b2.2
  rw [b1.1, b2.1, a1.1, a2.1]
  grind

theorem erase_of_lookup_none (m : Orders) (c : Nat) (h : lookup m c = none) : erase m c = m := by
  induction m with
  | nil => rfl
  | cons x m ih =>
    obtain ⟨k, v⟩ := x
    simp only [lookup] at h
    split at h
    · cases h
    · rename_i hk; simp only [erase, hk, ↓reduceIte]; rw [ih h]

theorem erase_comm (m : Orders) (c1 c2 : Nat) : erase (erase m c1) c2 = erase (erase m c2) c1 := by
  induction m with
  | nil => rfl
  | cons x m ih =>
    obtain ⟨k, v⟩ := x
    by_cases h1 : k = c1
    · by_cases h2 : k = c2
      · subst h1; subst h2; simp only [erase, ↓reduceIte]
      · subst h1; simp only [erase, ↓reduceIte, h2]; exact ih
    · by_cases h2 : k = c2
      · subst h2; simp only [erase, ↓reduceIte, h1]; exact ih
      · simp only [erase, h1, h2, ↓reduceIte]; rw [ih]

theorem erase_idem (m : Orders) (c : Nat) : erase (erase m c) c = erase m c :=
  erase_of_lookup_none _ _ (lookup_erase_self m c)

theorem updateFromSnapshot_inactive (m : Orders) (cid : Nat) (q p : Rat) (k : Inactive) (ex : Nat) :
    updateFromSnapshot m ⟨cid, q, p, .inactive k, ex⟩ = erase m cid := by
  unfold updateFromSnapshot
  cases h : lookup m cid with
  | none => simp only; exact (erase_of_lookup_none m cid h).symm
  | some cur => rfl

def TblOk (m : Orders) : Prop :=
  ∀ c cur, lookup m c = some cur → cur.state = .inFlight ∨ cur.state = .cancelInFlight none

def cancelF (m : Orders) (c : Nat) : Orders :=
  if stateOf m c = some (.cancelInFlight none) then erase m c else m

theorem cancelResp_false_eq (m : Orders) (c : Nat) (h : TblOk m) :
    updateFromCancelResponse m c false = cancelF m c := by
  unfold updateFromCancelResponse cancelF stateOf
  cases hl : lookup m c with
  | none => simp
  | some cur =>
    rcases h c cur hl with hs | hs <;> simp [hs]

theorem stateOf_erase (m : Orders) (c c' : Nat) :
    stateOf (erase m c) c' = if c' = c then none else stateOf m c' := by
  unfold stateOf
  by_cases h : c' = c
  · subst h; simp [lookup_erase_self]
  · simp [h, lookup_erase_ne m c c' h]

theorem tblOk_erase (m : Orders) (c : Nat) (h : TblOk m) : TblOk (erase m c) := by
  intro c' cur hl
  by_cases hc : c' = c
  · subst hc; rw [lookup_erase_self] at hl; cases hl
  · rw [lookup_erase_ne m c c' hc] at hl; exact h c' cur hl

theorem tblOk_cancelF (m : Orders) (c : Nat) (h : TblOk m) : TblOk (cancelF m c) := by
  unfold cancelF; split
  · exact tblOk_erase m c h
  · exact h

theorem cancelF_erase_comm (m : Orders) (c1 c2 : Nat) :
    cancelF (erase m c1) c2 = erase (cancelF m c2) c1 := by
  unfold cancelF
  rw [stateOf_erase]
  by_cases h : c2 = c1
  · subst h
    simp only [↓reduceIte]
    have hn : ¬ (none : Option Active) = some (Active.cancelInFlight none) := by simp
    simp only [hn, ↓reduceIte]
    split
    · exact (erase_idem m c2).symm
    · rfl
  · simp only [h, ↓reduceIte]
    split
    · exact erase_comm m c1 c2
    · rfl

theorem cancelF_comm (m : Orders) (c1 c2 : Nat) :
    cancelF (cancelF m c1) c2 = cancelF (cancelF m c2) c1 := by
  by_cases h : c1 = c2
  · subst h; rfl
  · have hne : c2 ≠ c1 := fun e => h e.symm
    unfold cancelF
    by_cases a1 : stateOf m c1 = some (.cancelInFlight none) <;>
      by_cases a2 : stateOf m c2 = some (.cancelInFlight none) <;>
      simp [a1, a2, stateOf_erase, h, hne, erase_comm m c1 c2]

theorem modifyInstr_congr (l : List Instr) (i : Nat) (f g : Instr → Instr)
    (h : ∀ st, l[i]? = some st → f st = g st) : modifyInstr l i f = modifyInstr l i g := by
  unfold modifyInstr
  cases hl : l[i]? with
  | none => rfl
  | some st => simp only; rw [h st hl]

theorem modifyInstr_twice (l : List Instr) (i : Nat) (f g : Instr → Instr) :
    modifyInstr (modifyInstr l i f) i g = modifyInstr l i (fun st => g (f st)) := by
  unfold modifyInstr
  cases hl : l[i]? with
  | none => simp [hl]
  | some st =>
    have hi : i < l.length := (List.getElem?_eq_some_iff.mp hl).1
    simp [hi]

theorem modifyInstr_comm_ne (l : List Instr) (i j : Nat) (f g : Instr → Instr) (h : i ≠ j) :
    modifyInstr (modifyInstr l i f) j g = modifyInstr (modifyInstr l j g) i f := by
  apply List.ext_getElem?
  intro k
  simp only [modifyInstr_getElem?]
  by_cases hki : k = i <;> by_cases hkj : k = j
  · subst hki; exact absurd hkj h
  · subst hki; simp [h, hkj]
  · subst hkj; simp [hki, Ne.symm h]
  · simp [hki, hkj]

/-- what an account event of the mock exchange does to the instrument it names -/
inductive IOp where
  | erase (c : Nat)
  | cancel (c : Nat)
  | trade (side : Side) (q : Rat)

def IOp.fn : IOp → Instr → Instr
  | .erase c, st => { st with orders := Orders.erase st.orders c }
  | .cancel c, st => { st with orders := cancelF st.orders c }
  | .trade side q, st => { st with position := netPosition st.position side q }

def IOp.ok : IOp → Prop
  | .trade _ q => 0 < q
  | _ => True

def accOp : AccEv → Option (Nat × IOp)
  | .snapshot _ _ => none
  | .balance _ _ => none
  | .order i cid _ _ _ _ => some (i, .erase cid)
  | .cancelErr i cid => some (i, .cancel cid)
  | .trade i side q _ => some (i, .trade side q)

def accApply (e : Engine.Eng) (a : AccEv) : Engine.Eng :=
  match accOp a with
  | none => e
  | some (i, o) => { e with instruments := modifyInstr e.instruments i o.fn }

theorem IOp.comm (o1 o2 : IOp) (st : Instr) (hc : Canon st.position) (h1 : o1.ok) (h2 : o2.ok) :
    o2.fn (o1.fn st) = o1.fn (o2.fn st) := by
  cases o1 with
  | erase c1 =>
    cases o2 with
    | erase c2 => simp only [IOp.fn, erase_comm]
    | cancel c2 => simp only [IOp.fn, cancelF_erase_comm]
    | trade s2 q2 => rfl
  | cancel c1 =>
    cases o2 with
    | erase c2 => simp only [IOp.fn, cancelF_erase_comm]
    | cancel c2 => simp only [IOp.fn, cancelF_comm st.orders c1 c2]
    | trade s2 q2 => rfl
  | trade s1 q1 =>
    cases o2 with
    | erase c2 => rfl
    | cancel c2 => rfl
    | trade s2 q2 => simp only [IOp.fn, netPosition_comm st.position s1 s2 q1 q2 h1 h2 hc]

def Settled (s : CEng) : Prop := s.eng.enabled = true → s.answered = s.trades.length
def PosOk (e : Engine.Eng) : Prop := ∀ st ∈ e.instruments, Canon st.position
def AccOk (a : AccEv) : Prop := ∀ i o, accOp a = some (i, o) → o.ok

theorem tblOk_of_noConfirmed (e : Engine.Eng) (hn : NoConfirmed e) (i : Nat) (st : Instr)
    (hi : e.instruments[i]? = some st) : TblOk st.orders := by
  intro c cur hl
  have := hn i c
  simp only [orderState, hi, stateOf, hl, Option.map_some] at this
  cases hs : cur.state with
  | inFlight => exact Or.inl rfl
  | opn o => simp [hs, strip] at this
  | cancelInFlight x =>
    cases x with
    | none => exact Or.inr rfl
    | some o => simp [hs, strip] at this

/-- the engine-model update of an account event is `accApply` -/
theorem applyUpdate_account (e : Engine.Eng) (a : AccEv) (hn : NoConfirmed e) :
    ∃ u, toEngineEvent e (.account a) = .update u ∧ applyUpdate e u = accApply e a := by
  cases a with
  | snapshot q bs => exact ⟨.other, rfl, rfl⟩
  | balance x t => exact ⟨.other, rfl, rfl⟩
  | order i cid q p f x =>
    refine ⟨_, rfl, ?_⟩
    simp only [applyUpdate, accApply, accOp, Orders.step, updateFromSnapshot_inactive]
    congr 1
  | cancelErr i cid =>
    refine ⟨_, rfl, ?_⟩
    simp only [applyUpdate, accApply, accOp, Orders.step]
    congr 1
    apply modifyInstr_congr
    intro st hst
    simp only [IOp.fn]
    rw [cancelResp_false_eq _ _ (tblOk_of_noConfirmed e hn i st hst)]
  | trade i sd q p =>
    simp only [toEngineEvent]
    cases hi : e.instruments[i]? with
    | none =>
      have h1 : ∀ f : Instr → Instr, modifyInstr e.instruments i f = e.instruments := by
        intro f; simp [modifyInstr, hi]
      split
      · exact ⟨_, rfl, by simp [applyUpdate, accApply, accOp, h1]⟩
      · exact ⟨_, rfl, by simp [applyUpdate, accApply, accOp, h1]⟩
    | some st =>
      simp only [Option.bind_some]
      split
      · rename_i sd' q' hnp
        refine ⟨_, rfl, ?_⟩
        simp only [applyUpdate, accApply, accOp]
        congr 1
        apply modifyInstr_congr
        intro st' hst'
        rw [hi] at hst'; injection hst' with hst'; subst hst'
        simp only [IOp.fn]
        rw [hnp]
      · rename_i hnp
        refine ⟨_, rfl, ?_⟩
        simp only [applyUpdate, accApply, accOp]
        congr 1
        apply modifyInstr_congr
        intro st' hst'
        rw [hi] at hst'; injection hst' with hst'; subst hst'
        simp only [IOp.fn]
        rw [hnp]

theorem generateStage_nothing (e : Engine.Eng) (rf : Key → Bool) :
    (generateStage e none [] [] rf).1 = e := by
  unfold generateStage
  split
  · simp [generateAlgoOrders, sendRequests, recordCancels, recordOpens]
  · rfl

/-- processing an account event, in a state where the strategy has nothing to say, is `accApply` -/
theorem cStep_account (s : CEng) (a : AccEv) (hs : Settled s) (hn : NoConfirmed s.eng) :
    (cStep s (.account a)).1 = { s with eng := accApply s.eng a } := by
  obtain ⟨u, hu, happ⟩ := applyUpdate_account s.eng a hn
  have hfr := frame_applyUpdate s.eng u
  simp only [cStep, cAsk, tradesAfter, hu, BarterModel.Engine.process]
  by_cases hen : s.eng.enabled = true
  · have ha := hs hen
    have hopens : stratOpens s.eng s.trades s.answered = [] := by
      simp [stratOpens, ha]
    rw [hopens, generateStage_nothing, happ]
    have hgen : (generateStage (applyUpdate s.eng u) none [] [] (fun _ => false)).2.generated.isSome = true := by
      unfold generateStage; simp [hfr.1, hen]
    simp [hgen, ha]
  · have hen' : s.eng.enabled = false := by simpa using hen
    have hgs : ∀ os, generateStage (applyUpdate s.eng u) none [] os (fun _ => false) =
        (applyUpdate s.eng u, ⟨none, none, none, false⟩) := by
      intro os; unfold generateStage; simp [hfr.1, hen']
    rw [hgs, happ]
    simp

theorem accApply_comm (e : Engine.Eng) (a1 a2 : AccEv) (hp : PosOk e) (h1 : AccOk a1) (h2 : AccOk a2) :
    accApply (accApply e a1) a2 = accApply (accApply e a2) a1 := by
  unfold accApply
  cases hf1 : accOp a1 with
  | none => cases hf2 : accOp a2 <;> simp
  | some p1 =>
    cases hf2 : accOp a2 with
    | none => simp
    | some p2 =>
      obtain ⟨i, o1⟩ := p1
      obtain ⟨j, o2⟩ := p2
      simp only
      congr 1
      by_cases hij : i = j
      · subst hij
        rw [modifyInstr_twice, modifyInstr_twice]
        apply modifyInstr_congr
        intro st hst
        exact IOp.comm o1 o2 st (hp st (List.mem_of_getElem? hst)) (h1 _ _ hf1) (h2 _ _ hf2)
      · exact modifyInstr_comm_ne _ i j o1.fn o2.fn hij

theorem posOk_accApply (e : Engine.Eng) (a : AccEv) (hp : PosOk e) (ha : AccOk a) : PosOk (accApply e a) := by
  unfold accApply
  cases hf : accOp a with
  | none => exact hp
  | some p =>
    obtain ⟨i, o⟩ := p
    intro st hst
    simp only at hst
    obtain ⟨k, hk, rfl⟩ := List.mem_iff_getElem.mp hst
    have hk' : (modifyInstr e.instruments i o.fn)[k]? = some ((modifyInstr e.instruments i o.fn)[k]) :=
      List.getElem?_eq_getElem hk
    rw [modifyInstr_getElem?] at hk'
    by_cases hki : k = i
    · subst hki
      simp only [↓reduceIte] at hk'
      cases hx : e.instruments[k]? with
      | none => simp [hx] at hk'
      | some st0 =>
        simp only [hx, Option.map_some, Option.some.injEq] at hk'
        rw [← hk']
        have hc0 := hp st0 (List.mem_of_getElem? hx)
        cases o with
        | erase c => exact hc0
        | cancel c => exact hc0
        | trade sd q => exact (netPosition_sgn st0.position sd q (ha _ _ hf) hc0).2
    · simp only [hki, ↓reduceIte] at hk'
      exact hp _ (List.mem_of_getElem? hk')

/-- folding a list of account events: any permutation gives the same engine -/
theorem foldl_accApply_perm (l1 l2 : List AccEv) (hperm : l1.Perm l2) (e : Engine.Eng)
    (hp : PosOk e) (hok : ∀ a ∈ l1, AccOk a) :
    l1.foldl accApply e = l2.foldl accApply e := by
  induction hperm generalizing e with
  | nil => rfl
  | cons x _ ih =>
    simp only [List.foldl_cons]
    exact ih _ (posOk_accApply e x hp (hok x (by simp))) (fun a ha => hok a (by simp [ha]))
  | swap x y l =>
    simp only [List.foldl_cons]
    rw [accApply_comm e y x hp (hok y (by simp)) (hok x (by simp))]
  | trans h1 _ ih1 ih2 =>
    rw [ih1 e hp hok]
    exact ih2 e hp (fun a ha => hok a ((h1.mem_iff).mpr ha))

/-! the three hypotheses hold in every state the concrete system can reach -/

theorem forall_mem_modifyInstr (P : Instr → Prop) (l : List Instr) (i : Nat) (f : Instr → Instr)
    (hl : ∀ st ∈ l, P st) (hf : ∀ st, P st → P (f st)) : ∀ st ∈ modifyInstr l i f, P st := by
  intro st hst
  obtain ⟨k, hk, rfl⟩ := List.mem_iff_getElem.mp hst
  have hk' : (modifyInstr l i f)[k]? = some ((modifyInstr l i f)[k]) := List.getElem?_eq_getElem hk
  rw [modifyInstr_getElem?] at hk'
  by_cases hki : k = i
  · subst hki
    simp only [↓reduceIte] at hk'
    cases hx : l[k]? with
    | none => simp [hx] at hk'
    | some st0 =>
      simp only [hx, Option.map_some, Option.some.injEq] at hk'
      rw [← hk']; exact hf _ (hl _ (List.mem_of_getElem? hx))
  · simp only [hki, ↓reduceIte] at hk'
    exact hl _ (List.mem_of_getElem? hk')

theorem posOk_recordOpens (e : Engine.Eng) (rs : List OpenReq) (h : PosOk e) : PosOk (recordOpens e rs) := by
  induction rs generalizing e with
  | nil => exact h
  | cons r rs ih =>
    simp only [recordOpens, List.foldl_cons]
    apply ih
    exact forall_mem_modifyInstr _ _ _ _ h (fun st hst => hst)

theorem posOk_recordCancels (e : Engine.Eng) (rs : List CancelReq) (h : PosOk e) : PosOk (recordCancels e rs) := by
  induction rs generalizing e with
  | nil => exact h
  | cons r rs ih =>
    simp only [recordCancels, List.foldl_cons]
    apply ih
    exact forall_mem_modifyInstr _ _ _ _ h (fun st hst => hst)

theorem posOk_generateStage (e : Engine.Eng) (cmd : Option ActionOut) (cs : List CancelReq)
    (os : List OpenReq) (rf : Key → Bool) (h : PosOk e) : PosOk (generateStage e cmd cs os rf).1 := by
  unfold generateStage
  split
  · simp only [generateAlgoOrders]
    exact posOk_recordOpens _ _ (posOk_recordCancels _ _ h)
  · exact h

theorem posOk_action (e : Engine.Eng) (c : Command) (h : PosOk e) : PosOk (action e c).1 := by
  cases c with
  | sendCancelRequests rs => simp only [action]; exact posOk_recordCancels _ _ h
  | sendOpenRequests rs => simp only [action]; exact posOk_recordOpens _ _ h
  | closePositions f => simp only [action]; exact posOk_recordOpens _ _ (posOk_recordCancels _ _ h)
  | cancelOrders f => simp only [action]; exact posOk_recordCancels _ _ h

/-- the events of a history that carry a fill have a positive quantity -/
def EvOk : CEv → Prop
  | .account a => AccOk a
  | _ => True

theorem posOk_cStep (s : CEng) (ev : CEv) (h : PosOk s.eng) (hn : NoConfirmed s.eng) (hev : EvOk ev) :
    PosOk (cStep s ev).1.eng := by
  cases ev with
  | shutdown => exact h
  | command c =>
    simp only [cStep, toEngineEvent, BarterModel.Engine.process]
    split
    · exact posOk_action _ _ h
    · exact posOk_generateStage _ _ _ _ _ (posOk_action _ _ h)
  | trading on =>
    simp only [cStep, toEngineEvent, BarterModel.Engine.process]
    apply posOk_generateStage
    have := (Props.C10.updateTradingState_fields s.eng on).1
    intro st hst; rw [this] at hst; exact h st hst
  | market m =>
    simp only [cStep, toEngineEvent]
    split
    · simp only [BarterModel.Engine.process]
      exact posOk_generateStage _ _ _ _ _ h
    · simp only [BarterModel.Engine.process]
      apply posOk_generateStage
      exact forall_mem_modifyInstr _ _ _ _ h (fun st hst => hst)
  | account a =>
    obtain ⟨u, hu, happ⟩ := applyUpdate_account s.eng a hn
    simp only [cStep, hu, BarterModel.Engine.process]
    apply posOk_generateStage
    rw [happ]
    exact posOk_accApply s.eng a h hev

theorem generateStage_generated (e : Engine.Eng) (cmd : Option ActionOut) (cs : List CancelReq)
    (os : List OpenReq) (rf : Key → Bool) :
    (generateStage e cmd cs os rf).2.generated.isSome = e.enabled := by
  unfold generateStage
  split
  · rename_i h; simp [h]
  · rename_i h; simp at h; simp [h]

/-- an event other than `Shutdown` / a command always reaches the generation stage: the strategy is
consulted iff trading is enabled after the event's own update -/
theorem cStep_consulted (s : CEng) (ev : CEv) (hne : ∀ c, ev ≠ .command c) (hns : ev ≠ .shutdown) :
    (cStep s ev).2.generated.isSome = (cStep s ev).1.eng.enabled := by
  have key : ∀ (e' : Engine.Eng) (cs : List CancelReq) (os : List OpenReq) (rf : Key → Bool),
      (generateStage e' none cs os rf).2.generated.isSome = (generateStage e' none cs os rf).1.enabled := by
    intro e' cs os rf
    rw [generateStage_generated, (frame_generateStage e' none cs os rf).1]
  cases ev with
  | shutdown => exact absurd rfl hns
  | command c => exact absurd rfl (hne c)
  | trading on => simp only [cStep, toEngineEvent, BarterModel.Engine.process]; exact key _ _ _ _
  | market m =>
    simp only [cStep, toEngineEvent]
    split <;> (simp only [BarterModel.Engine.process]; exact key _ _ _ _)
  | account a =>
    cases a with
    | trade i sd q p =>
      simp only [cStep, toEngineEvent]
      split <;> (simp only [BarterModel.Engine.process]; exact key _ _ _ _)
    | snapshot q bs => simp only [cStep, toEngineEvent, BarterModel.Engine.process]; exact key _ _ _ _
    | balance x t => simp only [cStep, toEngineEvent, BarterModel.Engine.process]; exact key _ _ _ _
    | order i cid q p f x => simp only [cStep, toEngineEvent, BarterModel.Engine.process]; exact key _ _ _ _
    | cancelErr i cid => simp only [cStep, toEngineEvent, BarterModel.Engine.process]; exact key _ _ _ _

theorem settled_cStep (s : CEng) (ev : CEv) (h : Settled s) : Settled (cStep s ev).1 := by
  intro hen
  have htr := (cStep_trading s ev).1
  by_cases hg : (cStep s ev).2.generated.isSome = true
  · have : (cStep s ev).1.answered = (cStep s ev).1.trades.length := by
      simp only [cStep] at hg ⊢; simp [hg]
    exact this
  · have hg' : (cStep s ev).2.generated.isSome = false := by simpa using hg
    have hans : (cStep s ev).1.answered = s.answered := by
      simp only [cStep] at hg' ⊢; simp [hg']
    cases ev with
    | shutdown =>
      rw [hans]
      have : s.eng.enabled = true := by rw [htr] at hen; simpa [evTrading?] using hen
      exact h this
    | command c =>
      rw [hans]
      have : s.eng.enabled = true := by rw [htr] at hen; simpa [evTrading?] using hen
      exact h this
    | trading on =>
      have := cStep_consulted s (.trading on) (by intro c; simp) (by simp)
      rw [hen] at this; rw [this] at hg'; cases hg'
    | market m =>
      have := cStep_consulted s (.market m) (by intro c; simp) (by simp)
      rw [hen] at this; rw [this] at hg'; cases hg'
    | account a =>
      have := cStep_consulted s (.account a) (by intro c; simp) (by simp)
      rw [hen] at this; rw [this] at hg'; cases hg'


/-! the fold over a block of account events -/

theorem engFold_accounts (s : CEng) (l : List AccEv) (hs : Settled s) (hn : NoConfirmed s.eng) :
    engFold cEngine s (l.map Ev.account) = { s with eng := l.foldl accApply s.eng } := by
  induction l generalizing s with
  | nil => rfl
  | cons a l ih =>
    have e1 : engFold cEngine s ((a :: l).map Ev.account) =
        engFold cEngine (cStep s (.account a)).1 (l.map Ev.account) := rfl
    have hs' := settled_cStep s (.account a) hs
    have hn' : NoConfirmed (cStep s (.account a)).1.eng :=
      noConfirmed_process s.eng _ _ _ _ hn (mockEvent_toEngineEvent s.eng (.account a))
    rw [e1, ih _ hs' hn', cStep_account s a hs hn]
    rfl

/-- The three facts about an engine state that make account events commute. -/
structure StateOk (s : CEng) : Prop where
  settled : Settled s
  noConfirmed : NoConfirmed s.eng
  posOk : PosOk s.eng

theorem stateOk_cStep (s : CEng) (ev : CEv) (h : StateOk s) (hev : EvOk ev) : StateOk (cStep s ev).1 :=
  ⟨settled_cStep s ev h.settled,
   noConfirmed_process s.eng _ _ _ _ h.noConfirmed (mockEvent_toEngineEvent s.eng ev),
   posOk_cStep s ev h.posOk h.noConfirmed hev⟩

theorem stateOk_engFold (s : CEng) (h : List CEv) (ok : StateOk s) (hev : ∀ ev ∈ h, EvOk ev) :
    StateOk (engFold cEngine s h) := by
  induction h generalizing s with
  | nil => exact ok
  | cons ev h ih =>
    have e1 : engFold cEngine s (ev :: h) = engFold cEngine (cStep s ev).1 h := rfl
    rw [e1]
    exact ih _ (stateOk_cStep s ev ok (hev ev (by simp))) (fun x hx => hev x (by simp [hx]))

end Concrete

/-! ### after the close call (review B C20S-3: `after_close_any_schedule`)

Once `shutdown()` / `abort()` has put its `Shutdown` on a feed that held only handle events, the feed
is `handle events ++ Shutdown :: anything` until the engine stops — whatever the forwarders append goes
BEHIND the `Shutdown` — so the engine processes handle events only, under every schedule. -/

/-- handle consumed, and: engine stopped, or feed = handle-only `++ Shutdown ::` anything -/
def AfterClose (s : Sys σ χ μ α κ ρ) : Prop :=
  s.closed.isSome ∧
    (s.stopped.isSome ∨ ∃ pre post, s.feed = pre ++ Ev.shutdown :: post ∧ ∀ e ∈ pre, e.isHandle = true)

theorem afterClose_step (E : Engine σ μ α κ ρ) (X : Exchange χ ρ α) (s : Sys σ χ μ α κ ρ) (a : Act μ κ)
    (h : AfterClose s) :
    AfterClose (step E X s a) ∧
      ∃ l, (step E X s a).processed = s.processed ++ l ∧ ∀ e ∈ l, e.isHandle = true := by
  obtain ⟨hc, hj⟩ := h
  cases a with
  | push m => exact ⟨⟨hc, hj⟩, [], by simp [step, stepPush], by simp⟩
  | call c => simp only [step, stepCall, hc, ↓reduceIte]; exact ⟨⟨hc, hj⟩, [], by simp, by simp⟩
  | close how => simp only [step, stepClose, hc, ↓reduceIte]; exact ⟨⟨hc, hj⟩, [], by simp, by simp⟩
  | takeAudit => simp only [step, stepTakeAudit, hc, ↓reduceIte]; exact ⟨⟨hc, hj⟩, [], by simp, by simp⟩
  | fwdMarket =>
    simp only [step, stepFwdMarket]
    cases hm : s.market with
    | nil => exact ⟨⟨hc, hj⟩, [], by simp, by simp⟩
    | cons m ms =>
      rcases hj with hst | ⟨pre, post, hf, hp⟩
      · simp only [hst, ↓reduceIte]; exact ⟨⟨hc, Or.inl hst⟩, [], by simp, by simp⟩
      · by_cases hst : s.stopped.isSome
        · simp only [hst, ↓reduceIte]; exact ⟨⟨hc, Or.inl hst⟩, [], by simp, by simp⟩
        · simp only [hst]
          refine ⟨⟨hc, Or.inr ⟨pre, post ++ [.market m], ?_, hp⟩⟩, [], by simp, by simp⟩
          simp [hf]
  | fwdAccount k =>
    simp only [step, stepFwdAccount]
    cases hm : s.pending[k]? with
    | none => exact ⟨⟨hc, hj⟩, [], by simp, by simp⟩
    | some a =>
      rcases hj with hst | ⟨pre, post, hf, hp⟩
      · simp only [hst, ↓reduceIte]; exact ⟨⟨hc, Or.inl hst⟩, [], by simp, by simp⟩
      · by_cases hst : s.stopped.isSome
        · simp only [hst, ↓reduceIte]; exact ⟨⟨hc, Or.inl hst⟩, [], by simp, by simp⟩
        · simp only [hst]
          refine ⟨⟨hc, Or.inr ⟨pre, post ++ [.account a], ?_, hp⟩⟩, [], by simp, by simp⟩
          simp [hf]
  | engine =>
    simp only [step, stepEngine]
    by_cases hst : s.stopped.isSome
    · simp only [hst, ↓reduceIte]; exact ⟨⟨hc, Or.inl hst⟩, [], by simp, by simp⟩
    · rcases hj with h' | ⟨pre, post, hf, hp⟩
      · exact absurd h' hst
      · simp only [hst]
        cases pre with
        | nil =>
          simp only [List.nil_append] at hf
          simp only [hf]
          refine ⟨⟨hc, Or.inl ?_⟩, [Ev.shutdown], by simp, by simp [Ev.isHandle]⟩
          simp [Ev.isShutdown]
        | cons x pre' =>
          simp only [List.cons_append] at hf
          simp only [hf]
          refine ⟨⟨hc, ?_⟩, [x], by simp, by intro e he; simp at he; rw [he]; exact hp x (by simp)⟩
          by_cases hx : x.isShutdown = true
          · left; simp [hx]
          · by_cases hfat : E.fatal s.eng.state x = true
            · left; simp [hx, hfat]
            · right; exact ⟨pre', post, rfl, fun e he => hp e (by simp [he])⟩

theorem afterClose_run (E : Engine σ μ α κ ρ) (X : Exchange χ ρ α) (acts : List (Act μ κ))
    (s : Sys σ χ μ α κ ρ) (h : AfterClose s) :
    AfterClose (run E X s acts) ∧
      ∃ l, (run E X s acts).processed = s.processed ++ l ∧ ∀ e ∈ l, e.isHandle = true := by
  induction acts generalizing s with
  | nil => exact ⟨h, [], by simp [run], by simp⟩
  | cons a acts ih =>
    obtain ⟨hj, l1, h1, h2⟩ := afterClose_step E X s a h
    obtain ⟨hj', l2, g1, g2⟩ := ih _ hj
    refine ⟨hj', l1 ++ l2, ?_, ?_⟩
    · show (run E X (step E X s a) acts).processed = _
      rw [g1, h1, List.append_assoc]
    · intro e he; rcases List.mem_append.mp he with he | he
      · exact h2 e he
      · exact g2 e he

/-! ### the death of the execution task of the concrete execution side (review B C20S-1) -/

section ExecDeath
open BarterModel.Engine

theorem cRespond_dead (x : CExch) (r : Req) (h : x.dead = true) : cRespond x r = (x, []) := by
  simp [cRespond, h]

theorem cRespondLive_dead (x : CExch) (r : Req) : (cRespondLive x r).1.dead = x.dead := by
  cases r with
  | cnl r => rfl
  | opn r =>
    simp only [cRespondLive]
    split
    · cases r.side <;> simp only <;> split <;> rfl
    · rfl

/-- one request: the task is dead afterwards iff it was dead or the request is foreign -/
theorem cRespond_dead_iff (x : CExch) (r : Req) :
    (cRespond x r).1.dead = (x.dead || cForeign x r) := by
  unfold cRespond
  cases hd : x.dead with
  | true => simp [hd]
  | false =>
    cases hf : cForeign x r with
    | true => simp
    | false => simp [cRespondLive_dead, hd]

theorem cRespondLive_k (x : CExch) (r : Req) : (cRespondLive x r).1.k = x.k := by
  cases r with
  | cnl r => rfl
  | opn r =>
    simp only [cRespondLive]
    split
    · cases r.side <;> simp only <;> split <;> rfl
    · rfl

theorem cRespond_k (x : CExch) (r : Req) : (cRespond x r).1.k = x.k := by
  unfold cRespond
  split
  · rfl
  · split
    · rfl
    · exact cRespondLive_k x r

theorem respondAll_k (rs : List Req) (x : CExch) : (respondAll cExchange x rs).1.k = x.k := by
  induction rs generalizing x with
  | nil => rfl
  | cons r rs ih =>
    have e : (respondAll cExchange x (r :: rs)).1 = (respondAll cExchange (cRespond x r).1 rs).1 := rfl
    rw [e, ih]; exact cRespond_k x r

/-- a request list: dead afterwards iff dead before or some request names an instrument the mocked
exchange does not list -/
theorem respondAll_dead_iff (rs : List Req) (x : CExch) :
    (respondAll cExchange x rs).1.dead = (x.dead || rs.any (fun r => decide (x.k ≤ r.key.instrument))) := by
  induction rs generalizing x with
  | nil => simp [respondAll]
  | cons r rs ih =>
    have e : respondAll cExchange x (r :: rs) =
        ((respondAll cExchange (cRespond x r).1 rs).1,
          (cRespond x r).2 ++ (respondAll cExchange (cRespond x r).1 rs).2) := rfl
    rw [e]
    simp only [List.any_cons]
    rw [ih, cRespond_dead_iff, cRespond_k, Bool.or_assoc]
    rfl

/-- a dead execution side answers nothing, whatever it is asked -/
theorem respondAll_dead (rs : List Req) (x : CExch) (h : x.dead = true) :
    respondAll cExchange x rs = (x, []) := by
  induction rs generalizing x with
  | nil => rfl
  | cons r rs ih =>
    have e : respondAll cExchange x (r :: rs) =
        ((respondAll cExchange (cRespond x r).1 rs).1,
          (cRespond x r).2 ++ (respondAll cExchange (cRespond x r).1 rs).2) := rfl
    rw [e, cRespond_dead x r h]
    simp [ih x h]

end ExecDeath

end BarterModel.SysHandle
