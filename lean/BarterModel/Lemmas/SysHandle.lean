import BarterModel.Model.SysHandle
/-! Helper lemmas for the sub-check C20S (`Props/C20S.lean`): feed algebra, the four runners, the
invariant of the scheduler-driven system. -/
namespace BarterModel.SysHandle

variable {σ χ μ α κ ρ : Type}

/-! ### feed algebra -/

@[simp] theorem marketOf_nil : marketOf ([] : List (Ev μ α κ)) = [] := rfl
@[simp] theorem accountOf_nil : accountOf ([] : List (Ev μ α κ)) = [] := rfl
@[simp] theorem handleOf_nil : handleOf ([] : List (Ev μ α κ)) = [] := rfl
@[simp] theorem marketOf_append (a b : List (Ev μ α κ)) : marketOf (a ++ b) = marketOf a ++ marketOf b := by
  simp [marketOf, List.filterMap_append]
@[simp] theorem accountOf_append (a b : List (Ev μ α κ)) : accountOf (a ++ b) = accountOf a ++ accountOf b := by
  simp [accountOf, List.filterMap_append]
@[simp] theorem handleOf_append (a b : List (Ev μ α κ)) : handleOf (a ++ b) = handleOf a ++ handleOf b := by
  simp [handleOf, List.filter_append]

@[simp] theorem marketOf_cons_market (m : μ) (l : List (Ev μ α κ)) : marketOf (.market m :: l) = m :: marketOf l := rfl
@[simp] theorem marketOf_cons_account (a : α) (l : List (Ev μ α κ)) : marketOf (.account a :: l) = marketOf l := rfl
@[simp] theorem marketOf_cons_command (c : κ) (l : List (Ev μ α κ)) : marketOf (.command c :: l) = marketOf l := rfl
@[simp] theorem marketOf_cons_trading (b : Bool) (l : List (Ev μ α κ)) : marketOf (.trading b :: l) = marketOf l := rfl
@[simp] theorem marketOf_cons_shutdown (l : List (Ev μ α κ)) : marketOf (.shutdown :: l) = marketOf l := rfl

@[simp] theorem accountOf_cons_market (m : μ) (l : List (Ev μ α κ)) : accountOf (.market m :: l) = accountOf l := rfl
@[simp] theorem accountOf_cons_account (a : α) (l : List (Ev μ α κ)) : accountOf (.account a :: l) = a :: accountOf l := rfl
@[simp] theorem accountOf_cons_command (c : κ) (l : List (Ev μ α κ)) : accountOf (.command c :: l) = accountOf l := rfl
@[simp] theorem accountOf_cons_trading (b : Bool) (l : List (Ev μ α κ)) : accountOf (.trading b :: l) = accountOf l := rfl
@[simp] theorem accountOf_cons_shutdown (l : List (Ev μ α κ)) : accountOf (.shutdown :: l) = accountOf l := rfl

@[simp] theorem handleOf_cons_market (m : μ) (l : List (Ev μ α κ)) : handleOf (.market m :: l) = handleOf l := rfl
@[simp] theorem handleOf_cons_account (a : α) (l : List (Ev μ α κ)) : handleOf (.account a :: l) = handleOf l := rfl
@[simp] theorem handleOf_cons_command (c : κ) (l : List (Ev μ α κ)) : handleOf (.command c :: l) = .command c :: handleOf l := rfl
@[simp] theorem handleOf_cons_trading (b : Bool) (l : List (Ev μ α κ)) : handleOf (.trading b :: l) = .trading b :: handleOf l := rfl
@[simp] theorem handleOf_cons_shutdown (l : List (Ev μ α κ)) : handleOf (.shutdown :: l) = .shutdown :: handleOf l := rfl

theorem handleOf_cons_of_handle (e : Ev μ α κ) (l : List (Ev μ α κ)) (h : e.isHandle = true) :
    handleOf (e :: l) = e :: handleOf l := by
  cases e <;> simp_all [Ev.isHandle]

theorem handleOf_cons_of_not_handle (e : Ev μ α κ) (l : List (Ev μ α κ)) (h : e.isHandle = false) :
    handleOf (e :: l) = handleOf l := by
  cases e <;> simp_all [Ev.isHandle]

theorem marketOf_cons_of_handle (e : Ev μ α κ) (l : List (Ev μ α κ)) (h : e.isHandle = true) :
    marketOf (e :: l) = marketOf l := by
  cases e <;> simp_all [Ev.isHandle]

theorem accountOf_cons_of_handle (e : Ev μ α κ) (l : List (Ev μ α κ)) (h : e.isHandle = true) :
    accountOf (e :: l) = accountOf l := by
  cases e <;> simp_all [Ev.isHandle]

theorem mem_handleOf {e : Ev μ α κ} {l : List (Ev μ α κ)} : e ∈ handleOf l ↔ e ∈ l ∧ e.isHandle = true := by
  simp [handleOf]

theorem shutdown_mem_handleOf (l : List (Ev μ α κ)) : Ev.shutdown ∈ handleOf l ↔ Ev.shutdown ∈ l := by
  simp [mem_handleOf, Ev.isHandle]

theorem Call.event_isHandle (c : Call κ) : (c.event : Ev μ α κ).isHandle = true := by
  cases c <;> rfl

theorem Call.event_ne_shutdown (c : Call κ) : (c.event : Ev μ α κ) ≠ .shutdown := by
  cases c <;> simp [Call.event]

/-! ### the engine along a history -/

/-- The engine (state and sequence) after `process_with_audit` over a history. -/
def engAfter (E : Engine σ μ α κ ρ) (e : Eng σ) (h : List (Ev μ α κ)) : Eng σ :=
  h.foldl (fun e ev => (processWithAudit E e ev).1) e

@[simp] theorem engAfter_nil (E : Engine σ μ α κ ρ) (e : Eng σ) : engAfter E e [] = e := rfl

theorem engAfter_cons (E : Engine σ μ α κ ρ) (e : Eng σ) (ev : Ev μ α κ) (h : List (Ev μ α κ)) :
    engAfter E e (ev :: h) = engAfter E (processWithAudit E e ev).1 h := rfl

theorem engAfter_append (E : Engine σ μ α κ ρ) (e : Eng σ) (h : List (Ev μ α κ)) (ev : Ev μ α κ) :
    engAfter E e (h ++ [ev]) = (processWithAudit E (engAfter E e h) ev).1 := by
  simp [engAfter, List.foldl_append]

theorem engAfter_state (E : Engine σ μ α κ ρ) (e : Eng σ) (h : List (Ev μ α κ)) :
    (engAfter E e h).state = engFold E e.state h := by
  induction h generalizing e with
  | nil => rfl
  | cons ev h ih => rw [engAfter_cons, ih]; rfl

theorem engAfter_seq (E : Engine σ μ α κ ρ) (e : Eng σ) (h : List (Ev μ α κ)) :
    (engAfter E e h).seq = e.seq + h.length := by
  induction h generalizing e with
  | nil => rfl
  | cons ev h ih => rw [engAfter_cons, ih]; simp [processWithAudit]; omega

theorem engFold_append (E : Engine σ μ α κ ρ) (e0 : σ) (h : List (Ev μ α κ)) (e : Ev μ α κ) :
    engFold E e0 (h ++ [e]) = (E.process (engFold E e0 h) e).1 := by
  simp [engFold, List.foldl_append]

theorem engFold_append_list (E : Engine σ μ α κ ρ) (e0 : σ) (h h' : List (Ev μ α κ)) :
    engFold E e0 (h ++ h') = engFold E (engFold E e0 h) h' := by
  simp [engFold, List.foldl_append]

@[simp] theorem ticksOf_nil (E : Engine σ μ α κ ρ) (e : Eng σ) : ticksOf E e [] = [] := rfl

theorem ticksOf_append (E : Engine σ μ α κ ρ) (e : Eng σ) (h : List (Ev μ α κ)) (ev : Ev μ α κ) :
    ticksOf E e (h ++ [ev]) = ticksOf E e h ++ [(processWithAudit E (engAfter E e h) ev).2.1] := by
  induction h generalizing e with
  | nil => rfl
  | cons x h ih => simp only [List.cons_append, ticksOf, ih, engAfter_cons]

theorem ticksOf_length (E : Engine σ μ α κ ρ) (e : Eng σ) (h : List (Ev μ α κ)) :
    (ticksOf E e h).length = h.length := by
  induction h generalizing e with
  | nil => rfl
  | cons x h ih => simp [ticksOf, ih]

/-- the ticks carry the history's events -/
theorem ticksOf_events (E : Engine σ μ α κ ρ) (e : Eng σ) (h : List (Ev μ α κ)) :
    (ticksOf E e h).filterMap Tick.event? = h := by
  induction h generalizing e with
  | nil => rfl
  | cons x h ih => simp [ticksOf, processWithAudit, Tick.event?, ih]

/-- … with consecutive sequence numbers -/
theorem ticksOf_consecutive (E : Engine σ μ α κ ρ) (e : Eng σ) (h : List (Ev μ α κ)) :
    consecutiveFrom e.seq (ticksOf E e h) = true := by
  induction h generalizing e with
  | nil => rfl
  | cons x h ih =>
    simp only [ticksOf, consecutiveFrom, Bool.and_eq_true]
    refine ⟨by simp [processWithAudit, Tick.seq], ?_⟩
    have := ih (processWithAudit E e x).1
    simpa [processWithAudit] using this

theorem ticksOf_seqs (E : Engine σ μ α κ ρ) (e : Eng σ) (h : List (Ev μ α κ)) :
    (ticksOf E e h).map Tick.seq = List.range' e.seq h.length := by
  induction h generalizing e with
  | nil => rfl
  | cons x h ih =>
    simp only [ticksOf, List.map_cons, List.length_cons, List.range'_succ]
    rw [ih]; simp [processWithAudit, Tick.seq]

/-! ### the four runners -/

/-- The prefix of a feed a runner consumes: up to and including the first terminal tick. -/
def consumed (E : Engine σ μ α κ ρ) (e : Eng σ) : List (Ev μ α κ) → List (Ev μ α κ)
  | [] => []
  | ev :: rest =>
    if (processWithAudit E e ev).2.1.terminal then [ev]
    else ev :: consumed E (processWithAudit E e ev).1 rest

/-- The runner ran out of feed (every sender dropped) before any terminal tick. -/
def feedEnds (E : Engine σ μ α κ ρ) (e : Eng σ) : List (Ev μ α κ) → Bool
  | [] => true
  | ev :: rest =>
    if (processWithAudit E e ev).2.1.terminal then false
    else feedEnds E (processWithAudit E e ev).1 rest

theorem asyncRun_eq_syncRun (E : Engine σ μ α κ ρ) (e : Eng σ) (feed : List (Ev μ α κ)) :
    asyncRun E e feed = syncRun E e feed := by
  induction feed generalizing e with
  | nil => rfl
  | cons ev rest ih => simp only [asyncRun, syncRun, ih]

theorem asyncRunWithAudit_eq_syncRunWithAudit (E : Engine σ μ α κ ρ) (e : Eng σ)
    (feed : List (Ev μ α κ)) : asyncRunWithAudit E e feed = syncRunWithAudit E e feed := by
  induction feed generalizing e with
  | nil => rfl
  | cons ev rest ih => simp only [asyncRunWithAudit, syncRunWithAudit, ih]

/-- Sending the audits changes nothing else. -/
theorem syncRunWithAudit_eq_syncRun (E : Engine σ μ α κ ρ) (e : Eng σ) (feed : List (Ev μ α κ)) :
    syncRunWithAudit E e feed = { syncRun E e feed with sent := (syncRunWithAudit E e feed).sent } := by
  induction feed generalizing e with
  | nil => rfl
  | cons ev rest ih =>
    simp only [syncRunWithAudit, syncRun]
    split
    · rfl
    · rw [ih]

theorem syncRun_sent (E : Engine σ μ α κ ρ) (e : Eng σ) (feed : List (Ev μ α κ)) :
    (syncRun E e feed).sent = [] := by
  induction feed generalizing e with
  | nil => rfl
  | cons ev rest ih =>
    simp only [syncRun]
    split
    · rfl
    · exact ih _

theorem syncRun_engine (E : Engine σ μ α κ ρ) (e : Eng σ) (feed : List (Ev μ α κ)) :
    (syncRun E e feed).engine =
      if feedEnds E e feed then ⟨(engAfter E e (consumed E e feed)).state, (engAfter E e (consumed E e feed)).seq + 1⟩
      else engAfter E e (consumed E e feed) := by
  induction feed generalizing e with
  | nil => rfl
  | cons ev rest ih =>
    simp only [syncRun, consumed, feedEnds]
    split
    · simp [engAfter]
    · simp only [engAfter_cons]; exact ih _

theorem syncRun_rest (E : Engine σ μ α κ ρ) (e : Eng σ) (feed : List (Ev μ α κ)) :
    consumed E e feed ++ (syncRun E e feed).rest = feed := by
  induction feed generalizing e with
  | nil => rfl
  | cons ev rest ih =>
    simp only [syncRun, consumed]
    split
    · rfl
    · simp only [List.cons_append]; rw [ih]

theorem syncRunWithAudit_sent (E : Engine σ μ α κ ρ) (e : Eng σ) (feed : List (Ev μ α κ)) :
    (syncRunWithAudit E e feed).sent =
      ticksOf E e (consumed E e feed) ++
        (if feedEnds E e feed then [.feedEnded (engAfter E e (consumed E e feed)).seq] else []) := by
  induction feed generalizing e with
  | nil => rfl
  | cons ev rest ih =>
    simp only [syncRunWithAudit, consumed, feedEnds]
    split
    · simp [ticksOf]
    · simp only [ticksOf, engAfter_cons, List.cons_append]; rw [ih]

/-- the returned shutdown audit is the last audit sent -/
theorem syncRunWithAudit_last (E : Engine σ μ α κ ρ) (e : Eng σ) (feed : List (Ev μ α κ)) :
    (syncRunWithAudit E e feed).sent.getLast? = some (syncRunWithAudit E e feed).shutdownAudit := by
  induction feed generalizing e with
  | nil => rfl
  | cons ev rest ih =>
    simp only [syncRunWithAudit]
    split
    · rfl
    · have := ih (processWithAudit E e ev).1
      simp only [List.getLast?_cons, this]; rfl

/-- nothing is processed after a terminal tick: no consumed event but the last one is terminal -/
theorem consumed_terminal (E : Engine σ μ α κ ρ) (e : Eng σ) (feed : List (Ev μ α κ)) :
    (feedEnds E e feed = true → ∀ t ∈ ticksOf E e (consumed E e feed), t.terminal = false) ∧
    (feedEnds E e feed = false → terminalLast (ticksOf E e (consumed E e feed)) = true) := by
  induction feed generalizing e with
  | nil => exact ⟨by simp [consumed], by simp [feedEnds]⟩
  | cons ev rest ih =>
    simp only [consumed, feedEnds]
    split
    · rename_i ht
      exact ⟨by simp, by intro _; simpa [ticksOf, terminalLast] using ht⟩
    · rename_i ht
      have hf : (processWithAudit E e ev).2.1.terminal = false := by simpa using ht
      have := ih (processWithAudit E e ev).1
      constructor
      · intro h t hm
        simp only [ticksOf, List.mem_cons] at hm
        rcases hm with rfl | hm
        · exact hf
        · exact this.1 h t hm
      · intro h
        have h2 := this.2 h
        simp only [ticksOf]
        cases hc : ticksOf E (processWithAudit E e ev).1 (consumed E (processWithAudit E e ev).1 rest) with
        | nil => simp [hc, terminalLast] at h2
        | cons t ts => simp [terminalLast, hf]; simpa [hc] using h2

/-! ### the scheduler-driven system: invariants for every action list -/

/-- the engine as `init_internal` hands it to the runner -/
def eng0 (e0 : σ) (a : AuditMode) : Eng σ := ⟨e0, seq0 a⟩

/-- The execution requests the engine sends along a history, in order. -/
def requestsOf (E : Engine σ μ α κ ρ) (e : Eng σ) : List (Ev μ α κ) → List ρ
  | [] => []
  | ev :: h => (processWithAudit E e ev).2.2 ++ requestsOf E (processWithAudit E e ev).1 h

theorem requestsOf_append (E : Engine σ μ α κ ρ) (e : Eng σ) (h : List (Ev μ α κ)) (ev : Ev μ α κ) :
    requestsOf E e (h ++ [ev]) = requestsOf E e h ++ (processWithAudit E (engAfter E e h) ev).2.2 := by
  induction h generalizing e with
  | nil => simp [requestsOf]
  | cons x h ih => simp only [List.cons_append, requestsOf, ih, List.append_assoc, engAfter_cons]

theorem respondAll_append (X : Exchange χ ρ α) (x : χ) (rs rs' : List ρ) :
    respondAll X x (rs ++ rs') =
      ((respondAll X (respondAll X x rs).1 rs').1,
       (respondAll X x rs).2 ++ (respondAll X (respondAll X x rs).1 rs').2) := by
  induction rs generalizing x with
  | nil => simp [respondAll]
  | cons r rs ih => simp [respondAll, ih]

theorem perm_cons_eraseIdx {γ : Type} (l : List γ) (k : Nat) (a : γ) (h : l[k]? = some a) :
    (a :: l.eraseIdx k).Perm l := by
  induction l generalizing k with
  | nil => simp at h
  | cons x l ih =>
    cases k with
    | zero => simp at h; subst h; simp
    | succ k =>
      simp only [List.getElem?_cons_succ] at h
      simp only [List.eraseIdx_cons_succ]
      exact (List.Perm.swap x a _).trans ((ih k h).cons x)

/-- Engine, audit stream and execution side are functions of the processed history. -/
structure OwnInv (E : Engine σ μ α κ ρ) (X : Exchange χ ρ α) (e0 : σ) (x0 : χ) (acc0 : List α)
    (a : AuditMode) (s : Sys σ χ μ α κ ρ) : Prop where
  mode : s.auditMode = a
  own : s.eng = engAfter E (eng0 e0 a) s.processed
  ticks : s.ticks = if a = .enabled then ticksOf E (eng0 e0 a) s.processed else []
  snap : s.snapshot = if a = .enabled then some (e0, 0) else none
  reqs : s.requests = requestsOf E (eng0 e0 a) s.processed
  exch : s.exch = (respondAll X x0 s.requests).1
  produced : s.produced = acc0 ++ (respondAll X x0 s.requests).2

theorem ownInv_init (E : Engine σ μ α κ ρ) (X : Exchange χ ρ α) (b : SystemBuild σ) (x0 : χ)
    (acc0 : List α) :
    OwnInv E X b.engine x0 acc0 b.auditMode (b.init x0 acc0 : Sys σ χ μ α κ ρ) := by
  constructor <;> simp [SystemBuild.init, eng0, requestsOf, respondAll]

theorem ownInv_step (E : Engine σ μ α κ ρ) (X : Exchange χ ρ α) (e0 : σ) (x0 : χ) (acc0 : List α)
    (a : AuditMode) (s : Sys σ χ μ α κ ρ) (h : OwnInv E X e0 x0 acc0 a s) (act : Act μ κ) :
    OwnInv E X e0 x0 acc0 a (step E X s act) := by
  cases act with
  | push m => exact ⟨h.mode, h.own, h.ticks, h.snap, h.reqs, h.exch, h.produced⟩
  | fwdMarket =>
    simp only [step]; unfold stepFwdMarket
    split
    · exact h
    · split <;> exact ⟨h.mode, h.own, h.ticks, h.snap, h.reqs, h.exch, h.produced⟩
  | fwdAccount k =>
    simp only [step]; unfold stepFwdAccount
    split
    · exact h
    · split <;> exact ⟨h.mode, h.own, h.ticks, h.snap, h.reqs, h.exch, h.produced⟩
  | call c =>
    simp only [step]; unfold stepCall send
    split
    · exact h
    · split <;> exact ⟨h.mode, h.own, h.ticks, h.snap, h.reqs, h.exch, h.produced⟩
  | close how =>
    simp only [step]; unfold stepClose send
    split
    · exact h
    · split <;> exact ⟨h.mode, h.own, h.ticks, h.snap, h.reqs, h.exch, h.produced⟩
  | takeAudit =>
    simp only [step]; unfold stepTakeAudit
    split
    · exact h
    · exact ⟨h.mode, h.own, h.ticks, h.snap, h.reqs, h.exch, h.produced⟩
  | engine =>
    simp only [step]; unfold stepEngine
    split
    · exact h
    · split
      · exact h
      · rename_i e rest hf
        refine ⟨h.mode, ?_, ?_, h.snap, ?_, ?_, ?_⟩
        · simp only [engAfter_append, ← h.own]
        · simp only [h.mode, ticksOf_append, ← h.own, h.ticks]
          split <;> simp
        · simp only [requestsOf_append, ← h.own, h.reqs]
        · simp only [respondAll_append, ← h.exch]
        · simp only [respondAll_append, ← h.exch, h.produced, List.append_assoc]

theorem ownInv_run (E : Engine σ μ α κ ρ) (X : Exchange χ ρ α) (e0 : σ) (x0 : χ) (acc0 : List α)
    (a : AuditMode) (acts : List (Act μ κ)) (s : Sys σ χ μ α κ ρ) (h : OwnInv E X e0 x0 acc0 a s) :
    OwnInv E X e0 x0 acc0 a (run E X s acts) := by
  induction acts generalizing s with
  | nil => exact h
  | cons act acts ih => exact ih _ (ownInv_step E X e0 x0 acc0 a s h act)

/-- Conservation of what flows through the feed: per source nothing is invented, duplicated or
reordered; `Shutdown` is sent at most once, as the last thing the handle ever sends. -/
structure FlowInv (s : Sys σ χ μ α κ ρ) : Prop where
  handle : handleOf s.processed ++ handleOf s.feed = s.sent
  mkt : s.stopped = none → marketOf s.processed ++ marketOf s.feed ++ s.market = s.pushed
  mktPre : ∃ rest, marketOf s.processed ++ marketOf s.feed ++ rest = s.pushed
  acc : s.stopped = none → (accountOf s.processed ++ accountOf s.feed ++ s.pending).Perm s.produced
  accSub : ∃ rest, (accountOf s.processed ++ accountOf s.feed ++ rest).Perm s.produced
  sdOpen : s.closed = none → Ev.shutdown ∉ s.sent
  sdLast : ∀ xs y, s.sent = xs ++ [y] → Ev.shutdown ∉ xs

theorem flowInv_init (b : SystemBuild σ) (x0 : χ) (acc0 : List α) :
    FlowInv (b.init x0 acc0 : Sys σ χ μ α κ ρ) := by
  refine ⟨rfl, fun _ => rfl, ⟨[], rfl⟩, fun _ => ?_, ⟨acc0, ?_⟩, fun _ => ?_, ?_⟩
  · simp [SystemBuild.init]
  · simp [SystemBuild.init]
  · simp [SystemBuild.init]
  · intro xs y hxy; simp [SystemBuild.init] at hxy

theorem stopped_none_of_not_isSome {s : Sys σ χ μ α κ ρ} (h : ¬ s.stopped.isSome = true) :
    s.stopped = none := by
  cases hs : s.stopped <;> simp_all

theorem flowInv_step (E : Engine σ μ α κ ρ) (X : Exchange χ ρ α) (s : Sys σ χ μ α κ ρ)
    (h : FlowInv s) (act : Act μ κ) : FlowInv (step E X s act) := by
  cases act with
  | push m =>
    refine ⟨h.handle, ?_, ?_, h.acc, h.accSub, h.sdOpen, h.sdLast⟩
    · intro hc
      have := h.mkt hc
      simp only [step, stepPush] at hc ⊢
      rw [← this]; simp [List.append_assoc]
    · obtain ⟨rest, hr⟩ := h.mktPre
      exact ⟨rest ++ [m], by simp only [step, stepPush]; rw [← hr]; simp [List.append_assoc]⟩
  | fwdMarket =>
    simp only [step]; unfold stepFwdMarket
    split
    · exact h
    · rename_i m ms hm
      split
      · rename_i hs
        refine ⟨h.handle, ?_, h.mktPre, ?_, h.accSub, h.sdOpen, h.sdLast⟩
        · intro hc; simp [show s.stopped = none from hc] at hs
        · intro hc; simp [show s.stopped = none from hc] at hs
      · rename_i hs
        have h0 := stopped_none_of_not_isSome hs
        refine ⟨by simpa using h.handle, ?_, ?_, ?_, ?_, h.sdOpen, h.sdLast⟩
        · intro _; have := h.mkt h0; simp [hm] at this ⊢; exact this
        · exact ⟨ms, by have := h.mkt h0; simp [hm] at this ⊢; exact this⟩
        · intro _; simpa using h.acc h0
        · simpa using h.accSub
  | fwdAccount k =>
    simp only [step]; unfold stepFwdAccount
    split
    · exact h
    · rename_i a ha
      split
      · rename_i hs
        refine ⟨h.handle, ?_, h.mktPre, ?_, h.accSub, h.sdOpen, h.sdLast⟩
        · intro hc; simp [show s.stopped = none from hc] at hs
        · intro hc; simp [show s.stopped = none from hc] at hs
      · rename_i hs
        have h0 := stopped_none_of_not_isSome hs
        have hp : (accountOf s.processed ++ accountOf (s.feed ++ [Ev.account a]) ++ s.pending.eraseIdx k).Perm
            s.produced := by
          have hp := h.acc h0
          simp only [accountOf_append, accountOf_cons_account, accountOf_nil, List.append_assoc]
          refine List.Perm.trans ?_ (by simpa [List.append_assoc] using hp)
          exact List.Perm.append_left _ (List.Perm.append_left _ (perm_cons_eraseIdx _ k a ha))
        refine ⟨by simpa using h.handle, ?_, ?_, fun _ => hp, ⟨_, hp⟩, h.sdOpen, h.sdLast⟩
        · intro _; simpa using h.mkt h0
        · simpa using h.mktPre
  | takeAudit =>
    simp only [step]; unfold stepTakeAudit
    split
    · exact h
    · exact ⟨h.handle, h.mkt, h.mktPre, h.acc, h.accSub, h.sdOpen, h.sdLast⟩
  | call c =>
    simp only [step]; unfold stepCall send
    split
    · exact h
    · rename_i hcl
      have hcn : s.closed = none := by cases hx : s.closed <;> simp_all
      split
      · exact ⟨h.handle, h.mkt, h.mktPre, h.acc, h.accSub, h.sdOpen, h.sdLast⟩
      · refine ⟨?_, ?_, ?_, ?_, ?_, ?_, ?_⟩
        · simp only [handleOf_append, handleOf_cons_of_handle _ _ (Call.event_isHandle c), handleOf_nil]
          rw [← h.handle]; simp [List.append_assoc]
        · intro hc; have := h.mkt hc
          simpa [marketOf_cons_of_handle _ _ (Call.event_isHandle c)] using this
        · simpa [marketOf_cons_of_handle _ _ (Call.event_isHandle c)] using h.mktPre
        · intro hc; have := h.acc hc
          simpa [accountOf_cons_of_handle _ _ (Call.event_isHandle c)] using this
        · simpa [accountOf_cons_of_handle _ _ (Call.event_isHandle c)] using h.accSub
        · intro _ hm
          simp only [List.mem_append, List.mem_singleton] at hm
          rcases hm with hm | hm
          · exact h.sdOpen hcn hm
          · exact Call.event_ne_shutdown c hm.symm
        · intro xs y hxy
          have := List.append_inj' hxy (by simp)
          rw [← this.1]; exact h.sdOpen hcn
  | close how =>
    simp only [step]; unfold stepClose send
    split
    · exact h
    · rename_i hcl
      have hcn : s.closed = none := by cases hx : s.closed <;> simp_all
      split
      · refine ⟨h.handle, h.mkt, h.mktPre, h.acc, h.accSub, ?_, h.sdLast⟩
        intro hc; simp at hc
      · refine ⟨?_, ?_, ?_, ?_, ?_, ?_, ?_⟩
        · simp only [handleOf_append, handleOf_cons_shutdown, handleOf_nil]
          rw [← h.handle]; simp [List.append_assoc]
        · intro hc; have := h.mkt hc; simpa using this
        · simpa using h.mktPre
        · intro hc; have := h.acc hc; simpa using this
        · simpa using h.accSub
        · intro hc; simp at hc
        · intro xs y hxy
          have := List.append_inj' hxy (by simp)
          rw [← this.1]; exact h.sdOpen hcn
  | engine =>
    simp only [step]; unfold stepEngine
    split
    · exact h
    · rename_i hs
      have h0 := stopped_none_of_not_isSome hs
      split
      · exact h
      · rename_i e rest hf
        have hh := h.handle
        have hm := h.mkt h0
        have ha := h.acc h0
        rw [hf] at hh hm ha
        have hh' : handleOf (s.processed ++ [e]) ++ handleOf rest = s.sent := by
          rw [← hh]; cases e <;> simp
        have hm' : marketOf (s.processed ++ [e]) ++ marketOf rest ++ s.market = s.pushed := by
          rw [← hm]; cases e <;> simp
        have ha' : (accountOf (s.processed ++ [e]) ++ accountOf rest ++
            (s.pending ++ (respondAll X s.exch (processWithAudit E s.eng e).2.2).2)).Perm
            (s.produced ++ (respondAll X s.exch (processWithAudit E s.eng e).2.2).2) := by
          have e1 : accountOf (s.processed ++ [e]) ++ accountOf rest ++
              (s.pending ++ (respondAll X s.exch (processWithAudit E s.eng e).2.2).2) =
              (accountOf s.processed ++ accountOf (e :: rest) ++ s.pending) ++
                (respondAll X s.exch (processWithAudit E s.eng e).2.2).2 := by
            cases e <;> simp [List.append_assoc]
          rw [e1]; exact ha.append_right _
        refine ⟨hh', fun _ => hm', ⟨s.market, hm'⟩, fun _ => ha', ⟨_, ha'⟩, h.sdOpen, h.sdLast⟩

theorem flowInv_run (E : Engine σ μ α κ ρ) (X : Exchange χ ρ α) (acts : List (Act μ κ))
    (s : Sys σ χ μ α κ ρ) (h : FlowInv s) : FlowInv (run E X s acts) := by
  induction acts generalizing s with
  | nil => exact h
  | cons act acts ih => exact ih _ (flowInv_step E X s h act)

/-- The runner stops exactly on the first terminal tick and hands that tick back. -/
structure HaltInv (E : Engine σ μ α κ ρ) (e0 : σ) (a : AuditMode) (s : Sys σ χ μ α κ ρ) : Prop where
  running : s.stopped = none →
    (∀ t ∈ ticksOf E (eng0 e0 a) s.processed, t.terminal = false) ∧ s.shutdownAudit = none
  halted : ∀ st, s.stopped = some st → ∃ pre last, s.processed = pre ++ [last] ∧
    (∀ t ∈ ticksOf E (eng0 e0 a) pre, t.terminal = false) ∧
    s.shutdownAudit = some (processWithAudit E (engAfter E (eng0 e0 a) pre) last).2.1 ∧
    (processWithAudit E (engAfter E (eng0 e0 a) pre) last).2.1.terminal = true ∧
    (st = .shutdown ↔ last.isShutdown = true)

theorem haltInv_init (E : Engine σ μ α κ ρ) (b : SystemBuild σ) (x0 : χ) (acc0 : List α) :
    HaltInv E b.engine b.auditMode (b.init x0 acc0 : Sys σ χ μ α κ ρ) := by
  refine ⟨fun _ => ⟨by simp [SystemBuild.init], rfl⟩, ?_⟩
  intro st hst; simp [SystemBuild.init] at hst

theorem haltInv_step (E : Engine σ μ α κ ρ) (X : Exchange χ ρ α) (e0 : σ) (a : AuditMode)
    (s : Sys σ χ μ α κ ρ) (hown : s.eng = engAfter E (eng0 e0 a) s.processed)
    (h : HaltInv E e0 a s) (act : Act μ κ) : HaltInv E e0 a (step E X s act) := by
  cases act with
  | push m => exact ⟨h.running, h.halted⟩
  | fwdMarket =>
    simp only [step]; unfold stepFwdMarket
    split
    · exact h
    · split <;> exact ⟨h.running, h.halted⟩
  | fwdAccount k =>
    simp only [step]; unfold stepFwdAccount
    split
    · exact h
    · split <;> exact ⟨h.running, h.halted⟩
  | call c =>
    simp only [step]; unfold stepCall send
    split
    · exact h
    · split <;> exact ⟨h.running, h.halted⟩
  | close how =>
    simp only [step]; unfold stepClose send
    split
    · exact h
    · split <;> exact ⟨h.running, h.halted⟩
  | takeAudit =>
    simp only [step]; unfold stepTakeAudit
    split
    · exact h
    · exact ⟨h.running, h.halted⟩
  | engine =>
    simp only [step]; unfold stepEngine
    split
    · exact h
    · rename_i hs
      have h0 := stopped_none_of_not_isSome hs
      split
      · exact h
      · rename_i e rest hf
        have hrun := h.running h0
        have hterm : (processWithAudit E s.eng e).2.1.terminal = (e.isShutdown || E.fatal s.eng.state e) := rfl
        by_cases hsd : e.isShutdown = true
        · refine ⟨?_, ?_⟩
          · intro hc; simp [hsd] at hc
          · intro st hst
            simp only [hsd, ↓reduceIte, Option.some.injEq] at hst
            refine ⟨s.processed, e, rfl, hrun.1, ?_, ?_, ?_⟩
            · rw [← hown]; simp [hterm, hsd]
            · rw [← hown]; simp [hterm, hsd]
            · rw [← hst]; simp [hsd]
        · by_cases hfat : E.fatal s.eng.state e = true
          · refine ⟨?_, ?_⟩
            · intro hc; simp [hsd, hfat] at hc
            · intro st hst
              have hsd' : e.isShutdown = false := by simpa using hsd
              simp [hsd', hfat] at hst
              refine ⟨s.processed, e, rfl, hrun.1, ?_, ?_, ?_⟩
              · rw [← hown]; simp [hterm, hfat]
              · rw [← hown]; simp [hterm, hfat]
              · rw [← hst]; simp [hsd']
          · have hsd' : e.isShutdown = false := by simpa using hsd
            have hfat' : E.fatal s.eng.state e = false := by simpa using hfat
            refine ⟨?_, ?_⟩
            · intro _
              refine ⟨?_, by simp [hterm, hsd', hfat']⟩
              intro t ht
              rw [ticksOf_append, List.mem_append, List.mem_singleton] at ht
              rcases ht with ht | ht
              · exact hrun.1 t ht
              · rw [ht, ← hown, hterm]; simp [hsd', hfat']
            · intro st hst; simp [hsd', hfat'] at hst

/-- All three invariants together, for a system started by `SystemBuild::init`. -/
structure Inv (E : Engine σ μ α κ ρ) (X : Exchange χ ρ α) (e0 : σ) (x0 : χ) (acc0 : List α)
    (a : AuditMode) (s : Sys σ χ μ α κ ρ) : Prop where
  own : OwnInv E X e0 x0 acc0 a s
  flow : FlowInv s
  halt : HaltInv E e0 a s

theorem inv_init (E : Engine σ μ α κ ρ) (X : Exchange χ ρ α) (b : SystemBuild σ) (x0 : χ)
    (acc0 : List α) :
    Inv E X b.engine x0 acc0 b.auditMode (b.init x0 acc0 : Sys σ χ μ α κ ρ) :=
  ⟨ownInv_init E X b x0 acc0, flowInv_init b x0 acc0, haltInv_init E b x0 acc0⟩

theorem inv_step (E : Engine σ μ α κ ρ) (X : Exchange χ ρ α) (e0 : σ) (x0 : χ) (acc0 : List α)
    (a : AuditMode) (s : Sys σ χ μ α κ ρ) (h : Inv E X e0 x0 acc0 a s) (act : Act μ κ) :
    Inv E X e0 x0 acc0 a (step E X s act) :=
  ⟨ownInv_step E X e0 x0 acc0 a s h.own act, flowInv_step E X s h.flow act,
   haltInv_step E X e0 a s h.own.own h.halt act⟩

theorem inv_run (E : Engine σ μ α κ ρ) (X : Exchange χ ρ α) (e0 : σ) (x0 : χ) (acc0 : List α)
    (a : AuditMode) (acts : List (Act μ κ)) (s : Sys σ χ μ α κ ρ) (h : Inv E X e0 x0 acc0 a s) :
    Inv E X e0 x0 acc0 a (run E X s acts) := by
  induction acts generalizing s with
  | nil => exact h
  | cons act acts ih => exact ih _ (inv_step E X e0 x0 acc0 a s h act)

/-- Every state reachable from `SystemBuild::init` satisfies the invariants. -/
theorem inv_reach (E : Engine σ μ α κ ρ) (X : Exchange χ ρ α) (b : SystemBuild σ) (x0 : χ)
    (acc0 : List α) (acts : List (Act μ κ)) :
    Inv E X b.engine x0 acc0 b.auditMode (run E X (b.init x0 acc0) acts) :=
  inv_run E X _ _ _ _ acts _ (inv_init E X b x0 acc0)

/-! ### further consequences used by `Props/C20S.lean` -/

theorem runner_eq (E : Engine σ μ α κ ρ) (m : EngineFeedMode) (a : AuditMode) (e : Eng σ)
    (feed : List (Ev μ α κ)) :
    runner E m a e feed = if a = .enabled then syncRunWithAudit E e feed else syncRun E e feed := by
  cases m <;> cases a <;>
    simp [runner, asyncRunWithAudit_eq_syncRunWithAudit, asyncRun_eq_syncRun]

/-- a history none of whose ticks is terminal contains no `Shutdown` -/
theorem no_shutdown_of_nonterminal (E : Engine σ μ α κ ρ) (e : Eng σ) (h : List (Ev μ α κ))
    (hn : ∀ t ∈ ticksOf E e h, t.terminal = false) : Ev.shutdown ∉ h := by
  induction h generalizing e with
  | nil => simp
  | cons x h ih =>
    simp only [ticksOf, List.mem_cons, forall_eq_or_imp] at hn
    intro hm
    rcases List.mem_cons.mp hm with hx | hx
    · subst hx
      have := hn.1
      simp [processWithAudit, Tick.terminal, Ev.isShutdown] at this
    · exact ih _ hn.2 hx

/-- a feed whose first terminal tick is that of `last`, after the non-terminal `pre` -/
theorem consumed_of_halted (E : Engine σ μ α κ ρ) (e : Eng σ) (pre : List (Ev μ α κ))
    (last : Ev μ α κ) (rest : List (Ev μ α κ))
    (hn : ∀ t ∈ ticksOf E e pre, t.terminal = false)
    (ht : (processWithAudit E (engAfter E e pre) last).2.1.terminal = true) :
    consumed E e (pre ++ last :: rest) = pre ++ [last] ∧ feedEnds E e (pre ++ last :: rest) = false := by
  induction pre generalizing e with
  | nil =>
    simp only [List.nil_append, consumed, feedEnds]
    simp only [engAfter_nil] at ht
    simp [ht]
  | cons x pre ih =>
    simp only [ticksOf, List.mem_cons, forall_eq_or_imp] at hn
    simp only [List.cons_append, consumed, feedEnds, hn.1]
    have := ih (processWithAudit E e x).1 hn.2 (by simpa [engAfter_cons] using ht)
    simp [this.1, this.2]

/-- Once the runner has returned, nothing the engine owns changes any more. -/
theorem step_frozen (E : Engine σ μ α κ ρ) (X : Exchange χ ρ α) (s : Sys σ χ μ α κ ρ)
    (st : Stop) (hs : s.stopped = some st) (act : Act μ κ) :
    (step E X s act).stopped = some st ∧ (step E X s act).processed = s.processed ∧
    (step E X s act).eng = s.eng ∧ (step E X s act).ticks = s.ticks ∧
    (step E X s act).shutdownAudit = s.shutdownAudit ∧ (step E X s act).feed = s.feed ∧
    (step E X s act).exch = s.exch ∧ (step E X s act).requests = s.requests ∧
    (step E X s act).sent = s.sent := by
  cases act with
  | push m => exact ⟨hs, rfl, rfl, rfl, rfl, rfl, rfl, rfl, rfl⟩
  | fwdMarket =>
    simp only [step]; unfold stepFwdMarket
    split
    · exact ⟨hs, rfl, rfl, rfl, rfl, rfl, rfl, rfl, rfl⟩
    · simp [hs]
  | fwdAccount k =>
    simp only [step]; unfold stepFwdAccount
    split
    · exact ⟨hs, rfl, rfl, rfl, rfl, rfl, rfl, rfl, rfl⟩
    · simp [hs]
  | engine =>
    simp only [step]; unfold stepEngine
    simp [hs]
  | call c =>
    simp only [step]; unfold stepCall send
    split
    · exact ⟨hs, rfl, rfl, rfl, rfl, rfl, rfl, rfl, rfl⟩
    · simp [hs]
  | close how =>
    simp only [step]; unfold stepClose send
    split
    · exact ⟨hs, rfl, rfl, rfl, rfl, rfl, rfl, rfl, rfl⟩
    · simp [hs]
  | takeAudit =>
    simp only [step]; unfold stepTakeAudit
    split <;> exact ⟨hs, rfl, rfl, rfl, rfl, rfl, rfl, rfl, rfl⟩

theorem run_frozen (E : Engine σ μ α κ ρ) (X : Exchange χ ρ α) (acts : List (Act μ κ))
    (s : Sys σ χ μ α κ ρ) (st : Stop) (hs : s.stopped = some st) :
    (run E X s acts).stopped = some st ∧ (run E X s acts).processed = s.processed ∧
    (run E X s acts).eng = s.eng ∧ (run E X s acts).ticks = s.ticks ∧
    (run E X s acts).shutdownAudit = s.shutdownAudit ∧ (run E X s acts).feed = s.feed ∧
    (run E X s acts).exch = s.exch ∧ (run E X s acts).requests = s.requests ∧
    (run E X s acts).sent = s.sent := by
  induction acts generalizing s with
  | nil => exact ⟨hs, rfl, rfl, rfl, rfl, rfl, rfl, rfl, rfl⟩
  | cons act acts ih =>
    have h1 := step_frozen E X s st hs act
    have h2 := ih (step E X s act) h1.1
    simp only [run, List.foldl_cons] at h2 ⊢
    obtain ⟨a1, a2, a3, a4, a5, a6, a7, a8, a9⟩ := h1
    obtain ⟨b1, b2, b3, b4, b5, b6, b7, b8, b9⟩ := h2
    exact ⟨b1, b2.trans a2, b3.trans a3, b4.trans a4, b5.trans a5, b6.trans a6, b7.trans a7,
      b8.trans a8, b9.trans a9⟩

theorem run_append (E : Engine σ μ α κ ρ) (X : Exchange χ ρ α) (s : Sys σ χ μ α κ ρ)
    (a b : List (Act μ κ)) : run E X s (a ++ b) = run E X (run E X s a) b := by
  simp [run, List.foldl_append]

/-! `shutdown` vs `abort`: forget which of the two consumed the handle. -/

def Act.norm : Act μ κ → Act μ κ
  | .close _ => .close .graceful
  | a => a

def Sys.norm (s : Sys σ χ μ α κ ρ) : Sys σ χ μ α κ ρ :=
  { s with closed := s.closed.map fun _ => .graceful }

theorem norm_step (E : Engine σ μ α κ ρ) (X : Exchange χ ρ α) (s : Sys σ χ μ α κ ρ) (act : Act μ κ) :
    (step E X s act).norm = step E X s.norm act.norm := by
  cases act with
  | push m => rfl
  | fwdMarket =>
    cases hm : s.market <;> cases hst : s.stopped <;>
      simp [step, stepFwdMarket, Sys.norm, Act.norm, hm, hst]
  | fwdAccount k =>
    cases hp : s.pending[k]? <;> cases hst : s.stopped <;>
      simp [step, stepFwdAccount, Sys.norm, Act.norm, hp, hst]
  | engine =>
    cases hf : s.feed <;> cases hst : s.stopped <;>
      simp [step, stepEngine, Sys.norm, Act.norm, hf, hst]
  | call c =>
    cases hc : s.closed <;> cases hst : s.stopped <;>
      simp [step, stepCall, send, Sys.norm, Act.norm, hc, hst]
  | close how =>
    cases hc : s.closed <;> cases hst : s.stopped <;>
      simp [step, stepClose, send, Sys.norm, Act.norm, hc, hst]
  | takeAudit =>
    cases hc : s.closed <;> simp [step, stepTakeAudit, Sys.norm, Act.norm, hc]

theorem norm_run (E : Engine σ μ α κ ρ) (X : Exchange χ ρ α) (acts : List (Act μ κ))
    (s : Sys σ χ μ α κ ρ) : (run E X s acts).norm = run E X s.norm (acts.map Act.norm) := by
  induction acts generalizing s with
  | nil => rfl
  | cons act acts ih =>
    simp only [run, List.foldl_cons, List.map_cons] at ih ⊢
    rw [ih, norm_step]

/-- `System.audit` is `Some` only in a system built with the audit enabled. -/
theorem held_enabled (E : Engine σ μ α κ ρ) (X : Exchange χ ρ α) (b : SystemBuild σ) (x0 : χ)
    (acc0 : List α) (acts : List (Act μ κ)) :
    (run E X (b.init x0 acc0 : Sys σ χ μ α κ ρ) acts).auditHeld = true → b.auditMode = .enabled := by
  suffices H : ∀ (s : Sys σ χ μ α κ ρ), (s.auditHeld = true → b.auditMode = .enabled) →
      ((run E X s acts).auditHeld = true → b.auditMode = .enabled) by
    exact H _ (by simp [SystemBuild.init])
  induction acts with
  | nil => intro s h; exact h
  | cons act acts ih =>
    intro s h
    simp only [run, List.foldl_cons]
    apply ih
    cases act with
    | push m => exact h
    | fwdMarket =>
      simp only [step]; unfold stepFwdMarket
      split
      · exact h
      · split <;> exact h
    | fwdAccount k =>
      simp only [step]; unfold stepFwdAccount
      split
      · exact h
      · split <;> exact h
    | engine =>
      simp only [step]; unfold stepEngine
      split
      · exact h
      · split <;> exact h
    | call c =>
      simp only [step]; unfold stepCall send
      split
      · exact h
      · split <;> exact h
    | close how =>
      simp only [step]; unfold stepClose send
      split
      · exact h
      · split <;> exact h
    | takeAudit =>
      simp only [step]; unfold stepTakeAudit
      split
      · exact h
      · intro hc; simp at hc

end BarterModel.SysHandle
