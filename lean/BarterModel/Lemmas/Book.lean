import BarterModel.Model.Book
/-! Lemmas about the order-book model (`Model/Book.lean`); used by `Props/C05.lean` (and C06). -/
namespace BarterModel.Book

theorem Side.before_irrefl (s : Side) (a : Rat) : s.before a a = false := by
  cases s <;> simp [Side.before, Rat.lt_irrefl]

theorem Side.before_trans {s : Side} {a b c : Rat} (h1 : s.before a b = true) (h2 : s.before b c = true) :
    s.before a c = true := by
  cases s <;> simp [Side.before] at * <;> grind

theorem Side.before_asymm {s : Side} {a b : Rat} (h1 : s.before a b = true) : s.before b a = false := by
  cases s <;> simp [Side.before] at * <;> grind

theorem Side.before_ne {s : Side} {a b : Rat} (h1 : s.before a b = true) : a ≠ b := by
  intro h; subst h; simp [Side.before_irrefl] at h1

theorem Side.before_total {s : Side} {a b : Rat} (h : a ≠ b) : s.before a b = true ∨ s.before b a = true := by
  cases s <;> simp [Side.before] <;> grind

theorem Side.cmp_lt_iff {s : Side} {x p : Rat} : s.cmp x p = .lt ↔ s.before x p = true := by
  cases s <;> simp [Side.cmp, Side.before, cmpRat] <;> grind [Ordering.swap]

theorem Side.cmp_eq_iff {s : Side} {x p : Rat} : s.cmp x p = .eq ↔ x = p := by
  cases s <;> simp [Side.cmp, cmpRat] <;> grind [Ordering.swap]

theorem Side.cmp_gt_iff {s : Side} {x p : Rat} : s.cmp x p = .gt ↔ s.before p x = true := by
  cases s <;> simp [Side.cmp, Side.before, cmpRat] <;> grind [Ordering.swap]



theorem abs_eq_zero_of_not_mem {ls : List Level} {p : Rat} (h : ∀ x ∈ ls, x.price ≠ p) : abs ls p = 0 := by
  induction ls with
  | nil => rfl
  | cons x xs ih =>
    simp only [abs]
    rw [if_neg (h x (by simp))]
    exact ih (fun y hy => h y (by simp [hy]))

theorem abs_ne_zero_mem {ls : List Level} {p : Rat} (h : abs ls p ≠ 0) : ∃ x ∈ ls, x.price = p ∧ x.amount = abs ls p := by
  induction ls with
  | nil => simp [abs] at h
  | cons x xs ih =>
    simp only [abs] at h ⊢
    by_cases hx : x.price = p
    · simp [hx]
    · simp only [if_neg hx] at h ⊢
      obtain ⟨y, hy, h1, h2⟩ := ih h
      exact ⟨y, by simp [hy], h1, h2⟩

theorem upsertSingle_price {s : Side} {n : Level} {ls : List Level} {y : Level}
    (h : y ∈ upsertSingle s n ls) : y.price = n.price ∨ ∃ x ∈ ls, x.price = y.price := by
  induction ls with
  | nil =>
    simp only [upsertSingle] at h
    split at h <;> simp_all
  | cons x xs ih =>
    simp only [upsertSingle] at h
    split at h
    · simp only [List.mem_cons] at h
      rcases h with h | h
      · right; exact ⟨x, by simp, by rw [h]⟩
      · rcases ih h with h | ⟨z, hz, hz'⟩
        · left; exact h
        · right; exact ⟨z, by simp [hz], hz'⟩
    · split at h
      · right; exact ⟨y, by simp [h], rfl⟩
      · simp only [List.mem_cons] at h
        rcases h with h | h
        · right; exact ⟨x, by simp, by rw [h]⟩
        · right; exact ⟨y, by simp [h], rfl⟩
    · split at h
      · right; exact ⟨y, h, rfl⟩
      · simp only [List.mem_cons] at h
        rcases h with h | h
        · left; rw [h]
        · right; exact ⟨y, by simpa using h, rfl⟩

theorem sorted_upsertSingle {s : Side} {n : Level} {ls : List Level} (h : Sorted s ls) :
    Sorted s (upsertSingle s n ls) := by
  induction ls with
  | nil => simp only [upsertSingle]; split <;> simp [Sorted]
  | cons x xs ih =>
    have hx := List.pairwise_cons.mp h
    simp only [upsertSingle]
    split
    · rename_i hc
      rw [Side.cmp_lt_iff] at hc
      refine List.pairwise_cons.mpr ⟨?_, ih hx.2⟩
      intro y hy
      rcases upsertSingle_price hy with h1 | ⟨z, hz, hz'⟩
      · rw [h1]; exact hc
      · rw [← hz']; exact hx.1 z hz
    · rename_i hc
      rw [Side.cmp_eq_iff] at hc
      split
      · exact hx.2
      · exact List.pairwise_cons.mpr ⟨hx.1, hx.2⟩
    · rename_i hc
      rw [Side.cmp_gt_iff] at hc
      split
      · exact h
      · refine List.pairwise_cons.mpr ⟨?_, h⟩
        intro y hy
        simp only [List.mem_cons] at hy
        rcases hy with hy | hy
        · rw [hy]; exact hc
        · exact Side.before_trans hc (hx.1 y hy)

theorem nonZero_upsertSingle {s : Side} {n : Level} {ls : List Level} (h : NonZero ls) :
    NonZero (upsertSingle s n ls) := by
  induction ls with
  | nil => simp only [upsertSingle]; split <;> simp_all [NonZero]
  | cons x xs ih =>
    have ih := ih (fun y hy => h y (by simp [hy]))
    simp only [upsertSingle]
    split
    · intro y hy
      simp only [List.mem_cons] at hy
      rcases hy with hy | hy
      · exact h y (by simp [hy])
      · exact ih y hy
    · split
      · exact fun y hy => h y (by simp [hy])
      · intro y hy
        simp only [List.mem_cons] at hy
        rcases hy with hy | hy
        · subst hy; assumption
        · exact h y (by simp [hy])
    · split
      · exact h
      · intro y hy
        simp only [List.mem_cons] at hy
        rcases hy with hy | hy
        · subst hy; assumption
        · exact h y (by simpa using hy)

theorem abs_upsertSingle {s : Side} {n : Level} {ls : List Level} (h : Sorted s ls) :
    abs (upsertSingle s n ls) = setLevel (abs ls) n.price n.amount := by
  induction ls with
  | nil =>
    funext q
    simp only [upsertSingle, setLevel]
    split <;> simp_all [abs] <;> grind
  | cons x xs ih =>
    have hx := List.pairwise_cons.mp h
    have ih := ih hx.2
    funext q
    simp only [upsertSingle]
    split
    · rename_i hc
      rw [Side.cmp_lt_iff] at hc
      have := Side.before_ne hc
      simp only [abs, ih, setLevel]
      grind
    · rename_i hc
      rw [Side.cmp_eq_iff] at hc
      have h0 : abs xs x.price = 0 :=
        abs_eq_zero_of_not_mem (fun y hy => (Side.before_ne (hx.1 y hy)).symm)
      split
      · simp only [abs, setLevel]; grind
      · simp only [abs, setLevel]; grind
    · rename_i hc
      rw [Side.cmp_gt_iff] at hc
      have h0 : abs (x :: xs) n.price = 0 := by
        apply abs_eq_zero_of_not_mem
        intro y hy
        simp only [List.mem_cons] at hy
        rcases hy with hy | hy
        · rw [hy]; exact (Side.before_ne hc).symm
        · exact (Side.before_ne (Side.before_trans hc (hx.1 y hy))).symm
      split
      · simp only [setLevel]; grind
      · simp only [abs, setLevel]; grind


theorem sorted_upsert {s : Side} {ls us : List Level} (h : Sorted s ls) : Sorted s (upsert s ls us) := by
  induction us generalizing ls with
  | nil => exact h
  | cons u us ih => exact ih (sorted_upsertSingle h)

theorem nonZero_upsert {s : Side} {ls us : List Level} (h : NonZero ls) : NonZero (upsert s ls us) := by
  induction us generalizing ls with
  | nil => exact h
  | cons u us ih => exact ih (nonZero_upsertSingle h)

theorem abs_upsert {s : Side} {ls us : List Level} (h : Sorted s ls) :
    abs (upsert s ls us) = applyLevels (abs ls) us := by
  induction us generalizing ls with
  | nil => rfl
  | cons u us ih =>
    simp only [upsert, applyLevels, List.foldl_cons]
    have := ih (sorted_upsertSingle (n := u) h)
    simp only [upsert, applyLevels] at this
    rw [this, abs_upsertSingle h]

theorem sorted_tail_abs_zero {s : Side} {x : Level} {xs : List Level} (h : Sorted s (x :: xs)) :
    abs xs x.price = 0 :=
  abs_eq_zero_of_not_mem (fun y hy => (Side.before_ne ((List.pairwise_cons.mp h).1 y hy)).symm)

theorem abs_of_mem {s : Side} {ls : List Level} {l : Level} (h : Sorted s ls) (hl : l ∈ ls) :
    abs ls l.price = l.amount := by
  induction ls with
  | nil => simp at hl
  | cons x xs ih =>
    have hx := List.pairwise_cons.mp h
    simp only [List.mem_cons] at hl
    rcases hl with hl | hl
    · subst hl; simp [abs]
    · have := Side.before_ne (hx.1 l hl)
      simp only [abs, if_neg this]
      exact ih hx.2 hl

/-- the stored list holds exactly the non-zero points of the function it denotes -/
theorem mem_iff_abs {s : Side} {ls : List Level} (h : Sorted s ls) (hz : NonZero ls) (l : Level) :
    l ∈ ls ↔ (abs ls l.price = l.amount ∧ l.amount ≠ 0) := by
  constructor
  · intro hl; exact ⟨abs_of_mem h hl, hz l hl⟩
  · intro ⟨h1, h2⟩
    obtain ⟨x, hx, hp, ha⟩ := abs_ne_zero_mem (ls := ls) (p := l.price) (by rw [h1]; exact h2)
    have : x = l := by
      cases x; cases l; simp_all
    exact this ▸ hx

theorem canonical {s : Side} {a b : List Level} (ha : Sorted s a) (hb : Sorted s b)
    (za : NonZero a) (zb : NonZero b) (h : abs a = abs b) : a = b := by
  induction a generalizing b with
  | nil =>
    cases b with
    | nil => rfl
    | cons y ys =>
      have := congrFun h y.price
      simp [abs] at this
      exact absurd this.symm (zb y (by simp))
  | cons x xs ih =>
    cases b with
    | nil =>
      have := congrFun h x.price
      simp [abs] at this
      exact absurd this (za x (by simp))
    | cons y ys =>
      have hx := List.pairwise_cons.mp ha
      have hy := List.pairwise_cons.mp hb
      have hxz := za x (by simp)
      have hyz := zb y (by simp)
      have hp : x.price = y.price := by
        have h1 : abs (y :: ys) x.price ≠ 0 := by rw [← h]; simpa [abs] using hxz
        have h2 : abs (x :: xs) y.price ≠ 0 := by rw [h]; simpa [abs] using hyz
        obtain ⟨z, hz, hzp, _⟩ := abs_ne_zero_mem h1
        obtain ⟨w, hw, hwp, _⟩ := abs_ne_zero_mem h2
        simp only [List.mem_cons] at hz hw
        rcases hz with hz | hz
        · rw [← hzp, hz]
        · rcases hw with hw | hw
          · rw [← hwp, hw]
          · have b1 := hy.1 z hz
            have b2 := hx.1 w hw
            rw [hzp] at b1; rw [hwp] at b2
            have := Side.before_asymm b1
            simp [b2] at this
      have hamt : x.amount = y.amount := by
        have := congrFun h x.price
        simpa [abs, hp] using this
      have hxy : x = y := by cases x; cases y; simp_all
      subst hxy
      congr 1
      apply ih hx.2 hy.2 (fun l hl => za l (by simp [hl])) (fun l hl => zb l (by simp [hl]))
      funext q
      by_cases hq : x.price = q
      · subst hq; rw [sorted_tail_abs_zero ha, sorted_tail_abs_zero hb]
      · have := congrFun h q
        simpa [abs, hq] using this

/-! sorting -/

theorem Side.le_trans' (s : Side) (a b c : Level) (h1 : s.le a b = true) (h2 : s.le b c = true) : s.le a c = true := by
  cases s <;> simp [Side.le, Side.before] at * <;> grind

theorem Side.le_total' (s : Side) (a b : Level) : (s.le a b || s.le b a) = true := by
  cases s <;> simp [Side.le, Side.before] <;> grind

theorem sortLevels_perm (s : Side) (ls : List Level) : (sortLevels s ls).Perm ls :=
  List.mergeSort_perm ls s.le

theorem sorted_prices_nodup {s : Side} {ls : List Level} (h : Sorted s ls) : (ls.map Level.price).Nodup := by
  unfold List.Nodup
  rw [List.pairwise_map]
  exact h.imp (fun hb => Side.before_ne hb)

theorem sorted_of_le_nodup {s : Side} {ls : List Level} (h1 : ls.Pairwise (fun a b => s.le a b = true))
    (h2 : (ls.map Level.price).Nodup) : Sorted s ls := by
  unfold List.Nodup at h2
  rw [List.pairwise_map] at h2
  refine (h1.and h2).imp ?_
  intro a b ⟨hle, hne⟩
  rcases Side.before_total (s := s) hne with h | h
  · exact h
  · simp [Side.le, h] at hle

theorem sorted_sortLevels {s : Side} {ls : List Level} (h : (ls.map Level.price).Nodup) :
    Sorted s (sortLevels s ls) := by
  apply sorted_of_le_nodup (List.pairwise_mergeSort (Side.le_trans' s) (Side.le_total' s) ls)
  exact ((sortLevels_perm s ls).map Level.price).nodup_iff.mpr h

theorem sortLevels_of_sorted {s : Side} {ls : List Level} (h : Sorted s ls) : sortLevels s ls = ls := by
  apply List.mergeSort_of_pairwise
  exact h.imp (fun hb => by simp [Side.le, Side.before_asymm hb])

theorem nonZero_sortLevels {s : Side} {ls : List Level} (h : NonZero ls) : NonZero (sortLevels s ls) :=
  fun l hl => h l ((sortLevels_perm s ls).mem_iff.mp hl)

theorem abs_perm {a b : List Level} (h : a.Perm b) (hn : (a.map Level.price).Nodup) : abs a = abs b := by
  induction h with
  | nil => rfl
  | cons x _ ih =>
    funext q
    simp only [List.map_cons, List.nodup_cons] at hn
    simp only [abs, ih hn.2]
  | swap x y l =>
    funext q
    simp only [List.map_cons, List.nodup_cons, List.mem_cons, not_or] at hn
    simp only [abs]
    grind
  | trans h1 _ ih1 ih2 =>
    rw [ih1 hn, ih2 ((h1.map Level.price).nodup_iff.mp hn)]

theorem abs_sortLevels {s : Side} {ls : List Level} (h : (ls.map Level.price).Nodup) :
    abs (sortLevels s ls) = abs ls :=
  abs_perm (sortLevels_perm s ls) (((sortLevels_perm s ls).map Level.price).nodup_iff.mpr h)


/-! ## the executable specification `PMap` -/


theorem abs_filter_ne (m : List Level) (p q : Rat) :
    abs (m.filter (fun e => e.price ≠ p)) q = if q = p then 0 else abs m q := by
  induction m with
  | nil => simp [abs]
  | cons x xs ih =>
    simp only [List.filter_cons]
    by_cases hx : x.price = p
    · simp only [hx, ne_eq, not_true_eq_false, decide_false, Bool.false_eq_true, ↓reduceIte, ih, abs]
      grind
    · simp only [ne_eq, hx, not_false_eq_true, decide_true, ↓reduceIte, abs, ih]
      grind

theorem PMap.abs_set (m : PMap) (p a : Rat) : abs (m.set p a) = setLevel (abs m) p a := by
  funext q
  simp only [PMap.set, setLevel]
  split
  · rename_i h; rw [abs_filter_ne, h]
  · simp only [abs, abs_filter_ne]; grind

theorem PMap.wf_set {m : PMap} (h : m.WF) (p a : Rat) : (m.set p a).WF := by
  have hsub : (m.filter (fun e => e.price ≠ p)).Sublist m := List.filter_sublist
  have hnd : ((m.filter (fun e => e.price ≠ p)).map Level.price).Nodup :=
    List.Nodup.sublist (hsub.map Level.price) h.1
  have hnz : NonZero (m.filter (fun e => e.price ≠ p)) := fun l hl => h.2 l (hsub.subset hl)
  simp only [PMap.set]
  split
  · exact ⟨hnd, hnz⟩
  · rename_i ha
    refine ⟨?_, ?_⟩
    · simp only [List.map_cons, List.nodup_cons]
      refine ⟨?_, hnd⟩
      simp only [List.mem_map, List.mem_filter]
      rintro ⟨e, ⟨_, he⟩, hp⟩
      simp [hp] at he
    · intro l hl
      simp only [List.mem_cons] at hl
      rcases hl with hl | hl
      · subst hl; exact ha
      · exact hnz l hl

theorem PMap.abs_apply (m : PMap) (cs : List Level) : abs (m.apply cs) = applyLevels (abs m) cs := by
  induction cs generalizing m with
  | nil => rfl
  | cons c cs ih =>
    simp only [PMap.apply, applyLevels, List.foldl_cons]
    have := ih (m.set c.price c.amount)
    simp only [PMap.apply, applyLevels] at this
    rw [this, PMap.abs_set]

theorem PMap.wf_apply {m : PMap} (h : m.WF) (cs : List Level) : (m.apply cs).WF := by
  induction cs generalizing m with
  | nil => exact h
  | cons c cs ih => exact ih (PMap.wf_set h c.price c.amount)

theorem PMap.sorted_levels {m : PMap} (h : m.WF) (s : Side) : Sorted s (m.levels s) :=
  sorted_sortLevels h.1

theorem PMap.nonZero_levels {m : PMap} (h : m.WF) (s : Side) : NonZero (m.levels s) :=
  nonZero_sortLevels h.2

theorem PMap.abs_levels {m : PMap} (h : m.WF) (s : Side) : abs (m.levels s) = abs m :=
  abs_sortLevels h.1

theorem PMap.levels_perm (m : PMap) (s : Side) : (m.levels s).Perm m := sortLevels_perm s m

/-- the declaratively defined best entry is the first level in book order -/
theorem PMap.best_eq_head {m : PMap} (h : m.WF) (s : Side) : m.best s = (m.levels s).head? := by
  have hperm := PMap.levels_perm m s
  have hsorted := PMap.sorted_levels h s
  cases hl : m.levels s with
  | nil =>
    have : m = [] := by
      have := hperm; rw [hl] at this; exact List.Perm.eq_nil this.symm
    subst this; simp [PMap.best]
  | cons x xs =>
    rw [hl] at hperm hsorted
    have hx := List.pairwise_cons.mp hsorted
    have hxm : x ∈ m := hperm.mem_iff.mp (by simp)
    -- x satisfies the predicate
    have hpx : (m.all fun y => y.price = x.price || s.before x.price y.price) = true := by
      rw [List.all_eq_true]
      intro y hy
      have : y ∈ x :: xs := hperm.mem_iff.mpr hy
      simp only [List.mem_cons] at this
      rcases this with h1 | h1
      · simp [h1]
      · simp [hx.1 y h1]
    cases hb : m.best s with
    | none =>
      simp only [PMap.best] at hb
      rw [List.find?_eq_none] at hb
      exact absurd hpx (hb x hxm)
    | some l =>
      simp only [PMap.best] at hb
      have hlm := List.mem_of_find?_eq_some hb
      have hpl := List.find?_some hb
      rw [List.all_eq_true] at hpl hpx
      have h1 := hpl x hxm
      have h2 := hpx l hlm
      simp only [Bool.or_eq_true, decide_eq_true_eq] at h1 h2
      have hp : l.price = x.price := by
        rcases h1 with h1 | h1
        · exact h1.symm
        · rcases h2 with h2 | h2
          · exact h2
          · have := Side.before_asymm h1; simp [h2] at this
      -- distinct prices in m
      have hnd := h.1
      have : l = x := by
        have hinj : ∀ (ls : List Level), (ls.map Level.price).Nodup → l ∈ ls → x ∈ ls → l = x := by
          intro ls
          induction ls with
          | nil => simp
          | cons z zs ih =>
            intro hn h1 h2
            simp only [List.map_cons, List.nodup_cons, List.mem_map, not_exists, not_and] at hn
            simp only [List.mem_cons] at h1 h2
            rcases h1 with h1 | h1 <;> rcases h2 with h2 | h2
            · rw [h1, h2]
            · exact absurd (by rw [← h1, hp]) (hn.1 x h2)
            · exact absurd (by rw [← h2, ← hp]) (hn.1 l h1)
            · exact ih hn.2 h1 h2
        exact hinj m hnd hlm hxm
      simp [this]


/-! ## whole-book lemmas -/

theorem sortedBook_update {b : OrderBook} {ev : Event} (h : SortedBook b)
    (hs : ∀ sn, ev = .snapshot sn → SortedBook sn) : SortedBook (b.update ev) := by
  cases ev with
  | snapshot sn => exact hs sn rfl
  | update u => exact ⟨sorted_upsert h.bids, sorted_upsert h.asks⟩

theorem wfBook_update {b : OrderBook} {ev : Event} (h : WFBook b)
    (hs : ∀ sn, ev = .snapshot sn → WFBook sn) : WFBook (b.update ev) := by
  cases ev with
  | snapshot sn => exact hs sn rfl
  | update u =>
    exact { bids := sorted_upsert h.bids, asks := sorted_upsert h.asks,
            bidsNonZero := nonZero_upsert h.bidsNonZero, asksNonZero := nonZero_upsert h.asksNonZero }

theorem sortedBook_run {b : OrderBook} {evs : List Event} (h : SortedBook b)
    (hs : ∀ sn, Event.snapshot sn ∈ evs → SortedBook sn) : SortedBook (b.run evs) := by
  induction evs generalizing b with
  | nil => exact h
  | cons ev evs ih =>
    simp only [OrderBook.run, List.foldl_cons]
    exact ih (sortedBook_update h (fun sn he => hs sn (by simp [he]))) (fun sn he => hs sn (by simp [he]))

theorem wfBook_run {b : OrderBook} {evs : List Event} (h : WFBook b)
    (hs : ∀ sn, Event.snapshot sn ∈ evs → WFBook sn) : WFBook (b.run evs) := by
  induction evs generalizing b with
  | nil => exact h
  | cons ev evs ih =>
    simp only [OrderBook.run, List.foldl_cons]
    exact ih (wfBook_update h (fun sn he => hs sn (by simp [he]))) (fun sn he => hs sn (by simp [he]))

theorem wfBook_default : WFBook OrderBook.default :=
  { bids := List.Pairwise.nil, asks := List.Pairwise.nil,
    bidsNonZero := fun _ h => by simp [OrderBook.default] at h,
    asksNonZero := fun _ h => by simp [OrderBook.default] at h }

theorem absBook_update {b : OrderBook} (ev : Event) (h : SortedBook b) :
    absBook (b.update ev) = (absBook b).step ev := by
  cases ev with
  | snapshot sn => rfl
  | update u =>
    simp only [OrderBook.update, absBook, FBook.step, abs_upsert h.bids, abs_upsert h.asks]

theorem absBook_run {b : OrderBook} {evs : List Event} (h : SortedBook b)
    (hs : ∀ sn, Event.snapshot sn ∈ evs → SortedBook sn) :
    absBook (b.run evs) = (absBook b).run evs := by
  induction evs generalizing b with
  | nil => rfl
  | cons ev evs ih =>
    simp only [OrderBook.run, FBook.run, List.foldl_cons]
    have h1 : SortedBook (b.update ev) := sortedBook_update h (fun sn he => hs sn (by simp [he]))
    have h2 : ∀ sn, Event.snapshot sn ∈ evs → SortedBook sn := fun sn he => hs sn (by simp [he])
    have := ih h1 h2
    simp only [OrderBook.run, FBook.run] at this
    rw [this, absBook_update ev h]

theorem wfBook_new {seq : Nat} {bids asks : List Level}
    (hb : (bids.map Level.price).Nodup) (ha : (asks.map Level.price).Nodup)
    (zb : NonZero bids) (za : NonZero asks) : WFBook (OrderBook.new seq bids asks) :=
  { bids := sorted_sortLevels hb, asks := sorted_sortLevels ha,
    bidsNonZero := nonZero_sortLevels zb, asksNonZero := nonZero_sortLevels za }

theorem sorted_take {s : Side} {ls : List Level} (h : Sorted s ls) (d : Nat) : Sorted s (ls.take d) :=
  List.Pairwise.sublist (List.take_sublist d ls) h

theorem snapshot_eq {b : OrderBook} (h : SortedBook b) (d : Nat) :
    b.snapshot d = ⟨b.sequence, b.bids.take d, b.asks.take d⟩ := by
  simp only [OrderBook.snapshot, sortLevels_of_sorted (sorted_take h.bids d),
    sortLevels_of_sorted (sorted_take h.asks d)]

/-! ## refinement of the executable specification -/

theorem PMap.wf_of_sorted {s : Side} {ls : List Level} (h : Sorted s ls) (hz : NonZero ls) :
    PMap.WF ls := ⟨sorted_prices_nodup h, hz⟩

/-- coupling invariant between the concrete book and the abstract maps -/
structure Refines (b : OrderBook) (s : Spec) : Prop where
  wf : WFBook b
  wfBids : s.bids.WF
  wfAsks : s.asks.WF
  bids : abs b.bids = abs s.bids
  asks : abs b.asks = abs s.asks
  seq : b.sequence = s.sequence

theorem refines_init : Refines OrderBook.default Spec.init :=
  { wf := wfBook_default, wfBids := ⟨List.Pairwise.nil, fun _ h => by simp [Spec.init] at h⟩,
    wfAsks := ⟨List.Pairwise.nil, fun _ h => by simp [Spec.init] at h⟩,
    bids := rfl, asks := rfl, seq := rfl }

theorem refines_step {b : OrderBook} {s : Spec} {ev : Event} (h : Refines b s)
    (hs : ∀ sn, ev = .snapshot sn → WFBook sn) : Refines (b.update ev) (s.step ev) := by
  cases ev with
  | snapshot sn =>
    have hw := hs sn rfl
    exact { wf := hw, wfBids := PMap.wf_of_sorted hw.bids hw.bidsNonZero,
            wfAsks := PMap.wf_of_sorted hw.asks hw.asksNonZero, bids := rfl, asks := rfl, seq := rfl }
  | update u =>
    refine { wf := wfBook_update h.wf (fun _ he => by cases he), wfBids := PMap.wf_apply h.wfBids _,
             wfAsks := PMap.wf_apply h.wfAsks _, bids := ?_, asks := ?_, seq := rfl }
    · simp only [OrderBook.update, Spec.step, abs_upsert h.wf.bids, PMap.abs_apply, h.bids]
    · simp only [OrderBook.update, Spec.step, abs_upsert h.wf.asks, PMap.abs_apply, h.asks]

theorem refines_run {b : OrderBook} {s : Spec} {evs : List Event} (h : Refines b s)
    (hs : ∀ sn, Event.snapshot sn ∈ evs → WFBook sn) : Refines (b.run evs) (s.run evs) := by
  induction evs generalizing b s with
  | nil => exact h
  | cons ev evs ih =>
    simp only [OrderBook.run, Spec.run, List.foldl_cons]
    exact ih (refines_step h (fun sn he => hs sn (by simp [he]))) (fun sn he => hs sn (by simp [he]))

theorem Refines.bids_eq {b : OrderBook} {s : Spec} (h : Refines b s) : b.bids = s.bids.levels .bids :=
  canonical h.wf.bids (PMap.sorted_levels h.wfBids _) h.wf.bidsNonZero (PMap.nonZero_levels h.wfBids _)
    (by rw [PMap.abs_levels h.wfBids, h.bids])

theorem Refines.asks_eq {b : OrderBook} {s : Spec} (h : Refines b s) : b.asks = s.asks.levels .asks :=
  canonical h.wf.asks (PMap.sorted_levels h.wfAsks _) h.wf.asksNonZero (PMap.nonZero_levels h.wfAsks _)
    (by rw [PMap.abs_levels h.wfAsks, h.asks])

theorem Refines.book_eq {b : OrderBook} {s : Spec} (h : Refines b s) : b = s.book := by
  cases b
  simp only [Spec.book, ← h.bids_eq, ← h.asks_eq, ← h.seq]

theorem Refines.midPrice_eq {b : OrderBook} {s : Spec} (h : Refines b s) : b.midPrice = s.midPrice := by
  simp only [OrderBook.midPrice, Spec.midPrice, PMap.best_eq_head h.wfBids, PMap.best_eq_head h.wfAsks,
    ← h.bids_eq, ← h.asks_eq, Book.midPrice]

theorem Refines.vwMidPrice_eq {b : OrderBook} {s : Spec} (h : Refines b s) :
    b.volumeWeightedMidPrice = s.volumeWeightedMidPrice := by
  simp only [OrderBook.volumeWeightedMidPrice, Spec.volumeWeightedMidPrice, PMap.best_eq_head h.wfBids,
    PMap.best_eq_head h.wfAsks, ← h.bids_eq, ← h.asks_eq, Book.volumeWeightedMidPrice]

theorem Refines.snapshot_eq {b : OrderBook} {s : Spec} (h : Refines b s) (d : Nat) :
    b.snapshot d = s.snapshot d := by
  rw [Book.snapshot_eq h.wf.toSortedBook d]
  simp only [Spec.snapshot, ← h.bids_eq, ← h.asks_eq, ← h.seq]

/-! ## best level as extremum of the function's support -/

theorem head_is_best {s : Side} {ls : List Level} (h : Sorted s ls) (hz : NonZero ls) (l : Level)
    (hl : ls.head? = some l) :
    abs ls l.price = l.amount ∧ l.amount ≠ 0 ∧
      ∀ q, abs ls q ≠ 0 → q = l.price ∨ s.before l.price q = true := by
  obtain ⟨xs, rfl⟩ := List.head?_eq_some_iff.mp hl
  refine ⟨by simp [abs], hz l (by simp), ?_⟩
  intro q hq
  obtain ⟨x, hx, hp, _⟩ := abs_ne_zero_mem hq
  simp only [List.mem_cons] at hx
  rcases hx with hx | hx
  · left; rw [← hp, hx]
  · right; rw [← hp]; exact (List.pairwise_cons.mp h).1 x hx

theorem head_none_iff {ls : List Level} (hz : NonZero ls) : ls.head? = none ↔ ∀ q, abs ls q = 0 := by
  cases ls with
  | nil => simp [abs]
  | cons x xs =>
    simp only [List.head?_cons, reduceCtorEq, false_iff]
    intro h
    have := h x.price
    simp [abs] at this
    exact hz x (by simp) this

/-! ## sequence -/

theorem sequence_update (b : OrderBook) (ev : Event) : (b.update ev).sequence = ev.book.sequence := by
  cases ev <;> rfl

theorem sequence_run (b : OrderBook) (evs : List Event) :
    (b.run evs).sequence = (evs.getLast?.map (·.book.sequence)).getD b.sequence := by
  induction evs generalizing b with
  | nil => rfl
  | cons ev evs ih =>
    simp only [OrderBook.run, List.foldl_cons]
    have := ih (b.update ev)
    simp only [OrderBook.run] at this
    rw [this, List.getLast?_cons]
    cases evs.getLast? with
    | none => simp [sequence_update]
    | some e => simp

/-! ## manager -/

theorem managerRun_eq (books : Books) (stream : List StreamEvent) :
    managerRun books stream = books.map (fun kb => (kb.1, kb.2.run (eventsFor kb.1 stream))) := by
  induction stream generalizing books with
  | nil => simp [managerRun, eventsFor, OrderBook.run]
  | cons ev stream ih =>
    simp only [managerRun, List.foldl_cons]
    have := ih (managerStep books ev)
    simp only [managerRun] at this
    rw [this]
    cases ev with
    | reconnecting => simp [managerStep, eventsFor]
    | item k e =>
      simp only [managerStep, List.map_map, eventsFor]
      apply List.map_congr_left
      intro kb _
      by_cases hk : kb.1 = k
      · simp [hk, OrderBook.run]
      · have hk' : ¬ k = kb.1 := fun h => hk h.symm
        simp [hk, hk']

end BarterModel.Book
