import BarterModel.Model.Book
namespace BarterModel.Book
end BarterModel.Book
