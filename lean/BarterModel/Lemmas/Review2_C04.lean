import BarterModel.Lemmas.ExecMap
/-!
Lemmas for the second-review additions to C04 (`Props/C04.lean`, section "Review 2"): what can be
said about the *reverse* tables (`name_exchange → index`, `ExecutionInstrumentMap::new`,
map.rs:32-51) WITHOUT per-exchange injectivity of `name_exchange`:

* membership soundness of `upsert` / `collect` (every pair of a collected map is a pair of the input
  list; every lookup hit of a collected map is a pair of the input list) — no hypothesis;
* `reverse_hit_sound`: a hit of the reverse table is the `(key, name)` of an entry of the exchange —
  no hypothesis; `reverse_hit_indexed`: … which sits at position `key` when keys are positions;
* `reverse_miss`: a name no entry of the exchange carries misses the reverse table — no hypothesis;
* `reverse_last_wins`: with keys = positions, the reverse table maps a name to the LAST position
  carrying it on that exchange (the `FnvHashMap` insert order of map.rs:43-50) — the exact behaviour
  at the point `WF` excludes.
-/
namespace BarterModel.ExecMap

/-! ### `upsert` / `collect` never invent pairs -/

theorem lookup_foldl_upsert_mem (l m : List (Nat × Nat)) (k v : Nat)
    (h : (l.foldl (fun m kv => upsert m kv.1 kv.2) m).lookup k = some v) :
    (k, v) ∈ l ∨ m.lookup k = some v := by
  induction l generalizing m with
  | nil => exact Or.inr h
  | cons x t ih =>
    simp only [List.foldl_cons] at h
    rcases ih _ h with h1 | h1
    · exact Or.inl (List.mem_cons_of_mem _ h1)
    · rw [lookup_upsert] at h1
      split at h1
      · rename_i e
        injection h1 with h1
        left; subst e; subst h1; exact List.mem_cons_self
      · exact Or.inr h1

/-- a lookup hit of a collected map is a pair of the collected list (any list) -/
theorem lookup_collect_mem (l : List (Nat × Nat)) (k v : Nat) (h : (collect l).lookup k = some v) :
    (k, v) ∈ l := by
  rcases lookup_foldl_upsert_mem l [] k v h with h | h
  · exact h
  · cases h

theorem mem_of_mem_upsert (m : List (Nat × Nat)) (k v : Nat) (x : Nat × Nat) (h : x ∈ upsert m k v) :
    x = (k, v) ∨ x ∈ m := by
  induction m with
  | nil => simp [upsert] at h; exact Or.inl h
  | cons hd t ih =>
    obtain ⟨a, b⟩ := hd
    simp only [upsert] at h
    split at h
    · rename_i e; subst e
      rcases List.mem_cons.mp h with h | h
      · exact Or.inl h
      · exact Or.inr (List.mem_cons_of_mem _ h)
    · rcases List.mem_cons.mp h with h | h
      · exact Or.inr (by rw [h]; exact List.mem_cons_self)
      · rcases ih h with h | h
        · exact Or.inl h
        · exact Or.inr (List.mem_cons_of_mem _ h)

theorem mem_of_mem_foldl_upsert (l m : List (Nat × Nat)) (x : Nat × Nat)
    (h : x ∈ l.foldl (fun m kv => upsert m kv.1 kv.2) m) : x ∈ l ∨ x ∈ m := by
  induction l generalizing m with
  | nil => exact Or.inr h
  | cons y t ih =>
    simp only [List.foldl_cons] at h
    rcases ih _ h with h | h
    · exact Or.inl (List.mem_cons_of_mem _ h)
    · rcases mem_of_mem_upsert _ _ _ _ h with h | h
      · left; rw [h]; exact List.mem_cons_self
      · exact Or.inr h

/-- every pair of a collected map is a pair of the collected list (any list) -/
theorem mem_of_mem_collect (l : List (Nat × Nat)) (x : Nat × Nat) (h : x ∈ collect l) : x ∈ l := by
  rcases mem_of_mem_foldl_upsert l [] x h with h | h
  · exact h
  · cases h

/-! ### the reverse table of one kind of entry, generically -/

section reverse
variable {α : Type} (keyOf exOf nameOf : α → Nat)

/-- the reverse table `ExecutionInstrumentMap::new` collects from the forward table (map.rs:43-50) -/
def revTbl (l : List α) (ex : Nat) : List (Nat × Nat) :=
  collect ((collect (tbl keyOf exOf nameOf l ex)).map fun kv => (kv.2, kv.1))

/-- NO hypothesis: a hit `name ↦ i` of the reverse table comes from an entry of the list that lives
on `ex`, carries this name and has key `i`. -/
theorem reverse_hit_sound (l : List α) (ex n i : Nat)
    (h : (revTbl keyOf exOf nameOf l ex).lookup n = some i) :
    ∃ a ∈ l, keyOf a = i ∧ exOf a = ex ∧ nameOf a = n := by
  have hmem := lookup_collect_mem _ _ _ h
  rw [List.mem_map] at hmem
  obtain ⟨⟨a, b⟩, hab, he⟩ := hmem
  simp only [Prod.mk.injEq] at he
  obtain ⟨rfl, rfl⟩ := he
  have h2 := mem_of_mem_collect _ _ hab
  simp only [tbl, List.mem_filterMap] at h2
  obtain ⟨k, hk, hkk⟩ := h2
  split at hkk
  · rename_i hex
    simp only [Option.some.injEq, Prod.mk.injEq] at hkk
    exact ⟨k, hk, hkk.1, by simpa using hex, hkk.2⟩
  · cases hkk

/-- keys = positions: the hit is the position of such an entry. -/
theorem reverse_hit_indexed {l : List α} (hk : l.map keyOf = List.range l.length) (ex n i : Nat)
    (h : (revTbl keyOf exOf nameOf l ex).lookup n = some i) :
    ∃ a, l[i]? = some a ∧ exOf a = ex ∧ nameOf a = n := by
  obtain ⟨a, ha, hki, he, hn⟩ := reverse_hit_sound keyOf exOf nameOf l ex n i h
  exact ⟨a, by rw [← hki]; exact getElem?_key keyOf hk ha, he, hn⟩

/-- NO hypothesis: a name that no entry of `ex` carries misses the reverse table. -/
theorem reverse_miss (l : List α) (ex n : Nat) (hu : ∀ a ∈ l, exOf a = ex → nameOf a ≠ n) :
    (revTbl keyOf exOf nameOf l ex).lookup n = none := by
  cases h : (revTbl keyOf exOf nameOf l ex).lookup n with
  | none => rfl
  | some i =>
    obtain ⟨a, ha, _, he, hn⟩ := reverse_hit_sound keyOf exOf nameOf l ex n i h
    exact absurd hn (hu a ha he)

end reverse

theorem genMap_instrumentNames {c : Coll} {ex : Nat} {m : EMap} (hm : genMap c ex = .ok m) :
    m.instrumentNames =
      revTbl KInstrument.key KInstrument.exchange KInstrument.nameExchange c.instruments ex := by
  obtain ⟨ke, _, rfl⟩ := genMap_ok hm; rfl

theorem genMap_assetNames {c : Coll} {ex : Nat} {m : EMap} (hm : genMap c ex = .ok m) :
    m.assetNames = revTbl KAsset.key KAsset.exchange KAsset.nameExchange c.assets ex := by
  obtain ⟨ke, _, rfl⟩ := genMap_ok hm; rfl

theorem findInstrumentIndex_ok_iff (m : EMap) (n i : Nat) :
    m.findInstrumentIndex n = .ok i ↔ m.instrumentNames.lookup n = some i := by
  unfold EMap.findInstrumentIndex
  cases m.instrumentNames.lookup n <;> simp

theorem findAssetIndex_ok_iff (m : EMap) (n a : Nat) :
    m.findAssetIndex n = .ok a ↔ m.assetNames.lookup n = some a := by
  unfold EMap.findAssetIndex
  cases m.assetNames.lookup n <;> simp

/-! ### the reverse table keeps the LAST entry of a name ("later index wins") -/

/-- Collecting a list of `(name, index)` pairs whose indices are strictly increasing: the value held
for `n` is the greatest index paired with `n` (or the initial map's value when `n` never occurs). -/
theorem lookup_foldl_upsert_max (R m : List (Nat × Nat)) (hp : R.Pairwise (fun a b => a.2 < b.2))
    (n i : Nat) :
    (R.foldl (fun m kv => upsert m kv.1 kv.2) m).lookup n = some i ↔
      ((n, i) ∈ R ∧ ∀ j, (n, j) ∈ R → j ≤ i) ∨ (m.lookup n = some i ∧ ∀ j, (n, j) ∉ R) := by
  induction R generalizing m with
  | nil => simp
  | cons x t ih =>
    obtain ⟨a, b⟩ := x
    rw [List.pairwise_cons] at hp
    simp only [List.foldl_cons]
    rw [ih _ hp.2, lookup_upsert]
    have hlt : ∀ j, (n, j) ∈ t → b < j := fun j hj => hp.1 (n, j) hj
    simp only [List.mem_cons, Prod.mk.injEq]
    constructor
    · rintro (⟨h1, h2⟩ | ⟨h1, h2⟩)
      · left
        refine ⟨Or.inr h1, ?_⟩
        rintro j (⟨rfl, rfl⟩ | hj)
        · exact Nat.le_of_lt (hlt i h1)
        · exact h2 j hj
      · split at h1
        · rename_i e
          injection h1 with h1
          left
          subst e; subst h1
          refine ⟨Or.inl ⟨rfl, rfl⟩, ?_⟩
          rintro j (⟨_, rfl⟩ | hj)
          · exact Nat.le_refl _
          · exact absurd hj (h2 j)
        · rename_i e
          right
          refine ⟨h1, ?_⟩
          rintro j (⟨rfl, _⟩ | hj)
          · exact e rfl
          · exact h2 j hj
    · rintro (⟨h1, h2⟩ | ⟨h1, h2⟩)
      · rcases h1 with ⟨rfl, rfl⟩ | h1
        · right
          refine ⟨by simp, ?_⟩
          intro j hj
          have := h2 j (Or.inr hj)
          have := hlt j hj
          omega
        · left
          exact ⟨h1, fun j hj => h2 j (Or.inr hj)⟩
      · right
        have hne : ¬ n = a := fun e => h2 b (Or.inl ⟨e, rfl⟩)
        refine ⟨by rw [if_neg hne]; exact h1, fun j hj => h2 j (Or.inr hj)⟩

section lastwins
variable {α : Type} (keyOf exOf nameOf : α → Nat)

/-- keys = positions: the reverse table maps `n` to `i` exactly when position `i` holds an entry of
`ex` named `n` and no later position does. No injectivity hypothesis. -/
theorem reverse_last_wins {l : List α} (hk : l.map keyOf = List.range l.length) (ex n i : Nat) :
    (revTbl keyOf exOf nameOf l ex).lookup n = some i ↔
      (∃ a, l[i]? = some a ∧ exOf a = ex ∧ nameOf a = n) ∧
      ∀ j b, l[j]? = some b → exOf b = ex → nameOf b = n → j ≤ i := by
  have hn := tbl_keys_nodup keyOf exOf nameOf hk ex
  have hp : ((tbl keyOf exOf nameOf l ex).map fun kv => (kv.2, kv.1)).Pairwise
      (fun a b => a.2 < b.2) := by
    rw [List.pairwise_map]
    have : ((tbl keyOf exOf nameOf l ex).map (·.1)).Pairwise (· < ·) := by
      rw [tbl_eq, List.map_map]
      have hs : ((l.filter fun a => exOf a == ex).map keyOf).Sublist (l.map keyOf) :=
        List.Sublist.map _ List.filter_sublist
      rw [hk] at hs
      exact List.Pairwise.sublist hs List.pairwise_lt_range
    exact List.pairwise_map.mp this
  have hmem : ∀ j, (n, j) ∈ ((tbl keyOf exOf nameOf l ex).map fun kv => (kv.2, kv.1)) ↔
      ∃ a, l[j]? = some a ∧ exOf a = ex ∧ nameOf a = n := by
    intro j
    rw [← mem_tbl keyOf exOf nameOf hk ex j n, List.mem_map]
    constructor
    · rintro ⟨⟨a, b⟩, hab, he⟩
      simp only [Prod.mk.injEq] at he
      obtain ⟨rfl, rfl⟩ := he
      exact hab
    · intro h; exact ⟨(j, n), h, rfl⟩
  unfold revTbl
  rw [collect_of_nodup _ hn]
  unfold collect
  rw [lookup_foldl_upsert_max _ _ hp]
  simp only [hmem, List.lookup, reduceCtorEq, false_and, or_false]
  constructor
  · rintro ⟨h1, h2⟩
    exact ⟨h1, fun j b hb he hn => h2 j ⟨b, hb, he, hn⟩⟩
  · rintro ⟨h1, h2⟩
    exact ⟨h1, fun j ⟨b, hb, he, hn⟩ => h2 j b hb he hn⟩
end lastwins

end BarterModel.ExecMap
