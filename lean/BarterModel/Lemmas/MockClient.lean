import BarterModel.Model.MockClient
import BarterModel.Lemmas.MockExchange
/-!
Helper lemmas for C08C (the MockExecution client and its protocol with the simulated exchange).

Part A: the exchange with its configured orders (`XState`) — projection onto the C08 exchange, the
order maps along a history, time stamps, `AccountState::from`, the grouping of `account_snapshot`.
-/
namespace BarterModel.MockClient
open BarterModel.MockExchange

/-! ## A.0 Two facts of C08 (`Props/C08.lean`: `responses_refine`, `queries_refine`), restated here
because a property file is not imported by lemma files; the proofs are the same one-liners. -/

theorem Props_responses {c : Cfg} (hc : c.wf = true) (ops : List (Int × Request)) (t : Int) (r : Req) :
    match MockExchange.Spec.respond c (MockExchange.Spec.accepted c (opens c ops)) ⟨exchangeTime c t, r⟩ with
    | some (a, b, tr) =>
      (MockExchange.step (MockExchange.run (MockExchange.init c) ops) t (.openOrder r)).2 =
        (.order (.accepted ⟨(MockExchange.Spec.accepted c (opens c ops)).length, exchangeTime c t, r.qty, a,
            ⟨b, b, exchangeTime c t⟩, tr⟩),
         [.balance a ⟨b, b, exchangeTime c t⟩, .trade tr])
    | none => ∃ err, (MockExchange.step (MockExchange.run (MockExchange.init c) ops) t (.openOrder r)).2 =
        (.order (.rejected err), []) :=
  refines_open_response (refines_run hc ops) hc t r

theorem Props_queries {c : Cfg} (hc : c.wf = true) (ops : List (Int × Request)) (t : Int) :
    (∃ bs, (MockExchange.step (MockExchange.run (MockExchange.init c) ops) t .fetchSnapshot).2 = (.snapshot bs, []) ∧
        bs.map (fun b => (b.total, b.free)) =
          MockExchange.Spec.ledger c (MockExchange.Spec.accepted c (opens c ops))) ∧
    (∃ bs, (MockExchange.step (MockExchange.run (MockExchange.init c) ops) t .fetchBalances).2 = (.balances bs, []) ∧
        bs.map (fun b => (b.total, b.free)) =
          MockExchange.Spec.ledger c (MockExchange.Spec.accepted c (opens c ops))) ∧
    ∀ since, (MockExchange.step (MockExchange.run (MockExchange.init c) ops) t (.fetchTrades since)).2 =
      (.trades (MockExchange.Spec.tradesSince c (MockExchange.Spec.accepted c (opens c ops)) since), []) := by
  have h := refines_updateTime (refines_run hc ops) t
  have hl := refines_ledger h
  refine ⟨⟨_, rfl, hl⟩, ⟨_, rfl, hl⟩, ?_⟩
  intro since
  simp only [MockExchange.step, MockExchange.tradesSince, MockExchange.Spec.tradesSince]
  rw [h.trades]

/-! ## A.1 Projection onto the C08 exchange

`XState.step` feeds the C08 ledger with `ledgerTime latency t` (so that the ledger's unconditional
`+ latency / 2` is the code's `checked_add_signed(..).unwrap_or(time_request)`). The lemmas are first
proved for the step / run / answer AS FUNCTIONS OF THE LEDGER TIME (`stepL`, `runL`, `answerL`: proof
devices, `te = t + latency / 2` unconditionally) and then transferred along `xstep_eq` / `xrun_eq` /
`answer_eq`. -/

/-- `XState.step` as a function of the request time the ledger is fed. -/
def XState.stepL (x : XState) (t : Int) (rq : Request) : XState × XResp × List Event :=
  let r := MockExchange.step x.base t rq
  let te : Int := t + ((x.base.latency / 2 : Nat) : Int)
  let x' : XState := { base := r.1, opens := stampOpens te x.opens, cancels := x.cancels }
  let resp : XResp :=
    match r.2.1 with
    | .snapshot bs => .snapshot bs x'.groups
    | .balances bs => .balances bs
    | .ordersOpen => .ordersOpen x'.opens
    | .trades ts => .trades ts
    | .dropped => .dropped
    | .order res => .order res
  (x', resp, r.2.2)

def XState.runL (x : XState) (ops : List (Int × Request)) : XState :=
  ops.foldl (fun x op => (x.stepL op.1 op.2).1) x

theorem stampTime_eq (l : Nat) (t : Int) : stampTime l t = ledgerTime l t + ((l / 2 : Nat) : Int) := by
  unfold ledgerTime; omega

theorem xstep_eq (x : XState) (t : Int) (rq : Request) :
    x.step t rq = x.stepL (ledgerTime x.base.latency t) rq := by
  simp only [XState.step, XState.stepL, stampTime_eq]
  rfl

/-- The ledger part of the extended exchange is the C08 exchange. -/
theorem stepL_base (x : XState) (t : Int) (rq : Request) :
    (x.stepL t rq).1.base = (MockExchange.step x.base t rq).1 ∧
    (x.stepL t rq).2.2 = (MockExchange.step x.base t rq).2.2 := by
  simp [XState.stepL]

theorem xrunL_append (x : XState) (ops : List (Int × Request)) (op : Int × Request) :
    x.runL (ops ++ [op]) = ((x.runL ops).stepL op.1 op.2).1 := by
  simp [XState.runL, List.foldl_append]

theorem xrunL_cons (x : XState) (op : Int × Request) (ops : List (Int × Request)) :
    x.runL (op :: ops) = (x.stepL op.1 op.2).1.runL ops := by
  simp [XState.runL]

theorem xrunL_base (x : XState) (ops : List (Int × Request)) :
    (x.runL ops).base = MockExchange.run x.base ops := by
  induction ops generalizing x with
  | nil => rfl
  | cons op ops ih =>
    rw [xrunL_cons, ih]
    simp [MockExchange.run, (stepL_base x op.1 op.2).1]

theorem openOrder_latency (s : State) (r : Req) : (openOrder s r).1.latency = s.latency := by
  rcases openOrder_cases s r with ⟨_, e⟩ | ⟨_, _, e⟩ | ⟨u, _, _, _, e⟩ | ⟨u, cur, _, _, _, _, e⟩ |
    ⟨u, cur, _, _, _, _, _, e⟩ | ⟨u, cur, _, _, _, _, _, e⟩ <;> rw [e]

theorem step_latency (s : State) (t : Int) (rq : Request) : (MockExchange.step s t rq).1.latency = s.latency := by
  cases rq with
  | openOrder r =>
    rw [step_open]
    have := openOrder_latency (updateTime s t) r
    split
    · rename_i s' f heq; rw [heq] at this; simpa [ackTrade, updateTime] using this
    · rename_i s' res _ heq; rw [heq] at this; simpa [updateTime] using this
  | _ => simp [MockExchange.step, updateTime]

theorem run_latency (s : State) (ops : List (Int × Request)) : (MockExchange.run s ops).latency = s.latency := by
  induction ops generalizing s with
  | nil => rfl
  | cons op ops ih =>
    simp only [MockExchange.run, List.foldl_cons] at ih ⊢
    rw [ih, step_latency]

/-- The ledger part of the extended exchange is the C08 exchange at the ledger time of the request. -/
theorem step_base (x : XState) (t : Int) (rq : Request) :
    (x.step t rq).1.base = (MockExchange.step x.base (ledgerTime x.base.latency t) rq).1 ∧
    (x.step t rq).2.2 = (MockExchange.step x.base (ledgerTime x.base.latency t) rq).2.2 := by
  rw [xstep_eq]; exact stepL_base x _ rq

theorem xstep_latency (x : XState) (t : Int) (rq : Request) : (x.step t rq).1.base.latency = x.base.latency := by
  rw [(step_base x t rq).1, step_latency]

theorem xrun_append (x : XState) (ops : List (Int × Request)) (op : Int × Request) :
    x.run (ops ++ [op]) = ((x.run ops).step op.1 op.2).1 := by
  simp [XState.run, List.foldl_append]

theorem xrun_cons (x : XState) (op : Int × Request) (ops : List (Int × Request)) :
    x.run (op :: ops) = (x.step op.1 op.2).1.run ops := by
  simp [XState.run]

/-- A history run by `step` is the same history, at its ledger times, run by `stepL`. -/
theorem xrun_eq (x : XState) (ops : List (Int × Request)) :
    x.run ops = x.runL (ledgerOps x.base.latency ops) := by
  induction ops generalizing x with
  | nil => rfl
  | cons op ops ih =>
    rw [xrun_cons, ih, xstep_latency]
    simp [ledgerOps, xrunL_cons, xstep_eq]

theorem xrun_base (x : XState) (ops : List (Int × Request)) :
    (x.run ops).base = MockExchange.run x.base (ledgerOps x.base.latency ops) := by
  rw [xrun_eq, xrunL_base]

theorem xrun_latency (x : XState) (ops : List (Int × Request)) : (x.run ops).base.latency = x.base.latency := by
  rw [xrun_base, run_latency]

/-! ## A.2 The order maps along a history: market orders never rest -/

theorem stepL_cancels (x : XState) (t : Int) (rq : Request) : (x.stepL t rq).1.cancels = x.cancels := by
  simp [XState.stepL]

theorem step_cancels (x : XState) (t : Int) (rq : Request) : (x.step t rq).1.cancels = x.cancels := by
  rw [xstep_eq]; exact stepL_cancels x _ rq

/-- Exchange time of a request stamped `t`: `(updateTime s t).time = t + latency / 2`. -/
theorem stepL_opens (x : XState) (t : Int) (rq : Request) :
    (x.stepL t rq).1.opens = stampOpens (updateTime x.base t).time x.opens := by
  simp [XState.stepL, updateTime]

/-- The open orders are stamped with the code's exchange time (`stampTime`). -/
theorem step_opens (x : XState) (t : Int) (rq : Request) :
    (x.step t rq).1.opens = stampOpens (stampTime x.base.latency t) x.opens := by
  simp [XState.step]

theorem updateTime_time_eq {s s' : State} (h : s'.latency = s.latency) (t : Int) :
    (updateTime s' t).time = (updateTime s t).time := by
  simp [updateTime, h]

/-- The ledger, fed the ledger time, stamps the code's exchange time. -/
theorem updateTime_ledgerTime (s : State) (t : Int) :
    (updateTime s (ledgerTime s.latency t)).time = stampTime s.latency t := by
  simp only [updateTime]; rw [stampTime_eq]

theorem stampOpens_stampOpens (a b : Int) (os : List OpenOrd) :
    stampOpens a (stampOpens b os) = stampOpens a os := by
  simp [stampOpens, List.map_map, Function.comp_def]

theorem xrunL_cancels (x : XState) (ops : List (Int × Request)) : (x.runL ops).cancels = x.cancels := by
  induction ops generalizing x with
  | nil => rfl
  | cons op ops ih => rw [xrunL_cons, ih, stepL_cancels]

theorem xrun_cancels (x : XState) (ops : List (Int × Request)) : (x.run ops).cancels = x.cancels := by
  rw [xrun_eq, xrunL_cancels]

/-- After a non-empty history the open orders are the initial ones stamped with the exchange time of
the last request. -/
theorem stampOpens_xrunL (a : Int) (x : XState) (ops : List (Int × Request)) :
    stampOpens a (x.runL ops).opens = stampOpens a x.opens := by
  induction ops generalizing x with
  | nil => rfl
  | cons op ops ih => rw [xrunL_cons, ih, stepL_opens, stampOpens_stampOpens]

theorem stampOpens_xrun (a : Int) (x : XState) (ops : List (Int × Request)) :
    stampOpens a (x.run ops).opens = stampOpens a x.opens := by
  rw [xrun_eq, stampOpens_xrunL]

theorem xrun_opens_snoc (x : XState) (ops : List (Int × Request)) (op : Int × Request) :
    (x.run (ops ++ [op])).opens = stampOpens (stampTime x.base.latency op.1) x.opens := by
  rw [xrun_append, step_opens, stampOpens_xrun, xrun_latency]

/-- Forgetting the time stamp. -/
def OpenOrd.untimed (o : OpenOrd) : OrdHead × Nat × Rat := (o.head, o.id, o.filled)

theorem stampOpens_untimed (te : Int) (os : List OpenOrd) :
    (stampOpens te os).map OpenOrd.untimed = os.map OpenOrd.untimed := by
  simp [stampOpens, List.map_map, Function.comp_def, OpenOrd.untimed]

theorem xrun_opens_untimed (x : XState) (ops : List (Int × Request)) :
    (x.run ops).opens.map OpenOrd.untimed = x.opens.map OpenOrd.untimed := by
  induction ops using snoc_induction with
  | nil => rfl
  | snoc ops op _ => rw [xrun_opens_snoc, stampOpens_untimed]

/-! ## A.3 `update_time_exchange` stamps balances and open orders -/

theorem openOrder_balance_times {s : State} {te : Int} (hs : s.time = te) (h : ∀ b ∈ s.balances, b.time = te)
    (r : Req) : ∀ b ∈ (openOrder s r).1.balances, b.time = te := by
  rcases openOrder_cases s r with ⟨_, e⟩ | ⟨_, _, e⟩ | ⟨u, _, _, _, e⟩ | ⟨u, cur, _, _, _, _, e⟩ |
    ⟨u, cur, _, _, _, _, _, e⟩ | ⟨u, cur, _, _, _, _, _, e⟩ <;> rw [e] <;> try exact h
  intro b hb
  rcases mem_set_cases hb with rfl | hb
  · exact hs
  · exact h b hb

theorem step_balance_times (s : State) (t : Int) (rq : Request) :
    ∀ b ∈ (MockExchange.step s t rq).1.balances, b.time = (updateTime s t).time := by
  have hu : ∀ b ∈ (updateTime s t).balances, b.time = (updateTime s t).time := by
    intro b hb
    simp only [updateTime, List.mem_map] at hb
    obtain ⟨b0, _, rfl⟩ := hb
    rfl
  cases rq with
  | openOrder r =>
    rw [step_open]
    have := openOrder_balance_times (s := updateTime s t) rfl hu r
    split
    · rename_i s' f heq; rw [heq] at this; exact this
    · rename_i s' res _ heq; rw [heq] at this; exact this
  | _ => exact hu

theorem step_time (s : State) (t : Int) (rq : Request) :
    (MockExchange.step s t rq).1.time = (updateTime s t).time := by
  cases rq with
  | openOrder r =>
    rw [step_open]
    have := openOrder_time_trades (updateTime s t) r
    split
    · rename_i s' f heq; rw [heq] at this; exact this.1
    · rename_i s' res _ heq; rw [heq] at this; exact this.1
  | _ => rfl

/-! ## A.4 `AccountState::from` -/

/-- The nested fold of `AccountState::from` is a fold over the flattened order list. -/
theorem ordersFrom_flat (groups : List (Nat × List InitOrd)) :
    ordersFrom groups = (groups.flatMap (·.2)).foldl absorb ([], []) := by
  unfold ordersFrom
  generalize (([], []) : List OpenOrd × List CancOrd) = acc
  induction groups generalizing acc with
  | nil => rfl
  | cons g gs ih => simp [List.foldl_append, ih]

section insertKey
variable {α : Type} (key : α → Nat)

theorem mem_insertKey {v a : α} {l : List α} (h : a ∈ insertKey key v l) : a = v ∨ a ∈ l := by
  induction l with
  | nil => simp [insertKey] at h; exact Or.inl h
  | cons x xs ih =>
    simp only [insertKey] at h
    split at h
    · simp only [List.mem_cons] at h ⊢; rcases h with h | h | h <;> simp [h]
    · split at h
      · simp only [List.mem_cons] at h ⊢; rcases h with h | h <;> simp [h]
      · simp only [List.mem_cons] at h ⊢
        rcases h with h | h
        · simp [h]
        · rcases ih h with h | h <;> simp [h]

theorem self_mem_insertKey (v : α) (l : List α) : v ∈ insertKey key v l := by
  induction l with
  | nil => simp [insertKey]
  | cons x xs ih =>
    simp only [insertKey]
    split
    · simp
    · split
      · simp
      · simp [ih]

/-- Strictly ascending keys. -/
def KeySorted (l : List α) : Prop := l.Pairwise fun a b => key a < key b

theorem keySorted_insertKey (v : α) {l : List α} (h : KeySorted key l) : KeySorted key (insertKey key v l) := by
  induction l with
  | nil => simp [insertKey, KeySorted]
  | cons x xs ih =>
    simp only [KeySorted, List.pairwise_cons] at h
    simp only [insertKey]
    split
    · rename_i hlt
      simp only [KeySorted, List.pairwise_cons, List.mem_cons]
      refine ⟨?_, h⟩
      rintro b (rfl | hb)
      · exact hlt
      · exact Nat.lt_trans hlt (h.1 b hb)
    · split
      · rename_i heq
        simp only [KeySorted, List.pairwise_cons]
        exact ⟨fun b hb => heq ▸ h.1 b hb, h.2⟩
      · rename_i hnlt hne
        simp only [KeySorted, List.pairwise_cons]
        refine ⟨?_, ih h.2⟩
        intro b hb
        rcases mem_insertKey key hb with rfl | hb
        · omega
        · exact h.1 b hb

/-- With a fresh key, `insert` adds the value and keeps everything else. -/
theorem insertKey_perm (v : α) {l : List α} (hfresh : ∀ a ∈ l, key a ≠ key v) :
    (insertKey key v l).Perm (v :: l) := by
  induction l with
  | nil => simp [insertKey]
  | cons x xs ih =>
    simp only [insertKey]
    split
    · exact List.Perm.refl _
    · split
      · rename_i heq; exact absurd heq.symm (hfresh x (by simp))
      · exact ((ih fun a ha => hfresh a (by simp [ha])).cons x).trans (List.Perm.swap v x xs)

/-- Two members of a strictly key-sorted list with the same key are the same. -/
theorem keySorted_inj {a v : α} : ∀ {l : List α}, KeySorted key l → a ∈ l → v ∈ l → key a = key v → a = v := by
  intro l hl
  induction l with
  | nil => intro h; cases h
  | cons x xs ih =>
    simp only [KeySorted, List.pairwise_cons] at hl
    intro h1 h2 hk
    simp only [List.mem_cons] at h1 h2
    rcases h1 with rfl | h1 <;> rcases h2 with rfl | h2
    · rfl
    · have := hl.1 _ h2; omega
    · have := hl.1 _ h1; omega
    · exact ih hl.2 h1 h2 hk

/-- A key that is present has its value REPLACED: the old value is gone. -/
theorem insertKey_replaces (v : α) {l : List α} (hs : KeySorted key l) {a : α} (ha : a ∈ l)
    (hk : key a = key v) (hne : a ≠ v) : a ∉ insertKey key v l := by
  intro hmem
  have hsorted := keySorted_insertKey key v hs
  have hv := self_mem_insertKey key v l
  exact hne (keySorted_inj key hsorted hmem hv hk)

theorem foldl_insertKey_sorted (vs : List α) {l : List α} (h : KeySorted key l) :
    KeySorted key (vs.foldl (fun acc v => insertKey key v acc) l) := by
  induction vs generalizing l with
  | nil => exact h
  | cons v vs ih => exact ih (keySorted_insertKey key v h)

theorem foldl_insertKey_perm (vs : List α) {l : List α} (hnd : ((l ++ vs).map key).Nodup) :
    (vs.foldl (fun acc v => insertKey key v acc) l).Perm (l ++ vs) := by
  induction vs generalizing l with
  | nil => simp
  | cons v vs ih =>
    simp only [List.foldl_cons]
    have hfresh : ∀ a ∈ l, key a ≠ key v := by
      intro a ha heq
      simp only [List.map_append, List.map_cons, List.nodup_append, List.mem_map, List.mem_cons] at hnd
      exact hnd.2.2 (key a) ⟨a, ha, rfl⟩ (key v) (Or.inl rfl) heq
    have hp := insertKey_perm key v hfresh
    have hnd' : ((insertKey key v l ++ vs).map key).Nodup := by
      have : ((insertKey key v l ++ vs).map key).Perm ((l ++ v :: vs).map key) := by
        apply List.Perm.map
        exact (hp.append_right vs).trans (by simpa using List.perm_middle.symm)
      exact (this.nodup_iff).mpr hnd
    exact (ih hnd').trans ((hp.append_right vs).trans (by simpa using List.perm_middle.symm))

end insertKey

/-- The open orders of the configuration, as `absorb` sees them. -/
def asOpen (o : InitOrd) : Option OpenOrd :=
  match o.state with
  | .open id time filled => some ⟨o.head, id, time, filled⟩
  | _ => none

def asCancelled (o : InitOrd) : Option CancOrd :=
  match o.state with
  | .cancelled id time => some ⟨o.head, id, time⟩
  | _ => none

theorem initialOpen_eq (c : XCfg) : Spec.initialOpen c = (Spec.initialOrders c).filterMap asOpen := by
  unfold Spec.initialOpen asOpen; rfl

theorem initialCancelled_eq (c : XCfg) :
    Spec.initialCancelled c = (Spec.initialOrders c).filterMap asCancelled := by
  unfold Spec.initialCancelled asCancelled; rfl

/-- The fold of `AccountState::from` splits into one `insert` fold per map. -/
theorem foldl_absorb (os : List InitOrd) (acc : List OpenOrd × List CancOrd) :
    os.foldl absorb acc =
      ((os.filterMap asOpen).foldl (fun m v => insertKey (·.head.cid) v m) acc.1,
       (os.filterMap asCancelled).foldl (fun m v => insertKey (·.head.cid) v m) acc.2) := by
  induction os generalizing acc with
  | nil => rfl
  | cons o os ih =>
    simp only [List.foldl_cons, ih]
    cases hs : o.state <;> simp [absorb, asOpen, asCancelled, hs, List.filterMap_cons]

theorem init_opens (c : XCfg) :
    (XState.init c).opens = (Spec.initialOpen c).foldl (fun m v => insertKey (·.head.cid) v m) [] := by
  simp [XState.init, ordersFrom_flat, foldl_absorb, initialOpen_eq, Spec.initialOrders]

theorem init_cancels (c : XCfg) :
    (XState.init c).cancels = (Spec.initialCancelled c).foldl (fun m v => insertKey (·.head.cid) v m) [] := by
  simp [XState.init, ordersFrom_flat, foldl_absorb, initialCancelled_eq, Spec.initialOrders]

/-- A strictly key-sorted permutation of a list is its `byCid` listing. -/
theorem eq_byCid {α : Type} (key : α → Nat) {m l : List α} (hs : KeySorted key m) (hp : m.Perm l) :
    m = Spec.byCid key l := by
  unfold Spec.byCid
  apply List.Perm.eq_of_pairwise (le := fun a b => decide (key a ≤ key b) = true)
  · intro a b ha hb h1 h2
    have hb' : b ∈ m := hp.symm.subset ((List.mem_mergeSort).mp hb)
    have hk : key a = key b := by
      simp only [decide_eq_true_eq] at h1 h2; omega
    exact keySorted_inj key hs ha hb' hk
  · exact hs.imp (fun h => by simp only [decide_eq_true_eq]; omega)
  · exact List.pairwise_mergeSort (fun a b c h1 h2 => by simp only [decide_eq_true_eq] at *; omega)
      (fun a b => by simp only [Bool.or_eq_true, decide_eq_true_eq]; omega) l
  · exact hp.trans (List.mergeSort_perm l _).symm

/-! ## A.5 The grouping of `account_snapshot` -/

/-- `gs` is the per-instrument grouping of `os`. -/
structure IsGrouping (os : List SnapOrd) (gs : List (Nat × List SnapOrd)) : Prop where
  /-- instruments strictly ascending: each listed once -/
  asc : (gs.map (·.1)).Pairwise (· < ·)
  /-- a group holds exactly the orders of its instrument, in their order; no group is empty -/
  grp : ∀ p ∈ gs, p.2 = os.filter (fun o => o.instr == p.1) ∧ p.2 ≠ []
  /-- every order's instrument is listed -/
  cov : ∀ o ∈ os, ∃ p ∈ gs, p.1 = o.instr

theorem asc_eq_of_mem_iff : ∀ {l₁ l₂ : List Nat}, l₁.Pairwise (· < ·) → l₂.Pairwise (· < ·) →
    (∀ i, i ∈ l₁ ↔ i ∈ l₂) → l₁ = l₂
  | [], [], _, _, _ => rfl
  | [], b :: l₂, _, _, h => by have := (h b).mpr (by simp); simp at this
  | a :: l₁, [], _, _, h => by have := (h a).mp (by simp); simp at this
  | a :: l₁, b :: l₂, h₁, h₂, h => by
    simp only [List.pairwise_cons] at h₁ h₂
    have hab : a = b := by
      have ha := (h a).mp (by simp)
      have hb := (h b).mpr (by simp)
      simp only [List.mem_cons] at ha hb
      rcases ha with ha | ha
      · exact ha
      · rcases hb with hb | hb
        · exact hb.symm
        · have := h₁.1 b hb; have := h₂.1 a ha; omega
    subst hab
    congr 1
    apply asc_eq_of_mem_iff h₁.2 h₂.2
    intro i
    have := h i
    simp only [List.mem_cons] at this
    constructor
    · intro hi
      rcases this.mp (Or.inr hi) with rfl | h'
      · have := h₁.1 i hi; omega
      · exact h'
    · intro hi
      rcases this.mpr (Or.inr hi) with rfl | h'
      · have := h₂.1 i hi; omega
      · exact h'

theorem IsGrouping.key_mem_iff {os : List SnapOrd} {gs : List (Nat × List SnapOrd)} (h : IsGrouping os gs)
    (i : Nat) : i ∈ gs.map (·.1) ↔ ∃ o ∈ os, o.instr = i := by
  constructor
  · intro hi
    obtain ⟨p, hp, rfl⟩ := List.mem_map.mp hi
    obtain ⟨he, hne⟩ := h.grp p hp
    rw [he] at hne
    obtain ⟨o, ho⟩ := List.exists_mem_of_ne_nil _ hne
    simp only [List.mem_filter, beq_iff_eq] at ho
    exact ⟨o, ho.1, ho.2⟩
  · rintro ⟨o, ho, rfl⟩
    obtain ⟨p, hp, hpi⟩ := h.cov o ho
    exact List.mem_map.mpr ⟨p, hp, hpi⟩

theorem IsGrouping.eq_map {os : List SnapOrd} {gs : List (Nat × List SnapOrd)} (h : IsGrouping os gs) :
    gs = (gs.map (·.1)).map fun i => (i, os.filter fun o => o.instr == i) := by
  rw [List.map_map]
  conv => lhs; rw [← List.map_id gs]
  apply List.map_congr_left
  intro p hp
  have := (h.grp p hp).1
  simp only [id, Function.comp]
  rw [← this]

/-- The grouping of a list of orders is unique. -/
theorem IsGrouping.unique {os : List SnapOrd} {gs gs' : List (Nat × List SnapOrd)} (h : IsGrouping os gs)
    (h' : IsGrouping os gs') : gs = gs' := by
  have hk : gs.map (·.1) = gs'.map (·.1) :=
    asc_eq_of_mem_iff h.asc h'.asc fun i => by rw [h.key_mem_iff, h'.key_mem_iff]
  rw [h.eq_map, h'.eq_map, hk]

/-- Stability of the insertion: filtering by instrument commutes with it. -/
theorem filter_insertInstr (o : SnapOrd) (l : List SnapOrd) (i : Nat) :
    (insertInstr o l).filter (fun x => x.instr == i) =
      if o.instr = i then o :: l.filter (fun x => x.instr == i) else l.filter (fun x => x.instr == i) := by
  induction l with
  | nil => by_cases h : o.instr = i <;> simp [insertInstr, h]
  | cons x xs ih =>
    simp only [insertInstr]
    split
    · by_cases h : o.instr = i <;> simp [List.filter_cons, h]
    · rename_i hle
      rw [List.filter_cons, ih]
      by_cases h : o.instr = i
      · have : ¬ x.instr = i := by omega
        simp [h, this, List.filter_cons]
      · simp [h, List.filter_cons]

theorem filter_sortInstr (os : List SnapOrd) (i : Nat) :
    (sortInstr os).filter (fun x => x.instr == i) = os.filter (fun x => x.instr == i) := by
  induction os with
  | nil => rfl
  | cons o os ih =>
    simp only [sortInstr, filter_insertInstr, ih, List.filter_cons]
    by_cases h : o.instr = i <;> simp [h]

theorem mem_insertInstr {o a : SnapOrd} {l : List SnapOrd} : a ∈ insertInstr o l ↔ a = o ∨ a ∈ l := by
  induction l with
  | nil => simp [insertInstr]
  | cons x xs ih =>
    simp only [insertInstr]
    split
    · simp
    · simp only [List.mem_cons, ih]
      constructor
      · rintro (h | h | h) <;> simp [h]
      · rintro (h | h | h) <;> simp [h]

theorem mem_sortInstr {a : SnapOrd} {os : List SnapOrd} : a ∈ sortInstr os ↔ a ∈ os := by
  induction os with
  | nil => simp [sortInstr]
  | cons o os ih => simp [sortInstr, mem_insertInstr, ih]

/-- Weakly ascending instruments. -/
def InstrSorted (l : List SnapOrd) : Prop := l.Pairwise fun a b => a.instr ≤ b.instr

theorem sorted_insertInstr (o : SnapOrd) {l : List SnapOrd} (h : InstrSorted l) : InstrSorted (insertInstr o l) := by
  induction l with
  | nil => simp [insertInstr, InstrSorted]
  | cons x xs ih =>
    simp only [InstrSorted, List.pairwise_cons] at h
    simp only [insertInstr]
    split
    · rename_i hle
      simp only [InstrSorted, List.pairwise_cons, List.mem_cons]
      refine ⟨?_, h⟩
      rintro b (rfl | hb)
      · exact hle
      · exact Nat.le_trans hle (h.1 b hb)
    · rename_i hnle
      simp only [InstrSorted, List.pairwise_cons]
      refine ⟨?_, ih h.2⟩
      intro b hb
      rcases mem_insertInstr.mp hb with rfl | hb
      · omega
      · exact h.1 b hb

theorem sorted_sortInstr (os : List SnapOrd) : InstrSorted (sortInstr os) := by
  induction os with
  | nil => simp [sortInstr, InstrSorted]
  | cons o os ih => exact sorted_insertInstr o ih

/-- On a list sorted by instrument, `chunk_by` is the grouping. -/
theorem chunk_grouping {l : List SnapOrd} (hs : InstrSorted l) : IsGrouping l (chunk l) := by
  induction l with
  | nil => exact ⟨by simp [chunk], by simp [chunk], by simp⟩
  | cons o l ih =>
    simp only [InstrSorted, List.pairwise_cons] at hs
    have ih := ih hs.2
    -- every key of the tail's grouping is an instrument of the tail, hence ≥ o.instr
    have hkey : ∀ p ∈ chunk l, o.instr ≤ p.1 := by
      intro p hp
      obtain ⟨x, hx, hxi⟩ := (ih.key_mem_iff p.1).mp (List.mem_map.mpr ⟨p, hp, rfl⟩)
      have := hs.1 x hx; omega
    cases hc : chunk l with
    | nil =>
      have hl : l = [] := by
        cases l with
        | nil => rfl
        | cons x xs =>
          obtain ⟨p, hp, _⟩ := ih.cov x (by simp)
          rw [hc] at hp; cases hp
      subst hl
      simp only [chunk]
      refine ⟨by simp, ?_, ?_⟩
      · intro p hp; simp only [List.mem_singleton] at hp; subst hp; simp
      · intro x hx; simp only [List.mem_singleton] at hx; subst hx; exact ⟨(x.instr, [x]), by simp, rfl⟩
    | cons q rest =>
      obtain ⟨i, g⟩ := q
      rw [hc] at ih hkey
      have hasc := ih.asc
      simp only [List.map_cons, List.pairwise_cons] at hasc
      simp only [chunk, hc]
      split
      · rename_i heq
        refine ⟨?_, ?_, ?_⟩
        · simpa using hasc
        · intro p hp
          simp only [List.mem_cons] at hp
          rcases hp with rfl | hp
          · have := ih.grp (i, g) (by simp)
            simp only at this ⊢
            refine ⟨?_, by simp⟩
            rw [List.filter_cons]; simp [heq, this.1]
          · have hlt : i < p.1 := hasc.1 p.1 (List.mem_map.mpr ⟨p, hp, rfl⟩)
            have := ih.grp p (by simp [hp])
            refine ⟨?_, this.2⟩
            rw [List.filter_cons]
            have : ¬ o.instr = p.1 := by omega
            simp [this, (ih.grp p (by simp [hp])).1]
        · intro x hx
          simp only [List.mem_cons] at hx
          rcases hx with rfl | hx
          · exact ⟨(i, x :: g), by simp, heq.symm⟩
          · obtain ⟨p, hp, hpi⟩ := ih.cov x hx
            simp only [List.mem_cons] at hp
            rcases hp with rfl | hp
            · exact ⟨(i, o :: g), by simp, hpi⟩
            · exact ⟨p, by simp [hp], hpi⟩
      · rename_i hne
        have hlt : o.instr < i := by have := hkey (i, g) (by simp); simp only at this; omega
        -- no order of the tail has o's instrument
        have hnone : l.filter (fun x => x.instr == o.instr) = [] := by
          rw [List.filter_eq_nil_iff]
          intro x hx hxi
          simp only [beq_iff_eq] at hxi
          obtain ⟨p, hp, hpi⟩ := ih.cov x hx
          have := hkey p hp
          simp only [List.mem_cons] at hp
          rcases hp with rfl | hp
          · simp only at hpi; omega
          · have := hasc.1 p.1 (List.mem_map.mpr ⟨p, hp, rfl⟩); omega
        refine ⟨?_, ?_, ?_⟩
        · simp only [List.map_cons, List.pairwise_cons, List.mem_cons]
          refine ⟨?_, hasc⟩
          rintro b (rfl | hb)
          · exact hlt
          · exact Nat.lt_trans hlt (hasc.1 b hb)
        · intro p hp
          simp only [List.mem_cons] at hp
          rcases hp with rfl | hp
          · simp [List.filter_cons, hnone]
          · have hp' : p ∈ (i, g) :: rest := by simpa using hp
            have hle : i ≤ p.1 := by
              rcases hp with rfl | hp
              · exact Nat.le_refl _
              · exact Nat.le_of_lt (hasc.1 p.1 (List.mem_map.mpr ⟨p, hp, rfl⟩))
            have := ih.grp p hp'
            refine ⟨?_, this.2⟩
            rw [List.filter_cons]
            have : ¬ o.instr = p.1 := by omega
            simp [this, (ih.grp p hp').1]
        · intro x hx
          simp only [List.mem_cons] at hx
          rcases hx with rfl | hx
          · exact ⟨(x.instr, [x]), by simp, rfl⟩
          · obtain ⟨p, hp, hpi⟩ := ih.cov x hx
            exact ⟨p, by simp only [List.mem_cons] at hp ⊢; exact Or.inr hp, hpi⟩

/-- `sorted_by_key` + `chunk_by` compute the grouping of the unsorted list (stably). -/
theorem groups_grouping (os : List SnapOrd) : IsGrouping os (chunk (sortInstr os)) := by
  have h := chunk_grouping (sorted_sortInstr os)
  refine ⟨h.asc, ?_, ?_⟩
  · intro p hp
    have := h.grp p hp
    rw [filter_sortInstr] at this
    exact this
  · intro o ho
    exact h.cov o (mem_sortInstr.mpr ho)

theorem foldl_max_le (os : List SnapOrd) (b : Nat) :
    b ≤ os.foldl (fun b o => max b (o.instr + 1)) b ∧
    ∀ o ∈ os, o.instr < os.foldl (fun b o => max b (o.instr + 1)) b := by
  induction os generalizing b with
  | nil => simp
  | cons x xs ih =>
    simp only [List.foldl_cons, List.mem_cons]
    have := ih (max b (x.instr + 1))
    refine ⟨by omega, ?_⟩
    rintro o (rfl | ho)
    · omega
    · exact this.2 o ho

/-- The specification's listing is the grouping as well. -/
theorem spec_groups_grouping (os : List SnapOrd) : IsGrouping os (Spec.groups os) := by
  unfold Spec.groups
  simp only
  generalize hb : os.foldl (fun b o => max b (o.instr + 1)) 0 = bound
  have hbound : ∀ o ∈ os, o.instr < bound := by rw [← hb]; exact (foldl_max_le os 0).2
  have hmem : ∀ p, p ∈ (List.range bound).filterMap (fun i =>
      if (os.filter fun o => o.instr == i).isEmpty then none else some (i, os.filter fun o => o.instr == i)) ↔
      p.1 < bound ∧ p.2 = os.filter (fun o => o.instr == p.1) ∧ p.2 ≠ [] := by
    intro p
    simp only [List.mem_filterMap, List.mem_range]
    constructor
    · rintro ⟨i, hi, h⟩
      split at h
      · cases h
      · rename_i hne
        cases h
        exact ⟨hi, rfl, by simpa using hne⟩
    · rintro ⟨h1, h2, h3⟩
      refine ⟨p.1, h1, ?_⟩
      have : ¬ (os.filter fun o => o.instr == p.1).isEmpty = true := by rw [← h2]; simpa using h3
      rw [if_neg this, ← h2]
  refine ⟨?_, ?_, ?_⟩
  · rw [List.map_filterMap]
    have : (List.range bound).Pairwise (· < ·) := List.pairwise_lt_range
    refine List.Pairwise.filterMap _ ?_ this
    intro a a' hlt b hb b' hb'
    split at hb <;> simp at hb
    split at hb' <;> simp at hb'
    omega
  · intro p hp
    exact ((hmem p).mp hp).2
  · intro o ho
    refine ⟨(o.instr, os.filter fun x => x.instr == o.instr), (hmem _).mpr ⟨hbound o ho, rfl, ?_⟩, rfl⟩
    intro hnil
    have := (List.filter_eq_nil_iff.mp hnil) o ho
    simp at this

/-- `account_snapshot().instruments` is the specification's listing of the account's orders. -/
theorem groups_eq_spec (x : XState) : x.groups = Spec.groups x.ordersAll :=
  (groups_grouping x.ordersAll).unique (spec_groups_grouping x.ordersAll)

/-! ## A.6 The exchange's answers refine the history-only specification -/

theorem init_opens_byCid {c : XCfg} (h : Spec.distinctCids c) :
    (XState.init c).opens = Spec.byCid (·.head.cid) (Spec.initialOpen c) := by
  rw [init_opens]
  apply eq_byCid
  · exact foldl_insertKey_sorted _ _ (by simp [KeySorted])
  · simpa using foldl_insertKey_perm (·.head.cid) (Spec.initialOpen c) (l := []) (by simpa using h.1)

theorem init_cancels_byCid {c : XCfg} (h : Spec.distinctCids c) :
    (XState.init c).cancels = Spec.byCid (·.head.cid) (Spec.initialCancelled c) := by
  rw [init_cancels]
  apply eq_byCid
  · exact foldl_insertKey_sorted _ _ (by simp [KeySorted])
  · simpa using foldl_insertKey_perm (·.head.cid) (Spec.initialCancelled c) (l := []) (by simpa using h.2)

/-- `Spec.answer` as a function of the ledger times (proof device: the exchange time is
`t + latency / 2` unconditionally). -/
def answerL (c : XCfg) (hist : List (Int × Request)) (t : Int) (rq : Request) : Spec.Answer :=
  let acc := MockExchange.Spec.accepted c.base (opens c.base hist)
  let te := exchangeTime c.base t
  match rq with
  | .fetchSnapshot => .snapshot (MockExchange.Spec.ledger c.base acc) te (Spec.groups (Spec.ordersAt c te))
  | .fetchBalances => .balances (MockExchange.Spec.ledger c.base acc) te
  | .fetchOrdersOpen => .orders (Spec.openAt c te)
  | .fetchTrades since => .trades (MockExchange.Spec.tradesSince c.base acc since)
  | .cancelOrder => .unsupported
  | .openOrder r =>
    match MockExchange.Spec.respond c.base acc ⟨te, r⟩ with
    | some (a, b, tr) => .filled acc.length te r.qty a b tr
    | none => .rejected

theorem xrunL_time (c : XCfg) (hist : List (Int × Request)) (t : Int) :
    (updateTime ((XState.init c).runL hist).base t).time = exchangeTime c.base t := by
  rw [xrunL_base]
  simp [updateTime, exchangeTime, run_latency, XState.init, MockExchange.init]

/-- The order maps after any history and one more request stamped `t`. -/
theorem stepL_orders {c : XCfg} (hd : Spec.distinctCids c) (hist : List (Int × Request)) (t : Int) (rq : Request) :
    let x' := (((XState.init c).runL hist).stepL t rq).1
    x'.opens = Spec.openAt c (exchangeTime c.base t) ∧
    x'.cancels = Spec.byCid (·.head.cid) (Spec.initialCancelled c) ∧
    x'.ordersAll = Spec.ordersAt c (exchangeTime c.base t) := by
  have h1 : ((((XState.init c).runL hist).stepL t rq).1).opens = Spec.openAt c (exchangeTime c.base t) := by
    rw [stepL_opens, xrunL_time, stampOpens_xrunL, init_opens_byCid hd]
    rfl
  have h2 : ((((XState.init c).runL hist).stepL t rq).1).cancels = Spec.byCid (·.head.cid) (Spec.initialCancelled c) := by
    rw [stepL_cancels, xrunL_cancels, init_cancels_byCid hd]
  refine ⟨h1, h2, ?_⟩
  simp only [XState.ordersAll, Spec.ordersAt, h1, h2]

/-- Whatever the exchange has been asked before (`hist`), its response to the next request conforms
to the history-only answer of the specification, and it broadcasts exactly the notifications that
answer is accompanied by. -/
theorem stepL_conforms {c : XCfg} (hc : c.base.wf = true) (hd : Spec.distinctCids c)
    (hist : List (Int × Request)) (t : Int) (rq : Request) :
    Spec.Conforms (((XState.init c).runL hist).stepL t rq).2.1 (answerL c hist t rq) ∧
    (((XState.init c).runL hist).stepL t rq).2.2 = (answerL c hist t rq).events := by
  obtain ⟨ho, hcn, hall⟩ := stepL_orders hd hist t rq
  have hg : ((((XState.init c).runL hist).stepL t rq).1).groups =
      Spec.groups (Spec.ordersAt c (exchangeTime c.base t)) := by rw [groups_eq_spec, hall]
  have hbase : ((XState.init c).runL hist).base = MockExchange.run (MockExchange.init c.base) hist := by
    rw [xrunL_base]; rfl
  have htimes := step_balance_times ((XState.init c).runL hist).base t rq
  rw [xrunL_time] at htimes
  obtain ⟨⟨bs1, hs1, hl1⟩, ⟨bs2, hs2, hl2⟩, htr⟩ := Props_queries hc hist t
  cases rq with
  | fetchSnapshot =>
    have e := hs1
    rw [← hbase] at e
    have hb : (MockExchange.step ((XState.init c).runL hist).base t .fetchSnapshot).1.balances = bs1 := by
      have : (MockExchange.step ((XState.init c).runL hist).base t .fetchSnapshot).2.1 = .snapshot bs1 := by rw [e]
      simpa [MockExchange.step] using this
    simp only [XState.stepL, e, answerL, Spec.Conforms, Spec.Answer.events] at hg ⊢
    refine ⟨⟨hl1, ?_, hg⟩, trivial⟩
    rw [← hb]; exact htimes
  | fetchBalances =>
    have e := hs2
    rw [← hbase] at e
    have hb : (MockExchange.step ((XState.init c).runL hist).base t .fetchBalances).1.balances = bs2 := by
      have : (MockExchange.step ((XState.init c).runL hist).base t .fetchBalances).2.1 = .balances bs2 := by rw [e]
      simpa [MockExchange.step] using this
    simp only [XState.stepL, e, answerL, Spec.Conforms, Spec.Answer.events]
    refine ⟨⟨hl2, ?_⟩, trivial⟩
    rw [← hb]; exact htimes
  | fetchOrdersOpen =>
    simp only [XState.stepL, MockExchange.step, answerL, Spec.Conforms, Spec.Answer.events]
    refine ⟨?_, trivial⟩
    have := ho
    simp only [XState.stepL] at this
    exact this
  | fetchTrades since =>
    have e := htr since
    rw [← hbase] at e
    simp only [XState.stepL, e, answerL, Spec.Conforms, Spec.Answer.events]
    exact ⟨trivial, trivial⟩
  | cancelOrder =>
    simp [XState.stepL, MockExchange.step, answerL, Spec.Conforms, Spec.Answer.events]
  | openOrder r =>
    have e := Props_responses hc hist t r
    rw [← hbase] at e
    simp only [answerL]
    cases hr : MockExchange.Spec.respond c.base (MockExchange.Spec.accepted c.base (opens c.base hist))
        ⟨exchangeTime c.base t, r⟩ with
    | none =>
      rw [hr] at e
      obtain ⟨err, he⟩ := e
      simp only [XState.stepL, he, Spec.Conforms, Spec.Answer.events]
      exact ⟨trivial, trivial⟩
    | some v =>
      obtain ⟨a, b, tr⟩ := v
      rw [hr] at e
      simp only at e
      simp only [XState.stepL, e, Spec.Conforms, Spec.Answer.events]
      exact ⟨trivial, trivial⟩

/-- The specification's exchange time is the code's stamp. -/
theorem exchTime_eq (c : XCfg) (t : Int) : Spec.exchTime c t = stampTime c.base.latency t := by
  simp only [Spec.exchTime, stampTime]
  split <;> split <;> first | rfl | omega

theorem exchangeTime_ledgerTime (c : XCfg) (t : Int) :
    exchangeTime c.base (ledgerTime c.base.latency t) = Spec.exchTime c t := by
  rw [exchTime_eq, stampTime_eq]; rfl

theorem seenOpens_eq (c : XCfg) (hist : List (Int × Request)) :
    Spec.seenOpens c hist = opens c.base (ledgerOps c.base.latency hist) := by
  induction hist with
  | nil => rfl
  | cons op hist ih =>
    obtain ⟨t, rq⟩ := op
    cases rq <;>
      simp only [Spec.seenOpens, ih, opens, ledgerOps, List.map_cons, List.filterMap_cons, evOf,
        List.reverse_cons, exchangeTime_ledgerTime]

theorem answer_eq (c : XCfg) (hist : List (Int × Request)) (t : Int) (rq : Request) :
    Spec.answer c hist t rq = answerL c (ledgerOps c.base.latency hist) (ledgerTime c.base.latency t) rq := by
  simp only [Spec.answer, answerL, seenOpens_eq, exchangeTime_ledgerTime]
  rfl

theorem xinit_latency (c : XCfg) : (XState.init c).base.latency = c.base.latency := rfl

/-- The order maps after any history and one more request stamped `t`. -/
theorem step_orders {c : XCfg} (hd : Spec.distinctCids c) (hist : List (Int × Request)) (t : Int) (rq : Request) :
    let x' := (((XState.init c).run hist).step t rq).1
    x'.opens = Spec.openAt c (Spec.exchTime c t) ∧
    x'.cancels = Spec.byCid (·.head.cid) (Spec.initialCancelled c) ∧
    x'.ordersAll = Spec.ordersAt c (Spec.exchTime c t) := by
  have := stepL_orders hd (ledgerOps c.base.latency hist) (ledgerTime c.base.latency t) rq
  rw [exchangeTime_ledgerTime] at this
  simpa only [xrun_eq, xstep_eq, xinit_latency, xrunL_base, run_latency] using this

/-- Whatever the exchange has been asked before (`hist`), its response to the next request conforms
to the history-only answer of the specification, and it broadcasts exactly the notifications that
answer is accompanied by. -/
theorem step_conforms {c : XCfg} (hc : c.base.wf = true) (hd : Spec.distinctCids c)
    (hist : List (Int × Request)) (t : Int) (rq : Request) :
    Spec.Conforms (((XState.init c).run hist).step t rq).2.1 (Spec.answer c hist t rq) ∧
    (((XState.init c).run hist).step t rq).2.2 = (Spec.answer c hist t rq).events := by
  have := stepL_conforms hc hd (ledgerOps c.base.latency hist) (ledgerTime c.base.latency t) rq
  simpa only [xrun_eq, xstep_eq, xinit_latency, xrunL_base, run_latency, answer_eq] using this

/-! ## A.7 The channel capacity -/

theorem nextPow2_go_spec (n : Nat) : ∀ (fuel p k : Nat), p = 2 ^ k → n ≤ p * 2 ^ fuel → (∀ j, j < k → 2 ^ j < n) →
    n ≤ nextPow2.go n fuel p ∧ ∃ k', nextPow2.go n fuel p = 2 ^ k' ∧ ∀ j, j < k' → 2 ^ j < n
  | 0, p, k, hp, hn, hlt => by
    simp only [nextPow2.go]
    exact ⟨by simpa using hn, k, hp, hlt⟩
  | fuel + 1, p, k, hp, hn, hlt => by
    simp only [nextPow2.go]
    split
    · rename_i hpn
      apply nextPow2_go_spec n fuel (p * 2) (k + 1)
      · rw [hp, Nat.pow_succ]
      · rw [Nat.pow_succ] at hn
        calc n ≤ p * (2 ^ fuel * 2) := hn
          _ = p * 2 * 2 ^ fuel := by rw [Nat.mul_comm (2 ^ fuel) 2, Nat.mul_assoc]
      · intro j hj
        by_cases hjk : j < k
        · exact hlt j hjk
        · have : j = k := by omega
          subst this; rw [← hp]; exact hpn
    · rename_i hpn
      exact ⟨by omega, k, hp, hlt⟩

/-- `nextPow2 n` is the least power of two that is `≥ n`. -/
theorem nextPow2_spec (n : Nat) :
    n ≤ nextPow2 n ∧ ∃ k, nextPow2 n = 2 ^ k ∧ ∀ j, n ≤ 2 ^ j → 2 ^ k ≤ 2 ^ j := by
  have hn : n ≤ 1 * 2 ^ n := by
    rw [Nat.one_mul]; exact Nat.le_of_lt Nat.lt_two_pow_self
  obtain ⟨h1, k, h2, h3⟩ := nextPow2_go_spec n n 1 0 rfl hn (fun j hj => by omega)
  refine ⟨h1, k, h2, fun j hj => ?_⟩
  apply Nat.pow_le_pow_right (by decide)
  by_cases hjk : j < k
  · have := h3 j hjk; omega
  · omega

/-! # Part B: the system (client, channels, tasks)

## B.1 Projections of the elementary transitions -/

section complete
variable (s : Sys) (call : Nat) (o : Outcome)

@[simp] theorem complete_cfg : (s.complete call o).cfg = s.cfg := by unfold Sys.complete; split <;> rfl
@[simp] theorem complete_now : (s.complete call o).now = s.now := by unfold Sys.complete; split <;> rfl
@[simp] theorem complete_clock : (s.complete call o).clock = s.clock := by unfold Sys.complete; split <;> rfl
@[simp] theorem complete_exch : (s.complete call o).exch = s.exch := by unfold Sys.complete; split <;> rfl
@[simp] theorem complete_gate : (s.complete call o).gate = s.gate := by unfold Sys.complete; split <;> rfl
@[simp] theorem complete_queue : (s.complete call o).queue = s.queue := by unfold Sys.complete; split <;> rfl
@[simp] theorem complete_timers : (s.complete call o).timers = s.timers := by unfold Sys.complete; split <;> rfl
@[simp] theorem complete_log : (s.complete call o).log = s.log := by unfold Sys.complete; split <;> rfl
@[simp] theorem complete_subs : (s.complete call o).subs = s.subs := by unfold Sys.complete; split <;> rfl
@[simp] theorem complete_calls : (s.complete call o).calls = s.calls := by unfold Sys.complete; split <;> rfl
@[simp] theorem complete_plog : (s.complete call o).plog = s.plog := by unfold Sys.complete; split <;> rfl
@[simp] theorem complete_fired : (s.complete call o).fired = s.fired := by unfold Sys.complete; split <;> rfl
@[simp] theorem complete_latency : (s.complete call o).latency = s.latency := by simp [Sys.latency]

end complete

/-- The record the exchange task leaves in the history for message `m`. -/
def recOf (s : Sys) (x : XState) (m : Msg) : PRec :=
  ⟨m.call, m.t, m.rq, s.now, (x.step m.t m.rq).2.1, (x.step m.t m.rq).2.2⟩

/-- The latency tasks spawned for a processed request. -/
def timersFor (lat : Nat) (p : PRec) : List Timer :=
  if p.resp = .dropped then []
  else [⟨p.at_ + lat, .resp p.call p.resp⟩] ++ (if p.evs.isEmpty then [] else [⟨p.at_ + lat, .notify p.evs⟩])

section process
variable (s : Sys) (x : XState) (m : Msg)

theorem process_snd : (s.process x m).2 = (x.step m.t m.rq).1 := by
  unfold Sys.process; simp only; split <;> rfl

@[simp] theorem process_cfg : (s.process x m).1.cfg = s.cfg := by
  unfold Sys.process; simp only; split <;> simp
@[simp] theorem process_now : (s.process x m).1.now = s.now := by
  unfold Sys.process; simp only; split <;> simp
@[simp] theorem process_clock : (s.process x m).1.clock = s.clock := by
  unfold Sys.process; simp only; split <;> simp
@[simp] theorem process_exch : (s.process x m).1.exch = s.exch := by
  unfold Sys.process; simp only; split <;> simp
@[simp] theorem process_gate : (s.process x m).1.gate = s.gate := by
  unfold Sys.process; simp only; split <;> simp
@[simp] theorem process_queue : (s.process x m).1.queue = s.queue := by
  unfold Sys.process; simp only; split <;> simp
@[simp] theorem process_log : (s.process x m).1.log = s.log := by
  unfold Sys.process; simp only; split <;> simp
@[simp] theorem process_subs : (s.process x m).1.subs = s.subs := by
  unfold Sys.process; simp only; split <;> simp
@[simp] theorem process_calls : (s.process x m).1.calls = s.calls := by
  unfold Sys.process; simp only; split <;> simp
@[simp] theorem process_fired : (s.process x m).1.fired = s.fired := by
  unfold Sys.process; simp only; split <;> simp
@[simp] theorem process_latency : (s.process x m).1.latency = s.latency := by simp [Sys.latency]

@[simp] theorem process_plog : (s.process x m).1.plog = s.plog ++ [recOf s x m] := by
  unfold Sys.process recOf; simp only; split <;> simp

@[simp] theorem process_timers :
    (s.process x m).1.timers = s.timers ++ timersFor s.latency (recOf s x m) := by
  unfold Sys.process recOf timersFor
  simp only
  split
  · rename_i h; simp [h]
  · rename_i h
    have : ¬ (x.step m.t m.rq).2.1 = .dropped := fun e => h e
    simp [this, List.append_assoc]

end process

/-! ## B.2 The exchange never panics from a well-formed configuration -/

theorem xstep_no_panic {x : XState} (h : WF x.base) (t : Int) (rq : Request) :
    (x.step t rq).2.1 ≠ .order .panic := by
  cases rq with
  | openOrder r =>
    intro he
    simp only [XState.step, step_open_resp] at he
    injection he with he
    exact openOrder_no_panic (updateTime_wf _ h) r he
  | _ => simp [XState.step, MockExchange.step]

theorem xstep_wf {x : XState} (h : WF x.base) (t : Int) (rq : Request) : WF (x.step t rq).1.base := by
  rw [(step_base x t rq).1]; exact step_wf h _ rq

theorem xrun_wf {x : XState} (h : WF x.base) (ops : List (Int × Request)) : WF (x.run ops).base := by
  induction ops generalizing x with
  | nil => exact h
  | cons op ops ih => rw [xrun_cons]; exact ih (xstep_wf h op.1 op.2)

theorem xinit_wf {c : XCfg} (hc : c.base.wf = true) : WF (XState.init c).base :=
  refines_wf (refines_init hc) hc

/-! ## B.3 Closed forms: the exchange task working through the queue -/

/-- The history records of processing `ms` one after the other from exchange state `x` at virtual
time `now`. -/
def recsOf (now : Nat) (x : XState) : List Msg → List PRec
  | [] => []
  | m :: ms =>
    ⟨m.call, m.t, m.rq, now, (x.step m.t m.rq).2.1, (x.step m.t m.rq).2.2⟩ :: recsOf now (x.step m.t m.rq).1 ms

def msgOps (ms : List Msg) : List (Int × Request) := ms.map fun m => (m.t, m.rq)

def plogOps (ps : List PRec) : List (Int × Request) := ps.map fun p => (p.t, p.rq)

theorem recsOf_ops (now : Nat) (x : XState) (ms : List Msg) : plogOps (recsOf now x ms) = msgOps ms := by
  induction ms generalizing x with
  | nil => rfl
  | cons m ms ih => simp only [recsOf, plogOps, msgOps, List.map_cons] at ih ⊢; rw [ih]

theorem recsOf_calls (now : Nat) (x : XState) (ms : List Msg) :
    (recsOf now x ms).map (·.call) = ms.map (·.call) := by
  induction ms generalizing x with
  | nil => rfl
  | cons m ms ih => simp only [recsOf, List.map_cons]; rw [ih]

theorem recsOf_at (now : Nat) (x : XState) (ms : List Msg) : ∀ p ∈ recsOf now x ms, p.at_ = now := by
  induction ms generalizing x with
  | nil => simp [recsOf]
  | cons m ms ih =>
    intro p hp
    simp only [recsOf, List.mem_cons] at hp
    rcases hp with rfl | hp
    · rfl
    · exact ih _ p hp

/-- Core fields of the state that `complete` never touches. -/
structure SameCore (s s' : Sys) : Prop where
  cfg : s'.cfg = s.cfg
  now : s'.now = s.now
  clock : s'.clock = s.clock
  exch : s'.exch = s.exch
  gate : s'.gate = s.gate
  queue : s'.queue = s.queue
  log : s'.log = s.log
  subs : s'.subs = s.subs
  calls : s'.calls = s.calls
  fired : s'.fired = s.fired

theorem SameCore.refl (s : Sys) : SameCore s s := ⟨rfl, rfl, rfl, rfl, rfl, rfl, rfl, rfl, rfl, rfl⟩

theorem SameCore.trans {a b c : Sys} (h1 : SameCore a b) (h2 : SameCore b c) : SameCore a c :=
  ⟨h2.cfg.trans h1.cfg, h2.now.trans h1.now, h2.clock.trans h1.clock, h2.exch.trans h1.exch,
   h2.gate.trans h1.gate, h2.queue.trans h1.queue, h2.log.trans h1.log, h2.subs.trans h1.subs,
   h2.calls.trans h1.calls, h2.fired.trans h1.fired⟩

theorem sameCore_process (s : Sys) (x : XState) (m : Msg) : SameCore s (s.process x m).1 :=
  ⟨by simp, by simp, by simp, by simp, by simp, by simp, by simp, by simp, by simp, by simp⟩

theorem SameCore.latency {s s' : Sys} (h : SameCore s s') : s'.latency = s.latency := by
  simp [Sys.latency, h.cfg]

/-- From a well-formed exchange state the queue is worked through completely. -/
theorem processAll_ok (s : Sys) {x : XState} (h : WF x.base) (ms : List Msg) :
    (s.processAll x ms).2 = some (x.run (msgOps ms)) ∧
    (s.processAll x ms).1.plog = s.plog ++ recsOf s.now x ms ∧
    (s.processAll x ms).1.timers = s.timers ++ (recsOf s.now x ms).flatMap (timersFor s.latency) ∧
    SameCore s (s.processAll x ms).1 := by
  induction ms generalizing s x with
  | nil => simp [Sys.processAll, recsOf, msgOps, XState.run, SameCore.refl]
  | cons m ms ih =>
    have hnp := xstep_no_panic h m.t m.rq
    have hwf := xstep_wf h m.t m.rq
    simp only [Sys.processAll, if_neg hnp]
    rw [process_snd]
    obtain ⟨i1, i2, i3, i4⟩ := ih (s.process x m).1 hwf
    refine ⟨?_, ?_, ?_, ?_⟩
    · rw [i1]; simp [msgOps, xrun_cons]
    · rw [i2]; simp [recsOf, recOf, List.append_assoc]
    · rw [i3]; simp [recsOf, recOf, List.append_assoc]
    · exact (sameCore_process s x m).trans i4

/-- Closed form of the exchange task's turn. -/
theorem runExchange_ok {s : Sys} {x : XState} (hg : s.gate = true) (hx : s.exch = some x) (h : WF x.base) :
    s.runExchange.exch = some (x.run (msgOps s.queue)) ∧
    s.runExchange.queue = [] ∧
    s.runExchange.plog = s.plog ++ recsOf s.now x s.queue ∧
    s.runExchange.timers = s.timers ++ (recsOf s.now x s.queue).flatMap (timersFor s.latency) ∧
    s.runExchange.cfg = s.cfg ∧ s.runExchange.now = s.now ∧ s.runExchange.clock = s.clock ∧
    s.runExchange.gate = s.gate ∧ s.runExchange.log = s.log ∧ s.runExchange.subs = s.subs ∧
    s.runExchange.calls = s.calls ∧ s.runExchange.fired = s.fired := by
  obtain ⟨i1, i2, i3, i4⟩ := processAll_ok { s with queue := [] } h s.queue
  have key : s.runExchange = { ({ s with queue := [] }.processAll x s.queue).1 with
      exch := ({ s with queue := [] }.processAll x s.queue).2 } := by
    unfold Sys.runExchange
    split
    · rename_i x' hg' hx'
      rw [hx] at hx'; injection hx' with hx'; subst hx'; rfl
    · rename_i hne
      exact absurd hx (hne x hg)
  rw [key]
  refine ⟨i1, ?_, ?_, ?_, ?_, ?_, ?_, ?_, ?_, ?_, ?_, ?_⟩
  · simpa using i4.queue
  · simpa using i2
  · simpa [Sys.latency] using i3
  · simpa using i4.cfg
  · simpa using i4.now
  · simpa using i4.clock
  · simpa using i4.gate
  · simpa using i4.log
  · simpa using i4.subs
  · simpa using i4.calls
  · simpa using i4.fired

/-- The exchange task does nothing when it is not scheduled or gone. -/
theorem runExchange_idle {s : Sys} (h : s.gate = false ∨ s.exch = none) : s.runExchange = s := by
  unfold Sys.runExchange
  rcases h with h | h
  · simp [h]
  · cases hg : s.gate <;> simp [h]

/-! ## B.4 Closed forms: latency tasks waking up -/

def notifyEvs (tm : Timer) : List Event :=
  match tm.act with
  | .notify evs => evs
  | .resp _ _ => []

theorem fireOne_fields (s : Sys) (tm : Timer) :
    (s.fireOne tm).log = s.log ++ notifyEvs tm ∧ (s.fireOne tm).timers = s.timers ∧
    (s.fireOne tm).plog = s.plog ∧ (s.fireOne tm).cfg = s.cfg ∧ (s.fireOne tm).now = s.now ∧
    (s.fireOne tm).clock = s.clock ∧ (s.fireOne tm).exch = s.exch ∧ (s.fireOne tm).gate = s.gate ∧
    (s.fireOne tm).queue = s.queue ∧ (s.fireOne tm).subs = s.subs ∧ (s.fireOne tm).calls = s.calls ∧
    (s.fireOne tm).fired = s.fired := by
  unfold Sys.fireOne notifyEvs
  cases tm.act <;> simp

theorem foldl_fireOne_fields (tms : List Timer) (s : Sys) :
    (tms.foldl Sys.fireOne s).log = s.log ++ tms.flatMap notifyEvs ∧
    (tms.foldl Sys.fireOne s).timers = s.timers ∧
    (tms.foldl Sys.fireOne s).plog = s.plog ∧ (tms.foldl Sys.fireOne s).cfg = s.cfg ∧
    (tms.foldl Sys.fireOne s).now = s.now ∧ (tms.foldl Sys.fireOne s).clock = s.clock ∧
    (tms.foldl Sys.fireOne s).exch = s.exch ∧ (tms.foldl Sys.fireOne s).gate = s.gate ∧
    (tms.foldl Sys.fireOne s).queue = s.queue ∧ (tms.foldl Sys.fireOne s).subs = s.subs ∧
    (tms.foldl Sys.fireOne s).calls = s.calls ∧ (tms.foldl Sys.fireOne s).fired = s.fired := by
  induction tms generalizing s with
  | nil => simp
  | cons tm tms ih =>
    obtain ⟨h1, h2, h3, h4, h5, h6, h7, h8, h9, h10, h11, h12⟩ := fireOne_fields s tm
    obtain ⟨i1, i2, i3, i4, i5, i6, i7, i8, i9, i10, i11, i12⟩ := ih (s.fireOne tm)
    simp only [List.foldl_cons, List.flatMap_cons]
    refine ⟨by rw [i1, h1, List.append_assoc], by rw [i2, h2], by rw [i3, h3], by rw [i4, h4], by rw [i5, h5],
      by rw [i6, h6], by rw [i7, h7], by rw [i8, h8], by rw [i9, h9], by rw [i10, h10], by rw [i11, h11],
      by rw [i12, h12]⟩

def isDue (now : Nat) (tm : Timer) : Bool := decide (tm.due ≤ now)

theorem fire_fields (s : Sys) :
    s.fire.log = s.log ++ (s.timers.filter (isDue s.now)).flatMap notifyEvs ∧
    s.fire.timers = s.timers.filter (fun tm => !isDue s.now tm) ∧
    s.fire.fired = s.fired + (s.timers.filter (isDue s.now)).length ∧
    s.fire.plog = s.plog ∧ s.fire.cfg = s.cfg ∧ s.fire.now = s.now ∧ s.fire.clock = s.clock ∧
    s.fire.exch = s.exch ∧ s.fire.gate = s.gate ∧ s.fire.queue = s.queue ∧ s.fire.subs = s.subs ∧
    s.fire.calls = s.calls := by
  unfold Sys.fire
  simp only
  obtain ⟨i1, i2, i3, i4, i5, i6, i7, i8, i9, i10, i11, i12⟩ :=
    foldl_fireOne_fields (s.timers.filter fun tm => decide (tm.due ≤ s.now))
      { s with timers := s.timers.filter fun tm => !decide (tm.due ≤ s.now),
               fired := s.fired + (s.timers.filter fun tm => decide (tm.due ≤ s.now)).length }
  exact ⟨i1, i2, i12, i3, i4, i5, i6, i7, i8, i9, i10, i11⟩

/-! ## B.5 Invariant: timers, event log and history -/

/-- Every latency task ever spawned, in spawn order. -/
def allTimersOf (lat : Nat) (plog : List PRec) : List Timer := plog.flatMap (timersFor lat)

structure InvT (lat now : Nat) (timers : List Timer) (log : List Event) (plog : List PRec) (fired : Nat) : Prop where
  /-- the sleeping tasks are the spawned ones minus the first `fired` -/
  timers_eq : timers = (allTimersOf lat plog).drop fired
  /-- the channel holds what the woken notification tasks sent, in spawn order -/
  log_eq : log = ((allTimersOf lat plog).take fired).flatMap notifyEvs
  fired_le : fired ≤ (allTimersOf lat plog).length
  fired_past : ∀ tm ∈ (allTimersOf lat plog).take fired, tm.due ≤ now
  at_sorted : (plog.map (·.at_)).Pairwise (· ≤ ·)
  at_le : ∀ p ∈ plog, p.at_ ≤ now

theorem timersFor_due {lat : Nat} {p : PRec} : ∀ tm ∈ timersFor lat p, tm.due = p.at_ + lat := by
  intro tm h
  unfold timersFor at h
  split at h
  · cases h
  · simp only [List.mem_append, List.mem_singleton] at h
    rcases h with rfl | h
    · rfl
    · split at h
      · cases h
      · simp only [List.mem_singleton] at h; subst h; rfl

theorem allTimers_sorted {lat : Nat} {plog : List PRec} (h : (plog.map (·.at_)).Pairwise (· ≤ ·)) :
    (allTimersOf lat plog).Pairwise fun a b => a.due ≤ b.due := by
  induction plog with
  | nil => simp [allTimersOf]
  | cons p ps ih =>
    simp only [List.map_cons, List.pairwise_cons, List.mem_map] at h
    simp only [allTimersOf, List.flatMap_cons, List.pairwise_append]
    refine ⟨?_, ih h.2, ?_⟩
    · rw [List.pairwise_iff_forall_sublist]
      intro a b hab
      have ha := timersFor_due a (hab.subset (by simp))
      have hb := timersFor_due b (hab.subset (by simp))
      omega
    · intro a ha b hb
      simp only [List.mem_flatMap] at hb
      obtain ⟨q, hq, hbq⟩ := hb
      have := timersFor_due a ha
      have := timersFor_due b hbq
      have := h.1 q.at_ ⟨q, hq, rfl⟩
      omega

theorem allTimers_due_le {lat now : Nat} {plog : List PRec} (h : ∀ p ∈ plog, p.at_ ≤ now) :
    ∀ tm ∈ allTimersOf lat plog, tm.due ≤ now + lat := by
  intro tm htm
  simp only [allTimersOf, List.mem_flatMap] at htm
  obtain ⟨q, hq, hbq⟩ := htm
  have := timersFor_due tm hbq
  have := h q hq
  omega

/-- On a list sorted by deadline the due timers are a prefix. -/
theorem filter_due_prefix (now : Nat) : ∀ {l : List Timer}, l.Pairwise (fun a b => a.due ≤ b.due) →
    l.filter (isDue now) = l.take (l.filter (isDue now)).length ∧
    l.filter (fun tm => !isDue now tm) = l.drop (l.filter (isDue now)).length
  | [], _ => by simp
  | a :: l, h => by
    simp only [List.pairwise_cons] at h
    by_cases ha : isDue now a = true
    · have ih := filter_due_prefix now h.2
      simp only [List.filter_cons, ha, if_true, List.length_cons, List.take_succ_cons, List.drop_succ_cons,
        Bool.not_true, Bool.false_eq_true, if_false]
      exact ⟨by rw [← ih.1], ih.2⟩
    · have hnone : l.filter (isDue now) = [] := by
        rw [List.filter_eq_nil_iff]
        intro b hb
        have := h.1 b hb
        simp only [isDue, decide_eq_true_eq] at ha ⊢
        omega
      have hall : l.filter (fun tm => !isDue now tm) = l := by
        rw [List.filter_eq_self]
        intro b hb
        have := List.filter_eq_nil_iff.mp hnone b hb
        simpa using this
      simp [List.filter_cons, ha, hnone, hall]

theorem InvT.init (lat : Nat) : InvT lat 0 [] [] [] 0 :=
  ⟨by simp [allTimersOf], by simp [allTimersOf], by simp, by simp, by simp, by simp⟩

/-- Virtual time passes. -/
theorem InvT.adv {lat now now' : Nat} {timers log plog fired} (h : InvT lat now timers log plog fired)
    (hle : now ≤ now') : InvT lat now' timers log plog fired :=
  ⟨h.timers_eq, h.log_eq, h.fired_le, fun tm htm => Nat.le_trans (h.fired_past tm htm) hle, h.at_sorted,
   fun p hp => Nat.le_trans (h.at_le p hp) hle⟩

/-- The exchange task processes requests now. -/
theorem InvT.append {lat now : Nat} {timers log plog fired} (h : InvT lat now timers log plog fired)
    {recs : List PRec} (hr : ∀ p ∈ recs, p.at_ = now) :
    InvT lat now (timers ++ recs.flatMap (timersFor lat)) log (plog ++ recs) fired := by
  have hall : allTimersOf lat (plog ++ recs) = allTimersOf lat plog ++ recs.flatMap (timersFor lat) := by
    simp [allTimersOf]
  refine ⟨?_, ?_, ?_, ?_, ?_, ?_⟩
  · rw [hall, List.drop_append_of_le_length h.fired_le, ← h.timers_eq]
  · rw [hall, List.take_append_of_le_length h.fired_le, ← h.log_eq]
  · rw [hall, List.length_append]; have := h.fired_le; omega
  · rw [hall, List.take_append_of_le_length h.fired_le]; exact h.fired_past
  · rw [List.map_append, List.pairwise_append]
    refine ⟨h.at_sorted, ?_, ?_⟩
    · rw [List.pairwise_map]
      rw [List.pairwise_iff_forall_sublist]
      intro a b hab
      have := hr a (hab.subset (by simp)); have := hr b (hab.subset (by simp)); omega
    · intro a ha b hb
      simp only [List.mem_map] at ha hb
      obtain ⟨p, hp, rfl⟩ := ha
      obtain ⟨q, hq, rfl⟩ := hb
      have := h.at_le p hp; have := hr q hq; omega
  · intro p hp
    rcases List.mem_append.mp hp with hp | hp
    · exact h.at_le p hp
    · exact Nat.le_of_eq (hr p hp)

/-- The latency tasks whose deadline has been reached wake up; afterwards nothing is overdue. -/
theorem InvT.fire {lat now : Nat} {timers log plog fired} (h : InvT lat now timers log plog fired) :
    InvT lat now (timers.filter fun tm => !isDue now tm) (log ++ (timers.filter (isDue now)).flatMap notifyEvs) plog
      (fired + (timers.filter (isDue now)).length) ∧
    ∀ tm ∈ timers.filter (fun tm => !isDue now tm), now < tm.due := by
  have hsorted : timers.Pairwise (fun a b => a.due ≤ b.due) := by
    rw [h.timers_eq]
    exact (allTimers_sorted h.at_sorted).sublist (List.drop_sublist _ _)
  obtain ⟨hp1, hp2⟩ := filter_due_prefix now hsorted
  generalize hj : (timers.filter (isDue now)).length = j at hp1 hp2
  have hjle : j ≤ timers.length := by rw [← hj]; exact List.length_filter_le _ _
  have htl : timers.length = (allTimersOf lat plog).length - fired := by rw [h.timers_eq]; simp
  refine ⟨⟨?_, ?_, ?_, ?_, h.at_sorted, h.at_le⟩, ?_⟩
  · rw [hp2, h.timers_eq, List.drop_drop]
  · rw [hp1, List.take_add, List.flatMap_append, ← h.log_eq, ← h.timers_eq]
  · have := h.fired_le; omega
  · intro tm htm
    rw [List.take_add, List.mem_append] at htm
    rcases htm with htm | htm
    · exact h.fired_past tm htm
    · rw [← h.timers_eq, ← hp1] at htm
      have := (List.mem_filter.mp htm).2
      simpa [isDue] using this
  · intro tm htm
    have := (List.mem_filter.mp htm).2
    simp only [isDue, Bool.not_eq_true', decide_eq_false_iff_not] at this
    omega

/-! ## B.6 Workers and completions -/

theorem waiter_some : ∀ {ws : List (Option Pending)} {call w : Nat} {p : Pending},
    waiter ws call = some (w, p) → ws[w]? = some (some p) ∧ p.call = call
  | [], _, _, _, h => by simp [waiter] at h
  | none :: rest, call, w, p, h => by
    simp only [waiter, Option.map_eq_some_iff] at h
    obtain ⟨⟨i, q⟩, hq, he⟩ := h
    cases he
    have := waiter_some hq
    simpa using this
  | some q :: rest, call, w, p, h => by
    simp only [waiter] at h
    split at h
    · rename_i hc
      cases h
      exact ⟨by simp, hc⟩
    · simp only [Option.map_eq_some_iff] at h
      obtain ⟨⟨i, q'⟩, hq, he⟩ := h
      cases he
      have := waiter_some hq
      simpa using this

/-- A call as recorded when it was issued, sent to a live exchange. -/
def Issued (calls : List CRec) (call : Nat) (t : Int) (rq : Request) : Prop :=
  ∃ c, calls[call]? = some c ∧ c.t = t ∧ c.what.wire = rq ∧ c.sent = true

/-- Why a oneshot resolves the way it does. -/
def Justified (s : Sys) (call : Nat) : Outcome → Prop
  | .answered r => ∃ p ∈ s.plog, p.call = call ∧ p.resp = r ∧ r ≠ .dropped ∧ p.at_ + s.latency ≤ s.now
  | .offline => (∃ p ∈ s.plog, p.call = call ∧ p.resp = .dropped) ∨ (s.exch = none ∧ ∀ p ∈ s.plog, p.call ≠ call)

/-- A completion handed to a worker is for a call that worker issued, and it is justified. -/
def OutOk (s : Sys) (d : Done) : Prop :=
  (∃ c, s.calls[d.call]? = some c ∧ c.worker = d.worker ∧ c.what = d.what ∧ d.elapsed = s.now - c.at_) ∧
  Justified s d.call d.out

abbrev WorkersOk (s : Sys) : Prop :=
  ∀ (w : Nat) (p : Pending), s.workers[w]? = some (some p) →
    ∃ c : CRec, s.calls[p.call]? = some c ∧ c.worker = w ∧ c.what = p.what ∧ c.at_ = p.started

structure WO (s : Sys) : Prop where
  workers : WorkersOk s
  out : ∀ d ∈ s.out, OutOk s d

theorem Justified.mono {s s' : Sys} {call : Nat} {o : Outcome} (h : Justified s call o)
    (hnow : s'.now = s.now) (hcfg : s'.cfg = s.cfg) (hex : s.exch = none → s'.exch = none)
    (hsub : ∀ p ∈ s.plog, p ∈ s'.plog) (hdead : s.exch = none → s'.plog = s.plog) : Justified s' call o := by
  cases o with
  | answered r =>
    obtain ⟨p, hp, h1, h2, h3, h4⟩ := h
    exact ⟨p, hsub p hp, h1, h2, h3, by simpa [Sys.latency, hnow, hcfg] using h4⟩
  | offline =>
    rcases h with ⟨p, hp, h1, h2⟩ | ⟨h1, h2⟩
    · exact Or.inl ⟨p, hsub p hp, h1, h2⟩
    · exact Or.inr ⟨hex h1, by rw [hdead h1]; exact h2⟩

theorem OutOk.mono {s s' : Sys} {d : Done} (h : OutOk s d)
    (hnow : s'.now = s.now) (hcfg : s'.cfg = s.cfg) (hex : s.exch = none → s'.exch = none) (hcalls : s'.calls = s.calls)
    (hsub : ∀ p ∈ s.plog, p ∈ s'.plog) (hdead : s.exch = none → s'.plog = s.plog) : OutOk s' d :=
  ⟨by simpa [hcalls, hnow] using h.1, h.2.mono hnow hcfg hex hsub hdead⟩

/-- A oneshot resolves: if a worker still waits on it, it gets a justified completion. -/
theorem WO.complete {s : Sys} (h : WO s) {call : Nat} {o : Outcome} (hj : Justified s call o) :
    WO (s.complete call o) := by
  unfold Sys.complete
  split
  · rename_i w p hw
    obtain ⟨hwp, hpc⟩ := waiter_some hw
    obtain ⟨c, hc1, hc2, hc3, hc4⟩ := h.workers w p hwp
    refine ⟨?_, ?_⟩
    · intro w' p' hw'
      simp only [List.getElem?_set] at hw'
      split at hw'
      · split at hw' <;> cases hw'
      · exact h.workers w' p' hw'
    · intro d hd
      simp only [List.mem_append, List.mem_singleton] at hd
      rcases hd with hd | rfl
      · exact (h.out d hd).mono rfl rfl (fun e => e) rfl (fun p hp => hp) (fun _ => rfl)
      · refine ⟨⟨c, by simpa [hpc] using hc1, hc2, hc3, by simp [hc4]⟩, ?_⟩
        exact hj.mono rfl rfl (fun e => e) (fun p hp => hp) (fun _ => rfl)
  · exact h

theorem step_dropped_iff (x : XState) (t : Int) (rq : Request) :
    (x.step t rq).2.1 = .dropped ↔ rq = .cancelOrder := by
  cases rq with
  | openOrder r => simp only [XState.step, step_open_resp]; simp
  | _ => simp [XState.step, MockExchange.step]

theorem step_dropped_evs (x : XState) (t : Int) (rq : Request) (h : (x.step t rq).2.1 = .dropped) :
    (x.step t rq).2.2 = [] := by
  rw [step_dropped_iff] at h; subst h
  simp [XState.step, MockExchange.step]

/-- One request processed. -/
theorem WO.process {s : Sys} (h : WO s) (x : XState) (m : Msg) (hex : s.exch.isSome) : WO (s.process x m).1 := by
  have hsome : s.exch ≠ none := by cases he : s.exch <;> simp_all
  unfold Sys.process
  simp only
  -- the state with the history record added
  have h0 : WO { s with plog := s.plog ++ [(⟨m.call, m.t, m.rq, s.now, (x.step m.t m.rq).2.1, (x.step m.t m.rq).2.2⟩ : PRec)] } :=
    ⟨fun w p hw => h.workers w p hw, fun d hd => (h.out d hd).mono rfl rfl (fun e => e) rfl (fun p hp => by simp [hp])
      (fun hn => absurd hn hsome)⟩
  split
  · rename_i hd
    apply h0.complete
    exact Or.inl ⟨⟨m.call, m.t, m.rq, s.now, (x.step m.t m.rq).2.1, (x.step m.t m.rq).2.2⟩, by simp, rfl, hd⟩
  · exact ⟨fun w p hw => h0.workers w p hw,
      fun d hd => (h0.out d hd).mono rfl rfl (fun e => e) rfl (fun p hp => hp) (fun _ => rfl)⟩

theorem WO.processAll {s : Sys} (h : WO s) {x : XState} (hwf : WF x.base) (ms : List Msg) (hex : s.exch.isSome) :
    WO (s.processAll x ms).1 := by
  induction ms generalizing s x with
  | nil => exact h
  | cons m ms ih =>
    have hnp := xstep_no_panic hwf m.t m.rq
    simp only [Sys.processAll, if_neg hnp]
    rw [process_snd]
    exact ih (h.process x m hex) (xstep_wf hwf m.t m.rq) (by simpa using hex)

theorem WO.foldl_complete {s : Sys} (h : WO s) (ms : List Msg) {o : Outcome}
    (hj : ∀ m ∈ ms, Justified s m.call o) : WO (ms.foldl (fun s m => s.complete m.call o) s) := by
  induction ms generalizing s with
  | nil => exact h
  | cons m ms ih =>
    simp only [List.foldl_cons]
    apply ih (h.complete (hj m (by simp)))
    intro m' hm'
    exact (hj m' (by simp [hm'])).mono (by simp) (by simp) (by simp) (by simp) (by simp)

/-- The exchange task's turn. -/
theorem WO.runExchange {s : Sys} (h : WO s) (hwf : ∀ x, s.exch = some x → WF x.base) : WO s.runExchange := by
  unfold Sys.runExchange
  split
  · rename_i x hg hx
    have h1 : WO ({ s with queue := [] }.processAll x s.queue).1 :=
      WO.processAll (s := { s with queue := [] }) ⟨fun w p hw => h.workers w p hw, h.out⟩ (hwf x hx) s.queue
        (by simp [hx])
    exact ⟨fun w p hw => h1.workers w p hw,
      fun d hd => (h1.out d hd).mono rfl rfl (fun hn => by
        have := (processAll_ok { s with queue := [] } (hwf x hx) s.queue).2.2.2.exch
        rw [this] at hn
        simp only [hx] at hn
        cases hn) rfl (fun p hp => hp) (fun _ => rfl)⟩
  · exact h

theorem WO.foldl_fireOne {s : Sys} (h : WO s) (tms : List Timer)
    (hj : ∀ tm ∈ tms, ∀ call r, tm.act = .resp call r → Justified s call (.answered r)) :
    WO (tms.foldl Sys.fireOne s) := by
  induction tms generalizing s with
  | nil => exact h
  | cons tm tms ih =>
    simp only [List.foldl_cons]
    have hstep : WO (s.fireOne tm) := by
      unfold Sys.fireOne
      cases ha : tm.act with
      | resp call r => exact h.complete (hj tm (by simp) call r ha)
      | notify evs =>
        exact ⟨fun w p hw => h.workers w p hw,
          fun d hd => (h.out d hd).mono rfl rfl (fun e => e) rfl (fun p hp => hp) (fun _ => rfl)⟩
    apply ih hstep
    intro tm' htm' call r ha
    obtain ⟨_, _, f3, f4, f5, _, f7, _⟩ := fireOne_fields s tm
    exact (hj tm' (by simp [htm']) call r ha).mono f5 f4 (by rw [f7]; exact fun e => e) (by rw [f3]; exact fun p hp => hp)
      (fun _ => f3)

theorem WO.fire {s : Sys} (h : WO s)
    (hj : ∀ tm ∈ s.timers, tm.due ≤ s.now → ∀ call r, tm.act = .resp call r → Justified s call (.answered r)) :
    WO s.fire := by
  unfold Sys.fire
  simp only
  apply WO.foldl_fireOne
    (s := { s with timers := s.timers.filter fun tm => !decide (tm.due ≤ s.now),
                   fired := s.fired + (s.timers.filter fun tm => decide (tm.due ≤ s.now)).length })
    ⟨fun w p hw => h.workers w p hw,
     fun d hd => (h.out d hd).mono rfl rfl (fun e => e) rfl (fun p hp => hp) (fun _ => rfl)⟩
  intro tm htm call r ha
  have hm := List.mem_filter.mp htm
  exact (hj tm hm.1 (by simpa using hm.2) call r ha).mono rfl rfl (fun e => e) (fun p hp => hp) (fun _ => rfl)

/-- A sleeping response task belongs to a processed request and carries its response. -/
theorem timer_resp_justified {lat now : Nat} {timers log plog fired} (h : InvT lat now timers log plog fired)
    {tm : Timer} (htm : tm ∈ timers) {call : Nat} {r : XResp} (ha : tm.act = .resp call r) :
    ∃ p ∈ plog, p.call = call ∧ p.resp = r ∧ r ≠ .dropped ∧ tm.due = p.at_ + lat := by
  rw [h.timers_eq] at htm
  have htm := List.mem_of_mem_drop htm
  simp only [allTimersOf, List.mem_flatMap] at htm
  obtain ⟨p, hp, hin⟩ := htm
  refine ⟨p, hp, ?_⟩
  have hdue := timersFor_due tm hin
  unfold timersFor at hin
  split at hin
  · cases hin
  · rename_i hnd
    simp only [List.mem_append, List.mem_singleton] at hin
    rcases hin with rfl | hin
    · simp only at ha
      injection ha with h1 h2
      exact ⟨h1, h2, h2 ▸ hnd, hdue⟩
    · split at hin
      · cases hin
      · simp only [List.mem_singleton] at hin; subst hin; cases ha

/-! ## B.7 The history records are the exchange's responses -/

/-- Every record of the history holds what the exchange, having processed the requests before it,
produces for that request. -/
def PlogOk (c : XCfg) (plog : List PRec) : Prop :=
  ∀ (k : Nat) (p : PRec), plog[k]? = some p →
    p.resp = (((XState.init c).run (plogOps (plog.take k))).step p.t p.rq).2.1 ∧
    p.evs = (((XState.init c).run (plogOps (plog.take k))).step p.t p.rq).2.2

theorem plogOps_append (a b : List PRec) : plogOps (a ++ b) = plogOps a ++ plogOps b := by
  simp [plogOps]

theorem xrun_append_list (x : XState) (a b : List (Int × Request)) : x.run (a ++ b) = (x.run a).run b := by
  simp [XState.run, List.foldl_append]

theorem plogOk_append {c : XCfg} (now : Nat) : ∀ (ms : List Msg) {plog : List PRec} {x : XState},
    PlogOk c plog → x = (XState.init c).run (plogOps plog) → PlogOk c (plog ++ recsOf now x ms)
  | [], plog, x, h, _ => by simpa [recsOf] using h
  | m :: ms, plog, x, h, hx => by
    have hstep : PlogOk c (plog ++ [⟨m.call, m.t, m.rq, now, (x.step m.t m.rq).2.1, (x.step m.t m.rq).2.2⟩]) := by
      intro k p hk
      by_cases hlt : k < plog.length
      · rw [List.getElem?_append_left hlt] at hk
        rw [List.take_append_of_le_length (Nat.le_of_lt hlt)]
        exact h k p hk
      · have hk' : k = plog.length := by
          have := (List.getElem?_eq_some_iff.mp hk).1
          simp at this; omega
        subst hk'
        simp only [List.getElem?_append_right (Nat.le_refl _), Nat.sub_self, List.getElem?_cons_zero,
          Option.some.injEq] at hk
        subst hk
        simp [List.take_left', ← hx]
    have hx' : (x.step m.t m.rq).1 = (XState.init c).run
        (plogOps (plog ++ [⟨m.call, m.t, m.rq, now, (x.step m.t m.rq).2.1, (x.step m.t m.rq).2.2⟩])) := by
      rw [plogOps_append, xrun_append_list, ← hx]; rfl
    have := plogOk_append now ms hstep hx'
    simpa [recsOf, List.append_assoc] using this

theorem recsOf_mem (now : Nat) : ∀ (ms : List Msg) (x : XState) (p : PRec), p ∈ recsOf now x ms →
    ∃ m ∈ ms, p.call = m.call ∧ p.t = m.t ∧ p.rq = m.rq
  | [], _, _, h => by simp [recsOf] at h
  | m :: ms, x, p, h => by
    simp only [recsOf, List.mem_cons] at h
    rcases h with rfl | h
    · exact ⟨m, by simp, rfl, rfl, rfl⟩
    · obtain ⟨m', hm', h'⟩ := recsOf_mem now ms _ p h
      exact ⟨m', by simp [hm'], h'⟩

/-! ## B.8 Call ids: requests are seen in the order they were sent -/

/-- The ids of the calls whose request reached the channel, in order. -/
def sentIds (calls : List CRec) : List Nat := (calls.zipIdx.filter (·.1.sent)).map (·.2)

theorem sentIds_append (calls : List CRec) (c : CRec) :
    sentIds (calls ++ [c]) = sentIds calls ++ (if c.sent then [calls.length] else []) := by
  simp only [sentIds, List.zipIdx_append, List.filter_append, List.map_append]
  congr 1
  cases h : c.sent <;> simp [List.zipIdx, h]

theorem sentIds_lt (calls : List CRec) : ∀ i ∈ sentIds calls, i < calls.length := by
  intro i hi
  simp only [sentIds, List.mem_map, List.mem_filter] at hi
  obtain ⟨⟨c, j⟩, ⟨hm, _⟩, rfl⟩ := hi
  have := List.mem_zipIdx hm
  simp at this; omega

theorem sentIds_nodup (calls : List CRec) : (sentIds calls).Nodup := by
  induction calls using snoc_induction with
  | nil => simp [sentIds]
  | snoc calls c ih =>
    rw [sentIds_append]
    split
    · rw [List.nodup_append]
      refine ⟨ih, by simp, ?_⟩
      intro a ha b hb
      simp only [List.mem_singleton] at hb; subst hb
      have := sentIds_lt calls a ha; omega
    · simpa using ih

theorem Issued.lt {calls : List CRec} {call : Nat} {t : Int} {rq : Request} (h : Issued calls call t rq) :
    call < calls.length := by
  obtain ⟨c, hc, _⟩ := h
  exact (List.getElem?_eq_some_iff.mp hc).1

theorem Issued.append {calls : List CRec} {call : Nat} {t : Int} {rq : Request} (h : Issued calls call t rq)
    (c' : CRec) : Issued (calls ++ [c']) call t rq := by
  obtain ⟨c, hc, h'⟩ := h
  exact ⟨c, by rw [List.getElem?_append_left (List.getElem?_eq_some_iff.mp hc).1]; exact hc, h'⟩

/-! ## B.9 The invariant of the whole system -/

structure Inv (s : Sys) : Prop where
  /-- assumption on the configuration (C08) -/
  wf : s.cfg.base.wf = true
  invT : InvT s.latency s.now s.timers s.log s.plog s.fired
  /-- the exchange task's state is the initial exchange run over the processed requests -/
  exch_run : ∀ x, s.exch = some x → x = (XState.init s.cfg).run (plogOps s.plog)
  plog_ok : PlogOk s.cfg s.plog
  /-- processed, then queued, then (once the exchange is gone) lost = sent, in the order of sending -/
  fifo : ∃ lost, s.plog.map (·.call) ++ s.queue.map (·.call) ++ lost = sentIds s.calls ∧
    (s.exch.isSome → lost = [])
  dead_queue : s.exch = none → s.queue = []
  issued_q : ∀ m ∈ s.queue, Issued s.calls m.call m.t m.rq
  issued_p : ∀ p ∈ s.plog, Issued s.calls p.call p.t p.rq
  wo : WO s
  subs_ok : ∀ b ∈ s.subs, b.start ≤ b.pos ∧ b.pos ≤ s.log.length ∧ b.got = (s.log.take b.pos).drop b.start
  /-- a request is seen no earlier than it was sent -/
  sent_q : ∀ m ∈ s.queue, ∀ c, s.calls[m.call]? = some c → c.at_ ≤ s.now
  sent_p : ∀ p ∈ s.plog, ∀ c, s.calls[p.call]? = some c → c.at_ ≤ p.at_

/-- Between two operations every task is pending: nothing is overdue, and a scheduled exchange has
emptied the channel. -/
structure Settled (s : Sys) : Prop where
  timers_future : ∀ tm ∈ s.timers, s.now < tm.due
  queue_empty : s.gate = true → s.exch.isSome → s.queue = []

theorem Inv.exch_wf {s : Sys} (h : Inv s) : ∀ x, s.exch = some x → WF x.base := by
  intro x hx
  rw [h.exch_run x hx]
  exact xrun_wf (xinit_wf h.wf) _

theorem subs_ok_append {log : List Event} {b : Sub} (extra : List Event)
    (h : b.start ≤ b.pos ∧ b.pos ≤ log.length ∧ b.got = (log.take b.pos).drop b.start) :
    b.start ≤ b.pos ∧ b.pos ≤ (log ++ extra).length ∧ b.got = ((log ++ extra).take b.pos).drop b.start := by
  refine ⟨h.1, by simp; omega, ?_⟩
  rw [List.take_append_of_le_length h.2.1]; exact h.2.2

theorem Inv.init {c : XCfg} (hc : c.base.wf = true) (w : Nat) : Inv (Sys.init c w) where
  wf := hc
  invT := InvT.init _
  exch_run := by intro x hx; simp only [Sys.init] at hx; injection hx with hx; subst hx; rfl
  plog_ok := by intro k p hk; simp [Sys.init] at hk
  fifo := ⟨[], by simp [Sys.init, sentIds], fun _ => rfl⟩
  dead_queue := by simp [Sys.init]
  issued_q := by simp [Sys.init]
  issued_p := by simp [Sys.init]
  wo := ⟨by intro w' p hw; simp [Sys.init, List.getElem?_replicate] at hw,
         by simp [Sys.init]⟩
  subs_ok := by simp [Sys.init]
  sent_q := by simp [Sys.init]
  sent_p := by simp [Sys.init]

theorem Inv.runExchange {s : Sys} (h : Inv s) : Inv s.runExchange := by
  by_cases hact : s.gate = true ∧ s.exch.isSome
  · obtain ⟨hg, hsome⟩ := hact
    obtain ⟨x, hx⟩ := Option.isSome_iff_exists.mp hsome
    have hwf := h.exch_wf x hx
    obtain ⟨e1, e2, e3, e4, e5, e6, _, _, e9, e10, e11, e12⟩ := runExchange_ok hg hx hwf
    have hlat : s.runExchange.latency = s.latency := by simp [Sys.latency, e5]
    have hxr := h.exch_run x hx
    refine ⟨by rw [e5]; exact h.wf, ?_, ?_, ?_, ?_, ?_, ?_, ?_, h.wo.runExchange h.exch_wf, ?_, ?_, ?_⟩
    · rw [hlat, e6, e4, e9, e3, e12]
      exact h.invT.append (recsOf_at _ _ _)
    · intro x' hx'
      rw [e1] at hx'; injection hx' with hx'; subst hx'
      rw [e5, e3, plogOps_append, recsOf_ops, xrun_append_list, ← hxr]
    · rw [e5, e3]; exact plogOk_append _ _ h.plog_ok hxr
    · obtain ⟨lost, hl, hl0⟩ := h.fifo
      refine ⟨lost, ?_, fun _ => hl0 hsome⟩
      rw [e3, e2, e11, List.map_append, recsOf_calls]
      simpa using hl
    · intro hn; rw [e1] at hn; cases hn
    · rw [e2]; simp
    · intro p hp
      rw [e3] at hp
      rw [e11]
      rcases List.mem_append.mp hp with hp | hp
      · exact h.issued_p p hp
      · obtain ⟨m, hm, h1, h2, h3⟩ := recsOf_mem _ _ _ p hp
        rw [h1, h2, h3]; exact h.issued_q m hm
    · rw [e10, e9]; exact h.subs_ok
    · rw [e2]; simp
    · intro p hp c hc
      rw [e3] at hp
      rw [e11] at hc
      rcases List.mem_append.mp hp with hp | hp
      · exact h.sent_p p hp c hc
      · obtain ⟨m, hm, h1, _, _⟩ := recsOf_mem _ _ _ p hp
        rw [h1] at hc
        rw [recsOf_at _ _ _ p hp]
        exact h.sent_q m hm c hc
  · have : s.runExchange = s := by
      apply runExchange_idle
      cases hg : s.gate
      · exact Or.inl rfl
      · right
        cases he : s.exch with
        | none => rfl
        | some x => exact absurd ⟨hg, by simp [he]⟩ hact
    rw [this]; exact h

theorem runExchange_queue_empty {s : Sys} (h : Inv s) :
    s.runExchange.gate = s.gate ∧ (s.runExchange.exch.isSome ↔ s.exch.isSome) ∧
    (s.gate = true → s.exch.isSome → s.runExchange.queue = []) := by
  by_cases hact : s.gate = true ∧ s.exch.isSome
  · obtain ⟨hg, hsome⟩ := hact
    obtain ⟨x, hx⟩ := Option.isSome_iff_exists.mp hsome
    obtain ⟨e1, e2, _, _, _, _, _, e8, _⟩ := runExchange_ok hg hx (h.exch_wf x hx)
    exact ⟨e8, by simp [e1, hsome], fun _ _ => e2⟩
  · have : s.runExchange = s := by
      apply runExchange_idle
      cases hg : s.gate
      · exact Or.inl rfl
      · right
        cases he : s.exch with
        | none => rfl
        | some x => exact absurd ⟨hg, by simp [he]⟩ hact
    rw [this]
    exact ⟨rfl, Iff.rfl, fun h1 h2 => absurd ⟨h1, h2⟩ hact⟩

theorem Inv.fire {s : Sys} (h : Inv s) : Inv s.fire ∧ ∀ tm ∈ s.fire.timers, s.fire.now < tm.due := by
  obtain ⟨e1, e2, e3, e4, e5, e6, _, e8, _, e10, e11, e12⟩ := fire_fields s
  have hlat : s.fire.latency = s.latency := by simp [Sys.latency, e5]
  obtain ⟨hT, hfut⟩ := h.invT.fire
  refine ⟨⟨by rw [e5]; exact h.wf, ?_, ?_, ?_, ?_, ?_, ?_, ?_, ?_, ?_, ?_, ?_⟩, ?_⟩
  · rw [hlat, e6, e2, e1, e4, e3]; exact hT
  · intro x hx; rw [e8] at hx; rw [e5, e4]; exact h.exch_run x hx
  · rw [e5, e4]; exact h.plog_ok
  · rw [e4, e10, e12, e8]; exact h.fifo
  · rw [e8, e10]; exact h.dead_queue
  · rw [e10, e12]; exact h.issued_q
  · rw [e4, e12]; exact h.issued_p
  · apply h.wo.fire
    intro tm htm hdue call r ha
    obtain ⟨p, hp, h1, h2, h3, h4⟩ := timer_resp_justified h.invT htm ha
    exact ⟨p, hp, h1, h2, h3, by omega⟩
  · rw [e11, e1]
    intro b hb
    exact subs_ok_append _ (h.subs_ok b hb)
  · rw [e10, e12, e6]; exact h.sent_q
  · rw [e4, e12]; exact h.sent_p
  · rw [e2, e6]; exact hfut

theorem Inv.settle {s : Sys} (h : Inv s) : Inv s.settle ∧ Settled s.settle := by
  unfold Sys.settle
  obtain ⟨hi, hfut⟩ := h.runExchange.fire
  refine ⟨hi, hfut, ?_⟩
  obtain ⟨_, _, _, _, _, _, _, e8, e9, e10, _⟩ := fire_fields s.runExchange
  obtain ⟨g1, g2, g3⟩ := runExchange_queue_empty h
  rw [e9, e8, e10, g1, g2]
  exact g3

/-! ## B.10 The invariant is kept by every operation -/

/-- `Inv` reads only these fields (not `clock`, not `gate`). -/
theorem Inv.congr {s s' : Sys} (h : Inv s) (hcfg : s'.cfg = s.cfg) (hnow : s'.now = s.now)
    (hexch : s'.exch = s.exch) (hqueue : s'.queue = s.queue) (htimers : s'.timers = s.timers)
    (hlog : s'.log = s.log) (hsubs : s'.subs = s.subs) (hworkers : s'.workers = s.workers)
    (hout : s'.out = s.out) (hcalls : s'.calls = s.calls) (hplog : s'.plog = s.plog)
    (hfired : s'.fired = s.fired) : Inv s' := by
  cases s; cases s'
  simp only at hcfg hnow hexch hqueue htimers hlog hsubs hworkers hout hcalls hplog hfired
  subst hcfg hnow hexch hqueue htimers hlog hsubs hworkers hout hcalls hplog hfired
  exact ⟨h.wf, h.invT, h.exch_run, h.plog_ok, h.fifo, h.dead_queue, h.issued_q, h.issued_p,
    ⟨h.wo.workers, h.wo.out⟩, h.subs_ok, h.sent_q, h.sent_p⟩

theorem Inv.complete {s : Sys} (h : Inv s) {call : Nat} {o : Outcome} (hj : Justified s call o) :
    Inv (s.complete call o) where
  wf := by simpa using h.wf
  invT := by simpa using h.invT
  exch_run := by simpa using h.exch_run
  plog_ok := by simpa using h.plog_ok
  fifo := by simpa using h.fifo
  dead_queue := by simpa using h.dead_queue
  issued_q := by simpa using h.issued_q
  issued_p := by simpa using h.issued_p
  wo := h.wo.complete hj
  subs_ok := by simpa using h.subs_ok
  sent_q := by simpa using h.sent_q
  sent_p := by simpa using h.sent_p

theorem Inv.clearOut {s : Sys} (h : Inv s) : Inv { s with out := [] } :=
  ⟨h.wf, h.invT, h.exch_run, h.plog_ok, h.fifo, h.dead_queue, h.issued_q, h.issued_p,
    ⟨h.wo.workers, by simp⟩, h.subs_ok, h.sent_q, h.sent_p⟩

theorem plog_call_lt {s : Sys} (h : Inv s) : ∀ p ∈ s.plog, p.call < s.calls.length :=
  fun p hp => (h.issued_p p hp).lt

/-- A client method is called. -/
theorem Inv.call {s : Sys} (h : Inv s) (w : Nat) (c : Call) (hout : s.out = []) : Inv (s.call w c) := by
  unfold Sys.call
  simp only
  by_cases halive : s.exch.isSome = true
  · simp only [halive, if_true]
    obtain ⟨lost, hl, hl0⟩ := h.fifo
    have hlost := hl0 halive
    subst hlost
    have hkeep : ∀ (i : Nat) (c' x : CRec), s.calls[i]? = some c' → (s.calls ++ [x])[i]? = some c' := by
      intro i c' x hc'
      rw [List.getElem?_append_left (List.getElem?_eq_some_iff.mp hc').1]; exact hc'
    refine ⟨h.wf, h.invT, h.exch_run, h.plog_ok, ?_, ?_, ?_, ?_, ?_, h.subs_ok, ?_, ?_⟩
    · refine ⟨[], ?_, fun _ => rfl⟩
      simp only [List.map_append, List.map_cons, List.map_nil, List.append_nil, sentIds_append, if_true]
      rw [← hl]; simp [List.append_assoc]
    · intro hn; simp only at hn; rw [hn] at halive; cases halive
    · intro m hm
      simp only [List.mem_append, List.mem_singleton] at hm
      rcases hm with hm | rfl
      · exact (h.issued_q m hm).append _
      · exact ⟨⟨w, s.clock, s.now, c, true⟩, by simp [halive], rfl, rfl, rfl⟩
    · intro p hp; exact (h.issued_p p hp).append _
    · refine ⟨?_, by simp [hout]⟩
      intro w' p hw'
      simp only [List.getElem?_set] at hw'
      split at hw'
      · split at hw'
        · rename_i heq _
          cases hw'
          exact ⟨⟨w, s.clock, s.now, c, true⟩, by simp [halive], heq, rfl, rfl⟩
        · cases hw'
      · obtain ⟨c', hc1, hc'⟩ := h.wo.workers w' p hw'
        exact ⟨c', by rw [List.getElem?_append_left (List.getElem?_eq_some_iff.mp hc1).1]; exact hc1, hc'⟩
    · intro m hm c' hc'
      simp only [List.mem_append, List.mem_singleton] at hm
      rcases hm with hm | rfl
      · obtain ⟨c0, hc0, _⟩ := h.issued_q m hm
        rw [hkeep _ c0 _ hc0] at hc'; injection hc' with hc'; subst hc'
        exact h.sent_q m hm c0 hc0
      · simp at hc'; subst hc'; exact Nat.le_refl _
    · intro p hp c' hc'
      obtain ⟨c0, hc0, _⟩ := h.issued_p p hp
      rw [hkeep _ c0 _ hc0] at hc'; injection hc' with hc'; subst hc'
      exact h.sent_p p hp c0 hc0
  · have hnone : s.exch = none := by cases he : s.exch <;> simp_all
    simp only [halive]
    have hsent : sentIds (s.calls ++ [⟨w, s.clock, s.now, c, false⟩]) = sentIds s.calls := by
      rw [sentIds_append]; simp
    have hbase : Inv { s with workers := s.workers.set w (some ⟨s.calls.length, s.now, c⟩),
                              calls := s.calls ++ [⟨w, s.clock, s.now, c, false⟩] } := by
      have hkeep : ∀ (i : Nat) (c' x : CRec), s.calls[i]? = some c' → (s.calls ++ [x])[i]? = some c' := by
        intro i c' x hc'
        rw [List.getElem?_append_left (List.getElem?_eq_some_iff.mp hc').1]; exact hc'
      refine ⟨h.wf, h.invT, h.exch_run, h.plog_ok, ?_, h.dead_queue, ?_, ?_, ?_, h.subs_ok, ?_, ?_⟩
      · simp only [hsent]; exact h.fifo
      · intro m hm; exact (h.issued_q m hm).append _
      · intro p hp; exact (h.issued_p p hp).append _
      · refine ⟨?_, by simp [hout]⟩
        intro w' p hw'
        simp only [List.getElem?_set] at hw'
        split at hw'
        · split at hw'
          · rename_i heq _
            cases hw'
            exact ⟨⟨w, s.clock, s.now, c, false⟩, by simp, heq, rfl, rfl⟩
          · cases hw'
        · obtain ⟨c', hc1, hc'⟩ := h.wo.workers w' p hw'
          exact ⟨c', by rw [List.getElem?_append_left (List.getElem?_eq_some_iff.mp hc1).1]; exact hc1, hc'⟩
      · intro m hm c' hc'
        obtain ⟨c0, hc0, _⟩ := h.issued_q m hm
        rw [hkeep _ c0 _ hc0] at hc'; injection hc' with hc'; subst hc'
        exact h.sent_q m hm c0 hc0
      · intro p hp c' hc'
        obtain ⟨c0, hc0, _⟩ := h.issued_p p hp
        rw [hkeep _ c0 _ hc0] at hc'; injection hc' with hc'; subst hc'
        exact h.sent_p p hp c0 hc0
    have := hbase.complete (call := s.calls.length) (o := .offline)
      (Or.inr ⟨hnone, fun p hp => Nat.ne_of_lt (plog_call_lt h p hp)⟩)
    simpa using this

/-- The exchange task is aborted. -/
theorem Inv.stop {s : Sys} (h : Inv s) : Inv s.stop := by
  unfold Sys.stop
  obtain ⟨lost, hl, hl0⟩ := h.fifo
  have hnd := sentIds_nodup s.calls
  rw [← hl] at hnd
  have hbase : Inv { s with exch := none, queue := [] } := by
    refine ⟨h.wf, h.invT, (by intro x hx; cases hx), h.plog_ok, ?_, fun _ => rfl, (by simp), h.issued_p, ?_, h.subs_ok,
      (by simp), h.sent_p⟩
    · exact ⟨s.queue.map (·.call) ++ lost, by simpa [List.append_assoc] using hl, by simp⟩
    · exact ⟨h.wo.workers, fun d hd => (h.wo.out d hd).mono rfl rfl (fun _ => rfl) rfl (fun p hp => hp) (fun _ => rfl)⟩
  have hj : ∀ m ∈ s.queue, Justified { s with exch := none, queue := [] } m.call .offline := by
    intro m hm
    refine Or.inr ⟨rfl, ?_⟩
    intro p hp heq
    rw [List.append_assoc, List.nodup_append] at hnd
    exact hnd.2.2 p.call (List.mem_map.mpr ⟨p, hp, rfl⟩) m.call
      (List.mem_append.mpr (Or.inl (List.mem_map.mpr ⟨m, hm, rfl⟩))) heq
  -- fold of completions
  suffices H : ∀ (ms : List Msg) (t : Sys), Inv t → (∀ m ∈ ms, Justified t m.call .offline) →
      Inv (ms.foldl (fun s m => s.complete m.call .offline) t) from H s.queue _ hbase hj
  intro ms
  induction ms with
  | nil => intro t ht _; exact ht
  | cons m ms ih =>
    intro t ht hjt
    simp only [List.foldl_cons]
    apply ih _ (ht.complete (hjt m (by simp)))
    intro m' hm'
    exact (hjt m' (by simp [hm'])).mono (by simp) (by simp) (by simp) (by simp) (by simp)

theorem take_drop_append {α : Type} (l : List α) {a b : Nat} (hab : a ≤ b) (hb : b ≤ l.length) :
    (l.take b).drop a ++ l.drop b = l.drop a := by
  conv => rhs; rw [← List.take_append_drop b l]
  rw [List.drop_append_of_le_length (by simp; omega)]

theorem drain_ok {s : Sys} {b : Sub}
    (h : b.start ≤ b.pos ∧ b.pos ≤ s.log.length ∧ b.got = (s.log.take b.pos).drop b.start) :
    (s.drain b).1.start ≤ (s.drain b).1.pos ∧ (s.drain b).1.pos ≤ s.log.length ∧
    (s.drain b).1.got = (s.log.take (s.drain b).1.pos).drop (s.drain b).1.start := by
  unfold Sys.drain
  split
  · exact h
  · split
    · exact h
    · simp only
      refine ⟨by omega, Nat.le_refl _, ?_⟩
      rw [h.2.2, List.take_length, take_drop_append _ h.1 h.2.1]

/-- Every possible operation keeps the invariant and ends in a settled state. -/
theorem Inv.step {s : Sys} (h : Inv s) {op : Op} {s' : Sys} {obs : Option PollObs}
    (hs : s.step op = some (s', obs)) : Inv s' ∧ Settled s' := by
  have h0 := h.clearOut
  cases op with
  | clock t =>
    simp only [Sys.step] at hs
    simp only [Option.some.injEq, Prod.mk.injEq] at hs
    rw [← hs.1]
    exact (h0.congr (s' := { s with out := [], clock := t }) rfl rfl rfl rfl rfl rfl rfl rfl rfl rfl rfl rfl).settle
  | call w c =>
    simp only [Sys.step] at hs
    split at hs
    · simp only [Option.some.injEq, Prod.mk.injEq] at hs
      rw [← hs.1]
      exact (h0.call w c rfl).settle
    · cases hs
  | abandon w =>
    simp only [Sys.step] at hs
    split at hs
    · simp only [Option.some.injEq, Prod.mk.injEq] at hs
      rw [← hs.1]
      refine Inv.settle ⟨h0.wf, h0.invT, h0.exch_run, h0.plog_ok, h0.fifo, h0.dead_queue, h0.issued_q, h0.issued_p,
        ⟨?_, by simp⟩, h0.subs_ok, h0.sent_q, h0.sent_p⟩
      intro w' p hw'
      simp only [List.getElem?_set] at hw'
      split at hw'
      · split at hw' <;> cases hw'
      · exact h0.wo.workers w' p hw'
    · cases hs
  | exchOff =>
    simp only [Sys.step] at hs
    simp only [Option.some.injEq, Prod.mk.injEq] at hs
    rw [← hs.1]
    exact (h0.congr (s' := { s with out := [], gate := false }) rfl rfl rfl rfl rfl rfl rfl rfl rfl rfl rfl rfl).settle
  | exchOn =>
    simp only [Sys.step] at hs
    simp only [Option.some.injEq, Prod.mk.injEq] at hs
    rw [← hs.1]
    exact (h0.congr (s' := { s with out := [], gate := true }) rfl rfl rfl rfl rfl rfl rfl rfl rfl rfl rfl rfl).settle
  | exchStop =>
    simp only [Sys.step] at hs
    simp only [Option.some.injEq, Prod.mk.injEq] at hs
    rw [← hs.1]
    exact h0.stop.settle
  | adv ms =>
    simp only [Sys.step] at hs
    simp only [Option.some.injEq, Prod.mk.injEq] at hs
    rw [← hs.1]
    refine Inv.settle ⟨h0.wf, h0.invT.adv (Nat.le_add_right _ _), h0.exch_run, h0.plog_ok, h0.fifo, h0.dead_queue,
      h0.issued_q, h0.issued_p, ⟨h0.wo.workers, by simp⟩, h0.subs_ok,
      fun m hm c hc => Nat.le_trans (h0.sent_q m hm c hc) (Nat.le_add_right _ _), h0.sent_p⟩
  | sub =>
    simp only [Sys.step] at hs
    simp only [Option.some.injEq, Prod.mk.injEq] at hs
    rw [← hs.1]
    refine Inv.settle ⟨h0.wf, h0.invT, h0.exch_run, h0.plog_ok, h0.fifo, h0.dead_queue,
      h0.issued_q, h0.issued_p, ⟨h0.wo.workers, by simp⟩, ?_, h0.sent_q, h0.sent_p⟩
    intro b hb
    simp only [List.mem_append, List.mem_singleton] at hb
    rcases hb with hb | rfl
    · exact h0.subs_ok b hb
    · simp
  | poll i =>
    simp only [Sys.step] at hs
    split at hs
    · rename_i b hb
      simp only [Option.some.injEq, Prod.mk.injEq] at hs
      rw [← hs.1]
      obtain ⟨hi, hset⟩ := h0.settle
      have hb' : b ∈ ({ s with out := [] } : Sys).settle.subs := by
        -- `settle` does not touch the subscribers
        have e1 := (fire_fields ({ s with out := [] } : Sys).runExchange).2.2.2.2.2.2.2.2.2.2.1
        have e2 : ({ s with out := [] } : Sys).runExchange.subs = s.subs := by
          by_cases hact : s.gate = true ∧ s.exch.isSome
          · obtain ⟨x, hx⟩ := Option.isSome_iff_exists.mp hact.2
            exact (runExchange_ok (s := { s with out := [] }) hact.1 hx (h0.exch_wf x hx)).2.2.2.2.2.2.2.2.2.1
          · rw [runExchange_idle]
            cases hg : s.gate
            · exact Or.inl rfl
            · right
              cases he : s.exch with
              | none => rfl
              | some x => exact absurd ⟨hg, by simp [he]⟩ hact
        unfold Sys.settle
        rw [e1, e2]
        exact List.mem_of_getElem? hb
      refine ⟨⟨hi.wf, hi.invT, hi.exch_run, hi.plog_ok, hi.fifo, hi.dead_queue, hi.issued_q, hi.issued_p,
        ⟨hi.wo.workers, hi.wo.out⟩, ?_, hi.sent_q, hi.sent_p⟩, ⟨hset.timers_future, hset.queue_empty⟩⟩
      intro b' hb''
      rcases List.mem_or_eq_of_mem_set hb'' with hb'' | rfl
      · exact hi.subs_ok b' hb''
      · exact drain_ok (hi.subs_ok b hb')
    · cases hs

/-- Every state reachable from the initial one by any history of operations. -/
theorem Inv.run {s : Sys} (h : Inv s) (hset : Settled s) (ops : List Op) : Inv (s.run ops) ∧ Settled (s.run ops) := by
  induction ops generalizing s with
  | nil => exact ⟨h, hset⟩
  | cons op ops ih =>
    simp only [Sys.run, List.foldl_cons]
    cases hs : s.step op with
    | none => exact ih h hset
    | some r =>
      obtain ⟨s', obs⟩ := r
      obtain ⟨h', hset'⟩ := h.step hs
      exact ih h' hset'

theorem Settled.init (c : XCfg) (w : Nat) : Settled (Sys.init c w) :=
  ⟨by simp [Sys.init], by simp [Sys.init]⟩

/-- Every state reachable from the initial one of a well-formed configuration. -/
theorem reach_inv {c : XCfg} (hc : c.base.wf = true) (w : Nat) (ops : List Op) :
    Inv ((Sys.init c w).run ops) ∧ Settled ((Sys.init c w).run ops) :=
  (Inv.init hc w).run (Settled.init c w) ops

theorem foldl_complete_cfg (ms : List Msg) (o : Outcome) (t : Sys) :
    (ms.foldl (fun s m => s.complete m.call o) t).cfg = t.cfg := by
  induction ms generalizing t with
  | nil => rfl
  | cons m ms ih => simp only [List.foldl_cons]; rw [ih]; simp

theorem processAll_cfg (ms : List Msg) (t : Sys) (x : XState) : (t.processAll x ms).1.cfg = t.cfg := by
  induction ms generalizing t x with
  | nil => rfl
  | cons m ms ih =>
    simp only [Sys.processAll]
    split
    · exact foldl_complete_cfg _ _ _
    · rw [ih]; simp

theorem runExchange_cfg (t : Sys) : t.runExchange.cfg = t.cfg := by
  unfold Sys.runExchange
  split
  · simpa using processAll_cfg t.queue { t with queue := [] } _
  · rfl

theorem settle_cfg (t : Sys) : t.settle.cfg = t.cfg := by
  unfold Sys.settle
  rw [(fire_fields t.runExchange).2.2.2.2.1, runExchange_cfg]

theorem step_cfg {s s' : Sys} {op : Op} {obs : Option PollObs} (hs : s.step op = some (s', obs)) :
    s'.cfg = s.cfg := by
  cases op <;> simp only [Sys.step] at hs
  case clock t => cases hs; exact settle_cfg _
  case call w c =>
    split at hs
    · cases hs
      rw [settle_cfg]; unfold Sys.call; simp only; split <;> simp
    · cases hs
  case abandon w =>
    split at hs
    · cases hs; exact settle_cfg _
    · cases hs
  case exchOff => cases hs; exact settle_cfg _
  case exchOn => cases hs; exact settle_cfg _
  case exchStop =>
    cases hs
    rw [settle_cfg]; unfold Sys.stop
    exact foldl_complete_cfg _ _ _
  case adv ms => cases hs; exact settle_cfg _
  case sub => cases hs; exact settle_cfg _
  case poll i =>
    split at hs
    · cases hs; exact settle_cfg _
    · cases hs

theorem run_cfg (s : Sys) (ops : List Op) : (s.run ops).cfg = s.cfg := by
  induction ops generalizing s with
  | nil => rfl
  | cons op ops ih =>
    simp only [Sys.run, List.foldl_cons]
    cases hs : s.step op with
    | none => exact ih s
    | some r =>
      have := ih r.1
      simp only [Sys.run] at this
      simp only
      rw [this]
      exact step_cfg (obs := r.2) hs

/-! ## B.11 The account stream -/

theorem timersFor_notify (lat : Nat) (p : PRec) (h : p.resp = .dropped → p.evs = []) :
    (timersFor lat p).flatMap notifyEvs = p.evs := by
  unfold timersFor
  split
  · rename_i hd; simp [h hd]
  · cases he : p.evs with
    | nil => simp [notifyEvs]
    | cons e es => simp [notifyEvs]

theorem plogOk_dropped {c : XCfg} {plog : List PRec} (h : PlogOk c plog) :
    ∀ p ∈ plog, p.resp = .dropped → p.evs = [] := by
  intro p hp hd
  obtain ⟨k, hk, rfl⟩ := List.mem_iff_getElem.mp hp
  obtain ⟨h1, h2⟩ := h k plog[k] (List.getElem?_eq_getElem hk)
  rw [h2]; apply step_dropped_evs; rw [← h1]; exact hd

theorem allTimers_notify {c : XCfg} (lat : Nat) {plog : List PRec} (h : PlogOk c plog) :
    (allTimersOf lat plog).flatMap notifyEvs = plog.flatMap (·.evs) := by
  have hd := plogOk_dropped h
  clear h
  induction plog with
  | nil => rfl
  | cons p ps ih =>
    simp only [allTimersOf, List.flatMap_cons, List.flatMap_append] at ih ⊢
    rw [timersFor_notify lat p (hd p (by simp)), ih (fun q hq => hd q (by simp [hq]))]

/-- Everything the exchange has produced for the account stream is either on the channel or held by
a sleeping notification task, in the order of production. -/
theorem Inv.log_inflight {s : Sys} (h : Inv s) :
    s.log ++ s.timers.flatMap notifyEvs = s.plog.flatMap (·.evs) := by
  rw [h.invT.log_eq, h.invT.timers_eq, ← List.flatMap_append, List.take_append_drop,
    allTimers_notify _ h.plog_ok]

theorem take_eq_filter {α : Type} (P : α → Bool) (l : List α) (k : Nat)
    (h1 : ∀ x ∈ l.take k, P x = true) (h2 : ∀ x ∈ l.drop k, P x = false) : l.take k = l.filter P := by
  conv => rhs; rw [← List.take_append_drop k l, List.filter_append]
  rw [List.filter_eq_self.mpr h1, List.filter_eq_nil_iff.mpr (fun x hx => by simp [h2 x hx])]
  simp

/-- Between operations the channel holds exactly the notifications of the requests processed at
least one latency ago, in the order they were processed. -/
theorem Inv.log_settled {s : Sys} (h : Inv s) (hs : Settled s) :
    s.log = s.plog.flatMap fun p => if p.at_ + s.latency ≤ s.now then p.evs else [] := by
  have hd := plogOk_dropped h.plog_ok
  rw [h.invT.log_eq, take_eq_filter (isDue s.now) _ _ (fun x hx => by simpa [isDue] using h.invT.fired_past x hx)
    (fun x hx => by
      have := hs.timers_future x (by rw [h.invT.timers_eq]; exact hx)
      simp [isDue]; omega)]
  generalize s.plog = plog at hd
  induction plog with
  | nil => rfl
  | cons p ps ih =>
    simp only [allTimersOf, List.flatMap_cons, List.filter_append, List.flatMap_append] at ih ⊢
    rw [ih (fun q hq => hd q (by simp [hq]))]
    congr 1
    by_cases hdue : p.at_ + s.latency ≤ s.now
    · rw [if_pos hdue, List.filter_eq_self.mpr, timersFor_notify _ p (hd p (by simp))]
      intro tm htm
      simp [isDue, timersFor_due tm htm, hdue]
    · rw [if_neg hdue, List.filter_eq_nil_iff.mpr]
      · rfl
      · intro tm htm
        simp [isDue, timersFor_due tm htm, hdue]

/-! ## B.12 Once the exchange is gone -/

theorem foldl_complete_exch_plog (ms : List Msg) (o : Outcome) (t : Sys) :
    (ms.foldl (fun s m => s.complete m.call o) t).exch = t.exch ∧
    (ms.foldl (fun s m => s.complete m.call o) t).plog = t.plog := by
  induction ms generalizing t with
  | nil => exact ⟨rfl, rfl⟩
  | cons m ms ih => simp only [List.foldl_cons]; rw [(ih _).1, (ih _).2]; simp

theorem settle_dead {t : Sys} (h : t.exch = none) : t.settle.exch = none ∧ t.settle.plog = t.plog := by
  unfold Sys.settle
  rw [runExchange_idle (Or.inr h)]
  obtain ⟨_, _, _, e4, _, _, _, e8, _⟩ := fire_fields t
  exact ⟨e8.trans h, e4⟩

/-- A gone exchange stays gone and processes nothing. -/
theorem step_dead {s s' : Sys} {op : Op} {obs : Option PollObs} (h : s.exch = none)
    (hs : s.step op = some (s', obs)) : s'.exch = none ∧ s'.plog = s.plog := by
  cases op <;> simp only [Sys.step] at hs
  case clock t => cases hs; exact settle_dead h
  case call w c =>
    split at hs
    · cases hs
      have h1 : (({ s with out := [] } : Sys).call w c).exch = none ∧
          (({ s with out := [] } : Sys).call w c).plog = s.plog := by
        unfold Sys.call; simp [h]
      obtain ⟨e1, e2⟩ := settle_dead h1.1
      exact ⟨e1, e2.trans h1.2⟩
    · cases hs
  case abandon w =>
    split at hs
    · cases hs; exact settle_dead h
    · cases hs
  case exchOff => cases hs; exact settle_dead h
  case exchOn => cases hs; exact settle_dead h
  case exchStop =>
    cases hs
    have h1 := foldl_complete_exch_plog s.queue .offline { s with out := [], exch := none, queue := [] }
    obtain ⟨e1, e2⟩ := settle_dead (t := ({ s with out := [] } : Sys).stop) h1.1
    exact ⟨e1, e2.trans h1.2⟩
  case adv ms => cases hs; exact settle_dead h
  case sub => cases hs; exact settle_dead h
  case poll i =>
    split at hs
    · cases hs; exact settle_dead h
    · cases hs

/-! # Part C: completions are prompt (nothing is withheld)

## C.1 Which workers a resolving oneshot releases -/

/-- No two workers wait on the same oneshot. -/
def PendDistinct (ws : List (Option Pending)) : Prop :=
  ∀ (w w' : Nat) (p p' : Pending), ws[w]? = some (some p) → ws[w']? = some (some p') → p.call = p'.call → w = w'

theorem WO.pendDistinct {s : Sys} (h : WO s) : PendDistinct s.workers := by
  intro w w' p p' hw hw' hc
  obtain ⟨c, h1, h2, _⟩ := h.workers w p hw
  obtain ⟨c', h1', h2', _⟩ := h.workers w' p' hw'
  rw [hc, h1'] at h1
  injection h1 with h1; subst h1
  rw [← h2, ← h2']

/-- The worker part of `complete`. -/
def completeWs (ws : List (Option Pending)) (call : Nat) : List (Option Pending) :=
  match waiter ws call with
  | some (w, _) => ws.set w none
  | none => ws

theorem complete_workers (s : Sys) (call : Nat) (o : Outcome) :
    (s.complete call o).workers = completeWs s.workers call := by
  unfold Sys.complete completeWs
  split <;> simp_all

theorem waiter_none : ∀ {ws : List (Option Pending)} {call : Nat}, waiter ws call = none →
    ∀ (w : Nat) (p : Pending), ws[w]? = some (some p) → p.call ≠ call
  | [], _, _, w, p, hw => by simp at hw
  | none :: rest, call, h, w, p, hw => by
    simp only [waiter, Option.map_eq_none_iff] at h
    cases w with
    | zero => simp at hw
    | succ w => exact waiter_none h w p (by simpa using hw)
  | some q :: rest, call, h, w, p, hw => by
    simp only [waiter] at h
    split at h
    · cases h
    · rename_i hne
      simp only [Option.map_eq_none_iff] at h
      cases w with
      | zero => simp at hw; subst hw; exact hne
      | succ w => exact waiter_none h w p (by simpa using hw)

/-- After a oneshot resolved, exactly the workers waiting on OTHER oneshots are still waiting. -/
theorem mem_completeWs {ws : List (Option Pending)} (hd : PendDistinct ws) (call : Nat) (w : Nat) (p : Pending) :
    (completeWs ws call)[w]? = some (some p) ↔ ws[w]? = some (some p) ∧ p.call ≠ call := by
  unfold completeWs
  split
  · rename_i w0 p0 hw
    obtain ⟨hw0, hc0⟩ := waiter_some hw
    simp only [List.getElem?_set]
    constructor
    · intro h
      split at h
      · split at h <;> cases h
      · rename_i hne
        refine ⟨h, fun hc => hne ?_⟩
        exact hd w0 w p0 p hw0 h (by rw [hc0, hc])
    · rintro ⟨h, hne⟩
      have : ¬ w0 = w := by
        rintro rfl
        rw [hw0] at h; injection h with h; injection h with h; subst h
        exact hne hc0
      simp [this, h]
  · rename_i hw
    exact ⟨fun h => ⟨h, waiter_none hw w p h⟩, fun h => h.1⟩

theorem pendDistinct_completeWs {ws : List (Option Pending)} (hd : PendDistinct ws) (call : Nat) :
    PendDistinct (completeWs ws call) := by
  intro w w' p p' hw hw' hc
  exact hd w w' p p' ((mem_completeWs hd call w p).mp hw).1 ((mem_completeWs hd call w' p').mp hw').1 hc

/-- A waiting worker's call is still in the request channel (`q`) or has a sleeping response task. -/
def Tracked (ws : List (Option Pending)) (q : List Nat) (timers : List Timer) : Prop :=
  ∀ (w : Nat) (p : Pending), ws[w]? = some (some p) →
    p.call ∈ q ∨ ∃ tm ∈ timers, ∃ r, tm.act = .resp p.call r

theorem process_workers (s : Sys) (x : XState) (m : Msg) :
    (s.process x m).1.workers =
      if (x.step m.t m.rq).2.1 = .dropped then completeWs s.workers m.call else s.workers := by
  unfold Sys.process
  simp only
  split
  · rename_i hd; rw [complete_workers]; simp [hd]
  · rename_i hd
    have : ¬ (x.step m.t m.rq).2.1 = .dropped := fun e => hd e
    simp [this]

theorem resp_timer_mem_timersFor {lat : Nat} {p : PRec} (h : p.resp ≠ .dropped) :
    ∃ tm ∈ timersFor lat p, tm.act = .resp p.call p.resp := by
  unfold timersFor
  rw [if_neg h]
  exact ⟨⟨p.at_ + lat, .resp p.call p.resp⟩, by simp, rfl⟩

theorem tracked_processAll (ms : List Msg) {s : Sys} {x : XState} (hwf : WF x.base) (hd : PendDistinct s.workers)
    (ht : Tracked s.workers (ms.map (·.call)) s.timers) :
    PendDistinct (s.processAll x ms).1.workers ∧
    Tracked (s.processAll x ms).1.workers [] (s.processAll x ms).1.timers := by
  induction ms generalizing s x with
  | nil => exact ⟨hd, ht⟩
  | cons m ms ih =>
    have hnp := xstep_no_panic hwf m.t m.rq
    simp only [Sys.processAll, if_neg hnp]
    rw [process_snd]
    apply ih (xstep_wf hwf m.t m.rq)
    · rw [process_workers]; split
      · exact pendDistinct_completeWs hd _
      · exact hd
    · intro w p hw
      rw [process_workers] at hw
      rw [process_timers]
      by_cases hdrop : (x.step m.t m.rq).2.1 = .dropped
      · rw [if_pos hdrop] at hw
        obtain ⟨hw, hne⟩ := (mem_completeWs hd m.call w p).mp hw
        rcases ht w p hw with hq | ⟨tm, htm, r, hr⟩
        · simp only [List.map_cons, List.mem_cons] at hq
          rcases hq with hq | hq
          · exact absurd hq hne
          · exact Or.inl hq
        · exact Or.inr ⟨tm, by simp [htm], r, hr⟩
      · rw [if_neg hdrop] at hw
        rcases ht w p hw with hq | ⟨tm, htm, r, hr⟩
        · simp only [List.map_cons, List.mem_cons] at hq
          rcases hq with hq | hq
          · obtain ⟨tm, htm, hact⟩ := resp_timer_mem_timersFor (lat := s.latency) (p := recOf s x m) hdrop
            exact Or.inr ⟨tm, by simp [htm], _, by rw [hact, hq]; rfl⟩
          · exact Or.inl hq
        · exact Or.inr ⟨tm, by simp [htm], r, hr⟩

theorem fireOne_workers (s : Sys) (tm : Timer) :
    (s.fireOne tm).workers = match tm.act with
      | .resp call _ => completeWs s.workers call
      | .notify _ => s.workers := by
  unfold Sys.fireOne
  cases tm.act <;> simp [complete_workers]

/-- Latency tasks waking up: every worker whose response task wakes is released. -/
theorem tracked_foldl_fireOne (due : List Timer) {s : Sys} {q : List Nat} (hd : PendDistinct s.workers)
    (ht : ∀ (w : Nat) (p : Pending), s.workers[w]? = some (some p) →
      p.call ∈ q ∨ (∃ tm ∈ s.timers, ∃ r, tm.act = .resp p.call r) ∨ (∃ tm ∈ due, ∃ r, tm.act = .resp p.call r)) :
    PendDistinct (due.foldl Sys.fireOne s).workers ∧
    Tracked (due.foldl Sys.fireOne s).workers q (due.foldl Sys.fireOne s).timers := by
  induction due generalizing s with
  | nil =>
    refine ⟨hd, fun w p hw => ?_⟩
    rcases ht w p hw with h | h | ⟨tm, htm, _⟩
    · exact Or.inl h
    · exact Or.inr h
    · cases htm
  | cons tm due ih =>
    simp only [List.foldl_cons]
    have htimers : (s.fireOne tm).timers = s.timers := (fireOne_fields s tm).2.1
    apply ih
    · rw [fireOne_workers]; cases tm.act with
      | resp call r => exact pendDistinct_completeWs hd _
      | notify evs => exact hd
    · intro w p hw
      rw [fireOne_workers] at hw
      rw [htimers]
      cases hact : tm.act with
      | resp call r =>
        rw [hact] at hw
        obtain ⟨hw, hne⟩ := (mem_completeWs hd call w p).mp hw
        rcases ht w p hw with h | h | ⟨tm', htm', r', hr'⟩
        · exact Or.inl h
        · exact Or.inr (Or.inl h)
        · simp only [List.mem_cons] at htm'
          rcases htm' with rfl | htm'
          · rw [hact] at hr'; injection hr' with h1 _; exact absurd h1.symm hne
          · exact Or.inr (Or.inr ⟨tm', htm', r', hr'⟩)
      | notify evs =>
        rw [hact] at hw
        rcases ht w p hw with h | h | ⟨tm', htm', r', hr'⟩
        · exact Or.inl h
        · exact Or.inr (Or.inl h)
        · simp only [List.mem_cons] at htm'
          rcases htm' with rfl | htm'
          · rw [hact] at hr'; cases hr'
          · exact Or.inr (Or.inr ⟨tm', htm', r', hr'⟩)

theorem tracked_fire {s : Sys} (hd : PendDistinct s.workers) (ht : Tracked s.workers (s.queue.map (·.call)) s.timers) :
    PendDistinct s.fire.workers ∧ Tracked s.fire.workers (s.fire.queue.map (·.call)) s.fire.timers := by
  have hq : s.fire.queue = s.queue := (fire_fields s).2.2.2.2.2.2.2.2.2.1
  rw [hq]
  unfold Sys.fire
  simp only
  apply tracked_foldl_fireOne
    (s := { s with timers := s.timers.filter fun tm => !decide (tm.due ≤ s.now),
                   fired := s.fired + (s.timers.filter fun tm => decide (tm.due ≤ s.now)).length })
    (q := s.queue.map (·.call)) _ hd
  intro w p hw
  rcases ht w p hw with h | ⟨tm, htm, r, hr⟩
  · exact Or.inl h
  · by_cases hdue : tm.due ≤ s.now
    · exact Or.inr (Or.inr ⟨tm, List.mem_filter.mpr ⟨htm, by simpa using hdue⟩, r, hr⟩)
    · exact Or.inr (Or.inl ⟨tm, List.mem_filter.mpr ⟨htm, by simpa using hdue⟩, r, hr⟩)

theorem tracked_runExchange {s : Sys} (hwf : ∀ x, s.exch = some x → WF x.base) (hd : PendDistinct s.workers)
    (ht : Tracked s.workers (s.queue.map (·.call)) s.timers) :
    PendDistinct s.runExchange.workers ∧
    Tracked s.runExchange.workers (s.runExchange.queue.map (·.call)) s.runExchange.timers := by
  unfold Sys.runExchange
  split
  · rename_i x hg hx
    have := tracked_processAll s.queue (s := { s with queue := [] }) (hwf x hx) hd ht
    have hq : ({ s with queue := [] }.processAll x s.queue).1.queue = [] :=
      (processAll_ok { s with queue := [] } (hwf x hx) s.queue).2.2.2.queue
    simp only [hq, List.map_nil]
    exact this
  · exact ⟨hd, ht⟩

theorem foldl_complete_workers (ms : List Msg) (o : Outcome) (t : Sys) :
    (ms.foldl (fun s m => s.complete m.call o) t).workers = (ms.map (·.call)).foldl completeWs t.workers := by
  induction ms generalizing t with
  | nil => rfl
  | cons m ms ih => simp only [List.foldl_cons, List.map_cons]; rw [ih, complete_workers]

theorem mem_foldl_completeWs (cs : List Nat) {ws : List (Option Pending)} (hd : PendDistinct ws) :
    PendDistinct (cs.foldl completeWs ws) ∧
    ∀ (w : Nat) (p : Pending), (cs.foldl completeWs ws)[w]? = some (some p) ↔ ws[w]? = some (some p) ∧ p.call ∉ cs := by
  induction cs generalizing ws with
  | nil => exact ⟨hd, fun w p => by simp⟩
  | cons c cs ih =>
    simp only [List.foldl_cons]
    obtain ⟨h1, h2⟩ := ih (pendDistinct_completeWs hd c)
    refine ⟨h1, fun w p => ?_⟩
    rw [h2, mem_completeWs hd]
    simp only [List.mem_cons, not_or]
    constructor
    · rintro ⟨⟨a, b⟩, c⟩; exact ⟨a, b, c⟩
    · rintro ⟨a, b, c⟩; exact ⟨⟨a, b⟩, c⟩

theorem tracked_settle {s : Sys} (hwf : ∀ x, s.exch = some x → WF x.base) (hd : PendDistinct s.workers)
    (ht : Tracked s.workers (s.queue.map (·.call)) s.timers) :
    PendDistinct s.settle.workers ∧ Tracked s.settle.workers (s.settle.queue.map (·.call)) s.settle.timers := by
  unfold Sys.settle
  obtain ⟨h1, h2⟩ := tracked_runExchange hwf hd ht
  exact tracked_fire h1 h2

/-- The tracking invariant of a state between operations. -/
def TrackedS (s : Sys) : Prop := Tracked s.workers (s.queue.map (·.call)) s.timers

theorem TrackedS.init (c : XCfg) (w : Nat) : TrackedS (Sys.init c w) := by
  intro w' p hw
  simp [Sys.init, List.getElem?_replicate] at hw

theorem settle_subs_irrelevant (t : Sys) (subs : List Sub) :
    ({ t with subs := subs } : Sys).workers = t.workers := rfl

/-- Every operation keeps the tracking invariant. -/
theorem TrackedS.step {s : Sys} (h : Inv s) (ht : TrackedS s) {op : Op} {s' : Sys} {obs : Option PollObs}
    (hs : s.step op = some (s', obs)) : TrackedS s' := by
  have h0 := h.clearOut
  have hd0 : PendDistinct s.workers := h.wo.pendDistinct
  have hwf0 := h.exch_wf
  cases op with
  | clock t =>
    simp only [Sys.step, Option.some.injEq, Prod.mk.injEq] at hs
    rw [← hs.1]
    exact (tracked_settle (s := { s with out := [], clock := t }) hwf0 hd0 ht).2
  | call w c =>
    simp only [Sys.step] at hs
    split at hs
    · rename_i hidle
      simp only [Option.some.injEq, Prod.mk.injEq] at hs
      rw [← hs.1]
      have hpre := h0.call w c rfl
      refine (tracked_settle hpre.exch_wf hpre.wo.pendDistinct ?_).2
      -- the state right after the call
      unfold Sys.call
      simp only
      split
      · intro w' p hw'
        simp only [List.getElem?_set] at hw'
        split at hw'
        · split at hw'
          · cases hw'; exact Or.inl (by simp)
          · cases hw'
        · rcases ht w' p hw' with hq | ht'
          · exact Or.inl (by simp [hq])
          · exact Or.inr ht'
      · intro w' p hw'
        rw [complete_workers] at hw'
        have hdset : PendDistinct (s.workers.set w (some ⟨s.calls.length, s.now, c⟩)) := by
          intro a b p1 p2 ha hb hc
          simp only [List.getElem?_set] at ha hb
          split at ha <;> split at hb
          · omega
          · rename_i hwa _ hwb
            split at ha
            · cases ha
              obtain ⟨cr, hcr, _⟩ := h.wo.workers b p2 hb
              have := (List.getElem?_eq_some_iff.mp hcr).1
              simp only at hc; omega
            · cases ha
          · rename_i hwa hwb _
            split at hb
            · cases hb
              obtain ⟨cr, hcr, _⟩ := h.wo.workers a p1 ha
              have := (List.getElem?_eq_some_iff.mp hcr).1
              simp only at hc; omega
            · cases hb
          · exact hd0 a b p1 p2 ha hb hc
        obtain ⟨hw', hne⟩ := (mem_completeWs hdset _ w' p).mp hw'
        simp only [List.getElem?_set] at hw'
        split at hw'
        · split at hw'
          · cases hw'; exact absurd rfl hne
          · cases hw'
        · rcases ht w' p hw' with hq | ht'
          · exact Or.inl (by simpa using hq)
          · exact Or.inr (by simpa using ht')
    · cases hs
  | abandon w =>
    simp only [Sys.step] at hs
    split at hs
    · simp only [Option.some.injEq, Prod.mk.injEq] at hs
      rw [← hs.1]
      have hsub : ∀ (w' : Nat) (p : Pending), (s.workers.set w none)[w']? = some (some p) → s.workers[w']? = some (some p) := by
        intro w' p hw'
        simp only [List.getElem?_set] at hw'
        split at hw'
        · split at hw' <;> cases hw'
        · exact hw'
      refine (tracked_settle (s := { s with out := [], workers := s.workers.set w none }) hwf0 ?_ ?_).2
      · intro a b p1 p2 ha hb hc; exact hd0 a b p1 p2 (hsub a p1 ha) (hsub b p2 hb) hc
      · intro w' p hw'; exact ht w' p (hsub w' p hw')
    · cases hs
  | exchOff =>
    simp only [Sys.step, Option.some.injEq, Prod.mk.injEq] at hs
    rw [← hs.1]
    exact (tracked_settle (s := { s with out := [], gate := false }) hwf0 hd0 ht).2
  | exchOn =>
    simp only [Sys.step, Option.some.injEq, Prod.mk.injEq] at hs
    rw [← hs.1]
    exact (tracked_settle (s := { s with out := [], gate := true }) hwf0 hd0 ht).2
  | exchStop =>
    simp only [Sys.step, Option.some.injEq, Prod.mk.injEq] at hs
    rw [← hs.1]
    have hpre := h0.stop
    refine (tracked_settle hpre.exch_wf hpre.wo.pendDistinct ?_).2
    have hq : ({ s with out := [] } : Sys).stop.queue = [] := by
      unfold Sys.stop
      have : ∀ (ms : List Msg) (t : Sys), (ms.foldl (fun s m => s.complete m.call .offline) t).queue = t.queue := by
        intro ms; induction ms with
        | nil => intro t; rfl
        | cons m ms ih => intro t; simp only [List.foldl_cons]; rw [ih]; simp
      rw [this]
    have htm : ({ s with out := [] } : Sys).stop.timers = s.timers := by
      unfold Sys.stop
      have : ∀ (ms : List Msg) (t : Sys), (ms.foldl (fun s m => s.complete m.call .offline) t).timers = t.timers := by
        intro ms; induction ms with
        | nil => intro t; rfl
        | cons m ms ih => intro t; simp only [List.foldl_cons]; rw [ih]; simp
      rw [this]
    rw [hq, htm]
    intro w' p hw'
    have hws : ({ s with out := [] } : Sys).stop.workers = (s.queue.map (·.call)).foldl completeWs s.workers := by
      unfold Sys.stop; rw [foldl_complete_workers]
    rw [hws] at hw'
    obtain ⟨hw', hnq⟩ := ((mem_foldl_completeWs _ hd0).2 w' p).mp hw'
    rcases ht w' p hw' with hq' | ht'
    · exact absurd hq' hnq
    · exact Or.inr ht'
  | adv ms =>
    simp only [Sys.step, Option.some.injEq, Prod.mk.injEq] at hs
    rw [← hs.1]
    exact (tracked_settle (s := { s with out := [], now := s.now + ms }) hwf0 hd0 ht).2
  | sub =>
    simp only [Sys.step, Option.some.injEq, Prod.mk.injEq] at hs
    rw [← hs.1]
    exact (tracked_settle (s := { s with out := [], subs := s.subs ++ [⟨s.log.length, false, s.log.length, []⟩] })
      hwf0 hd0 ht).2
  | poll i =>
    simp only [Sys.step] at hs
    split at hs
    · simp only [Option.some.injEq, Prod.mk.injEq] at hs
      rw [← hs.1]
      exact (tracked_settle (s := { s with out := [] }) hwf0 hd0 ht).2
    · cases hs

/-- Everything that holds between operations. -/
structure Good (s : Sys) : Prop where
  inv : Inv s
  settled : Settled s
  tracked : TrackedS s

theorem Good.step {s : Sys} (h : Good s) {op : Op} {s' : Sys} {obs : Option PollObs}
    (hs : s.step op = some (s', obs)) : Good s' :=
  ⟨(h.inv.step hs).1, (h.inv.step hs).2, h.tracked.step h.inv hs⟩

theorem reach_good {c : XCfg} (hc : c.base.wf = true) (w : Nat) (ops : List Op) : Good ((Sys.init c w).run ops) := by
  suffices H : ∀ s : Sys, Good s → Good (s.run ops) from H _ ⟨Inv.init hc w, Settled.init c w, TrackedS.init c w⟩
  induction ops with
  | nil => exact fun s h => h
  | cons op ops ih =>
    intro s h
    simp only [Sys.run, List.foldl_cons]
    cases hs : s.step op with
    | none => exact ih s h
    | some r => exact ih r.1 (h.step (obs := r.2) hs)

theorem nodup_map_inj {α β : Type} (f : α → β) : ∀ {l : List α}, (l.map f).Nodup → ∀ {a b : α},
    a ∈ l → b ∈ l → f a = f b → a = b
  | [], _, _, _, h, _, _ => by cases h
  | x :: xs, hn, a, b, ha, hb, hf => by
    simp only [List.map_cons, List.nodup_cons, List.mem_map, not_exists, not_and] at hn
    simp only [List.mem_cons] at ha hb
    rcases ha with rfl | ha <;> rcases hb with rfl | hb
    · rfl
    · exact absurd hf.symm (hn.1 b hb)
    · exact absurd hf (hn.1 a ha)
    · exact nodup_map_inj f hn.2 ha hb hf

theorem plog_calls_nodup {s : Sys} (h : Inv s) : (s.plog.map (·.call)).Nodup := by
  obtain ⟨lost, hl, _⟩ := h.fifo
  have := sentIds_nodup s.calls
  rw [← hl, List.append_assoc, List.nodup_append] at this
  exact this.1

/-- PROMPTNESS. Between operations a waiting worker could not have been released: either its request
is still in the channel of a living exchange that has not processed it, or the exchange has
processed it (exactly once), did not drop it, and less than one latency has passed since. -/
theorem Good.prompt {s : Sys} (h : Good s) (w : Nat) (p : Pending) (hw : s.workers[w]? = some (some p)) :
    (p.call ∈ s.queue.map (·.call) ∧ s.exch.isSome ∧ ∀ q ∈ s.plog, q.call ≠ p.call) ∨
    (∃ q ∈ s.plog, q.call = p.call ∧ q.resp ≠ .dropped ∧ s.now < q.at_ + s.latency ∧
      ∀ q' ∈ s.plog, q'.call = p.call → q' = q) := by
  have hnd := plog_calls_nodup h.inv
  rcases h.tracked w p hw with hq | ⟨tm, htm, r, hr⟩
  · left
    refine ⟨hq, ?_, ?_⟩
    · cases he : s.exch with
      | none => have := h.inv.dead_queue he; rw [this] at hq; simp at hq
      | some x => rfl
    · obtain ⟨lost, hl, _⟩ := h.inv.fifo
      have hn := sentIds_nodup s.calls
      rw [← hl, List.append_assoc, List.nodup_append] at hn
      intro q hq' heq
      exact hn.2.2 q.call (List.mem_map.mpr ⟨q, hq', rfl⟩) p.call (List.mem_append.mpr (Or.inl hq)) heq
  · right
    obtain ⟨q, hq, h1, h2, h3, h4⟩ := timer_resp_justified h.inv.invT htm hr
    have hfut := h.settled.timers_future tm htm
    refine ⟨q, hq, h1, by rw [h2]; exact h3, by omega, ?_⟩
    intro q' hq' heq
    exact nodup_map_inj _ hnd hq' hq (by rw [heq, h1])

/-! ## C.2 Workers and completions change only through resolving oneshots -/

/-- `complete` on the pair (workers, completions of this operation). -/
def completeW (now : Nat) (wo : List (Option Pending) × List Done) (call : Nat) (o : Outcome) :
    List (Option Pending) × List Done :=
  match waiter wo.1 call with
  | some (w, p) => (wo.1.set w none, wo.2 ++ [⟨w, call, now - p.started, p.what, o⟩])
  | none => wo

def Sys.wo (s : Sys) : List (Option Pending) × List Done := (s.workers, s.out)

theorem complete_wo (s : Sys) (call : Nat) (o : Outcome) : (s.complete call o).wo = completeW s.now s.wo call o := by
  unfold Sys.complete completeW Sys.wo
  split <;> simp_all

/-- A property of (workers, completions) kept by every resolving oneshot at virtual time `now`. -/
def ClosedW (now : Nat) (P : List (Option Pending) × List Done → Prop) : Prop :=
  ∀ wo call o, P wo → P (completeW now wo call o)

theorem foldl_complete_closed {now : Nat} {P} (hP : ClosedW now P) (ms : List Msg) (o : Outcome) {t : Sys}
    (hn : t.now = now) (h : P t.wo) :
    P (ms.foldl (fun s m => s.complete m.call o) t).wo ∧ (ms.foldl (fun s m => s.complete m.call o) t).now = now := by
  induction ms generalizing t with
  | nil => exact ⟨h, hn⟩
  | cons m ms ih =>
    simp only [List.foldl_cons]
    apply ih (by simpa using hn)
    rw [complete_wo, hn]; exact hP _ _ _ h

theorem process_closed {now : Nat} {P} (hP : ClosedW now P) {t : Sys} (x : XState) (m : Msg)
    (hn : t.now = now) (h : P t.wo) : P (t.process x m).1.wo := by
  unfold Sys.process
  simp only
  split
  · rw [complete_wo]; simp only; rw [hn]; exact hP _ _ _ h
  · exact h

theorem processAll_closed {now : Nat} {P} (hP : ClosedW now P) (ms : List Msg) {t : Sys} (x : XState)
    (hn : t.now = now) (h : P t.wo) : P (t.processAll x ms).1.wo ∧ (t.processAll x ms).1.now = now := by
  induction ms generalizing t x with
  | nil => exact ⟨h, hn⟩
  | cons m ms ih =>
    simp only [Sys.processAll]
    split
    · exact foldl_complete_closed hP _ _ hn h
    · exact ih _ (by simpa using hn) (process_closed hP x m hn h)

theorem runExchange_closed {now : Nat} {P} (hP : ClosedW now P) {t : Sys} (hn : t.now = now) (h : P t.wo) :
    P t.runExchange.wo ∧ t.runExchange.now = now := by
  unfold Sys.runExchange
  split
  · rename_i x hg hx
    exact processAll_closed hP t.queue (t := { t with queue := [] }) x hn h
  · exact ⟨h, hn⟩

theorem foldl_fireOne_closed {now : Nat} {P} (hP : ClosedW now P) (tms : List Timer) {t : Sys}
    (hn : t.now = now) (h : P t.wo) : P (tms.foldl Sys.fireOne t).wo ∧ (tms.foldl Sys.fireOne t).now = now := by
  induction tms generalizing t with
  | nil => exact ⟨h, hn⟩
  | cons tm tms ih =>
    simp only [List.foldl_cons]
    have hn' : (t.fireOne tm).now = now := by rw [(fireOne_fields t tm).2.2.2.2.1]; exact hn
    apply ih hn'
    unfold Sys.fireOne
    cases tm.act with
    | resp call r => simp only; rw [complete_wo, hn]; exact hP _ _ _ h
    | notify evs => exact h

theorem settle_closed {now : Nat} {P} (hP : ClosedW now P) {t : Sys} (hn : t.now = now) (h : P t.wo) :
    P t.settle.wo ∧ t.settle.now = now := by
  unfold Sys.settle Sys.fire
  obtain ⟨h1, h2⟩ := runExchange_closed hP hn h
  exact foldl_fireOne_closed hP _ (t := { t.runExchange with timers := _, fired := _ }) h2 h1

/-- Accounting of one operation relative to the workers `W0` it started with: a worker is either
untouched and has no completion, or it was waiting, is released, and has exactly one completion —
for the call it was waiting on, with `elapsed` measured from the start of that call. -/
def Acct (W0 : List (Option Pending)) (now : Nat) (wo : List (Option Pending) × List Done) : Prop :=
  wo.1.length = W0.length ∧
  ∀ w : Nat,
    (wo.1[w]? = W0[w]? ∧ ∀ d ∈ wo.2, d.worker ≠ w) ∨
    (∃ p : Pending, W0[w]? = some (some p) ∧ wo.1[w]? = some none ∧
      ∃ o, wo.2.filter (fun d => d.worker == w) = [⟨w, p.call, now - p.started, p.what, o⟩])

theorem Acct.init (W0 : List (Option Pending)) (now : Nat) : Acct W0 now (W0, []) :=
  ⟨rfl, fun _ => Or.inl ⟨rfl, by simp⟩⟩

theorem acct_closed (W0 : List (Option Pending)) (now : Nat) : ClosedW now (Acct W0 now) := by
  intro wo call o h
  unfold completeW
  split
  · rename_i w0 p0 hw
    obtain ⟨hw0, hc0⟩ := waiter_some hw
    refine ⟨by simpa using h.1, fun w => ?_⟩
    by_cases hww : w0 = w
    · subst hww
      rcases h.2 w0 with ⟨h1, h2⟩ | ⟨p, _, h2, _⟩
      · right
        refine ⟨p0, by rw [← h1]; exact hw0, ?_, o, ?_⟩
        · simp only [List.getElem?_set]
          have := (List.getElem?_eq_some_iff.mp hw0).1
          simp [this]
        · rw [List.filter_append, List.filter_eq_nil_iff.mpr (fun d hd => by simpa using h2 d hd)]
          simp [hc0]
      · rw [hw0] at h2; cases h2
    · rcases h.2 w with ⟨h1, h2⟩ | ⟨p, h1, h2, o', h3⟩
      · left
        refine ⟨by simp only [List.getElem?_set, hww, if_false]; exact h1, ?_⟩
        intro d hd
        simp only [List.mem_append, List.mem_singleton] at hd
        rcases hd with hd | rfl
        · exact h2 d hd
        · exact hww
      · right
        refine ⟨p, h1, by simp only [List.getElem?_set, hww, if_false]; exact h2, o', ?_⟩
        rw [List.filter_append, h3]
        simp [hww]
  · exact h

/-! ## C.3 The abstraction to the specification's state -/

def toSeen (p : PRec) : Spec.Seen := ⟨p.call, p.t, p.rq, p.at_⟩

/-- What the specification knows of a state: no exchange state, no timers, no channel buffer. -/
def abs (s : Sys) : Spec.SSys :=
  { cfg := s.cfg, now := s.now, clock := s.clock, alive := s.exch.isSome, gate := s.gate,
    seen := s.plog.map toSeen, waiting := s.queue, workers := s.workers, subs := s.subs,
    nextCall := s.calls.length }

/-- The specification's answer to the `k`-th processed request. -/
def ansOf (s : Sys) (qk : PRec × Nat) : Spec.Answer :=
  Spec.answer s.cfg (plogOps (s.plog.take qk.2)) qk.1.t qk.1.rq

theorem abs_answers (s : Sys) :
    (abs s).answers = s.plog.zipIdx.map fun qk => (toSeen qk.1, ansOf s qk) := by
  simp only [Spec.SSys.answers, abs, List.zipIdx_map, List.map_map]
  apply List.map_congr_left
  intro qk _
  simp only [Function.comp, Prod.map, id, ansOf, plogOps, toSeen]
  congr 2
  rw [← List.map_take, List.map_map]
  rfl

theorem find?_unique {α : Type} (P : α → Bool) : ∀ {l : List α} {a : α}, a ∈ l → P a = true →
    (∀ b ∈ l, P b = true → b = a) → l.find? P = some a
  | x :: xs, a, ha, hP, hu => by
    by_cases hx : P x = true
    · have := hu x (by simp) hx
      subst this
      simp [List.find?_cons, hx]
    · simp only [List.mem_cons] at ha
      rcases ha with rfl | ha
      · exact absurd hP hx
      · simp only [List.find?_cons, hx]
        exact find?_unique P ha hP (fun b hb => hu b (by simp [hb]))

theorem nodup_getElem?_inj {α : Type} : ∀ {l : List α} {i j : Nat} {a : α}, l.Nodup →
    l[i]? = some a → l[j]? = some a → i = j
  | x :: xs, 0, 0, _, _, _, _ => rfl
  | x :: xs, 0, j + 1, a, hn, hi, hj => by
    simp only [List.getElem?_cons_zero, Option.some.injEq, List.getElem?_cons_succ] at hi hj
    subst hi
    exact absurd (List.mem_of_getElem? hj) (List.nodup_cons.mp hn).1
  | x :: xs, i + 1, 0, a, hn, hi, hj => by
    simp only [List.getElem?_cons_zero, Option.some.injEq, List.getElem?_cons_succ] at hi hj
    subst hj
    exact absurd (List.mem_of_getElem? hi) (List.nodup_cons.mp hn).1
  | x :: xs, i + 1, j + 1, a, hn, hi, hj => by
    simp only [List.getElem?_cons_succ] at hi hj
    rw [nodup_getElem?_inj (List.nodup_cons.mp hn).2 hi hj]

/-- With distinct call ids in the history, looking a call up finds its one record. -/
theorem find_call {s : Sys} (h : Inv s) {k : Nat} {q : PRec} (hk : s.plog[k]? = some q) :
    s.plog.zipIdx.find? (fun qk => qk.1.call == q.call) = some (q, k) := by
  have hnd := plog_calls_nodup h
  apply find?_unique
  · exact List.mk_mem_zipIdx_iff_getElem?.mpr hk
  · simp
  · intro b hb hcall
    have hb' := List.mem_zipIdx_iff_getElem?.mp hb
    simp only [beq_iff_eq] at hcall
    have hq : b.1 = q := nodup_map_inj _ hnd (List.mem_of_getElem? hb') (List.mem_of_getElem? hk) hcall
    -- same record, hence (the calls being distinct) same index
    have hidx : b.2 = k := by
      apply nodup_getElem?_inj hnd (a := q.call)
      · rw [List.getElem?_map, hb']; simp [hq]
      · rw [List.getElem?_map, hk]; rfl
    cases b
    simp only at hq hidx
    subst hq hidx
    rfl

theorem find_call_none {s : Sys} {c : Nat} (hn : ∀ q ∈ s.plog, q.call ≠ c) :
    s.plog.zipIdx.find? (fun qk => qk.1.call == c) = none := by
  rw [List.find?_eq_none]
  intro b hb
  have := hn b.1 (List.fst_mem_of_mem_zipIdx hb)
  simpa using this

theorem conforms_unsupported_iff (r : XResp) : Spec.Conforms r .unsupported ↔ r = .dropped := by
  cases r <;> simp [Spec.Conforms]

theorem conforms_dropped {a : Spec.Answer} (h : Spec.Conforms .dropped a) : a = .unsupported := by
  cases a <;> simp [Spec.Conforms] at h ⊢

/-- How a client outcome relates to an ending of the specification. -/
def OutcomeRel : Outcome → Spec.Ending → Prop
  | .answered r, .answered a => Spec.Conforms r a
  | .offline, .failed => True
  | _, _ => False

theorem ending_unfold (s : Sys) (p : Pending) :
    (abs s).ending p =
      match s.plog.zipIdx.find? (fun qk => qk.1.call == p.call) with
      | some qk =>
        if ansOf s qk = .unsupported then some .failed
        else if qk.1.at_ + s.cfg.base.latency ≤ s.now then some (.answered (ansOf s qk)) else none
      | none => if s.exch.isSome then none else some .failed := by
  unfold Spec.SSys.ending
  rw [abs_answers, List.find?_map]
  have : ((fun ea : Spec.Seen × Spec.Answer => ea.1.call == p.call) ∘ fun qk : PRec × Nat => (toSeen qk.1, ansOf s qk)) =
      fun qk => qk.1.call == p.call := by
    funext qk; simp [toSeen]
  rw [this]
  cases s.plog.zipIdx.find? (fun qk => qk.1.call == p.call) with
  | none =>
    simp only [abs, Option.map_none]
    by_cases h : s.exch.isSome = true <;> simp [h]
  | some qk =>
    simp only [abs, Spec.SSys.delivered, toSeen, Option.map_some]
    by_cases h1 : ansOf s qk = .unsupported
    · simp [h1]
    · by_cases h2 : qk.1.at_ + s.cfg.base.latency ≤ s.now <;> simp [h1, h2]

/-- Each record's response conforms to the specification's answer for it. -/
theorem record_conforms {s : Sys} (h : Inv s) (hd : Spec.distinctCids s.cfg) {k : Nat} {q : PRec}
    (hk : s.plog[k]? = some q) : Spec.Conforms q.resp (ansOf s (q, k)) ∧ q.evs = (ansOf s (q, k)).events := by
  obtain ⟨h1, h2⟩ := h.plog_ok k q hk
  have := step_conforms h.wf hd (plogOps (s.plog.take k)) q.t q.rq
  rw [← h1, ← h2] at this
  exact this

/-- SOUNDNESS of completions: a justified outcome is the specification's ending for that call. -/
theorem ending_of_justified {s : Sys} (h : Inv s) (hd : Spec.distinctCids s.cfg) {call : Nat} {o : Outcome}
    (hj : Justified s call o) (st : Nat) (what : Call) :
    ∃ e, (abs s).ending ⟨call, st, what⟩ = some e ∧ OutcomeRel o e := by
  rw [ending_unfold]
  cases o with
  | answered r =>
    obtain ⟨q, hq, h1, h2, h3, h4⟩ := hj
    obtain ⟨k, hk, rfl⟩ := List.mem_iff_getElem.mp hq
    have hk' := List.getElem?_eq_getElem hk
    have hf := find_call h hk'
    rw [h1] at hf
    simp only [hf]
    have hc := (record_conforms h hd hk').1
    rw [h2] at hc
    have hns : ¬ ansOf s (s.plog[k], k) = .unsupported := by
      intro he; rw [he, conforms_unsupported_iff] at hc; exact h3 hc
    have hdue : s.plog[k].at_ + s.cfg.base.latency ≤ s.now := h4
    simp only [hns, if_false, hdue, if_true]
    exact ⟨_, rfl, hc⟩
  | offline =>
    rcases hj with ⟨q, hq, h1, h2⟩ | ⟨h1, h2⟩
    · obtain ⟨k, hk, rfl⟩ := List.mem_iff_getElem.mp hq
      have hk' := List.getElem?_eq_getElem hk
      have hf := find_call h hk'
      rw [h1] at hf
      simp only [hf]
      have hc := (record_conforms h hd hk').1
      rw [h2] at hc
      simp only [conforms_dropped hc, if_true]
      exact ⟨_, rfl, trivial⟩
    · rw [find_call_none h2]
      simp only [h1, Option.isSome_none, Bool.false_eq_true, if_false]
      exact ⟨_, rfl, trivial⟩

/-- PROMPTNESS in the specification's terms: a worker still waiting between operations has no ending. -/
theorem ending_none_of_pending {s : Sys} (h : Good s) (hd : Spec.distinctCids s.cfg) (w : Nat) (p : Pending)
    (hw : s.workers[w]? = some (some p)) : (abs s).ending p = none := by
  rw [ending_unfold]
  rcases h.prompt w p hw with ⟨_, halive, hn⟩ | ⟨q, hq, h1, h2, h3, _⟩
  · rw [find_call_none hn]; simp [halive]
  · obtain ⟨k, hk, rfl⟩ := List.mem_iff_getElem.mp hq
    have hk' := List.getElem?_eq_getElem hk
    have hf := find_call h.inv hk'
    rw [h1] at hf
    simp only [hf]
    have hc := (record_conforms h.inv hd hk').1
    have hns : ¬ ansOf s (s.plog[k], k) = .unsupported := by
      intro he; rw [he, conforms_unsupported_iff] at hc; exact h2 hc
    have hdue : ¬ s.plog[k].at_ + s.cfg.base.latency ≤ s.now := by
      simp only [Sys.latency] at h3; omega
    simp [hns, hdue]

/-! ## C.4 The account stream in the specification's terms -/

/-- A processed request whose notifications the specification counts as delivered. -/
def deliveredQ (s : Sys) (q : PRec) : Bool := decide (q.at_ + s.cfg.base.latency ≤ s.now)

theorem abs_sent (s : Sys) :
    (abs s).sent = s.plog.zipIdx.flatMap fun qk => if deliveredQ s qk.1 = true then (ansOf s qk).events else [] := by
  unfold Spec.SSys.sent
  rw [abs_answers, List.flatMap_map]
  rfl

theorem abs_outstanding (s : Sys) :
    (abs s).outstanding = s.plog.zipIdx.any fun qk => !deliveredQ s qk.1 && !(ansOf s qk).events.isEmpty := by
  unfold Spec.SSys.outstanding
  rw [abs_answers, List.any_map]
  rfl

theorem abs_closed (s : Sys) :
    (abs s).closed = (!s.exch.isSome && !(s.plog.zipIdx.any fun qk => !deliveredQ s qk.1 && !(ansOf s qk).events.isEmpty)) := by
  unfold Spec.SSys.closed
  rw [abs_outstanding]
  rfl

/-- Between operations the channel holds what the specification says has been sent. -/
theorem sent_eq_log {s : Sys} (h : Good s) (hd : Spec.distinctCids s.cfg) : (abs s).sent = s.log := by
  rw [h.inv.log_settled h.settled, abs_sent]
  have h1 : (s.plog.zipIdx.flatMap fun qk => if deliveredQ s qk.1 = true then (ansOf s qk).events else []) =
      s.plog.zipIdx.flatMap (fun qk => if qk.1.at_ + s.latency ≤ s.now then qk.1.evs else []) := by
    rw [List.flatMap_def, List.flatMap_def]
    congr 1
    apply List.map_congr_left
    intro qk hqk
    have hk := List.mem_zipIdx_iff_getElem?.mp hqk
    have := (record_conforms h.inv hd hk).2
    rw [this]
    by_cases hdue : qk.1.at_ + s.cfg.base.latency ≤ s.now
    · simp [deliveredQ, Sys.latency, hdue]
    · simp [deliveredQ, Sys.latency, hdue]
  rw [h1]
  have h2 : (fun qk : PRec × Nat => if qk.1.at_ + s.latency ≤ s.now then qk.1.evs else []) =
      (fun q : PRec => if q.at_ + s.latency ≤ s.now then q.evs else []) ∘ Prod.fst := rfl
  have h3 := List.flatMap_map Prod.fst (fun q : PRec => if q.at_ + s.latency ≤ s.now then q.evs else []) s.plog.zipIdx
  rw [List.zipIdx_map_fst] at h3
  rw [h2]; exact h3.symm

def noNotify (tm : Timer) : Bool :=
  match tm.act with
  | .notify _ => false
  | .resp _ _ => true

theorem closed_def (s : Sys) : s.closed = (s.exch.isNone && s.timers.all noNotify) := by
  unfold Sys.closed
  congr 1

/-- … and is closed exactly when the specification says nothing more can come. -/
theorem closed_eq {s : Sys} (h : Good s) (hd : Spec.distinctCids s.cfg) : (abs s).closed = s.closed := by
  have hdrop := plogOk_dropped h.inv.plog_ok
  have hlat : s.latency = s.cfg.base.latency := rfl
  -- a sleeping notification task exists iff some processed request has undelivered notifications
  have hiff : (∃ tm ∈ s.timers, ∃ evs, tm.act = .notify evs) ↔
      ∃ q ∈ s.plog, s.now < q.at_ + s.cfg.base.latency ∧ q.evs ≠ [] := by
    constructor
    · rintro ⟨tm, htm, evs, hact⟩
      have hfut := h.settled.timers_future tm htm
      rw [h.inv.invT.timers_eq] at htm
      have htm := List.mem_of_mem_drop htm
      simp only [allTimersOf, List.mem_flatMap] at htm
      obtain ⟨q, hq, hin⟩ := htm
      have hdue := timersFor_due tm hin
      rw [hlat] at hdue
      have hlt : s.now < q.at_ + s.cfg.base.latency := by omega
      refine ⟨q, hq, hlt, ?_⟩
      unfold timersFor at hin
      split at hin
      · cases hin
      · simp only [List.mem_append, List.mem_singleton] at hin
        rcases hin with rfl | hin
        · cases hact
        · split at hin
          · cases hin
          · rename_i hne; intro he; simp [he] at hne
    · rintro ⟨q, hq, hlt, hne⟩
      have hnd : ¬ q.resp = .dropped := fun hdq => hne (hdrop q hq hdq)
      have hmem : (⟨q.at_ + s.latency, .notify q.evs⟩ : Timer) ∈ allTimersOf s.latency s.plog := by
        simp only [allTimersOf, List.mem_flatMap]
        refine ⟨q, hq, ?_⟩
        unfold timersFor
        rw [if_neg hnd]
        have : ¬ q.evs.isEmpty = true := by simpa using hne
        simp [this]
      refine ⟨⟨q.at_ + s.latency, .notify q.evs⟩, ?_, q.evs, rfl⟩
      rw [h.inv.invT.timers_eq]
      rw [← List.take_append_drop s.fired (allTimersOf s.latency s.plog), List.mem_append] at hmem
      rcases hmem with hmem | hmem
      · have := h.inv.invT.fired_past _ hmem
        simp only [hlat] at this; omega
      · exact hmem
  have hout : (s.plog.zipIdx.any fun qk => !deliveredQ s qk.1 && !(ansOf s qk).events.isEmpty) = true ↔
      ∃ q ∈ s.plog, s.now < q.at_ + s.cfg.base.latency ∧ q.evs ≠ [] := by
    rw [List.any_eq_true]
    constructor
    · rintro ⟨qk, hqk, hp⟩
      have hk := List.mem_zipIdx_iff_getElem?.mp hqk
      have hev := (record_conforms h.inv hd hk).2
      simp only [deliveredQ, Bool.and_eq_true, Bool.not_eq_true', decide_eq_false_iff_not, List.isEmpty_iff] at hp
      have hlt : s.now < qk.1.at_ + s.cfg.base.latency := by omega
      refine ⟨qk.1, List.mem_of_getElem? hk, hlt, ?_⟩
      rw [hev]; intro he; rw [he] at hp; simp at hp
    · rintro ⟨q, hq, hlt, hne⟩
      obtain ⟨k, hk, rfl⟩ := List.mem_iff_getElem.mp hq
      have hk' := List.getElem?_eq_getElem hk
      have hev := (record_conforms h.inv hd hk').2
      refine ⟨(s.plog[k], k), List.mk_mem_zipIdx_iff_getElem?.mpr hk', ?_⟩
      simp only [deliveredQ, Bool.and_eq_true, Bool.not_eq_true', decide_eq_false_iff_not, List.isEmpty_iff]
      refine ⟨by omega, ?_⟩
      rw [← hev]
      cases hq' : s.plog[k].evs with
      | nil => exact absurd hq' hne
      | cons e es => rfl
  rw [abs_closed, closed_def]
  by_cases halive : s.exch.isSome = true
  · have : s.exch.isNone = false := by cases he : s.exch <;> simp_all
    simp [halive, this]
  · have hn : s.exch.isNone = true := by cases he : s.exch <;> simp_all
    have hs : s.exch.isSome = false := by simpa using halive
    rw [hs, hn]
    simp only [Bool.not_false, Bool.true_and]
    by_cases hex : ∃ q ∈ s.plog, s.now < q.at_ + s.cfg.base.latency ∧ q.evs ≠ []
    · have h1 := hout.mpr hex
      obtain ⟨tm, htm, evs, hact⟩ := hiff.mpr hex
      have h2 : s.timers.all noNotify = false := by
        rw [Bool.eq_false_iff]
        intro hall
        have := List.all_eq_true.mp hall tm htm
        simp [noNotify, hact] at this
      rw [h1, h2]; rfl
    · have h1 : (s.plog.zipIdx.any fun qk => !deliveredQ s qk.1 && !(ansOf s qk).events.isEmpty) = false := by
        rw [Bool.eq_false_iff]; exact fun ho => hex (hout.mp ho)
      have h2 : s.timers.all noNotify = true := by
        rw [List.all_eq_true]
        intro tm htm
        cases hact : tm.act with
        | resp c r => simp [noNotify, hact]
        | notify evs => exact absurd (hiff.mp ⟨tm, htm, evs, hact⟩) hex
      rw [h1, h2]; rfl

/-- Polling a subscriber gives what the specification says. -/
theorem drain_eq {s : Sys} (h : Good s) (hd : Spec.distinctCids s.cfg) (b : Sub) :
    (abs s).drain b = s.drain b := by
  unfold Spec.SSys.drain Sys.drain
  rw [sent_eq_log h hd, closed_eq h hd]
  rfl

/-! ## C.5 One operation of the system is one operation of the specification -/

/-- A completion of the system matches a completion of the specification. -/
def DoneRel (d : Done) (e : Spec.SDone) : Prop :=
  d.worker = e.worker ∧ d.call = e.call ∧ d.elapsed = e.elapsed ∧ OutcomeRel d.out e.ending

/-- The completions of one operation match: every one of the system has its match in the
specification and vice versa (each worker completes at most one call per operation). -/
def DonesMatch (out : List Done) (ds : List Spec.SDone) : Prop :=
  (∀ d ∈ out, ∃ e ∈ ds, DoneRel d e) ∧ (∀ e ∈ ds, ∃ d ∈ out, DoneRel d e)

theorem ending_congr {u v : Spec.SSys} (hcfg : u.cfg = v.cfg) (hnow : u.now = v.now) (halive : u.alive = v.alive)
    (hseen : u.seen = v.seen) (p : Pending) : u.ending p = v.ending p := by
  unfold Spec.SSys.ending Spec.SSys.answers Spec.SSys.delivered
  rw [hcfg, hnow, halive, hseen]

theorem ending_call_only (s : Sys) (p : Pending) (st : Nat) (what : Call) :
    (abs s).ending ⟨p.call, st, what⟩ = (abs s).ending p := by
  rw [ending_unfold, ending_unfold]

/-- The specification's `finish` releases exactly the workers the system has released, with matching
completions. -/
theorem finish_refines {s' : Sys} (h : Good s') (hd : Spec.distinctCids s'.cfg) {u : Spec.SSys}
    (hcfg : u.cfg = s'.cfg) (hnow : u.now = s'.now) (halive : u.alive = s'.exch.isSome)
    (hseen : u.seen = s'.plog.map toSeen) (hacct : Acct u.workers s'.now s'.wo) :
    u.finish.1 = { u with workers := s'.workers } ∧ DonesMatch s'.out u.finish.2 := by
  have hend : ∀ p, u.ending p = (abs s').ending p := fun p => ending_congr hcfg hnow halive hseen p
  -- a completion of the system is the specification's ending of that call
  have hjust : ∀ (w : Nat) (p : Pending) (o : Outcome),
      (⟨w, p.call, s'.now - p.started, p.what, o⟩ : Done) ∈ s'.out → ∃ en, u.ending p = some en ∧ OutcomeRel o en := by
    intro w p o hmem
    obtain ⟨_, hj⟩ := h.inv.wo.out _ hmem
    obtain ⟨en, he, hr⟩ := ending_of_justified h.inv hd hj p.started p.what
    rw [ending_call_only] at he
    exact ⟨en, by rw [hend]; exact he, hr⟩
  have hmemfilter : ∀ {w : Nat} {d0 : Done}, s'.out.filter (fun d => d.worker == w) = [d0] → d0 ∈ s'.out := by
    intro w d0 hf
    have : d0 ∈ s'.out.filter (fun d => d.worker == w) := by rw [hf]; simp
    exact (List.mem_filter.mp this).1
  constructor
  · -- the workers
    unfold Spec.SSys.finish
    simp only
    congr 1
    apply List.ext_getElem?
    intro w
    rw [List.getElem?_map]
    rcases hacct.2 w with ⟨h1, _⟩ | ⟨p, h1, h2, o, h3⟩
    · simp only [Sys.wo] at h1
      rw [← h1]
      cases hw : s'.workers[w]? with
      | none => rfl
      | some x =>
        cases x with
        | none => rfl
        | some p =>
          have := ending_none_of_pending h hd w p hw
          rw [← hend] at this
          simp [this]
    · simp only [Sys.wo] at h2 h3
      rw [h1, h2]
      obtain ⟨en, he, _⟩ := hjust w p o (hmemfilter h3)
      simp [he]
  · constructor
    · intro d hdm
      rcases hacct.2 d.worker with ⟨_, h2⟩ | ⟨p, h1, _, o, h3⟩
      · exact absurd rfl (h2 d hdm)
      · simp only [Sys.wo] at h3
        have hd0 : d ∈ s'.out.filter (fun d' => d'.worker == d.worker) := List.mem_filter.mpr ⟨hdm, by simp⟩
        rw [h3] at hd0
        simp only [List.mem_singleton] at hd0
        obtain ⟨en, he, hr⟩ := hjust d.worker p o (hmemfilter h3)
        refine ⟨⟨d.worker, p.call, u.now - p.started, en⟩, ?_, ?_⟩
        · unfold Spec.SSys.finish
          simp only [List.mem_filterMap]
          exact ⟨(some p, d.worker), List.mk_mem_zipIdx_iff_getElem?.mpr h1, by simp [he]⟩
        · rw [hd0]; exact ⟨rfl, rfl, by simp [hnow], hr⟩
    · intro e hem
      unfold Spec.SSys.finish at hem
      simp only [List.mem_filterMap] at hem
      obtain ⟨⟨x, i⟩, hxi, hf⟩ := hem
      have hxi' := List.mk_mem_zipIdx_iff_getElem?.mp hxi
      cases x with
      | none => simp at hf
      | some p =>
        simp only [Option.map_eq_some_iff] at hf
        obtain ⟨en, he, rfl⟩ := hf
        rcases hacct.2 i with ⟨h1, _⟩ | ⟨p', h1, _, o, h3⟩
        · simp only [Sys.wo] at h1
          rw [hxi'] at h1
          have := ending_none_of_pending h hd i p h1
          rw [← hend, he] at this; cases this
        · rw [hxi'] at h1
          injection h1 with h1; injection h1 with h1; subst h1
          simp only [Sys.wo] at h3
          obtain ⟨en', he', hr⟩ := hjust i p o (hmemfilter h3)
          rw [he] at he'; injection he' with he'; subst he'
          exact ⟨_, hmemfilter h3, rfl, rfl, by simp [hnow], hr⟩

theorem recsOf_toSeen (now : Nat) (x : XState) (ms : List Msg) :
    (recsOf now x ms).map toSeen = ms.map fun m => (⟨m.call, m.t, m.rq, now⟩ : Spec.Seen) := by
  induction ms generalizing x with
  | nil => rfl
  | cons m ms ih => simp only [recsOf, List.map_cons, ih]; rfl

/-- `settle` on everything the specification sees except the workers: the exchange, when scheduled
and alive, sees the waiting requests. -/
theorem abs_settle {t : Sys} (h : Inv t) : abs t.settle = { (abs t).see with workers := t.settle.workers } := by
  unfold Sys.settle
  obtain ⟨_, _, _, e4, e5, e6, e7, e8, e9, e10, e11, e12⟩ := fire_fields t.runExchange
  by_cases hact : t.gate = true ∧ t.exch.isSome
  · obtain ⟨hg, hsome⟩ := hact
    obtain ⟨x, hx⟩ := Option.isSome_iff_exists.mp hsome
    obtain ⟨r1, r2, r3, _, r5, r6, r7, r8, _, r10, r11, _⟩ := runExchange_ok hg hx (h.exch_wf x hx)
    simp only [abs, Spec.SSys.see, hg, hsome, Bool.and_self, if_true]
    rw [e4, e5, e6, e7, e8, e9, e10, e11, e12, r1, r2, r3, r5, r6, r7, r8, r10, r11, List.map_append, recsOf_toSeen]
    simp [hg]
  · have hidle : t.runExchange = t := by
      apply runExchange_idle
      cases hg : t.gate
      · exact Or.inl rfl
      · right
        cases he : t.exch with
        | none => rfl
        | some x => exact absurd ⟨hg, by simp [he]⟩ hact
    have hcond : (t.gate && t.exch.isSome) = false := by
      cases hg : t.gate <;> cases he : t.exch.isSome <;> simp_all
    simp only [abs, Spec.SSys.see, hcond, Bool.false_eq_true, if_false]
    rw [e4, e5, e6, e7, e8, e9, e10, e11, e12, hidle]

theorem see_with_workers (u : Spec.SSys) (ws : List (Option Pending)) :
    ({ u with workers := ws } : Spec.SSys).see = { u.see with workers := ws } := by
  unfold Spec.SSys.see
  simp only
  split <;> rfl

/-- One `settle` of the system is one `settle` of the specification. `u0` is the specification's state
before it, equal to the abstraction of the system's state `t` except that the system may already have
released some workers (`Acct`). -/
theorem settle_refines {t : Sys} (h : Inv t) (hgood : Good t.settle) (hd : Spec.distinctCids t.cfg)
    {u0 : Spec.SSys} (hU : abs t = { u0 with workers := t.workers }) (hacct : Acct u0.workers t.now t.wo) :
    u0.settle.1 = abs t.settle ∧ DonesMatch t.settle.out u0.settle.2 := by
  have hcfg' := settle_cfg t
  have hsee : (abs t).see = { u0.see with workers := t.workers } := by rw [hU, see_with_workers]
  have habs := abs_settle h
  rw [hsee] at habs
  -- fields of `u0.see` in terms of the final state
  have hfields : u0.see.cfg = t.settle.cfg ∧ u0.see.now = t.settle.now ∧ u0.see.alive = t.settle.exch.isSome ∧
      u0.see.seen = t.settle.plog.map toSeen ∧ u0.see.workers = u0.workers := by
    have := congrArg (fun v : Spec.SSys => (v.cfg, v.now, v.alive, v.seen)) habs
    simp only [abs, Prod.mk.injEq] at this
    refine ⟨this.1.symm, this.2.1.symm, this.2.2.1.symm, this.2.2.2.symm, ?_⟩
    unfold Spec.SSys.see; split <;> rfl
  obtain ⟨f1, f2, f3, f4, f5⟩ := hfields
  have hacct' : Acct u0.see.workers t.settle.now t.settle.wo := by
    rw [f5]
    have := (settle_closed (acct_closed u0.workers t.now) rfl hacct)
    rw [this.2]; exact this.1
  obtain ⟨g1, g2⟩ := finish_refines hgood (by rw [hcfg']; exact hd) f1 f2 f3 f4 hacct'
  unfold Spec.SSys.settle
  refine ⟨?_, g2⟩
  rw [g1, habs]

theorem foldl_complete_core (ms : List Msg) (o : Outcome) (t : Sys) :
    let r := ms.foldl (fun s m => s.complete m.call o) t
    r.cfg = t.cfg ∧ r.now = t.now ∧ r.clock = t.clock ∧ r.exch = t.exch ∧ r.gate = t.gate ∧ r.queue = t.queue ∧
    r.subs = t.subs ∧ r.calls = t.calls ∧ r.plog = t.plog := by
  induction ms generalizing t with
  | nil => simp
  | cons m ms ih =>
    simp only [List.foldl_cons]
    obtain ⟨a1, a2, a3, a4, a5, a6, a7, a8, a9⟩ := ih (t.complete m.call o)
    exact ⟨by rw [a1]; simp, by rw [a2]; simp, by rw [a3]; simp, by rw [a4]; simp, by rw [a5]; simp,
      by rw [a6]; simp, by rw [a7]; simp, by rw [a8]; simp, by rw [a9]; simp⟩

/-- The system right after a client method was called on a gone exchange, before the failure is
reported. -/
def callPre (s : Sys) (w : Nat) (c : Call) : Sys :=
  { s with out := [], workers := s.workers.set w (some ⟨s.calls.length, s.now, c⟩),
           calls := s.calls ++ [⟨w, s.clock, s.now, c, false⟩] }

/-- … and the specification's state then. -/
def callPreS (s : Sys) (w : Nat) (c : Call) : Spec.SSys :=
  { abs s with workers := s.workers.set w (some ⟨s.calls.length, s.now, c⟩), nextCall := s.calls.length + 1 }

/-- REFINEMENT (protocol). Between operations (`Good s`), whatever operation comes next, the system
does what the specification does: the abstraction of the new state is the specification's new state,
the poll observation is the same, and the completions handed to the workers match the
specification's (same worker, same call, same elapsed time, failure for failure, and a response
conforming to the specification's answer). -/
theorem step_refines_spec {s : Sys} (h : Good s) (hd : Spec.distinctCids s.cfg) {op : Op} {s' : Sys}
    {obs : Option PollObs} (hs : s.step op = some (s', obs)) :
    ∃ ds, Spec.SSys.step (abs s) op = some (abs s', ds, obs) ∧ DonesMatch s'.out ds := by
  have hgood := h.step hs
  have h0 := h.inv.clearOut
  cases op with
  | clock t =>
    simp only [Sys.step, Option.some.injEq, Prod.mk.injEq] at hs
    obtain ⟨rfl, rfl⟩ := hs
    have hi : Inv { s with out := [], clock := t } :=
      h0.congr (s' := { s with out := [], clock := t }) rfl rfl rfl rfl rfl rfl rfl rfl rfl rfl rfl rfl
    obtain ⟨g1, g2⟩ := settle_refines hi hgood hd (u0 := { abs s with clock := t }) rfl (Acct.init _ _)
    have e : Spec.SSys.step (abs s) (.clock t) =
        some (({ abs s with clock := t } : Spec.SSys).settle.1, ({ abs s with clock := t } : Spec.SSys).settle.2, none) := rfl
    exact ⟨_, by rw [e, g1], g2⟩
  | call w c =>
    simp only [Sys.step] at hs
    split at hs
    · rename_i hidle
      simp only [Option.some.injEq, Prod.mk.injEq] at hs
      obtain ⟨rfl, rfl⟩ := hs
      have hi := h0.call w c rfl
      have hcfg : (({ s with out := [] } : Sys).call w c).cfg = s.cfg := by
        unfold Sys.call; simp only; split <;> simp
      have hidle' : (abs s).workers[w]? = some none := hidle
      by_cases halive : s.exch.isSome = true
      · -- the request goes into the channel
        have hcall : ({ s with out := [] } : Sys).call w c =
            { s with out := [], workers := s.workers.set w (some ⟨s.calls.length, s.now, c⟩),
                                                                      calls := s.calls ++ [⟨w, s.clock, s.now, c, true⟩],
                                                                      queue := s.queue ++ [⟨s.calls.length, s.clock, c.wire⟩] } := by
          unfold Sys.call; simp [halive]
        rw [hcall] at hi hgood hcfg ⊢
        have hU : abs ({ s with out := [], workers := s.workers.set w (some ⟨s.calls.length, s.now, c⟩),
                                                                      calls := s.calls ++ [⟨w, s.clock, s.now, c, true⟩],
                                                                      queue := s.queue ++ [⟨s.calls.length, s.clock, c.wire⟩] } : Sys) =
            { ({ abs s with workers := s.workers.set w (some ⟨s.calls.length, s.now, c⟩),
                                                                      nextCall := s.calls.length + 1,
                                                                      waiting := s.queue ++ [⟨s.calls.length, s.clock, c.wire⟩] } : Spec.SSys) with
              workers := s.workers.set w (some ⟨s.calls.length, s.now, c⟩) } := by
          simp only [abs, List.length_append, List.length_cons, List.length_nil]
        obtain ⟨g1, g2⟩ := settle_refines hi hgood (by rw [hcfg]; exact hd) hU (Acct.init _ _)
        have e : Spec.SSys.step (abs s) (.call w c) =
            some (({ abs s with workers := s.workers.set w (some ⟨s.calls.length, s.now, c⟩),
                                                                      nextCall := s.calls.length + 1,
                                                                      waiting := s.queue ++ [⟨s.calls.length, s.clock, c.wire⟩] } : Spec.SSys).settle.1,
                  ({ abs s with workers := s.workers.set w (some ⟨s.calls.length, s.now, c⟩),
                                                                      nextCall := s.calls.length + 1,
                                                                      waiting := s.queue ++ [⟨s.calls.length, s.clock, c.wire⟩] } : Spec.SSys).settle.2, none) := by
          simp only [Spec.SSys.step, hidle']
          have : (abs s).alive = true := halive
          simp only [this, if_true]
          rfl
        exact ⟨_, by rw [e, g1], g2⟩
      · -- the exchange is gone: the call fails at once
        have hs0 : s.exch.isSome = false := by simpa using halive
        have hcall : ({ s with out := [] } : Sys).call w c = (callPre s w c).complete s.calls.length .offline := by
          unfold Sys.call callPre; simp [hs0]
        rw [hcall] at hi hgood hcfg ⊢
        have hU : abs ((callPre s w c).complete s.calls.length .offline) =
            { callPreS s w c with workers := ((callPre s w c).complete s.calls.length .offline).workers } := by
          simp only [abs, callPre, callPreS, complete_cfg, complete_now, complete_clock, complete_exch, complete_gate,
            complete_plog, complete_queue, complete_subs, complete_calls, List.length_append, List.length_cons,
            List.length_nil]
        have hacct : Acct (callPreS s w c).workers ((callPre s w c).complete s.calls.length .offline).now
            ((callPre s w c).complete s.calls.length .offline).wo := by
          rw [complete_wo, complete_now]
          exact acct_closed _ _ _ _ _ (Acct.init _ _)
        obtain ⟨g1, g2⟩ := settle_refines hi hgood (by rw [hcfg]; exact hd) hU hacct
        have e : Spec.SSys.step (abs s) (.call w c) =
            some ((callPreS s w c).settle.1, (callPreS s w c).settle.2, none) := by
          simp only [Spec.SSys.step, hidle']
          split
          · rename_i htrue
            have : (abs s).alive = false := hs0
            exact absurd (this ▸ htrue) (by simp)
          · rfl
        exact ⟨_, by rw [e, g1], g2⟩
    · cases hs
  | abandon w =>
    simp only [Sys.step] at hs
    split at hs
    · rename_i p hp
      simp only [Option.some.injEq, Prod.mk.injEq] at hs
      obtain ⟨rfl, rfl⟩ := hs
      have hi : Inv { s with out := [], workers := s.workers.set w none } := by
        refine ⟨h0.wf, h0.invT, h0.exch_run, h0.plog_ok, h0.fifo, h0.dead_queue, h0.issued_q, h0.issued_p,
          ⟨?_, by simp⟩, h0.subs_ok, h0.sent_q, h0.sent_p⟩
        intro w' p' hw'
        simp only [List.getElem?_set] at hw'
        split at hw'
        · split at hw' <;> cases hw'
        · exact h0.wo.workers w' p' hw'
      obtain ⟨g1, g2⟩ := settle_refines hi hgood hd (u0 := { abs s with workers := s.workers.set w none }) rfl
        (Acct.init _ _)
      have hp' : (abs s).workers[w]? = some (some p) := hp
      have e : Spec.SSys.step (abs s) (.abandon w) =
          some (({ abs s with workers := s.workers.set w none } : Spec.SSys).settle.1,
                ({ abs s with workers := s.workers.set w none } : Spec.SSys).settle.2, none) := by
        simp only [Spec.SSys.step, hp']
        rfl
      exact ⟨_, by rw [e, g1], g2⟩
    · cases hs
  | exchOff =>
    simp only [Sys.step, Option.some.injEq, Prod.mk.injEq] at hs
    obtain ⟨rfl, rfl⟩ := hs
    have hi : Inv { s with out := [], gate := false } :=
      h0.congr (s' := { s with out := [], gate := false }) rfl rfl rfl rfl rfl rfl rfl rfl rfl rfl rfl rfl
    obtain ⟨g1, g2⟩ := settle_refines hi hgood hd (u0 := { abs s with gate := false }) rfl (Acct.init _ _)
    have e : Spec.SSys.step (abs s) .exchOff =
        some (({ abs s with gate := false } : Spec.SSys).settle.1, ({ abs s with gate := false } : Spec.SSys).settle.2, none) := rfl
    exact ⟨_, by rw [e, g1], g2⟩
  | exchOn =>
    simp only [Sys.step, Option.some.injEq, Prod.mk.injEq] at hs
    obtain ⟨rfl, rfl⟩ := hs
    have hi : Inv { s with out := [], gate := true } :=
      h0.congr (s' := { s with out := [], gate := true }) rfl rfl rfl rfl rfl rfl rfl rfl rfl rfl rfl rfl
    obtain ⟨g1, g2⟩ := settle_refines hi hgood hd (u0 := { abs s with gate := true }) rfl (Acct.init _ _)
    have e : Spec.SSys.step (abs s) .exchOn =
        some (({ abs s with gate := true } : Spec.SSys).settle.1, ({ abs s with gate := true } : Spec.SSys).settle.2, none) := rfl
    exact ⟨_, by rw [e, g1], g2⟩
  | exchStop =>
    simp only [Sys.step, Option.some.injEq, Prod.mk.injEq] at hs
    obtain ⟨rfl, rfl⟩ := hs
    have hi := h0.stop
    obtain ⟨a1, a2, a3, a4, a5, a6, a7, a8, a9⟩ :=
      foldl_complete_core s.queue .offline { s with out := [], exch := none, queue := [] }
    have hU : abs ({ s with out := [] } : Sys).stop =
        { ({ abs s with alive := false, waiting := [] } : Spec.SSys) with
          workers := ({ s with out := [] } : Sys).stop.workers } := by
      unfold Sys.stop
      simp only [abs, a1, a2, a3, a4, a5, a6, a7, a8, a9]
      rfl
    have hacct : Acct s.workers ({ s with out := [] } : Sys).stop.now ({ s with out := [] } : Sys).stop.wo := by
      unfold Sys.stop
      have := foldl_complete_closed (acct_closed s.workers s.now) s.queue .offline
        (t := { s with out := [], exch := none, queue := [] }) rfl (Acct.init _ _)
      rw [this.2]; exact this.1
    have hcfg : ({ s with out := [] } : Sys).stop.cfg = s.cfg := by unfold Sys.stop; exact a1
    obtain ⟨g1, g2⟩ := settle_refines hi hgood (by rw [hcfg]; exact hd) hU hacct
    have e : Spec.SSys.step (abs s) .exchStop =
        some (({ abs s with alive := false, waiting := [] } : Spec.SSys).settle.1,
              ({ abs s with alive := false, waiting := [] } : Spec.SSys).settle.2, none) := rfl
    exact ⟨_, by rw [e, g1], g2⟩
  | adv ms =>
    simp only [Sys.step, Option.some.injEq, Prod.mk.injEq] at hs
    obtain ⟨rfl, rfl⟩ := hs
    have hi : Inv { s with out := [], now := s.now + ms } :=
      ⟨h0.wf, h0.invT.adv (Nat.le_add_right _ _), h0.exch_run, h0.plog_ok, h0.fifo, h0.dead_queue,
        h0.issued_q, h0.issued_p, ⟨h0.wo.workers, by simp⟩, h0.subs_ok,
        fun m hm c hc => Nat.le_trans (h0.sent_q m hm c hc) (Nat.le_add_right _ _), h0.sent_p⟩
    obtain ⟨g1, g2⟩ := settle_refines hi hgood hd (u0 := { abs s with now := s.now + ms }) rfl (Acct.init _ _)
    have e : Spec.SSys.step (abs s) (.adv ms) =
        some (({ abs s with now := s.now + ms } : Spec.SSys).settle.1,
              ({ abs s with now := s.now + ms } : Spec.SSys).settle.2, none) := rfl
    exact ⟨_, by rw [e, g1], g2⟩
  | sub =>
    simp only [Sys.step, Option.some.injEq, Prod.mk.injEq] at hs
    obtain ⟨rfl, rfl⟩ := hs
    have hi : Inv { s with out := [], subs := s.subs ++ [⟨s.log.length, false, s.log.length, []⟩] } := by
      refine ⟨h0.wf, h0.invT, h0.exch_run, h0.plog_ok, h0.fifo, h0.dead_queue,
        h0.issued_q, h0.issued_p, ⟨h0.wo.workers, by simp⟩, ?_, h0.sent_q, h0.sent_p⟩
      intro b hb
      simp only [List.mem_append, List.mem_singleton] at hb
      rcases hb with hb | rfl
      · exact h0.subs_ok b hb
      · simp
    have hsent := sent_eq_log h hd
    obtain ⟨g1, g2⟩ := settle_refines hi hgood hd
      (u0 := { abs s with subs := s.subs ++ [⟨s.log.length, false, s.log.length, []⟩] }) rfl (Acct.init _ _)
    have e : Spec.SSys.step (abs s) .sub =
        some (({ abs s with subs := s.subs ++ [⟨s.log.length, false, s.log.length, []⟩] } : Spec.SSys).settle.1,
              ({ abs s with subs := s.subs ++ [⟨s.log.length, false, s.log.length, []⟩] } : Spec.SSys).settle.2, none) := by
      simp only [Spec.SSys.step, hsent]
      rfl
    exact ⟨_, by rw [e, g1], g2⟩
  | poll i =>
    simp only [Sys.step] at hs
    split at hs
    · rename_i b hb
      simp only [Option.some.injEq, Prod.mk.injEq] at hs
      obtain ⟨rfl, rfl⟩ := hs
      -- the state after running to quiescence is the one a no-op operation leads to
      have hmid : Good ({ s with out := [] } : Sys).settle :=
        h.step (op := .clock s.clock) (obs := none) (by simp [Sys.step])
      obtain ⟨g1, g2⟩ := settle_refines h0 hmid hd (u0 := abs s) rfl (Acct.init _ _)
      have hcfg := settle_cfg ({ s with out := [] } : Sys)
      have hdrain := drain_eq hmid (by rw [hcfg]; exact hd) b
      have hb' : (abs s).subs[i]? = some b := hb
      have e : Spec.SSys.step (abs s) (.poll i) =
          some ({ (abs s).settle.1 with subs := (abs s).settle.1.subs.set i ((abs s).settle.1.drain b).1 },
                (abs s).settle.2, some ((abs s).settle.1.drain b).2) := by
        simp only [Spec.SSys.step, hb']
      refine ⟨_, ?_, g2⟩
      rw [e, g1, hdrain]
      rfl
    · cases hs

/-! ## C.6 Whole histories, and two consequences read off the specification -/

/-- An operation is impossible for the system exactly when it is for the specification. -/
theorem step_none_iff (s : Sys) (op : Op) : s.step op = none ↔ Spec.SSys.step (abs s) op = none := by
  cases op <;> simp only [Sys.step, Spec.SSys.step]
  case call w c =>
    have : (abs s).workers[w]? = s.workers[w]? := rfl
    rw [this]
    cases s.workers[w]? with
    | none => simp
    | some x => cases x <;> simp
  case abandon w =>
    have : (abs s).workers[w]? = s.workers[w]? := rfl
    rw [this]
    cases s.workers[w]? with
    | none => simp
    | some x => cases x <;> simp
  case poll i =>
    have : (abs s).subs[i]? = s.subs[i]? := rfl
    rw [this]
    cases s.subs[i]? <;> simp
  all_goals simp

theorem abs_init (c : XCfg) (w : Nat) : abs (Sys.init c w) = Spec.SSys.init c w := rfl

/-- REFINEMENT over whole histories: the abstraction of the state the system reaches is the state the
specification reaches. -/
theorem run_refines_spec {c : XCfg} (hc : c.base.wf = true) (hd : Spec.distinctCids c) (w : Nat) (ops : List Op) :
    abs ((Sys.init c w).run ops) = (Spec.SSys.init c w).run ops := by
  rw [← abs_init]
  have hg0 : Good (Sys.init c w) := ⟨Inv.init hc w, Settled.init c w, TrackedS.init c w⟩
  have hcfg0 : (Sys.init c w).cfg = c := rfl
  generalize Sys.init c w = s at hg0 hcfg0
  induction ops generalizing s with
  | nil => rfl
  | cons op ops ih =>
    simp only [Sys.run, Spec.SSys.run, List.foldl_cons]
    cases hs : s.step op with
    | none =>
      rw [(step_none_iff s op).mp hs]
      exact ih s hg0 hcfg0
    | some r =>
      obtain ⟨s', obs⟩ := r
      obtain ⟨ds, he, _⟩ := step_refines_spec hg0 (by rw [hcfg0]; exact hd) hs
      rw [he]
      exact ih s' (hg0.step hs) (by rw [step_cfg hs, hcfg0])

theorem mem_finish (u : Spec.SSys) (e : Spec.SDone) :
    e ∈ u.finish.2 ↔ ∃ (i : Nat) (p : Pending) (en : Spec.Ending),
      u.workers[i]? = some (some p) ∧ u.ending p = some en ∧ e = ⟨i, p.call, u.now - p.started, en⟩ := by
  unfold Spec.SSys.finish
  simp only [List.mem_filterMap]
  constructor
  · rintro ⟨⟨x, i⟩, hxi, hf⟩
    have hxi' := List.mk_mem_zipIdx_iff_getElem?.mp hxi
    cases x with
    | none => simp at hf
    | some p =>
      simp only [Option.map_eq_some_iff] at hf
      obtain ⟨en, he, rfl⟩ := hf
      exact ⟨i, p, en, hxi', he, rfl⟩
  · rintro ⟨i, p, en, h1, h2, rfl⟩
    exact ⟨(some p, i), List.mk_mem_zipIdx_iff_getElem?.mpr h1, by simp [h2]⟩

/-- In the specification a call the gone exchange has not seen has failed. -/
theorem ending_unseen_dead {u : Spec.SSys} {p : Pending} (ha : u.alive = false)
    (hn : ∀ e ∈ u.seen, e.call ≠ p.call) : u.ending p = some .failed := by
  unfold Spec.SSys.ending Spec.SSys.answers
  have : (u.seen.zipIdx.map fun ek => (ek.1, Spec.answer u.cfg ((u.seen.take ek.2).map fun e => (e.t, e.rq)) ek.1.t ek.1.rq)).find?
      (fun ea => ea.1.call == p.call) = none := by
    rw [List.find?_eq_none]
    intro ea hea
    simp only [List.mem_map] at hea
    obtain ⟨ek, hek, rfl⟩ := hea
    have := hn ek.1 (List.fst_mem_of_mem_zipIdx hek)
    simpa using this
  rw [this]
  simp [ha]

theorem outcomeRel_failed {o : Outcome} (h : OutcomeRel o .failed) : o = .offline := by
  cases o <;> simp [OutcomeRel] at h ⊢

theorem see_dead {u : Spec.SSys} (h : u.alive = false) : u.see = u := by
  unfold Spec.SSys.see; simp [h]

/-- A client method called when the exchange is gone fails at once (no latency), with
`ExchangeOffline`. -/
theorem call_dead_fails {s : Sys} (h : Good s) (hd : Spec.distinctCids s.cfg) (hdead : s.exch = none)
    {w : Nat} {c : Call} {s' : Sys} {obs : Option PollObs} (hs : s.step (.call w c) = some (s', obs)) :
    ∃ d ∈ s'.out, d.worker = w ∧ d.call = s.calls.length ∧ d.elapsed = 0 ∧ d.out = .offline := by
  obtain ⟨ds, he, hm⟩ := step_refines_spec h hd hs
  have hidle : s.workers[w]? = some none := by
    simp only [Sys.step] at hs
    split at hs
    · assumption
    · cases hs
  have hidle' : (abs s).workers[w]? = some none := hidle
  have hal : (abs s).alive = false := by simp [abs, hdead]
  have e : Spec.SSys.step (abs s) (.call w c) = some ((callPreS s w c).settle.1, (callPreS s w c).settle.2, none) := by
    simp only [Spec.SSys.step, hidle']
    split
    · rename_i htrue
      exact absurd (hal ▸ htrue) (by simp)
    · rfl
  rw [e] at he
  simp only [Option.some.injEq, Prod.mk.injEq] at he
  obtain ⟨_, rfl, _⟩ := he
  have hal' : (callPreS s w c).alive = false := hal
  have hmem : (⟨w, s.calls.length, 0, .failed⟩ : Spec.SDone) ∈ (callPreS s w c).settle.2 := by
    unfold Spec.SSys.settle
    rw [see_dead hal', mem_finish]
    refine ⟨w, ⟨s.calls.length, s.now, c⟩, .failed, ?_, ?_, by simp [callPreS, abs]⟩
    · have hlt : w < s.workers.length := (List.getElem?_eq_some_iff.mp hidle).1
      simp [callPreS, hlt]
    · apply ending_unseen_dead hal'
      intro e he
      simp only [callPreS, abs, List.mem_map] at he
      obtain ⟨q, hq, rfl⟩ := he
      have := plog_call_lt h.inv q hq
      simp only [toSeen]; omega
  obtain ⟨d, hdm, h1, h2, h3, h4⟩ := hm.2 _ hmem
  exact ⟨d, hdm, h1, h2, h3, outcomeRel_failed h4⟩

/-- When the exchange task is aborted, every worker whose request was still in the channel gets
`ExchangeOffline` at that moment. -/
theorem stop_fails_waiting {s : Sys} (h : Good s) (hd : Spec.distinctCids s.cfg) {s' : Sys} {obs : Option PollObs}
    (hs : s.step .exchStop = some (s', obs)) (w : Nat) (p : Pending) (hw : s.workers[w]? = some (some p))
    (hq : p.call ∈ s.queue.map (·.call)) :
    ∃ d ∈ s'.out, d.worker = w ∧ d.call = p.call ∧ d.elapsed = s.now - p.started ∧ d.out = .offline := by
  obtain ⟨ds, he, hm⟩ := step_refines_spec h hd hs
  have e : Spec.SSys.step (abs s) .exchStop =
      some (({ abs s with alive := false, waiting := [] } : Spec.SSys).settle.1,
            ({ abs s with alive := false, waiting := [] } : Spec.SSys).settle.2, none) := rfl
  rw [e] at he
  simp only [Option.some.injEq, Prod.mk.injEq] at he
  obtain ⟨_, rfl, _⟩ := he
  have hmem : (⟨w, p.call, s.now - p.started, .failed⟩ : Spec.SDone) ∈
      ({ abs s with alive := false, waiting := [] } : Spec.SSys).settle.2 := by
    unfold Spec.SSys.settle
    rw [see_dead rfl, mem_finish]
    refine ⟨w, p, .failed, hw, ?_, rfl⟩
    apply ending_unseen_dead rfl
    intro e he
    simp only [abs, List.mem_map] at he
    obtain ⟨q, hq', rfl⟩ := he
    obtain ⟨lost, hl, _⟩ := h.inv.fifo
    have hn := sentIds_nodup s.calls
    rw [← hl, List.append_assoc, List.nodup_append] at hn
    exact hn.2.2 q.call (List.mem_map.mpr ⟨q, hq', rfl⟩) p.call (List.mem_append.mpr (Or.inl hq))
  obtain ⟨d, hdm, h1, h2, h3, h4⟩ := hm.2 _ hmem
  exact ⟨d, hdm, h1, h2, h3, outcomeRel_failed h4⟩

/-! ## C.7 Who is waiting has no influence on anything else -/

/-- Everything but the workers, the completions of the current operation and the subscribers. -/
structure CoreEq (a b : Sys) : Prop where
  cfg : a.cfg = b.cfg
  now : a.now = b.now
  clock : a.clock = b.clock
  exch : a.exch = b.exch
  gate : a.gate = b.gate
  queue : a.queue = b.queue
  timers : a.timers = b.timers
  log : a.log = b.log
  plog : a.plog = b.plog
  fired : a.fired = b.fired

/-- Running to quiescence acts on the exchange, the channel, the latency tasks, the account stream
and the history in a way that does not depend on which workers are waiting. -/
theorem settle_ignores_workers {a b : Sys} (h : CoreEq a b) (hwf : ∀ x, a.exch = some x → WF x.base) :
    CoreEq a.settle b.settle := by
  have hrun : CoreEq a.runExchange b.runExchange := by
    by_cases hact : a.gate = true ∧ a.exch.isSome
    · obtain ⟨hg, hsome⟩ := hact
      obtain ⟨x, hx⟩ := Option.isSome_iff_exists.mp hsome
      have hxb : b.exch = some x := by rw [← h.exch]; exact hx
      have hgb : b.gate = true := by rw [← h.gate]; exact hg
      obtain ⟨a1, a2, a3, a4, a5, a6, a7, a8, a9, _, _, a12⟩ := runExchange_ok hg hx (hwf x hx)
      obtain ⟨b1, b2, b3, b4, b5, b6, b7, b8, b9, _, _, b12⟩ := runExchange_ok hgb hxb (hwf x hx)
      exact ⟨by rw [a5, b5, h.cfg], by rw [a6, b6, h.now], by rw [a7, b7, h.clock], by rw [a1, b1, h.queue],
        by rw [a8, b8, h.gate], by rw [a2, b2], by rw [a4, b4, h.timers, h.now, h.queue, Sys.latency, Sys.latency, h.cfg],
        by rw [a9, b9, h.log], by rw [a3, b3, h.plog, h.now, h.queue], by rw [a12, b12, h.fired]⟩
    · have hia : a.runExchange = a := by
        apply runExchange_idle
        cases hg : a.gate
        · exact Or.inl rfl
        · right
          cases he : a.exch with
          | none => rfl
          | some x => exact absurd ⟨hg, by simp [he]⟩ hact
      have hib : b.runExchange = b := by
        apply runExchange_idle
        cases hg : b.gate
        · exact Or.inl rfl
        · right
          cases he : b.exch with
          | none => rfl
          | some x => exact absurd ⟨by rw [h.gate]; exact hg, by rw [h.exch]; simp [he]⟩ hact
      rw [hia, hib]; exact h
  unfold Sys.settle
  obtain ⟨a1, a2, a3, a4, a5, a6, a7, a8, a9, a10, _, _⟩ := fire_fields a.runExchange
  obtain ⟨b1, b2, b3, b4, b5, b6, b7, b8, b9, b10, _, _⟩ := fire_fields b.runExchange
  exact ⟨by rw [a5, b5, hrun.cfg], by rw [a6, b6, hrun.now], by rw [a7, b7, hrun.clock], by rw [a8, b8, hrun.exch],
    by rw [a9, b9, hrun.gate], by rw [a10, b10, hrun.queue], by rw [a2, b2, hrun.timers, hrun.now],
    by rw [a1, b1, hrun.log, hrun.timers, hrun.now], by rw [a4, b4, hrun.plog], by rw [a3, b3, hrun.fired, hrun.timers, hrun.now]⟩

/-- A worker that drops the future of its pending call (so that the response will find no receiver)
changes nothing but its own state: exchange, channel, latency tasks, account stream and history
evolve exactly as if nothing had happened. -/
theorem abandon_is_invisible {s : Sys} (h : Inv s) {w : Nat} {s1 s2 : Sys} {o1 o2 : Option PollObs}
    (h1 : s.step (.abandon w) = some (s1, o1)) (h2 : s.step (.clock s.clock) = some (s2, o2)) : CoreEq s1 s2 := by
  simp only [Sys.step] at h1 h2
  split at h1
  · simp only [Option.some.injEq, Prod.mk.injEq] at h1 h2
    rw [← h1.1, ← h2.1]
    exact settle_ignores_workers ⟨rfl, rfl, rfl, rfl, rfl, rfl, rfl, rfl, rfl, rfl⟩ h.exch_wf
  · cases h1

/-! ## E. The exchange task lives until it is aborted -/

/-- A well-formed exchange survives the runtime running to quiescence. -/
theorem settle_alive {t : Sys} (hwf : ∀ x, t.exch = some x → WF x.base) (h : t.exch.isSome = true) :
    t.settle.exch.isSome = true := by
  unfold Sys.settle
  rw [(fire_fields t.runExchange).2.2.2.2.2.2.2.1]
  obtain ⟨x, hx⟩ := Option.isSome_iff_exists.mp h
  cases hg : t.gate
  · rw [runExchange_idle (Or.inl hg)]; exact h
  · rw [(runExchange_ok hg hx (hwf x hx)).1]; rfl

/-- No operation other than the abort ends a well-formed exchange. -/
theorem step_alive {s : Sys} (hwf : ∀ x, s.exch = some x → WF x.base) (h : s.exch.isSome = true) {op : Op}
    (hop : op ≠ .exchStop) {s' : Sys} {obs : Option PollObs} (hs : s.step op = some (s', obs)) :
    s'.exch.isSome = true := by
  cases op <;> simp only [Sys.step] at hs
  case exchStop => exact absurd rfl hop
  case clock t => cases hs; exact settle_alive hwf h
  case call w c =>
    split at hs
    · cases hs
      have h1 : (({ s with out := [] } : Sys).call w c).exch = s.exch := by
        unfold Sys.call; simp only; split <;> simp
      exact settle_alive (by rw [h1]; exact hwf) (by rw [h1]; exact h)
    · cases hs
  case abandon w =>
    split at hs
    · cases hs; exact settle_alive hwf h
    · cases hs
  case exchOff => cases hs; exact settle_alive hwf h
  case exchOn => cases hs; exact settle_alive hwf h
  case adv ms => cases hs; exact settle_alive hwf h
  case sub => cases hs; exact settle_alive hwf h
  case poll i =>
    split at hs
    · cases hs; exact settle_alive (t := { s with out := [] }) hwf h
    · cases hs

theorem run_alive {s : Sys} (h : Inv s) (hset : Settled s) (ha : s.exch.isSome = true) (ops : List Op)
    (hno : Op.exchStop ∉ ops) : (s.run ops).exch.isSome = true := by
  induction ops generalizing s with
  | nil => exact ha
  | cons op ops ih =>
    have h1 : op ≠ .exchStop := fun e => hno (e ▸ List.mem_cons_self)
    have h2 : Op.exchStop ∉ ops := fun e => hno (List.mem_cons_of_mem _ e)
    simp only [Sys.run, List.foldl_cons]
    cases hs : s.step op with
    | none => exact ih h hset ha h2
    | some r =>
      obtain ⟨hi, hs'⟩ := h.step (obs := r.2) hs
      exact ih hi hs' (step_alive h.exch_wf ha h1 (obs := r.2) hs) h2

end BarterModel.MockClient
