import BarterModel.Model.Stale
namespace BarterModel.Stale

variable {α : Type}

theorem upd_isSome (s : Bool) (h : Option (Msg α)) (m : Msg α) : (upd s h m).isSome = true := by
  unfold upd; split
  · rfl
  · split <;> rfl

/-- the held message is one that was delivered (or the initial one) -/
theorem deliver_mem (s : Bool) (h : Option (Msg α)) (ms : List (Msg α)) (r : Msg α)
    (hr : deliver s h ms = some r) : r ∈ ms ∨ h = some r := by
  induction ms generalizing h with
  | nil => right; simpa [deliver] using hr
  | cons m ms ih =>
    simp only [deliver, List.foldl_cons] at hr
    rcases ih (upd s h m) hr with h1 | h1
    · left; simp [h1]
    · unfold upd at h1
      split at h1
      · left; injection h1 with h1; simp [h1]
      · split at h1
        · left; injection h1 with h1; simp [h1]
        · right; exact h1

/-- the held time dominates the initial time and every delivered time -/
theorem deliver_ge (s : Bool) (h : Option (Msg α)) (ms : List (Msg α)) (r : Msg α)
    (hr : deliver s h ms = some r) :
    (∀ c, h = some c → c.1 ≤ r.1) ∧ (∀ m ∈ ms, m.1 ≤ r.1) := by
  induction ms generalizing h with
  | nil =>
    simp only [deliver, List.foldl_nil] at hr
    refine ⟨?_, by simp⟩
    intro c hc; rw [hc] at hr; injection hr with hr; rw [hr]; exact Int.le_refl _
  | cons m ms ih =>
    simp only [deliver, List.foldl_cons] at hr
    have ⟨h1, h2⟩ := ih (upd s h m) hr
    have hm : m.1 ≤ r.1 ∧ (∀ c, h = some c → c.1 ≤ r.1) := by
      unfold upd at h1
      cases h with
      | none => exact ⟨h1 m rfl, by simp⟩
      | some c =>
        simp only at h1
        by_cases hg : passes s c.1 m.1 = true
        · simp only [hg, ↓reduceIte] at h1
          have := h1 m rfl
          refine ⟨this, ?_⟩
          intro c' hc'; injection hc' with hc'; subst hc'
          cases s <;> simp [passes] at hg <;> omega
        · simp only [hg] at h1
          have := h1 c rfl
          refine ⟨?_, ?_⟩
          · cases s <;> simp [passes] at hg <;> omega
          · intro c' hc'; injection hc' with hc'; subst hc'; exact this
    refine ⟨hm.2, ?_⟩
    intro x hx
    simp only [List.mem_cons] at hx
    rcases hx with rfl | hx
    · exact hm.1
    · exact h2 x hx

theorem deliver_isSome (s : Bool) (h : Option (Msg α)) (ms : List (Msg α))
    (hne : h.isSome = true ∨ ms ≠ []) : (deliver s h ms).isSome = true := by
  induction ms generalizing h with
  | nil => simpa [deliver] using hne
  | cons m ms ih =>
    simp only [deliver, List.foldl_cons]
    exact ih (upd s h m) (Or.inl (upd_isSome s h m))

theorem modifyAt_getElem? (l : List α) (i j : Nat) (f : α → α) :
    (modifyAt l i f)[j]? = if j = i then l[i]?.map f else l[j]? := by
  unfold modifyAt
  split
  · rename_i x hx
    have hi : i < l.length := (List.getElem?_eq_some_iff.mp hx).1
    by_cases h : j = i
    · subst h
      have : l[j] = x := (List.getElem?_eq_some_iff.mp hx).2
      simp [hi, this]
    · simp [h, Ne.symm h]
  · rename_i hx
    by_cases h : j = i
    · subst h; simp [hx]
    · simp [h]

end BarterModel.Stale
