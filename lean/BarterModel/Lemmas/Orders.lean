import BarterModel.Model.Orders
/-! Association-list lemmas and the one-step refinement lemma for C01. -/
namespace BarterModel.Orders

theorem lookup_erase_self (m : Orders) (c : Nat) : lookup (erase m c) c = none := by
  induction m with
  | nil => rfl
  | cons kv rest ih =>
    obtain ⟨k, v⟩ := kv
    by_cases h : k = c
    · simp [erase, h, ih]
    · simp [erase, h, lookup, ih]

theorem lookup_erase_ne (m : Orders) (c c' : Nat) (h : c' ≠ c) :
    lookup (erase m c) c' = lookup m c' := by
  induction m with
  | nil => rfl
  | cons kv rest ih =>
    obtain ⟨k, v⟩ := kv
    by_cases hk : k = c
    · subst hk
      have : k ≠ c' := fun e => h e.symm
      simp [erase, lookup, this, ih]
    · by_cases hk' : k = c'
      · subst hk'
        simp [erase, hk, lookup]
      · simp [erase, hk, lookup, hk', ih]

theorem lookup_insert_self (m : Orders) (c : Nat) (o : Order) : lookup (insert m c o) c = some o := by
  simp [insert, lookup]

theorem lookup_insert_ne (m : Orders) (c c' : Nat) (o : Order) (h : c' ≠ c) :
    lookup (insert m c o) c' = lookup m c' := by
  have : c ≠ c' := fun e => h e.symm
  simp [insert, lookup, this, lookup_erase_ne _ _ _ h]

theorem lookup_setState_self (m : Orders) (c : Nat) (cur : Order) (s : Active) :
    lookup (setState m c cur s) c = some { cur with state := s } := lookup_insert_self _ _ _

theorem lookup_setState_ne (m : Orders) (c c' : Nat) (cur : Order) (s : Active) (h : c' ≠ c) :
    lookup (setState m c cur s) c' = lookup m c' := lookup_insert_ne _ _ _ _ h

/-- Frame: an op about client order id `op.cid` leaves every other id's entry untouched. -/
theorem step_frame (m : Orders) (op : Op) (c' : Nat) (h : c' ≠ op.cid) :
    lookup (step m op) c' = lookup m c' := by
  cases op with
  | recOpen c q p x => exact lookup_insert_ne _ _ _ _ h
  | recCancel c =>
    simp only [step, recordInFlightCancel]
    split
    · rfl
    · exact lookup_setState_ne _ _ _ _ _ h
  | cancelResp c ok =>
    simp only [step, updateFromCancelResponse]
    split
    · rfl
    · split <;> first | rfl | exact lookup_erase_ne _ _ _ h | exact lookup_setState_ne _ _ _ _ _ h
  | snapshot s =>
    simp only [Op.cid] at h
    simp only [step, updateFromSnapshot]
    repeat' split
    all_goals first
      | rfl
      | exact lookup_erase_ne _ _ _ h
      | exact lookup_setState_ne _ _ _ _ _ h
      | exact lookup_insert_ne _ _ _ _ h

/-- One-step refinement: the tracked state of `c` evolves by the lifecycle table. -/
theorem step_refines (m : Orders) (op : Op) (c : Nat) (hx : op.exchangeStatesOnly = true) :
    stateOf (step m op) c = Lifecycle.stepOp c (stateOf m c) op := by
  by_cases hc : c = op.cid
  · subst hc
    cases op with
    | recOpen c q p x =>
      simp [stateOf, step, recordInFlightOpen, lookup_insert_self, Lifecycle.stepOp, Op.input, Op.cid,
        Lifecycle.step]
    | recCancel c =>
      simp only [stateOf, step, recordInFlightCancel, Lifecycle.stepOp, Op.input, Op.cid, ↓reduceIte,
        Lifecycle.step]
      cases hl : lookup m c with
      | none => simp [hl]
      | some cur => simp [lookup_setState_self]
    | cancelResp c ok =>
      simp only [stateOf, step, updateFromCancelResponse, Lifecycle.stepOp, Op.input, Op.cid,
        ↓reduceIte]
      cases hl : lookup m c with
      | none => cases ok <;> simp [hl, Lifecycle.step]
      | some cur =>
        obtain ⟨q, p, st, x⟩ := cur
        cases st with
        | inFlight => cases ok <;> simp [hl, Lifecycle.step, lookup_erase_self]
        | opn o => cases ok <;> simp [hl, Lifecycle.step, lookup_erase_self]
        | cancelInFlight x =>
          cases ok <;> cases x <;>
            simp [hl, Lifecycle.step, lookup_erase_self, lookup_setState_self]
    | snapshot s =>
      obtain ⟨cid, q, p, st, sx⟩ := s
      simp only [Op.cid]
      simp only [stateOf, step, updateFromSnapshot, Lifecycle.stepOp, Op.input, ↓reduceIte]
      cases st with
      | inactive k =>
        cases hl : lookup m cid with
        | none => simp [hl, Lifecycle.step]
        | some cur => simp [Lifecycle.step, lookup_erase_self]
      | active a =>
        cases a with
        | cancelInFlight x => simp [Op.exchangeStatesOnly] at hx
        | inFlight =>
          cases hl : lookup m cid with
          | none => simp [Lifecycle.step, lookup_insert_self]
          | some cur =>
            obtain ⟨q', p', st', x'⟩ := cur
            cases st' <;> simp [hl, Lifecycle.step]
        | opn o =>
          cases hl : lookup m cid with
          | none =>
            by_cases hz : remZero q o = true
            · simp [hz, hl, Lifecycle.step]
            · simp [hz, Lifecycle.step, lookup_insert_self]
          | some cur =>
            obtain ⟨q', p', st', x'⟩ := cur
            cases st' with
            | inFlight =>
              by_cases hz : remZero q o = true
              · simp [hz, Lifecycle.step, lookup_erase_self]
              · simp [hz, Lifecycle.step, lookup_setState_self]
            | opn c0 =>
              by_cases hz : remZero q o = true
              · simp [hz, Lifecycle.step, lookup_erase_self]
              · by_cases ht : c0.t ≤ o.t
                · simp [hz, ht, Lifecycle.step, lookup_setState_self]
                · simp [hz, ht, hl, Lifecycle.step]
            | cancelInFlight x =>
              by_cases hz : remZero q o = true
              · simp [hz, Lifecycle.step, lookup_erase_self]
              · cases x with
                | none => simp [hz, Lifecycle.step, lookup_setState_self]
                | some c0 =>
                  by_cases ht : c0.t ≤ o.t
                  · simp [hz, ht, Lifecycle.step, lookup_setState_self]
                  · simp [hz, ht, hl, Lifecycle.step]
  · -- other id: nothing changes
    have h1 := step_frame m op c hc
    have h2 : op.input c = none := by
      cases op <;> simp [Op.input, Op.cid] at * <;> first | (intro h; exact absurd h.symm hc) | skip
      all_goals (try (rename_i s; simp [fun h : s.cid = c => hc h.symm]))
    simp [stateOf, Lifecycle.stepOp, h1, h2]

end BarterModel.Orders
