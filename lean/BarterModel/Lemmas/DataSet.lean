import BarterModel.Model.DataSet
/-! Helper lemmas for C17 (core Lean only). -/
namespace BarterModel.DataSet

/-! ### sums over lists -/

/-- Σ x² -/
def sumSq : List Rat → Rat
  | [] => 0
  | x :: xs => x * x + sumSq xs

theorem total_append (xs ys : List Rat) : total (xs ++ ys) = total xs + total ys := by
  induction xs with
  | nil => simp only [List.nil_append, total]; grind
  | cons x xs ih => simp only [List.cons_append, total, ih]; grind

theorem sumSq_append (xs ys : List Rat) : sumSq (xs ++ ys) = sumSq xs + sumSq ys := by
  induction xs with
  | nil => simp only [List.nil_append, sumSq]; grind
  | cons x xs ih => simp only [List.cons_append, sumSq, ih]; grind

theorem mul_right_cancel_of_ne {a b c : Rat} (hc : c ≠ 0) (h : a * c = b * c) : a = b := by
  have h1 : a * c / c = b * c / c := by rw [h]
  rwa [Rat.mul_div_cancel hc, Rat.mul_div_cancel hc] at h1

theorem natCast_succ (n : Nat) : ((n + 1 : Nat) : Rat) = (n : Rat) + 1 := by
  simp [Rat.natCast_add]

/-- Σ (x − c)² = Σx² − 2c·Σx + n·c² -/
theorem sqDev_expand (c : Rat) (xs : List Rat) :
    sqDev c xs = sumSq xs - 2 * c * total xs + (xs.length : Rat) * (c * c) := by
  induction xs with
  | nil => simp only [sqDev, sumSq, total, List.length_nil]; grind
  | cons x xs ih =>
    simp only [sqDev, sumSq, total, List.length_cons, natCast_succ, ih]
    grind

theorem sqDev_nonneg (c : Rat) (xs : List Rat) : 0 ≤ sqDev c xs := by
  induction xs with
  | nil => simp [sqDev]
  | cons x xs ih =>
    simp only [sqDev]
    apply Rat.add_nonneg _ ih
    rcases Rat.le_total (a := 0) (b := x - c) with h | h
    · exact Rat.mul_nonneg h h
    · have h' : 0 ≤ -(x - c) := by grind
      have := Rat.mul_nonneg h' h'
      grind

theorem natCast_pos_of_ne_nil {xs : List Rat} (h : xs ≠ []) : (0 : Rat) < (xs.length : Rat) := by
  apply Rat.natCast_pos.mpr
  cases xs with
  | nil => exact absurd rfl h
  | cons _ _ => simp

theorem div_nonneg_of_pos {a b : Rat} (ha : 0 ≤ a) (hb : 0 < b) : 0 ≤ a / b := by
  rw [Rat.div_def]
  exact Rat.mul_nonneg ha (Rat.le_of_lt (Rat.inv_pos.mpr hb))

theorem specVariance_nonneg (xs : List Rat) : 0 ≤ specVariance xs := by
  unfold specVariance specM
  cases xs with
  | nil => simp [sqDev, Rat.div_def]
  | cons x xs =>
    exact div_nonneg_of_pos (sqDev_nonneg _ _) (natCast_pos_of_ne_nil (by simp))

/-! ### permutations -/

theorem total_perm {xs ys : List Rat} (h : xs.Perm ys) : total xs = total ys := by
  induction h with
  | nil => rfl
  | cons x _ ih => simp [total, ih]
  | swap x y l => simp only [total]; grind
  | trans _ _ ih1 ih2 => exact ih1.trans ih2

theorem sqDev_perm (c : Rat) {xs ys : List Rat} (h : xs.Perm ys) : sqDev c xs = sqDev c ys := by
  induction h with
  | nil => rfl
  | cons x _ ih => simp [sqDev, ih]
  | swap x y l => simp only [sqDev]; grind
  | trans _ _ ih1 ih2 => exact ih1.trans ih2

/-! ### greatest / least element -/

/-- `h` is a greatest element of `xs`. -/
def IsMax (h : Rat) (xs : List Rat) : Prop := h ∈ xs ∧ ∀ y ∈ xs, y ≤ h
/-- `l` is a least element of `xs`. -/
def IsMin (l : Rat) (xs : List Rat) : Prop := l ∈ xs ∧ ∀ y ∈ xs, l ≤ y

theorem IsMax.unique {a b : Rat} {xs : List Rat} (ha : IsMax a xs) (hb : IsMax b xs) : a = b :=
  Rat.le_antisymm (hb.2 a ha.1) (ha.2 b hb.1)

theorem IsMin.unique {a b : Rat} {xs : List Rat} (ha : IsMin a xs) (hb : IsMin b xs) : a = b :=
  Rat.le_antisymm (ha.2 b hb.1) (hb.2 a ha.1)

theorem IsMax.perm {a : Rat} {xs ys : List Rat} (h : xs.Perm ys) (ha : IsMax a xs) : IsMax a ys :=
  ⟨h.mem_iff.mp ha.1, fun y hy => ha.2 y (h.mem_iff.mpr hy)⟩

theorem IsMin.perm {a : Rat} {xs ys : List Rat} (h : xs.Perm ys) (ha : IsMin a xs) : IsMin a ys :=
  ⟨h.mem_iff.mp ha.1, fun y hy => ha.2 y (h.mem_iff.mpr hy)⟩

theorem specHigh_isMax : ∀ (xs : List Rat), xs ≠ [] → IsMax (specHigh xs) xs
  | [], h => absurd rfl h
  | [x], _ => by simp [specHigh, IsMax]
  | x :: y :: ys, _ => by
    have ih := specHigh_isMax (y :: ys) (by simp)
    simp only [specHigh]
    split
    · next hle =>
      refine ⟨List.mem_cons_of_mem _ ih.1, ?_⟩
      intro z hz
      rcases List.mem_cons.mp hz with rfl | hz
      · exact hle
      · exact ih.2 z hz
    · next hnle =>
      refine ⟨List.mem_cons_self, ?_⟩
      intro z hz
      rcases List.mem_cons.mp hz with rfl | hz
      · exact Rat.le_refl
      · exact Rat.le_trans (ih.2 z hz) (Rat.le_of_lt (Rat.not_le.mp hnle))

theorem specLow_isMin : ∀ (xs : List Rat), xs ≠ [] → IsMin (specLow xs) xs
  | [], h => absurd rfl h
  | [x], _ => by simp [specLow, IsMin]
  | x :: y :: ys, _ => by
    have ih := specLow_isMin (y :: ys) (by simp)
    simp only [specLow]
    split
    · next hle =>
      refine ⟨List.mem_cons_of_mem _ ih.1, ?_⟩
      intro z hz
      rcases List.mem_cons.mp hz with rfl | hz
      · exact hle
      · exact ih.2 z hz
    · next hnle =>
      refine ⟨List.mem_cons_self, ?_⟩
      intro z hz
      rcases List.mem_cons.mp hz with rfl | hz
      · exact Rat.le_refl
      · exact Rat.le_trans (Rat.le_of_lt (Rat.not_le.mp hnle)) (ih.2 z hz)

/-- Σxs ≤ n·h when every element is ≤ h. -/
theorem total_le_of_le (h : Rat) (xs : List Rat) (hb : ∀ y ∈ xs, y ≤ h) :
    total xs ≤ (xs.length : Rat) * h := by
  induction xs with
  | nil => simp [total]
  | cons x xs ih =>
    have h1 := hb x (by simp)
    have h2 := ih (fun y hy => hb y (by simp [hy]))
    simp only [total, List.length_cons, natCast_succ]
    grind

theorem le_total_of_le (l : Rat) (xs : List Rat) (hb : ∀ y ∈ xs, l ≤ y) :
    (xs.length : Rat) * l ≤ total xs := by
  induction xs with
  | nil => simp [total]
  | cons x xs ih =>
    have h1 := hb x (by simp)
    have h2 := ih (fun y hy => hb y (by simp [hy]))
    simp only [total, List.length_cons, natCast_succ]
    grind

theorem specMean_mul_length {xs : List Rat} (h : xs ≠ []) :
    specMean xs * (xs.length : Rat) = total xs := by
  have := natCast_pos_of_ne_nil h
  unfold specMean
  exact Rat.div_mul_cancel (by grind)

theorem specMean_le_of_le {h : Rat} {xs : List Rat} (hne : xs ≠ []) (hb : ∀ y ∈ xs, y ≤ h) :
    specMean xs ≤ h := by
  have hpos := natCast_pos_of_ne_nil hne
  have h1 := total_le_of_le h xs hb
  rw [← specMean_mul_length hne, Rat.mul_comm (xs.length : Rat)] at h1
  exact Rat.le_of_mul_le_mul_right h1 hpos

theorem le_specMean_of_le {l : Rat} {xs : List Rat} (hne : xs ≠ []) (hb : ∀ y ∈ xs, l ≤ y) :
    l ≤ specMean xs := by
  have hpos := natCast_pos_of_ne_nil hne
  have h1 := le_total_of_le l xs hb
  rw [← specMean_mul_length hne, Rat.mul_comm (xs.length : Rat)] at h1
  exact Rat.le_of_mul_le_mul_right h1 hpos

/-! ### the running invariant -/

/-- Invariant of `Range` w.r.t. the values seen so far. -/
def RangeInv (r : Range) (pre : List Rat) : Prop :=
  (pre = [] ∧ r = Range.default) ∨
  (pre ≠ [] ∧ r.activated = true ∧ IsMax r.high pre ∧ IsMin r.low pre)

theorem rangeInv_step {r : Range} {pre : List Rat} (h : RangeInv r pre) (x : Rat) :
    RangeInv (r.update x) (pre ++ [x]) := by
  right
  refine ⟨by simp, ?_⟩
  rcases h with ⟨rfl, rfl⟩ | ⟨_, hact, hmax, hmin⟩
  · simp [Range.update, Range.default, IsMax, IsMin]
  · simp only [Range.update, hact, if_true]
    refine ⟨trivial, ?_, ?_⟩
    · by_cases hx : x > r.high
      · simp only [hx, if_true]
        refine ⟨by simp, ?_⟩
        intro y hy
        rcases List.mem_append.mp hy with hy | hy
        · exact Rat.le_trans (hmax.2 y hy) (Rat.le_of_lt hx)
        · simp at hy; subst hy; exact Rat.le_refl
      · simp only [hx, if_false]
        refine ⟨List.mem_append_left _ hmax.1, ?_⟩
        intro y hy
        rcases List.mem_append.mp hy with hy | hy
        · exact hmax.2 y hy
        · simp at hy; subst hy; exact Rat.not_lt.mp hx
    · by_cases hx : x < r.low
      · simp only [hx, if_true]
        refine ⟨by simp, ?_⟩
        intro y hy
        rcases List.mem_append.mp hy with hy | hy
        · exact Rat.le_trans (Rat.le_of_lt hx) (hmin.2 y hy)
        · simp at hy; subst hy; exact Rat.le_refl
      · simp only [hx, if_false]
        refine ⟨List.mem_append_left _ hmin.1, ?_⟩
        intro y hy
        rcases List.mem_append.mp hy with hy | hy
        · exact hmin.2 y hy
        · simp at hy; subst hy; exact Rat.not_lt.mp hx

/-- Division-free algebraic invariant of the summary w.r.t. the values seen so far. -/
structure Inv (s : Summary) (pre : List Rat) : Prop where
  count : s.count = (pre.length : Rat)
  sum : s.sum = total pre
  mean : s.mean * (pre.length : Rat) = total pre
  m : s.dispersion.recurrenceRelationM = sumSq pre - s.mean * total pre
  range : RangeInv s.dispersion.range pre

theorem inv_default : Inv Summary.default [] := by
  constructor <;> simp [Summary.default, Dispersion.default, total, sumSq, RangeInv] <;> grind

theorem natCast_succ_ne_zero (n : Nat) : (n : Rat) + 1 ≠ 0 := by
  have := @Rat.natCast_nonneg n
  grind

theorem natCast_succ_not_lt_one (n : Nat) : ¬ ((n : Rat) + 1 < 1) := by
  have := @Rat.natCast_nonneg n
  grind

theorem inv_step (f : Rat → Rat) {s : Summary} {pre : List Rat} (h : Inv s pre) (x : Rat) :
    Inv (s.update f x) (pre ++ [x]) := by
  obtain ⟨hc, hs, hm, hM, hr⟩ := h
  have hn := natCast_succ_ne_zero pre.length
  have hmean' : calculateMean s.mean x (s.count + 1) * ((pre.length : Rat) + 1)
      = s.mean * (pre.length : Rat) + x := by
    rw [hc]; unfold calculateMean; grind
  constructor
  · simp [Summary.update, hc, Rat.natCast_add]
  · simp only [Summary.update, hs, total_append, total]; grind
  · simp only [Summary.update, List.length_append, List.length_singleton, natCast_succ,
      total_append, total, hmean']
    grind
  · simp only [Summary.update, Dispersion.update, calculateRecurrenceRelationM, total_append,
      sumSq_append, total, sumSq]
    generalize calculateMean s.mean x (s.count + 1) = mean' at hmean'
    grind
  · simpa [Summary.update, Dispersion.update] using rangeInv_step hr x

theorem inv_foldl (f : Rat → Rat) (xs : List Rat) :
    ∀ (s : Summary) (pre : List Rat), Inv s pre → Inv (xs.foldl (Summary.update f) s) (pre ++ xs) := by
  induction xs with
  | nil => intro s pre h; simpa using h
  | cons x xs ih =>
    intro s pre h
    have := ih (s.update f x) (pre ++ [x]) (inv_step f h x)
    simpa using this

theorem inv_run (f : Rat → Rat) (xs : List Rat) : Inv (Summary.run f xs) xs := by
  simpa [Summary.run] using inv_foldl f xs Summary.default [] inv_default

/-! ### variance / std_dev fields are functions of `m` and `count` after any update -/

/-- After at least one update the `variance` and `std_dev` fields are `m/count` and
`sqrtFn |m/count|` (these two fields are overwritten by every update). -/
theorem derived_fields (f : Rat → Rat) (xs : List Rat) (x : Rat) :
    let s := Summary.run f (xs ++ [x])
    s.dispersion.variance = s.dispersion.recurrenceRelationM / s.count ∧
    s.dispersion.stdDev = f s.dispersion.variance.abs := by
  have hc := (inv_run f xs).count
  simp only [Summary.run, List.foldl_append, List.foldl_cons, List.foldl_nil]
  simp only [Summary.run] at hc
  simp only [Summary.update, Dispersion.update, calculatePopulationVariance, hc,
    natCast_succ_not_lt_one, if_false, and_self]

theorem mean_eq_specMean (f : Rat → Rat) (xs : List Rat) :
    (Summary.run f xs).mean = specMean xs := by
  have h := inv_run f xs
  cases xs with
  | nil => simp [Summary.run, Summary.default, specMean, total, Rat.div_def]
  | cons x xs =>
    have hne : x :: xs ≠ [] := by simp
    have hpos := natCast_pos_of_ne_nil hne
    have h1 := h.mean
    have h2 := specMean_mul_length hne
    have : (Summary.run f (x :: xs)).mean * ((x :: xs).length : Rat)
        = specMean (x :: xs) * ((x :: xs).length : Rat) := by rw [h1, h2]
    exact mul_right_cancel_of_ne (by grind) this

/-- Welford's `m` equals the sum of squared deviations from the whole-dataset mean. -/
theorem m_eq_specM (f : Rat → Rat) (xs : List Rat) :
    (Summary.run f xs).dispersion.recurrenceRelationM = specM xs := by
  have h := inv_run f xs
  cases xs with
  | nil => simp [Summary.run, Summary.default, Dispersion.default, specM, sqDev]
  | cons x xs =>
    have hne : x :: xs ≠ [] := by simp
    have hpos := natCast_pos_of_ne_nil hne
    have hmean := mean_eq_specMean f (x :: xs)
    rw [h.m, specM, sqDev_expand, hmean]
    have h2 := specMean_mul_length hne
    grind

/-- every non-empty list is some `ys ++ [y]` -/
theorem exists_snoc : ∀ (xs : List Rat), xs ≠ [] → ∃ ys y, xs = ys ++ [y]
  | [], h => absurd rfl h
  | [x], _ => ⟨[], x, rfl⟩
  | x :: y :: ys, _ => by
    obtain ⟨zs, z, hz⟩ := exists_snoc (y :: ys) (by simp)
    exact ⟨x :: zs, z, by rw [hz]; rfl⟩

theorem variance_eq_specVariance (f : Rat → Rat) (xs : List Rat) :
    (Summary.run f xs).dispersion.variance = specVariance xs := by
  cases hx : xs with
  | nil => simp [Summary.run, Summary.default, Dispersion.default, specVariance, specM, sqDev, Rat.div_def]
  | cons a as =>
    obtain ⟨ys, y, hy⟩ := exists_snoc (a :: as) (by simp)
    have h1 := (derived_fields f ys y).1
    rw [← hy] at h1
    rw [h1, m_eq_specM, (inv_run f (a :: as)).count, specVariance]

theorem stdDev_eq (f : Rat → Rat) (xs : List Rat) (hne : xs ≠ []) :
    (Summary.run f xs).dispersion.stdDev = f (specVariance xs) := by
  obtain ⟨ys, y, hy⟩ := exists_snoc xs hne
  have h2 := (derived_fields f ys y).2
  rw [← hy] at h2
  rw [h2, variance_eq_specVariance, Rat.abs_of_nonneg (specVariance_nonneg xs)]

theorem range_eq (f : Rat → Rat) (xs : List Rat) :
    (Summary.run f xs).dispersion.range =
      { activated := !xs.isEmpty, high := specHigh xs, low := specLow xs } := by
  have h := (inv_run f xs).range
  rcases h with ⟨rfl, hr⟩ | ⟨hne, hact, hmax, hmin⟩
  · rw [hr]; simp [Range.default, specHigh, specLow]
  · have e1 := hmax.unique (specHigh_isMax xs hne)
    have e2 := hmin.unique (specLow_isMin xs hne)
    have e3 : (!xs.isEmpty) = true := by cases xs <;> simp_all
    cases hr : (Summary.run f xs).dispersion.range with
    | mk a hi lo =>
      rw [hr] at hact e1 e2
      simp only at hact e1 e2
      rw [hact, e1, e2, e3]

/-- The running summary is exactly the whole-dataset summary. -/
theorem run_eq_specSummary (f : Rat → Rat) (xs : List Rat) :
    Summary.run f xs = specSummary f xs := by
  have h := inv_run f xs
  have hc := h.count
  have hs := h.sum
  have hm := mean_eq_specMean f xs
  have hM := m_eq_specM f xs
  have hv := variance_eq_specVariance f xs
  have hr := range_eq f xs
  have hsd : (Summary.run f xs).dispersion.stdDev
      = if xs.isEmpty then 0 else f (specVariance xs) := by
    cases xs with
    | nil => simp [Summary.run, Summary.default, Dispersion.default]
    | cons a as => simpa using stdDev_eq f (a :: as) (by simp)
  cases hrun : Summary.run f xs with
  | mk c su me d =>
    cases d with
    | mk r m v sd =>
      rw [hrun] at hc hs hm hM hv hr hsd
      simp only at hc hs hm hM hv hr hsd
      simp only [specSummary, hc, hs, hm, hM, hv, hr, hsd]

theorem specHigh_perm {xs ys : List Rat} (h : xs.Perm ys) : specHigh xs = specHigh ys := by
  cases xs with
  | nil => rw [h.nil_eq]
  | cons a as =>
    have hne : ys ≠ [] := by
      intro e; subst e; exact absurd h.eq_nil (by simp)
    exact ((specHigh_isMax (a :: as) (by simp)).perm h).unique (specHigh_isMax ys hne)

theorem specLow_perm {xs ys : List Rat} (h : xs.Perm ys) : specLow xs = specLow ys := by
  cases xs with
  | nil => rw [h.nil_eq]
  | cons a as =>
    have hne : ys ≠ [] := by
      intro e; subst e; exact absurd h.eq_nil (by simp)
    exact ((specLow_isMin (a :: as) (by simp)).perm h).unique (specLow_isMin ys hne)

theorem specSummary_perm (f : Rat → Rat) {xs ys : List Rat} (h : xs.Perm ys) :
    specSummary f xs = specSummary f ys := by
  have hl : xs.length = ys.length := h.length_eq
  have ht := total_perm h
  have hmean : specMean xs = specMean ys := by simp [specMean, hl, ht]
  have hM : specM xs = specM ys := by simp [specM, hmean, sqDev_perm _ h]
  have hv : specVariance xs = specVariance ys := by simp [specVariance, hM, hl]
  have he : xs.isEmpty = ys.isEmpty := by
    cases xs <;> cases ys <;> simp_all
  simp only [specSummary, hl, ht, hmean, hM, hv, he, specHigh_perm h, specLow_perm h]

/-! ### the drivers' square root -/

theorem isqrtGo_spec (k n : Nat) : ∀ a, a * a ≤ n → n < (a + 2 ^ (k + 1)) * (a + 2 ^ (k + 1)) →
    isqrtGo k n a * isqrtGo k n a ≤ n ∧ n < (isqrtGo k n a + 1) * (isqrtGo k n a + 1) := by
  induction k with
  | zero =>
    intro a h1 h2
    simp only [isqrtGo]
    split
    · next h => exact ⟨h, by simpa [Nat.add_assoc] using h2⟩
    · next h => exact ⟨h1, by omega⟩
  | succ k ih =>
    intro a h1 h2
    simp only [isqrtGo]
    split
    · next h =>
      apply ih _ h
      have : a + 2 ^ (k + 1) + 2 ^ (k + 1) = a + 2 ^ (k + 1 + 1) := by
        rw [Nat.pow_succ 2 (k+1)]; omega
      rw [this]; exact h2
    · next h => exact ih _ h1 (by omega)

theorem isqrt_spec (n : Nat) : isqrt n * isqrt n ≤ n ∧ n < (isqrt n + 1) * (isqrt n + 1) := by
  apply isqrtGo_spec _ _ 0 (by simp)
  have h := @Nat.lt_log2_self n
  have h1 : 1 ≤ 2 ^ (n.log2 + 1) := Nat.one_le_two_pow
  simp only [Nat.zero_add]
  calc n < 2 ^ (n.log2 + 1) := h
    _ = 2 ^ (n.log2 + 1) * 1 := by simp
    _ ≤ 2 ^ (n.log2 + 1) * 2 ^ (n.log2 + 1) := Nat.mul_le_mul_left _ h1

theorem sqrtScale_pos : (0 : Rat) < (sqrtScale : Rat) :=
  Rat.natCast_pos.mpr (by decide)

theorem sqrtApprox_spec (r : Rat) (hr : 0 ≤ r) :
    0 ≤ sqrtApprox r ∧ sqrtApprox r * sqrtApprox r ≤ r ∧
    r < (sqrtApprox r + 1 / (sqrtScale : Rat)) * (sqrtApprox r + 1 / (sqrtScale : Rat)) := by
  have hS := sqrtScale_pos
  have hSne : (sqrtScale : Rat) ≠ 0 := by grind
  have hSS : (0 : Rat) < (sqrtScale : Rat) * (sqrtScale : Rat) := Rat.mul_pos hS hS
  have hinv : (0:Rat) < 1 / (sqrtScale : Rat) := by
    rw [Rat.div_def, Rat.one_mul]; exact Rat.inv_pos.mpr hS
  unfold sqrtApprox
  split
  · next h0 =>
    have : r = 0 := Rat.le_antisymm h0 hr
    subst this
    refine ⟨Rat.le_refl, by grind, ?_⟩
    have := Rat.mul_pos hinv hinv
    grind
  · next hpos =>
    simp only
    generalize ht : r * ((sqrtScale : Rat) * (sqrtScale : Rat)) = t
    have ht0 : 0 ≤ t := by rw [← ht]; exact Rat.mul_nonneg hr (Rat.le_of_lt hSS)
    have hf0 : 0 ≤ t.floor := Rat.le_floor_iff.mpr (by simpa using ht0)
    generalize hN : t.floor.toNat = N
    have hNf : (N : Int) = t.floor := by rw [← hN]; exact Int.toNat_of_nonneg hf0
    have hle : (N : Rat) ≤ t := by
      have := Rat.floor_le t
      rw [← hNf, Rat.intCast_natCast] at this; exact this
    have hlt : t < (N : Rat) + 1 := by
      have := Rat.lt_floor_add_one t
      rw [← hNf, Rat.intCast_add, Rat.intCast_natCast] at this; exact this
    obtain ⟨h1, h2⟩ := isqrt_spec N
    generalize isqrt N = k at h1 h2
    have h1' : (k : Rat) * (k : Rat) ≤ (N : Rat) := by
      rw [← Rat.natCast_mul]; exact Rat.natCast_le_natCast.mpr h1
    have h2' : (N : Rat) + 1 ≤ ((k : Rat) + 1) * ((k : Rat) + 1) := by
      have : N + 1 ≤ (k + 1) * (k + 1) := h2
      have := (Rat.natCast_le_natCast).mpr this
      simpa [Rat.natCast_add, Rat.natCast_mul] using this
    have hq : (k : Rat) / (sqrtScale : Rat) * (sqrtScale : Rat) = k := Rat.div_mul_cancel hSne
    have hone : 1 / (sqrtScale : Rat) * (sqrtScale : Rat) = 1 := Rat.div_mul_cancel hSne
    generalize (k : Rat) / (sqrtScale : Rat) = q at hq
    generalize 1 / (sqrtScale : Rat) = e at hone hinv
    generalize (sqrtScale : Rat) = S at *
    refine ⟨?_, ?_, ?_⟩
    · have hk : (0:Rat) ≤ (k:Rat) := Rat.natCast_nonneg
      rw [← hq] at hk
      have : 0 * S ≤ q * S := by simpa using hk
      exact Rat.le_of_mul_le_mul_right this hS
    · have : q * q * (S * S) ≤ r * (S * S) := by
        have e1 : q * q * (S * S) = (k:Rat) * (k:Rat) := by rw [← hq]; grind
        rw [e1, ht]; exact Rat.le_trans h1' hle
      exact Rat.le_of_mul_le_mul_right this hSS
    · have : r * (S * S) < (q + e) * (q + e) * (S * S) := by
        have e1 : (q + e) * (q + e) * (S * S) = ((k:Rat) + 1) * ((k:Rat) + 1) := by
          rw [← hq, ← hone]; grind
        rw [e1, ht]; grind
      exact Rat.lt_of_mul_lt_mul_right this (Rat.le_of_lt hSS)

end BarterModel.DataSet
