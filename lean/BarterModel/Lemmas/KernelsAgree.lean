import BarterModel.Lemmas.KernelsAgree.Welford
import BarterModel.Lemmas.KernelsAgree.Position
import BarterModel.Lemmas.KernelsAgree.Book
import BarterModel.Lemmas.KernelsAgree.Metric
/-!
# Kernels tied to the source by translation

`tools/rust2lean.py` regenerates `BarterModel/Generated/Kernels.lean` from the CURRENT Rust source of
the pure `Decimal` arithmetic kernels; the theorems of the four modules imported here state, for
each translated function and for ALL arguments, that the generated definition equals the
hand-written model definition the property theorems are about. They are split by source group so
that a change of one kernel breaks only the proof obligations of the properties that depend on it
(each `Props/Cxx.lean` imports just its group):

| module | source | theorems | re-exported by |
|---|---|---|---|
| `KernelsAgree.Welford` | `statistic/algorithm.rs` `welford_online::*` | `calculate_mean_agrees`, `calculate_mean_agrees_drawdown`, `calculate_recurrence_relation_m_agrees`, `calculate_population_variance_agrees`, `calculate_sample_variance_form`, `welford_kernels_agree` | C17 |
| `KernelsAgree.Position` | `engine/state/position.rs` | `calculate_price_entry_average_agrees`, `approximate_remaining_exit_fees_agrees`, `calculate_pnl_unrealised_agrees`, `calculate_pnl_realised_agrees`, `abs_agrees`, `side_bijection`, `position_kernels_agree` | C02, C15 |
| `KernelsAgree.Book` | `barter-data/src/books/mod.rs` | `mid_price_agrees`, `volume_weighted_mid_price_agrees`, `volume_weighted_mid_price_agrees_l1`, `level_bijection`, `book_kernels_agree` | C05, C15 |
| `KernelsAgree.Metric` | `position.rs` `calculate_pnl_return`, `metric/win_rate.rs`, `metric/profit_factor.rs` | `calculate_pnl_return_agrees`, `win_rate_calculate_agrees`, `profit_factor_calculate_agrees`, `metric_kernels_agree` | C16 |

This file only collects them (`lake build BarterModel.Lemmas.KernelsAgree` checks all).
-/
