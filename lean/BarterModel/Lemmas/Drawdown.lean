import BarterModel.Model.Drawdown
/-! Helper lemmas for C18 (drawdowns). Core Lean only. -/
namespace BarterModel.Drawdown

/-! ### `largest` -/

theorem largest_nil : largest [] = 0 := rfl

theorem largest_concat (xs : List Rat) (x : Rat) : largest (xs ++ [x]) = max (largest xs) x := by
  simp [largest, List.foldl_append]

theorem foldl_max_ge (xs : List Rat) (a : Rat) : a ≤ xs.foldl max a := by
  induction xs generalizing a with
  | nil => simp
  | cons x xs ih =>
    simp only [List.foldl_cons]
    have := ih (max a x)
    grind

theorem largest_nonneg (xs : List Rat) : 0 ≤ largest xs := foldl_max_ge xs 0

theorem foldl_max_mem_ge (xs : List Rat) (a x : Rat) (h : x ∈ xs) : x ≤ xs.foldl max a := by
  induction xs generalizing a with
  | nil => cases h
  | cons y ys ih =>
    simp only [List.foldl_cons]
    rcases List.mem_cons.mp h with rfl | h
    · have := foldl_max_ge ys (max a x); grind
    · exact ih _ h

theorem le_largest {xs : List Rat} {x : Rat} (h : x ∈ xs) : x ≤ largest xs :=
  foldl_max_mem_ge xs 0 x h

theorem foldl_max_mem (xs : List Rat) (a : Rat) : xs.foldl max a = a ∨ xs.foldl max a ∈ xs := by
  induction xs generalizing a with
  | nil => simp
  | cons y ys ih =>
    simp only [List.foldl_cons]
    rcases ih (max a y) with h | h
    · rw [h]; simp only [List.mem_cons]; grind
    · right; exact List.mem_cons_of_mem _ h

theorem largest_eq_zero_or_mem (xs : List Rat) : largest xs = 0 ∨ largest xs ∈ xs :=
  foldl_max_mem xs 0

/-! ### one step of `DrawdownGenerator::update` on the canonical states -/

/-- generator state after the running maximum `p` followed by the non-exceeding points `seg` -/
def atPeak (p : Pt) (seg : List Pt) : Gen := ⟨some p.v, depthOf p seg, some p.t, lastT p seg⟩

theorem lastT_concat (p : Pt) (seg : List Pt) (q : Pt) : lastT p (seg ++ [q]) = q.t := by
  simp [lastT]

theorem default_update (p : Pt) : Gen.default.update p = (atPeak p [], none) := by
  simp [Gen.default, Gen.update, atPeak, depthOf, lastT, largest]

theorem init_eq (p : Pt) : Gen.init p = atPeak p [] := by
  simp [Gen.init, atPeak, depthOf, lastT, largest]

theorem atPeak_generate (p : Pt) (seg : List Pt) :
    (atPeak p seg).generate = ddOf p seg (lastT p seg) := rfl

theorem decline_zero_peak (v : Rat) : decline 0 v = 0 := by
  simp [decline, Rat.div_def]

theorem checkedDiv_decline (peak v : Rat) :
    checkedDiv (peak - v) peak = if peak = 0 then none else some (decline peak v) := rfl

theorem atPeak_update_le (p : Pt) (seg : List Pt) (q : Pt) (h : q.v ≤ p.v) :
    (atPeak p seg).update q = (atPeak p (seg ++ [q]), none) := by
  have hn : ¬ (p.v < q.v) := Rat.not_lt.mpr h
  have h0 : 0 ≤ depthOf p seg := largest_nonneg _
  have hc : depthOf p (seg ++ [q]) = max (depthOf p seg) (decline p.v q.v) := by
    simp [depthOf, largest_concat]
  simp only [atPeak, Gen.update, gt_iff_lt, hn, if_false, lastT_concat, checkedDiv_decline, hc]
  have hd0 : p.v = 0 → decline p.v q.v = 0 := fun hp => by rw [hp]; exact decline_zero_peak _
  generalize decline p.v q.v = dc at *
  generalize depthOf p seg = L at *
  by_cases hp : p.v = 0
  · have hd : dc = 0 := hd0 hp
    rw [if_pos hp]
    have : max L dc = L := by grind
    simp only [this]
  · rw [if_neg hp]
    simp only
    split
    · have : max L dc = dc := by grind
      simp only [this]
    · have : max L dc = L := by grind
      simp only [this]

theorem atPeak_update_gt (p : Pt) (seg : List Pt) (q : Pt) (h : p.v < q.v) :
    (atPeak p seg).update q = (atPeak q [], ddOf p seg q.t) := by
  simp only [atPeak, Gen.update, gt_iff_lt, h, if_true]
  rfl


/-! ### the generator over a whole curve refines `decompose` -/

theorem decompose_cons (p : Pt) (rest : List Pt) :
    decompose (p :: rest) =
       match (rest.dropWhile (fun q => q.v ≤ p.v)).head? with
       | none => ([], ddOf p (rest.takeWhile (fun q => q.v ≤ p.v)) (lastT p (rest.takeWhile (fun q => q.v ≤ p.v))))
       | some q =>
         ((ddOf p (rest.takeWhile (fun q => q.v ≤ p.v)) q.t).toList ++ (decompose (rest.dropWhile (fun q => q.v ≤ p.v))).1,
          (decompose (rest.dropWhile (fun q => q.v ≤ p.v))).2) := by
  rw [decompose]
  generalize (List.dropWhile (fun q => decide (q.v ≤ p.v)) rest).head? = o
  cases o <;> rfl

theorem takeWhile_all {α} (f : α → Bool) (l : List α) (h : ∀ x ∈ l, f x = true) : l.takeWhile f = l := by
  induction l with
  | nil => rfl
  | cons a l ih =>
    rw [List.takeWhile_cons_of_pos (h a (by simp)), ih (fun x hx => h x (by simp [hx]))]

theorem dropWhile_all {α} (f : α → Bool) (l : List α) (h : ∀ x ∈ l, f x = true) : l.dropWhile f = [] := by
  induction l with
  | nil => rfl
  | cons a l ih =>
    rw [List.dropWhile_cons_of_pos (h a (by simp)), ih (fun x hx => h x (by simp [hx]))]

theorem decompose_all_le (p : Pt) (seg : List Pt) (h : ∀ x ∈ seg, x.v ≤ p.v) :
    decompose (p :: seg) = ([], ddOf p seg (lastT p seg)) := by
  have h1 : seg.takeWhile (fun q => decide (q.v ≤ p.v)) = seg :=
    takeWhile_all _ _ (by simpa using h)
  have h2 : seg.dropWhile (fun q => decide (q.v ≤ p.v)) = [] :=
    dropWhile_all _ _ (by simpa using h)
  rw [decompose_cons]
  simp only [h1, h2, List.head?_nil]

theorem decompose_exceed (p : Pt) (seg : List Pt) (q : Pt) (rest : List Pt)
    (h : ∀ x ∈ seg, x.v ≤ p.v) (hq : p.v < q.v) :
    decompose (p :: (seg ++ q :: rest)) =
      ((ddOf p seg q.t).toList ++ (decompose (q :: rest)).1, (decompose (q :: rest)).2) := by
  have hq' : ¬ (q.v ≤ p.v) := Rat.not_le.mpr hq
  have h1 : (seg ++ q :: rest).takeWhile (fun q => decide (q.v ≤ p.v)) = seg := by
    rw [List.takeWhile_append_of_pos (by simpa using h), List.takeWhile_cons_of_neg (by simpa using hq')]
    simp
  have h2 : (seg ++ q :: rest).dropWhile (fun q => decide (q.v ≤ p.v)) = q :: rest := by
    rw [List.dropWhile_append_of_pos (by simpa using h), List.dropWhile_cons_of_neg (by simpa using hq')]
  rw [decompose_cons]
  simp only [h1, h2, List.head?_cons]

theorem run_atPeak (rest : List Pt) : ∀ (p : Pt) (seg : List Pt), (∀ x ∈ seg, x.v ≤ p.v) →
    (Gen.run (atPeak p seg) rest).2 = (decompose (p :: (seg ++ rest))).1 ∧
    (Gen.run (atPeak p seg) rest).1.generate = (decompose (p :: (seg ++ rest))).2 := by
  induction rest with
  | nil =>
    intro p seg h
    simp [Gen.run, decompose_all_le p seg h, atPeak_generate]
  | cons q rest ih =>
    intro p seg h
    by_cases hq : q.v ≤ p.v
    · have := ih p (seg ++ [q]) (by
        intro x hx; rcases List.mem_append.mp hx with hx | hx
        · exact h x hx
        · simp at hx; rw [hx]; exact hq)
      simp only [Gen.run, atPeak_update_le p seg q hq, Option.toList_none, List.nil_append]
      simpa [List.append_assoc] using this
    · have hq' : p.v < q.v := Rat.not_le.mp hq
      have := ih q [] (by simp)
      simp only [Gen.run, atPeak_update_gt p seg q hq', decompose_exceed p seg q rest h hq']
      simp only [List.nil_append] at this
      simp [this]

/-! ### max -/

/-- `r` is the first deepest element of `ds` -/
def FirstMax (ds : List Drawdown) : Option Drawdown → Prop
  | none => ds = []
  | some m => ∃ as bs, ds = as ++ m :: bs ∧ (∀ a ∈ as, a.value.abs < m.value.abs) ∧
      (∀ b ∈ bs, b.value.abs ≤ m.value.abs)

theorem firstMax_step (pre : List Drawdown) (s : MaxGen) (x : Drawdown) (h : FirstMax pre s.max) :
    FirstMax (pre ++ [x]) (s.update x).max := by
  unfold MaxGen.update
  cases hs : s.max with
  | none =>
    simp only [hs, FirstMax] at h ⊢
    exact ⟨[], [], by simp [h], by simp, by simp⟩
  | some m =>
    simp only [hs, FirstMax] at h ⊢
    obtain ⟨as, bs, rfl, h1, h2⟩ := h
    by_cases hx : x.value.abs > m.value.abs
    · simp only [hx, if_true]
      refine ⟨as ++ m :: bs, [], by simp, ?_, by simp⟩
      intro a ha
      rcases List.mem_append.mp ha with ha | ha
      · have := h1 a ha; grind
      · rcases List.mem_cons.mp ha with rfl | ha
        · exact hx
        · have := h2 a ha; grind
    · simp only [hx, if_false]
      refine ⟨as, bs ++ [x], by simp, h1, ?_⟩
      intro b hb
      rcases List.mem_append.mp hb with hb | hb
      · exact h2 b hb
      · simp at hb; rw [hb]; exact Rat.not_lt.mp hx

theorem firstMax_foldl (ds : List Drawdown) : ∀ (pre : List Drawdown) (s : MaxGen), FirstMax pre s.max →
    FirstMax (pre ++ ds) (ds.foldl MaxGen.update s).max := by
  induction ds with
  | nil => intro pre s h; simpa using h
  | cons x ds ih =>
    intro pre s h
    have := ih (pre ++ [x]) (s.update x) (firstMax_step pre s x h)
    simpa [List.append_assoc] using this

theorem specMax_of_firstMax (ds : List Drawdown) (r : Option Drawdown) (h : FirstMax ds r) :
    specMax ds = r := by
  cases r with
  | none => simp only [FirstMax] at h; subst h; rfl
  | some m =>
    obtain ⟨as, bs, rfl, h1, h2⟩ := h
    unfold specMax
    rw [List.find?_eq_some_iff_append]
    refine ⟨?_, as, bs, rfl, ?_⟩
    · simp only [List.all_eq_true, decide_eq_true_eq]
      intro d hd
      rcases List.mem_append.mp hd with hd | hd
      · exact Rat.le_of_lt (h1 d hd)
      · rcases List.mem_cons.mp hd with rfl | hd
        · exact Rat.le_refl
        · exact h2 d hd
    · intro a ha
      simp only [Bool.not_eq_eq_eq_not, Bool.not_true, List.all_eq_false, decide_eq_true_eq]
      exact ⟨m, by simp, Rat.not_le.mpr (h1 a ha)⟩

theorem maxFold_eq_specMax (ds : List Drawdown) :
    (ds.foldl MaxGen.update MaxGen.default).generate = specMax ds := by
  have := firstMax_foldl ds [] MaxGen.default rfl
  simp only [List.nil_append] at this
  exact (specMax_of_firstMax ds _ this).symm

/-! ### mean -/

theorem meanFold_some (ds : List Drawdown) : ∀ (k : Nat) (m : Rat) (ms : Int), 0 < k →
    ds.foldl MeanGen.update ⟨k, some ⟨m, ms⟩⟩ =
      ⟨k + ds.length,
       some ⟨((k : Rat) * m + (ds.map (·.value)).sum) / ((k + ds.length : Nat) : Rat),
             (ds.foldl stepMs (ms, k)).1⟩⟩ := by
  induction ds with
  | nil =>
    intro k m ms hk
    have : (k : Rat) ≠ 0 := by
      have := (Rat.natCast_pos (a := k)).mpr hk; grind
    simp only [List.foldl_nil, List.map_nil, List.sum_nil, List.length_nil, Nat.add_zero]
    congr 3
    grind
  | cons x ds ih =>
    intro k m ms hk
    simp only [List.foldl_cons, MeanGen.update, List.map_cons, List.sum_cons, List.length_cons]
    rw [ih (k + 1) _ _ (by omega)]
    have hk1 : ((k + 1 : Nat) : Rat) ≠ 0 := by
      have := (Rat.natCast_pos (a := k + 1)).mpr (by omega); grind
    have hc : ((k + 1 : Nat) : Rat) = (k : Rat) + 1 := by simp [Rat.natCast_add]
    have e1 : k + 1 + ds.length = k + (ds.length + 1) := by omega
    simp only [stepMs, welfordMean, welfordMeanInt, e1]
    congr 3
    rw [hc] at hk1 ⊢
    grind

theorem stepMs_count (ds : List Drawdown) (acc : Int × Nat) :
    (ds.foldl stepMs acc).2 = acc.2 + ds.length := by
  induction ds generalizing acc with
  | nil => simp
  | cons x ds ih => simp only [List.foldl_cons, ih, stepMs, List.length_cons]; omega

theorem tdiv_err (x : Int) (k : Nat) :
    ((k : Int) + 1) * Int.tdiv x ((k + 1 : Nat) : Int) = x - Int.tmod x ((k + 1 : Nat) : Int) ∧
    -(k : Int) ≤ Int.tmod x ((k + 1 : Nat) : Int) ∧ Int.tmod x ((k + 1 : Nat) : Int) ≤ k := by
  have h1 := Int.mul_tdiv_add_tmod x ((k + 1 : Nat) : Int)
  have h2 := Int.tmod_lt_of_pos x (b := ((k + 1 : Nat) : Int)) (by omega)
  have h3 := Int.lt_tmod_of_pos x (b := ((k + 1 : Nat) : Int)) (by omega)
  refine ⟨?_, by omega, by omega⟩
  have : ((k + 1 : Nat) : Int) = (k : Int) + 1 := by omega
  rw [this] at h1 ⊢
  omega

/-- `2·|k·mean − S| ≤ k·(k−1)` is preserved by the integer incremental average. -/
theorem stepMs_bound (ds : List Drawdown) : ∀ (ms : Int) (k : Nat) (S : Int), 0 < k →
    0 ≤ 2 * (k * ms - S) + (k : Int) * (k - 1) → 2 * (k * ms - S) ≤ (k : Int) * (k - 1) →
    let r := ds.foldl stepMs (ms, k)
    0 ≤ 2 * (r.2 * r.1 - (S + (ds.map (·.duration)).sum)) + (r.2 : Int) * (r.2 - 1) ∧
    2 * (r.2 * r.1 - (S + (ds.map (·.duration)).sum)) ≤ (r.2 : Int) * (r.2 - 1) := by
  induction ds with
  | nil => intro ms k S hk h1 h2; simp; omega
  | cons x ds ih =>
    intro ms k S hk h1 h2
    simp only [List.foldl_cons, List.map_cons, List.sum_cons]
    obtain ⟨e1, e2, e3⟩ := tdiv_err (x.duration - ms) k
    have := ih (ms + Int.tdiv (x.duration - ms) ((k + 1 : Nat) : Int)) (k + 1) (S + x.duration) (by omega)
      (by
        have : ((k + 1 : Nat) : Int) = (k : Int) + 1 := by omega
        rw [this] at e1 e2 e3 ⊢
        grind)
      (by
        have : ((k + 1 : Nat) : Int) = (k : Int) + 1 := by omega
        rw [this] at e1 e2 e3 ⊢
        grind)
    simpa [stepMs, Int.add_assoc] using this

/-! ### assembling: sheets -/

theorem meanFold_eq_specMean (ds : List Drawdown) :
    ds.foldl MeanGen.update MeanGen.default = ⟨ds.length, specMean ds⟩ := by
  cases ds with
  | nil => rfl
  | cons d ds =>
    have h0 : MeanGen.default.update d = ⟨1, some ⟨d.value, d.duration⟩⟩ := rfl
    rw [List.foldl_cons, h0, meanFold_some ds 1 d.value d.duration (by omega)]
    have e : 1 + ds.length = ds.length + 1 := by omega
    simp only [specMean, avgDurationMs, avgDepth, List.map_cons, List.sum_cons, List.length_cons, e]
    congr 3
    have : ((1 : Nat) : Rat) = 1 := rfl
    rw [this]; grind

theorem sheet_run (pts : List Pt) : ∀ s : Sheet, Sheet.run s pts =
    (⟨(Gen.run s.gen pts).1, (Gen.run s.gen pts).2.foldl MeanGen.update s.mean,
      (Gen.run s.gen pts).2.foldl MaxGen.update s.max⟩, (Gen.run s.gen pts).2) := by
  induction pts with
  | nil => intro s; rfl
  | cons p ps ih =>
    intro s
    simp only [Sheet.run, Sheet.update, Gen.run]
    cases h : (s.gen.update p).2 with
    | none => simp [ih]
    | some d => simp [ih]

theorem sheet_run_append (a b : List Pt) (s : Sheet) :
    Sheet.run s (a ++ b) =
      ((Sheet.run (Sheet.run s a).1 b).1, (Sheet.run s a).2 ++ (Sheet.run (Sheet.run s a).1 b).2) := by
  induction a generalizing s with
  | nil => simp [Sheet.run]
  | cons p ps ih =>
    simp only [List.cons_append, Sheet.run, ih, List.append_assoc]

theorem run_default (p : Pt) (rest : List Pt) :
    (Gen.run Gen.default (p :: rest)).2 = (decompose (p :: rest)).1 ∧
    (Gen.run Gen.default (p :: rest)).1.generate = (decompose (p :: rest)).2 := by
  have := run_atPeak rest p [] (by simp)
  simpa [Gen.run, default_update] using this

theorem run_init (p : Pt) (rest : List Pt) :
    (Gen.run (Gen.init p) rest).2 = (decompose (p :: rest)).1 ∧
    (Gen.run (Gen.init p) rest).1.generate = (decompose (p :: rest)).2 := by
  have := run_atPeak rest p [] (by simp)
  simpa [init_eq] using this

theorem ddOf_pos (p : Pt) (seg : List Pt) (t : Int) : ∀ d ∈ (ddOf p seg t).toList, 0 < d.value := by
  intro d hd
  unfold ddOf at hd
  have := largest_nonneg (seg.map (fun q => decline p.v q.v))
  split at hd
  · simp at hd; subst hd; simp only; unfold depthOf at *; grind
  · simp at hd

theorem run_atPeak_pos (rest : List Pt) : ∀ (p : Pt) (seg : List Pt),
    (∀ d ∈ (Gen.run (atPeak p seg) rest).2, 0 < d.value) ∧
    (∀ d ∈ (Gen.run (atPeak p seg) rest).1.generate.toList, 0 < d.value) := by
  induction rest with
  | nil => intro p seg; simp only [Gen.run, atPeak_generate]; exact ⟨by simp, ddOf_pos _ _ _⟩
  | cons q rest ih =>
    intro p seg
    by_cases hq : q.v ≤ p.v
    · simp only [Gen.run, atPeak_update_le p seg q hq, Option.toList_none, List.nil_append]
      exact ih p (seg ++ [q])
    · have hq' : p.v < q.v := Rat.not_le.mp hq
      simp only [Gen.run, atPeak_update_gt p seg q hq']
      refine ⟨?_, (ih q []).2⟩
      intro d hd
      rcases List.mem_append.mp hd with hd | hd
      · exact ddOf_pos _ _ _ d hd
      · exact (ih q []).1 d hd

theorem pnlCurve_run (ps : List (Int × Rat)) : ∀ s : InstrSheet,
    InstrSheet.run s ps =
      (⟨(pnlCurve s.pnlRaw ps).foldl (fun _ p => p.v) s.pnlRaw, (Sheet.run s.sheet (pnlCurve s.pnlRaw ps)).1⟩,
       (Sheet.run s.sheet (pnlCurve s.pnlRaw ps)).2) := by
  induction ps with
  | nil => intro s; rfl
  | cons x ps ih =>
    intro s
    obtain ⟨t, d⟩ := x
    simp only [InstrSheet.run, InstrSheet.update, pnlCurve, Sheet.run, List.foldl_cons, ih]

/-! ### what `depthOf` means under a positive running maximum -/

theorem decline_nonneg {p v : Rat} (hp : 0 < p) (hv : v ≤ p) : 0 ≤ decline p v := by
  unfold decline
  rw [Rat.div_def]
  exact Rat.mul_nonneg (by grind) (Rat.le_of_lt (Rat.inv_pos.mpr hp))

theorem decline_pos_iff {p v : Rat} (hp : 0 < p) : 0 < decline p v ↔ v < p := by
  unfold decline
  rw [Rat.lt_div_iff hp]
  grind

theorem decline_le_iff {p v w : Rat} (hp : 0 < p) : decline p v ≤ decline p w ↔ w ≤ v := by
  unfold decline
  constructor
  · intro h
    apply Rat.not_lt.mp
    intro hlt
    have : (p - w) / p < (p - v) / p := by
      rw [Rat.div_lt_iff hp, Rat.div_def, Rat.mul_assoc, Rat.inv_mul_cancel _ (by grind)]
      grind
    grind
  · intro h
    apply Rat.not_lt.mp
    intro hlt
    rw [Rat.div_lt_iff hp, Rat.div_def, Rat.mul_assoc, Rat.inv_mul_cancel _ (by grind)] at hlt
    grind

theorem depthOf_ne_zero_iff (p : Pt) (seg : List Pt) (hp : 0 < p.v) (h : ∀ q ∈ seg, q.v ≤ p.v) :
    depthOf p seg ≠ 0 ↔ ∃ q ∈ seg, q.v < p.v := by
  constructor
  · intro hne
    rcases largest_eq_zero_or_mem (seg.map (fun q => decline p.v q.v)) with h0 | hm
    · exact absurd h0 hne
    · obtain ⟨q, hq, e⟩ := List.mem_map.mp hm
      refine ⟨q, hq, (decline_pos_iff hp).mp ?_⟩
      have h1 := decline_nonneg hp (h q hq)
      have : decline p.v q.v ≠ 0 := by rw [e]; exact hne
      grind
  · rintro ⟨q, hq, hlt⟩
    have h1 := (decline_pos_iff hp).mpr hlt
    have h2 : decline p.v q.v ≤ depthOf p seg :=
      le_largest (List.mem_map.mpr ⟨q, hq, rfl⟩)
    grind

end BarterModel.Drawdown
