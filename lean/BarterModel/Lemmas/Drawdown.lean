import BarterModel.Model.Drawdown
namespace BarterModel.Drawdown

end BarterModel.Drawdown
