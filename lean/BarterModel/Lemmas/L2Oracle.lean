import BarterModel.Lemmas.L2PipelinePartial
/-!
The executable oracle of C06E (`Oracle.frame`, what `drv_c06e spec` runs per frame) against the
specification of the pipeline (review of the sub-check theorems, `audit/sub/report_A.md` C06E-2): over the
frames of one live connection the oracle's `live` flag, its count of notices and its count of handler
calls are those the specification determines from the connection's items.
-/
namespace BarterModel.L2Pipeline
open BarterModel.Book BarterModel.BinanceL2 BarterModel.ExStream

/-- the oracle's instruments mirror the transformer, subscription by subscription: the same
subscriptions are known, and the ids the oracle holds are the sequencer's -/
def Tracks (insts : List OInst) (t : Transformer) : Prop :=
  ∀ a, match t.instrumentMap.lookup a, insts.find? (fun i => i.sub == a) with
    | none, none => True
    | some im, some i => i.inst = ⟨im.sequencer.updatesProcessed, im.sequencer.lastUpdateId⟩
    | _, _ => False

theorem find_map_sub (insts : List OInst) (a b : Nat) (g : OInst → OInst) (hg : ∀ j, (g j).sub = j.sub) :
    (insts.map fun j => if j.sub == a then g j else j).find? (fun i => i.sub == b) =
      if b = a then (insts.find? (fun i => i.sub == b)).map g else insts.find? (fun i => i.sub == b) := by
  induction insts with
  | nil => simp
  | cons j js ih =>
    rw [List.map_cons, List.find?_cons, List.find?_cons, ih]
    by_cases hja : j.sub = a
    · have h1 : (j.sub == a) = true := by simpa using hja
      rw [h1, if_pos rfl, hg]
      by_cases hjb : j.sub = b
      · have h2 : (j.sub == b) = true := by simpa using hjb
        have hba : b = a := hjb.symm.trans hja
        simp [h1, h2, hba]
      · have h2 : (j.sub == b) = false := by simpa using hjb
        simp [h2]
    · have h1 : (j.sub == a) = false := by simpa using hja
      rw [h1, if_neg (by simp)]
      by_cases hjb : j.sub = b
      · have h2 : (j.sub == b) = true := by simpa using hjb
        have hba : ¬ b = a := fun h => hja (hjb.trans h)
        simp [h2, hba]
      · have h2 : (j.sub == b) = false := by simpa using hjb
        simp [h2]

/-- the oracle's classification of a frame is the parser's (`Props.C06E.frameKind_agrees`) -/
theorem frameKind_parse (de : De Update) (f : Frame) :
    match frameKind de f with
    | .skip => ExStream.parse de f = none
    | .failure => ∃ e, ExStream.parse de f = some (.error e)
    | .update m => ExStream.parse de f = some (.ok m) := by
  cases f with
  | error e => simp [frameKind, disposition, ExStream.parse]
  | ok w =>
    cases w with
    | text t => cases h : de.text t <;> simp [frameKind, ExStream.parse, processText, h]
    | binary b => cases h : de.binary b <;> simp [frameKind, ExStream.parse, processBinary, h]
    | ping p => simp [frameKind, disposition, ExStream.parse, processPing]
    | pong p => simp [frameKind, disposition, ExStream.parse, processPong]
    | close c => simp [frameKind, disposition, ExStream.parse, processCloseFrame]
    | frame fr => simp [frameKind, disposition, ExStream.parse, processFrame]

/-- what one frame does to a live, unblocked oracle that tracks the transformer `t`, next to what the
frame contributes to the connection's items: either the contribution holds no terminal error — the
oracle stays live, still tracks the transformer, has received no notice and exactly the contribution's
errors — or the contribution IS one terminal error — the oracle is told: not live, one more notice. -/
theorem oracle_frame_sim (cfg : Config) (o : Oracle) (t : Transformer) (f : Frame)
    (hl : o.live = true) (hb : o.blocked = false) (hr : o.rules = cfg.rules) (ht : Tracks o.insts t) :
    (o.frame (frameKind cfg.de f)).blocked = false ∧ (o.frame (frameKind cfg.de f)).rules = cfg.rules ∧
    (o.frame (frameKind cfg.de f)).fin = o.fin ∧
    ((hasTerminalItem (contribution cfg.params t f).2 = false ∧
        deliveredItems (contribution cfg.params t f).2 = (contribution cfg.params t f).2 ∧
        (o.frame (frameKind cfg.de f)).live = true ∧
        Tracks (o.frame (frameKind cfg.de f)).insts (contribution cfg.params t f).1 ∧
        (o.frame (frameKind cfg.de f)).notices = o.notices ∧
        (o.frame (frameKind cfg.de f)).errors = o.errors + (itemErrors (contribution cfg.params t f).2).length) ∨
      (hasTerminalItem (contribution cfg.params t f).2 = true ∧
        deliveredItems (contribution cfg.params t f).2 = [] ∧
        (o.frame (frameKind cfg.de f)).live = false ∧
        (o.frame (frameKind cfg.de f)).notices = o.notices + 1 ∧
        (o.frame (frameKind cfg.de f)).errors = o.errors)) := by
  have hk := frameKind_parse cfg.de f
  have hlive : (!o.live || o.blocked) = false := by simp [hl, hb]
  cases hfk : frameKind cfg.de f with
  | skip =>
    rw [hfk] at hk
    have hp : cfg.params.parse f = none := hk
    have hfr : o.frame .skip = o := by simp [Oracle.frame, hlive]
    have hc : contribution cfg.params t f = (t, []) := by simp only [contribution, hp]
    rw [hfr, hc]
    exact ⟨hb, hr, rfl, .inl ⟨rfl, rfl, hl, ht, rfl, rfl⟩⟩
  | failure =>
    rw [hfk] at hk
    obtain ⟨e, he⟩ := hk
    have hp : cfg.params.parse f = some (.error e) := he
    have hfr : o.frame .failure = { o with errors := o.errors + 1 } := by simp [Oracle.frame, hlive]
    have hc : contribution cfg.params t f = (t, [.error (.socket e)]) := by
      simp only [contribution, hp]; rfl
    rw [hfr, hc]
    exact ⟨hb, hr, rfl, .inl ⟨rfl, rfl, hl, ht, rfl, rfl⟩⟩
  | update m =>
    rw [hfk] at hk
    have hp : cfg.params.parse f = some (.ok m) := hk
    have hc : contribution cfg.params t f =
        ((t.transform cfg.rules m).1, (t.transform cfg.rules m).2.map ofOut) := by
      simp only [contribution, hp]; rfl
    rw [hc]
    have hta := ht m.sub
    cases hlk : t.instrumentMap.lookup m.sub with
    | none =>
      rw [hlk] at hta
      cases hfd : o.insts.find? (fun i => i.sub == m.sub) with
      | some i => rw [hfd] at hta; exact absurd hta (by simp)
      | none =>
        have hfr : o.frame (.update m) = { o with errors := o.errors + 1 } := by
          simp [Oracle.frame, hlive, hfd]
        rw [transform_unknown hlk, hfr]
        exact ⟨hb, hr, rfl, .inl ⟨rfl, rfl, hl, ht, rfl, rfl⟩⟩
    | some im =>
      rw [hlk] at hta
      cases hfd : o.insts.find? (fun i => i.sub == m.sub) with
      | none => rw [hfd] at hta; exact absurd hta (by simp)
      | some i =>
        rw [hfd] at hta
        have hinst : i.inst = ⟨im.sequencer.updatesProcessed, im.sequencer.lastUpdateId⟩ := hta
        rcases transform_known (r := cfg.rules) hlk with ⟨hs, hv⟩ | ⟨hs, he, hv⟩ | ⟨hs, he, hv⟩
        · -- stale: dropped, nothing changes
          have hstep : (i.inst.step o.rules m) = (i.inst, .ignored) := by
            rw [hr, hinst]; simp [SpecInstrument.step, hs]
          have hfr : o.frame (.update m) = o := by simp [Oracle.frame, hlive, hfd, hstep]
          rw [hv, hfr]
          refine ⟨hb, hr, rfl, .inl ⟨rfl, rfl, hl, ?_, rfl, rfl⟩⟩
          intro a
          have := ht a
          show match (setSequencer t.instrumentMap m.sub im.sequencer).lookup a,
            o.insts.find? (fun i => i.sub == a) with
            | none, none => True
            | some im, some i => i.inst = ⟨im.sequencer.updatesProcessed, im.sequencer.lastUpdateId⟩
            | _, _ => False
          rw [lookup_setSequencer]
          by_cases ha : a = m.sub
          · subst ha; simpa [hlk] using this
          · simpa [ha] using this
        · -- extends: admitted
          have hstep : (i.inst.step o.rules m) =
              (⟨im.sequencer.updatesProcessed + 1, m.lastUpdateId⟩, .extended) := by
            rw [hr, hinst]; simp [SpecInstrument.step, hs, he]
          have hfr : o.frame (.update m) =
              { o with insts := o.insts.map fun j =>
                  if j.sub == m.sub then
                    { j with inst := ⟨im.sequencer.updatesProcessed + 1, m.lastUpdateId⟩,
                             constrained := j.constrained && decide (GenuineMsg o.rules j.venue m),
                             written := (m.bids.map fun l => (Side.bids, l.price)) ++
                               (m.asks.map fun l => (Side.asks, l.price)) ++ j.written }
                  else j } := by
            simp [Oracle.frame, hlive, hfd, hstep]
          rw [hv, hfr]
          refine ⟨hb, hr, rfl, .inl ⟨rfl, rfl, hl, ?_, rfl, rfl⟩⟩
          intro a
          have := ht a
          show match (setSequencer t.instrumentMap m.sub (im.sequencer.advance cfg.rules m)).lookup a,
            (o.insts.map fun j =>
                  if j.sub == m.sub then
                    { j with inst := ⟨im.sequencer.updatesProcessed + 1, m.lastUpdateId⟩,
                             constrained := j.constrained && decide (GenuineMsg o.rules j.venue m),
                             written := (m.bids.map fun l => (Side.bids, l.price)) ++
                               (m.asks.map fun l => (Side.asks, l.price)) ++ j.written }
                  else j).find? (fun i => i.sub == a) with
            | none, none => True
            | some im, some i => i.inst = ⟨im.sequencer.updatesProcessed, im.sequencer.lastUpdateId⟩
            | _, _ => False
          rw [lookup_setSequencer, find_map_sub o.insts m.sub a
            (fun j => { j with inst := ⟨im.sequencer.updatesProcessed + 1, m.lastUpdateId⟩,
                               constrained := j.constrained && decide (GenuineMsg o.rules j.venue m),
                               written := (m.bids.map fun l => (Side.bids, l.price)) ++
                                 (m.asks.map fun l => (Side.asks, l.price)) ++ j.written })
            (fun _ => rfl)]
          by_cases ha : a = m.sub
          · subst ha
            simp only [↓reduceIte, hlk, hfd, Option.map_some]
            simp [Sequencer.advance]
          · simpa [ha] using this
        · -- breaks: the terminal error
          have hstep : (i.inst.step o.rules m) = (i.inst, .told) := by
            rw [hr, hinst]; simp [SpecInstrument.step, hs, he]
          have hfr : o.frame (.update m) = { o with live := false, notices := o.notices + 1 } := by
            simp [Oracle.frame, hlive, hfd, hstep]
          rw [hv, hfr]
          exact ⟨hb, hr, rfl, .inr ⟨rfl, rfl, rfl, rfl, rfl⟩⟩

/-- a frame on an oracle that is not live changes nothing -/
theorem oracle_frames_dead (de : De Update) (o : Oracle) (frames : List Frame) (h : o.live = false) :
    frames.foldl (fun o f => o.frame (frameKind de f)) o = o := by
  induction frames with
  | nil => rfl
  | cons f r ih =>
    simp only [List.foldl_cons]
    have : o.frame (frameKind de f) = o := by simp [Oracle.frame, h]
    rw [this]; exact ih

/-- **the oracle over the frames of one live connection**: `live` = no terminal error among the
connection's items, one notice iff there is one, and as many handler calls as there are errors among
the delivered items (everything before the first terminal error) -/
theorem oracle_frames_sim (cfg : Config) (o : Oracle) (t : Transformer) (frames : List Frame)
    (hl : o.live = true) (hb : o.blocked = false) (hr : o.rules = cfg.rules) (ht : Tracks o.insts t) :
    (frames.foldl (fun o f => o.frame (frameKind cfg.de f)) o).blocked = false ∧
    (frames.foldl (fun o f => o.frame (frameKind cfg.de f)) o).rules = cfg.rules ∧
    (frames.foldl (fun o f => o.frame (frameKind cfg.de f)) o).fin = o.fin ∧
    (frames.foldl (fun o f => o.frame (frameKind cfg.de f)) o).live =
      !hasTerminalItem (specOut cfg.params t frames) ∧
    (frames.foldl (fun o f => o.frame (frameKind cfg.de f)) o).notices =
      o.notices + (if hasTerminalItem (specOut cfg.params t frames) then 1 else 0) ∧
    (frames.foldl (fun o f => o.frame (frameKind cfg.de f)) o).errors =
      o.errors + (itemErrors (deliveredItems (specOut cfg.params t frames))).length := by
  induction frames generalizing o t with
  | nil => simp [specOut, hasTerminalItem, deliveredItems, itemErrors, hl, hb, hr]
  | cons f r ih =>
    simp only [List.foldl_cons, specOut]
    obtain ⟨h1, h2, h3, hcase⟩ := oracle_frame_sim cfg o t f hl hb hr ht
    rcases hcase with ⟨hnt, hdel, hl', ht', hn', he'⟩ | ⟨hterm, hdel, hl', hn', he'⟩
    · obtain ⟨i1, i2, i3, i4, i5, i6⟩ := ih (o.frame (frameKind cfg.de f)) (contribution cfg.params t f).1 hl' h1 h2 ht'
      refine ⟨i1, i2, i3.trans h3, ?_, ?_, ?_⟩
      · simp [i4, hasTerminalItem_append, hnt]
      · simp [i5, hn', hasTerminalItem_append, hnt]
      · rw [i6, he', deliveredItems_append, hnt, hdel, itemErrors_append, List.length_append]
        simp only [Bool.false_eq_true, ↓reduceIte]
        omega
    · rw [oracle_frames_dead cfg.de _ r hl']
      refine ⟨h1, h2, h3, ?_, ?_, ?_⟩
      · simp [hl', hasTerminalItem_append, hterm]
      · simp [hn', hasTerminalItem_append, hterm]
      · rw [he', deliveredItems_append, hterm, hdel]; simp [itemErrors]

/-- lists built from the same instruments track each other -/
theorem tracks_map (l : List OInst) (k : OInst → Meta) (h : OInst → OInst) (hsub : ∀ i, (h i).sub = i.sub)
    (hrel : ∀ i ∈ l, (h i).inst = ⟨(k i).sequencer.updatesProcessed, (k i).sequencer.lastUpdateId⟩) :
    Tracks (l.map h) ⟨l.map fun i => (i.sub, k i)⟩ := by
  intro a
  induction l with
  | nil => simp
  | cons j js ih =>
    simp only [List.map_cons, List.lookup, List.find?_cons, hsub]
    by_cases hja : j.sub = a
    · have h1 : (a == j.sub) = true := by simpa using hja.symm
      have h2 : (j.sub == a) = true := by simpa using hja
      simp only [h1, h2]
      exact hrel j (by simp)
    · have h1 : (a == j.sub) = false := by simpa using (fun h => hja h.symm)
      have h2 : (j.sub == a) = false := by simpa using hja
      simp only [h1, h2]
      exact ih (fun i hi => hrel i (by simp [hi]))

/-- the fields of an unblocked oracle after an optional `eos` -/
theorem oracle_eos_fields (O : Oracle) (e : Bool) (hb : O.blocked = false) :
    (if e then O.eos else O).fin = O.fin ∧ (if e then O.eos else O).blocked = false ∧
    (if e then O.eos else O).live = (O.live && !e) ∧
    (if e then O.eos else O).notices = O.notices + (if O.live && e then 1 else 0) ∧
    (if e then O.eos else O).errors = O.errors := by
  cases e <;> cases hl : O.live <;> simp [Oracle.eos, hl, hb]

/-- the oracle fed one connection's input in the order the ops arrive: `open`, the frames, `eos` -/
def Oracle.conn (de : De Update) (o : Oracle) (c : ConnInput) : Oracle :=
  let o1 := o.openConn c.snapshots (c.buffered.map fun w => frameKind de (.ok w))
  let o2 := c.frames.foldl (fun o f => o.frame (frameKind de f)) o1
  if c.ended then o2.eos else o2

/-- **the oracle over one connection that comes up** (nothing buffered; the oracle is not live, not
blocked, its first `init` has not failed, and its instruments are the configured subscriptions): the
connection is live afterwards iff it is not over, the consumer has received one more notice iff it is
over, and the handler as many calls as there are errors among the delivered items — the terms
`specStream` / `specHandled` add for this connection. -/
theorem oracle_conn_sim (cfg : Config) (o : Oracle) (c : ConnInput) (t : Transformer)
    (hl : o.live = false) (hb : o.blocked = false) (hf : o.fin ≠ .initError) (hr : o.rules = cfg.rules)
    (hm : cfg.instrumentMap = o.insts.map fun i => (i.sub, i.key))
    (hnb : c.buffered = []) (hi : Transformer.init cfg.instrumentMap c.snapshots = .ok t) :
    (Oracle.conn cfg.de o c).fin = .pending ∧ (Oracle.conn cfg.de o c).blocked = false ∧
    (Oracle.conn cfg.de o c).live = !connOver (c.snapshots.map .ok ++ specOut cfg.params t c.frames) c.ended ∧
    (Oracle.conn cfg.de o c).notices =
      o.notices + (if connOver (c.snapshots.map .ok ++ specOut cfg.params t c.frames) c.ended then 1 else 0) ∧
    (Oracle.conn cfg.de o c).errors =
      o.errors + (itemErrors (deliveredItems (c.snapshots.map .ok ++ specOut cfg.params t c.frames))).length := by
  obtain ⟨hmap, hsome⟩ := init_ok cfg.instrumentMap c.snapshots t hi
  have hall : (o.insts.all fun i => (firstSnapshot c.snapshots i.key).isSome) = true := by
    rw [List.all_eq_true]
    intro i hi'
    exact hsome (i.sub, i.key) (by rw [hm]; exact List.mem_map.mpr ⟨i, hi', rfl⟩)
  have hopen : o.openConn c.snapshots [] =
      { o with fin := .pending, live := true, insts := freshInsts o.insts c.snapshots, errors := o.errors + 0 } := by
    simp [Oracle.openConn, hf, hb, hl, hall, bufferedPhase]
  have htr : Tracks (freshInsts o.insts c.snapshots) t := by
    have ht' : t = ⟨o.insts.map fun i => (i.sub, (⟨i.key, Sequencer.new (snapSeq c.snapshots i.key)⟩ : Meta))⟩ := by
      cases t with
      | mk im =>
        simp only at hmap
        rw [hmap, hm, List.map_map]
        rfl
    rw [ht']
    unfold freshInsts
    apply tracks_map
    · intro i; cases firstSnapshot c.snapshots i.key <;> rfl
    · intro i hi'
      have := hsome (i.sub, i.key) (by rw [hm]; exact List.mem_map.mpr ⟨i, hi', rfl⟩)
      cases hb' : firstSnapshot c.snapshots i.key with
      | none => simp [hb'] at this
      | some b => simp [snapSeq, hb', Sequencer.new]
  obtain ⟨s1, s2, s3, s4, s5, s6⟩ := oracle_frames_sim cfg
    { o with fin := .pending, live := true, insts := freshInsts o.insts c.snapshots, errors := o.errors + 0 }
    t c.frames rfl hb hr htr
  have hterm : hasTerminalItem (c.snapshots.map (Except.ok : MarketEv → Item) ++ specOut cfg.params t c.frames) =
      hasTerminalItem (specOut cfg.params t c.frames) := by
    rw [hasTerminalItem_append, hasTerminalItem_oks]; rfl
  have herrs : itemErrors (deliveredItems (c.snapshots.map (Except.ok : MarketEv → Item) ++ specOut cfg.params t c.frames)) =
      itemErrors (deliveredItems (specOut cfg.params t c.frames)) := by
    rw [deliveredItems_append, hasTerminalItem_oks, deliveredItems_oks, itemErrors_append, itemErrors_oks]
    rfl
  have hconn : Oracle.conn cfg.de o c =
      if c.ended then (c.frames.foldl (fun o f => Oracle.frame o (frameKind cfg.de f))
        { o with fin := .pending, live := true, insts := freshInsts o.insts c.snapshots, errors := o.errors + 0 }).eos
      else c.frames.foldl (fun o f => Oracle.frame o (frameKind cfg.de f))
        { o with fin := .pending, live := true, insts := freshInsts o.insts c.snapshots, errors := o.errors + 0 } := by
    unfold Oracle.conn
    simp only [hnb, List.map_nil, hopen]
  rw [hconn]
  obtain ⟨e1, e2, e3, e4, e5⟩ := oracle_eos_fields _ c.ended s1
  rw [e1, e2, e3, e4, e5, s3, s4, s5, s6]
  simp only [connOver, hterm, herrs]
  refine ⟨trivial, trivial, ?_, ?_, by omega⟩
  · cases hasTerminalItem (specOut cfg.params t c.frames) <;> cases c.ended <;> rfl
  · cases hasTerminalItem (specOut cfg.params t c.frames) <;> cases c.ended <;> simp

end BarterModel.L2Pipeline
