import BarterModel.Model.Backtest
/-! Helper lemmas for C20 (`Props/C20.lean`): feed algebra, the consumption invariant, the
own-engine invariant, projection of global schedules. -/
namespace BarterModel.Backtest

variable {σ χ μ α ρ : Type}

@[simp] theorem marketOf_nil : marketOf ([] : List (Ev μ α)) = [] := rfl
@[simp] theorem marketOf_append (a b : List (Ev μ α)) : marketOf (a ++ b) = marketOf a ++ marketOf b := by
  simp [marketOf, List.filterMap_append]
@[simp] theorem marketOf_market (m : μ) (l : List (Ev μ α)) : marketOf (.market m :: l) = m :: marketOf l := rfl
@[simp] theorem marketOf_account (a : α) (l : List (Ev μ α)) : marketOf (.account a :: l) = marketOf l := rfl
@[simp] theorem marketOf_shutdown (l : List (Ev μ α)) : marketOf (.shutdown :: l) = marketOf l := rfl

theorem afterSd_append_of_not_mem (l x : List (Ev μ α)) (h : Ev.shutdown ∉ l) :
    afterSd (l ++ x) = afterSd x := by
  induction l with
  | nil => rfl
  | cons e l ih =>
    cases e with
    | shutdown => simp at h
    | market m => simp only [List.cons_append, afterSd]; exact ih (by simpa using h)
    | account a => simp only [List.cons_append, afterSd]; exact ih (by simpa using h)

theorem afterSd_append_nonmarket (l : List (Ev μ α)) (e : Ev μ α) (he : e.market? = none) :
    afterSd (l ++ [e]) = afterSd l := by
  induction l with
  | nil => cases e <;> simp_all [afterSd, Ev.market?, marketOf]
  | cons x l ih =>
    cases x with
    | shutdown => simp [afterSd, marketOf, List.filterMap_append, he]
    | market m => simpa [afterSd] using ih
    | account a => simpa [afterSd] using ih

/-- The invariant behind `consumes_all` for dataset `ds`. -/
structure Inv (ds : List μ) (s : BT σ χ μ α) : Prop where
  /-- while the engine runs nothing is lost: processed, queued and unsent events make up `ds` -/
  cons : s.stopped = none → marketOf s.processed ++ marketOf s.feed ++ s.market = ds
  /-- always: what was processed is a prefix of the dataset (in order, once, no gaps) -/
  pre : marketOf s.processed <+: ds
  /-- `Shutdown` is sent only after the forwarder has sent everything -/
  sent : s.shutdownSent = true → s.market = []
  sdfeed : Ev.shutdown ∈ s.feed → s.shutdownSent = true
  after : s.stopped = none → afterSd s.feed = []
  clean : s.stopped = some .shutdown → marketOf s.processed = ds
  noSd : s.stopped = none → Ev.shutdown ∉ s.processed
  sdLast : s.stopped = some .shutdown → ∃ pre, s.processed = pre ++ [.shutdown] ∧ Ev.shutdown ∉ pre

theorem inv_init (eng0 : σ) (exch0 : χ) (ds : List μ) (acc0 : List α) :
    Inv ds (BT.init eng0 exch0 ds acc0) := by
  constructor <;> simp [BT.init, afterSd]

theorem inv_step (E : Engine σ μ α ρ) (X : Exchange χ ρ α) (ds : List μ) (s : BT σ χ μ α)
    (h : Inv ds s) (a : Act) : Inv ds (step E X s a) := by
  cases a with
  | fwdMarket =>
    simp only [step]; unfold stepFwdMarket
    split
    · exact h
    · rename_i m ms hm
      split
      · rename_i hs
        have hne : s.stopped ≠ none := by intro h0; simp [h0] at hs
        constructor <;> simp_all
        all_goals first | exact h.pre | exact h.sdfeed | exact h.clean | exact h.sdLast | skip
      · rename_i hs
        have h0 : s.stopped = none := by
          cases hst : s.stopped <;> simp_all
        have hns : s.shutdownSent = false := by
          cases hb : s.shutdownSent
          · rfl
          · have := h.sent hb; simp [hm] at this
        have hnf : Ev.shutdown ∉ s.feed := fun hc => by simpa [hns] using h.sdfeed hc
        constructor
        · intro _; have := h.cons h0; simp [hm] at this ⊢; exact this
        · exact h.pre
        · intro hc; simp [hns] at hc
        · intro hc; simp at hc; exact absurd hc hnf
        · intro _; simp only; rw [afterSd_append_of_not_mem _ _ hnf]; rfl
        · intro hc; simp [h0] at hc
        · intro _; exact h.noSd h0
        · intro hc; simp [h0] at hc
  | fwdAccount k =>
    simp only [step]; unfold stepFwdAccount
    split
    · exact h
    · rename_i a ha
      split
      · constructor
        · intro hc; exact h.cons hc
        · exact h.pre
        · exact h.sent
        · exact h.sdfeed
        · exact h.after
        · exact h.clean
        · exact h.noSd
        · exact h.sdLast
      · constructor
        · intro hc; have := h.cons hc; simpa using this
        · exact h.pre
        · exact h.sent
        · intro hc; simp at hc; exact h.sdfeed hc
        · intro hc; simp only; rw [afterSd_append_nonmarket _ _ rfl]; exact h.after hc
        · exact h.clean
        · exact h.noSd
        · exact h.sdLast
  | sendShutdown =>
    simp only [step]; unfold stepSendShutdown
    split
    · exact h
    · rename_i hg
      have hm : s.market = [] := by
        cases hmk : s.market <;> simp_all
      split
      · constructor
        · intro hc; exact h.cons hc
        · exact h.pre
        · intro _; exact hm
        · intro _; rfl
        · exact h.after
        · exact h.clean
        · exact h.noSd
        · exact h.sdLast
      · constructor
        · intro hc; have := h.cons hc; simpa using this
        · exact h.pre
        · intro _; exact hm
        · intro _; rfl
        · intro hc; simp only; rw [afterSd_append_nonmarket _ _ rfl]; exact h.after hc
        · exact h.clean
        · exact h.noSd
        · exact h.sdLast
  | engine =>
    simp only [step]; unfold stepEngine
    split
    · exact h
    · rename_i hs
      have h0 : s.stopped = none := by
        cases hst : s.stopped <;> simp_all
      split
      · exact h
      · rename_i e rest hf
        have hcons := h.cons h0
        have hafter := h.after h0
        rw [hf] at hcons hafter
        cases e with
        | shutdown =>
          have hr : marketOf rest = [] := by simpa [afterSd] using hafter
          have hmk : s.market = [] := h.sent (h.sdfeed (by simp [hf]))
          have hall : marketOf s.processed = ds := by simpa [hr, hmk] using hcons
          constructor
          · intro hc; simp [isShutdown] at hc
          · simp [hall]
          · exact h.sent
          · intro hc; exact h.sdfeed (by simp [hf, hc])
          · intro hc; simp [isShutdown] at hc
          · intro _; simp [hall]
          · intro hc; simp [isShutdown] at hc
          · intro _; exact ⟨s.processed, rfl, h.noSd h0⟩
        | market m =>
          have hpre : marketOf (s.processed ++ [Ev.market m]) <+: ds := by
            rw [← hcons]; simp only [marketOf_append, marketOf_market, marketOf_nil, List.append_assoc]
            exact ⟨marketOf rest ++ s.market, by simp⟩
          by_cases hfat : E.fatal s.eng (.market m) = true
          · constructor
            · intro hc; simp [isShutdown, hfat] at hc
            · exact hpre
            · exact h.sent
            · intro hc; exact h.sdfeed (by simp [hf, hc])
            · intro hc; simp [isShutdown, hfat] at hc
            · intro hc; simp [isShutdown, hfat] at hc
            · intro hc; simp [isShutdown, hfat] at hc
            · intro hc; simp [isShutdown, hfat] at hc
          · constructor
            · intro _; simp only [marketOf_append, marketOf_market, marketOf_nil]
              simpa using hcons
            · exact hpre
            · exact h.sent
            · intro hc; exact h.sdfeed (by simp [hf, hc])
            · intro _; simpa [afterSd] using hafter
            · intro hc; simp [isShutdown, hfat] at hc
            · intro _; simp; exact h.noSd h0
            · intro hc; simp [isShutdown, hfat] at hc
        | account a =>
          have hpre : marketOf (s.processed ++ [Ev.account a]) <+: ds := by
            simpa using h.pre
          by_cases hfat : E.fatal s.eng (.account a) = true
          · constructor
            · intro hc; simp [isShutdown, hfat] at hc
            · exact hpre
            · exact h.sent
            · intro hc; exact h.sdfeed (by simp [hf, hc])
            · intro hc; simp [isShutdown, hfat] at hc
            · intro hc; simp [isShutdown, hfat] at hc
            · intro hc; simp [isShutdown, hfat] at hc
            · intro hc; simp [isShutdown, hfat] at hc
          · constructor
            · intro _; simp only [marketOf_append, marketOf_account, marketOf_nil]
              simpa using hcons
            · exact hpre
            · exact h.sent
            · intro hc; exact h.sdfeed (by simp [hf, hc])
            · intro _; simpa [afterSd] using hafter
            · intro hc; simp [isShutdown, hfat] at hc
            · intro _; simp; exact h.noSd h0
            · intro hc; simp [isShutdown, hfat] at hc

theorem inv_run (E : Engine σ μ α ρ) (X : Exchange χ ρ α) (ds : List μ) (acts : List Act)
    (s : BT σ χ μ α) (h : Inv ds s) : Inv ds (run E X s acts) := by
  induction acts generalizing s with
  | nil => exact h
  | cons a acts ih => exact ih _ (inv_step E X ds s h a)

/-! ### own engine -/

theorem engFold_append (E : Engine σ μ α ρ) (e0 : σ) (h : List (Ev μ α)) (e : Ev μ α) :
    engFold E e0 (h ++ [e]) = (E.process (engFold E e0 h) e).1 := by
  simp [engFold, List.foldl_append]

theorem own_step (E : Engine σ μ α ρ) (X : Exchange χ ρ α) (e0 : σ) (s : BT σ χ μ α)
    (h : s.eng = engFold E e0 s.processed) (a : Act) :
    (step E X s a).eng = engFold E e0 (step E X s a).processed := by
  cases a with
  | fwdMarket =>
    simp only [step]; unfold stepFwdMarket
    split
    · exact h
    · split <;> exact h
  | fwdAccount k =>
    simp only [step]; unfold stepFwdAccount
    split
    · exact h
    · split <;> exact h
  | sendShutdown =>
    simp only [step]; unfold stepSendShutdown
    split
    · exact h
    · split <;> exact h
  | engine =>
    simp only [step]; unfold stepEngine
    split
    · exact h
    · split
      · exact h
      · simp only [engFold_append, ← h]

theorem own_run (E : Engine σ μ α ρ) (X : Exchange χ ρ α) (e0 : σ) (acts : List Act)
    (s : BT σ χ μ α) (h : s.eng = engFold E e0 s.processed) :
    (run E X s acts).eng = engFold E e0 (run E X s acts).processed := by
  induction acts generalizing s with
  | nil => exact h
  | cons a acts ih => exact ih _ (own_step E X e0 s h a)

/-! ### isolation -/

theorem sysRun_getElem? (E : Engine σ μ α ρ) (X : Exchange χ ρ α) (acts : List (Nat × Act))
    (sys : Sys σ χ μ α) (i : Nat) :
    (sysRun E X sys acts)[i]? = (sys[i]?).map (fun s => run E X s (proj i acts)) := by
  induction acts generalizing sys with
  | nil => simp [sysRun, proj, run]
  | cons ia acts ih =>
    have := ih (sysStep E X sys ia)
    simp only [sysRun, List.foldl_cons] at this ⊢
    rw [this]
    simp only [sysStep, List.getElem?_modify, proj, List.filterMap_cons]
    by_cases hi : ia.1 = i
    · simp only [hi, ↓reduceIte]
      cases sys[i]? <;> simp [run]
    · simp only [hi, ↓reduceIte]
      cases sys[i]? <;> simp

theorem sysRun_length (E : Engine σ μ α ρ) (X : Exchange χ ρ α) (acts : List (Nat × Act))
    (sys : Sys σ χ μ α) : (sysRun E X sys acts).length = sys.length := by
  induction acts generalizing sys with
  | nil => rfl
  | cons ia acts ih =>
    simp only [sysRun, List.foldl_cons] at ih ⊢
    rw [ih]; simp [sysStep]

/-! ### engines whose observable ignores account events -/

/-- `obs` is a view of the engine state that account events and `Shutdown` do not change and that
market events update as a function of the view alone - on the states satisfying the engine
invariant `P`. (For an engine = strategy + recording state this says: what the strategy decides and
what the recorder stores depend on market data only, not on execution responses nor on where in the
feed they arrive.) -/
structure MarketView {β : Type} (E : Engine σ μ α ρ) (P : σ → Prop) (obs : σ → β) : Prop where
  pres : ∀ s e, P s → P (E.process s e).1
  acc : ∀ s a, P s → obs (E.process s (.account a)).1 = obs s
  sd : ∀ s, P s → obs (E.process s .shutdown).1 = obs s
  mkt : ∀ s s' m, P s → P s' → obs s = obs s' →
    obs (E.process s (.market m)).1 = obs (E.process s' (.market m)).1

theorem marketView_fold {β : Type} (E : Engine σ μ α ρ) (P : σ → Prop) (obs : σ → β)
    (hv : MarketView E P obs) (h : List (Ev μ α)) (e e' : σ) (hp : P e) (hp' : P e')
    (heq : obs e = obs e') :
    obs (engFold E e h) = obs (marketFold E e' (marketOf h)) := by
  induction h generalizing e e' with
  | nil => simpa [engFold, marketFold] using heq
  | cons ev h ih =>
    cases ev with
    | market m =>
      simp only [engFold, marketFold, List.foldl_cons, marketOf_market] at ih ⊢
      exact ih _ _ (hv.pres _ _ hp) (hv.pres _ _ hp') (hv.mkt _ _ m hp hp' heq)
    | account a =>
      simp only [engFold, marketFold, List.foldl_cons, marketOf_account] at ih ⊢
      exact ih _ _ (hv.pres _ _ hp) hp' ((hv.acc _ a hp).trans heq)
    | shutdown =>
      simp only [engFold, marketFold, List.foldl_cons, marketOf_shutdown] at ih ⊢
      exact ih _ _ (hv.pres _ _ hp) hp' ((hv.sd _ hp).trans heq)

/-! ### the concrete engine's market view -/

/-- the strategy loop's exit condition -/
def Done (v : MView) : Prop :=
  match v.plan[v.next]? with
  | none => True
  | some item => ¬ item.trigger ≤ v.nMkt ∨ (v.price[item.inst]?).join = none

theorem stratEmit_of_done (v : MView) (h : Done v) : ∀ fuel', stratEmit fuel' v = (v, []) := by
  intro fuel'
  cases fuel' with
  | zero => rfl
  | succ f =>
    unfold Done at h
    rw [stratEmit]
    split
    · rfl
    · rename_i item hsome
      rw [hsome] at h
      simp only at h
      rcases h with h | h
      · simp [h]
      · split
        · simp [h]
        · rfl

theorem stratEmit_done (fuel : Nat) (v : MView) (h : v.plan.length - v.next < fuel) :
    Done (stratEmit fuel v).1 := by
  induction fuel generalizing v with
  | zero => omega
  | succ fuel ih =>
    rw [stratEmit]
    split
    · rename_i hnone
      simp only [Done, hnone]
    · rename_i item hsome
      split
      · rename_i htrig
        split
        · rename_i hp
          simp only [Done, hsome]; exact Or.inr hp
        · rename_i p hp
          have hlt : v.next < v.plan.length := (List.getElem?_eq_some_iff.mp hsome).1
          exact ih _ (by simp only; omega)
      · rename_i htrig
        simp only [Done, hsome]; exact Or.inl htrig

theorem stratEmit_fix (fuel : Nat) (v : MView) (h : v.plan.length - v.next < fuel) :
    ∀ fuel', stratEmit fuel' (stratEmit fuel v).1 = ((stratEmit fuel v).1, []) :=
  stratEmit_of_done _ (stratEmit_done fuel v h)

theorem stratEmit_plan (fuel : Nat) (v : MView) : (stratEmit fuel v).1.plan = v.plan := by
  induction fuel generalizing v with
  | zero => rfl
  | succ fuel ih =>
    unfold stratEmit
    split
    · rfl
    · split
      · split
        · rfl
        · simp only; rw [ih]
      · rfl

theorem cEng0_settled (k : Nat) (plan : List PlanItem) : Settled (cEng0 k plan) := by
  apply stratEmit_of_done
  unfold Done
  split
  · trivial
  · right
    simp only [cEng0, List.getElem?_replicate]; split <;> rfl

theorem cMarketView : MarketView cEngine Settled (fun s => s.mv) := by
  constructor
  · intro s e hs
    cases e with
    | shutdown => exact hs
    | market m =>
      intro fuel
      simp only [cEngine, cProcess]
      exact stratEmit_fix _ _ (by omega) fuel
    | account a =>
      intro fuel
      simp only [cEngine, cProcess, hs _]
  · intro s a hs
    simp only [cEngine, cProcess, hs _]
  · intro s _; rfl
  · intro s s' m _ _ heq
    have heq' : s.mv = s'.mv := heq
    simp only [cEngine, cProcess, heq']

/-! ### account events: produced by this backtest's own execution side only -/

@[simp] theorem accountOf_nil : accountOf ([] : List (Ev μ α)) = [] := rfl
@[simp] theorem accountOf_append (a b : List (Ev μ α)) : accountOf (a ++ b) = accountOf a ++ accountOf b := by
  simp [accountOf, List.filterMap_append]
@[simp] theorem accountOf_market (m : μ) (l : List (Ev μ α)) : accountOf (.market m :: l) = accountOf l := rfl
@[simp] theorem accountOf_account (a : α) (l : List (Ev μ α)) : accountOf (.account a :: l) = a :: accountOf l := rfl
@[simp] theorem accountOf_shutdown (l : List (Ev μ α)) : accountOf (.shutdown :: l) = accountOf l := rfl

theorem requestsOf_append (E : Engine σ μ α ρ) (e0 : σ) (h : List (Ev μ α)) (ev : Ev μ α) :
    requestsOf E e0 (h ++ [ev]) = requestsOf E e0 h ++ (E.process (engFold E e0 h) ev).2 := by
  induction h generalizing e0 with
  | nil => simp [requestsOf, engFold]
  | cons x h ih =>
    simp only [List.cons_append, requestsOf, ih, List.append_assoc]
    simp [engFold]

theorem respondAll_append (X : Exchange χ ρ α) (x : χ) (rs rs' : List ρ) :
    respondAll X x (rs ++ rs') =
      ((respondAll X (respondAll X x rs).1 rs').1,
       (respondAll X x rs).2 ++ (respondAll X (respondAll X x rs).1 rs').2) := by
  induction rs generalizing x with
  | nil => simp [respondAll]
  | cons r rs ih => simp [respondAll, ih]

theorem perm_cons_eraseIdx {γ : Type} (l : List γ) (k : Nat) (a : γ) (h : l[k]? = some a) :
    (a :: l.eraseIdx k).Perm l := by
  induction l generalizing k with
  | nil => simp at h
  | cons x l ih =>
    cases k with
    | zero => simp at h; subst h; simp
    | succ k =>
      simp only [List.getElem?_cons_succ] at h
      simp only [List.eraseIdx_cons_succ]
      exact (List.Perm.swap x a _).trans ((ih k h).cons x)

/-- Invariant: engine and execution side are functions of the processed history, and (while the
engine runs) no account event is created or lost outside the execution side's responses. -/
structure AccInv (E : Engine σ μ α ρ) (X : Exchange χ ρ α) (eng0 : σ) (exch0 : χ) (acc0 : List α)
    (s : BT σ χ μ α) : Prop where
  eng : s.eng = engFold E eng0 s.processed
  exch : s.exch = (respondAll X exch0 (requestsOf E eng0 s.processed)).1
  perm : s.stopped = none →
    (accountOf s.processed ++ accountOf s.feed ++ s.pending).Perm
      (acc0 ++ (respondAll X exch0 (requestsOf E eng0 s.processed)).2)

theorem accInv_step (E : Engine σ μ α ρ) (X : Exchange χ ρ α) (eng0 : σ) (exch0 : χ) (acc0 : List α)
    (s : BT σ χ μ α) (h : AccInv E X eng0 exch0 acc0 s) (a : Act) :
    AccInv E X eng0 exch0 acc0 (step E X s a) := by
  cases a with
  | fwdMarket =>
    simp only [step]; unfold stepFwdMarket
    split
    · exact h
    · split
      · exact ⟨h.eng, h.exch, h.perm⟩
      · refine ⟨h.eng, h.exch, ?_⟩
        intro hc; simpa using h.perm hc
  | fwdAccount k =>
    simp only [step]; unfold stepFwdAccount
    split
    · exact h
    · rename_i a ha
      split
      · rename_i hs
        refine ⟨h.eng, h.exch, ?_⟩
        intro hc; simp [show s.stopped = none from hc] at hs
      · refine ⟨h.eng, h.exch, ?_⟩
        intro hc
        have hp := h.perm hc
        simp only [accountOf_append, accountOf_account, accountOf_nil, List.append_assoc]
        refine List.Perm.trans ?_ (by simpa [List.append_assoc] using hp)
        exact List.Perm.append_left _ (List.Perm.append_left _ (perm_cons_eraseIdx _ k a ha))
  | sendShutdown =>
    simp only [step]; unfold stepSendShutdown
    split
    · exact h
    · split
      · exact ⟨h.eng, h.exch, h.perm⟩
      · refine ⟨h.eng, h.exch, ?_⟩
        intro hc; simpa using h.perm hc
  | engine =>
    simp only [step]; unfold stepEngine
    split
    · exact h
    · rename_i hs
      have h0 : s.stopped = none := by
        cases hst : s.stopped <;> simp_all
      split
      · exact h
      · rename_i e rest hf
        have hp := h.perm h0
        rw [hf] at hp
        refine ⟨?_, ?_, ?_⟩
        · simp only [engFold_append, ← h.eng]
        · simp only [requestsOf_append, respondAll_append, ← h.eng, ← h.exch]
        · intro _
          simp only [requestsOf_append, respondAll_append, ← h.eng, ← h.exch]
          have e1 : accountOf (s.processed ++ [e]) ++ accountOf rest ++
              (s.pending ++ (respondAll X s.exch (E.process s.eng e).2).2) =
              (accountOf s.processed ++ accountOf (e :: rest) ++ s.pending) ++
                (respondAll X s.exch (E.process s.eng e).2).2 := by
            cases e <;> simp [List.append_assoc]
          rw [e1, ← List.append_assoc]
          exact hp.append_right _

theorem accInv_run (E : Engine σ μ α ρ) (X : Exchange χ ρ α) (eng0 : σ) (exch0 : χ) (acc0 : List α)
    (acts : List Act) (s : BT σ χ μ α) (h : AccInv E X eng0 exch0 acc0 s) :
    AccInv E X eng0 exch0 acc0 (run E X s acts) := by
  induction acts generalizing s with
  | nil => exact h
  | cons a acts ih => exact ih _ (accInv_step E X eng0 exch0 acc0 s h a)

theorem account_conservation (E : Engine σ μ α ρ) (X : Exchange χ ρ α) (eng0 : σ) (exch0 : χ)
    (ds : List μ) (acc0 : List α) (acts : List Act) :
    let s := run E X (BT.init eng0 exch0 ds acc0) acts
    s.stopped = none →
      (accountOf s.processed ++ accountOf s.feed ++ s.pending).Perm
        (acc0 ++ (respondAll X exch0 (requestsOf E eng0 s.processed)).2) := by
  intro s
  have h0 : AccInv E X eng0 exch0 acc0 (BT.init eng0 exch0 ds acc0) := by
    refine ⟨rfl, rfl, ?_⟩
    intro _; simp [BT.init, requestsOf, respondAll]
  exact (accInv_run E X eng0 exch0 acc0 acts _ h0).perm

end BarterModel.Backtest
