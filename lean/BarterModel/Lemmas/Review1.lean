import BarterModel.Lemmas.Orders
import BarterModel.Lemmas.Stale
/-! Helper lemmas added after the independent review of the theorems (audit/report_C01-C05.md items
C01-1..3, audit/REVIEW-notes.md C09-1): the open-order details held for ONE client order id over the
FULL report alphabet — open reports of any kind (any timestamp, any fill, including "nothing left to
fill"), terminal reports, cancel requests, cancel responses ok / err — seen as a register that is
RESET by every event that ends a tracking episode. -/
namespace BarterModel.Orders
open BarterModel.Stale

/-- the exchange-confirmed order details held for an id, whatever in-flight marker wraps them -/
def heldMeta (st : Option Active) : Option Open := st.bind Active.openMeta

/-- states in which everything held came from the exchange: untracked, open, or cancel-in-flight
around a confirmed open -/
def ExchangeConfirmed (st : Option Active) : Prop :=
  st = none ∨ ∃ o, st = some (.opn o) ∨ st = some (.cancelInFlight (some o))

/-- an open report as a timestamped message -/
def openMsg (o : Open) : Msg Open := (o.t, o)

/-- what can happen to one tracked order once its open request is no longer pending -/
inductive EpisodeEv where
  /-- the exchange reports the order open (any timestamp, any filled quantity) -/
  | report (o : Open)
  /-- the exchange reports it cancelled / fully filled / failed / expired -/
  | finished (k : Inactive)
  /-- a cancel request for it is sent -/
  | cancelSent
  /-- the exchange confirms the cancel -/
  | cancelOk
  /-- the cancel failed -/
  | cancelFailed
  deriving DecidableEq, Repr

/-- the C01 op of an event for client order id `c` (order quantity `q`, price `p`) -/
def EpisodeEv.toOp (c : Nat) (q p : Rat) : EpisodeEv → Op
  | .report o => .snapshot ⟨c, q, p, .active (.opn o), 0⟩
  | .finished k => .snapshot ⟨c, q, p, .inactive k, 0⟩
  | .cancelSent => .recCancel c
  | .cancelOk => .cancelResp c true
  | .cancelFailed => .cancelResp c false

/-- events after which the order is no longer tracked: they END a tracking episode -/
def EpisodeEv.ends (q : Rat) : EpisodeEv → Bool
  | .report o => remZero q o
  | .finished _ => true
  | .cancelOk => true
  | _ => false

/-- the open reports of a history, in delivery order -/
def episodeReports : List EpisodeEv → List Open
  | [] => []
  | .report o :: rest => o :: episodeReports rest
  | _ :: rest => episodeReports rest

/-- one step of the episode register: an event that ends the episode empties it, an open report with
something left to fill is a `<=`-guarded write, everything else leaves it alone -/
def episodeStep (q : Rat) (h : Option (Msg Open)) (ev : EpisodeEv) : Option (Msg Open) :=
  if ev.ends q then none
  else match ev with
    | .report o => upd false h (openMsg o)
    | _ => h

/-- the `<=` register over the open reports delivered since the last event that ended an episode -/
def episodeRegister (q : Rat) (h : Option (Msg Open)) (evs : List EpisodeEv) : Option (Msg Open) :=
  evs.foldl (episodeStep q) h

theorem toOp_statesOnly (c : Nat) (q p : Rat) (ev : EpisodeEv) :
    (ev.toOp c q p).exchangeStatesOnly = true := by
  cases ev <;> rfl

/-- one event: the held details follow the episode register, and the state stays exchange-confirmed -/
theorem episode_step (m : Orders) (c : Nat) (q p : Rat) (ev : EpisodeEv)
    (hc : ExchangeConfirmed (stateOf m c)) :
    heldMeta (stateOf (step m (ev.toOp c q p)) c) =
      (episodeStep q ((heldMeta (stateOf m c)).map openMsg) ev).map (·.2) ∧
    ExchangeConfirmed (stateOf (step m (ev.toOp c q p)) c) := by
  rw [step_refines m _ c (toOp_statesOnly c q p ev)]
  cases ev with
  | finished k =>
    simp [EpisodeEv.toOp, Lifecycle.stepOp, Op.input, Lifecycle.step, episodeStep, EpisodeEv.ends,
      heldMeta, ExchangeConfirmed]
  | cancelOk =>
    simp [EpisodeEv.toOp, Lifecycle.stepOp, Op.input, Lifecycle.step, episodeStep, EpisodeEv.ends,
      heldMeta, ExchangeConfirmed]
  | cancelSent =>
    simp only [EpisodeEv.toOp, Lifecycle.stepOp, Op.input, ↓reduceIte, episodeStep, EpisodeEv.ends,
      Bool.false_eq_true]
    rcases hc with h0 | ⟨o, h1 | h1⟩
    · rw [h0]; exact ⟨rfl, Or.inl rfl⟩
    · rw [h1]; exact ⟨by simp [Lifecycle.step, heldMeta, Active.openMeta, openMsg], Or.inr ⟨o, Or.inr rfl⟩⟩
    · rw [h1]; exact ⟨by simp [Lifecycle.step, heldMeta, Active.openMeta, openMsg], Or.inr ⟨o, Or.inr rfl⟩⟩
  | cancelFailed =>
    simp only [EpisodeEv.toOp, Lifecycle.stepOp, Op.input, ↓reduceIte, episodeStep, EpisodeEv.ends,
      Bool.false_eq_true]
    rcases hc with h0 | ⟨o, h1 | h1⟩
    · rw [h0]; exact ⟨rfl, Or.inl rfl⟩
    · rw [h1]; exact ⟨by simp [Lifecycle.step, heldMeta, Active.openMeta, openMsg], Or.inr ⟨o, Or.inl rfl⟩⟩
    · rw [h1]; exact ⟨by simp [Lifecycle.step, heldMeta, Active.openMeta, openMsg], Or.inr ⟨o, Or.inl rfl⟩⟩
  | report o =>
    simp only [EpisodeEv.toOp, Lifecycle.stepOp, Op.input, ↓reduceIte, episodeStep, EpisodeEv.ends]
    by_cases hz : remZero q o = true
    · simp [hz, Lifecycle.step, heldMeta, ExchangeConfirmed]
    · simp only [hz, Bool.false_eq_true, ↓reduceIte]
      rcases hc with h0 | ⟨h, h1 | h1⟩
      · rw [h0]
        exact ⟨by simp [Lifecycle.step, heldMeta, Active.openMeta, upd, openMsg],
          Or.inr ⟨o, Or.inl rfl⟩⟩
      · rw [h1]
        by_cases ht : h.t ≤ o.t
        · exact ⟨by simp [Lifecycle.step, heldMeta, Active.openMeta, upd, openMsg, passes, ht],
            Or.inr ⟨o, Or.inl (by simp [Lifecycle.step, ht])⟩⟩
        · exact ⟨by simp [Lifecycle.step, heldMeta, Active.openMeta, upd, openMsg, passes, ht],
            Or.inr ⟨h, Or.inl (by simp [Lifecycle.step, ht])⟩⟩
      · rw [h1]
        by_cases ht : h.t ≤ o.t
        · exact ⟨by simp [Lifecycle.step, heldMeta, Active.openMeta, upd, openMsg, passes, ht],
            Or.inr ⟨o, Or.inr (by simp [Lifecycle.step, ht])⟩⟩
        · exact ⟨by simp [Lifecycle.step, heldMeta, Active.openMeta, upd, openMsg, passes, ht],
            Or.inr ⟨h, Or.inr (by simp [Lifecycle.step, ht])⟩⟩

/-- a register value re-wrapped as a message is itself (messages are `(o.t, o)`) -/
theorem rewrap_episodeStep (q : Rat) (h : Option Open) (ev : EpisodeEv) :
    ((episodeStep q (h.map openMsg) ev).map (·.2)).map openMsg = episodeStep q (h.map openMsg) ev := by
  unfold episodeStep
  split
  · rfl
  · cases ev with
    | report o =>
      cases h with
      | none => simp [upd, openMsg]
      | some c => by_cases ht : passes false c.t o.t = true <;> simp [upd, openMsg, ht]
    | finished k => cases h <;> simp [openMsg]
    | cancelSent => cases h <;> simp [openMsg]
    | cancelOk => cases h <;> simp [openMsg]
    | cancelFailed => cases h <;> simp [openMsg]

/-- **Full report alphabet.** For every history of open reports of any kind, terminal reports, cancel
requests and cancel responses on one order (starting untracked or exchange-confirmed), the details
held are those of the episode register: the `<=` register over the open reports delivered since the
last event that ended a tracking episode. -/
theorem episode_register (m : Orders) (c : Nat) (q p : Rat) (evs : List EpisodeEv)
    (hc : ExchangeConfirmed (stateOf m c)) :
    heldMeta (stateOf (run m (evs.map (EpisodeEv.toOp c q p))) c) =
      (episodeRegister q ((heldMeta (stateOf m c)).map openMsg) evs).map (·.2) ∧
    ExchangeConfirmed (stateOf (run m (evs.map (EpisodeEv.toOp c q p))) c) := by
  induction evs generalizing m with
  | nil =>
    refine ⟨?_, hc⟩
    simp only [List.map_nil, run, List.foldl_nil, episodeRegister]
    cases heldMeta (stateOf m c) <;> simp [openMsg]
  | cons ev evs ih =>
    have hstep := episode_step m c q p ev hc
    have := ih (step m (ev.toOp c q p)) hstep.2
    simp only [List.map_cons, run, List.foldl_cons, episodeRegister] at this ⊢
    rw [hstep.1, rewrap_episodeStep] at this
    exact this

/-- within ONE tracking episode (no event of the history ends it) the episode register is the plain
`<=` register over the open reports -/
theorem episodeRegister_no_end (q : Rat) (h : Option (Msg Open)) (evs : List EpisodeEv)
    (hne : ∀ ev ∈ evs, ev.ends q = false) :
    episodeRegister q h evs = deliver false h ((episodeReports evs).map openMsg) := by
  induction evs generalizing h with
  | nil => rfl
  | cons ev evs ih =>
    have h1 := hne ev (by simp)
    have h2 := fun h' => ih h' (fun x hx => hne x (by simp [hx]))
    simp only [episodeRegister, List.foldl_cons] at h2 ⊢
    cases ev with
    | report o =>
      rw [h2]
      simp [episodeStep, h1, episodeReports, deliver]
    | finished k => simp [EpisodeEv.ends] at h1
    | cancelOk => simp [EpisodeEv.ends] at h1
    | cancelSent => rw [h2]; simp [episodeStep, EpisodeEv.ends, episodeReports]
    | cancelFailed => rw [h2]; simp [episodeStep, EpisodeEv.ends, episodeReports]

/-- **One tracking episode, characterised without the register**: along any history of open reports
(something left to fill), cancel requests and failed cancels on an order that holds exchange-confirmed
details, the order stays exchange-confirmed and the details held at the end are the held-at-start ones
or a delivered report, with a timestamp that is at least the start's and at least every delivered
report's. -/
theorem episode_holds_greatest (m : Orders) (c : Nat) (q p : Rat) (evs : List EpisodeEv)
    (hne : ∀ ev ∈ evs, ev.ends q = false) (hc : ExchangeConfirmed (stateOf m c)) (h0 : Open)
    (hh : heldMeta (stateOf m c) = some h0) :
    ∃ o, heldMeta (stateOf (run m (evs.map (EpisodeEv.toOp c q p))) c) = some o ∧
      (o ∈ episodeReports evs ∨ o = h0) ∧ h0.t ≤ o.t ∧ ∀ r ∈ episodeReports evs, r.t ≤ o.t := by
  have hreg := (episode_register m c q p evs hc).1
  rw [episodeRegister_no_end q _ evs hne, hh] at hreg
  have hs := deliver_isSome false (some (openMsg h0)) ((episodeReports evs).map openMsg) (Or.inl rfl)
  cases hr : deliver false (some (openMsg h0)) ((episodeReports evs).map openMsg) with
  | none => simp [hr] at hs
  | some r =>
    simp only [Option.map_some] at hreg
    rw [hr] at hreg
    have hg := deliver_ge false _ _ r hr
    have hmem := deliver_mem false _ _ r hr
    refine ⟨r.2, by simpa using hreg, ?_, ?_, ?_⟩
    · rcases hmem with hm | hm
      · left
        obtain ⟨x, hx, rfl⟩ := List.mem_map.mp hm
        simpa [openMsg] using hx
      · right; injection hm with hm; rw [← hm]; rfl
    · have := hg.1 (openMsg h0) rfl
      have hr2 : r.1 = r.2.t := by
        rcases hmem with hm | hm
        · obtain ⟨x, hx, rfl⟩ := List.mem_map.mp hm; rfl
        · injection hm with hm; rw [← hm]; rfl
      simpa [openMsg, hr2] using this
    · intro x hx
      have := hg.2 (openMsg x) (List.mem_map.mpr ⟨x, hx, rfl⟩)
      have hr2 : r.1 = r.2.t := by
        rcases hmem with hm | hm
        · obtain ⟨y, hy, rfl⟩ := List.mem_map.mp hm; rfl
        · injection hm with hm; rw [← hm]; rfl
      simpa [openMsg, hr2] using this

end BarterModel.Orders
