import BarterModel.Model.ExchangeStream
import BarterModel.Model.Streams
/-! Helper lemmas for C12W (`ExchangeStream`, WebSocket parser, `de.rs`). Core Lean only. -/
namespace BarterModel.ExStream

variable {μ ε ι σ ο τ : Type}

/-! ## stream -/

theorem itemsOf_map_ready {α : Type} (l : List α) :
    itemsOf (l.map fun o => PollRes.ready (some o)) = l := by
  induction l with
  | nil => rfl
  | cons a l ih => simp [itemsOf, ih]

theorem itemsOf_append {α : Type} (a b : List (PollRes α)) :
    itemsOf (a ++ b) = itemsOf a ++ itemsOf b := by
  induction a with
  | nil => rfl
  | cons x a ih =>
    cases x with
    | pending => simpa [itemsOf] using ih
    | ready o => cases o <;> simp [itemsOf, ih]

theorem itemsOf_specTrace (P : Params μ ε ι σ ο τ) (t : σ) (items : List (Inner μ)) :
    itemsOf (specTrace P t items) = specOut P t (messages items) := by
  induction items generalizing t with
  | nil => rfl
  | cons i items ih =>
    cases i with
    | pending => simp [specTrace, messages, itemsOf, ih]
    | item m => simp [specTrace, messages, specOut, itemsOf_append, itemsOf_map_ready, ih]

theorem itemsOf_specPolls (P : Params μ ε ι σ ο τ) (s : St μ σ ο τ) :
    itemsOf (specPolls P s) = future P s := by
  simp [specPolls, future, itemsOf_append, itemsOf_map_ready, itemsOf_specTrace]

theorem specOut_append (P : Params μ ε ι σ ο τ) (t : σ) (a b : List μ) :
    specOut P t (a ++ b) = specOut P t a ++ specOut P (specState P t a) b := by
  induction a generalizing t with
  | nil => rfl
  | cons m a ih => simp [specOut, specState, ih]

theorem specState_append (P : Params μ ε ι σ ο τ) (t : σ) (a b : List μ) :
    specState P t (a ++ b) = specState P (specState P t a) b := by
  induction a generalizing t with
  | nil => rfl
  | cons m a ih => simp [specState, ih]

theorem messages_append (a b : List (Inner μ)) : messages (a ++ b) = messages a ++ messages b := by
  induction a with
  | nil => rfl
  | cons i a ih => cases i <;> simp [messages, ih]

theorem specTrace_append (P : Params μ ε ι σ ο τ) (t : σ) (a b : List (Inner μ)) :
    specTrace P t (a ++ b) = specTrace P t a ++ specTrace P (specState P t (messages a)) b := by
  induction a generalizing t with
  | nil => rfl
  | cons i a ih =>
    cases i with
    | pending => simp [specTrace, messages, ih]
    | item m => simp [specTrace, messages, specState, ih]

/-- One poll from an empty buffer, against the specification trace: either the trace is empty and
the poll reports exhaustion, or the poll returns the head of the trace and leaves a state whose
specification is the tail. -/
theorem pollInner_spec (P : Params μ ε ι σ ο τ) (ended : Bool) (t : σ) (items : List (Inner μ)) :
    (pollInner P ended t items).1.stream.ended = ended ∧
    ((specTrace P t items = [] ∧ (pollInner P ended t items).2 = exhausted ended ∧
        specPolls P (pollInner P ended t items).1 = []) ∨
     specTrace P t items = (pollInner P ended t items).2 :: specPolls P (pollInner P ended t items).1) := by
  induction items generalizing t with
  | nil => simp [pollInner, specTrace, exhausted, specPolls]
  | cons i items ih =>
    cases i with
    | pending => simp [pollInner, specTrace, specPolls]
    | item m =>
      simp only [pollInner, specTrace, contribution]
      cases hp : P.parse m with
      | none => simpa using ih t
      | some r =>
        cases r with
        | error e => simp [specPolls]
        | ok x =>
          simp only
          rcases htr : P.transform t x with ⟨t', outs⟩
          cases outs with
          | nil => simpa using ih t'
          | cons o os => simp [specPolls]

theorem pollNext_spec (P : Params μ ε ι σ ο τ) (s : St μ σ ο τ) :
    (pollNext P s).1.stream.ended = s.stream.ended ∧
    ((specPolls P s = [] ∧ (pollNext P s).2 = exhausted s.stream.ended ∧
        specPolls P (pollNext P s).1 = []) ∨
     specPolls P s = (pollNext P s).2 :: specPolls P (pollNext P s).1) := by
  rcases s with ⟨⟨items, ended⟩, t, buffer⟩
  cases buffer with
  | cons o b => simp [pollNext, specPolls]
  | nil => simpa [pollNext, specPolls] using pollInner_spec P ended t items

theorem specPollAt_zero (P : Params μ ε ι σ ο τ) (s : St μ σ ο τ) :
    (pollNext P s).2 = specPollAt P s 0 := by
  rcases (pollNext_spec P s).2 with ⟨h1, h2, _⟩ | h
  · simp [specPollAt, h1, h2]
  · simp [specPollAt, h]

theorem specPollAt_succ (P : Params μ ε ι σ ο τ) (s : St μ σ ο τ) (k : Nat) :
    specPollAt P (pollNext P s).1 k = specPollAt P s (k + 1) := by
  have he := (pollNext_spec P s).1
  rcases (pollNext_spec P s).2 with ⟨h1, _, h3⟩ | h
  · simp [specPollAt, h1, h3, he]
  · simp [specPollAt, h, he]

theorem polls_eq_spec (P : Params μ ε ι σ ο τ) (n : Nat) (s : St μ σ ο τ) :
    polls P n s = (List.range n).map (specPollAt P s) := by
  induction n generalizing s with
  | zero => rfl
  | succ n ih =>
    rw [polls, ih, List.range_succ_eq_map, List.map_cons, List.map_map, specPollAt_zero]
    congr 1
    apply List.map_congr_left
    intro k _
    simp [specPollAt_succ]

theorem polls_length (P : Params μ ε ι σ ο τ) (n : Nat) (s : St μ σ ο τ) :
    (polls P n s).length = n := by
  induction n generalizing s with
  | zero => rfl
  | succ n ih => simp [polls, ih]

theorem polls_getElem? (P : Params μ ε ι σ ο τ) (n k : Nat) (s : St μ σ ο τ) (hk : k < n) :
    (polls P n s)[k]? = some (specPollAt P s k) := by
  simp [polls_eq_spec, hk]

/-- `(range n).map (specPollAt ..)` splits into the determined part and the exhaustion tail. -/
theorem range_map_specPollAt (P : Params μ ε ι σ ο τ) (s : St μ σ ο τ) (n : Nat) :
    (List.range n).map (specPollAt P s) =
      (specPolls P s).take n ++ List.replicate (n - (specPolls P s).length) (exhausted s.stream.ended) := by
  apply List.ext_getElem?
  intro k
  by_cases hk : k < n
  · by_cases hl : k < (specPolls P s).length
    · have h0 : k < min n (specPolls P s).length := by omega
      simp [hk, specPollAt, List.getElem?_append, hl, h0]
    · have hl' : (specPolls P s).length ≤ k := Nat.le_of_not_lt hl
      have h1 : (specPolls P s)[k]? = none := List.getElem?_eq_none hl'
      have h2 : ¬ k < min n (specPolls P s).length := by omega
      have h3 : k - min n (specPolls P s).length < n - (specPolls P s).length := by omega
      simp [hk, specPollAt, List.getElem?_append, h1, h2, h3]
  · have h1 : ¬ k < min n (specPolls P s).length := by omega
    have h3 : ¬ k - min n (specPolls P s).length < n - (specPolls P s).length := by omega
    simp [hk, List.getElem?_append, h1, h3]

theorem itemsOf_replicate_exhausted (ended : Bool) (n : Nat) :
    itemsOf (List.replicate n (exhausted (τ := τ) (ο := ο) ended)) = [] := by
  induction n with
  | zero => rfl
  | succ n ih => cases ended <;> simpa [List.replicate_succ, exhausted, itemsOf] using ih

theorem itemsOf_take_prefix {α : Type} (l : List (PollRes α)) (n : Nat) :
    itemsOf (l.take n) <+: itemsOf l := by
  have : l = l.take n ++ l.drop n := (List.take_append_drop n l).symm
  conv => rhs; rw [this, itemsOf_append]
  exact List.prefix_append _ _

/-- The state after `n` polls: the script is a suffix, the transformer state is the specification
state after exactly the consumed messages, and what is still owed is unchanged. -/
theorem pollInner_consumes (P : Params μ ε ι σ ο τ) (ended : Bool) (t : σ) (items : List (Inner μ)) :
    ∃ consumed, items = consumed ++ (pollInner P ended t items).1.stream.items ∧
      (pollInner P ended t items).1.transformer = specState P t (messages consumed) := by
  induction items generalizing t with
  | nil => exact ⟨[], by simp [pollInner, messages, specState]⟩
  | cons i items ih =>
    cases i with
    | pending => exact ⟨[.pending], by simp [pollInner, messages, specState]⟩
    | item m =>
      simp only [pollInner]
      cases hp : P.parse m with
      | none =>
        obtain ⟨c, h1, h2⟩ := ih t
        refine ⟨.item m :: c, by simpa using h1, ?_⟩
        simpa [messages, specState, contribution, hp] using h2
      | some r =>
        cases r with
        | error e => exact ⟨[.item m], by simp [messages, specState, contribution, hp]⟩
        | ok x =>
          simp only
          rcases htr : P.transform t x with ⟨t', outs⟩
          cases outs with
          | nil =>
            obtain ⟨c, h1, h2⟩ := ih t'
            refine ⟨.item m :: c, by simpa using h1, ?_⟩
            simpa [messages, specState, contribution, hp, htr] using h2
          | cons o os => exact ⟨[.item m], by simp [messages, specState, contribution, hp, htr]⟩

theorem pollNext_consumes (P : Params μ ε ι σ ο τ) (s : St μ σ ο τ) :
    ∃ consumed, s.stream.items = consumed ++ (pollNext P s).1.stream.items ∧
      (pollNext P s).1.transformer = specState P s.transformer (messages consumed) := by
  rcases s with ⟨⟨items, ended⟩, t, buffer⟩
  cases buffer with
  | cons o b => exact ⟨[], by simp [pollNext, messages, specState]⟩
  | nil => simpa [pollNext] using pollInner_consumes P ended t items

theorem after_consumes (P : Params μ ε ι σ ο τ) (n : Nat) (s : St μ σ ο τ) :
    ∃ consumed, s.stream.items = consumed ++ (after P n s).stream.items ∧
      (after P n s).transformer = specState P s.transformer (messages consumed) := by
  induction n generalizing s with
  | zero => exact ⟨[], by simp [after, messages, specState]⟩
  | succ n ih =>
    obtain ⟨c1, h1, h2⟩ := pollNext_consumes P s
    obtain ⟨c2, h3, h4⟩ := ih (pollNext P s).1
    refine ⟨c1 ++ c2, ?_, ?_⟩
    · simp only [after]; rw [List.append_assoc, ← h3, ← h1]
    · simp only [after]; rw [h4, h2, messages_append, specState_append]

theorem after_specPolls (P : Params μ ε ι σ ο τ) (n : Nat) (s : St μ σ ο τ) :
    specPolls P (after P n s) = (specPolls P s).drop n ∧ (after P n s).stream.ended = s.stream.ended := by
  induction n generalizing s with
  | zero => simp [after]
  | succ n ih =>
    obtain ⟨h1, h2⟩ := ih (pollNext P s).1
    have he := (pollNext_spec P s).1
    simp only [after]
    rcases (pollNext_spec P s).2 with ⟨e1, _, e3⟩ | e
    · rw [h1, h2, e3, e1, he]; simp
    · rw [h1, h2, e, he]; simp

theorem specPolls_nil_iff (P : Params μ ε ι σ ο τ) (s : St μ σ ο τ) :
    specPolls P s = [] → s.buffer = [] := by
  intro h
  simp [specPolls] at h
  exact h.1

/-! `process_buffered_events` -/

theorem processBuffered_eq (P : Params μ ε ι σ ο τ) (t : σ) (ms : List μ) :
    processBuffered P t ms = (specState (quiet P) t ms, specOut (quiet P) t ms) := by
  induction ms generalizing t with
  | nil => rfl
  | cons m ms ih =>
    simp only [processBuffered, specState, specOut, contribution, quiet]
    cases hp : P.parse m with
    | none => simpa [quiet] using ih t
    | some r =>
      cases r with
      | error e => simpa [quiet] using ih t
      | ok x =>
        simp only
        rcases htr : P.transform t x with ⟨t', outs⟩
        have := ih t'
        simp only [quiet] at this
        simp [htr, this]

/-! ## parser -/

theorem parse_none_iff {ι : Type} (de : De ι) (m : Except WsError WsMessage) :
    parse de m = none ↔ disposition m = .housekeeping := by
  cases m with
  | error e => simp [parse, disposition]
  | ok w => cases w <;> simp [parse, disposition, processText, processBinary, processPing, processPong,
      processCloseFrame, processFrame]

/-! ## `u64::from_str` -/

def stepDigit (a : Nat) (c : Char) : Nat := a * 10 + digitVal c

theorem natOfDigits_eq (ds : List Char) : natOfDigits ds = ds.foldl stepDigit 0 := rfl

theorem foldl_stepDigit_ge (ds : List Char) (a : Nat) : a ≤ ds.foldl stepDigit a := by
  induction ds generalizing a with
  | nil => simp
  | cons c ds ih =>
    simp only [List.foldl_cons]
    have : a ≤ stepDigit a c := by unfold stepDigit; omega
    exact Nat.le_trans this (ih _)

theorem u64Loop_ok_iff (acc : Nat) (cs : List Char) (n : Nat) :
    u64Loop acc cs = .ok n ↔ (cs.all isDigit = true ∧ cs.foldl stepDigit acc = n ∧ (cs = [] ∨ n ≤ u64Max)) := by
  induction cs generalizing acc with
  | nil => simp [u64Loop]
  | cons c cs ih =>
    simp only [u64Loop, List.all_cons, List.foldl_cons, Bool.and_eq_true]
    by_cases hd : isDigit c = true
    · simp only [hd, if_true, true_and]
      by_cases ho : acc * 10 + digitVal c ≤ u64Max
      · simp only [ho, if_true]
        rw [ih]
        constructor
        · rintro ⟨h1, h2, h3⟩
          refine ⟨h1, h2, Or.inr ?_⟩
          rcases h3 with h3 | h3
          · subst h3; simp at h2; omega
          · exact h3
        · rintro ⟨h1, h2, h3⟩
          refine ⟨h1, h2, ?_⟩
          rcases h3 with h3 | h3
          · cases h3
          · exact Or.inr h3
      · simp only [ho, if_false]
        constructor
        · intro h; cases h
        · rintro ⟨_, h2, h3⟩
          rcases h3 with h3 | h3
          · cases h3
          · have := foldl_stepDigit_ge cs (stepDigit acc c)
            unfold stepDigit at this h2
            omega
    · simp [hd]

theorem u64Loop_zero_ok_iff (cs : List Char) (n : Nat) :
    u64Loop 0 cs = .ok n ↔ (cs.all isDigit = true ∧ natOfDigits cs = n ∧ (cs = [] ∨ n ≤ u64Max)) := by
  rw [u64Loop_ok_iff, natOfDigits_eq]

/-! ## rounding -/

theorem roundHalfEven_close (q : Rat) :
    (roundHalfEven q : Rat) - q ≤ 1 / 2 ∧ q - (roundHalfEven q : Rat) ≤ 1 / 2 := by
  have h1 := Rat.floor_le q
  have h2 := Rat.lt_floor_add_one q
  have h3 : ((q.floor + 1 : Int) : Rat) = (q.floor : Rat) + 1 := by simp [Rat.intCast_add]
  rw [h3] at h2
  unfold roundHalfEven
  simp only
  split
  · constructor <;> grind
  · split
    · rw [h3]; constructor <;> grind
    · split
      · constructor <;> grind
      · rw [h3]; constructor <;> grind

theorem toNat_cast_rat (z : Int) (h : 0 ≤ z) : ((z.toNat : Nat) : Rat) = (z : Rat) := by
  have : ((z.toNat : Nat) : Int) = z := Int.toNat_of_nonneg h
  rw [← Rat.intCast_natCast, this]

theorem roundHalfEven_nonneg (q : Rat) (h : 0 ≤ q) : 0 ≤ roundHalfEven q := by
  have hf : 0 ≤ q.floor := by rw [Rat.le_floor_iff]; simpa using h
  unfold roundHalfEven
  simp only
  repeat' split
  all_goals omega

theorem two_pow_64 : (((18446744073709551616 : Int)) : Rat) = (2 : Rat) ^ 64 := by decide +kernel

theorem ok_of_datetime (d : Duration) (h : d.secs ≤ maxChronoSecs) :
    ofDateTime (datetimeUtcFromEpochDuration d) = .ok d.totalNanos := by
  simp only [datetimeUtcFromEpochDuration, if_pos h, ofDateTime]

theorem panic_of_datetime (d : Duration) (h : ¬ d.secs ≤ maxChronoSecs) :
    ofDateTime (datetimeUtcFromEpochDuration d) = .panic := by
  simp only [datetimeUtcFromEpochDuration, if_neg h, ofDateTime]

theorem fromMillis_total (ms : Nat) : (Duration.fromMillis ms).totalNanos = ms * nanosPerMilli := by
  simp only [Duration.fromMillis, Duration.totalNanos, nanosPerSec, nanosPerMilli]
  omega

theorem roundHalfEven_intCast (z : Int) : roundHalfEven (z : Rat) = z := by
  unfold roundHalfEven
  have h : ((z : Rat) - ((z : Int) : Rat)) = 0 := by grind
  simp only [Rat.floor_intCast, h]
  rw [if_pos (by grind)]

/-! ## `f64::from_str` -/

theorem span_loop {α : Type} (p : α → Bool) (ip rest acc : List α) (hip : ∀ a ∈ ip, p a = true)
    (hr : ∀ c r, rest = c :: r → p c = false) :
    List.span.loop p (ip ++ rest) acc = (acc.reverse ++ ip, rest) := by
  induction ip generalizing acc with
  | nil =>
    cases rest with
    | nil => simp [List.span.loop]
    | cons c r => simp [List.span.loop, hr c r rfl]
  | cons a ip ih =>
    have ha : p a = true := hip a (by simp)
    simp only [List.cons_append, List.span.loop, ha]
    rw [ih (a :: acc) (fun x hx => hip x (by simp [hx]))]
    simp

theorem span_digits (ip rest : List Char) (hip : ip.all isDigit = true)
    (hr : ∀ c r, rest = c :: r → isDigit c = false) :
    (ip ++ rest).span isDigit = (ip, rest) := by
  have := span_loop isDigit ip rest [] (by simpa using hip) hr
  simpa [List.span] using this

/-- the exponent-free decimal numeral `ip.fp` -/
theorem parseNumber_decimal (ip fp : List Char) (hip : ip.all isDigit = true) (hfp : fp.all isDigit = true)
    (hne : ip ≠ [] ∨ fp ≠ []) :
    parseNumber (ip ++ '.' :: fp) = some ((natOfDigits (ip ++ fp) : Rat) * pow10Rat (-(fp.length : Int))) := by
  have h1 : (ip ++ '.' :: fp).span isDigit = (ip, '.' :: fp) :=
    span_digits ip ('.' :: fp) hip (by intro c r h; cases h; decide)
  have h2 : fp.span isDigit = (fp, []) := by
    have := span_digits fp [] hfp (by intro c r h; cases h)
    simpa using this
  unfold parseNumber
  simp only [h1, h2]
  have : (ip.isEmpty && fp.isEmpty) = false := by
    rcases hne with h | h
    · cases ip <;> simp_all
    · cases fp <;> simp_all
  simp [this, parseExp]

theorem parseNumber_integer (ip : List Char) (hip : ip.all isDigit = true) (hne : ip ≠ []) :
    parseNumber ip = some (natOfDigits ip : Rat) := by
  have h1 : ip.span isDigit = (ip, []) := by
    have := span_digits ip [] hip (by intro c r h; cases h)
    simpa using this
  unfold parseNumber
  simp only [h1]
  have : ip.isEmpty = false := by cases ip <;> simp_all
  simp [this, parseExp, pow10Rat]

/-- a string that does not start with a digit or a dot is not a `Number` -/
theorem parseNumber_none_of_head (c : Char) (r : List Char) (hd : isDigit c = false) (hdot : c ≠ '.') :
    parseNumber (c :: r) = none := by
  have h1 : (c :: r).span isDigit = ([], c :: r) := by
    have := span_digits [] (c :: r) (by simp) (by intro c' r' h; cases h; exact hd)
    simpa using this
  unfold parseNumber
  simp only [h1]
  split
  · rename_i h; cases h; exact absurd rfl hdot
  · simp

theorem parseF64Str_number (sem : FloatSem) (cs : List Char) (d : Rat) (h : parseNumber cs = some d) :
    parseF64Str sem cs = .ok (sem.round d) := by
  cases cs with
  | nil => simp [parseNumber, List.span, List.span.loop] at h
  | cons c r =>
    have hm : c ≠ '-' := by
      intro hc; subst hc
      rw [parseNumber_none_of_head '-' r (by decide) (by decide)] at h; cases h
    have hp : c ≠ '+' := by
      intro hc; subst hc
      rw [parseNumber_none_of_head '+' r (by decide) (by decide)] at h; cases h
    have hs : splitSign (c :: r) = (false, c :: r) := by
      unfold splitSign; split <;> simp_all
    simp [parseF64Str, hs, h]

theorem parseF64Str_negative (sem : FloatSem) (body : List Char) (d : Rat) (h : parseNumber body = some d) :
    parseF64Str sem ('-' :: body) = .ok (sem.round (-d)) := by
  simp [parseF64Str, splitSign, h]

/-! ## laziness, ASCII payloads, scientific notation -/

/-- laziness of one poll from an empty buffer: everything consumed before the item that produced
the result contributed nothing (no output, no `Pending`) -/
theorem pollInner_minimal (P : Params μ ε ι σ ο τ) (ended : Bool) (t : σ) (items : List (Inner μ)) :
    (pollInner P ended t items).1.stream.items = [] ∧ specTrace P t items = [] ∨
    ∃ pre last, items = pre ++ last :: (pollInner P ended t items).1.stream.items ∧
      specTrace P t pre = [] ∧
      specTrace P (specState P t (messages pre)) [last] ≠ [] := by
  induction items generalizing t with
  | nil => left; simp [pollInner, specTrace]
  | cons i items ih =>
    cases i with
    | pending =>
      right; exact ⟨[], .pending, by simp [pollInner], rfl, by simp [specTrace]⟩
    | item m =>
      simp only [pollInner]
      cases hp : P.parse m with
      | none =>
        rcases ih t with ⟨h1, h2⟩ | ⟨pre, last, h1, h2, h3⟩
        · left; exact ⟨h1, by simp [specTrace, contribution, hp, h2]⟩
        · right
          refine ⟨.item m :: pre, last, by simp [← h1], by simp [specTrace, contribution, hp, h2], ?_⟩
          simpa [messages, specState, contribution, hp] using h3
      | some r =>
        cases r with
        | error e =>
          right
          exact ⟨[], .item m, by simp, rfl, by simp [specTrace, contribution, hp, messages, specState]⟩
        | ok x =>
          simp only
          rcases htr : P.transform t x with ⟨t', outs⟩
          cases outs with
          | nil =>
            rcases ih t' with ⟨h1, h2⟩ | ⟨pre, last, h1, h2, h3⟩
            · left; exact ⟨h1, by simp [specTrace, contribution, hp, htr, h2]⟩
            · right
              refine ⟨.item m :: pre, last, by simp [← h1], by simp [specTrace, contribution, hp, htr, h2], ?_⟩
              simpa [messages, specState, contribution, hp, htr] using h3
          | cons o os =>
            right
            exact ⟨[], .item m, by simp, rfl, by simp [specTrace, contribution, hp, htr, messages, specState]⟩

/-- ASCII bytes are UTF-8 and decode to themselves -/
theorem utf8Go_ascii (bs : List Nat) (h : ∀ b ∈ bs, b < 0x80) (fuel i : Nat) (acc : List Char)
    (hf : bs.length ≤ fuel) :
    utf8Go fuel i acc bs = .ok (acc.reverse ++ bs.map Char.ofNat) := by
  induction bs generalizing fuel i acc with
  | nil => cases fuel <;> simp [utf8Go]
  | cons b bs ih =>
    cases fuel with
    | zero => simp at hf
    | succ fuel =>
      have hb : b < 0x80 := h b (by simp)
      simp only [utf8Go, hb, if_true]
      rw [ih (fun x hx => h x (by simp [hx])) fuel (i + 1) _ (by simpa using hf)]
      simp

theorem utf8Decode_ascii (bs : List Nat) (h : ∀ b ∈ bs, b < 0x80) :
    utf8Decode bs = .ok (bs.map Char.ofNat) := by
  unfold utf8Decode
  rw [utf8Go_ascii bs h _ _ _ (Nat.le_refl _)]
  simp

theorem parseExp_digits (ds : List Char) (hd : ds.all isDigit = true) (hne : ds ≠ []) :
    parseExp ('e' :: ds) = some (natOfDigits ds : Int) ∧
    parseExp ('E' :: ds) = some (natOfDigits ds : Int) ∧
    parseExp ('e' :: '-' :: ds) = some (-(natOfDigits ds : Int)) ∧
    parseExp ('e' :: '+' :: ds) = some (natOfDigits ds : Int) := by
  have hne' : ds.isEmpty = false := by cases ds <;> simp_all
  have hl : lower 'e' = 'e' := by decide
  have hL : lower 'E' = 'e' := by decide
  refine ⟨?_, ?_, ?_, ?_⟩
  · cases ds with
    | nil => exact absurd rfl hne
    | cons c r =>
      have hc : isDigit c = true := by simp at hd; exact hd.1
      have h1 : c ≠ '+' := by intro h; subst h; revert hc; decide
      have h2 : c ≠ '-' := by intro h; subst h; revert hc; decide
      unfold parseExp
      simp only [hl, if_true]
      split
      · rename_i heq; cases heq; exact absurd rfl h1
      · rename_i heq; cases heq; exact absurd rfl h2
      · simp [hd]
  · cases ds with
    | nil => exact absurd rfl hne
    | cons c r =>
      have hc : isDigit c = true := by simp at hd; exact hd.1
      have h1 : c ≠ '+' := by intro h; subst h; revert hc; decide
      have h2 : c ≠ '-' := by intro h; subst h; revert hc; decide
      unfold parseExp
      simp only [hL, if_true]
      split
      · rename_i heq; cases heq; exact absurd rfl h1
      · rename_i heq; cases heq; exact absurd rfl h2
      · simp [hd]
  · simp [parseExp, hl, hd, hne']
  · simp [parseExp, hl, hd, hne']

/-- scientific notation `ip.fp e ds` / `ip.fp e-ds` -/
theorem parseNumber_scientific (ip fp ds : List Char) (hip : ip.all isDigit = true)
    (hfp : fp.all isDigit = true) (hds : ds.all isDigit = true) (hne : ip ≠ [] ∨ fp ≠ []) (hdne : ds ≠ []) :
    parseNumber (ip ++ '.' :: (fp ++ 'e' :: ds)) =
      some ((natOfDigits (ip ++ fp) : Rat) * pow10Rat ((natOfDigits ds : Int) - fp.length)) ∧
    parseNumber (ip ++ '.' :: (fp ++ 'e' :: '-' :: ds)) =
      some ((natOfDigits (ip ++ fp) : Rat) * pow10Rat (-(natOfDigits ds : Int) - fp.length)) := by
  have h1 : ∀ rest, (ip ++ '.' :: rest).span isDigit = (ip, '.' :: rest) := fun rest =>
    span_digits ip ('.' :: rest) hip (by intro c r h; cases h; decide)
  have h2 : ∀ rest, (fp ++ 'e' :: rest).span isDigit = (fp, 'e' :: rest) := fun rest =>
    span_digits fp ('e' :: rest) hfp (by intro c r h; cases h; decide)
  have hemp : (ip.isEmpty && fp.isEmpty) = false := by
    rcases hne with h | h
    · cases ip <;> simp_all
    · cases fp <;> simp_all
  have he := parseExp_digits ds hds hdne
  constructor
  · unfold parseNumber
    simp only [h1, h2]
    simp [hemp, he.1]
  · unfold parseNumber
    simp only [h1, h2]
    simp [hemp, he.2.2.1]

/-! ## bridge to the reconnecting-stream model of C12 (`Model/Streams.lean`) -/

/-- An output item as an element of a C12 connection script: `val` / `errId` name the payloads,
`terminal` is the consumer's `is_terminal`. -/
def toElem (val : ο → Nat) (errId : τ → Nat) (terminal : τ → Bool) : Except τ ο → Streams.Elem
  | .ok x => .item (val x)
  | .error e => .error (errId e) (terminal e)

def toRes (val : ο → Nat) (errId : τ → Nat) (terminal : τ → Bool) : Except τ ο → Streams.Res
  | .ok x => .ok (val x)
  | .error e => .err ⟨errId e, terminal e⟩

theorem elemSteps_map_toElem (val : ο → Nat) (errId : τ → Nat) (terminal : τ → Bool) (l : List (Except τ ο)) :
    Streams.elemSteps (l.map (toElem val errId terminal)) =
      l.map (fun o => Streams.Step.yield (toRes val errId terminal o)) := by
  induction l with
  | nil => rfl
  | cons o l ih => cases o <;> simp [Streams.elemSteps, toElem, toRes, ih]

/-- Whether the last poll of a run answered `Ready(None)` (what a consumer — the reconnecting
stream of C12 — sees as "this connection ended"). -/
def endedBy {α : Type} (rs : List (PollRes α)) : Bool :=
  match rs.getLast? with
  | some (.ready none) => true
  | _ => false

theorem endedBy_append_replicate {α : Type} (l : List (PollRes α)) (k : Nat) (x : PollRes α) :
    endedBy (l ++ List.replicate (k + 1) x) = (match x with | .ready none => true | _ => false) := by
  unfold endedBy
  have : (l ++ List.replicate (k + 1) x).getLast? = some x := by
    rw [List.getLast?_append]
    simp [List.getLast?_replicate]
  rw [this]
  cases x with
  | pending => rfl
  | ready o => cases o <;> rfl

theorem endedBy_exhausted (ended : Bool) (l : List (PollRes (Except τ ο))) (k : Nat) :
    endedBy (l ++ List.replicate (k + 1) (exhausted ended)) = ended := by
  rw [endedBy_append_replicate]
  cases ended <;> rfl

/-! ## numerals with very large exponents (`parseNumberParts`, `parseF64Fast`) -/

theorem parseNumber_unfold (cs : List Char) :
    parseNumber cs =
      (let ip := (cs.span isDigit).1
       let t := fracSplit (cs.span isDigit).2
       if ip.isEmpty && t.1.isEmpty then none else
       match parseExp t.2.1 with
       | none => none
       | some e => some ((natOfDigits (ip ++ t.1) : Rat) * pow10Rat (e - t.1.length))) := by
  unfold parseNumber fracSplit
  rfl

theorem parts_aux (ip fp r2 : List Char) :
    (if (ip.isEmpty && fp.isEmpty) = true then (none : Option Rat) else
      match parseExp r2 with
      | none => none
      | some e => some ((natOfDigits (ip ++ fp) : Rat) * pow10Rat (e - fp.length))) =
    Option.map (fun p : List Char × Int => (natOfDigits p.1 : Rat) * pow10Rat p.2)
      (if (ip.isEmpty && fp.isEmpty) = true then none else
        match parseExp r2 with
        | none => none
        | some e => some (ip ++ fp, e - fp.length)) := by
  by_cases hc : (ip.isEmpty && fp.isEmpty) = true
  · simp only [hc, if_true, Option.map_none]
  · simp only [hc]
    cases parseExp r2 <;> rfl

/-- `parseNumber` is the value of the parts: mantissa · 10^exponent. -/
theorem parseNumber_eq_parts (cs : List Char) :
    parseNumber cs = (parseNumberParts cs).map fun p => (natOfDigits p.1 : Rat) * pow10Rat p.2 := by
  rw [parseNumber_unfold]
  unfold parseNumberParts
  exact parts_aux _ _ _

theorem parseNumber_zero_mantissa (cs ds : List Char) (e : Int) (h : parseNumberParts cs = some (ds, e))
    (h0 : natOfDigits ds = 0) : parseNumber cs = some 0 := by
  rw [parseNumber_eq_parts, h]
  simp [h0]

/-- Outside the two clamped branches `parseF64Fast` *is* `parseF64Str`, for every rounding. -/
theorem parseF64Fast_eq (sem : FloatSem) (cs : List Char)
    (h : ∀ ds e, parseNumberParts (splitSign cs).2 = some (ds, e) →
      natOfDigits ds = 0 ∨ (e < 400 ∧ -400 < e + (ds.length : Int))) :
    parseF64Fast sem cs = parseF64Str sem cs := by
  unfold parseF64Fast parseF64Str
  split
  · rfl
  · simp only []
    rw [parseNumber_eq_parts]
    cases hp : parseNumberParts (splitSign cs).2 with
    | none => rfl
    | some p =>
      obtain ⟨ds, e⟩ := p
      by_cases h0 : natOfDigits ds = 0
      · simp only [Option.map_some, h0, if_true]
        simp
      · rcases h ds e hp with hz | ⟨h1, h2⟩
        · exact absurd hz h0
        · have h1' : ¬ (400 : Int) ≤ e := by omega
          have h2' : ¬ e + (ds.length : Int) ≤ -400 := by omega
          simp only [Option.map_some, h0, h1', h2', if_false]

end BarterModel.ExStream
