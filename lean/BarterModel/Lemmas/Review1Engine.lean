import BarterModel.Lemmas.EngineScope
import BarterModel.Lemmas.Audit
/-! Helper lemmas added after the independent review of the theorems (audit/report_C01-C05.md,
audit/REVIEW-notes.md) for the engine family C03 / C19: predicates on the tracked state of one
`(instrument, client order id)` that are preserved by everything the request path does, so that the
one-call statements of C03 can be lifted to whole ticks (`process`) and to histories of ticks. -/
namespace BarterModel.Engine
open BarterModel.Orders

/-- "shown as in flight": the open request is in flight, or a cancel request for the order is in
flight (`ActiveOrderState::OpenInFlight` / `ActiveOrderState::CancelInFlight`). -/
def ShownInFlight (st : Option Active) : Prop :=
  st = some .inFlight ∨ ∃ x, st = some (.cancelInFlight x)

instance (st : Option Active) : Decidable (ShownInFlight st) :=
  match st with
  | none => isFalse (by rintro (h | ⟨x, h⟩) <;> cases h)
  | some .inFlight => isTrue (Or.inl rfl)
  | some (.opn _) => isFalse (by rintro (h | ⟨x, h⟩) <;> cases h)
  | some (.cancelInFlight x) => isTrue (Or.inr ⟨x, rfl⟩)

/-- a history of engine ticks: event, what the strategy generates if asked, what the risk manager
refuses if asked -/
abbrev TickInput := Event × List CancelReq × List OpenReq × (Key → Bool)

/-- `Engine::run` over a finite feed, state only -/
def runEngine (e : Eng) (ticks : List TickInput) : Eng :=
  ticks.foldl (fun s t => (process s t.1 t.2.1 t.2.2.1 t.2.2.2).1) e

/-- the state the requests of a tick are generated from: the event's own state update applied -/
def stateBeforeRequests (e : Eng) : Event → Eng
  | .update u => applyUpdate e u
  | .tradingState on => updateTradingState e on
  | _ => e

/-- the state the generation stage of a tick starts from: after the command's own action, if any -/
def stateBeforeGeneration (e : Eng) : Event → Eng
  | .command c => (action e c).1
  | ev => stateBeforeRequests e ev

/-- what a tick reports as commanded -/
def commandedOf (e : Eng) : Event → Option ActionOut
  | .command c => some (action e c).2
  | _ => none

/-- the event is an exchange report (order snapshot) or a cancel response for `(i, c)` -/
def Event.reportsOn (i c : Nat) : Event → Bool
  | .update (.order j (.snapshot s)) => decide (j = i ∧ s.cid = c)
  | .update (.order j (.cancelResp c' _)) => decide (j = i ∧ c' = c)
  | _ => false

/-- a property of the tracked state of one order that survives "a cancel for it is recorded" and
"an open for it is recorded" -/
structure MarkStable (P : Option Active → Prop) : Prop where
  cancel : ∀ st, P st → P (st.map fun a => .cancelInFlight a.openMeta)
  opn : ∀ st, P st → P (some .inFlight)

theorem markStable_shown : MarkStable ShownInFlight :=
  ⟨by rintro st (h | ⟨x, h⟩) <;> subst h <;> exact Or.inr ⟨_, rfl⟩, fun _ _ => Or.inl rfl⟩

theorem markStable_tracked : MarkStable (fun st => st.isSome = true) :=
  ⟨by intro st h; cases st <;> simp_all, fun _ _ => rfl⟩

/-- untracked, or shown in flight: everything except a plain `Open` -/
def NotPlainOpen (st : Option Active) : Prop := st = none ∨ ShownInFlight st

theorem markStable_notPlainOpen : MarkStable NotPlainOpen :=
  ⟨by
    rintro st (h | h)
    · subst h; exact Or.inl rfl
    · exact Or.inr (markStable_shown.cancel st h),
   fun _ _ => Or.inr (Or.inl rfl)⟩

theorem orderState_sendRequests {α : Type} (e : Eng) (toReq : α → Req) (rs : List α) (i c : Nat) :
    orderState (sendRequests e toReq rs).1 i c = orderState e i c := rfl

theorem stable_recordCancel {P : Option Active → Prop} (hP : MarkStable P) (e : Eng) (r : CancelReq)
    (i c : Nat) (h : P (orderState e i c)) : P (orderState (recordCancel e r) i c) := by
  rw [orderState_recordCancel]
  split
  · exact hP.cancel _ h
  · exact h

theorem stable_recordOpen {P : Option Active → Prop} (hP : MarkStable P) (e : Eng) (r : OpenReq)
    (i c : Nat) (h : P (orderState e i c)) : P (orderState (recordOpen e r) i c) := by
  rw [orderState_recordOpen]
  split
  · exact hP.opn _ h
  · exact h

theorem stable_recordCancels {P : Option Active → Prop} (hP : MarkStable P) (e : Eng)
    (rs : List CancelReq) (i c : Nat) (h : P (orderState e i c)) :
    P (orderState (recordCancels e rs) i c) := by
  induction rs generalizing e with
  | nil => exact h
  | cons r rs ih => exact ih _ (stable_recordCancel hP e r i c h)

theorem stable_recordOpens {P : Option Active → Prop} (hP : MarkStable P) (e : Eng)
    (rs : List OpenReq) (i c : Nat) (h : P (orderState e i c)) :
    P (orderState (recordOpens e rs) i c) := by
  induction rs generalizing e with
  | nil => exact h
  | cons r rs ih => exact ih _ (stable_recordOpen hP e r i c h)

theorem stable_action {P : Option Active → Prop} (hP : MarkStable P) (e : Eng) (cmd : Command)
    (i c : Nat) (h : P (orderState e i c)) : P (orderState (action e cmd).1 i c) := by
  cases cmd with
  | sendCancelRequests rs => exact stable_recordCancels hP _ _ i c h
  | sendOpenRequests rs => exact stable_recordOpens hP _ _ i c h
  | closePositions f => exact stable_recordOpens hP _ _ i c (stable_recordCancels hP _ _ i c h)
  | cancelOrders f => exact stable_recordCancels hP _ _ i c h

theorem stable_generateAlgoOrders {P : Option Active → Prop} (hP : MarkStable P) (e : Eng)
    (cs : List CancelReq) (os : List OpenReq) (refuse : Key → Bool) (i c : Nat)
    (h : P (orderState e i c)) : P (orderState (generateAlgoOrders e cs os refuse).1 i c) :=
  stable_recordOpens hP _ _ i c (stable_recordCancels hP _ _ i c h)

theorem stable_generateStage {P : Option Active → Prop} (hP : MarkStable P) (e : Eng)
    (cmd : Option ActionOut) (cs : List CancelReq) (os : List OpenReq) (refuse : Key → Bool)
    (i c : Nat) (h : P (orderState e i c)) :
    P (orderState (generateStage e cmd cs os refuse).1 i c) := by
  unfold generateStage
  split
  · exact stable_generateAlgoOrders hP e cs os refuse i c h
  · exact h

theorem orderState_updateTradingState (e : Eng) (on : Bool) (i c : Nat) :
    orderState (updateTradingState e on) i c = orderState e i c := by
  unfold updateTradingState; split <;> rfl

/-- the whole tick after the event's own state update: command action (if any), then generation -/
theorem stable_process_from {P : Option Active → Prop} (hP : MarkStable P) (e : Eng) (ev : Event)
    (cs : List CancelReq) (os : List OpenReq) (refuse : Key → Bool) (i c : Nat)
    (h : P (orderState (stateBeforeRequests e ev) i c)) :
    P (orderState (process e ev cs os refuse).1 i c) := by
  cases ev with
  | shutdown => exact h
  | command cmd =>
    simp only [process]
    split
    · exact stable_action hP e cmd i c h
    · exact stable_generateStage hP _ _ _ _ _ i c (stable_action hP e cmd i c h)
  | tradingState on => exact stable_generateStage hP _ _ _ _ _ i c h
  | update u => exact stable_generateStage hP _ _ _ _ _ i c h

/-- an event that is not an exchange report / cancel response for `(i, c)` leaves the tracked state of
`(i, c)` to the request path: its own state update does not touch a mark-stable property -/
theorem stable_stateBeforeRequests {P : Option Active → Prop} (hP : MarkStable P) (e : Eng)
    (ev : Event) (i c : Nat) (hev : ev.reportsOn i c = false) (h : P (orderState e i c)) :
    P (orderState (stateBeforeRequests e ev) i c) := by
  cases ev with
  | shutdown => exact h
  | command cmd => exact h
  | tradingState on => simpa [stateBeforeRequests, orderState_updateTradingState] using h
  | update u =>
    cases u with
    | order j op =>
      simp only [stateBeforeRequests]
      unfold orderState applyUpdate
      simp only [modifyInstr_getElem?]
      by_cases hj : i = j
      · subst hj
        cases hs : e.instruments[i]? with
        | none => simpa [orderState, hs] using h
        | some s =>
          have h' : P (stateOf s.orders c) := by simpa [orderState, hs] using h
          simp only [↓reduceIte, Option.map_some]
          cases op with
          | recOpen c' q p x =>
            by_cases hc : c = c'
            · subst hc
              have : stateOf (step s.orders (.recOpen c q p x)) c = some .inFlight := by
                simp [stateOf, step, recordInFlightOpen, lookup_insert_self]
              rw [this]; exact hP.opn _ h'
            · have := step_frame s.orders (.recOpen c' q p x) c hc
              simpa [stateOf, this] using h'
          | recCancel c' =>
            by_cases hc : c = c'
            · subst hc
              have : stateOf (step s.orders (.recCancel c)) c =
                  (stateOf s.orders c).map fun a => .cancelInFlight a.openMeta := by
                simp only [stateOf, step, lookup_recordInFlightCancel, ↓reduceIte]
                cases lookup s.orders c <;> rfl
              rw [this]; exact hP.cancel _ h'
            · have := step_frame s.orders (.recCancel c') c hc
              simpa [stateOf, this] using h'
          | snapshot sn =>
            have hc : c ≠ sn.cid := by
              intro hc; simp [Event.reportsOn, hc] at hev
            have := step_frame s.orders (.snapshot sn) c hc
            simpa [stateOf, this] using h'
          | cancelResp c' ok =>
            have hc : c ≠ c' := by
              intro hc; simp [Event.reportsOn, hc] at hev
            have := step_frame s.orders (.cancelResp c' ok) c hc
            simpa [stateOf, this] using h'
      · simpa [hj, orderState] using h
    | position j side q =>
      simp only [stateBeforeRequests]
      rw [BarterModel.Audit.orderState_applyUpdate_other _ _ _ _ (by intro i op; simp)]; exact h
    | flat j =>
      simp only [stateBeforeRequests]
      rw [BarterModel.Audit.orderState_applyUpdate_other _ _ _ _ (by intro i op; simp)]; exact h
    | price j p =>
      simp only [stateBeforeRequests]
      rw [BarterModel.Audit.orderState_applyUpdate_other _ _ _ _ (by intro i op; simp)]; exact h
    | other => exact h

/-- The shape of one tick: the audit's `commanded` part is the command's action output; generation
either did not run (the state is the one the command / the event's update left) or it ran from that
state with the strategy's and the risk manager's answers. -/
theorem process_shape (e : Eng) (ev : Event) (cs : List CancelReq) (os : List OpenReq)
    (refuse : Key → Bool) :
    (process e ev cs os refuse).2.commanded = commandedOf e ev ∧
    (((process e ev cs os refuse).2.generated = none ∧
        (process e ev cs os refuse).1 = stateBeforeGeneration e ev) ∨
     ((process e ev cs os refuse).2.generated =
          some (generateAlgoOrders (stateBeforeGeneration e ev) cs os refuse).2 ∧
        (process e ev cs os refuse).1 =
          (generateAlgoOrders (stateBeforeGeneration e ev) cs os refuse).1)) := by
  have key : ∀ (e' : Eng) (cmd : Option ActionOut),
      (generateStage e' cmd cs os refuse).2.commanded = cmd ∧
      (((generateStage e' cmd cs os refuse).2.generated = none ∧
          (generateStage e' cmd cs os refuse).1 = e') ∨
       ((generateStage e' cmd cs os refuse).2.generated = some (generateAlgoOrders e' cs os refuse).2 ∧
          (generateStage e' cmd cs os refuse).1 = (generateAlgoOrders e' cs os refuse).1)) := by
    intro e' cmd
    unfold generateStage
    split
    · exact ⟨rfl, Or.inr ⟨rfl, rfl⟩⟩
    · exact ⟨rfl, Or.inl ⟨rfl, rfl⟩⟩
  cases ev with
  | shutdown => exact ⟨rfl, Or.inl ⟨rfl, rfl⟩⟩
  | command c =>
    simp only [process]
    split
    · exact ⟨rfl, Or.inl ⟨rfl, rfl⟩⟩
    · exact key _ _
  | tradingState on => exact key _ _
  | update u => exact key _ _

theorem applyUpdate_length (e : Eng) (u : Update) :
    (applyUpdate e u).instruments.length = e.instruments.length := by
  cases u <;> simp [applyUpdate, modifyInstr_length]

theorem action_length (e : Eng) (c : Command) :
    (action e c).1.instruments.length = e.instruments.length := by
  cases c <;> simp [action, recordOpens_length, recordCancels_length, sendRequests]

theorem stateBeforeGeneration_length (e : Eng) (ev : Event) :
    (stateBeforeGeneration e ev).instruments.length = e.instruments.length := by
  cases ev with
  | shutdown => rfl
  | command c => exact action_length e c
  | tradingState on => simp only [stateBeforeGeneration, stateBeforeRequests]; unfold updateTradingState; split <;> rfl
  | update u => exact applyUpdate_length e u

/-- a recorded cancel leaves the order it names untracked (it was) or cancel-in-flight, whatever else
is recorded after it -/
theorem notPlainOpen_recordCancels_mem (e : Eng) (rs : List CancelReq) (r : CancelReq) (hr : r ∈ rs) :
    NotPlainOpen (orderState (recordCancels e rs) r.key.instrument r.key.cid) := by
  induction rs generalizing e with
  | nil => cases hr
  | cons b rs ih =>
    simp only [recordCancels, List.foldl_cons]
    rcases List.mem_cons.mp hr with rfl | hr'
    · apply stable_recordCancels markStable_notPlainOpen
      rw [orderState_recordCancel]
      simp only [and_self, ↓reduceIte]
      cases orderState e r.key.instrument r.key.cid with
      | none => exact Or.inl rfl
      | some a => exact Or.inr (Or.inr ⟨_, rfl⟩)
    · exact ih (recordCancel e b) hr'

/-- exact effect of recording a list of cancels on one order -/
theorem orderState_recordCancels (e : Eng) (rs : List CancelReq) (i c : Nat) :
    orderState (recordCancels e rs) i c =
      if rs.any (fun r => decide (r.key.instrument = i ∧ r.key.cid = c)) then
        (orderState e i c).map fun a => .cancelInFlight a.openMeta
      else orderState e i c := by
  induction rs generalizing e with
  | nil => simp [recordCancels]
  | cons r rs ih =>
    simp only [recordCancels, List.foldl_cons] at *
    rw [ih, orderState_recordCancel]
    by_cases hr : r.key.instrument = i ∧ r.key.cid = c
    · have hr' : i = r.key.instrument ∧ c = r.key.cid := ⟨hr.1.symm, hr.2.symm⟩
      have hd : decide (r.key.instrument = i ∧ r.key.cid = c) = true := decide_eq_true hr
      rw [if_pos hr', List.any_cons, hd, Bool.true_or, if_pos rfl]
      split
      · cases orderState e i c <;> simp [Active.openMeta]
      · rfl
    · have hr' : ¬ (i = r.key.instrument ∧ c = r.key.cid) := fun h => hr ⟨h.1.symm, h.2.symm⟩
      have hd : decide (r.key.instrument = i ∧ r.key.cid = c) = false := decide_eq_false hr
      rw [if_neg hr', List.any_cons, hd, Bool.false_or]

/-- exact effect of recording a list of opens on one order -/
theorem orderState_recordOpens (e : Eng) (rs : List OpenReq) (i c : Nat) :
    orderState (recordOpens e rs) i c =
      if rs.any (fun r => decide (r.key.instrument = i ∧ r.key.cid = c)) ∧ i < e.instruments.length
      then some .inFlight else orderState e i c := by
  induction rs generalizing e with
  | nil => simp [recordOpens]
  | cons r rs ih =>
    simp only [recordOpens, List.foldl_cons] at *
    rw [ih, orderState_recordOpen, recordOpen_length]
    by_cases hr : r.key.instrument = i ∧ r.key.cid = c
    · have hd : decide (r.key.instrument = i ∧ r.key.cid = c) = true := decide_eq_true hr
      rw [List.any_cons, hd, Bool.true_or]
      by_cases hi : i < e.instruments.length
      · have h1 : i = r.key.instrument ∧ c = r.key.cid ∧ i < e.instruments.length :=
          ⟨hr.1.symm, hr.2.symm, hi⟩
        rw [if_pos h1]
        simp [hi]
      · have h1 : ¬ (i = r.key.instrument ∧ c = r.key.cid ∧ i < e.instruments.length) :=
          fun h => hi h.2.2
        rw [if_neg h1]
        simp [hi]
    · have hd : decide (r.key.instrument = i ∧ r.key.cid = c) = false := decide_eq_false hr
      have hr' : ¬ (i = r.key.instrument ∧ c = r.key.cid ∧ i < e.instruments.length) :=
        fun h => hr ⟨h.1.symm, h.2.1.symm⟩
      rw [List.any_cons, hd, Bool.false_or, if_neg hr']

end BarterModel.Engine
