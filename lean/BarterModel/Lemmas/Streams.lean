import BarterModel.Model.Streams
/-! Helper lemmas for C12 (reconnecting streams, merge). Core Lean only. -/
namespace BarterModel.Streams

/-! ### traces -/

@[simp] theorem yields_nil {α : Type} : yields ([] : List (Step α)) = [] := rfl
@[simp] theorem yields_yield {α : Type} (a : α) (r : List (Step α)) :
    yields (.yield a :: r) = a :: yields r := rfl
@[simp] theorem yields_eff {α : Type} (e : Eff) (r : List (Step α)) :
    yields (.eff e :: r) = yields r := rfl
@[simp] theorem effects_nil {α : Type} : effects ([] : List (Step α)) = [] := rfl
@[simp] theorem effects_yield {α : Type} (a : α) (r : List (Step α)) :
    effects (.yield a :: r) = effects r := rfl
@[simp] theorem effects_eff {α : Type} (e : Eff) (r : List (Step α)) :
    effects (.eff e :: r) = e :: effects r := rfl

theorem yields_append {α : Type} (a b : List (Step α)) : yields (a ++ b) = yields a ++ yields b := by
  induction a with
  | nil => rfl
  | cons s r ih => cases s <;> simp [ih]

theorem effects_append {α : Type} (a b : List (Step α)) :
    effects (a ++ b) = effects a ++ effects b := by
  induction a with
  | nil => rfl
  | cons s r ih => cases s <;> simp [ih]

theorem sleepsOf_append (a b : List Eff) : sleepsOf (a ++ b) = sleepsOf a ++ sleepsOf b := by
  induction a with
  | nil => rfl
  | cons e r ih => cases e <;> simp [sleepsOf, ih]

theorem handledOf_append (a b : List Eff) : handledOf (a ++ b) = handledOf a ++ handledOf b := by
  induction a with
  | nil => rfl
  | cons e r ih => cases e <;> simp [handledOf, ih]

theorem errorIds_append (a b : List (Event Res)) : errorIds (a ++ b) = errorIds a ++ errorIds b := by
  induction a with
  | nil => rfl
  | cons e r ih =>
    cases e with
    | reconnecting => simp [errorIds, ih]
    | item x => cases x <;> simp [errorIds, ih]

theorem okEvents_append (a b : List (Event Res)) : okEvents (a ++ b) = okEvents a ++ okEvents b := by
  induction a with
  | nil => rfl
  | cons e r ih =>
    cases e with
    | reconnecting => simp [okEvents, ih]
    | item x => cases x <;> simp [okEvents, ih]

/-! ### the composed pipeline, unfolded step by step -/

/-- The composition of `consumer.rs:77-79` applied to an outer trace that never ends. -/
def pipe (st : ReconnectionState) (outer : List (Step InitRes)) : Str (Event Res) :=
  withReconnectionEvents (withTerminationOnError (withReconnectBackoffFrom st ⟨outer, false⟩))

/-- What `with_termination_on_error` + `with_reconnection_events` make of one inner stream. -/
def innerEvents (inner : Str Res) : Str (Event Res) :=
  ((inner.mapWhile untilTerminal).map Event.item).chain (Str.once Event.reconnecting)

theorem pipe_nil (st : ReconnectionState) : pipe st [] = ⟨[], false⟩ := rfl

theorem pipe_eff (st : ReconnectionState) (e : Eff) (r : List (Step InitRes)) :
    pipe st (.eff e :: r) = ⟨.eff e :: (pipe st r).steps, (pipe st r).ends⟩ := by
  simp [pipe, withReconnectionEvents, withTerminationOnError, withReconnectBackoffFrom, Str.map,
    Str.flatten, scanSteps, filterMapSteps, mapSteps, flattenSteps]

theorem pipe_err (st : ReconnectionState) (r : List (Step InitRes)) :
    pipe st (.yield .err :: r) =
      ⟨.eff (.sleep st.current) :: (pipe st.multiply r).steps, (pipe st.multiply r).ends⟩ := by
  simp [pipe, withReconnectionEvents, withTerminationOnError, withReconnectBackoffFrom, Str.map,
    Str.flatten, scanSteps, filterMapSteps, mapSteps, flattenSteps, backoffStep, okOnly]

theorem pipe_ok (st : ReconnectionState) (inner : Str Res) (r : List (Step InitRes)) :
    pipe st (.yield (.ok inner) :: r) =
      if (innerEvents inner).ends then
        ⟨(innerEvents inner).steps ++ (pipe st.reset r).steps, (pipe st.reset r).ends⟩
      else ⟨(innerEvents inner).steps, false⟩ := by
  simp [pipe, withReconnectionEvents, withTerminationOnError, withReconnectBackoffFrom, Str.map,
    Str.flatten, scanSteps, filterMapSteps, mapSteps, flattenSteps, backoffStep, okOnly, innerEvents]
  rfl

theorem flattenSteps_false_ends {α : Type} (l : List (Step (Str α))) :
    (flattenSteps l false).ends = false := by
  induction l with
  | nil => rfl
  | cons s r ih =>
    cases s with
    | eff e => simp [flattenSteps, ih]
    | yield inner =>
      by_cases h : inner.ends <;> simp [flattenSteps, h, ih]

theorem pipe_ends (st : ReconnectionState) (outer : List (Step InitRes)) : (pipe st outer).ends = false := by
  simp [pipe, withReconnectionEvents, Str.flatten, Str.map, withTerminationOnError,
    withReconnectBackoffFrom, flattenSteps_false_ends]

/-! ### one connection -/

theorem mapWhile_elems (elems : List Elem) :
    mapSteps Event.item (mapWhileSteps untilTerminal (elemSteps elems)).1 = delivered elems ∧
    (mapWhileSteps untilTerminal (elemSteps elems)).2 = hasTerminal elems := by
  induction elems with
  | nil => exact ⟨rfl, rfl⟩
  | cons el r ih =>
    cases el with
    | item x => simp [elemSteps, mapWhileSteps, untilTerminal, mapSteps, delivered, hasTerminal, ih]
    | delay ms => simp [elemSteps, mapWhileSteps, mapSteps, delivered, hasTerminal, ih]
    | error e t =>
      cases t <;> simp [elemSteps, mapWhileSteps, untilTerminal, mapSteps, delivered, hasTerminal, ih]

theorem innerEvents_conn (elems : List Elem) (hang : Bool) :
    innerEvents (connStream elems hang) =
      ⟨delivered elems ++ (if dropped elems hang then [.yield .reconnecting] else []),
        dropped elems hang⟩ := by
  have ⟨h1, h2⟩ := mapWhile_elems elems
  unfold innerEvents Str.mapWhile Str.map Str.chain Str.once connStream dropped
  simp only []
  rw [h2, h1]
  by_cases h : (hasTerminal elems || !hang) = true <;> simp [h]

/-! ### refinement of the spec -/

theorem pipe_reconnections (p : Policy) (script : List Conn) :
    ∀ n, (pipe ⟨p, backoffAt p n⟩ (reconnections script)).steps = specConns p n script := by
  induction script with
  | nil => intro n; rfl
  | cons c cs ih =>
    intro n
    cases c with
    | initFail =>
      simp only [reconnections, Conn.result, pipe_eff, pipe_err, specConns]
      have := ih (n + 1)
      simp only [backoffAt] at this
      simp [ReconnectionState.multiply, this]
    | initOk elems hang =>
      simp only [reconnections, Conn.result, pipe_eff, pipe_ok, innerEvents_conn, specConns]
      have := ih 0
      simp only [backoffAt] at this
      by_cases h : dropped elems hang = true
      · simp [h, ReconnectionState.reset, this]
      · simp [h]

theorem eventStream_eq (p : Policy) (elems : List Elem) (hang : Bool) (rest : List Conn) :
    eventStream p (connStream elems hang) rest =
      ⟨delivered elems ++ (if dropped elems hang then .yield .reconnecting :: specConns p 0 rest else []),
        false⟩ := by
  have hp : eventStream p (connStream elems hang) rest =
      pipe (.ofPolicy p) (.yield (.ok (connStream elems hang)) :: reconnections rest) := by
    simp [eventStream, pipe, withReconnectBackoff, initReconnecting, Str.chain, Str.once]
  rw [hp, pipe_ok, innerEvents_conn]
  have := pipe_reconnections p rest 0
  simp only [backoffAt] at this
  by_cases h : dropped elems hang = true
  · simp [h, ReconnectionState.reset, ReconnectionState.ofPolicy, this, pipe_ends]
  · simp [h]

/-! ### handler and forwarding stages -/

theorem filterMap_handle (l : List (Step (Event Res))) : filterMapSteps handle l = toHandler l := by
  induction l with
  | nil => rfl
  | cons s r ih =>
    cases s with
    | eff e => simp [filterMapSteps, toHandler, ih]
    | yield ev =>
      cases ev with
      | reconnecting => simp [filterMapSteps, toHandler, handle, ih]
      | item x => cases x <;> simp [filterMapSteps, toHandler, handle, ih]

theorem forwardSteps_none {α : Type} (l : List (Step α)) : forwardSteps none l = (l, false) := by
  induction l with
  | nil => rfl
  | cons s r ih => cases s <;> simp [forwardSteps, ih]

theorem forwardSteps_some {α : Type} (l : List (Step α)) :
    ∀ n, forwardSteps (some n) l = cutAfter n l := by
  induction l with
  | nil => intro n; rfl
  | cons s r ih =>
    intro n
    cases s with
    | eff e => simp [forwardSteps, cutAfter, ih]
    | yield a => cases n <;> simp [forwardSteps, cutAfter, ih]

theorem cutAfter_yields {α : Type} (l : List (Step α)) :
    ∀ n, yields (cutAfter n l).1 = (yields l).take n ∧
      ((cutAfter n l).2 = true ↔ n < (yields l).length) ∧ (cutAfter n l).1 <+: l := by
  induction l with
  | nil => intro n; simp [cutAfter]
  | cons s r ih =>
    intro n
    cases s with
    | eff e =>
      have ⟨h1, h2, h3⟩ := ih n
      refine ⟨by simpa [cutAfter] using h1, by simpa [cutAfter] using h2, ?_⟩
      simpa [cutAfter, List.cons_prefix_cons] using h3
    | yield a =>
      cases n with
      | zero => simp [cutAfter]
      | succ n =>
        have ⟨h1, h2, h3⟩ := ih n
        refine ⟨by simpa [cutAfter] using h1, by simpa [cutAfter] using h2, ?_⟩
        simpa [cutAfter, List.cons_prefix_cons] using h3

/-! ### views of the spec trace -/

theorem yields_delivered (elems : List Elem) : yields (delivered elems) = connItems elems := by
  induction elems with
  | nil => rfl
  | cons el r ih =>
    cases el with
    | item x => simp [delivered, connItems, ih]
    | delay ms => simp [delivered, connItems, ih]
    | error e t => cases t <;> simp [delivered, connItems, ih]

theorem sleeps_delivered (elems : List Elem) : sleepsOf (effects (delivered elems)) = [] := by
  induction elems with
  | nil => rfl
  | cons el r ih =>
    cases el with
    | item x => simp [delivered, ih]
    | delay ms => simp [delivered, sleepsOf, ih]
    | error e t => cases t <;> simp [delivered, ih, sleepsOf]

theorem yields_specConns (p : Policy) (cs : List Conn) : ∀ n, yields (specConns p n cs) = segments cs := by
  induction cs with
  | nil => intro n; rfl
  | cons c cs ih =>
    intro n
    cases c with
    | initFail => simp [specConns, segments, ih]
    | initOk elems hang =>
      by_cases h : dropped elems hang = true
      · simp [specConns, segments, yields_append, yields_delivered, h, ih]
      · simp [specConns, segments, yields_delivered, h]

theorem sleeps_specConns (p : Policy) (cs : List Conn) :
    ∀ n, sleepsOf (effects (specConns p n cs)) = specWaits p n cs := by
  induction cs with
  | nil => intro n; rfl
  | cons c cs ih =>
    intro n
    cases c with
    | initFail => simp [specConns, specWaits, sleepsOf, ih]
    | initOk elems hang =>
      by_cases h : dropped elems hang = true
      · simp [specConns, specWaits, sleepsOf, effects_append, sleepsOf_append, sleeps_delivered, h, ih]
      · simp [specConns, specWaits, sleepsOf, sleeps_delivered, h]

theorem specConns_prefix (p : Policy) (a b : List Conn) :
    ∀ n, specConns p n a <+: specConns p n (a ++ b) := by
  induction a with
  | nil => intro n; simp [specConns]
  | cons c cs ih =>
    intro n
    cases c with
    | initFail => simp [specConns, List.cons_prefix_cons, ih]
    | initOk elems hang =>
      by_cases h : dropped elems hang = true
      · simp [specConns, List.cons_prefix_cons, h, List.prefix_append_right_inj, ih]
      · simp [specConns, h]

theorem toHandler_append (a b : List (Step (Event Res))) :
    toHandler (a ++ b) = toHandler a ++ toHandler b := by
  induction a with
  | nil => rfl
  | cons s r ih =>
    cases s with
    | eff e => simp [toHandler, ih]
    | yield ev =>
      cases ev with
      | reconnecting => simp [toHandler, ih]
      | item x => cases x <;> simp [toHandler, ih]

theorem toHandler_prefix {a b : List (Step (Event Res))} (h : a <+: b) : toHandler a <+: toHandler b := by
  obtain ⟨t, rfl⟩ := h
  rw [toHandler_append]; exact List.prefix_append _ _

theorem yields_toHandler (l : List (Step (Event Res))) : yields (toHandler l) = okEvents (yields l) := by
  induction l with
  | nil => rfl
  | cons s r ih =>
    cases s with
    | eff e => simp [toHandler, ih]
    | yield ev =>
      cases ev with
      | reconnecting => simp [toHandler, okEvents, ih]
      | item x => cases x <;> simp [toHandler, okEvents, ih]

theorem handled_toHandler (l : List (Step (Event Res))) (h : handledOf (effects l) = []) :
    handledOf (effects (toHandler l)) = errorIds (yields l) := by
  induction l with
  | nil => rfl
  | cons s r ih =>
    cases s with
    | eff e =>
      cases e <;> simp [toHandler, handledOf] at h ⊢ <;> exact ih h
    | yield ev =>
      cases ev with
      | reconnecting => simpa [toHandler, errorIds] using ih h
      | item x => cases x <;> simp [toHandler, errorIds, handledOf] at h ⊢ <;> exact ih h

theorem handled_delivered (elems : List Elem) : handledOf (effects (delivered elems)) = [] := by
  induction elems with
  | nil => rfl
  | cons el r ih =>
    cases el with
    | item x => simp [delivered, ih]
    | delay ms => simp [delivered, handledOf, ih]
    | error e t => cases t <;> simp [delivered, ih, handledOf]

theorem handled_specConns (p : Policy) (cs : List Conn) :
    ∀ n, handledOf (effects (specConns p n cs)) = [] := by
  induction cs with
  | nil => intro n; rfl
  | cons c cs ih =>
    intro n
    cases c with
    | initFail => simp [specConns, handledOf, ih]
    | initOk elems hang =>
      by_cases h : dropped elems hang = true
      · simp [specConns, handledOf, effects_append, handledOf_append, handled_delivered, h, ih]
      · simp [specConns, handledOf, handled_delivered, h]

/-! ### back-off closed form -/

theorem backoffAt_le_max (p : Policy) (n : Nat) : backoffAt p (n + 1) ≤ p.max := by
  simp [backoffAt]; omega

theorem backoffAt_closed (p : Policy) (hm : 1 ≤ p.mult) (n : Nat) :
    backoffAt p (n + 1) = min (p.initial * p.mult ^ (n + 1)) p.max := by
  induction n with
  | zero => simp [backoffAt]
  | succ n ih =>
    have hp : p.initial * p.mult ^ (n + 1 + 1) = p.initial * p.mult ^ (n + 1) * p.mult := by
      rw [Nat.pow_succ p.mult (n + 1), Nat.mul_assoc]
    rw [backoffAt, ih, hp]
    generalize p.initial * p.mult ^ (n + 1) = a
    -- min (min a M * m) M = min (a * m) M   for m ≥ 1
    by_cases h : a ≤ p.max
    · rw [Nat.min_eq_left h]
    · have h' : p.max ≤ a := by omega
      rw [Nat.min_eq_right h']
      have h1 : p.max ≤ p.max * p.mult := Nat.le_mul_of_pos_right _ hm
      have h2 : p.max * p.mult ≤ a * p.mult := Nat.mul_le_mul_right _ h'
      rw [Nat.min_eq_right h1, Nat.min_eq_right (Nat.le_trans h1 h2)]

/-! ### merge -/

/-- Reachable-state invariant of the merge model: the merged stream is done exactly when an end
marker has been yielded, and an input yields its marker only when closed and drained. -/
def MergeSt.Inv (st : MergeSt) : Prop :=
  st.done = (st.a.marker || st.b.marker) ∧
  (st.a.marker = true → st.a.closed = true ∧ st.a.queue = []) ∧
  (st.b.marker = true → st.b.closed = true ∧ st.b.queue = [])

theorem MergeSt.inv_init : MergeSt.init.Inv := by simp [MergeSt.Inv, MergeSt.init]

theorem MergeSt.pollWith_done (f : Bool) (st : MergeSt) (h : st.done = true) :
    st.pollWith f = (st, .ended) := by simp [MergeSt.pollWith, h]

theorem MergeSt.inv_pollWith (f : Bool) (st : MergeSt) (h : st.Inv) : (st.pollWith f).1.Inv := by
  rcases st with ⟨⟨qa, ca, ma⟩, ⟨qb, cb, mb⟩, af, d⟩
  cases f <;> cases d <;> cases qa <;> cases qb <;> cases ca <;> cases cb <;> cases ma <;> cases mb <;>
    simp_all [MergeSt.pollWith, Side.poll, MergeSt.Inv]

theorem MergeSt.pollWith_allowed (f : Bool) (st : MergeSt) (h : st.Inv) :
    ((st.pollWith f).1.abs, (st.pollWith f).2) ∈ st.abs.allowed := by
  rcases st with ⟨⟨qa, ca, ma⟩, ⟨qb, cb, mb⟩, af, d⟩
  cases f <;> cases d <;> cases qa <;> cases qb <;> cases ca <;> cases cb <;> cases ma <;> cases mb <;>
    simp_all [MergeSt.pollWith, Side.poll, MergeSt.Inv, MergeSt.abs, MCfg.allowed]

theorem MergeSt.pollWith_pending (f : Bool) (st : MergeSt) (h : st.Inv)
    (hp : (st.pollWith f).2 = .pending) :
    st.a.queue = [] ∧ st.b.queue = [] ∧ st.a.closed = false ∧ st.b.closed = false ∧
      (st.pollWith f).1 = { st with aFirst := !f } := by
  rcases st with ⟨⟨qa, ca, ma⟩, ⟨qb, cb, mb⟩, af, d⟩
  cases f <;> cases d <;> cases qa <;> cases qb <;> cases ca <;> cases cb <;> cases ma <;> cases mb <;>
    simp_all [MergeSt.pollWith, Side.poll, MergeSt.Inv]

/-- what a poll does to the queues: an item leaves the head of its own queue, nothing else moves -/
theorem MergeSt.pollWith_queues (f : Bool) (st : MergeSt) :
    match (st.pollWith f).2 with
    | .item true x => st.a.queue = x :: (st.pollWith f).1.a.queue ∧ (st.pollWith f).1.b.queue = st.b.queue
    | .item false x => st.b.queue = x :: (st.pollWith f).1.b.queue ∧ (st.pollWith f).1.a.queue = st.a.queue
    | _ => (st.pollWith f).1.a.queue = st.a.queue ∧ (st.pollWith f).1.b.queue = st.b.queue := by
  rcases st with ⟨⟨qa, ca, ma⟩, ⟨qb, cb, mb⟩, af, d⟩
  cases f <;> cases d <;> cases qa <;> cases qb <;> cases ca <;> cases cb <;> cases ma <;> cases mb <;>
    simp [MergeSt.pollWith, Side.poll]

theorem MergeSt.pollWith_closed (f : Bool) (st : MergeSt) :
    (st.pollWith f).1.a.closed = st.a.closed ∧ (st.pollWith f).1.b.closed = st.b.closed := by
  rcases st with ⟨⟨qa, ca, ma⟩, ⟨qb, cb, mb⟩, af, d⟩
  cases f <;> cases d <;> cases qa <;> cases qb <;> cases ca <;> cases cb <;> cases ma <;> cases mb <;>
    simp [MergeSt.pollWith, Side.poll]

theorem MergeSt.inv_step (st : MergeSt) (op : MOp) (h : st.Inv) : (st.step op).1.Inv := by
  cases op with
  | poll f => exact MergeSt.inv_pollWith f st h
  | close left =>
    rcases st with ⟨⟨qa, ca, ma⟩, ⟨qb, cb, mb⟩, af, d⟩
    cases left <;> simp_all [MergeSt.step, MergeSt.setSide, MergeSt.side, MergeSt.Inv]
  | send left x =>
    rcases st with ⟨⟨qa, ca, ma⟩, ⟨qb, cb, mb⟩, af, d⟩
    cases left <;> cases ca <;> cases cb <;> cases d <;> cases ma <;> cases mb <;>
      simp_all [MergeSt.step, MergeSt.setSide, MergeSt.side, MergeSt.Inv]

theorem MergeSt.inv_run (ops : List MOp) : ∀ (st : MergeSt), st.Inv → (st.run ops).1.Inv := by
  induction ops with
  | nil => intro st h; exact h
  | cons op ops ih =>
    intro st h
    simp only [MergeSt.run]
    exact ih _ (MergeSt.inv_step st op h)

theorem MergeSt.step_conserves (st : MergeSt) (op : MOp) (left : Bool) :
    polled left [(st.step op).2] ++ ((st.step op).1.side left).queue =
      (st.side left).queue ++ acceptedOf left [(st.step op).2] := by
  cases op with
  | poll f =>
    have := MergeSt.pollWith_queues f st
    simp only [MergeSt.step]
    cases ho : (st.pollWith f).2 with
    | pending => rw [ho] at this; cases left <;> simp [polled, acceptedOf, MergeSt.side, this]
    | ended => rw [ho] at this; cases left <;> simp [polled, acceptedOf, MergeSt.side, this]
    | item l x =>
      rw [ho] at this
      cases l <;> cases left <;> simp_all [polled, acceptedOf, MergeSt.side]
  | close l =>
    cases l <;> cases left <;> simp [MergeSt.step, MergeSt.setSide, MergeSt.side, polled, acceptedOf]
  | send l x =>
    rcases st with ⟨⟨qa, ca, ma⟩, ⟨qb, cb, mb⟩, af, d⟩
    cases l <;> cases left <;> cases ca <;> cases cb <;> cases d <;>
      simp [MergeSt.step, MergeSt.setSide, MergeSt.side, polled, acceptedOf]

theorem polled_cons (left : Bool) (o : MObs) (r : List MObs) :
    polled left (o :: r) = polled left [o] ++ polled left r := by
  cases o with
  | out m => cases m <;> simp [polled]; split <;> simp
  | _ => simp [polled]

theorem acceptedOf_cons (left : Bool) (o : MObs) (r : List MObs) :
    acceptedOf left (o :: r) = acceptedOf left [o] ++ acceptedOf left r := by
  cases o <;> simp [acceptedOf]; split <;> simp

theorem MergeSt.run_conserves (ops : List MOp) (left : Bool) : ∀ (st : MergeSt),
    polled left (st.run ops).2 ++ ((st.run ops).1.side left).queue =
      (st.side left).queue ++ acceptedOf left (st.run ops).2 := by
  induction ops with
  | nil => intro st; simp [MergeSt.run, polled, acceptedOf]
  | cons op ops ih =>
    intro st
    simp only [MergeSt.run]
    rw [polled_cons, acceptedOf_cons, List.append_assoc, ih, ← List.append_assoc,
      MergeSt.step_conserves, List.append_assoc]

end BarterModel.Streams
