import BarterModel.Lemmas.Engine
/-! Helper lemmas for C19: key-uniqueness of the order tables, the cid sort is a permutation,
membership in the generated request lists, the effect of recording cancels / opens on whole
instrument states. -/
namespace BarterModel.Orders

/-- the client order ids of a table -/
def keys (m : Orders) : List Nat := m.map (·.1)

/-- `FnvHashMap` invariant of the association-list model: no client order id occurs twice -/
def KeysUnique (m : Orders) : Prop := (keys m).Nodup

theorem mem_keys_erase (m : Orders) (c k : Nat) : k ∈ keys (erase m c) ↔ k ∈ keys m ∧ k ≠ c := by
  induction m with
  | nil => simp [erase, keys]
  | cons kv rest ih =>
    obtain ⟨k', v⟩ := kv
    simp only [keys] at ih ⊢
    by_cases h : k' = c
    · subst h
      simp only [erase, ↓reduceIte, ih, List.map_cons, List.mem_cons]
      constructor
      · rintro ⟨h1, h2⟩; exact ⟨Or.inr h1, h2⟩
      · rintro ⟨h1 | h1, h2⟩
        · exact absurd h1 h2
        · exact ⟨h1, h2⟩
    · simp only [erase, h, ↓reduceIte, List.map_cons, List.mem_cons, ih]
      constructor
      · rintro (h1 | ⟨h1, h2⟩)
        · exact ⟨Or.inl h1, by rw [h1]; exact h⟩
        · exact ⟨Or.inr h1, h2⟩
      · rintro ⟨h1 | h1, h2⟩
        · exact Or.inl h1
        · exact Or.inr ⟨h1, h2⟩

theorem keysUnique_erase (m : Orders) (c : Nat) (h : KeysUnique m) : KeysUnique (erase m c) := by
  induction m with
  | nil => simpa [erase] using h
  | cons kv rest ih =>
    obtain ⟨k, v⟩ := kv
    have h' : (k :: keys rest).Nodup := h
    have hc : k ∉ keys rest ∧ KeysUnique rest := List.nodup_cons.mp h'
    by_cases hk : k = c
    · simp only [erase, hk, ↓reduceIte]
      exact ih hc.2
    · simp only [erase, hk, ↓reduceIte]
      have h1 : k ∉ keys (erase rest c) := fun hm => hc.1 ((mem_keys_erase rest c k).mp hm).1
      have h2 : KeysUnique (erase rest c) := ih hc.2
      simpa [KeysUnique, keys] using List.nodup_cons.mpr ⟨h1, h2⟩

theorem keysUnique_insert (m : Orders) (c : Nat) (o : Order) (h : KeysUnique m) :
    KeysUnique (insert m c o) := by
  have h1 : c ∉ keys (erase m c) := fun hm => ((mem_keys_erase m c c).mp hm).2 rfl
  simpa [KeysUnique, keys, insert] using List.nodup_cons.mpr ⟨h1, keysUnique_erase m c h⟩

theorem keysUnique_nil : KeysUnique [] := by simp [KeysUnique, keys]

/-- key-uniqueness is preserved by every operation on an order table -/
theorem keysUnique_step (m : Orders) (op : Op) (h : KeysUnique m) : KeysUnique (step m op) := by
  cases op with
  | recOpen c q p x => exact keysUnique_insert _ _ _ h
  | recCancel c =>
    simp only [step, recordInFlightCancel]
    split
    · exact h
    · exact keysUnique_insert _ _ _ h
  | cancelResp c ok =>
    simp only [step, updateFromCancelResponse]
    split
    · exact h
    · split <;> first | exact h | exact keysUnique_erase _ _ h | exact keysUnique_insert _ _ _ h
  | snapshot s =>
    simp only [step, updateFromSnapshot]
    repeat' split
    all_goals first
      | exact h
      | exact keysUnique_erase _ _ h
      | exact keysUnique_insert _ _ _ h

theorem keysUnique_run (m : Orders) (ops : List Op) (h : KeysUnique m) : KeysUnique (run m ops) := by
  induction ops generalizing m with
  | nil => exact h
  | cons op ops ih => exact ih _ (keysUnique_step m op h)

/-- what `lookup` finds is an entry of the table -/
theorem mem_of_lookup (m : Orders) (c : Nat) (o : Order) (h : lookup m c = some o) : (c, o) ∈ m := by
  induction m with
  | nil => simp [lookup] at h
  | cons kv rest ih =>
    obtain ⟨k, v⟩ := kv
    by_cases hk : k = c
    · subst hk; simp [lookup] at h; subst h; simp
    · simp only [lookup, hk, ↓reduceIte] at h
      exact List.mem_cons_of_mem _ (ih h)

/-- under key-uniqueness an entry of the table is what `lookup` finds -/
theorem lookup_of_mem (m : Orders) (c : Nat) (o : Order) (hu : KeysUnique m) (h : (c, o) ∈ m) :
    lookup m c = some o := by
  induction m with
  | nil => cases h
  | cons kv rest ih =>
    obtain ⟨k, v⟩ := kv
    have h' : (k :: keys rest).Nodup := hu
    have hc : k ∉ keys rest ∧ KeysUnique rest := List.nodup_cons.mp h'
    rcases List.mem_cons.mp h with heq | hm
    · injection heq with h1 h2; subst h1; subst h2; simp [lookup]
    · have hne : k ≠ c := by
        intro hk; subst hk
        exact hc.1 (List.mem_map.mpr ⟨(k, o), hm, rfl⟩)
      simp only [lookup, hne, ↓reduceIte]
      exact ih hc.2 hm

theorem mem_iff_lookup (m : Orders) (c : Nat) (o : Order) (hu : KeysUnique m) :
    (c, o) ∈ m ↔ lookup m c = some o := ⟨lookup_of_mem m c o hu, mem_of_lookup m c o⟩

/-- the order with its state replaced by "cancel in flight", keeping what the exchange reported -/
def markCancel (o : Order) : Order := { o with state := .cancelInFlight o.state.openMeta }

theorem markCancel_idem (o : Order) : markCancel (markCancel o) = markCancel o := by
  simp [markCancel, Active.openMeta]

theorem lookup_recordInFlightCancel (m : Orders) (c c' : Nat) :
    lookup (recordInFlightCancel m c) c' =
      if c' = c then (lookup m c).map markCancel else lookup m c' := by
  unfold recordInFlightCancel
  by_cases h : c' = c
  · subst h
    cases hl : lookup m c' with
    | none => simp [hl]
    | some cur => simp [lookup_setState_self, markCancel]
  · cases hl : lookup m c with
    | none => simp [h]
    | some cur => simp [h, lookup_setState_ne _ _ _ _ _ h]

theorem lookup_recordInFlightOpen (m : Orders) (c c' : Nat) (q p : Rat) (x : Nat) :
    lookup (recordInFlightOpen m c q p x) c' =
      if c' = c then some ⟨q, p, .inFlight, x⟩ else lookup m c' := by
  unfold recordInFlightOpen
  by_cases h : c' = c
  · subst h; simp [lookup_insert_self]
  · simp [h, lookup_insert_ne _ _ _ _ h]

end BarterModel.Orders

namespace BarterModel.Engine
open BarterModel.Orders

/-! ### the cid sort is a permutation -/

theorem insertByCid_perm (x : Nat × Order) (l : List (Nat × Order)) : (insertByCid x l).Perm (x :: l) := by
  induction l with
  | nil => exact List.Perm.refl _
  | cons y ys ih =>
    simp only [insertByCid]
    split
    · exact List.Perm.refl _
    · exact (List.Perm.cons y ih).trans (List.Perm.swap x y ys)

theorem sortByCid_perm (m : Orders) : (sortByCid m).Perm m := by
  induction m with
  | nil => exact List.Perm.refl _
  | cons a m ih =>
    simp only [sortByCid, List.foldr_cons]
    exact (insertByCid_perm a _).trans (List.Perm.cons a ih)

theorem mem_sortByCid (m : Orders) (x : Nat × Order) : x ∈ sortByCid m ↔ x ∈ m :=
  (sortByCid_perm m).mem_iff

/-! ### whole-instrument view -/

/-- everything of an instrument state except its order table -/
def Instr.static (s : Instr) : Nat × Nat × Nat × Option (Side × Rat) × Option Rat :=
  (s.exchange, s.base, s.quote, s.position, s.price)

/-- every order table of the engine state has unique client order ids -/
def TablesUnique (e : Eng) : Prop :=
  ∀ (i : Nat) (s : Instr), e.instruments[i]? = some s → KeysUnique s.orders

/-- tracked order (whole entry) of `(instrument i, cid c)` -/
def orderOf (e : Eng) (i c : Nat) : Option Order :=
  match e.instruments[i]? with
  | some s => lookup s.orders c
  | none => none

theorem matches_congr (f : Filter) (i : Nat) (s s' : Instr) (h : s.static = s'.static) :
    f.matches i s = f.matches i s' := by
  simp only [Instr.static, Prod.mk.injEq] at h
  cases f <;> simp [Filter.matches, h.1, h.2.1, h.2.2.1]


/-! ### membership in the generated request lists -/

/-- `(instrument, cid)`: what a cancel request addresses -/
def CancelReq.orderKey (r : CancelReq) : Nat × Nat := (r.key.instrument, r.key.cid)

theorem toRequestCancel_eq_some (i c : Nat) (o : Order) (r : CancelReq) :
    toRequestCancel i (c, o) = some r ↔
      r.key = ⟨o.exchange, i, c⟩ ∧
      ((o.state = .inFlight ∧ r.id = none) ∨ (∃ op, o.state = .opn op ∧ r.id = some op.id)) := by
  obtain ⟨q, p, st, x⟩ := o
  obtain ⟨k, id⟩ := r
  cases st with
  | inFlight =>
    simp only [toRequestCancel, Option.some.injEq, CancelReq.mk.injEq, true_and, reduceCtorEq,
      false_and, exists_false, or_false]
    constructor
    · rintro ⟨h1, h2⟩; exact ⟨h1.symm, h2.symm⟩
    · rintro ⟨h1, h2⟩; exact ⟨h1.symm, h2.symm⟩
  | opn o =>
    simp only [toRequestCancel, Option.some.injEq, CancelReq.mk.injEq, reduceCtorEq, false_and,
      Active.opn.injEq, false_or]
    constructor
    · rintro ⟨h1, h2⟩; exact ⟨h1.symm, o, rfl, h2.symm⟩
    · rintro ⟨h1, op, h2, h3⟩; subst h2; exact ⟨h1.symm, h3.symm⟩
  | cancelInFlight y => simp [toRequestCancel]

theorem toRequestCancel_key (i : Nat) (co : Nat × Order) (r : CancelReq)
    (h : toRequestCancel i co = some r) : r.key.instrument = i ∧ r.key.cid = co.1 := by
  obtain ⟨c, o⟩ := co
  have := ((toRequestCancel_eq_some i c o r).mp h).1
  simp [this]

theorem mem_cancelRequests (e : Eng) (f : Filter) (r : CancelReq) :
    r ∈ cancelRequests e f ↔ ∃ i s c o, e.instruments[i]? = some s ∧ f.matches i s = true ∧
      (c, o) ∈ s.orders ∧ toRequestCancel i (c, o) = some r := by
  simp only [cancelRequests, List.mem_flatMap, List.mem_filter, List.mem_filterMap, mem_sortByCid]
  constructor
  · rintro ⟨⟨s, i⟩, ⟨hm, hf⟩, ⟨c, o⟩, hco, hr⟩
    exact ⟨i, s, c, o, List.mem_zipIdx_iff_getElem?.mp hm, hf, hco, hr⟩
  · rintro ⟨i, s, c, o, hs, hf, hco, hr⟩
    exact ⟨(s, i), ⟨List.mem_zipIdx_iff_getElem?.mpr hs, hf⟩, (c, o), hco, hr⟩

theorem zipIdx_pairwise {α : Type} (l : List α) (k : Nat) :
    (l.zipIdx k).Pairwise (fun a b => a.2 < b.2) := by
  induction l generalizing k with
  | nil => simp
  | cons a l ih =>
    rw [List.zipIdx_cons, List.pairwise_cons]
    refine ⟨?_, ih (k + 1)⟩
    intro b hb
    obtain ⟨x, j⟩ := b
    have := (List.mem_zipIdx hb).1
    show k < j
    omega

theorem filterMap_cancel_nodup (i : Nat) (t : List (Nat × Order)) (h : (t.map (·.1)).Nodup) :
    ((t.filterMap (toRequestCancel i)).map CancelReq.orderKey).Nodup := by
  induction t with
  | nil => simp
  | cons a t ih =>
    rw [List.map_cons] at h
    have h' : a.1 ∉ t.map (·.1) ∧ (t.map (·.1)).Nodup := List.nodup_cons.mp h
    rw [List.filterMap_cons]
    split
    · exact ih h'.2
    · rename_i r hr
      rw [List.map_cons, List.nodup_cons]
      refine ⟨?_, ih h'.2⟩
      intro hm
      obtain ⟨r', hr', hk⟩ := List.mem_map.mp hm
      obtain ⟨co, hco, hr''⟩ := List.mem_filterMap.mp hr'
      have k1 := toRequestCancel_key i a r hr
      have k2 := toRequestCancel_key i co r' hr''
      simp only [CancelReq.orderKey, Prod.mk.injEq] at hk
      apply h'.1
      have : a.1 = co.1 := by rw [← k1.2, ← k2.2, hk.2]
      rw [this]
      exact List.mem_map.mpr ⟨co, hco, rfl⟩

theorem cancel_flatMap_nodup (l : List (Instr × Nat)) (hp : l.Pairwise (fun a b => a.2 < b.2))
    (hu : ∀ si ∈ l, KeysUnique si.1.orders) :
    ((l.flatMap fun si => (sortByCid si.1.orders).filterMap (toRequestCancel si.2)).map
      CancelReq.orderKey).Nodup := by
  induction l with
  | nil => simp
  | cons a l ih =>
    have hp' := List.pairwise_cons.mp hp
    rw [List.flatMap_cons, List.map_append, List.nodup_append]
    refine ⟨?_, ih hp'.2 (fun si hsi => hu si (List.mem_cons_of_mem _ hsi)), ?_⟩
    · apply filterMap_cancel_nodup
      have := hu a (by simp)
      unfold KeysUnique keys at this
      exact ((sortByCid_perm a.1.orders).map _).nodup_iff.mpr this
    · intro x hx y hy hxy
      obtain ⟨r, hr, rfl⟩ := List.mem_map.mp hx
      obtain ⟨r', hr', hk⟩ := List.mem_map.mp hy
      subst hk
      obtain ⟨co, _, h1⟩ := List.mem_filterMap.mp hr
      obtain ⟨si, hsi, h2⟩ := List.mem_flatMap.mp hr'
      obtain ⟨co', _, h2⟩ := List.mem_filterMap.mp h2
      have k1 := toRequestCancel_key _ _ _ h1
      have k2 := toRequestCancel_key _ _ _ h2
      have := hp'.1 si hsi
      simp only [CancelReq.orderKey, Prod.mk.injEq] at hxy
      omega

theorem mem_closeRequests (e : Eng) (f : Filter) (r : OpenReq) :
    r ∈ closeRequests e f ↔ ∃ i s side q p, e.instruments[i]? = some s ∧ f.matches i s = true ∧
      s.position = some (side, q) ∧ s.price = some p ∧
      r = ⟨⟨s.exchange, i, closeCid i⟩, side.opposite, p, q⟩ := by
  simp only [closeRequests, List.mem_filterMap, List.mem_filter]
  constructor
  · rintro ⟨⟨s, i⟩, ⟨hm, hf⟩, h⟩
    split at h
    · rename_i side q p hpos hpr
      injection h with h
      exact ⟨i, s, side, q, p, List.mem_zipIdx_iff_getElem?.mp hm, hf, hpos, hpr, h.symm⟩
    · cases h
  · rintro ⟨i, s, side, q, p, hs, hf, hpos, hpr, rfl⟩
    refine ⟨(s, i), ⟨List.mem_zipIdx_iff_getElem?.mpr hs, hf⟩, ?_⟩
    simp [hpos, hpr]

theorem closeRequests_sorted (e : Eng) (f : Filter) :
    ((closeRequests e f).map (·.key.instrument)).Pairwise (· < ·) := by
  rw [List.pairwise_map]
  unfold closeRequests
  rw [List.pairwise_filterMap]
  have hs : (e.instruments.zipIdx.filter (fun si => f.matches si.2 si.1)).Pairwise
      (fun a b => a.2 < b.2) := (zipIdx_pairwise e.instruments 0).sublist List.filter_sublist
  refine hs.imp ?_
  intro a a' hlt b hb b' hb'
  split at hb
  · injection hb with hb; subst hb
    split at hb'
    · injection hb' with hb'; subst hb'; exact hlt
    · cases hb'
  · cases hb

/-! ### effect of recording requests on whole instrument states -/

theorem recordCancel_getElem? (e : Eng) (r : CancelReq) (j : Nat) :
    (recordCancel e r).instruments[j]? =
      if j = r.key.instrument then
        (e.instruments[j]?).map fun s => { s with orders := recordInFlightCancel s.orders r.key.cid }
      else e.instruments[j]? := by
  simp only [recordCancel, modifyInstr_getElem?]
  split
  · rename_i h; subst h; rfl
  · rfl

theorem recordOpen_getElem? (e : Eng) (r : OpenReq) (j : Nat) :
    (recordOpen e r).instruments[j]? =
      if j = r.key.instrument then
        (e.instruments[j]?).map fun s =>
          { s with orders := recordInFlightOpen s.orders r.key.cid r.quantity r.price r.key.exchange }
      else e.instruments[j]? := by
  simp only [recordOpen, modifyInstr_getElem?]
  split
  · rename_i h; subst h; rfl
  · rfl

theorem recordCancel_static (e : Eng) (r : CancelReq) (j : Nat) :
    ((recordCancel e r).instruments[j]?).map Instr.static = (e.instruments[j]?).map Instr.static := by
  rw [recordCancel_getElem?]
  split
  · cases e.instruments[j]? <;> simp [Instr.static]
  · rfl

theorem recordOpen_static (e : Eng) (r : OpenReq) (j : Nat) :
    ((recordOpen e r).instruments[j]?).map Instr.static = (e.instruments[j]?).map Instr.static := by
  rw [recordOpen_getElem?]
  split
  · cases e.instruments[j]? <;> simp [Instr.static]
  · rfl

theorem recordCancels_static (e : Eng) (rs : List CancelReq) (j : Nat) :
    ((recordCancels e rs).instruments[j]?).map Instr.static = (e.instruments[j]?).map Instr.static := by
  induction rs generalizing e with
  | nil => rfl
  | cons r rs ih =>
    simp only [recordCancels, List.foldl_cons] at *
    rw [ih, recordCancel_static]

theorem recordOpens_static (e : Eng) (rs : List OpenReq) (j : Nat) :
    ((recordOpens e rs).instruments[j]?).map Instr.static = (e.instruments[j]?).map Instr.static := by
  induction rs generalizing e with
  | nil => rfl
  | cons r rs ih =>
    simp only [recordOpens, List.foldl_cons] at *
    rw [ih, recordOpen_static]

/-- an instrument named by no recorded cancel keeps its whole state -/
theorem recordCancels_untouched (e : Eng) (rs : List CancelReq) (j : Nat)
    (h : ∀ r ∈ rs, r.key.instrument ≠ j) :
    (recordCancels e rs).instruments[j]? = e.instruments[j]? := by
  induction rs generalizing e with
  | nil => rfl
  | cons r rs ih =>
    simp only [recordCancels, List.foldl_cons] at *
    rw [ih _ (fun x hx => h x (List.mem_cons_of_mem _ hx)), recordCancel_getElem?]
    have := h r (by simp)
    rw [if_neg (fun hj => this hj.symm)]

/-- an instrument named by no recorded open keeps its whole state -/
theorem recordOpens_untouched (e : Eng) (rs : List OpenReq) (j : Nat)
    (h : ∀ r ∈ rs, r.key.instrument ≠ j) :
    (recordOpens e rs).instruments[j]? = e.instruments[j]? := by
  induction rs generalizing e with
  | nil => rfl
  | cons r rs ih =>
    simp only [recordOpens, List.foldl_cons] at *
    rw [ih _ (fun x hx => h x (List.mem_cons_of_mem _ hx)), recordOpen_getElem?]
    have := h r (by simp)
    rw [if_neg (fun hj => this hj.symm)]

theorem tablesUnique_recordCancel (e : Eng) (r : CancelReq) (h : TablesUnique e) :
    TablesUnique (recordCancel e r) := by
  intro j s hs
  rw [recordCancel_getElem?] at hs
  split at hs
  · cases hj : e.instruments[j]? with
    | none => simp [hj] at hs
    | some s0 =>
      simp only [hj, Option.map_some, Option.some.injEq] at hs
      subst hs
      exact keysUnique_step s0.orders (.recCancel r.key.cid) (h j s0 hj)
  · exact h j s hs

theorem tablesUnique_recordOpen (e : Eng) (r : OpenReq) (h : TablesUnique e) :
    TablesUnique (recordOpen e r) := by
  intro j s hs
  rw [recordOpen_getElem?] at hs
  split at hs
  · cases hj : e.instruments[j]? with
    | none => simp [hj] at hs
    | some s0 =>
      simp only [hj, Option.map_some, Option.some.injEq] at hs
      subst hs
      exact keysUnique_step s0.orders (.recOpen r.key.cid r.quantity r.price r.key.exchange) (h j s0 hj)
  · exact h j s hs

theorem tablesUnique_recordCancels (e : Eng) (rs : List CancelReq) (h : TablesUnique e) :
    TablesUnique (recordCancels e rs) := by
  induction rs generalizing e with
  | nil => exact h
  | cons r rs ih => exact ih _ (tablesUnique_recordCancel e r h)

theorem tablesUnique_recordOpens (e : Eng) (rs : List OpenReq) (h : TablesUnique e) :
    TablesUnique (recordOpens e rs) := by
  induction rs generalizing e with
  | nil => exact h
  | cons r rs ih => exact ih _ (tablesUnique_recordOpen e r h)

/-! ### effect of recording cancels on single tracked orders (whole entry) -/

theorem orderOf_recordCancel (e : Eng) (r : CancelReq) (i c : Nat) :
    orderOf (recordCancel e r) i c =
      if i = r.key.instrument ∧ c = r.key.cid then (orderOf e i c).map markCancel
      else orderOf e i c := by
  unfold orderOf
  rw [recordCancel_getElem?]
  by_cases hi : i = r.key.instrument
  · subst hi
    cases hs : e.instruments[r.key.instrument]? with
    | none => simp
    | some s =>
      simp only [↓reduceIte, Option.map_some, true_and, lookup_recordInFlightCancel]
      split <;> rename_i hc
      · subst hc; rfl
      · rfl
  · simp [hi]

/-- recorded cancels mark exactly the orders they name, and change nothing else of any entry -/
theorem orderOf_recordCancels (e : Eng) (rs : List CancelReq) (i c : Nat) :
    orderOf (recordCancels e rs) i c =
      if rs.any (fun r => decide (r.key.instrument = i ∧ r.key.cid = c)) then
        (orderOf e i c).map markCancel
      else orderOf e i c := by
  induction rs generalizing e with
  | nil => simp [recordCancels]
  | cons r rs ih =>
    simp only [recordCancels, List.foldl_cons] at *
    rw [ih, orderOf_recordCancel]
    by_cases hr : r.key.instrument = i ∧ r.key.cid = c
    · have hr' : i = r.key.instrument ∧ c = r.key.cid := ⟨hr.1.symm, hr.2.symm⟩
      have hd : decide (r.key.instrument = i ∧ r.key.cid = c) = true := decide_eq_true hr
      rw [if_pos hr', List.any_cons, hd, Bool.true_or, if_pos rfl]
      split
      · cases orderOf e i c <;> simp [markCancel_idem]
      · rfl
    · have hr' : ¬ (i = r.key.instrument ∧ c = r.key.cid) := fun h => hr ⟨h.1.symm, h.2.symm⟩
      have hd : decide (r.key.instrument = i ∧ r.key.cid = c) = false := decide_eq_false hr
      rw [if_neg hr', List.any_cons, hd, Bool.false_or]


/-! ### the commands, unfolded -/

/-- the cancels a `CancelOrders(f)` command delivers: the generated ones whose link is healthy -/
def cancelSent (e : Eng) (f : Filter) : List CancelReq :=
  (cancelRequests e f).filter fun r => (linkResult e.links r.key.exchange).isNone

/-- the opens a `ClosePositions(f)` command delivers -/
def closeSent (e : Eng) (f : Filter) : List OpenReq :=
  (closeRequests e f).filter fun r => (linkResult e.links r.key.exchange).isNone

theorem action_cancelOrders_instruments (e : Eng) (f : Filter) :
    (action e (.cancelOrders f)).1.instruments =
      (recordCancels e (cancelSent e f)).instruments := by
  have h : ∀ (a b : Eng) (rs : List CancelReq), a.instruments = b.instruments →
      (recordCancels a rs).instruments = (recordCancels b rs).instruments := by
    intro a b rs
    induction rs generalizing a b with
    | nil => exact id
    | cons r rs ih =>
      intro hab
      simp only [recordCancels, List.foldl_cons] at *
      apply ih
      simp [recordCancel, hab]
  exact h _ _ _ rfl

theorem action_closePositions_instruments (e : Eng) (f : Filter) :
    (action e (.closePositions f)).1.instruments =
      (recordOpens e (closeSent e f)).instruments := by
  have h : ∀ (a b : Eng) (rs : List OpenReq), a.instruments = b.instruments →
      (recordOpens a rs).instruments = (recordOpens b rs).instruments := by
    intro a b rs
    induction rs generalizing a b with
    | nil => exact id
    | cons r rs ih =>
      intro hab
      simp only [recordOpens, List.foldl_cons] at *
      apply ih
      simp [recordOpen, hab]
  exact h _ _ _ rfl

theorem tablesUnique_congr (a b : Eng) (h : a.instruments = b.instruments) (hb : TablesUnique b) :
    TablesUnique a := by
  intro i s hs; rw [h] at hs; exact hb i s hs

theorem orderOf_congr (a b : Eng) (h : a.instruments = b.instruments) (i c : Nat) :
    orderOf a i c = orderOf b i c := by
  unfold orderOf; rw [h]

theorem tablesUnique_applyUpdate (e : Eng) (u : Update) (h : TablesUnique e) :
    TablesUnique (applyUpdate e u) := by
  intro j s hs
  cases u with
  | order i op =>
    simp only [applyUpdate, modifyInstr_getElem?] at hs
    split at hs
    · rename_i hj; subst hj
      cases hj : e.instruments[j]? with
      | none => simp [hj] at hs
      | some s0 =>
        simp only [hj, Option.map_some, Option.some.injEq] at hs
        subst hs
        exact keysUnique_step s0.orders op (h j s0 hj)
    · exact h j s hs
  | position i side q =>
    simp only [applyUpdate, modifyInstr_getElem?] at hs
    split at hs
    · rename_i hj; subst hj
      cases hj : e.instruments[j]? with
      | none => simp [hj] at hs
      | some s0 =>
        simp only [hj, Option.map_some, Option.some.injEq] at hs
        subst hs
        exact h j s0 hj
    · exact h j s hs
  | flat i =>
    simp only [applyUpdate, modifyInstr_getElem?] at hs
    split at hs
    · rename_i hj; subst hj
      cases hj : e.instruments[j]? with
      | none => simp [hj] at hs
      | some s0 =>
        simp only [hj, Option.map_some, Option.some.injEq] at hs
        subst hs
        exact h j s0 hj
    · exact h j s hs
  | price i p =>
    simp only [applyUpdate, modifyInstr_getElem?] at hs
    split at hs
    · rename_i hj; subst hj
      cases hj : e.instruments[j]? with
      | none => simp [hj] at hs
      | some s0 =>
        simp only [hj, Option.map_some, Option.some.injEq] at hs
        subst hs
        exact h j s0 hj
    · exact h j s hs
  | other => exact h j s hs

theorem tablesUnique_action (e : Eng) (c : Command) (h : TablesUnique e) :
    TablesUnique (action e c).1 := by
  cases c with
  | sendCancelRequests rs =>
    exact tablesUnique_recordCancels _ _ (tablesUnique_congr _ e rfl h)
  | sendOpenRequests rs =>
    exact tablesUnique_recordOpens _ _ (tablesUnique_congr _ e rfl h)
  | closePositions f =>
    exact tablesUnique_congr _ _ (action_closePositions_instruments e f)
      (tablesUnique_recordOpens _ _ h)
  | cancelOrders f =>
    exact tablesUnique_congr _ _ (action_cancelOrders_instruments e f)
      (tablesUnique_recordCancels _ _ h)

theorem tablesUnique_generateAlgoOrders (e : Eng) (cs : List CancelReq) (os : List OpenReq)
    (refuse : Key → Bool) (h : TablesUnique e) :
    TablesUnique (generateAlgoOrders e cs os refuse).1 := by
  simp only [generateAlgoOrders]
  apply tablesUnique_recordOpens
  apply tablesUnique_recordCancels
  exact tablesUnique_congr _ e rfl h

theorem tablesUnique_generateStage (e : Eng) (cmd : Option ActionOut) (cs : List CancelReq)
    (os : List OpenReq) (refuse : Key → Bool) (h : TablesUnique e) :
    TablesUnique (generateStage e cmd cs os refuse).1 := by
  unfold generateStage
  split
  · exact tablesUnique_generateAlgoOrders e cs os refuse h
  · exact h

theorem tablesUnique_process (e : Eng) (ev : Event) (cs : List CancelReq) (os : List OpenReq)
    (refuse : Key → Bool) (h : TablesUnique e) : TablesUnique (process e ev cs os refuse).1 := by
  cases ev with
  | shutdown => exact h
  | command c =>
    simp only [process]
    split
    · exact tablesUnique_action e c h
    · exact tablesUnique_generateStage _ _ _ _ _ (tablesUnique_action e c h)
  | tradingState on =>
    simp only [process]
    apply tablesUnique_generateStage
    apply tablesUnique_congr _ e _ h
    unfold updateTradingState; split <;> rfl
  | update u =>
    simp only [process]
    exact tablesUnique_generateStage _ _ _ _ _ (tablesUnique_applyUpdate e u h)

end BarterModel.Engine
