import BarterModel.Model.TearSheet
/-! Helper lemmas for C16. -/
namespace BarterModel.TearSheet

/-! ### sums -/

@[simp] theorem sumRat_nil : sumRat [] = 0 := rfl
@[simp] theorem sumRat_cons (x : Rat) (xs : List Rat) : sumRat (x :: xs) = x + sumRat xs := rfl

theorem sumRat_nonneg (l : List Rat) (h : ∀ x ∈ l, 0 ≤ x) : 0 ≤ sumRat l := by
  induction l with
  | nil => simp
  | cons x xs ih =>
    simp only [sumRat_cons]
    exact Rat.add_nonneg (h x (by simp)) (ih (fun y hy => h y (by simp [hy])))

theorem sumRat_nonpos (l : List Rat) (h : ∀ x ∈ l, x < 0) : sumRat l ≤ 0 := by
  induction l with
  | nil => simp
  | cons x xs ih =>
    simp only [sumRat_cons]
    have h1 := h x (by simp)
    have h2 := ih (fun y hy => h y (by simp [hy]))
    grind

/-- A sum of strictly negative numbers vanishes only when there are none. -/
theorem sumRat_neg_eq_zero (l : List Rat) (h : ∀ x ∈ l, x < 0) : sumRat l = 0 ↔ l = [] := by
  cases l with
  | nil => simp
  | cons x xs =>
    simp only [sumRat_cons, reduceCtorEq, iff_false]
    have h1 := h x (by simp)
    have h2 := sumRat_nonpos xs (fun y hy => h y (by simp [hy]))
    grind

/-- A sum of non-negative numbers vanishes only when each of them does. -/
theorem sumRat_nonneg_eq_zero (l : List Rat) (h : ∀ x ∈ l, 0 ≤ x) :
    sumRat l = 0 ↔ ∀ x ∈ l, x = 0 := by
  induction l with
  | nil => simp
  | cons x xs ih =>
    have h1 := h x (by simp)
    have hxs : ∀ y ∈ xs, 0 ≤ y := fun y hy => h y (by simp [hy])
    have h2 := sumRat_nonneg xs hxs
    have ih := ih hxs
    simp only [sumRat_cons, List.mem_cons, forall_eq_or_imp]
    constructor
    · intro h0
      have hx : x = 0 := by grind
      have hs : sumRat xs = 0 := by grind
      exact ⟨hx, ih.mp hs⟩
    · intro ⟨hx, hr⟩
      have := ih.mpr hr
      grind

/-! ### wins / losers partition -/

theorem wins_cons (p : Closed) (ps : List Closed) :
    wins (p :: ps) = if 0 ≤ ret p then p :: wins ps else wins ps := by
  simp [wins, List.filter_cons]

theorem losers_cons (p : Closed) (ps : List Closed) :
    losers (p :: ps) = if ret p < 0 then p :: losers ps else losers ps := by
  simp [losers, List.filter_cons]

theorem length_wins_add_losers (ps : List Closed) :
    (wins ps).length + (losers ps).length = ps.length := by
  induction ps with
  | nil => rfl
  | cons p ps ih =>
    rw [wins_cons, losers_cons]
    by_cases h : ret p < 0
    · have : ¬ (0 ≤ ret p) := Rat.not_le.mpr h
      simp [h, this]; omega
    · have : 0 ≤ ret p := Rat.not_lt.mp h
      simp [h, this]; omega

theorem mem_wins {ps : List Closed} {p : Closed} : p ∈ wins ps ↔ p ∈ ps ∧ 0 ≤ ret p := by
  simp [wins]

theorem mem_losers {ps : List Closed} {p : Closed} : p ∈ losers ps ↔ p ∈ ps ∧ ret p < 0 := by
  simp [losers]

theorem grossWin_nonneg (ps : List Closed) : 0 ≤ grossWin ps := by
  apply sumRat_nonneg
  intro x hx
  obtain ⟨p, hp, rfl⟩ := List.mem_map.mp hx
  exact (mem_wins.mp hp).2

theorem grossLoss_nonneg (ps : List Closed) : 0 ≤ grossLoss ps := by
  have : sumRat ((losers ps).map ret) ≤ 0 := by
    apply sumRat_nonpos
    intro x hx
    obtain ⟨p, hp, rfl⟩ := List.mem_map.mp hx
    exact (mem_losers.mp hp).2
  unfold grossLoss; grind

/-! ### the accumulator over a history -/

def PnLReturns.run (s : PnLReturns) (ps : List Closed) : PnLReturns := ps.foldl PnLReturns.update s

def TearSheetGenerator.run (g : TearSheetGenerator) (ps : List Closed) : TearSheetGenerator :=
  ps.foldl TearSheetGenerator.updateFromPosition g

theorem TearSheetGenerator.run_pnlReturns (g : TearSheetGenerator) (ps : List Closed) :
    (g.run ps).pnlReturns = g.pnlReturns.run ps := by
  induction ps generalizing g with
  | nil => rfl
  | cons p ps ih =>
    simp only [TearSheetGenerator.run, PnLReturns.run, List.foldl_cons] at *
    rw [ih]; rfl

theorem calculatePnlReturn_eq (p : Closed) :
    calculatePnlReturn p.pnlRealised p.priceEntryAverage p.quantityAbsMax = ret p := rfl

/-- The state of the accumulator after any history, from any start state. -/
theorem PnLReturns.run_eq (s : PnLReturns) (ps : List Closed) :
    (s.run ps).pnlRaw = s.pnlRaw + specPnl ps ∧
    (s.run ps).total.count = s.total.count + (ps.length : Rat) ∧
    (s.run ps).total.sum = s.total.sum + sumRat (ps.map ret) ∧
    (s.run ps).losses.count = s.losses.count + ((losers ps).length : Rat) ∧
    (s.run ps).losses.sum = s.losses.sum + sumRat ((losers ps).map ret) := by
  induction ps generalizing s with
  | nil => simp only [PnLReturns.run, specPnl, losers, List.foldl_nil, List.map_nil, sumRat_nil,
      List.filter_nil, List.length_nil]; grind
  | cons p ps ih =>
    have ih := ih (s.update p)
    simp only [PnLReturns.run, List.foldl_cons] at ih ⊢
    obtain ⟨i1, i2, i3, i4, i5⟩ := ih
    rw [i1, i2, i3, i4, i5, losers_cons]
    simp only [PnLReturns.update, calculatePnlReturn_eq, DataSetSummary.update, specPnl,
      List.map_cons, sumRat_cons, List.length_cons]
    by_cases h : ret p < 0
    · simp only [h, ↓reduceIte, List.length_cons, List.map_cons, sumRat_cons, Rat.natCast_add]
      refine ⟨by grind, by grind, by grind, by grind, by grind⟩
    · simp only [h, ↓reduceIte, Rat.natCast_add]
      refine ⟨by grind, by grind, by grind, by grind, by grind⟩

theorem sum_all_eq (ps : List Closed) :
    sumRat (ps.map ret) = grossWin ps - grossLoss ps := by
  unfold grossWin grossLoss
  induction ps with
  | nil => simp only [wins, losers, List.filter_nil, List.map_nil, sumRat_nil]; grind
  | cons p ps ih =>
    rw [wins_cons, losers_cons]
    by_cases h : ret p < 0
    · have : ¬ (0 ≤ ret p) := Rat.not_le.mpr h
      simp only [h, this, ↓reduceIte, List.map_cons, sumRat_cons]; grind
    · have : 0 ≤ ret p := Rat.not_lt.mp h
      simp only [h, this, ↓reduceIte, List.map_cons, sumRat_cons]; grind

/-- The accumulator of a fresh generator after the history `ps`, in terms of the spec's sums. -/
theorem run_init (ps : List Closed) :
    let r := (TearSheetGenerator.init.run ps).pnlReturns
    r.pnlRaw = specPnl ps ∧ r.total.count = (ps.length : Rat) ∧
    r.total.sum = grossWin ps - grossLoss ps ∧
    r.losses.count = ((losers ps).length : Rat) ∧ r.losses.sum = - grossLoss ps := by
  have h := PnLReturns.run_eq PnLReturns.default ps
  simp only [TearSheetGenerator.run_pnlReturns, TearSheetGenerator.init]
  obtain ⟨h1, h2, h3, h4, h5⟩ := h
  rw [h1, h2, h3, h4, h5, sum_all_eq]
  simp only [PnLReturns.default, DataSetSummary.default, grossLoss]
  refine ⟨by grind, by grind, by grind, by grind, by grind⟩

theorem ratAbs_of_nonneg {x : Rat} (h : 0 ≤ x) : ratAbs x = x := by
  unfold ratAbs
  have : ¬ x < 0 := Rat.not_lt.mpr h
  simp [this]

theorem ratAbs_neg_of_nonneg {x : Rat} (h : 0 ≤ x) : ratAbs (-x) = x := by
  unfold ratAbs
  by_cases h0 : -x < 0
  · simp [h0]
  · simp only [h0, ↓reduceIte]; grind

/-! ### keyed maps -/

theorem modifyAt_length {α : Type} (l : List α) (i : Nat) (f : α → α) :
    (modifyAt l i f).length = l.length := by
  unfold modifyAt; split <;> simp

theorem modifyAt_getElem? {α : Type} (l : List α) (i j : Nat) (f : α → α) :
    (modifyAt l i f)[j]? = if j = i then l[j]?.map f else l[j]? := by
  unfold modifyAt
  split
  · rename_i x hx
    by_cases h : j = i
    · subst h; simp [hx]
      have := (List.getElem?_eq_some_iff.mp hx).1
      simp [this]
    · simp [h, show ¬ i = j from fun e => h e.symm]
  · rename_i hx
    by_cases h : j = i
    · subst h; simp [hx]
    · simp [h]

theorem historyOf_cons_position (i j : Nat) (p : Closed) (evs : List Ev) :
    historyOf i (.position j p :: evs) = if j = i then p :: historyOf i evs else historyOf i evs := by
  unfold historyOf
  by_cases h : j = i <;> simp [h]

theorem historyOf_cons_balance (i a : Nat) (s : BalSnap) (evs : List Ev) :
    historyOf i (.balance a s :: evs) = historyOf i evs := by
  simp [historyOf]

theorem balancesOf_cons_balance (a b : Nat) (s : BalSnap) (evs : List Ev) :
    balancesOf a (.balance b s :: evs) = if b = a then s :: balancesOf a evs else balancesOf a evs := by
  unfold balancesOf
  by_cases h : b = a <;> simp [h]

theorem balancesOf_cons_position (a j : Nat) (p : Closed) (evs : List Ev) :
    balancesOf a (.position j p :: evs) = balancesOf a evs := by
  simp [balancesOf]

/-- Engine path, instruments: slot `i` only ever sees instrument `i`'s closed positions. -/
theorem EngState.run_instrument (s : EngState) (evs : List Ev) (i : Nat) (g : TearSheetGenerator)
    (h : s.instruments[i]? = some g) :
    (s.run evs).instruments[i]? = some (g.run (historyOf i evs)) := by
  induction evs generalizing s g with
  | nil => simpa [EngState.run, historyOf, TearSheetGenerator.run] using h
  | cons ev evs ih =>
    simp only [EngState.run, List.foldl_cons] at ih ⊢
    cases ev with
    | position j p =>
      rw [historyOf_cons_position]
      by_cases hj : j = i
      · subst hj
        have : (s.step (.position j p)).instruments[j]? = some (g.updateFromPosition p) := by
          simp [EngState.step, modifyAt_getElem?, h]
        rw [ih _ _ this]; simp [TearSheetGenerator.run]
      · have : (s.step (.position j p)).instruments[i]? = some g := by
          simp [EngState.step, modifyAt_getElem?, h, show ¬ i = j from fun e => hj e.symm]
        rw [ih _ _ this]; simp [hj]
    | balance a b =>
      rw [historyOf_cons_balance]
      exact ih _ _ (by simpa [EngState.step] using h)

def AssetState.run (a : AssetState) (snaps : List BalSnap) : AssetState :=
  snaps.foldl AssetState.updateFromBalance a

/-- Engine path, assets: slot `a` only ever sees asset `a`'s snapshots. -/
theorem EngState.run_asset (s : EngState) (evs : List Ev) (a : Nat) (st : AssetState)
    (h : s.assets[a]? = some st) :
    (s.run evs).assets[a]? = some (st.run (balancesOf a evs)) := by
  induction evs generalizing s st with
  | nil => simpa [EngState.run, balancesOf, AssetState.run] using h
  | cons ev evs ih =>
    simp only [EngState.run, List.foldl_cons] at ih ⊢
    cases ev with
    | position j p =>
      rw [balancesOf_cons_position]
      exact ih _ _ (by simpa [EngState.step] using h)
    | balance b sn =>
      rw [balancesOf_cons_balance]
      by_cases hb : b = a
      · subst hb
        have : (s.step (.balance b sn)).assets[b]? = some (st.updateFromBalance sn) := by
          simp [EngState.step, modifyAt_getElem?, h]
        rw [ih _ _ this]; simp [AssetState.run]
      · have : (s.step (.balance b sn)).assets[a]? = some st := by
          simp [EngState.step, modifyAt_getElem?, h, show ¬ a = b from fun e => hb e.symm]
        rw [ih _ _ this]; simp [hb]

theorem EngState.run_lengths (s : EngState) (evs : List Ev) :
    (s.run evs).instruments.length = s.instruments.length ∧
    (s.run evs).assets.length = s.assets.length := by
  induction evs generalizing s with
  | nil => simp [EngState.run]
  | cons ev evs ih =>
    simp only [EngState.run, List.foldl_cons] at ih ⊢
    have := ih (s.step ev)
    cases ev <;> simp_all [EngState.step, modifyAt_length]

/-- Direct path, instruments. -/
theorem TradingSummaryGenerator.run_instrument (s : TradingSummaryGenerator) (evs : List Ev)
    (i : Nat) (g : TearSheetGenerator) (h : s.instruments[i]? = some g) :
    (s.run evs).instruments[i]? = some (g.run (historyOf i evs)) := by
  induction evs generalizing s g with
  | nil => simpa [TradingSummaryGenerator.run, historyOf, TearSheetGenerator.run] using h
  | cons ev evs ih =>
    simp only [TradingSummaryGenerator.run, List.foldl_cons] at ih ⊢
    cases ev with
    | position j p =>
      rw [historyOf_cons_position]
      by_cases hj : j = i
      · subst hj
        have : (s.step (.position j p)).instruments[j]? = some (g.updateFromPosition p) := by
          simp [TradingSummaryGenerator.step, TradingSummaryGenerator.updateFromPosition,
            modifyAt_getElem?, h]
        rw [ih _ _ this]; simp [TearSheetGenerator.run]
      · have : (s.step (.position j p)).instruments[i]? = some g := by
          simp [TradingSummaryGenerator.step, TradingSummaryGenerator.updateFromPosition,
            modifyAt_getElem?, h, show ¬ i = j from fun e => hj e.symm]
        rw [ih _ _ this]; simp [hj]
    | balance a b =>
      rw [historyOf_cons_balance]
      exact ih _ _ (by simpa [TradingSummaryGenerator.step,
        TradingSummaryGenerator.updateFromBalance] using h)

def TearSheetAssetGenerator.run (g : TearSheetAssetGenerator) (snaps : List BalSnap) :
    TearSheetAssetGenerator := snaps.foldl TearSheetAssetGenerator.updateFromBalance g

/-- Direct path, assets. -/
theorem TradingSummaryGenerator.run_asset (s : TradingSummaryGenerator) (evs : List Ev)
    (a : Nat) (g : TearSheetAssetGenerator) (h : s.assets[a]? = some g) :
    (s.run evs).assets[a]? = some (g.run (balancesOf a evs)) := by
  induction evs generalizing s g with
  | nil => simpa [TradingSummaryGenerator.run, balancesOf, TearSheetAssetGenerator.run] using h
  | cons ev evs ih =>
    simp only [TradingSummaryGenerator.run, List.foldl_cons] at ih ⊢
    cases ev with
    | position j p =>
      rw [balancesOf_cons_position]
      exact ih _ _ (by simpa [TradingSummaryGenerator.step,
        TradingSummaryGenerator.updateFromPosition] using h)
    | balance b sn =>
      rw [balancesOf_cons_balance]
      by_cases hb : b = a
      · subst hb
        have : (s.step (.balance b sn)).assets[b]? = some (g.updateFromBalance sn) := by
          simp [TradingSummaryGenerator.step, TradingSummaryGenerator.updateFromBalance,
            modifyAt_getElem?, h]
        rw [ih _ _ this]; simp [TearSheetAssetGenerator.run]
      · have : (s.step (.balance b sn)).assets[a]? = some g := by
          simp [TradingSummaryGenerator.step, TradingSummaryGenerator.updateFromBalance,
            modifyAt_getElem?, h, show ¬ a = b from fun e => hb e.symm]
        rw [ih _ _ this]; simp [hb]

theorem TradingSummaryGenerator.run_lengths (s : TradingSummaryGenerator) (evs : List Ev) :
    (s.run evs).instruments.length = s.instruments.length ∧
    (s.run evs).assets.length = s.assets.length := by
  induction evs generalizing s with
  | nil => simp [TradingSummaryGenerator.run]
  | cons ev evs ih =>
    simp only [TradingSummaryGenerator.run, List.foldl_cons] at ih ⊢
    have := ih (s.step ev)
    cases ev <;> simp_all [TradingSummaryGenerator.step, TradingSummaryGenerator.updateFromPosition,
      TradingSummaryGenerator.updateFromBalance, modifyAt_length]

/-! ### asset histories -/

/-- Direct path: the generator ends with the last balance it was given. -/
theorem TearSheetAssetGenerator.run_balanceNow (g : TearSheetAssetGenerator) (snaps : List BalSnap) :
    (g.run snaps).balanceNow =
      match snaps.getLast? with
      | some s => some s.balance
      | none => g.balanceNow := by
  induction snaps generalizing g with
  | nil => rfl
  | cons s snaps ih =>
    simp only [TearSheetAssetGenerator.run, List.foldl_cons] at ih ⊢
    rw [ih]
    cases snaps with
    | nil => simp [TearSheetAssetGenerator.updateFromBalance]
    | cons t ts =>
      cases h : (t :: ts).getLast? with
      | none => simp at h
      | some x => simp [List.getLast?_cons_cons, h]

theorem find?_congr' {α : Type} (l : List α) (p q : α → Bool) (h : ∀ x ∈ l, p x = q x) :
    l.find? p = l.find? q := by
  induction l with
  | nil => rfl
  | cons x xs ih =>
    rw [List.find?_cons, List.find?_cons, h x (by simp), ih (fun y hy => h y (by simp [hy]))]

theorem exists_max_time (l : List BalSnap) (h : l ≠ []) :
    ∃ x ∈ l, ∀ y ∈ l, y.time ≤ x.time := by
  induction l with
  | nil => exact absurd rfl h
  | cons a as ih =>
    cases as with
    | nil => exact ⟨a, by simp, by simp⟩
    | cons b bs =>
      obtain ⟨x, hx, hmax⟩ := ih (by simp)
      by_cases hax : a.time ≤ x.time
      · exact ⟨x, by simp [hx], by
          intro y hy
          rcases List.mem_cons.mp hy with rfl | hy
          · exact hax
          · exact hmax y hy⟩
      · refine ⟨a, by simp, ?_⟩
        intro y hy
        rcases List.mem_cons.mp hy with rfl | hy
        · exact Int.le_refl _
        · have := hmax y hy; omega

theorem latest_eq_none (l : List BalSnap) : latest l = none ↔ l = [] := by
  constructor
  · intro h
    by_cases hl : l = []
    · exact hl
    · obtain ⟨x, hx, hmax⟩ := exists_max_time l hl
      unfold latest at h
      rw [List.find?_eq_none] at h
      have := h x (by simpa using hx)
      exact absurd (by simpa using hmax) this
  · rintro rfl; rfl

theorem latest_eq_some {l : List BalSnap} {c : BalSnap} (h : latest l = some c) :
    c ∈ l ∧ ∀ y ∈ l, y.time ≤ c.time := by
  unfold latest at h
  have h1 := List.mem_of_find?_eq_some h
  have h2 := List.find?_some h
  exact ⟨by simpa using h1, by simpa using h2⟩

/-- `latest` of a history extended by one snapshot. -/
theorem latest_concat (snaps : List BalSnap) (s : BalSnap) :
    latest (snaps ++ [s]) =
      match latest snaps with
      | none => some s
      | some cur => if cur.time ≤ s.time then some s else some cur := by
  cases hl : latest snaps with
  | none =>
    have := (latest_eq_none snaps).mp hl
    subst this
    simp [latest]
  | some cur =>
    obtain ⟨hmem, hmax⟩ := latest_eq_some hl
    simp only
    unfold latest
    rw [List.reverse_append, List.reverse_singleton, List.singleton_append, List.find?_cons]
    by_cases hc : cur.time ≤ s.time
    · have : (snaps ++ [s]).all (fun s' => decide (s'.time ≤ s.time)) = true := by
        simp only [List.all_append, List.all_cons, List.all_nil, Bool.and_true, Bool.and_eq_true,
          List.all_eq_true, decide_eq_true_eq]
        exact ⟨fun y hy => Int.le_trans (hmax y hy) hc, Int.le_refl _⟩
      simp [this, hc]
    · have : (snaps ++ [s]).all (fun s' => decide (s'.time ≤ s.time)) = false := by
        rw [Bool.eq_false_iff]
        intro h
        simp only [List.all_append, Bool.and_eq_true, List.all_eq_true, decide_eq_true_eq] at h
        exact hc (h.1 cur hmem)
      simp only [this, hc, ↓reduceIte]
      rw [← hl]
      unfold latest
      apply find?_congr'
      intro x _
      simp only [List.all_append, List.all_cons, List.all_nil, Bool.and_true]
      by_cases hp : snaps.all (fun s' => decide (s'.time ≤ x.time)) = true
      · have hx : cur.time ≤ x.time := by
          have := List.all_eq_true.mp hp cur hmem
          simpa using this
        have : s.time ≤ x.time := by omega
        simp [hp, this]
      · simp [hp]

/-- Engine path: the asset state after a history is its most recent snapshot, and the statistics
generator holds that snapshot's balance. -/
theorem AssetState.run_default (snaps : List BalSnap) :
    (AssetState.default.run snaps).balance = latest snaps ∧
    (AssetState.default.run snaps).statistics.balanceNow = (latest snaps).map (·.balance) := by
  -- induction from the right
  suffices H : ∀ n (snaps : List BalSnap), snaps.length = n →
      (AssetState.default.run snaps).balance = latest snaps ∧
      (AssetState.default.run snaps).statistics.balanceNow = (latest snaps).map (·.balance) from
    H _ snaps rfl
  intro n
  induction n with
  | zero =>
    intro snaps h
    have : snaps = [] := List.eq_nil_of_length_eq_zero h
    subst this; exact ⟨rfl, rfl⟩
  | succ n ih =>
    intro snaps h
    rcases List.eq_nil_or_concat snaps with rfl | ⟨init, s, rfl⟩
    · simp at h
    · rw [List.concat_eq_append] at h ⊢
      have hlen : init.length = n := by simpa using h
      obtain ⟨ih1, ih2⟩ := ih init hlen
      have hrun : AssetState.default.run (init ++ [s]) =
          (AssetState.default.run init).updateFromBalance s := by
        simp [AssetState.run, List.foldl_append]
      rw [hrun, latest_concat]
      unfold AssetState.updateFromBalance
      rw [ih1]
      cases hl : latest init with
      | none => simp [TearSheetAssetGenerator.updateFromBalance]
      | some cur =>
        by_cases hc : cur.time ≤ s.time
        · simp [hc, TearSheetAssetGenerator.updateFromBalance]
        · simp only [hc, ↓reduceIte, ih1, hl, true_and]
          rw [ih2, hl]

end BarterModel.TearSheet
