import BarterModel.Lemmas.SysHandle
import BarterModel.Props.C03
/-! The input-level guard of the sub-check C20S (review B C20S-2): every open request sent through the
handle, every market price and every reaction asked of the strategy is positive. What it implies, for
every schedule: every open request the engine ever sends — the user's, the strategy's, the ones
`close_positions` generates from the engine's own positions — has a positive quantity, hence every
fill the mock exchange ever reports, hence every processed event is `EvOk` and every reachable engine
state `StateOk` (the hypotheses of `account_order_irrelevant` / `reachable_state_ok`). -/
namespace BarterModel.SysHandle
open BarterModel.Engine BarterModel.Orders

/-- a market stream item the guard admits: a `Reconnecting` marker, or a trade with a positive price
whose requested reaction (if any) has a positive quantity -/
def MktOk (m : MktEv) : Prop := m.marker = true ∨ (0 < m.price ∧ ∀ sq, m.react = some sq → 0 < sq.2)

instance (m : MktEv) : Decidable (MktOk m) := by
  unfold MktOk
  cases h : m.react with
  | none => exact decidable_of_iff (m.marker = true ∨ 0 < m.price) (by simp)
  | some sq => exact decidable_of_iff (m.marker = true ∨ (0 < m.price ∧ 0 < sq.2)) (by simp)

/-- the guard on one user action: open requests sent through the handle carry a positive price and a
positive quantity, market items are `MktOk` -/
def ActOk : Act MktEv Command → Prop
  | .push m => MktOk m
  | .call (.command (.sendOpenRequests rs)) => ∀ r ∈ rs, 0 < r.quantity ∧ 0 < r.price
  | _ => True

instance (a : Act MktEv Command) : Decidable (ActOk a) := by
  cases a with
  | push m => unfold ActOk; infer_instance
  | call c =>
    cases c with
    | tradingState on => unfold ActOk; infer_instance
    | command c => cases c <;> unfold ActOk <;> infer_instance
  | fwdMarket => unfold ActOk; infer_instance
  | fwdAccount k => unfold ActOk; infer_instance
  | engine => unfold ActOk; infer_instance
  | close how => unfold ActOk; infer_instance
  | takeAudit => unfold ActOk; infer_instance

/-- `PosOps`: the input-level guard (what the drivers and the harness reject as `bad-op`). -/
def PosOps (acts : List (Act MktEv Command)) : Prop := ∀ a ∈ acts, ActOk a

instance (acts : List (Act MktEv Command)) : Decidable (PosOps acts) := by
  unfold PosOps; infer_instance

/-- an engine request with a positive quantity (cancel requests carry none) -/
def CReqOk : Req → Prop
  | .opn r => 0 < r.quantity
  | .cnl _ => True

/-- the guard as it shows on a feed event -/
def EvGuard : CEv → Prop
  | .command (.sendOpenRequests rs) => ∀ r ∈ rs, 0 < r.quantity
  | .market m => MktOk m
  | _ => True

/-- every recorded trade that asks for a reaction asks for a positive quantity -/
def TradesOk (l : List MktEv) : Prop := ∀ t ∈ l, ∀ sq, t.react = some sq → 0 < sq.2

theorem cProcess_requests (s : CEng) (ev : CEv) :
    (cProcess s ev).2 = Props.C03.Audit.sentReqs (cStep s ev).2 := by
  show (BarterModel.Engine.process s.eng _ _ _ _).1.log.drop s.eng.log.length = _
  rw [Props.C03.process_delivers_exactly_sent]
  simp [cStep]

theorem sendRequests_sent_sub {β : Type} (e : Engine.Eng) (toReq : β → Req) (rs : List β) (x : β)
    (h : x ∈ (sendRequests e toReq rs).2.sent) : x ∈ rs := by
  have := (Props.C03.send_requests_partition e toReq rs).2.1
  rw [this] at h
  exact (List.mem_filter.mp h).1

theorem closeRequests_pos (e : Engine.Eng) (f : Filter) (hp : PosOk e) :
    ∀ o ∈ closeRequests e f, 0 < o.quantity := by
  intro o ho
  simp only [closeRequests, List.mem_filterMap, List.mem_filter] at ho
  obtain ⟨si, ⟨hsi, _⟩, hm⟩ := ho
  have hmem : si.1 ∈ e.instruments := by
    have := List.mem_zipIdx hsi
    rw [this.2.2]
    exact List.getElem_mem _
  cases hpos : si.1.position with
  | none => simp [hpos] at hm
  | some sq =>
    obtain ⟨sd, q⟩ := sq
    cases hpr : si.1.price with
    | none => simp [hpos, hpr] at hm
    | some p =>
      simp only [hpos, hpr, Option.some.injEq] at hm
      subst hm
      exact hp si.1 hmem sd q hpos

theorem action_opens_pos (e : Engine.Eng) (c : Command) (hp : PosOk e)
    (hg : EvGuard (.command c : CEv)) : ∀ o ∈ (action e c).2.opens.sent, 0 < o.quantity := by
  intro o ho
  cases c with
  | sendCancelRequests rs => simp [action, SendOut.empty] at ho
  | cancelOrders f => simp [action, SendOut.empty] at ho
  | sendOpenRequests rs =>
    simp only [action] at ho
    exact hg o (sendRequests_sent_sub _ _ _ _ ho)
  | closePositions f =>
    simp only [action] at ho
    have := sendRequests_sent_sub _ _ _ _ ho
    exact closeRequests_pos e f hp o this

theorem stratOpens_pos (e : Engine.Eng) (trades : List MktEv) (answered : Nat) (ht : TradesOk trades) :
    ∀ o ∈ stratOpens e trades answered, 0 < o.quantity := by
  intro o ho
  simp only [stratOpens, List.mem_filterMap] at ho
  obtain ⟨t, htm, hr⟩ := ho
  have htm' : t ∈ trades := List.mem_of_mem_drop htm
  cases hre : t.react with
  | none => simp [hre] at hr
  | some sq =>
    simp only [hre, Option.map_some, Option.some.injEq] at hr
    subst hr
    exact ht t htm' sq hre

theorem tradesOk_after (trades : List MktEv) (ev : CEv) (ht : TradesOk trades) (hg : EvGuard ev) :
    TradesOk (tradesAfter trades ev) := by
  cases ev with
  | market m =>
    simp only [tradesAfter]
    split
    · exact ht
    · rename_i hm
      intro t htm sq hsq
      rcases List.mem_append.mp htm with h | h
      · exact ht t h sq hsq
      · simp only [List.mem_singleton] at h
        subst h
        rcases hg with h' | ⟨_, h'⟩
        · exact absurd h' hm
        · exact h' sq hsq
  | _ => exact ht

/-- (one tick) In a state whose positions are canonical and whose recorded trades ask for positive
reactions only, a guarded event makes the engine send requests with positive quantities only. -/
theorem cProcess_requests_ok (s : CEng) (ev : CEv) (hp : PosOk s.eng) (ht : TradesOk s.trades)
    (hg : EvGuard ev) : ∀ r ∈ (cProcess s ev).2, CReqOk r := by
  intro r hr
  rw [cProcess_requests] at hr
  cases r with
  | cnl q => trivial
  | opn o =>
    show 0 < o.quantity
    have ho : o ∈ Props.C03.Audit.sentOpens (cStep s ev).2 := by
      unfold Props.C03.Audit.sentReqs at hr
      unfold Props.C03.Audit.sentOpens
      cases hc : (cStep s ev).2.commanded <;> cases hgn : (cStep s ev).2.generated <;>
        simp [hc, hgn] at hr ⊢ <;> exact hr
    obtain ⟨hc, hgen⟩ := BarterModel.Engine.process_shape s.eng (toEngineEvent s.eng ev) (cAsk s ev).algoC
      (cAsk s ev).algoO (cAsk s ev).refuse
    rcases (Props.C03.mem_sentOpens _ o).mp ho with ⟨a, ha, hoa⟩ | ⟨g, hg', hog⟩
    · have ha : (BarterModel.Engine.process s.eng (toEngineEvent s.eng ev) (cAsk s ev).algoC
          (cAsk s ev).algoO (cAsk s ev).refuse).2.commanded = some a := ha
      rw [hc] at ha
      cases ev with
      | command c =>
        simp only [toEngineEvent, BarterModel.Engine.commandedOf, Option.some.injEq] at ha
        subst ha
        exact action_opens_pos s.eng c hp hg o hoa
      | shutdown => cases ha
      | trading on => cases ha
      | market m => simp only [toEngineEvent] at ha; split at ha <;> cases ha
      | account a' =>
        cases a' <;> simp only [toEngineEvent] at ha <;> (try split at ha) <;> (try split at ha) <;> cases ha
    · have hg' : (BarterModel.Engine.process s.eng (toEngineEvent s.eng ev) (cAsk s ev).algoC
          (cAsk s ev).algoO (cAsk s ev).refuse).2.generated = some g := hg'
      rcases hgen with ⟨hn, _⟩ | ⟨hsome, _⟩
      · rw [hn] at hg'; cases hg'
      · rw [hsome] at hg'
        injection hg' with hg'
        subst hg'
        have hsub : o ∈ (cAsk s ev).algoO := by
          simp only [generateAlgoOrders] at hog
          have := sendRequests_sent_sub _ _ _ _ hog
          exact (List.mem_filter.mp this).1
        exact stratOpens_pos s.eng _ _ (tradesOk_after s.trades ev ht hg) o hsub

theorem cRespondLive_shape (x : CExch) (q : OpenReq) :
    ∀ a ∈ (cRespondLive x (.opn q)).2,
      (∃ i c qq p f e, a = AccEv.order i c qq p f e) ∨ (∃ k t, a = AccEv.balance k t) ∨
      (∃ i sd p, a = AccEv.trade i sd q.quantity p) := by
  intro a ha
  simp only [cRespondLive] at ha
  split at ha
  · cases hs : q.side with
    | buy =>
      simp only [hs] at ha
      split at ha
      · simp only [List.mem_cons, List.not_mem_nil, or_false] at ha
        rcases ha with ha | ha | ha
        · exact Or.inl ⟨_, _, _, _, _, _, ha⟩
        · exact Or.inr (Or.inl ⟨_, _, ha⟩)
        · exact Or.inr (Or.inr ⟨_, _, _, ha⟩)
      · simp only [List.mem_cons, List.not_mem_nil, or_false] at ha
        exact Or.inl ⟨_, _, _, _, _, _, ha⟩
    | sell =>
      simp only [hs] at ha
      split at ha
      · simp only [List.mem_cons, List.not_mem_nil, or_false] at ha
        rcases ha with ha | ha | ha
        · exact Or.inl ⟨_, _, _, _, _, _, ha⟩
        · exact Or.inr (Or.inl ⟨_, _, ha⟩)
        · exact Or.inr (Or.inr ⟨_, _, _, ha⟩)
      · simp only [List.mem_cons, List.not_mem_nil, or_false] at ha
        exact Or.inl ⟨_, _, _, _, _, _, ha⟩
  · simp at ha

/-- (execution side) Requests with positive quantities produce account events with positive fills. -/
theorem cRespond_accOk (x : CExch) (r : Req) (hr : CReqOk r) : ∀ a ∈ (cRespond x r).2, AccOk a := by
  intro a ha
  unfold cRespond at ha
  split at ha
  · simp at ha
  · split at ha
    · simp at ha
    · cases r with
      | cnl q =>
        simp only [cRespondLive, List.mem_singleton] at ha
        subst ha
        intro i o ho
        simp only [accOp, Option.some.injEq, Prod.mk.injEq] at ho
        rw [← ho.2]; trivial
      | opn q =>
        have hq : 0 < q.quantity := hr
        intro i o ho
        rcases cRespondLive_shape x q a ha with ⟨_, _, _, _, _, _, h⟩ | ⟨_, _, h⟩ | ⟨_, _, _, h⟩
        · subst h; simp only [accOp, Option.some.injEq, Prod.mk.injEq] at ho; rw [← ho.2]; trivial
        · subst h; simp [accOp] at ho
        · subst h; simp only [accOp, Option.some.injEq, Prod.mk.injEq] at ho; rw [← ho.2]; exact hq

theorem respondAll_accOk (rs : List Req) (x : CExch) (hr : ∀ r ∈ rs, CReqOk r) :
    ∀ a ∈ (respondAll cExchange x rs).2, AccOk a := by
  induction rs generalizing x with
  | nil => intro a ha; simp [respondAll] at ha
  | cons r rs ih =>
    have e : respondAll cExchange x (r :: rs) =
        ((respondAll cExchange (cRespond x r).1 rs).1,
          (cRespond x r).2 ++ (respondAll cExchange (cRespond x r).1 rs).2) := rfl
    rw [e]
    intro a ha
    rcases List.mem_append.mp ha with h | h
    · exact cRespond_accOk x r (hr r (by simp)) a h
    · exact ih _ (fun q hq => hr q (by simp [hq])) a h

/-- What the guard maintains along every schedule. -/
structure PosInv (s : CSys) : Prop where
  reqs : ∀ r ∈ s.requests, CReqOk r
  pend : ∀ a ∈ s.pending, AccOk a
  feed : ∀ ev ∈ s.feed, EvOk ev ∧ EvGuard ev
  mkt : ∀ m ∈ s.market, MktOk m
  proc : ∀ ev ∈ s.processed, EvOk ev
  st : StateOk s.eng.state
  trades : TradesOk s.eng.state.trades

theorem posInv_step (s : CSys) (a : Act MktEv Command) (h : PosInv s) (ha : ActOk a) :
    PosInv (SysHandle.step cEngine cExchange s a) := by
  cases a with
  | push m =>
    refine { h with mkt := ?_ }
    intro x hx
    simp only [SysHandle.step, stepPush, List.mem_append, List.mem_singleton] at hx
    rcases hx with hx | hx
    · exact h.mkt x hx
    · subst hx; exact ha
  | fwdMarket =>
    simp only [SysHandle.step, stepFwdMarket]
    cases hm : s.market with
    | nil => exact h
    | cons m ms =>
      simp only
      split
      · exact { h with mkt := by intro x hx; simp at hx }
      · refine { h with feed := ?_, mkt := ?_ }
        · intro x hx
          simp only [List.mem_append, List.mem_singleton] at hx
          rcases hx with hx | hx
          · exact h.feed x hx
          · subst hx; exact ⟨trivial, h.mkt m (by rw [hm]; simp)⟩
        · intro x hx; exact h.mkt x (by rw [hm]; simp [hx])
  | fwdAccount k =>
    simp only [SysHandle.step, stepFwdAccount]
    cases hp : s.pending[k]? with
    | none => exact h
    | some a =>
      have hmem : a ∈ s.pending := List.mem_of_getElem? hp
      have hsub : ∀ x ∈ s.pending.eraseIdx k, AccOk x := fun x hx => h.pend x (List.mem_of_mem_eraseIdx hx)
      simp only
      split
      · exact { h with pend := hsub }
      · refine { h with pend := hsub, feed := ?_ }
        intro x hx
        simp only [List.mem_append, List.mem_singleton] at hx
        rcases hx with hx | hx
        · exact h.feed x hx
        · subst hx; exact ⟨h.pend a hmem, trivial⟩
  | call c =>
    simp only [SysHandle.step, stepCall, send]
    split
    · exact h
    · split
      · exact { h with }
      · refine { h with feed := ?_ }
        intro x hx
        simp only [List.mem_append, List.mem_singleton] at hx
        rcases hx with hx | hx
        · exact h.feed x hx
        · subst hx
          cases c with
          | tradingState on => exact ⟨trivial, trivial⟩
          | command c =>
            cases c with
            | sendOpenRequests rs => exact ⟨trivial, fun r hr => (ha r hr).1⟩
            | sendCancelRequests rs => exact ⟨trivial, trivial⟩
            | closePositions f => exact ⟨trivial, trivial⟩
            | cancelOrders f => exact ⟨trivial, trivial⟩
  | close how =>
    simp only [SysHandle.step, stepClose, send]
    split
    · exact h
    · split
      · exact { h with }
      · refine { h with feed := ?_ }
        intro x hx
        simp only [List.mem_append, List.mem_singleton] at hx
        rcases hx with hx | hx
        · exact h.feed x hx
        · subst hx; exact ⟨trivial, trivial⟩
  | takeAudit =>
    simp only [SysHandle.step, stepTakeAudit]
    split
    · exact h
    · exact { h with }
  | engine =>
    simp only [SysHandle.step, stepEngine]
    split
    · exact h
    · cases hf : s.feed with
      | nil => exact h
      | cons e rest =>
        have he := h.feed e (by rw [hf]; simp)
        have hreq : ∀ r ∈ (cProcess s.eng.state e).2, CReqOk r :=
          cProcess_requests_ok s.eng.state e h.st.posOk h.trades he.2
        have hacc := respondAll_accOk (cProcess s.eng.state e).2 s.exch hreq
        exact
          { reqs := by
              intro r hr
              rcases List.mem_append.mp hr with hr | hr
              · exact h.reqs r hr
              · exact hreq r hr
            pend := by
              intro a ha'
              rcases List.mem_append.mp ha' with ha' | ha'
              · exact h.pend a ha'
              · exact hacc a ha'
            feed := fun x hx => h.feed x (by rw [hf]; simp [hx])
            mkt := h.mkt
            proc := by
              intro x hx
              simp only [List.mem_append, List.mem_singleton] at hx
              rcases hx with hx | hx
              · exact h.proc x hx
              · subst hx; exact he.1
            st := stateOk_cStep s.eng.state e h.st he.1
            trades := tradesOk_after s.eng.state.trades e h.trades he.2 }

theorem posInv_run (acts : List (Act MktEv Command)) (s : CSys) (h : PosInv s) (ha : PosOps acts) :
    PosInv (run cEngine cExchange s acts) := by
  induction acts generalizing s with
  | nil => exact h
  | cons a acts ih =>
    exact ih _ (posInv_step s a h (ha a (by simp))) (fun x hx => ha x (by simp [hx]))

end BarterModel.SysHandle
