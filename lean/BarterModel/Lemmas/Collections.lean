import BarterModel.Model.Collections
/-! Helper lemmas for C03N (NoneOneOrMany / OneOrMany). The abstraction function is `asRef`
(the slice view of the Rust types). -/
namespace BarterModel.Collections

/-! ### canonical form -/

/-- the representation is the one determined by the length: `Many` holds at least two items -/
def NOM.Canonical {α : Type} : NOM α → Prop
  | .none => True
  | .one _ => True
  | .many l => 2 ≤ l.length

def OOM.Canonical {α : Type} : OOM α → Prop
  | .one _ => True
  | .many l => 2 ≤ l.length

instance {α : Type} (a : NOM α) : Decidable a.Canonical := by
  cases a <;> simp only [NOM.Canonical] <;> infer_instance

instance {α : Type} (a : OOM α) : Decidable a.Canonical := by
  cases a <;> simp only [OOM.Canonical] <;> infer_instance

namespace NOM
variable {α β : Type}

/-! ### every way of reading is `asRef` -/
theorem intoVec_eq (a : NOM α) : a.intoVec = a.asRef := by cases a <;> rfl
theorem iter_eq (a : NOM α) : a.iter = a.asRef := rfl
theorem intoIter_eq (a : NOM α) : a.intoIter = a.asRef := by cases a <;> rfl

/-! ### construction -/
theorem fromVec_eq_fromIter (l : List α) : fromVec l = fromIter l := by
  unfold fromVec fromIter; split <;> rfl

theorem fromIter_cons_cons (x y : α) (l : List α) : fromIter (x :: y :: l) = .many (x :: y :: l) := rfl

theorem fromIter_asRef (l : List α) : (fromIter l).asRef = l := by
  match l with
  | [] => rfl
  | [_] => rfl
  | _ :: _ :: _ => rfl

theorem fromIter_canonical (l : List α) : (fromIter l).Canonical := by
  match l with
  | [] => trivial
  | [_] => trivial
  | _ :: _ :: _ => simp [fromIter, Canonical]

theorem fromIter_eq_none_iff (l : List α) : fromIter l = .none ↔ l = [] := by
  match l with
  | [] => simp [fromIter]
  | [_] => simp [fromIter]
  | _ :: _ :: _ => simp [fromIter]

theorem fromIter_eq_one_iff (l : List α) (x : α) : fromIter l = .one x ↔ l = [x] := by
  match l with
  | [] => simp [fromIter]
  | [_] => simp [fromIter]
  | _ :: _ :: _ => simp [fromIter]

theorem fromIter_eq_many_iff (l m : List α) : fromIter l = .many m ↔ l = m ∧ 2 ≤ l.length := by
  match l with
  | [] => simp [fromIter]
  | [_] => simp [fromIter]
  | _ :: _ :: _ => simp [fromIter]

theorem fromOption_asRef (o : Option α) : (fromOption o).asRef = o.toList := by cases o <;> rfl
theorem fromOption_canonical (o : Option α) : (fromOption o).Canonical := by cases o <;> trivial

/-- `from_iter ∘ into_iter` is the identity on canonical values -/
theorem fromIter_asRef_of_canonical {a : NOM α} (h : a.Canonical) : fromIter a.asRef = a := by
  cases a with
  | none => rfl
  | one x => rfl
  | many l =>
    match l, h with
    | _ :: _ :: _, _ => rfl

/-- a canonical value is determined by its items -/
theorem canonical_ext {a b : NOM α} (ha : a.Canonical) (hb : b.Canonical) (h : a.asRef = b.asRef) :
    a = b := by
  rw [← fromIter_asRef_of_canonical ha, ← fromIter_asRef_of_canonical hb, h]

/-! ### len / is_empty / contains / map -/
theorem len_eq (a : NOM α) : a.len = a.asRef.length := by cases a <;> rfl

theorem isEmpty_imp (a : NOM α) (h : a.isEmpty = true) : a.asRef = [] := by
  cases a <;> simp_all [isEmpty, isNone, asRef]

theorem isEmpty_iff_of_canonical {a : NOM α} (h : a.Canonical) : a.isEmpty = true ↔ a.asRef = [] := by
  cases a with
  | none => simp [isEmpty, isNone, asRef]
  | one x => simp [isEmpty, isNone, asRef]
  | many l =>
    simp only [isEmpty, isNone, asRef, Bool.false_eq_true, false_iff]
    intro hl; subst hl; simp [Canonical] at h

theorem contains_iff [BEq α] [LawfulBEq α] (a : NOM α) (x : α) : a.contains x = true ↔ x ∈ a.asRef := by
  cases a with
  | none => simp [contains, asRef]
  | one v => simp only [contains, asRef, beq_iff_eq, List.mem_singleton]; exact eq_comm
  | many l => simp [contains, asRef]

theorem map_asRef (f : α → β) (a : NOM α) : (a.map f).asRef = a.asRef.map f := by cases a <;> rfl

theorem map_canonical (f : α → β) {a : NOM α} (h : a.Canonical) : (a.map f).Canonical := by
  cases a <;> simp_all [map, Canonical]

theorem mutAll_eq_map (f : α → α) (a : NOM α) : a.mutAll f = a.map f := by cases a <;> rfl

/-! ### extend -/

theorem extend_none (l : List α) : (NOM.none : NOM α).extend l = fromIter l := by
  unfold extend; cases fromIter l <;> rfl

theorem extend_nil (a : NOM α) : a.extend [] = a := by
  cases a <;> rfl

theorem extend_one_singleton (x y : α) : (NOM.one x).extend [y] = .many [x, y] := rfl

theorem extend_one_many (x y z : α) (l : List α) :
    (NOM.one x).extend (y :: z :: l) = .many (y :: z :: l ++ [x]) := rfl

theorem extend_many_singleton (m : List α) (y : α) : (NOM.many m).extend [y] = .many (m ++ [y]) := rfl

theorem extend_many_many (m : List α) (y z : α) (l : List α) :
    (NOM.many m).extend (y :: z :: l) = .many (m ++ y :: z :: l) := rfl

/-- the items of `extend` as a function of the items, in all cases -/
theorem extend_asRef (a : NOM α) (l : List α) :
    (a.extend l).asRef =
      match a, l with
      | .one x, y :: z :: l' => y :: z :: l' ++ [x]
      | a, l => a.asRef ++ l := by
  match a, l with
  | .none, l =>
    rw [extend_none, fromIter_asRef]
    cases l with
    | nil => rfl
    | cons y t => cases t <;> rfl
  | .one x, [] => rfl
  | .one x, [y] => rfl
  | .one x, y :: z :: l' => rfl
  | .many m, [] => simp [extend_nil, asRef]
  | .many m, [y] => rfl
  | .many m, y :: z :: l' => rfl

theorem extend_perm (a : NOM α) (l : List α) : (a.extend l).asRef.Perm (a.asRef ++ l) := by
  rw [extend_asRef]
  split
  · rename_i x y z l'
    simpa [asRef] using List.perm_append_singleton x (y :: z :: l')
  · exact List.Perm.refl _

theorem extend_len (a : NOM α) (l : List α) : (a.extend l).len = a.len + l.length := by
  rw [len_eq, len_eq, (extend_perm a l).length_eq, List.length_append]

theorem extend_canonical {a : NOM α} (h : a.Canonical) (l : List α) : (a.extend l).Canonical := by
  match a, l, h with
  | .none, l, _ => rw [extend_none]; exact fromIter_canonical l
  | .one x, [], _ => trivial
  | .one x, [y], _ => simp [extend_one_singleton, Canonical]
  | .one x, y :: z :: l', _ => simp [extend_one_many, Canonical]
  | .many m, [], h => simpa [extend_nil] using h
  | .many m, [y], h => simp [extend_many_singleton, Canonical] at *; omega
  | .many m, y :: z :: l', h => simp [extend_many_many, Canonical] at *; omega

/-- `x :: l = l ++ [x]` exactly when `l` consists of copies of `x` -/
theorem cons_eq_append_singleton_iff (x : α) (l : List α) : x :: l = l ++ [x] ↔ ∀ y ∈ l, y = x := by
  induction l with
  | nil => simp
  | cons y ys ih =>
    constructor
    · intro h
      simp only [List.cons_append, List.cons.injEq] at h
      obtain ⟨hxy, h2⟩ := h
      subst hxy
      have := ih.mp h2
      intro w hw
      rcases List.mem_cons.mp hw with rfl | hw
      · rfl
      · exact this w hw
    · intro h
      have hy : y = x := h y (by simp)
      subst hy
      have := ih.mpr (fun w hw => h w (by simp [hw]))
      simp only [List.cons_append, List.cons.injEq, true_and]
      exact this

/-- when does `extend` keep the order "self first, then other" -/
theorem extend_asRef_eq_append_iff (a : NOM α) (l : List α) :
    (a.extend l).asRef = a.asRef ++ l ↔
      ∀ x, a = .one x → 2 ≤ l.length → ∀ y ∈ l, y = x := by
  rw [extend_asRef]
  split
  · rename_i x y z l'
    simp only [asRef, List.singleton_append]
    rw [eq_comm, cons_eq_append_singleton_iff]
    constructor
    · intro h x' hx' _
      cases hx'; exact h
    · intro h; exact h x rfl (by simp)
  · rename_i hne
    simp only [true_iff]
    intro x hx hl
    cases l with
    | nil => simp at hl
    | cons y t =>
      cases t with
      | nil => simp at hl
      | cons z l'' => exact (hne x y z l'' hx rfl).elim

/-! ### into_option -/
theorem intoOption_eq_optionOfNOM (a : NOM α) : a.intoOption = optionOfNOM a := by cases a <;> rfl

theorem intoOption_eq_none_iff (a : NOM α) : a.intoOption = Option.none ↔ a = NOM.none := by
  cases a <;> simp [intoOption]

theorem intoOption_asRef {a : NOM α} {v : OOM α} (h : a.intoOption = some v) : v.asRef = a.asRef := by
  cases a <;> simp [intoOption] at h <;> subst h <;> rfl

theorem intoOption_canonical {a : NOM α} {v : OOM α} (hc : a.Canonical) (h : a.intoOption = some v) :
    v.Canonical ∧ v.asRef ≠ [] := by
  cases a with
  | none => simp [intoOption] at h
  | one x => simp [intoOption] at h; subst h; simp [OOM.Canonical, OOM.asRef]
  | many l =>
    simp [intoOption] at h; subst h
    refine ⟨hc, ?_⟩
    intro hl; simp [OOM.asRef] at hl; subst hl; simp [Canonical] at hc

/-! ### derived order -/
theorem cmpList_eq_iff (l r : List Int) : cmpList l r = .eq ↔ l = r := by
  induction l generalizing r with
  | nil => cases r <;> simp [cmpList]
  | cons a as ih =>
    cases r with
    | nil => simp [cmpList]
    | cons b bs =>
      simp only [cmpList, List.cons.injEq]
      cases hc : compare a b with
      | eq => simp [Int.compare_eq_eq.mp hc, ih]
      | lt =>
        have : a ≠ b := fun h => by subst h; simp at hc
        simp [this]
      | gt =>
        have : a ≠ b := fun h => by subst h; simp at hc
        simp [this]

theorem cmp_eq_iff (a b : NOM Int) : cmp a b = .eq ↔ a = b := by
  cases a <;> cases b <;> simp [cmp, tag, cmpList_eq_iff]

end NOM

namespace OOM
variable {α β : Type}

theorem intoVec_eq (a : OOM α) : a.intoVec = a.asRef := by cases a <;> rfl
theorem iter_eq (a : OOM α) : a.iter = a.asRef := rfl
theorem intoIter_eq (a : OOM α) : a.intoIter = a.asRef := by cases a <;> rfl

theorem fromIter_asRef (l : List α) : (fromIter l).asRef = l := by
  match l with
  | [] => rfl
  | [_] => rfl
  | _ :: _ :: _ => rfl

theorem fromIter_nil : fromIter ([] : List α) = .many [] := rfl

theorem fromIter_canonical_iff (l : List α) : (fromIter l).Canonical ↔ l ≠ [] := by
  match l with
  | [] => simp [fromIter, Canonical]
  | [_] => simp [fromIter, Canonical]
  | _ :: _ :: _ => simp [fromIter, Canonical]

theorem fromVec_eq_none_iff (l : List α) : fromVec l = none ↔ l = [] := by
  match l with
  | [] => simp [fromVec]
  | [_] => simp [fromVec]
  | _ :: _ :: _ => simp [fromVec]

theorem fromVec_some {l : List α} {v : OOM α} (h : fromVec l = some v) :
    v = fromIter l ∧ v.asRef = l ∧ v.Canonical := by
  match l, h with
  | [_], h => simp [fromVec] at h; subst h; exact ⟨rfl, rfl, trivial⟩
  | _ :: _ :: _, h => simp [fromVec] at h; subst h; exact ⟨rfl, rfl, by simp [Canonical]⟩

theorem canonical_ne_nil {a : OOM α} (h : a.Canonical) : a.asRef ≠ [] := by
  cases a with
  | one x => simp [asRef]
  | many l => intro hl; simp [asRef] at hl; subst hl; simp [Canonical] at h

theorem fromIter_asRef_of_canonical {a : OOM α} (h : a.Canonical) : fromIter a.asRef = a := by
  cases a with
  | one x => rfl
  | many l =>
    match l, h with
    | _ :: _ :: _, _ => rfl

theorem canonical_ext {a b : OOM α} (ha : a.Canonical) (hb : b.Canonical) (h : a.asRef = b.asRef) :
    a = b := by
  rw [← fromIter_asRef_of_canonical ha, ← fromIter_asRef_of_canonical hb, h]

theorem len_eq (a : OOM α) : a.len = a.asRef.length := by cases a <;> rfl

theorem contains_iff [BEq α] [LawfulBEq α] (a : OOM α) (x : α) : a.contains x = true ↔ x ∈ a.asRef := by
  cases a with
  | one v => simp only [contains, asRef, beq_iff_eq, List.mem_singleton]; exact eq_comm
  | many l => simp [contains, asRef]

theorem map_asRef (f : α → β) (a : OOM α) : (a.map f).asRef = a.asRef.map f := by cases a <;> rfl

theorem map_canonical (f : α → β) {a : OOM α} (h : a.Canonical) : (a.map f).Canonical := by
  cases a <;> simp_all [map, Canonical]

theorem mutAll_eq_map (f : α → α) (a : OOM α) : a.mutAll f = a.map f := by cases a <;> rfl

theorem extend_one_nil (x : α) : (OOM.one x).extend [] = .many [x] := rfl
theorem extend_many_nil (m : List α) : (OOM.many m).extend [] = .many (m ++ []) := rfl

theorem extend_asRef (a : OOM α) (l : List α) :
    (a.extend l).asRef =
      match a, l with
      | .one x, y :: z :: l' => y :: z :: l' ++ [x]
      | a, l => a.asRef ++ l := by
  match a, l with
  | .one x, [] => rfl
  | .one x, [y] => rfl
  | .one x, y :: z :: l' => rfl
  | .many m, [] => rfl
  | .many m, [y] => rfl
  | .many m, y :: z :: l' => rfl

theorem extend_perm (a : OOM α) (l : List α) : (a.extend l).asRef.Perm (a.asRef ++ l) := by
  rw [extend_asRef]
  split
  · rename_i x y z l'
    simpa [asRef] using List.perm_append_singleton x (y :: z :: l')
  · exact List.Perm.refl _

theorem extend_len (a : OOM α) (l : List α) : (a.extend l).len = a.len + l.length := by
  rw [len_eq, len_eq, (extend_perm a l).length_eq, List.length_append]

theorem extend_asRef_eq_append_iff (a : OOM α) (l : List α) :
    (a.extend l).asRef = a.asRef ++ l ↔
      ∀ x, a = .one x → 2 ≤ l.length → ∀ y ∈ l, y = x := by
  rw [extend_asRef]
  split
  · rename_i x y z l'
    simp only [asRef, List.singleton_append]
    rw [eq_comm, NOM.cons_eq_append_singleton_iff]
    constructor
    · intro h x' hx' _
      cases hx'; exact h
    · intro h; exact h x rfl (by simp)
  · rename_i hne
    simp only [true_iff]
    intro x hx hl
    cases l with
    | nil => simp at hl
    | cons y t =>
      cases t with
      | nil => simp at hl
      | cons z l'' => exact (hne x y z l'' hx rfl).elim

/-- `extend` keeps the canonical form except when one item is extended by nothing -/
theorem extend_canonical_iff {a : OOM α} (h : a.Canonical) (l : List α) :
    (a.extend l).Canonical ↔ ¬ (a.isOne = true ∧ l = []) := by
  match a, l, h with
  | .one x, [], _ => simp [extend_one_nil, Canonical, isOne]
  | .one x, [y], _ => simp [extend, fromIter, Canonical]
  | .one x, y :: z :: l', _ => simp [extend, fromIter, Canonical]
  | .many m, [], h => simp [extend_many_nil, Canonical, isOne] at *; exact h
  | .many m, [y], h => simp [extend, fromIter, Canonical, isOne] at *; omega
  | .many m, y :: z :: l', h => simp [extend, fromIter, Canonical, isOne] at *; omega

theorem extend_ne_nil {a : OOM α} (h : a.asRef ≠ []) (l : List α) : (a.extend l).asRef ≠ [] := by
  intro hn
  have := (extend_perm a l).length_eq
  rw [hn] at this
  simp only [List.length_nil, List.length_append] at this
  exact h (List.length_eq_zero_iff.mp (by omega))

theorem cmp_eq_iff (a b : OOM Int) : cmp a b = .eq ↔ a = b := by
  cases a <;> cases b <;> simp [cmp, tag, NOM.cmpList_eq_iff]

end OOM

/-! ### shapes -/
def NOM.shape {α : Type} : NOM α → Spec.Shape
  | .none => .none
  | .one _ => .one
  | .many _ => .many

def OOM.shape {α : Type} : OOM α → Spec.Shape
  | .one _ => .one
  | .many _ => .many

theorem NOM.shape_of_canonical {α : Type} {a : NOM α} (h : a.Canonical) : a.shape = Spec.shapeOf a.asRef := by
  cases a with
  | none => rfl
  | one x => rfl
  | many l =>
    match l, h with
    | _ :: _ :: _, _ => simp [shape, Spec.shapeOf, asRef]

theorem OOM.shape_of_canonical {α : Type} {a : OOM α} (h : a.Canonical) : a.shape = Spec.shapeOf a.asRef := by
  cases a with
  | one x => rfl
  | many l =>
    match l, h with
    | _ :: _ :: _, _ => simp [shape, Spec.shapeOf, asRef]

/-! ### audit records -/
namespace ProcessAudit
variable {ε ω κ : Type}

/-- both collections of the record are in canonical form -/
def WF (a : ProcessAudit ε ω κ) : Prop := a.outputs.Canonical ∧ a.errors.Canonical

theorem addOutput_outputs (a : ProcessAudit ε ω κ) (o : ω) :
    (a.addOutput o).outputs.asRef = a.outputs.asRef ++ [o] := by
  simp only [addOutput, NOM.intoIter]
  rw [NOM.extend_asRef_eq_append_iff]
  intro x _ hl; simp at hl

theorem addOutput_errors (a : ProcessAudit ε ω κ) (o : ω) : (a.addOutput o).errors = a.errors := rfl
theorem addOutput_event (a : ProcessAudit ε ω κ) (o : ω) : (a.addOutput o).event = a.event := rfl
theorem addErrors_outputs (a : ProcessAudit ε ω κ) (es : List κ) : (a.addErrors es).outputs = a.outputs := rfl
theorem addErrors_event (a : ProcessAudit ε ω κ) (es : List κ) : (a.addErrors es).event = a.event := rfl

theorem addErrors_errors_perm (a : ProcessAudit ε ω κ) (es : List κ) :
    (a.addErrors es).errors.asRef.Perm (a.errors.asRef ++ es) := NOM.extend_perm _ _

theorem addErrors_errors_eq_iff (a : ProcessAudit ε ω κ) (es : List κ) :
    (a.addErrors es).errors.asRef = a.errors.asRef ++ es ↔
      ∀ x, a.errors = .one x → 2 ≤ es.length → ∀ y ∈ es, y = x := NOM.extend_asRef_eq_append_iff _ _

theorem addErrors_of_none {a : ProcessAudit ε ω κ} (h : a.errors = .none) (es : List κ) :
    (a.addErrors es).errors = NOM.fromIter es := by
  simp [addErrors, h, NOM.extend_none]

theorem addOutput_wf {a : ProcessAudit ε ω κ} (h : a.WF) (o : ω) : (a.addOutput o).WF :=
  ⟨NOM.extend_canonical h.1 _, h.2⟩

theorem addErrors_wf {a : ProcessAudit ε ω κ} (h : a.WF) (es : List κ) : (a.addErrors es).WF :=
  ⟨h.1, NOM.extend_canonical h.2 _⟩

theorem withEvent_wf (e : ε) : (withEvent e : ProcessAudit ε ω κ).WF := ⟨trivial, trivial⟩
theorem withOutput_wf (e : ε) (o : ω) : (withOutput e o : ProcessAudit ε ω κ).WF := ⟨trivial, trivial⟩

theorem isTerminal_iff {a : ProcessAudit ε ω κ} (h : a.errors.Canonical) (t : ε → Bool) :
    a.isTerminal t = true ↔ t a.event = true ∨ a.errors.asRef ≠ [] := by
  have := NOM.isEmpty_iff_of_canonical h
  simp only [isTerminal, Bool.or_eq_true, Bool.not_eq_eq_eq_not, Bool.not_true]
  constructor
  · rintro (h1 | h2)
    · exact Or.inl h1
    · right; intro hn; rw [this.mpr hn] at h2; cases h2
  · rintro (h1 | h2)
    · exact Or.inl h1
    · right
      cases he : a.errors.isEmpty with
      | false => rfl
      | true => exact absurd (this.mp he) h2

end ProcessAudit

/-! ### action outputs -/
namespace SendRequestsOutput
variable {ρ ρ' κ : Type}

theorem ofResults_sent (rs : List (ρ × Option (EngineError ρ' κ))) :
    (ofResults rs).sent.asRef = rs.filterMap sentOf := by
  simp [ofResults, NOM.fromVec_eq_fromIter, NOM.fromIter_asRef]

theorem ofResults_errors (rs : List (ρ × Option (EngineError ρ' κ))) :
    (ofResults rs).errors.asRef = rs.filterMap errorOf := by
  simp [ofResults, NOM.fromVec_eq_fromIter, NOM.fromIter_asRef]

theorem ofResults_canonical (rs : List (ρ × Option (EngineError ρ' κ))) :
    (ofResults rs).sent.Canonical ∧ (ofResults rs).errors.Canonical := by
  simp only [ofResults, NOM.fromVec_eq_fromIter]
  exact ⟨NOM.fromIter_canonical _, NOM.fromIter_canonical _⟩

theorem unrecoverableErrors_canonical (s : SendRequestsOutput ρ ρ' κ) : s.unrecoverableErrors.Canonical :=
  NOM.fromIter_canonical _

theorem unrecoverableErrors_asRef (s : SendRequestsOutput ρ ρ' κ) :
    s.unrecoverableErrors.asRef = s.errors.asRef.filterMap unrecOf := by
  simp [unrecoverableErrors, NOM.fromIter_asRef, NOM.iter_eq]

/-- in request order -/
theorem unrecoverableErrors_ofResults (rs : List (ρ × Option (EngineError ρ' κ))) :
    (ofResults rs).unrecoverableErrors.asRef = Spec.unrecoverable rs := by
  rw [unrecoverableErrors_asRef, ofResults_errors, List.filterMap_filterMap]
  unfold Spec.unrecoverable
  congr 1
  funext ⟨r, e⟩
  cases e with
  | none => rfl
  | some e => cases e <;> rfl

theorem isEmpty_ofResults (rs : List (ρ × Option (EngineError ρ' κ))) :
    (ofResults rs).isEmpty = rs.isEmpty := by
  cases rs with
  | nil => rfl
  | cons p ps =>
    obtain ⟨r, e⟩ := p
    simp only [List.isEmpty_cons]
    have hc := ofResults_canonical ((r, e) :: ps)
    cases e with
    | none =>
      have : (ofResults ((r, (none : Option (EngineError ρ' κ))) :: ps)).sent.asRef ≠ [] := by
        rw [ofResults_sent]; simp [sentOf]
      have h2 : (ofResults ((r, (none : Option (EngineError ρ' κ))) :: ps)).sent.isNone = false := by
        cases h : (ofResults ((r, (none : Option (EngineError ρ' κ))) :: ps)).sent.isNone with
        | false => rfl
        | true => exact absurd (NOM.isEmpty_imp _ h) this
      simp [isEmpty, h2]
    | some e =>
      have : (ofResults ((r, some e) :: ps)).errors.asRef ≠ [] := by
        rw [ofResults_errors]; simp [errorOf]
      have h2 : (ofResults ((r, some e) :: ps)).errors.isNone = false := by
        cases h : (ofResults ((r, some e) :: ps)).errors.isNone with
        | false => rfl
        | true => exact absurd (NOM.isEmpty_imp _ h) this
      simp [isEmpty, h2]

end SendRequestsOutput

namespace SendCancelsAndOpensOutput
variable {ρc ρo ρ' κ : Type}

theorem unrecoverableErrors_canonical (x : SendCancelsAndOpensOutput ρc ρo ρ' κ) :
    x.unrecoverableErrors.Canonical :=
  NOM.extend_canonical (SendRequestsOutput.unrecoverableErrors_canonical _) _

theorem unrecoverableErrors_perm (x : SendCancelsAndOpensOutput ρc ρo ρ' κ) :
    x.unrecoverableErrors.asRef.Perm
      (x.cancels.unrecoverableErrors.asRef ++ x.opens.unrecoverableErrors.asRef) := by
  simpa [unrecoverableErrors, NOM.intoIter_eq] using
    NOM.extend_perm x.cancels.unrecoverableErrors x.opens.unrecoverableErrors.asRef

theorem unrecoverableErrors_eq_iff (x : SendCancelsAndOpensOutput ρc ρo ρ' κ) :
    x.unrecoverableErrors.asRef =
        x.cancels.unrecoverableErrors.asRef ++ x.opens.unrecoverableErrors.asRef ↔
      ∀ k, x.cancels.unrecoverableErrors = .one k → 2 ≤ x.opens.unrecoverableErrors.asRef.length →
        ∀ y ∈ x.opens.unrecoverableErrors.asRef, y = k := by
  simpa [unrecoverableErrors, NOM.intoIter_eq] using
    NOM.extend_asRef_eq_append_iff x.cancels.unrecoverableErrors x.opens.unrecoverableErrors.asRef

end SendCancelsAndOpensOutput


/-! ### register machine: one step -/

/-- literal values are canonical -/
def NOp.Safe : NOp → Prop
  | .raw v => v.Canonical
  | _ => True

/-- this `extend` step is not the reversing arm -/
def NOp.keepsOrder (n : NOM Int) : NOp → Prop
  | .ext l => ∀ x, n = .one x → 2 ≤ l.length → ∀ y ∈ l, y = x
  | .extN v => ∀ x, n = .one x → 2 ≤ v.asRef.length → ∀ y ∈ v.asRef, y = x
  | _ => True

def KeepsOrderN : NOM Int → List NOp → Prop
  | _, [] => True
  | n, op :: ops => op.keepsOrder n ∧ KeepsOrderN (op.apply n) ops

theorem NOp.apply_canonical {n : NOM Int} (hn : n.Canonical) {op : NOp} (h : op.Safe) :
    (op.apply n).Canonical := by
  cases op with
  | raw v => exact h
  | vec l => simp only [apply, NOM.fromVec_eq_fromIter]; exact NOM.fromIter_canonical l
  | iter l => exact NOM.fromIter_canonical l
  | opt o => exact NOM.fromOption_canonical o
  | dflt => trivial
  | ext l => exact NOM.extend_canonical hn l
  | extN v => exact NOM.extend_canonical hn _
  | map k => exact NOM.map_canonical _ hn
  | mutate k => simp only [apply, NOM.mutAll_eq_map]; exact NOM.map_canonical _ hn

theorem NOp.apply_perm {n : NOM Int} {s : List Int} (h : n.asRef.Perm s) (op : NOp) :
    (op.apply n).asRef.Perm (op.applySpec s) := by
  cases op with
  | raw v => exact List.Perm.refl _
  | vec l => simp [apply, applySpec, NOM.fromVec_eq_fromIter, NOM.fromIter_asRef, Spec.fromItems]
  | iter l => simp [apply, applySpec, NOM.fromIter_asRef, Spec.fromItems]
  | opt o => simp [apply, applySpec, NOM.fromOption_asRef, Spec.fromOption]
  | dflt => exact List.Perm.refl _
  | ext l => exact (NOM.extend_perm n l).trans (h.append_right l)
  | extN v =>
    simp only [apply, applySpec, NOM.intoIter_eq]
    exact (NOM.extend_perm n v.asRef).trans (h.append_right _)
  | map k => simp only [apply, applySpec, NOM.map_asRef, Spec.map]; exact h.map _
  | mutate k => simp only [apply, applySpec, NOM.mutAll_eq_map, NOM.map_asRef, Spec.map]; exact h.map _

theorem NOp.apply_exact (n : NOM Int) {op : NOp} (h : op.keepsOrder n) :
    (op.apply n).asRef = op.applySpec n.asRef := by
  cases op with
  | raw v => rfl
  | vec l => simp [apply, applySpec, NOM.fromVec_eq_fromIter, NOM.fromIter_asRef, Spec.fromItems]
  | iter l => simp [apply, applySpec, NOM.fromIter_asRef, Spec.fromItems]
  | opt o => simp [apply, applySpec, NOM.fromOption_asRef, Spec.fromOption]
  | dflt => rfl
  | ext l => exact (NOM.extend_asRef_eq_append_iff n l).mpr h
  | extN v =>
    simp only [apply, applySpec, NOM.intoIter_eq]
    exact (NOM.extend_asRef_eq_append_iff n v.asRef).mpr h
  | map k => simp [apply, applySpec, NOM.map_asRef, Spec.map]
  | mutate k => simp [apply, applySpec, NOM.mutAll_eq_map, NOM.map_asRef, Spec.map]

/-- literal values are non-empty, `from_iter` gets at least one item -/
def OOp.Safe : OOp → Prop
  | .raw v => v.asRef ≠ []
  | .iter l => l ≠ []
  | _ => True

def OOp.keepsOrder (o : OOM Int) : OOp → Prop
  | .ext l => ∀ x, o = .one x → 2 ≤ l.length → ∀ y ∈ l, y = x
  | .extO v => ∀ x, o = .one x → 2 ≤ v.asRef.length → ∀ y ∈ v.asRef, y = x
  | _ => True

def KeepsOrderO : OOM Int → List OOp → Prop
  | _, [] => True
  | o, op :: ops => op.keepsOrder o ∧ KeepsOrderO ((op.apply o).getD o) ops

theorem OOp.apply_none_iff (o : OOM Int) (s : List Int) (op : OOp) :
    op.apply o = none ↔ op.applySpec s = none := by
  cases op with
  | vec l => simp [apply, applySpec, OOM.fromVec_eq_none_iff]
  | _ => simp [apply, applySpec]

theorem OOp.apply_perm {o : OOM Int} {s : List Int} (h : o.asRef.Perm s) (op : OOp) :
    ((op.apply o).getD o).asRef.Perm ((op.applySpec s).getD s) := by
  cases op with
  | raw v => exact List.Perm.refl _
  | item x => exact List.Perm.refl _
  | dflt => exact List.Perm.refl _
  | vec l =>
    cases hv : OOM.fromVec l with
    | none =>
      have := (OOM.fromVec_eq_none_iff l).mp hv
      subst this
      simpa [apply, applySpec, hv] using h
    | some v =>
      have hl : l ≠ [] := fun hl => by rw [(OOM.fromVec_eq_none_iff l).mpr hl] at hv; cases hv
      have := (OOM.fromVec_some hv).2.1
      simp [apply, applySpec, hv, this, hl]
  | iter l => simp [apply, applySpec, OOM.fromIter_asRef]
  | ext l => exact (OOM.extend_perm o l).trans (h.append_right l)
  | extO v =>
    simp only [apply, applySpec, OOM.intoIter_eq, Option.getD_some]
    exact (OOM.extend_perm o v.asRef).trans (h.append_right _)
  | map k => simp only [apply, applySpec, OOM.map_asRef, Spec.map, Option.getD_some]; exact h.map _
  | mutate k =>
    simp only [apply, applySpec, OOM.mutAll_eq_map, OOM.map_asRef, Spec.map, Option.getD_some]
    exact h.map _

theorem OOp.apply_exact (o : OOM Int) {op : OOp} (h : op.keepsOrder o) :
    ((op.apply o).getD o).asRef = (op.applySpec o.asRef).getD o.asRef := by
  cases op with
  | raw v => rfl
  | item x => rfl
  | dflt => rfl
  | vec l =>
    cases hv : OOM.fromVec l with
    | none =>
      have := (OOM.fromVec_eq_none_iff l).mp hv
      subst this
      simp [apply, applySpec, hv]
    | some v =>
      have hl : l ≠ [] := fun hl => by rw [(OOM.fromVec_eq_none_iff l).mpr hl] at hv; cases hv
      have := (OOM.fromVec_some hv).2.1
      simp [apply, applySpec, hv, this, hl]
  | iter l => simp [apply, applySpec, OOM.fromIter_asRef]
  | ext l => exact (OOM.extend_asRef_eq_append_iff o l).mpr h
  | extO v =>
    simp only [apply, applySpec, OOM.intoIter_eq, Option.getD_some]
    exact (OOM.extend_asRef_eq_append_iff o v.asRef).mpr h
  | map k => simp [apply, applySpec, OOM.map_asRef, Spec.map]
  | mutate k => simp [apply, applySpec, OOM.mutAll_eq_map, OOM.map_asRef, Spec.map]

theorem OOp.apply_nonempty {o : OOM Int} (ho : o.asRef ≠ []) {op : OOp} (h : op.Safe) :
    ((op.apply o).getD o).asRef ≠ [] := by
  cases op with
  | raw v => exact h
  | item x => simp [apply, OOM.fromItem, OOM.asRef]
  | dflt => simp [apply, OOM.default, OOM.asRef]
  | vec l =>
    cases hv : OOM.fromVec l with
    | none => simpa [apply, hv] using ho
    | some v =>
      have hl : l ≠ [] := fun hl => by rw [(OOM.fromVec_eq_none_iff l).mpr hl] at hv; cases hv
      simpa [apply, hv, (OOM.fromVec_some hv).2.1] using hl
  | iter l => simpa [apply, OOM.fromIter_asRef, Safe] using h
  | ext l => exact OOM.extend_ne_nil ho l
  | extO v => exact OOM.extend_ne_nil ho _
  | map k => simpa [apply, OOM.map_asRef] using ho
  | mutate k => simpa [apply, OOM.mutAll_eq_map, OOM.map_asRef] using ho

/-- relation between the audit register and its abstract counterpart -/
def AuditRel (a : AuditReg) (s : Bool × Spec.Audit Out Int) : Prop :=
  a.event = s.1 ∧ a.outputs.asRef = s.2.outputs ∧ a.errors.asRef.Perm s.2.errors ∧ a.WF

def AOp.keepsOrder (a : AuditReg) : AOp → Prop
  | .addErrors es => ∀ x, a.errors = .one x → 2 ≤ es.length → ∀ y ∈ es, y = x
  | .withProcessAndErr es => ∀ x, a.errors = .one x → 2 ≤ es.length → ∀ y ∈ es, y = x
  | _ => True

def KeepsOrderA : AuditReg → List AOp → Prop
  | _, [] => True
  | a, op :: ops => op.keepsOrder a ∧ KeepsOrderA (op.apply a) ops

theorem AOp.apply_rel {a : AuditReg} {s : Bool × Spec.Audit Out Int} (h : AuditRel a s) (op : AOp) :
    AuditRel (op.apply a) (op.applySpec s) := by
  obtain ⟨h1, h2, h3, h4⟩ := h
  cases op with
  | withEvent t => exact ⟨rfl, rfl, List.Perm.refl _, trivial, trivial⟩
  | withOutput t o => exact ⟨rfl, rfl, List.Perm.refl _, trivial, trivial⟩
  | outputAndErrs t o errs =>
    refine ⟨rfl, rfl, ?_, trivial, NOM.fromIter_canonical _⟩
    simp [apply, applySpec, EngineAudit.processWithOutputAndErrs, NOM.fromIter_asRef]
  | tradingState t d =>
    cases d <;> exact ⟨rfl, rfl, List.Perm.refl _, trivial, trivial⟩
  | account t kind d =>
    by_cases h0 : kind = 0
    · subst h0; exact ⟨rfl, rfl, List.Perm.refl _, trivial, trivial⟩
    · by_cases h1' : kind = 1
      · subst h1'; exact ⟨rfl, rfl, List.Perm.refl _, trivial, trivial⟩
      · refine ⟨?_, ?_, ?_, ?_⟩ <;>
          simp [apply, applySpec, h0, h1', ProcessAudit.withAccountUpdate, ProcessAudit.withOutput,
            NOM.asRef, ProcessAudit.WF, NOM.Canonical]
  | market t d =>
    cases d <;> exact ⟨rfl, rfl, List.Perm.refl _, trivial, trivial⟩
  | addOutput o =>
    refine ⟨h1, ?_, h3, ProcessAudit.addOutput_wf h4 o⟩
    simp [apply, applySpec, ProcessAudit.addOutput_outputs, Spec.Audit.addOutput, h2]
  | addErrors es =>
    refine ⟨h1, h2, ?_, ProcessAudit.addErrors_wf h4 es⟩
    exact (ProcessAudit.addErrors_errors_perm a es).trans (h3.append_right es)
  | withProcessAndErr es =>
    refine ⟨h1, h2, ?_, ProcessAudit.addErrors_wf h4 es⟩
    exact (ProcessAudit.addErrors_errors_perm a es).trans (h3.append_right es)

theorem AOp.apply_errors_exact (a : AuditReg) (s : Bool × Spec.Audit Out Int)
    (he : a.errors.asRef = s.2.errors) {op : AOp} (h : op.keepsOrder a) :
    (op.apply a).errors.asRef = (op.applySpec s).2.errors := by
  cases op with
  | withEvent t => rfl
  | withOutput t o => rfl
  | outputAndErrs t o errs =>
    simp [apply, applySpec, EngineAudit.processWithOutputAndErrs, NOM.fromIter_asRef]
  | tradingState t d => cases d <;> rfl
  | account t kind d =>
    by_cases h0 : kind = 0
    · subst h0; rfl
    · by_cases h1' : kind = 1
      · subst h1'; rfl
      · simp [apply, applySpec, h0, h1', ProcessAudit.withAccountUpdate, ProcessAudit.withOutput, NOM.asRef]
  | market t d => cases d <;> rfl
  | addOutput o => simpa [apply, applySpec, Spec.Audit.addOutput, ProcessAudit.addOutput_errors] using he
  | addErrors es =>
    have := (ProcessAudit.addErrors_errors_eq_iff a es).mpr h
    simp only [apply, applySpec, Spec.Audit.addErrors, this, he]
  | withProcessAndErr es =>
    have := (ProcessAudit.addErrors_errors_eq_iff a es).mpr h
    simp only [apply, applySpec, EngineAudit.withProcessAndErr, Spec.Audit.addErrors, this, he]

theorem AuditRel.terminal {a : AuditReg} {s : Bool × Spec.Audit Out Int} (h : AuditRel a s) :
    a.isTerminal id = Spec.Audit.terminal s.1 s.2 := by
  obtain ⟨h1, _, h3, h4⟩ := h
  rw [Bool.eq_iff_iff, ProcessAudit.isTerminal_iff h4.2]
  simp only [Spec.Audit.terminal, id, h1, Bool.or_eq_true, bne_iff_ne, ne_eq]
  have : a.errors.asRef = [] ↔ s.2.errors.length = 0 := by
    rw [← h3.length_eq]; exact List.length_eq_zero_iff.symm
  rw [this]


/-! ### the audit assembly of `Engine::process` -/

/-- the errors the generation stage contributes -/
def algoErrors {ω κ : Type} (a : AlgoView ω κ) : NOM κ :=
  if a.isEmpty then .none
  else match a.unrecoverable with
    | some u => NOM.fromIter u.intoIter
    | none => .none

/-- the errors of the assembled audit, read off the inputs -/
def assembleErrors {ε ω κ : Type} (pre : Pre ε ω κ) (algo : Option (AlgoView ω κ)) : NOM κ :=
  match pre with
  | .shutdown _ => .none
  | .commandFatal _ u _ => NOM.fromIter u.intoIter
  | _ =>
    match algo with
    | none => .none
    | some a => algoErrors a

/-- the outputs of the assembled audit, read off the inputs: the first stage's outputs, followed by
the algo output whenever generation ran and returned something non-empty (with or without
unrecoverable errors — nothing generated is dropped) -/
def assembleOutputs {ε ω κ : Type} (pre : Pre ε ω κ) (algo : Option (AlgoView ω κ)) : List ω :=
  match pre with
  | .shutdown _ => pre.audit.outputs.asRef
  | .commandFatal _ _ _ => pre.audit.outputs.asRef
  | _ =>
    match algo with
    | none => pre.audit.outputs.asRef
    | some a => if a.isEmpty then pre.audit.outputs.asRef else pre.audit.outputs.asRef ++ [a.asOutput]

/-- `add_errors` is only ever applied to a record without errors (so it is `from_iter`), the
record is in canonical form, and its outputs are `assembleOutputs`. -/
theorem assemble_spec {ε ω κ : Type} (pre : Pre ε ω κ) (algo : Option (AlgoView ω κ)) :
    ∃ p, assemble pre algo = .process p ∧ p.event = pre.audit.event ∧
      p.errors = assembleErrors pre algo ∧ p.WF ∧
      p.outputs.asRef = assembleOutputs pre algo ∧
      (∀ a u, algo = some a → a.isEmpty = false → a.unrecoverable = some u →
        (∀ e, pre ≠ .shutdown e) → (∀ e u' o, pre ≠ .commandFatal e u' o) →
        (pre.audit.addOutput a.asOutput).errors = .none ∧
          p = (pre.audit.addOutput a.asOutput).addErrors u.intoIter) := by
  cases pre with
  | shutdown e =>
    exact ⟨_, rfl, rfl, rfl, ⟨trivial, trivial⟩, rfl, fun _ _ _ _ _ h _ => absurd rfl (h e)⟩
  | commandFatal e u o =>
    exact ⟨_, rfl, rfl, rfl, ⟨trivial, NOM.fromIter_canonical _⟩, rfl,
      fun _ _ _ _ _ _ h => absurd rfl (h e u o)⟩
  | command e o =>
    cases algo with
    | none => exact ⟨_, rfl, rfl, rfl, ⟨trivial, trivial⟩, rfl, fun _ _ h => by cases h⟩
    | some a =>
      cases hE : a.isEmpty with
      | true =>
        refine ⟨(Pre.command e o).audit, by simp [assemble, hE], rfl,
          by simp [assembleErrors, algoErrors, hE, Pre.audit, ProcessAudit.withOutput], ⟨trivial, trivial⟩,
          by simp [assembleOutputs, hE], ?_⟩
        intro a' u h1 h2; cases h1; rw [hE] at h2; cases h2
      | false =>
        cases hU : a.unrecoverable with
        | some u =>
          refine ⟨((Pre.command e o).audit.addOutput a.asOutput).addErrors u.intoIter,
            by simp [assemble, hE, hU], rfl, ?_,
            ProcessAudit.addErrors_wf (ProcessAudit.addOutput_wf (ProcessAudit.withOutput_wf e o) _) _, ?_, ?_⟩
          · simp [assembleErrors, algoErrors, hE, hU, Pre.audit, ProcessAudit.withOutput, ProcessAudit.addErrors,
              ProcessAudit.addOutput, NOM.extend_none]
          · rw [ProcessAudit.addErrors_outputs, ProcessAudit.addOutput_outputs]; simp [assembleOutputs, hE]
          · intro a' u' h1 _ h3 _ _; cases h1; rw [hU] at h3; cases h3; exact ⟨rfl, rfl⟩
        | none =>
          refine ⟨(Pre.command e o).audit.addOutput a.asOutput, by simp [assemble, hE, hU], rfl, ?_,
            ProcessAudit.addOutput_wf (ProcessAudit.withOutput_wf e o) _, ?_, ?_⟩
          · simp [assembleErrors, algoErrors, hE, hU, Pre.audit, ProcessAudit.withOutput, ProcessAudit.addOutput]
          · rw [ProcessAudit.addOutput_outputs]; simp [assembleOutputs, hE]
          · intro a' u' h1 _ h3; cases h1; rw [hU] at h3; cases h3
  | update e o =>
    have hwf : (Pre.update e o : Pre ε ω κ).audit.WF := by cases o <;> exact ⟨trivial, trivial⟩
    have herr : (Pre.update e o : Pre ε ω κ).audit.errors = .none := by cases o <;> rfl
    cases algo with
    | none =>
      exact ⟨(Pre.update e o).audit, by simp [assemble], rfl, by simp [assembleErrors, herr], hwf,
        by simp [assembleOutputs], fun _ _ h => by cases h⟩
    | some a =>
      cases hE : a.isEmpty with
      | true =>
        refine ⟨(Pre.update e o).audit, by simp [assemble, hE], rfl, by simp [assembleErrors, algoErrors, hE, herr],
          hwf, by simp [assembleOutputs, hE], ?_⟩
        intro a' u h1 h2; cases h1; rw [hE] at h2; cases h2
      | false =>
        cases hU : a.unrecoverable with
        | some u =>
          refine ⟨((Pre.update e o).audit.addOutput a.asOutput).addErrors u.intoIter,
            by simp [assemble, hE, hU], rfl, ?_,
            ProcessAudit.addErrors_wf (ProcessAudit.addOutput_wf hwf _) _, ?_, ?_⟩
          · simp [assembleErrors, algoErrors, hE, hU, ProcessAudit.addErrors, ProcessAudit.addOutput, herr,
              NOM.extend_none]
          · rw [ProcessAudit.addErrors_outputs, ProcessAudit.addOutput_outputs]; simp [assembleOutputs, hE]
          · intro a' u' h1 _ h3 _ _; cases h1; rw [hU] at h3; cases h3; exact ⟨herr, rfl⟩
        | none =>
          refine ⟨(Pre.update e o).audit.addOutput a.asOutput, by simp [assemble, hE, hU], rfl, ?_,
            ProcessAudit.addOutput_wf hwf _, ?_, ?_⟩
          · simp [assembleErrors, algoErrors, hE, hU, ProcessAudit.addOutput, herr]
          · rw [ProcessAudit.addOutput_outputs]; simp [assembleOutputs, hE]
          · intro a' u' h1 _ h3; cases h1; rw [hU] at h3; cases h3

/-! ### one `Engine::process` -/

theorem NOM.intoOption_none_iff_of_canonical {α : Type} {a : NOM α} (h : a.Canonical) :
    a.intoOption = Option.none ↔ a.asRef = [] := by
  cases a with
  | none => simp [NOM.intoOption, NOM.asRef]
  | one x => simp [NOM.intoOption, NOM.asRef]
  | many l =>
    simp only [NOM.intoOption, NOM.asRef, reduceCtorEq, false_iff]
    intro hl; subst hl; simp [NOM.Canonical] at h

theorem unrecoverable_sendResults (dead : Nat → Bool) (reqs : List Req) :
    Spec.unrecoverable (reqs.map fun r =>
      (r, if dead r.1 then some (EngineError.unrecoverable (ρ' := Unit) r.1) else none)) =
      failedSends dead reqs := by
  induction reqs with
  | nil => rfl
  | cons r rs ih =>
    unfold Spec.unrecoverable failedSends at *
    rw [List.map_cons, List.filterMap_cons, ih, List.filter_cons]
    by_cases h : dead r.1 = true <;> simp [h, Spec.unrecoverableOf]

theorem sendRequests_unrec (dead : Nat → Bool) (reqs : List Req) :
    (sendRequests dead reqs).unrecoverableErrors.asRef = failedSends dead reqs := by
  rw [sendRequests, SendRequestsOutput.unrecoverableErrors_ofResults, unrecoverable_sendResults]

theorem sendRequests_isEmpty_unrec (dead : Nat → Bool) (reqs : List Req)
    (h : (sendRequests dead reqs).isEmpty = true) : failedSends dead reqs = [] := by
  rw [sendRequests, SendRequestsOutput.isEmpty_ofResults] at h
  cases reqs with
  | nil => rfl
  | cons r rs => simp at h

/-- the errors the generation stage contributes to the audit -/
def stageErrors (g : GenOut) : NOM Nat :=
  algoErrors (⟨g.isEmpty, g.unrecoverableErrors, Out.algo⟩ : AlgoView Out Nat)

theorem generateAlgoOrders_cancels (dead : Nat → Bool) (c o : List Req) :
    (generateAlgoOrders dead c o).cancelsAndOpens.cancels = sendRequests dead (c.filter (!refused ·)) := rfl

theorem generateAlgoOrders_opens (dead : Nat → Bool) (c o : List Req) :
    (generateAlgoOrders dead c o).cancelsAndOpens.opens = sendRequests dead (o.filter (!refused ·)) := rfl

theorem stageErrors_asRef (dead : Nat → Bool) (c o : List Req) :
    (stageErrors (generateAlgoOrders dead c o)).asRef =
      (generateAlgoOrders dead c o).cancelsAndOpens.unrecoverableErrors.asRef := by
  have hc := SendCancelsAndOpensOutput.unrecoverableErrors_canonical
    (generateAlgoOrders dead c o).cancelsAndOpens
  have hp := SendCancelsAndOpensOutput.unrecoverableErrors_perm
    (generateAlgoOrders dead c o).cancelsAndOpens
  unfold stageErrors algoErrors
  split
  · rename_i hE
    simp only [GenerateAlgoOrdersOutput.isEmpty, SendCancelsAndOpensOutput.isEmpty, Bool.and_eq_true] at hE
    rw [generateAlgoOrders_cancels, generateAlgoOrders_opens] at hE
    have h1 := sendRequests_isEmpty_unrec dead _ hE.1.1.1
    have h2 := sendRequests_isEmpty_unrec dead _ hE.1.1.2
    rw [generateAlgoOrders_cancels, generateAlgoOrders_opens, sendRequests_unrec, sendRequests_unrec,
      h1, h2] at hp
    have hx : (generateAlgoOrders dead c o).cancelsAndOpens.unrecoverableErrors.asRef = [] := by
      simpa using hp
    rw [hx]; rfl
  · simp only [GenerateAlgoOrdersOutput.unrecoverableErrors]
    cases hU : (generateAlgoOrders dead c o).cancelsAndOpens.unrecoverableErrors.intoOption with
    | none => rw [(NOM.intoOption_none_iff_of_canonical hc).mp hU]; rfl
    | some u => rw [NOM.fromIter_asRef, OOM.intoIter_eq, NOM.intoOption_asRef hU]

theorem stageErrors_canonical (g : GenOut) : (stageErrors g).Canonical := by
  unfold stageErrors algoErrors
  split
  · trivial
  · split
    · exact NOM.fromIter_canonical _
    · trivial

theorem stageErrors_perm (dead : Nat → Bool) (c o : List Req) :
    (stageErrors (generateAlgoOrders dead c o)).asRef.Perm
      (failedSends dead (c.filter (!refused ·)) ++ failedSends dead (o.filter (!refused ·))) := by
  rw [stageErrors_asRef]
  have hp := SendCancelsAndOpensOutput.unrecoverableErrors_perm
    (generateAlgoOrders dead c o).cancelsAndOpens
  rwa [generateAlgoOrders_cancels, generateAlgoOrders_opens, sendRequests_unrec, sendRequests_unrec] at hp

theorem stageErrors_exact (dead : Nat → Bool) (c o : List Req)
    (h : ¬ ((failedSends dead (c.filter (!refused ·))).length = 1 ∧
            2 ≤ (failedSends dead (o.filter (!refused ·))).length)) :
    (stageErrors (generateAlgoOrders dead c o)).asRef =
      failedSends dead (c.filter (!refused ·)) ++ failedSends dead (o.filter (!refused ·)) := by
  rw [stageErrors_asRef]
  have he := SendCancelsAndOpensOutput.unrecoverableErrors_eq_iff
    (generateAlgoOrders dead c o).cancelsAndOpens
  rw [generateAlgoOrders_cancels, generateAlgoOrders_opens, sendRequests_unrec, sendRequests_unrec] at he
  apply he.mpr
  intro k hk hl
  exfalso; apply h
  refine ⟨?_, hl⟩
  rw [← sendRequests_unrec, hk]; rfl

theorem assembleErrors_nonfatal {ε : Type} (pre : Pre ε Out Nat) (en : Bool) (g : GenOut)
    (h1 : ∀ e, pre ≠ .shutdown e) (h2 : ∀ e u o, pre ≠ .commandFatal e u o) :
    assembleErrors pre (if en then some ⟨g.isEmpty, g.unrecoverableErrors, .algo⟩ else none) =
      if en then stageErrors g else .none := by
  cases pre with
  | shutdown e => exact absurd rfl (h1 e)
  | commandFatal e u o => exact absurd rfl (h2 e u o)
  | command e o => cases en <;> rfl
  | update e o => cases en <;> rfl


theorem assembleOutputs_nonfatal {ε : Type} (pre : Pre ε Out Nat) (en : Bool) (g : GenOut)
    (h1 : ∀ e, pre ≠ .shutdown e) (h2 : ∀ e u o, pre ≠ .commandFatal e u o) :
    assembleOutputs pre (if en then some ⟨g.isEmpty, g.unrecoverableErrors, .algo⟩ else none) =
      pre.audit.outputs.asRef ++ (if en && !g.isEmpty then [Out.algo] else []) := by
  cases pre with
  | shutdown e => exact absurd rfl (h1 e)
  | commandFatal e u o => exact absurd rfl (h2 e u o)
  | command e o => cases en <;> cases g.isEmpty <;> simp [assembleOutputs]
  | update e o => cases en <;> cases g.isEmpty <;> simp [assembleOutputs]

theorem sendRequests_isEmpty (dead : Nat → Bool) (reqs : List Req) :
    (sendRequests dead reqs).isEmpty = reqs.isEmpty := by
  rw [sendRequests, SendRequestsOutput.isEmpty_ofResults]; cases reqs <;> rfl

theorem NOM.fromIter_isNone {α : Type} (l : List α) : (NOM.fromIter l).isNone = l.isEmpty := by
  match l with
  | [] => rfl
  | [_] => rfl
  | _ :: _ :: _ => rfl

theorem filter_isEmpty_split {α : Type} (p : α → Bool) (l : List α) :
    ((l.filter (!p ·)).isEmpty && (l.filter p).isEmpty) = l.isEmpty := by
  cases l with
  | nil => rfl
  | cons x xs => cases hp : p x <;> simp [hp]

/-- generation produced nothing at all iff the strategy generated nothing -/
theorem generateAlgoOrders_isEmpty (dead : Nat → Bool) (c o : List Req) :
    (generateAlgoOrders dead c o).isEmpty = (c.isEmpty && o.isEmpty) := by
  simp only [GenerateAlgoOrdersOutput.isEmpty, SendCancelsAndOpensOutput.isEmpty, generateAlgoOrders,
    sendRequests_isEmpty, NOM.fromIter_isNone]
  rw [← filter_isEmpty_split refused c, ← filter_isEmpty_split refused o]
  cases (c.filter (!refused ·)).isEmpty <;> cases (o.filter (!refused ·)).isEmpty <;>
    cases (c.filter refused).isEmpty <;> cases (o.filter refused).isEmpty <;> rfl

/-! ### one `Engine::process` over the full command alphabet: the errors in closed form -/

theorem sendRequests_unrec_eq (dead : Nat → Bool) (reqs : List Req) :
    (sendRequests dead reqs).unrecoverableErrors = NOM.fromIter (failedSends dead reqs) :=
  NOM.canonical_ext (SendRequestsOutput.unrecoverableErrors_canonical _) (NOM.fromIter_canonical _)
    (by rw [sendRequests_unrec, NOM.fromIter_asRef])

/-- `SendCancelsAndOpensOutput::unrecoverable_errors` over two `send_requests` outputs: the cancel
side collected, extended by the open side's failures. -/
theorem cancelsAndOpens_unrec_eq (dead : Nat → Bool) (c o : List Req) :
    (⟨sendRequests dead c, sendRequests dead o⟩ :
        SendCancelsAndOpensOutput Req Req Unit Nat).unrecoverableErrors =
      (NOM.fromIter (failedSends dead c)).extend (failedSends dead o) := by
  unfold SendCancelsAndOpensOutput.unrecoverableErrors
  rw [sendRequests_unrec_eq, sendRequests_unrec_eq, NOM.intoIter_eq, NOM.fromIter_asRef]

theorem stageErrors_eq (dead : Nat → Bool) (c o : List Req) :
    stageErrors (generateAlgoOrders dead c o) =
      (NOM.fromIter (failedSends dead (c.filter (!refused ·)))).extend
        (failedSends dead (o.filter (!refused ·))) := by
  apply NOM.canonical_ext (stageErrors_canonical _) (NOM.extend_canonical (NOM.fromIter_canonical _) _)
  rw [stageErrors_asRef]
  show (⟨sendRequests dead (c.filter (!refused ·)), sendRequests dead (o.filter (!refused ·))⟩ :
        SendCancelsAndOpensOutput Req Req Unit Nat).unrecoverableErrors.asRef = _
  rw [cancelsAndOpens_unrec_eq]

theorem extend_fromIter_nil_iff {α : Type} (c o : List α) :
    ((NOM.fromIter c).extend o).asRef = [] ↔ c = [] ∧ o = [] := by
  constructor
  · intro h
    have hp := NOM.extend_perm (NOM.fromIter c) o
    rw [h, NOM.fromIter_asRef] at hp
    have := List.perm_nil.mp hp.symm
    exact List.append_eq_nil_iff.mp this
  · rintro ⟨rfl, rfl⟩; rfl

/-- a command whose action output has the (canonical) error collection `E`: fatal iff `E` has an item,
and then the audit's errors are `E` itself; otherwise the generation stage decides. -/
theorem engineAudit_of_cmdPre (dead : Nat → Bool) (enabled : Bool) (ev : EngEv) (E : NOM Nat)
    (algoC algoO : List Req) (hE : E.Canonical)
    (hpre : enginePre dead enabled ev = cmdPre ev E enabled) :
    ∃ p, engineAudit dead enabled ev algoC algoO = .process p ∧ p.event = ev ∧ p.WF ∧
      p.outputs.asRef = [Out.cmd] ++
        (if E.asRef.isEmpty && enabled && !(algoC.isEmpty && algoO.isEmpty) then [Out.algo] else []) ∧
      p.errors = (if E.asRef.isEmpty then
          (if enabled then stageErrors (generateAlgoOrders dead algoC algoO) else .none) else E) := by
  unfold engineAudit
  rw [hpre]
  unfold cmdPre
  cases hU : E.intoOption with
  | none =>
    have hnil : E.asRef = [] := (NOM.intoOption_none_iff_of_canonical hE).mp hU
    obtain ⟨p, hp, hpe, herr, hwf, hout, _⟩ := assemble_spec (Pre.command ev Out.cmd)
      (if enabled then some ⟨(generateAlgoOrders dead algoC algoO).isEmpty,
            (generateAlgoOrders dead algoC algoO).unrecoverableErrors, .algo⟩ else none)
    refine ⟨p, hp, hpe, hwf, ?_, ?_⟩
    · rw [hout, assembleOutputs_nonfatal _ enabled _ nofun nofun, generateAlgoOrders_isEmpty, hnil]
      simp [Pre.audit, ProcessAudit.withOutput, NOM.asRef]
    · rw [herr, assembleErrors_nonfatal _ enabled _ nofun nofun, hnil]; rfl
  | some u =>
    have hu := NOM.intoOption_asRef hU
    have hne : E.asRef ≠ [] := hu ▸ (NOM.intoOption_canonical hE hU).2
    have hne' : E.asRef.isEmpty = false := by
      cases h : E.asRef with
      | nil => exact absurd h hne
      | cons _ _ => rfl
    obtain ⟨p, hp, hpe, herr, hwf, hout, _⟩ := assemble_spec (Pre.commandFatal ev u Out.cmd)
      (if enabled then some ⟨(generateAlgoOrders dead algoC algoO).isEmpty,
            (generateAlgoOrders dead algoC algoO).unrecoverableErrors, .algo⟩ else none)
    refine ⟨p, hp, hpe, hwf, ?_, ?_⟩
    · rw [hout, hne']; simp [assembleOutputs, Pre.audit, NOM.asRef]
    · rw [herr, hne']
      simp only [assembleErrors, OOM.intoIter_eq, hu, Bool.false_eq_true, if_false]
      exact NOM.fromIter_asRef_of_canonical hE

/-- an update event (trading state, account / market item or notice): the generation stage decides. -/
theorem engineAudit_of_update (dead : Nat → Bool) (enabled : Bool) (ev : EngEv) (o : Option Out) (en : Bool)
    (algoC algoO : List Req) (hpre : enginePre dead enabled ev = (.update ev o, en)) :
    ∃ p, engineAudit dead enabled ev algoC algoO = .process p ∧ p.event = ev ∧ p.WF ∧
      p.outputs.asRef = o.toList ++ (if en && !(algoC.isEmpty && algoO.isEmpty) then [Out.algo] else []) ∧
      p.errors = (if en then stageErrors (generateAlgoOrders dead algoC algoO) else .none) := by
  unfold engineAudit
  rw [hpre]
  obtain ⟨p, hp, hpe, herr, hwf, hout, _⟩ := assemble_spec (Pre.update ev o)
    (if en then some ⟨(generateAlgoOrders dead algoC algoO).isEmpty,
          (generateAlgoOrders dead algoC algoO).unrecoverableErrors, .algo⟩ else none)
  refine ⟨p, hp, ?_, hwf, ?_, ?_⟩
  · rw [hpe]; cases o <;> rfl
  · rw [hout, assembleOutputs_nonfatal _ en _ nofun nofun, generateAlgoOrders_isEmpty]
    cases o <;> simp [Pre.audit, ProcessAudit.withOutput, ProcessAudit.withEvent, NOM.asRef]
  · rw [herr, assembleErrors_nonfatal _ en _ nofun nofun]

theorem specEngineOutputs_eq (dead : Nat → Bool) (enabled : Bool) (ev : EngEv) (algoC algoO : List Req) :
    specEngineOutputs dead enabled ev algoC algoO =
      firstOutputs enabled ev ++
        (if !ev.terminal && !cmdFailed dead ev && enabledAfter enabled ev &&
            !(algoC.isEmpty && algoO.isEmpty) then [Out.algo] else []) := by
  unfold specEngineOutputs; split <;> simp

/-- **One `Engine::process`, every event of the alphabet, in closed form**: the audit is a canonical
`Process` record of the event, its outputs are `specEngineOutputs`, and its error collection is
exactly `from_iter(cancel-side failures).extend(open-side failures)` of the stage that failed. -/
theorem engineAudit_closed_form (dead : Nat → Bool) (enabled : Bool) (ev : EngEv) (algoC algoO : List Req) :
    ∃ p, engineAudit dead enabled ev algoC algoO = .process p ∧ p.event = ev ∧ p.WF ∧
      p.outputs.asRef = specEngineOutputs dead enabled ev algoC algoO ∧
      p.errors = (NOM.fromIter (specErrorParts dead enabled ev algoC algoO).1).extend
        (specErrorParts dead enabled ev algoC algoO).2 := by
  -- the four commands share one argument
  have cmd : ∀ (c o : List Nat) (E : NOM Nat), E = (NOM.fromIter c).extend o →
      cmdErrorParts dead ev = (c, o) → firstOutputs enabled ev = [Out.cmd] →
      ev.terminal = false → enabledAfter enabled ev = enabled →
      enginePre dead enabled ev = cmdPre ev E enabled →
      ∃ p, engineAudit dead enabled ev algoC algoO = .process p ∧ p.event = ev ∧ p.WF ∧
        p.outputs.asRef = specEngineOutputs dead enabled ev algoC algoO ∧
        p.errors = (NOM.fromIter (specErrorParts dead enabled ev algoC algoO).1).extend
          (specErrorParts dead enabled ev algoC algoO).2 := by
    intro c o E hEq hparts hfirst hterm hen hpre
    have hcan : E.Canonical := hEq ▸ NOM.extend_canonical (NOM.fromIter_canonical _) _
    obtain ⟨p, hp, hpe, hwf, hout, herr⟩ := engineAudit_of_cmdPre dead enabled ev E algoC algoO hcan hpre
    have hnil : E.asRef.isEmpty = (c ++ o).isEmpty := by
      have h1 := extend_fromIter_nil_iff c o
      rw [← hEq] at h1
      cases hE : E.asRef with
      | nil => obtain ⟨rfl, rfl⟩ := h1.mp hE; rfl
      | cons x xs =>
        cases hco : c ++ o with
        | nil =>
          obtain ⟨rfl, rfl⟩ := List.append_eq_nil_iff.mp hco
          rw [h1.mpr ⟨rfl, rfl⟩] at hE; cases hE
        | cons _ _ => rfl
    have hfail : cmdFailed dead ev = !(c ++ o).isEmpty := by unfold cmdFailed; rw [hparts]
    refine ⟨p, hp, hpe, hwf, ?_, ?_⟩
    · rw [hout, specEngineOutputs_eq, hfirst, hterm, hen, hfail, hnil]
      cases (c ++ o).isEmpty <;> simp
    · rw [herr, hnil]
      unfold specErrorParts
      rw [hfail, hparts, hterm, hen]
      cases hco : (c ++ o).isEmpty with
      | true =>
        cases enabled with
        | true => simp [stageErrors_eq]
        | false => simp; rfl
      | false => simp [hEq]
  -- an update: no command errors
  have upd : ∀ (o : Option Out) (en : Bool), cmdErrorParts dead ev = ([], []) →
      firstOutputs enabled ev = o.toList → ev.terminal = false → enabledAfter enabled ev = en →
      enginePre dead enabled ev = (.update ev o, en) →
      ∃ p, engineAudit dead enabled ev algoC algoO = .process p ∧ p.event = ev ∧ p.WF ∧
        p.outputs.asRef = specEngineOutputs dead enabled ev algoC algoO ∧
        p.errors = (NOM.fromIter (specErrorParts dead enabled ev algoC algoO).1).extend
          (specErrorParts dead enabled ev algoC algoO).2 := by
    intro o en hparts hfirst hterm hen hpre
    obtain ⟨p, hp, hpe, hwf, hout, herr⟩ := engineAudit_of_update dead enabled ev o en algoC algoO hpre
    have hfail : cmdFailed dead ev = false := by unfold cmdFailed; rw [hparts]; rfl
    refine ⟨p, hp, hpe, hwf, ?_, ?_⟩
    · rw [hout, specEngineOutputs_eq, hfirst, hterm, hen, hfail]; simp
    · rw [herr]
      unfold specErrorParts
      rw [hfail, hterm, hen]
      cases en with
      | true => simp [stageErrors_eq]
      | false => simp; rfl
  cases ev with
  | shutdown =>
    exact ⟨ProcessAudit.withEvent .shutdown, rfl, rfl, ⟨trivial, trivial⟩,
      by rw [specEngineOutputs_eq]; simp [firstOutputs, EngEv.terminal, ProcessAudit.withEvent, NOM.asRef],
      by simp [specErrorParts, cmdFailed, cmdErrorParts, EngEv.terminal, ProcessAudit.withEvent]; rfl⟩
  | cmdCancel r =>
    exact cmd (failedSends dead r) [] _ (by rw [NOM.extend_nil]; exact sendRequests_unrec_eq dead r)
      rfl rfl rfl rfl rfl
  | cmdOpen r =>
    exact cmd [] (failedSends dead r) _
      (by rw [show NOM.fromIter ([] : List Nat) = .none from rfl, NOM.extend_none]
          exact sendRequests_unrec_eq dead r)
      rfl rfl rfl rfl rfl
  | cmdCancelOrders r =>
    exact cmd (failedSends dead r) [] _ (by rw [NOM.extend_nil]; exact sendRequests_unrec_eq dead r)
      rfl rfl rfl rfl rfl
  | cmdClose c o =>
    exact cmd (failedSends dead c) (failedSends dead o) _ (cancelsAndOpens_unrec_eq dead c o)
      rfl rfl rfl rfl rfl
  | tsOn => exact upd none true rfl rfl rfl rfl rfl
  | tsOff => exact upd (if enabled then some (.td 0) else none) false rfl (by cases enabled <;> rfl) rfl rfl rfl
  | mkt => exact upd none enabled rfl rfl rfl rfl rfl
  | mktRe => exact upd (some (.md 0)) enabled rfl rfl rfl rfl rfl
  | accRe => exact upd (some (.ad 0)) enabled rfl rfl rfl rfl rfl

/-- `Spec.reorders` is the negation of the order condition of `extend` on a collected cancel side -/
theorem reorders_eq_false_iff {α : Type} [BEq α] [LawfulBEq α] (c o : List α) :
    Spec.reorders c o = false ↔
      ∀ x, NOM.fromIter c = .one x → 2 ≤ o.length → ∀ y ∈ o, y = x := by
  unfold Spec.reorders
  match c with
  | [] => simp [NOM.fromIter]
  | [k] =>
    simp only [NOM.fromIter, NOM.one.injEq, Bool.and_eq_false_iff, decide_eq_false_iff_not,
      List.any_eq_false, bne_iff_ne, ne_eq]
    constructor
    · rintro h x rfl hl y hy
      rcases h with h | h
      · exact absurd hl h
      · exact Classical.not_not.mp (h y hy)
    · intro h
      by_cases hl : 2 ≤ o.length
      · exact Or.inr (fun y hy hn => hn (h k rfl hl y hy))
      · exact Or.inl hl
  | _ :: _ :: _ => simp [NOM.fromIter]

/-- … and when it holds the collected cancel item ends up behind the open side. -/
theorem extend_of_reorders {α : Type} [BEq α] [LawfulBEq α] (c o : List α) (h : Spec.reorders c o = true) :
    ((NOM.fromIter c).extend o).asRef = o ++ c := by
  unfold Spec.reorders at h
  match c, h with
  | [k], h =>
    simp only [Bool.and_eq_true, decide_eq_true_eq] at h
    match o, h with
    | y :: z :: l, _ => rfl

/-! ### derived `Ord` on canonical values -/

theorem NOM.cmp_eq_cmpSeq {a b : NOM Int} (ha : a.Canonical) (hb : b.Canonical) :
    NOM.cmp a b = Spec.cmpSeq a.asRef b.asRef := by
  have two : ∀ l : List Int, 2 ≤ l.length → Spec.lenClass l = 2 := by
    intro l h; simp only [Spec.lenClass]; omega
  cases a with
  | none =>
    cases b with
    | none => rfl
    | one y => rfl
    | many r =>
      have hr : 2 ≤ r.length := hb
      simp only [NOM.cmp, NOM.tag, NOM.asRef, Spec.cmpSeq, two r hr]; rfl
  | one x =>
    cases b with
    | none => rfl
    | one y =>
      simp only [NOM.cmp, NOM.asRef, Spec.cmpSeq, Spec.lenClass, NOM.cmpList]
      cases compare x y <;> rfl
    | many r =>
      have hr : 2 ≤ r.length := hb
      simp only [NOM.cmp, NOM.tag, NOM.asRef, Spec.cmpSeq, two r hr]; rfl
  | many l =>
    have hl : 2 ≤ l.length := ha
    cases b with
    | none => simp only [NOM.cmp, NOM.tag, NOM.asRef, Spec.cmpSeq, two l hl]; rfl
    | one y => simp only [NOM.cmp, NOM.tag, NOM.asRef, Spec.cmpSeq, two l hl]; rfl
    | many r =>
      have hr : 2 ≤ r.length := hb
      simp only [NOM.cmp, NOM.asRef, Spec.cmpSeq, two l hl, two r hr, if_true]

theorem OOM.cmp_eq_cmpSeq {a b : OOM Int} (ha : a.Canonical) (hb : b.Canonical) :
    OOM.cmp a b = Spec.cmpSeq a.asRef b.asRef := by
  have two : ∀ l : List Int, 2 ≤ l.length → Spec.lenClass l = 2 := by
    intro l h; simp only [Spec.lenClass]; omega
  cases a with
  | one x =>
    cases b with
    | one y =>
      simp only [OOM.cmp, OOM.asRef, Spec.cmpSeq, Spec.lenClass, NOM.cmpList]
      cases compare x y <;> rfl
    | many r =>
      have hr : 2 ≤ r.length := hb
      simp only [OOM.cmp, OOM.tag, OOM.asRef, Spec.cmpSeq, two r hr]; rfl
  | many l =>
    have hl : 2 ≤ l.length := ha
    cases b with
    | one y => simp only [OOM.cmp, OOM.tag, OOM.asRef, Spec.cmpSeq, two l hl]; rfl
    | many r =>
      have hr : 2 ≤ r.length := hb
      simp only [OOM.cmp, OOM.asRef, Spec.cmpSeq, two l hl, two r hr, if_true]

end BarterModel.Collections
