import BarterModel.Model.Collections
/-! Helper lemmas for C03N (NoneOneOrMany / OneOrMany). The abstraction function is `asRef`
(the slice view of the Rust types). -/
namespace BarterModel.Collections

/-! ### canonical form -/

/-- the representation is the one determined by the length: `Many` holds at least two items -/
def NOM.Canonical {α : Type} : NOM α → Prop
  | .none => True
  | .one _ => True
  | .many l => 2 ≤ l.length

def OOM.Canonical {α : Type} : OOM α → Prop
  | .one _ => True
  | .many l => 2 ≤ l.length

instance {α : Type} (a : NOM α) : Decidable a.Canonical := by
  cases a <;> simp only [NOM.Canonical] <;> infer_instance

instance {α : Type} (a : OOM α) : Decidable a.Canonical := by
  cases a <;> simp only [OOM.Canonical] <;> infer_instance

namespace NOM
variable {α β : Type}

/-! ### every way of reading is `asRef` -/
theorem intoVec_eq (a : NOM α) : a.intoVec = a.asRef := by cases a <;> rfl
theorem iter_eq (a : NOM α) : a.iter = a.asRef := rfl
theorem intoIter_eq (a : NOM α) : a.intoIter = a.asRef := by cases a <;> rfl

/-! ### construction -/
theorem fromVec_eq_fromIter (l : List α) : fromVec l = fromIter l := by
  unfold fromVec fromIter; split <;> rfl

theorem fromIter_cons_cons (x y : α) (l : List α) : fromIter (x :: y :: l) = .many (x :: y :: l) := rfl

theorem fromIter_asRef (l : List α) : (fromIter l).asRef = l := by
  match l with
  | [] => rfl
  | [_] => rfl
  | _ :: _ :: _ => rfl

theorem fromIter_canonical (l : List α) : (fromIter l).Canonical := by
  match l with
  | [] => trivial
  | [_] => trivial
  | _ :: _ :: _ => simp [fromIter, Canonical]

theorem fromIter_eq_none_iff (l : List α) : fromIter l = .none ↔ l = [] := by
  match l with
  | [] => simp [fromIter]
  | [_] => simp [fromIter]
  | _ :: _ :: _ => simp [fromIter]

theorem fromIter_eq_one_iff (l : List α) (x : α) : fromIter l = .one x ↔ l = [x] := by
  match l with
  | [] => simp [fromIter]
  | [_] => simp [fromIter]
  | _ :: _ :: _ => simp [fromIter]

theorem fromIter_eq_many_iff (l m : List α) : fromIter l = .many m ↔ l = m ∧ 2 ≤ l.length := by
  match l with
  | [] => simp [fromIter]
  | [_] => simp [fromIter]
  | _ :: _ :: _ => simp [fromIter]

theorem fromOption_asRef (o : Option α) : (fromOption o).asRef = o.toList := by cases o <;> rfl
theorem fromOption_canonical (o : Option α) : (fromOption o).Canonical := by cases o <;> trivial

/-- `from_iter ∘ into_iter` is the identity on canonical values -/
theorem fromIter_asRef_of_canonical {a : NOM α} (h : a.Canonical) : fromIter a.asRef = a := by
  cases a with
  | none => rfl
  | one x => rfl
  | many l =>
    match l, h with
    | _ :: _ :: _, _ => rfl

/-- a canonical value is determined by its items -/
theorem canonical_ext {a b : NOM α} (ha : a.Canonical) (hb : b.Canonical) (h : a.asRef = b.asRef) :
    a = b := by
  rw [← fromIter_asRef_of_canonical ha, ← fromIter_asRef_of_canonical hb, h]

/-! ### len / is_empty / contains / map -/
theorem len_eq (a : NOM α) : a.len = a.asRef.length := by cases a <;> rfl

theorem isEmpty_imp (a : NOM α) (h : a.isEmpty = true) : a.asRef = [] := by
  cases a <;> simp_all [isEmpty, isNone, asRef]

theorem isEmpty_iff_of_canonical {a : NOM α} (h : a.Canonical) : a.isEmpty = true ↔ a.asRef = [] := by
  cases a with
  | none => simp [isEmpty, isNone, asRef]
  | one x => simp [isEmpty, isNone, asRef]
  | many l =>
    simp only [isEmpty, isNone, asRef, Bool.false_eq_true, false_iff]
    intro hl; subst hl; simp [Canonical] at h

theorem contains_iff [BEq α] [LawfulBEq α] (a : NOM α) (x : α) : a.contains x = true ↔ x ∈ a.asRef := by
  cases a with
  | none => simp [contains, asRef]
  | one v => simp only [contains, asRef, beq_iff_eq, List.mem_singleton]; exact eq_comm
  | many l => simp [contains, asRef]

theorem map_asRef (f : α → β) (a : NOM α) : (a.map f).asRef = a.asRef.map f := by cases a <;> rfl

theorem map_canonical (f : α → β) {a : NOM α} (h : a.Canonical) : (a.map f).Canonical := by
  cases a <;> simp_all [map, Canonical]

theorem mutAll_eq_map (f : α → α) (a : NOM α) : a.mutAll f = a.map f := by cases a <;> rfl

/-! ### extend -/

theorem extend_none (l : List α) : (NOM.none : NOM α).extend l = fromIter l := by
  unfold extend; cases fromIter l <;> rfl

theorem extend_nil (a : NOM α) : a.extend [] = a := by
  cases a <;> rfl

theorem extend_one_singleton (x y : α) : (NOM.one x).extend [y] = .many [x, y] := rfl

theorem extend_one_many (x y z : α) (l : List α) :
    (NOM.one x).extend (y :: z :: l) = .many (y :: z :: l ++ [x]) := rfl

theorem extend_many_singleton (m : List α) (y : α) : (NOM.many m).extend [y] = .many (m ++ [y]) := rfl

theorem extend_many_many (m : List α) (y z : α) (l : List α) :
    (NOM.many m).extend (y :: z :: l) = .many (m ++ y :: z :: l) := rfl

/-- the items of `extend` as a function of the items, in all cases -/
theorem extend_asRef (a : NOM α) (l : List α) :
    (a.extend l).asRef =
      match a, l with
      | .one x, y :: z :: l' => y :: z :: l' ++ [x]
      | a, l => a.asRef ++ l := by
  match a, l with
  | .none, l =>
    rw [extend_none, fromIter_asRef]
    cases l with
    | nil => rfl
    | cons y t => cases t <;> rfl
  | .one x, [] => rfl
  | .one x, [y] => rfl
  | .one x, y :: z :: l' => rfl
  | .many m, [] => simp [extend_nil, asRef]
  | .many m, [y] => rfl
  | .many m, y :: z :: l' => rfl

theorem extend_perm (a : NOM α) (l : List α) : (a.extend l).asRef.Perm (a.asRef ++ l) := by
  rw [extend_asRef]
  split
  · rename_i x y z l'
    simpa [asRef] using List.perm_append_singleton x (y :: z :: l')
  · exact List.Perm.refl _

theorem extend_len (a : NOM α) (l : List α) : (a.extend l).len = a.len + l.length := by
  rw [len_eq, len_eq, (extend_perm a l).length_eq, List.length_append]

theorem extend_canonical {a : NOM α} (h : a.Canonical) (l : List α) : (a.extend l).Canonical := by
  match a, l, h with
  | .none, l, _ => rw [extend_none]; exact fromIter_canonical l
  | .one x, [], _ => trivial
  | .one x, [y], _ => simp [extend_one_singleton, Canonical]
  | .one x, y :: z :: l', _ => simp [extend_one_many, Canonical]
  | .many m, [], h => simpa [extend_nil] using h
  | .many m, [y], h => simp [extend_many_singleton, Canonical] at *; omega
  | .many m, y :: z :: l', h => simp [extend_many_many, Canonical] at *; omega

/-- `x :: l = l ++ [x]` exactly when `l` consists of copies of `x` -/
theorem cons_eq_append_singleton_iff (x : α) (l : List α) : x :: l = l ++ [x] ↔ ∀ y ∈ l, y = x := by
  induction l with
  | nil => simp
  | cons y ys ih =>
    constructor
    · intro h
      simp only [List.cons_append, List.cons.injEq] at h
      obtain ⟨hxy, h2⟩ := h
      subst hxy
      have := ih.mp h2
      intro w hw
      rcases List.mem_cons.mp hw with rfl | hw
      · rfl
      · exact this w hw
    · intro h
      have hy : y = x := h y (by simp)
      subst hy
      have := ih.mpr (fun w hw => h w (by simp [hw]))
      simp only [List.cons_append, List.cons.injEq, true_and]
      exact this

/-- when does `extend` keep the order "self first, then other" -/
theorem extend_asRef_eq_append_iff (a : NOM α) (l : List α) :
    (a.extend l).asRef = a.asRef ++ l ↔
      ∀ x, a = .one x → 2 ≤ l.length → ∀ y ∈ l, y = x := by
  rw [extend_asRef]
  split
  · rename_i x y z l'
    simp only [asRef, List.singleton_append]
    rw [eq_comm, cons_eq_append_singleton_iff]
    constructor
    · intro h x' hx' _
      cases hx'; exact h
    · intro h; exact h x rfl (by simp)
  · rename_i a' l' hne
    simp only [true_iff]
    intro x hx hl
    subst hx
    match l', hl, hne with
    | [], hl, _ => simp at hl
    | [_], hl, _ => simp at hl
    | y :: z :: l'', _, hne => exact (hne x y z l'' rfl rfl).elim

/-! ### into_option -/
theorem intoOption_eq_optionOfNOM (a : NOM α) : a.intoOption = optionOfNOM a := by cases a <;> rfl

theorem intoOption_eq_none_iff (a : NOM α) : a.intoOption = Option.none ↔ a = NOM.none := by
  cases a <;> simp [intoOption]

theorem intoOption_asRef {a : NOM α} {v : OOM α} (h : a.intoOption = some v) : v.asRef = a.asRef := by
  cases a <;> simp [intoOption] at h <;> subst h <;> rfl

theorem intoOption_canonical {a : NOM α} {v : OOM α} (hc : a.Canonical) (h : a.intoOption = some v) :
    v.Canonical ∧ v.asRef ≠ [] := by
  cases a with
  | none => simp [intoOption] at h
  | one x => simp [intoOption] at h; subst h; simp [OOM.Canonical, OOM.asRef]
  | many l =>
    simp [intoOption] at h; subst h
    refine ⟨hc, ?_⟩
    intro hl; simp [OOM.asRef] at hl; subst hl; simp [Canonical] at hc

/-! ### derived order -/
theorem cmpList_eq_iff (l r : List Int) : cmpList l r = .eq ↔ l = r := by
  induction l generalizing r with
  | nil => cases r <;> simp [cmpList]
  | cons a as ih =>
    cases r with
    | nil => simp [cmpList]
    | cons b bs =>
      simp only [cmpList, List.cons.injEq]
      cases hc : compare a b with
      | eq => simp [Int.compare_eq_eq.mp hc, ih]
      | lt =>
        have : a ≠ b := fun h => by subst h; simp at hc
        simp [this]
      | gt =>
        have : a ≠ b := fun h => by subst h; simp at hc
        simp [this]

theorem cmp_eq_iff (a b : NOM Int) : cmp a b = .eq ↔ a = b := by
  cases a <;> cases b <;> simp [cmp, tag, cmpList_eq_iff, Int.compare_eq_eq, Nat.compare_eq_eq]

end NOM
end BarterModel.Collections
