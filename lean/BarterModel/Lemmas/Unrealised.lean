import BarterModel.Model.Unrealised
import BarterModel.Lemmas.Position
import BarterModel.Lemmas.Stale
/-! Helper lemmas for C15. -/
namespace BarterModel.Unrealised
open BarterModel.Position BarterModel.Stale

/-- The spec's estimate is the code's `calculate_pnl_unrealised` on the position's fields. -/
theorem estimate_eq_calculate (p : Position) (pr : Rat) :
    estimate p pr =
      calculatePnlUnrealised p.side p.priceEntryAverage p.quantityAbs p.quantityAbsMax p.feesEnter pr := by
  unfold estimate calculatePnlUnrealised approximateRemainingExitFees
  cases p.side <;> grind

/-- The estimate reads no `pnlUnrealised`. -/
theorem estimate_congr (p : Position) (x pr : Rat) :
    estimate { p with pnlUnrealised := x } pr = estimate p pr := rfl

theorem updatePnlUnrealised_eq (p : Position) (pr : Rat) :
    p.updatePnlUnrealised pr = { p with pnlUnrealised := estimate p pr } := by
  rw [estimate_eq_calculate]; rfl

/-- The spec's current price is the code's `price()`. -/
theorem currentPrice_eq_price (d : MarketData) : currentPrice d = price d := by
  unfold currentPrice price volumeWeightedMidPrice
  cases h1 : d.l1 with
  | none =>
    cases h2 : d.lastTrade with
    | none => rfl
    | some m => rfl
  | some x =>
    simp only [Option.map_some, Option.some_or, Option.some.injEq]
    grind

theorem increase_pnl_irrelevant (p : Position) (x : Rat) (t : Trade) :
    ({ p with pnlUnrealised := x } : Position).increase t = p.increase t := by
  simp only [Position.increase, Position.updatePnlUnrealised]
  by_cases h : p.quantityAbs + abs t.quantity > p.quantityAbsMax <;> simp [h]

theorem reduce_pnl_irrelevant (p : Position) (x : Rat) (t : Trade) :
    ({ p with pnlUnrealised := x } : Position).reduce t = p.reduce t := rfl

theorem closeExact_pnl_irrelevant (p : Position) (x : Rat) (t : Trade) :
    ({ p with pnlUnrealised := x } : Position).closeExact t = p.closeExact t := rfl

theorem flip_pnl_irrelevant (p : Position) (x : Rat) (t : Trade) :
    ({ p with pnlUnrealised := x } : Position).flip t = p.flip t := rfl

/-- `update_from_trade` never reads the incoming `pnl_unrealised` (same instrument). -/
theorem updateFromTrade_pnl_irrelevant (p : Position) (x : Rat) (t : Trade)
    (hi : p.instrument = t.instrument) :
    ({ p with pnlUnrealised := x } : Position).updateFromTrade t = p.updateFromTrade t := by
  have e : ({ p with pnlUnrealised := x } : Position).pushTrade t.id =
      { p.pushTrade t.id with pnlUnrealised := x } := rfl
  unfold Position.Position.updateFromTrade
  simp only [e, increase_pnl_irrelevant, reduce_pnl_irrelevant, closeExact_pnl_irrelevant,
    flip_pnl_irrelevant]
  simp [hi]

/-! ### Single-step facts about the position arms -/

theorem increase_upnl (p : Position) (t : Trade) :
    (p.increase t).pnlUnrealised = estimate (p.increase t) t.price := by
  rw [estimate_eq_calculate]
  simp only [Position.increase, Position.updatePnlUnrealised]

theorem reduce_upnl (p : Position) (t : Trade) :
    (p.reduce t).pnlUnrealised = estimate (p.reduce t) t.price := by
  rw [estimate_eq_calculate]; rfl

/-- The estimate of a freshly opened position at its own entry price is minus its entry fees. -/
theorem ofTrade_estimate (t : Trade) (hq : 0 < t.quantity) :
    estimate (Position.ofTrade t) t.price = -(Position.ofTrade t).feesEnter := by
  have habs := abs_pos hq
  unfold estimate
  simp only [Position.ofTrade, habs]
  cases t.side <;> grind

theorem ofTrade_upnl (t : Trade) : (Position.ofTrade t).pnlUnrealised = 0 := rfl

/-! ### Simulation between the engine model and the spec -/

/-- The model's position and the spec's (fill-only) position agree except for `pnlUnrealised`. -/
def Agree : Option Position → Option Position → Prop
  | none, none => True
  | some p, some q => p = { q with pnlUnrealised := p.pnlUnrealised }
  | _, _ => False

theorem agree_refl (c : Option Position) : Agree c c := by
  cases c with
  | none => trivial
  | some p => rfl

/-- What `never_stale` says about one open position and the spec's mark. -/
def MarkOK (p : Position) (mark : Option Mark) : Prop :=
  ∃ m, mark = some m ∧
    (m.src = .openingFill → p.pnlUnrealised = 0 ∧ estimate p m.price = -p.feesEnter) ∧
    (m.src ≠ .openingFill → p.pnlUnrealised = estimate p m.price)

structure Rel (i : Nat) (c : InstrumentState) (s : SpecI) : Prop where
  data : c.data = s.data
  agree : Agree c.position.current s.pm.current
  wf : PMWF i c.position
  mark : ∀ p, c.position.current = some p → MarkOK p s.mark

theorem rel_init (i : Nat) : Rel i InstrumentState.init SpecI.init := by
  refine ⟨rfl, trivial, ?_, ?_⟩
  · intro p h; simp [InstrumentState.init, PositionManager.init] at h
  · intro p h; simp [InstrumentState.init, PositionManager.init] at h

theorem rel_market {i : Nat} {c : InstrumentState} {s : SpecI} (h : Rel i c s) (ev : MarketEvent) :
    Rel i (c.updateFromMarket ev) (s.market ev) := by
  obtain ⟨hd, ha, hw, hm⟩ := h
  unfold InstrumentState.updateFromMarket SpecI.market
  simp only [currentPrice_eq_price, ← hd]
  cases hc : c.position.current with
  | none =>
    refine ⟨rfl, ?_, ?_, ?_⟩
    · simpa [hc] using ha
    · intro p h; simp [hc] at h
    · intro p h; simp [hc] at h
  | some p =>
    cases hp : price (processData c.data ev) with
    | none =>
      refine ⟨rfl, ?_, ?_, ?_⟩
      · simpa [hc] using ha
      · simpa using hw
      · intro p' h'; simpa using hm p' h'
    | some pr =>
      simp only
      refine ⟨rfl, ?_, ?_, ?_⟩
      · rw [hc] at ha
        cases hs : s.pm.current with
        | none => rw [hs] at ha; exact ha.elim
        | some q =>
          rw [hs] at ha
          simp only [Agree] at ha ⊢
          rw [updatePnlUnrealised_eq, ha]
      · intro p' h'
        simp only [Option.some.injEq] at h'
        subst h'
        have := hw p hc
        exact ⟨this.instr, this.pos, this.le⟩
      · intro p' h'
        simp only [Option.some.injEq] at h'
        subst h'
        refine ⟨⟨pr, .market⟩, rfl, ?_, ?_⟩
        · intro h; cases h
        · intro _; rw [updatePnlUnrealised_eq]; rfl

/-- The remainder position of a flip at the fill price: unrealised PnL 0, estimate minus its entry
fees. -/
theorem flip_estimate (p : Position) (t : Trade) (hlt : p.quantityAbs < abs t.quantity) :
    (p.flip t).1.pnlUnrealised = 0 ∧
      estimate (p.flip t).1 t.price = -(p.flip t).1.feesEnter := by
  rw [flip_next]
  refine ⟨rfl, ?_⟩
  have hpos : 0 < abs t.quantity - p.quantityAbs := by grind
  exact ofTrade_estimate
    { t with quantity := abs t.quantity - p.quantityAbs,
             fees := t.fees * ((abs t.quantity - p.quantityAbs) / abs t.quantity) } hpos

/-- One fill on a position, arm by arm: what the new position's unrealised PnL is, and whether the
spec classifies the fill as opening. -/
theorem update_mark (q : Position) (t : Trade) (hi : q.instrument = t.instrument) (p' : Position)
    (h' : (q.updateFromTrade t).1 = some p') :
    MarkOK p' (some ⟨t.price, if opens (some q) t then .openingFill else .fill⟩) := by
  rcases updateFromTrade_cases q t hi with ⟨hs, he⟩ | ⟨hs, hlt, he⟩ | ⟨hs, heq, he⟩ | ⟨hs, hlt, he⟩
  · -- increase
    rw [he] at h'; simp only [Option.some.injEq] at h'; subst h'
    have ho : opens (some q) t = false := by simp [opens, hs]
    refine ⟨_, rfl, ?_, ?_⟩
    · intro h; simp [ho] at h
    · intro _; exact increase_upnl _ t
  · -- reduce
    rw [he] at h'; simp only [Option.some.injEq] at h'; subst h'
    have ho : opens (some q) t = false := by
      simp only [opens, decide_eq_false_iff_not, not_and]
      intro _; grind
    refine ⟨_, rfl, ?_, ?_⟩
    · intro h; simp [ho] at h
    · intro _; exact reduce_upnl _ t
  · -- exact close: no position left
    rw [he] at h'; cases h'
  · -- flip: the remainder opens the next position
    rw [he] at h'; simp only [Option.some.injEq] at h'; subst h'
    have ho : opens (some q) t = true := by simp [opens, hs, hlt]
    refine ⟨_, rfl, ?_, ?_⟩
    · intro _
      exact flip_estimate (q.pushTrade t.id) t (by simpa using hlt)
    · intro h; simp [ho] at h

theorem rel_fill {i : Nat} {c : InstrumentState} {s : SpecI} (h : Rel i c s) (t : Trade)
    (hi : t.instrument = i) (hq : 0 < t.quantity) :
    Rel i (c.updateFromTrade t) (s.fill t) := by
  obtain ⟨hd, ha, hw, hm⟩ := h
  have hw' : PMWF i (c.position.update t).1 := pm_update_wf hw hi hq
  unfold InstrumentState.updateFromTrade SpecI.fill
  cases hc : c.position.current with
  | none =>
    cases hs : s.pm.current with
    | some q => rw [hc, hs] at ha; exact ha.elim
    | none =>
      have e1 : (c.position.update t).1 = ⟨some (Position.ofTrade t)⟩ := by
        simp [PositionManager.update, hc]
      have e2 : (s.pm.update t).1 = ⟨some (Position.ofTrade t)⟩ := by
        simp [PositionManager.update, hs]
      refine ⟨hd, ?_, hw', ?_⟩
      · simp only [e1, e2]; exact agree_refl _
      · intro p hp
        simp only [e1, Option.some.injEq] at hp
        subst hp
        refine ⟨⟨t.price, .openingFill⟩, by simp [opens], ?_, ?_⟩
        · intro _; exact ⟨rfl, ofTrade_estimate t hq⟩
        · intro h; exact (h rfl).elim
  | some p =>
    cases hs : s.pm.current with
    | none => rw [hc, hs] at ha; exact ha.elim
    | some q =>
      rw [hc, hs] at ha
      simp only [Agree] at ha
      have hpi : p.instrument = t.instrument := by rw [(hw p hc).instr, hi]
      have hqi : q.instrument = t.instrument := by rw [ha] at hpi; exact hpi
      have hupd : p.updateFromTrade t = q.updateFromTrade t := by
        rw [ha]; exact updateFromTrade_pnl_irrelevant q _ t hqi
      have e1 : (c.position.update t).1 = ⟨(q.updateFromTrade t).1⟩ := by
        simp [PositionManager.update, hc, hupd]
      have e2 : (s.pm.update t).1 = ⟨(q.updateFromTrade t).1⟩ := by
        simp [PositionManager.update, hs]
      refine ⟨hd, ?_, hw', ?_⟩
      · simp only [e1, e2]; exact agree_refl _
      · intro p' hp'
        simp only [e1] at hp'
        exact update_mark q t hqi p' hp'

/-! ### Lifting to the engine (all instruments, all histories) -/

/-- The property's quantifier: fills have a positive quantity (market events are unconstrained). -/
def ValidEv : Ev → Prop
  | .fill t => 0 < t.quantity
  | .market _ => True

instance : DecidablePred ValidEv := fun e => by
  cases e <;> unfold ValidEv <;> infer_instance

def ValidEvs (evs : List Ev) : Prop := ∀ e ∈ evs, ValidEv e

instance (evs : List Ev) : Decidable (ValidEvs evs) := by
  unfold ValidEvs; infer_instance

theorem modifyAt_length {α : Type} (l : List α) (i : Nat) (f : α → α) :
    (modifyAt l i f).length = l.length := by
  unfold modifyAt; split <;> simp

def RelAll (c : EngineState) (s : Spec) : Prop :=
  c.length = s.length ∧ ∀ i st sp, c[i]? = some st → s[i]? = some sp → Rel i st sp

theorem relAll_init (n : Nat) : RelAll (EngineState.init n) (Spec.init n) := by
  refine ⟨by simp [EngineState.init, Spec.init], ?_⟩
  intro i st sp h1 h2
  simp only [EngineState.init, Spec.init, List.getElem?_replicate] at h1 h2
  split at h1
  · rename_i hlt
    simp only [hlt, ↓reduceIte, Option.some.injEq] at h1 h2
    subst h1; subst h2; exact rel_init i
  · cases h1

theorem relAll_process {c : EngineState} {s : Spec} (h : RelAll c s) (e : Ev) (he : ValidEv e) :
    RelAll (c.process e) (s.process e) := by
  obtain ⟨hl, hr⟩ := h
  cases e with
  | market ev =>
    refine ⟨by simp [EngineState.process, EngineState.updateFromMarket, Spec.process,
      modifyAt_length, hl], ?_⟩
    intro i st sp h1 h2
    simp only [EngineState.process, EngineState.updateFromMarket, Spec.process,
      modifyAt_getElem?] at h1 h2
    by_cases hi : i = ev.instrument
    · simp only [hi, ↓reduceIte, Option.map_eq_some_iff] at h1 h2
      obtain ⟨st0, hs0, rfl⟩ := h1
      obtain ⟨sp0, hp0, rfl⟩ := h2
      exact rel_market (hr i st0 sp0 (hi ▸ hs0) (hi ▸ hp0)) ev
    · simp only [hi, ↓reduceIte] at h1 h2
      exact hr i st sp h1 h2
  | fill t =>
    refine ⟨by simp [EngineState.process, EngineState.updateFromTrade, Spec.process,
      modifyAt_length, hl], ?_⟩
    intro i st sp h1 h2
    simp only [EngineState.process, EngineState.updateFromTrade, Spec.process,
      modifyAt_getElem?] at h1 h2
    by_cases hi : i = t.instrument
    · simp only [hi, ↓reduceIte, Option.map_eq_some_iff] at h1 h2
      obtain ⟨st0, hs0, rfl⟩ := h1
      obtain ⟨sp0, hp0, rfl⟩ := h2
      exact rel_fill (hr i st0 sp0 (hi ▸ hs0) (hi ▸ hp0)) t hi.symm he
    · simp only [hi, ↓reduceIte] at h1 h2
      exact hr i st sp h1 h2

theorem relAll_run {c : EngineState} {s : Spec} (h : RelAll c s) (evs : List Ev)
    (hv : ValidEvs evs) : RelAll (c.run evs) (s.run evs) := by
  induction evs generalizing c s with
  | nil => exact h
  | cons e evs ih =>
    simp only [EngineState.run, Spec.run, List.foldl_cons]
    exact ih (relAll_process h e (hv e (by simp))) (fun e' he' => hv e' (by simp [he']))

theorem relAll_get {c : EngineState} {s : Spec} (h : RelAll c s) {i : Nat} {st : InstrumentState}
    (hst : c[i]? = some st) : ∃ sp, s[i]? = some sp ∧ Rel i st sp := by
  have hi : i < c.length := (List.getElem?_eq_some_iff.mp hst).1
  have hi' : i < s.length := h.1 ▸ hi
  exact ⟨s[i], by simp [hi'], h.2 i st s[i] hst (by simp [hi'])⟩

/-- The spec's demand on a related pair: the estimate of the model's own position at the mark. -/
theorem rel_spec_upnl {i : Nat} {c : InstrumentState} {s : SpecI} (h : Rel i c s) (p : Position)
    (hp : c.position.current = some p) (m : Mark) (hm : s.mark = some m) :
    s.upnl = some (estimate p m.price) := by
  have ha := h.agree
  rw [hp] at ha
  cases hs : s.pm.current with
  | none => rw [hs] at ha; exact ha.elim
  | some q =>
    rw [hs] at ha
    simp only [Agree] at ha
    unfold SpecI.upnl
    rw [hs, hm, ha]
    rfl

theorem rel_upnl_none {i : Nat} {c : InstrumentState} {s : SpecI} (h : Rel i c s)
    (hp : c.position.current = none) : c.upnl = none ∧ s.upnl = none := by
  have ha := h.agree
  rw [hp] at ha
  cases hs : s.pm.current with
  | some q => rw [hs] at ha; exact ha.elim
  | none => simp [InstrumentState.upnl, SpecI.upnl, hp, hs]

end BarterModel.Unrealised
