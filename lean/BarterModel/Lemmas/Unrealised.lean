import BarterModel.Model.Unrealised
import BarterModel.Lemmas.Position
import BarterModel.Lemmas.Stale
/-! Helper lemmas for C15. -/
namespace BarterModel.Unrealised
open BarterModel.Position BarterModel.Stale

/-- The spec's estimate is the code's `calculate_pnl_unrealised` on the position's fields. -/
theorem estimate_eq_calculate (p : Position) (pr : Rat) :
    estimate p pr =
      calculatePnlUnrealised p.side p.priceEntryAverage p.quantityAbs p.quantityAbsMax p.feesEnter pr := by
  unfold estimate calculatePnlUnrealised approximateRemainingExitFees
  cases p.side <;> grind

/-- The estimate reads no `pnlUnrealised`. -/
theorem estimate_congr (p : Position) (x pr : Rat) :
    estimate { p with pnlUnrealised := x } pr = estimate p pr := rfl

theorem updatePnlUnrealised_eq (p : Position) (pr : Rat) :
    p.updatePnlUnrealised pr = { p with pnlUnrealised := estimate p pr } := by
  rw [estimate_eq_calculate]; rfl

/-- The spec's current price is the code's `price()`. -/
theorem currentPrice_eq_price (d : MarketData) : currentPrice d = price d := by
  unfold currentPrice price volumeWeightedMidPrice
  cases h1 : d.l1 with
  | none =>
    cases h2 : d.lastTrade with
    | none => rfl
    | some m => rfl
  | some x =>
    simp only [Option.map_some, Option.some_or, Option.some.injEq]
    grind

theorem increase_pnl_irrelevant (p : Position) (x : Rat) (t : Trade) :
    ({ p with pnlUnrealised := x } : Position).increase t = p.increase t := by
  simp only [Position.increase, Position.updatePnlUnrealised]
  by_cases h : p.quantityAbs + abs t.quantity > p.quantityAbsMax <;> simp [h]

theorem reduce_pnl_irrelevant (p : Position) (x : Rat) (t : Trade) :
    ({ p with pnlUnrealised := x } : Position).reduce t = p.reduce t := rfl

theorem closeExact_pnl_irrelevant (p : Position) (x : Rat) (t : Trade) :
    ({ p with pnlUnrealised := x } : Position).closeExact t = p.closeExact t := rfl

theorem flip_pnl_irrelevant (p : Position) (x : Rat) (t : Trade) :
    ({ p with pnlUnrealised := x } : Position).flip t = p.flip t := rfl

/-- `update_from_trade` never reads the incoming `pnl_unrealised` (same instrument). -/
theorem updateFromTrade_pnl_irrelevant (p : Position) (x : Rat) (t : Trade)
    (hi : p.instrument = t.instrument) :
    ({ p with pnlUnrealised := x } : Position).updateFromTrade t = p.updateFromTrade t := by
  have e : ({ p with pnlUnrealised := x } : Position).pushTrade t.id =
      { p.pushTrade t.id with pnlUnrealised := x } := rfl
  unfold Position.Position.updateFromTrade
  simp only [e, increase_pnl_irrelevant, reduce_pnl_irrelevant, closeExact_pnl_irrelevant,
    flip_pnl_irrelevant]
  simp [hi]

/-! ### Single-step facts about the position arms -/

theorem increase_upnl (p : Position) (t : Trade) :
    (p.increase t).pnlUnrealised = estimate (p.increase t) t.price := by
  rw [estimate_eq_calculate]
  simp only [Position.increase, Position.updatePnlUnrealised]
  by_cases h : p.quantityAbs + abs t.quantity > p.quantityAbsMax <;> simp [h]

theorem reduce_upnl (p : Position) (t : Trade) :
    (p.reduce t).pnlUnrealised = estimate (p.reduce t) t.price := by
  rw [estimate_eq_calculate]; rfl

/-- The estimate of a freshly opened position at its own entry price is minus its entry fees. -/
theorem ofTrade_estimate (t : Trade) (hq : 0 < t.quantity) :
    estimate (Position.ofTrade t) t.price = -(Position.ofTrade t).feesEnter := by
  have habs := abs_pos hq
  unfold estimate
  simp only [Position.ofTrade, habs]
  cases t.side <;> grind

theorem ofTrade_upnl (t : Trade) : (Position.ofTrade t).pnlUnrealised = 0 := rfl

/-! ### Simulation between the engine model and the spec -/

/-- The model's position and the spec's (fill-only) position agree except for `pnlUnrealised`. -/
def Agree : Option Position → Option Position → Prop
  | none, none => True
  | some p, some q => p = { q with pnlUnrealised := p.pnlUnrealised }
  | _, _ => False

theorem agree_refl (c : Option Position) : Agree c c := by
  cases c with
  | none => trivial
  | some p => rfl

/-- What `never_stale` says about one open position and the spec's mark. -/
def MarkOK (p : Position) (mark : Option Mark) : Prop :=
  ∃ m, mark = some m ∧
    (m.src = .openingFill → p.pnlUnrealised = 0 ∧ estimate p m.price = -p.feesEnter) ∧
    (m.src ≠ .openingFill → p.pnlUnrealised = estimate p m.price)

structure Rel (i : Nat) (c : InstrumentState) (s : SpecI) : Prop where
  data : c.data = s.data
  agree : Agree c.position.current s.pm.current
  wf : PMWF i c.position
  mark : ∀ p, c.position.current = some p → MarkOK p s.mark

theorem rel_init (i : Nat) : Rel i InstrumentState.init SpecI.init := by
  refine ⟨rfl, trivial, ?_, ?_⟩
  · intro p h; simp [InstrumentState.init, PositionManager.init] at h
  · intro p h; simp [InstrumentState.init, PositionManager.init] at h

theorem rel_market {i : Nat} {c : InstrumentState} {s : SpecI} (h : Rel i c s) (ev : MarketEvent) :
    Rel i (c.updateFromMarket ev) (s.market ev) := by
  obtain ⟨hd, ha, hw, hm⟩ := h
  unfold InstrumentState.updateFromMarket SpecI.market
  simp only [currentPrice_eq_price, ← hd]
  cases hc : c.position.current with
  | none =>
    refine ⟨rfl, ?_, ?_, ?_⟩
    · simpa [hc] using ha
    · intro p h; simp [hc] at h
    · intro p h; simp [hc] at h
  | some p =>
    cases hp : price (processData c.data ev) with
    | none =>
      refine ⟨rfl, ?_, ?_, ?_⟩
      · simpa [hc] using ha
      · simpa using hw
      · intro p' h'; simpa using hm p' h'
    | some pr =>
      simp only
      refine ⟨rfl, ?_, ?_, ?_⟩
      · rw [hc] at ha
        cases hs : s.pm.current with
        | none => rw [hs] at ha; exact ha.elim
        | some q =>
          rw [hs] at ha
          simp only [Agree] at ha ⊢
          rw [updatePnlUnrealised_eq, ha]
      · intro p' h'
        simp only [Option.some.injEq] at h'
        subst h'
        have := hw p hc
        exact ⟨this.instr, this.pos, this.le⟩
      · intro p' h'
        simp only [Option.some.injEq] at h'
        subst h'
        refine ⟨⟨pr, .market⟩, rfl, ?_, ?_⟩
        · intro h; cases h
        · intro _; rw [updatePnlUnrealised_eq]; rfl

end BarterModel.Unrealised
