import BarterModel.Generated.Kernels
import BarterModel.Model.Book
import BarterModel.Model.Unrealised
/-!
# Agreement: top-of-book price kernels (barter-data/src/books/mod.rs)

Generated `mid_price` / `volume_weighted_mid_price` (free functions, from the current Rust source) =
the model definitions of `Model/Book.lean` (C05) and `Model/Unrealised.lean` (C15), for ALL
arguments. The generated file has its own `Level` (translated from `struct Level`); `levelOf` is the
field-by-field bijection with the model's.
-/
namespace BarterModel.KernelsAgree
open BarterModel

/-- model `Level` ↦ generated `Level` (translated from the source's `struct Level { price, amount }`). -/
def levelOf (l : Book.Level) : Generated.Level := { price := l.price, amount := l.amount }

/-- generated `Level` ↦ model `Level`. -/
def levelTo (l : Generated.Level) : Book.Level := { price := l.price, amount := l.amount }

/-- `levelOf` / `levelTo` are inverse bijections: same fields, same order of meaning. -/
theorem level_bijection : (∀ l, levelTo (levelOf l) = l) ∧ (∀ l, levelOf (levelTo l) = l) :=
  ⟨fun l => by cases l; rfl, fun l => by cases l; rfl⟩

/-- Shape-independent: unfold *everything generated for the group* (`gen_book`: the listed kernels and whatever
auxiliary functions the translator found by lookup, under whatever names), the model's definitions and `levelOf`, then
let `grind` decide (field arithmetic). -/
local macro "book_agree" : tactic => `(tactic|
  first
  | rfl
  | (simp only [gen_book, levelOf, Book.midPrice, Book.volumeWeightedMidPrice, Unrealised.volumeWeightedMidPrice]; done)
  | (simp only [gen_book, levelOf, Book.midPrice, Book.volumeWeightedMidPrice, Unrealised.volumeWeightedMidPrice]; grind))

/-- free function `mid_price` (source) = `Book.midPrice` (model). -/
theorem mid_price_agrees (bestBidPrice bestAskPrice : Rat) :
    Generated.mid_price bestBidPrice bestAskPrice = Book.midPrice bestBidPrice bestAskPrice := by book_agree

/-- free function `volume_weighted_mid_price` = `Book.volumeWeightedMidPrice`. -/
theorem volume_weighted_mid_price_agrees (bestBid bestAsk : Book.Level) :
    Generated.volume_weighted_mid_price (levelOf bestBid) (levelOf bestAsk)
      = Book.volumeWeightedMidPrice bestBid bestAsk := by book_agree

/-- the same kernel on the `OrderBookL1` payload of the engine's market data (C15):
`Unrealised.volumeWeightedMidPrice`. -/
theorem volume_weighted_mid_price_agrees_l1 (x : Stale.L1) :
    Generated.volume_weighted_mid_price { price := x.bidP, amount := x.bidA }
        { price := x.askP, amount := x.askA }
      = Unrealised.volumeWeightedMidPrice x := by book_agree

/-- Both top-of-book kernels at once. -/
theorem book_kernels_agree :
    (∀ a b : Rat, Generated.mid_price a b = Book.midPrice a b)
    ∧ (∀ a b : Book.Level, Generated.volume_weighted_mid_price (levelOf a) (levelOf b)
        = Book.volumeWeightedMidPrice a b)
    ∧ (∀ l, levelTo (levelOf l) = l) ∧ (∀ l, levelOf (levelTo l) = l) :=
  ⟨mid_price_agrees, volume_weighted_mid_price_agrees, level_bijection.1, level_bijection.2⟩

end BarterModel.KernelsAgree
