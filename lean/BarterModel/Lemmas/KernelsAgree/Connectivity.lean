import BarterModel.Generated.Machines
import BarterModel.Model.Connectivity
/-!
# Agreement: `Health`, `ConnectivityState::all_healthy` (engine/state/connectivity/mod.rs)

This file covers the scalar part of the connectivity code: `enum Health`, `impl Default for Health`,
`struct ConnectivityState`, `ConnectivityState::all_healthy` (`tools/rust2lean_sm.py`, group
`connectivity`). The per-exchange update arms of `ConnectivityStates` (accessors returning
`&mut ConnectivityState` out of an `IndexMap`, `values().all(..)`) are translated since round 5
(group `connectivity_updates`, map vocabulary) and proved in `ConnectivityUpdSM.lean`.
-/
namespace BarterModel.KernelsAgree.Connectivity
open BarterModel BarterModel.Conn

abbrev GHealth := Generated.Machines.Health
abbrev GState := Generated.Machines.ConnectivityState

def ofHealth : GHealth → Health
  | .Healthy => .healthy
  | .Reconnecting => .reconnecting
def toHealth : Health → GHealth
  | .healthy => .Healthy
  | .reconnecting => .Reconnecting
theorem ofHealth_toHealth (h : Health) : ofHealth (toHealth h) = h := by cases h <;> rfl
theorem toHealth_ofHealth (h : GHealth) : toHealth (ofHealth h) = h := by cases h <;> rfl

def ofState (c : GState) : CState := ⟨ofHealth c.market_data, ofHealth c.account⟩
def toState (c : CState) : GState := ⟨toHealth c.marketData, toHealth c.account⟩
theorem ofState_toState (c : CState) : ofState (toState c) = c := by
  cases c; simp [ofState, toState, ofHealth_toHealth]
theorem toState_ofState (c : GState) : toState (ofState c) = c := by
  cases c; simp [ofState, toState, toHealth_ofHealth]

/-- `ConnectivityState::all_healthy` (source) = `CState.allHealthy` (model), every state. -/
theorem all_healthy_agrees (c : GState) : c.all_healthy = (ofState c).allHealthy := by
  rcases c with ⟨m, a⟩
  cases m <;> cases a <;> rfl

/-- `Health::default()` is `Reconnecting`: the value `States.init` fills every link with. -/
theorem default_agrees : ofHealth Generated.Machines.Health.default = Health.reconnecting := rfl

theorem init_is_default (n : Nat) :
    States.init n = ⟨ofHealth Generated.Machines.Health.default,
      List.replicate n (ofState ⟨Generated.Machines.Health.default, Generated.Machines.Health.default⟩)⟩ := rfl

theorem connectivity_kernels_agree :
    (∀ c : GState, c.all_healthy = (ofState c).allHealthy)
    ∧ ofHealth Generated.Machines.Health.default = Health.reconnecting
    ∧ (∀ c : CState, ofState (toState c) = c) ∧ (∀ c : GState, toState (ofState c) = c) :=
  ⟨all_healthy_agrees, default_agrees, ofState_toState, toState_ofState⟩

end BarterModel.KernelsAgree.Connectivity
