import BarterModel.Generated.Machines
import BarterModel.Model.Position
/-!
# Agreement: `Position::update_from_trade` / `PositionManager::update_from_trade` as state machines

`BarterModel.Generated.Machines.{Position, PositionManager}.*` (with `Position::from(&Trade)`,
`PositionExited::from(Position)`, the three `update_*` helpers and the four arithmetic kernels) are
regenerated from `barter/src/engine/state/position.rs` by `tools/rust2lean_sm.py` (group
`position_sm`). The theorems state that the hand-written `BarterModel.Position.*` step functions are
the generated ones, for ALL positions and trades, read through

* `ofPos : G.Position QuoteAsset Nat → Position` — a bijection (`toPos`): the fee asset is the unit
  type `QuoteAsset`, so `AssetFees<QuoteAsset>` is its `fees : Decimal`;
* `ofExited` — likewise a bijection;
* `ofTrade : G.Trade QuoteAsset Nat → Trade` — a surjection that forgets `order_id` and `strategy`
  (the model drops them; no translated function reads them except to copy them into the theoretical
  remainder trade of a flip, whose `order_id`/`strategy` are again forgotten);
* `ofSide` — bijection of the two `Side` enumerations.

The instrument key type parameter is instantiated at `Nat` (the model's identifiers).
`update_from_trade` ends in `_ => unreachable!(..)`: the generated definition has the opaque
`Rust.unreachable` there, so the agreement theorem can only hold because that arm is dead code —
which is what its proof shows (sides are equal or opposite; `>`, `==`, `<` are exhaustive on `Rat`).
-/
namespace BarterModel.KernelsAgree.PositionSM
open BarterModel BarterModel.Position

namespace G
abbrev Side := Generated.Machines.Side
abbrev QuoteAsset := Generated.Machines.QuoteAsset
abbrev Trade := Generated.Machines.Trade QuoteAsset Nat
abbrev Position := Generated.Machines.Position QuoteAsset Nat
abbrev PositionExited := Generated.Machines.PositionExited QuoteAsset Nat
abbrev PositionManager := Generated.Machines.PositionManager Nat
end G

/-! ## Record maps -/

def ofSide : G.Side → Side
  | .Buy => .buy
  | .Sell => .sell
def toSide : Side → G.Side
  | .buy => .Buy
  | .sell => .Sell
theorem ofSide_toSide (s : Side) : ofSide (toSide s) = s := by cases s <;> rfl
theorem toSide_ofSide (s : G.Side) : toSide (ofSide s) = s := by cases s <;> rfl

def ofTrade (t : G.Trade) : Trade :=
  ⟨t.id, t.instrument, t.time_exchange, ofSide t.side, t.price, t.quantity, t.fees.fees⟩
/-- a generated trade over a model trade, with the two forgotten identifiers given. -/
def toTrade (orderId strategy : Nat) (t : Trade) : G.Trade :=
  ⟨t.id, orderId, t.instrument, strategy, t.time, toSide t.side, t.price, t.quantity, ⟨.mk, t.fees⟩⟩
theorem ofTrade_toTrade (o s : Nat) (t : Trade) : ofTrade (toTrade o s t) = t := by
  cases t; simp [ofTrade, toTrade, ofSide_toSide]

def ofPos (p : G.Position) : Position :=
  ⟨p.instrument, ofSide p.side, p.price_entry_average, p.quantity_abs, p.quantity_abs_max, p.pnl_unrealised,
    p.pnl_realised, p.fees_enter.fees, p.fees_exit.fees, p.time_enter, p.time_exchange_update, p.trades⟩
def toPos (p : Position) : G.Position :=
  ⟨p.instrument, toSide p.side, p.priceEntryAverage, p.quantityAbs, p.quantityAbsMax, p.pnlUnrealised,
    p.pnlRealised, ⟨.mk, p.feesEnter⟩, ⟨.mk, p.feesExit⟩, p.timeEnter, p.timeExchangeUpdate, p.trades⟩
theorem ofPos_toPos (p : Position) : ofPos (toPos p) = p := by
  cases p; simp [ofPos, toPos, ofSide_toSide]
theorem toPos_ofPos (p : G.Position) : toPos (ofPos p) = p := by
  rcases p with ⟨i, s, a, q, qm, pu, pr, ⟨⟨⟩, fe⟩, ⟨⟨⟩, fx⟩, te, tu, tr⟩
  simp [ofPos, toPos, toSide_ofSide]

def ofExited (p : G.PositionExited) : PositionExited :=
  ⟨p.instrument, ofSide p.side, p.price_entry_average, p.quantity_abs_max, p.pnl_realised, p.fees_enter.fees,
    p.fees_exit.fees, p.time_enter, p.time_exit, p.trades⟩
def toExited (p : PositionExited) : G.PositionExited :=
  ⟨p.instrument, toSide p.side, p.priceEntryAverage, p.quantityAbsMax, p.pnlRealised, ⟨.mk, p.feesEnter⟩,
    ⟨.mk, p.feesExit⟩, p.timeEnter, p.timeExit, p.trades⟩
theorem ofExited_toExited (p : PositionExited) : ofExited (toExited p) = p := by
  cases p; simp [ofExited, toExited, ofSide_toSide]
theorem toExited_ofExited (p : G.PositionExited) : toExited (ofExited p) = p := by
  rcases p with ⟨i, s, a, qm, pr, ⟨⟨⟩, fe⟩, ⟨⟨⟩, fx⟩, te, tx, tr⟩
  simp [ofExited, toExited, toSide_ofSide]

def ofManager (m : G.PositionManager) : PositionManager := ⟨m.current.map ofPos⟩

/-! ## Vocabulary (the translator's fixed prelude, which is not part of any group's simp set) -/

theorem abs_agrees (x : Rat) : Generated.Machines.Decimal.abs x = Position.abs x := by
  unfold Generated.Machines.Decimal.abs Position.abs
  grind

/-- `Ord::cmp` on `Decimal` (the prelude's `Decimal.cmp`, which `match a.cmp(&b) { Less / Equal / Greater }` is translated
through) is the trichotomy of `<`: each constructor characterises one of `a < b`, `a = b`, `b < a`. This is what makes
the `cmp` spelling of the three-way decision of `update_from_trade` and its spelling with the guards `>`, `==`, `<` the
same decision table. -/
theorem decimal_cmp_spec (a b : Rat) :
    (Generated.Machines.Decimal.cmp a b = .Less ↔ a < b)
    ∧ (Generated.Machines.Decimal.cmp a b = .Equal ↔ a = b)
    ∧ (Generated.Machines.Decimal.cmp a b = .Greater ↔ b < a) := by
  unfold Generated.Machines.Decimal.cmp
  by_cases h1 : a < b
  · simp only [h1, ↓reduceIte, reduceCtorEq, false_iff]
    exact ⟨trivial, by grind, by grind⟩
  · by_cases h2 : a = b
    · subst h2; simp [h1]
    · simp only [h1, h2, ↓reduceIte, reduceCtorEq, true_iff, true_and]
      grind

/-! ## Shape-independent proofs

Every proof below takes the records apart (`rcases`: case analysis on the DATA — the two sides, and for
`update_from_trade` the three-way comparison of the quantities), unfolds *everything generated for the group*
(`gen_position_sm`: the listed functions and whatever auxiliary functions the translator found by lookup, under
whatever names) together with the model's definitions and the record maps, and lets `grind` decide what is left
(field arithmetic, comparisons of rationals, constructors). Nothing depends on the names of helper functions or on how
the source spells the decision (guarded `match` on the pair of sides with an `unreachable!` fallback — shown dead here
—, or `if side == side` followed by `match a.cmp(&b)`; early `return`; flipped comparisons; hoisted `abs()`;
reordered independent assignments; extracted constructors). -/

open Lean.Parser.Tactic in
/-- everything generated for the group, the model's definitions and the record maps -/
local macro "unfold_psm" loc:(location)? : tactic => `(tactic|
  simp only [gen_position_sm, Generated.Machines.Decimal.cmp, calculatePriceEntryAverage, approximateRemainingExitFees,
    calculatePnlUnrealised, calculatePnlRealised, Position.updatePnlUnrealised, Position.updatePnlRealised,
    Position.ofTrade, PositionExited.ofPosition, Position.pushTrade, Position.increase, Position.reduce,
    Position.closeExact, Position.flip, Position.Position.updateFromTrade, PositionManager.update, ofSide, toSide, ofTrade,
    ofPos, ofExited, ofManager, abs_agrees, Option.map] $[$loc]?)

/-- unfold both sides, then case analysis on the data -/
local macro "psm_agree" : tactic => `(tactic| first | rfl | (unfold_psm; done) | (unfold_psm; grind))

/-! ## Kernels -/

theorem calculate_price_entry_average_agrees (a b c d : Rat) :
    Generated.Machines.calculate_price_entry_average a b c d = calculatePriceEntryAverage a b c d := by psm_agree

theorem approximate_remaining_exit_fees_agrees (a b c : Rat) :
    Generated.Machines.approximate_remaining_exit_fees a b c = approximateRemainingExitFees a b c := by psm_agree

theorem calculate_pnl_unrealised_agrees (s : G.Side) (a b c d e : Rat) :
    Generated.Machines.calculate_pnl_unrealised s a b c d e = calculatePnlUnrealised (ofSide s) a b c d e := by
  cases s <;> psm_agree

theorem calculate_pnl_realised_agrees (s : G.Side) (a b c d : Rat) :
    Generated.Machines.calculate_pnl_realised s a b c d = calculatePnlRealised (ofSide s) a b c d := by
  cases s <;> psm_agree

/-! ## Helpers of `Position` -/

theorem from_trade_agrees (t : G.Trade) : ofPos (Generated.Machines.Position.«from» t) = Position.ofTrade (ofTrade t) := by
  rcases t with ⟨id, oid, ti, st, tt, ts, tp, tq, ⟨⟨⟩, tf⟩⟩
  cases ts <;> psm_agree

theorem exited_from_agrees (p : G.Position) :
    ofExited (Generated.Machines.PositionExited.«from» p) = PositionExited.ofPosition (ofPos p) := by
  rcases p with ⟨i, s, a, q, qm, pu, pr, ⟨⟨⟩, fe⟩, ⟨⟨⟩, fx⟩, te, tu, tr⟩
  cases s <;> psm_agree

theorem update_pnl_unrealised_agrees (p : G.Position) (price : Rat) :
    ofPos (p.update_pnl_unrealised price) = (ofPos p).updatePnlUnrealised price := by
  rcases p with ⟨i, s, a, q, qm, pu, pr, ⟨⟨⟩, fe⟩, ⟨⟨⟩, fx⟩, te, tu, tr⟩
  cases s <;> psm_agree

theorem update_pnl_realised_agrees (p : G.Position) (q pr f : Rat) :
    ofPos (p.update_pnl_realised q pr f) = (ofPos p).updatePnlRealised q pr f := by
  rcases p with ⟨i, s, a, q, qm, pu, pr, ⟨⟨⟩, fe⟩, ⟨⟨⟩, fx⟩, te, tu, tr⟩
  cases s <;> psm_agree

/-! ## `Position::update_from_trade` -/

theorem update_from_trade_agrees (p : G.Position) (t : G.Trade) :
    (ofPos p).updateFromTrade (ofTrade t)
      = ((p.update_from_trade t).1.map ofPos, (p.update_from_trade t).2.map ofExited) := by
  rcases p with ⟨i, s, a, q, qm, pu, pr, ⟨⟨⟩, fe⟩, ⟨⟨⟩, fx⟩, te, tu, tr⟩
  rcases t with ⟨id, oid, ti, st, tt, ts, tp, tq, ⟨⟨⟩, tf⟩⟩
  by_cases hi : i = ti
  · by_cases h1 : q < Position.abs tq
    · cases s <;> cases ts <;> psm_agree
    · by_cases h2 : q = Position.abs tq
      · cases s <;> cases ts <;> psm_agree
      · cases s <;> cases ts <;> psm_agree
  · psm_agree

/-! ## `PositionManager::update_from_trade` -/

theorem manager_update_agrees (m : G.PositionManager) (t : G.Trade) :
    (ofManager m).update (ofTrade t)
      = (ofManager (m.update_from_trade t).1, (m.update_from_trade t).2.map ofExited) := by
  rcases m with ⟨_ | p⟩
  · -- both the lemma about `Position::from` and the goal are unfolded with the same simp set: the generated
    -- sub-term is then literally the same on both sides and `grind` only has to take the manager's own step
    have h := from_trade_agrees t
    simp only [gen_position_sm, PositionManager.update, ofManager, Option.map] at h ⊢
    grind
  · have h := update_from_trade_agrees p t
    simp only [gen_position_sm, PositionManager.update, ofManager, Option.map] at h ⊢
    grind

/-! ## Everything at once -/

theorem position_sm_agree :
    (∀ t : G.Trade, Position.ofTrade (ofTrade t) = ofPos (Generated.Machines.Position.«from» t))
    ∧ (∀ p : G.Position, PositionExited.ofPosition (ofPos p) = ofExited (Generated.Machines.PositionExited.«from» p))
    ∧ (∀ (p : G.Position) (price : Rat),
        (ofPos p).updatePnlUnrealised price = ofPos (p.update_pnl_unrealised price))
    ∧ (∀ (p : G.Position) (q pr f : Rat),
        (ofPos p).updatePnlRealised q pr f = ofPos (p.update_pnl_realised q pr f))
    ∧ (∀ (p : G.Position) (t : G.Trade), (ofPos p).updateFromTrade (ofTrade t)
        = ((p.update_from_trade t).1.map ofPos, (p.update_from_trade t).2.map ofExited))
    ∧ (∀ (m : G.PositionManager) (t : G.Trade), (ofManager m).update (ofTrade t)
        = (ofManager (m.update_from_trade t).1, (m.update_from_trade t).2.map ofExited))
    ∧ (∀ p : Position, ofPos (toPos p) = p) ∧ (∀ p : G.Position, toPos (ofPos p) = p)
    ∧ (∀ (o s : Nat) (t : Trade), ofTrade (toTrade o s t) = t) :=
  ⟨fun t => (from_trade_agrees t).symm, fun p => (exited_from_agrees p).symm,
    fun p x => (update_pnl_unrealised_agrees p x).symm, fun p a b c => (update_pnl_realised_agrees p a b c).symm,
    update_from_trade_agrees, manager_update_agrees, ofPos_toPos, toPos_ofPos, ofTrade_toTrade⟩

end BarterModel.KernelsAgree.PositionSM
