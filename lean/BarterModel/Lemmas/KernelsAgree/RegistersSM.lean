import BarterModel.Generated.Machines2
import BarterModel.Model.Stale
import BarterModel.Model.Unrealised
import BarterModel.Model.TearSheet
import BarterModel.Lemmas.KernelsAgree.Drawdown
/-!
# Agreement: the time-guarded registers of the engine state as state machines (C09)

`BarterModel.Generated.Machines.{AssetState.update_from_balance, TearSheetAssetGenerator.update_from_balance,
DefaultInstrumentMarketData.{price, process}, OrderBookL1.volume_weighed_mid_price, volume_weighted_mid_price,
Snapshot.value}` and the structs they work on are regenerated from the Rust source by
`tools/rust2lean_sm.py` (group `registers`, file `Generated/Machines2.lean`) on every run of
`./check C09`. The theorems state, for ALL states and messages and all key types, that the generated
functions are the hand-written register model of `Model/Stale.lean` the C09 theorems are about (and
the models built on it: `Model/Unrealised.lean` for `price` / `process`, `Model/TearSheet.lean` and
`Model/Drawdown.lean` for the asset statistics).

* **Balance register** (`AssetState::update_from_balance`, guard `<=`). `ofHeld` reads the generated
  `Option<Timed<Balance>>` as the model's `Option (time × (total, free))` (a bijection, `toHeld`);
  the held register after the call is `Stale.upd false`, the `asset` is untouched, and `statistics` is
  fed exactly when the message is accepted. The code borrows `&mut self.balance` and writes the two
  fields of the held `Timed` one after the other; the generated definition mirrors this.
* **Last-trade register and top of book** (`DefaultInstrumentMarketData::process`, guards `<`).
  `toMD` embeds the model's `MarketData` into the generated struct: the model's `l1 = none` is the
  derived `OrderBookL1::default()` (epoch timestamp, no levels) and a model `L1` payload carries both
  levels. `Decimal::from_f64` is not modelled: the generated `process` takes it as a parameter, and the
  trade arm is the model's `MarketData.trade` applied to the converted price, or a no-op when the
  conversion fails — for EVERY `from_f64`.
  **Boundary made explicit (documented precondition of Model/Stale.lean, not a new finding):** with the
  default book the code's guard is `epoch < event.time_exchange`, the model's `none` arm accepts always;
  `process_l1_agrees` therefore carries `d.l1 = none → 0 < te`, and `process_l1_at_or_before_epoch`
  shows the two differ exactly there (an L1 event stamped at or before 1970-01-01T00:00:00Z on a fresh
  instrument is dropped by the code).
* The open-order guards of `engine/state/order/mod.rs` (`current.time_exchange <= update.time_exchange`)
  sit inside `match` arms over the `HashMap` entry API; they are translated since round 5 (group
  `orders`, map vocabulary) and proved in `OrdersSM.lean`, not here.
-/
namespace BarterModel.KernelsAgree.RegistersSM
open BarterModel BarterModel.Stale

namespace G
abbrev Balance := Generated.Machines.Balance
abbrev AssetBalance := Generated.Machines.AssetBalance
abbrev Snapshot := Generated.Machines.Snapshot
abbrev Timed := Generated.Machines.Timed
abbrev AssetState := Generated.Machines.AssetState
abbrev Stats := Generated.Machines.TearSheetAssetGenerator
abbrev Level := Generated.Machines.Level
abbrev OrderBookL1 := Generated.Machines.OrderBookL1
abbrev PublicTrade := Generated.Machines.PublicTrade
abbrev DataKind := Generated.Machines.DataKind
abbrev MarketEvent := Generated.Machines.MarketEvent
abbrev MarketData := Generated.Machines.DefaultInstrumentMarketData
end G

variable {K : Type} [DecidableEq K]

/-! ## Balance register -/

def ofBal (b : G.Balance) : Bal := (b.total, b.free)
def toBal (b : Bal) : G.Balance := ⟨b.1, b.2⟩
theorem ofBal_toBal (b : Bal) : ofBal (toBal b) = b := rfl
theorem toBal_ofBal (b : G.Balance) : toBal (ofBal b) = b := rfl

def ofHeld (h : Option (G.Timed G.Balance)) : Option (Msg Bal) := h.map fun t => (t.time, ofBal t.value)
def toHeld (h : Option (Msg Bal)) : Option (G.Timed G.Balance) := h.map fun m => ⟨toBal m.2, m.1⟩
theorem ofHeld_toHeld (h : Option (Msg Bal)) : ofHeld (toHeld h) = h := by cases h <;> rfl
theorem toHeld_ofHeld (h : Option (G.Timed G.Balance)) : toHeld (ofHeld h) = h := by cases h <;> rfl

/-- the message a snapshot stands for: `(time_exchange, (total, free))`. -/
def msgOf (sn : G.Snapshot (G.AssetBalance K)) : Msg Bal := (sn.f0.time_exchange, ofBal sn.f0.balance)

/-- would the snapshot be accepted by the state (first one always, later ones under `<=`)? -/
def accepts (s : G.AssetState) (sn : G.Snapshot (G.AssetBalance K)) : Bool :=
  match s.balance with
  | none => true
  | some c => decide (c.time ≤ sn.f0.time_exchange)

/-! ### record maps for the asset statistics (C16's and C18's models) -/

def ofBalTS (b : G.Balance) : TearSheet.Balance := ⟨b.total, b.free⟩
def snapOf (sn : G.Snapshot (G.AssetBalance K)) : TearSheet.BalSnap := ⟨sn.f0.time_exchange, ofBalTS sn.f0.balance⟩

/-- C16's reduced `TearSheetAssetGenerator` (`balance_now` only). -/
def ofStatsTS (g : G.Stats) : TearSheet.TearSheetAssetGenerator := ⟨g.balance_now.map ofBalTS⟩
/-- C16's `AssetState` (`statistics`, `balance`). -/
def ofAssetTS (s : G.AssetState) : TearSheet.AssetState :=
  ⟨ofStatsTS s.statistics, s.balance.map fun t => ⟨t.time, ofBalTS t.value⟩⟩
/-- C18's three drawdown generators of the asset tear sheet. -/
def ofSheet (g : G.Stats) : Drawdown.Sheet :=
  ⟨KernelsAgree.Drawdown.ofGen g.drawdown, KernelsAgree.Drawdown.ofMeanGen g.drawdown_mean,
    KernelsAgree.Drawdown.ofMaxGen g.drawdown_max⟩

/-! ### record maps for the market data -/

def toLevelBid (l : L1) : G.Level := ⟨l.bidP, l.bidA⟩
def toLevelAsk (l : L1) : G.Level := ⟨l.askP, l.askA⟩
/-- a model `L1` payload: both levels present. -/
def toL1 (l : L1) : G.OrderBookL1 := ⟨l.tl, some (toLevelBid l), some (toLevelAsk l)⟩
/-- the model's held book: `none` is the derived `OrderBookL1::default()`. -/
def toL1o : Option L1 → G.OrderBookL1
  | none => Generated.Machines.OrderBookL1.default
  | some l => toL1 l
def toTrade (m : Option (Msg Rat)) : Option (G.Timed Rat) := m.map fun m => ⟨m.2, m.1⟩
def toMD (d : MarketData) : G.MarketData := ⟨toL1o d.l1, toTrade d.lastTrade⟩

/-! ### Shape-independent proofs

Every proof of this file takes the records apart (`rcases`: case analysis on the DATA — is a value held, which kind of
event), unfolds *everything generated for the group* (`gen_registers`: the listed functions, the derived `Default`s and
whatever auxiliary functions the translator found by lookup, under whatever names; plus the derived constructor
`Timed::new` of group `pnl_returns`) together with the model's definitions and the record maps, and lets `grind`
decide what is left (the comparison of the two timestamps, constructors). The drawdown generators of the asset
statistics are NOT unfolded: the model's side is rewritten with the agreement theorems of `KernelsAgree/Drawdown.lean`
into the same generated functions, whose result is then generalised. Nothing depends on the names of helper functions
or on how the source spells a decision (`let .. else` + `if`, one `match` with a guard, `is_none_or` with a closure or
an extracted predicate, nested `if` or early `return`, `.replace(x)` or `= Some(x)`, flipped comparisons, reordered
disjoint arms / independent assignments, hoisted locals). -/

open Lean.Parser.Tactic in
/-- everything generated for the group, the model's definitions and the record maps -/
local macro "unfold_reg" loc:(location)? : tactic => `(tactic|
  simp only [gen_registers, Generated.Machines.Timed.new, upd, passes, MarketData.trade, MarketData.bookL1,
    MarketData.init, Unrealised.price, Unrealised.volumeWeightedMidPrice, TearSheet.TearSheetAssetGenerator.updateFromBalance,
    TearSheet.AssetState.updateFromBalance, BarterModel.Drawdown.Sheet.update, ofBal, toBal, ofHeld, toHeld, msgOf, accepts,
    ofBalTS, snapOf, ofStatsTS, ofAssetTS, ofSheet, toLevelBid, toLevelAsk, toL1, toL1o, toTrade, toMD,
    KernelsAgree.Drawdown.update_agrees, KernelsAgree.Drawdown.mean_update_agrees, KernelsAgree.Drawdown.max_update_agrees,
    KernelsAgree.Drawdown.toGen_ofGen, KernelsAgree.Drawdown.toMeanGen_ofMeanGen, KernelsAgree.Drawdown.toMaxGen_ofMaxGen,
    KernelsAgree.Drawdown.toDd_ofDd, KernelsAgree.Drawdown.toTimed, Option.map, Option.or] $[$loc]?)

/-- unfold both sides, then case analysis on the data -/
local macro "reg_agree" : tactic => `(tactic| first | rfl | (unfold_reg; done) | (unfold_reg; grind))

theorem snapshot_value (T : Type) [DecidableEq T] (s : G.Snapshot T) :
    Generated.Machines.Snapshot.value s = s.f0 := by reg_agree

/-- **The balance register is `Stale.upd false`**, for every asset state and every snapshot. -/
theorem balance_register_agrees (s : G.AssetState) (sn : G.Snapshot (G.AssetBalance K)) :
    ofHeld (Generated.Machines.AssetState.update_from_balance s sn).balance
      = upd false (ofHeld s.balance) (msgOf sn) := by
  rcases sn with ⟨⟨k, ⟨tot, fr⟩, te⟩⟩
  rcases s with ⟨a, st, _ | ⟨⟨ctot, cfr⟩, ct⟩⟩ <;> reg_agree

/-- `asset` is never touched; `statistics` is fed exactly the accepted snapshots. -/
theorem balance_rest_agrees (s : G.AssetState) (sn : G.Snapshot (G.AssetBalance K)) :
    (Generated.Machines.AssetState.update_from_balance s sn).asset = s.asset
    ∧ (Generated.Machines.AssetState.update_from_balance s sn).statistics
        = if accepts s sn then Generated.Machines.TearSheetAssetGenerator.update_from_balance s.statistics sn
          else s.statistics := by
  rcases sn with ⟨⟨k, ⟨tot, fr⟩, te⟩⟩
  rcases s with ⟨a, st, _ | ⟨⟨ctot, cfr⟩, ct⟩⟩ <;> reg_agree

/-! ### the asset statistics: C16's and C18's models -/

/-- `TearSheetAssetGenerator::update_from_balance`: `balance_now` as in C16's model, the three
drawdown generators as C18's `Sheet.update` on the point `(time_exchange, balance.total)`. -/
theorem stats_update_agrees (g : G.Stats) (sn : G.Snapshot (G.AssetBalance K)) :
    ofStatsTS (Generated.Machines.TearSheetAssetGenerator.update_from_balance g sn)
        = (ofStatsTS g).updateFromBalance (snapOf sn)
    ∧ ofSheet (Generated.Machines.TearSheetAssetGenerator.update_from_balance g sn)
        = ((ofSheet g).update ⟨sn.f0.time_exchange, sn.f0.balance.total⟩).1 := by
  rcases sn with ⟨⟨k, ⟨tot, fr⟩, te⟩⟩
  rcases g with ⟨bn, dg, dmean, dmax⟩
  unfold_reg
  -- both sides now speak about the same call of the generated `DrawdownGenerator::update` (group `drawdown`, not unfolded)
  generalize Generated.Machines.DrawdownGenerator.update _ _ = r
  rcases r with ⟨g', _ | d⟩ <;> grind [KernelsAgree.Drawdown.toDd_ofDd]

/-- `AssetState::update_from_balance` commutes with C16's `AssetState.updateFromBalance`. -/
theorem asset_state_agrees_tearsheet (s : G.AssetState) (sn : G.Snapshot (G.AssetBalance K)) :
    ofAssetTS (Generated.Machines.AssetState.update_from_balance s sn)
      = (ofAssetTS s).updateFromBalance (snapOf sn) := by
  rcases sn with ⟨⟨k, ⟨tot, fr⟩, te⟩⟩
  rcases s with ⟨a, ⟨bn, dg, dmean, dmax⟩, _ | ⟨⟨ctot, cfr⟩, ct⟩⟩ <;> unfold_reg <;>
    generalize Generated.Machines.DrawdownGenerator.update _ _ = r <;>
    rcases r with ⟨g', _ | d⟩ <;> grind [KernelsAgree.Drawdown.toDd_ofDd]

/-! ## Market data: last trade and top of book -/

theorem toL1_injective (a b : L1) (h : toL1 a = toL1 b) : a = b := by
  cases a; cases b; simp_all [toL1, toLevelBid, toLevelAsk]
theorem toMD_init : toMD MarketData.init = Generated.Machines.DefaultInstrumentMarketData.default := by reg_agree

theorem volume_weighted_mid_price_agrees (l : L1) :
    Generated.Machines.volume_weighted_mid_price (toLevelBid l) (toLevelAsk l)
      = Unrealised.volumeWeightedMidPrice l := by reg_agree

/-- `DefaultInstrumentMarketData::price` is C15's `Unrealised.price` (volume-weighted mid price of the
held book if it has both levels, else the last traded price). -/
theorem price_agrees (d : MarketData) :
    Generated.Machines.DefaultInstrumentMarketData.price (toMD d) = Unrealised.price d := by
  rcases d with ⟨_ | l, _ | t⟩ <;> reg_agree

/-- **Trade arm** = `MarketData.trade` (register `upd true`) on the converted price; a price
`Decimal::from_f64` rejects changes nothing. For every `from_f64`, event envelope and key type. -/
theorem process_trade_agrees (from_f64 : Generated.Machines.F64 → Option Rat) (d : MarketData)
    (te tr : Int) (ex : Nat) (i : K) (t : G.PublicTrade) :
    Generated.Machines.DefaultInstrumentMarketData.process from_f64 (toMD d) ⟨te, tr, ex, i, .Trade t⟩
      = match from_f64 t.price with
        | some p => toMD (d.trade te p)
        | none => toMD d := by
  rcases d with ⟨l, _ | ⟨ct, cp⟩⟩ <;> cases h : from_f64 t.price <;> unfold_reg <;> simp only [h] <;> grind

/-- **L1 arm** = `MarketData.bookL1`, under the model's documented precondition that a fresh
instrument only sees event times after the Unix epoch. -/
theorem process_l1_agrees (from_f64 : Generated.Machines.F64 → Option Rat) (d : MarketData)
    (te tr : Int) (ex : Nat) (i : K) (l : L1) (hepoch : d.l1 = none → 0 < te) :
    Generated.Machines.DefaultInstrumentMarketData.process from_f64 (toMD d) ⟨te, tr, ex, i, .OrderBookL1 (toL1 l)⟩
      = toMD (d.bookL1 te l) := by
  rcases d with ⟨_ | c, lt⟩
  · have := hepoch rfl
    reg_agree
  · reg_agree

/-- The boundary of that precondition: at or before the epoch the code keeps the default book where
the model stores the payload. -/
theorem process_l1_at_or_before_epoch (from_f64 : Generated.Machines.F64 → Option Rat)
    (lt : Option (Msg Rat)) (te tr : Int) (ex : Nat) (i : K) (l : L1) (h : te ≤ 0) :
    Generated.Machines.DefaultInstrumentMarketData.process from_f64 (toMD ⟨none, lt⟩) ⟨te, tr, ex, i, .OrderBookL1 (toL1 l)⟩
        = toMD ⟨none, lt⟩
    ∧ (MarketData.bookL1 ⟨none, lt⟩ te l) = ⟨some l, lt⟩ := by
  constructor
  · reg_agree
  · rfl

/-- **Every other kind** (`OrderBook`, `Candle`, `Liquidation`: the `_ => {}` arm) changes nothing. -/
theorem process_other_agrees (from_f64 : Generated.Machines.F64 → Option Rat) (g : G.MarketData)
    (te tr : Int) (ex : Nat) (i : K) :
    Generated.Machines.DefaultInstrumentMarketData.process from_f64 g ⟨te, tr, ex, i, .Other_⟩ = g := by reg_agree

/-- Everything `./check C09` re-proves against the current source, at once. -/
theorem registers_sm_agree :
    (∀ h : Option (Msg Bal), ofHeld (toHeld h) = h) ∧ (∀ h : Option (G.Timed G.Balance), toHeld (ofHeld h) = h)
    ∧ (∀ (K : Type) [DecidableEq K] (s : G.AssetState) (sn : G.Snapshot (G.AssetBalance K)),
        ofHeld (Generated.Machines.AssetState.update_from_balance s sn).balance
          = upd false (ofHeld s.balance) (msgOf sn))
    ∧ (∀ (K : Type) [DecidableEq K] (s : G.AssetState) (sn : G.Snapshot (G.AssetBalance K)),
        (Generated.Machines.AssetState.update_from_balance s sn).asset = s.asset
        ∧ (Generated.Machines.AssetState.update_from_balance s sn).statistics
            = if accepts s sn then Generated.Machines.TearSheetAssetGenerator.update_from_balance s.statistics sn
              else s.statistics)
    ∧ (∀ (K : Type) [DecidableEq K] (g : G.Stats) (sn : G.Snapshot (G.AssetBalance K)),
        ofStatsTS (Generated.Machines.TearSheetAssetGenerator.update_from_balance g sn)
            = (ofStatsTS g).updateFromBalance (snapOf sn)
        ∧ ofSheet (Generated.Machines.TearSheetAssetGenerator.update_from_balance g sn)
            = ((ofSheet g).update ⟨sn.f0.time_exchange, sn.f0.balance.total⟩).1)
    ∧ (∀ (K : Type) [DecidableEq K] (s : G.AssetState) (sn : G.Snapshot (G.AssetBalance K)),
        ofAssetTS (Generated.Machines.AssetState.update_from_balance s sn)
          = (ofAssetTS s).updateFromBalance (snapOf sn))
    ∧ (∀ a b : L1, toL1 a = toL1 b → a = b)
    ∧ toMD MarketData.init = Generated.Machines.DefaultInstrumentMarketData.default
    ∧ (∀ d : MarketData, Generated.Machines.DefaultInstrumentMarketData.price (toMD d) = Unrealised.price d)
    ∧ (∀ (K : Type) [DecidableEq K] (from_f64 : Generated.Machines.F64 → Option Rat) (d : MarketData)
        (te tr : Int) (ex : Nat) (i : K) (t : G.PublicTrade),
        Generated.Machines.DefaultInstrumentMarketData.process from_f64 (toMD d) ⟨te, tr, ex, i, .Trade t⟩
          = match from_f64 t.price with
            | some p => toMD (d.trade te p)
            | none => toMD d)
    ∧ (∀ (K : Type) [DecidableEq K] (from_f64 : Generated.Machines.F64 → Option Rat) (d : MarketData)
        (te tr : Int) (ex : Nat) (i : K) (l : L1), (d.l1 = none → 0 < te) →
        Generated.Machines.DefaultInstrumentMarketData.process from_f64 (toMD d)
            ⟨te, tr, ex, i, .OrderBookL1 (toL1 l)⟩ = toMD (d.bookL1 te l))
    ∧ (∀ (K : Type) [DecidableEq K] (from_f64 : Generated.Machines.F64 → Option Rat) (g : G.MarketData)
        (te tr : Int) (ex : Nat) (i : K),
        Generated.Machines.DefaultInstrumentMarketData.process from_f64 g ⟨te, tr, ex, i, .Other_⟩ = g) :=
  ⟨ofHeld_toHeld, toHeld_ofHeld, fun _ _ => balance_register_agrees, fun _ _ => balance_rest_agrees,
    fun _ _ => stats_update_agrees, fun _ _ => asset_state_agrees_tearsheet, toL1_injective, toMD_init,
    price_agrees, fun _ _ => process_trade_agrees, fun _ _ => process_l1_agrees,
    fun _ _ => process_other_agrees⟩

end BarterModel.KernelsAgree.RegistersSM
