import BarterModel.Generated.Machines2
import BarterModel.Model.TearSheet
import BarterModel.Model.Metrics
import BarterModel.Lemmas.KernelsAgree.DataSetSM
import BarterModel.Lemmas.KernelsAgree.Drawdown
/-!
# Agreement: `PnLReturns::update` and `TearSheetGenerator::{init, update_from_position}` as state machines

`BarterModel.Generated.Machines.{calculate_pnl_return, PnLReturns.*, TearSheetGenerator.*}` (with the
derived `Default`s of `PnLReturns` and of the three drawdown generators and the derived constructor
`Timed::new`) are regenerated from `barter/src/statistic/summary/{pnl,instrument}.rs` (and
`position.rs`, `lib.rs`, `metric/drawdown/*.rs`) by `tools/rust2lean_sm.py` (group `pnl_returns`, file
`Generated/Machines2.lean`) on every run of `./check C16`. Two families of theorems, both for ALL
generator states, ALL exited positions and ALL key types `AssetKey`, `InstrumentKey`:

**A. The C16 model (`Model/TearSheet.lean`)** keeps of a `PositionExited` the three fields
`PnLReturns::update` reads (`Closed`), of a `DataSetSummary` only `count` and `sum`, and of the
generator only `pnl_returns`. The maps `ofClosed`, `ofDS`, `ofPnL`, `ofTSG` are these projections
(surjections; sections `toDS`, `toPnL`, `toTSG`), and the generated step functions commute with the
model's through them. Because the projection forgets mean / dispersion, these clauses hold for
EVERY `sqrt` parameter (no contract needed: the `expect` of `Dispersion::update` lands in `std_dev`).

**B. The complete model (`Model/Metrics.lean`, sub-check C16M: `Metrics.Gen`)** carries the clock,
`pnl_raw`, both full `DataSetSummary`s (C17 model) and the three drawdown generators (C18 model).
`ofFull` / `toFull` is a bijection of the generated `TearSheetGenerator` with `Metrics.Gen` (composed
from the bijections of `KernelsAgree/DataSetSM.lean` and `KernelsAgree/Drawdown.lean`), and `init` /
`update_from_position` agree for every `sqrt` honouring its contract (`DataSetSM.SqrtTotal`).

`generate` is not translated here (it calls the metric code; see `Props/C16M.lean`).
-/
namespace BarterModel.KernelsAgree.PnLReturnsSM
open BarterModel

namespace G
abbrev PositionExited := Generated.Machines.PositionExited
abbrev DataSetSummary := Generated.Machines.DataSetSummary
abbrev PnLReturns := Generated.Machines.PnLReturns
abbrev TearSheetGenerator := Generated.Machines.TearSheetGenerator
end G

variable {A I : Type} [DecidableEq A] [DecidableEq I]

/-! ## A. Projections onto the C16 model -/

/-- the three fields of `PositionExited` that `PnLReturns::update` reads. -/
def ofClosed (p : G.PositionExited A I) : TearSheet.Closed :=
  ⟨p.pnl_realised, p.price_entry_average, p.quantity_abs_max⟩

def ofDS (s : G.DataSetSummary) : TearSheet.DataSetSummary := ⟨s.count, s.sum⟩
def toDS (s : TearSheet.DataSetSummary) : G.DataSetSummary :=
  ⟨s.count, s.sum, 0, Generated.Machines.Dispersion.default⟩
theorem ofDS_toDS (s : TearSheet.DataSetSummary) : ofDS (toDS s) = s := rfl

def ofPnL (s : G.PnLReturns) : TearSheet.PnLReturns := ⟨s.pnl_raw, ofDS s.total, ofDS s.losses⟩
def toPnL (s : TearSheet.PnLReturns) : G.PnLReturns := ⟨s.pnlRaw, toDS s.total, toDS s.losses⟩
theorem ofPnL_toPnL (s : TearSheet.PnLReturns) : ofPnL (toPnL s) = s := rfl

def ofTSG (g : G.TearSheetGenerator) : TearSheet.TearSheetGenerator := ⟨ofPnL g.pnl_returns⟩
def toTSG (g : TearSheet.TearSheetGenerator) : G.TearSheetGenerator :=
  { Generated.Machines.TearSheetGenerator.init 0 with pnl_returns := toPnL g.pnlReturns }
theorem ofTSG_toTSG (g : TearSheet.TearSheetGenerator) : ofTSG (toTSG g) = g := rfl

theorem calculate_pnl_return_agrees (pnlRealised priceEntryAverage quantityAbsMax : Rat) :
    Generated.Machines.calculate_pnl_return pnlRealised priceEntryAverage quantityAbsMax
      = TearSheet.calculatePnlReturn pnlRealised priceEntryAverage quantityAbsMax := by
  simp only [Generated.Machines.calculate_pnl_return, TearSheet.calculatePnlReturn] <;> grind

/-- `count += 1; sum += x` of `DataSetSummary::update`, whatever `sqrt` does. -/
theorem ds_update_proj (sqrt : Rat → Option Rat) (s : G.DataSetSummary) (x : Rat) :
    ofDS (Generated.Machines.DataSetSummary.update sqrt s x) = (ofDS s).update x := by
  simp only [Generated.Machines.DataSetSummary.update, ofDS, TearSheet.DataSetSummary.update]

theorem pnl_default_proj : ofPnL Generated.Machines.PnLReturns.default = TearSheet.PnLReturns.default := rfl

/-- `PnLReturns::update` commutes with the projections, for every `sqrt`. -/
theorem pnl_update_proj (sqrt : Rat → Option Rat) (s : G.PnLReturns) (p : G.PositionExited A I) :
    ofPnL (Generated.Machines.PnLReturns.update sqrt s p) = (ofPnL s).update (ofClosed p) := by
  simp only [Generated.Machines.PnLReturns.update, TearSheet.PnLReturns.update, ofClosed,
    calculate_pnl_return_agrees]
  split <;> simp_all [ofPnL, ds_update_proj]

theorem tsg_init_proj (t : Int) :
    ofTSG (Generated.Machines.TearSheetGenerator.init t) = TearSheet.TearSheetGenerator.init := rfl

/-- `TearSheetGenerator::update_from_position` commutes with the projections, for every `sqrt`. -/
theorem tsg_update_proj (sqrt : Rat → Option Rat) (g : G.TearSheetGenerator) (p : G.PositionExited A I) :
    ofTSG (Generated.Machines.TearSheetGenerator.update_from_position sqrt g p)
      = (ofTSG g).updateFromPosition (ofClosed p) := by
  simp only [Generated.Machines.TearSheetGenerator.update_from_position,
    TearSheet.TearSheetGenerator.updateFromPosition]
  split <;> simp_all [ofTSG, pnl_update_proj]

/-! ## B. Bijection with the complete generator model `Metrics.Gen` -/

open DataSetSM (SqrtTotal fnOf ofSum toSum)
open BarterModel.KernelsAgree.Drawdown (ofGen toGen ofMeanGen toMeanGen ofMaxGen toMaxGen toTimed ofDd toDd)

def ofExit (p : G.PositionExited A I) : Metrics.Exit := ⟨p.time_exit, ofClosed p⟩

def ofFull (g : G.TearSheetGenerator) : Metrics.Gen :=
  ⟨g.time_engine_start, g.time_engine_now, g.pnl_returns.pnl_raw, ofSum g.pnl_returns.total,
    ofSum g.pnl_returns.losses,
    ⟨ofGen g.pnl_drawdown, ofMeanGen g.pnl_drawdown_mean, ofMaxGen g.pnl_drawdown_max⟩⟩
def toFull (g : Metrics.Gen) : G.TearSheetGenerator :=
  ⟨g.timeEngineStart, g.timeEngineNow, ⟨g.pnlRaw, toSum g.total, toSum g.losses⟩,
    toGen g.sheet.gen, toMeanGen g.sheet.mean, toMaxGen g.sheet.max⟩
theorem ofFull_toFull (g : Metrics.Gen) : ofFull (toFull g) = g := by
  rcases g with ⟨a, b, c, d, e, ⟨f, h, i⟩⟩
  simp [ofFull, toFull, DataSetSM.ofSum_toSum, Drawdown.ofGen_toGen, Drawdown.ofMeanGen_toMeanGen,
    Drawdown.ofMaxGen_toMaxGen]
theorem toFull_ofFull (g : G.TearSheetGenerator) : toFull (ofFull g) = g := by
  rcases g with ⟨a, b, ⟨c, d, e⟩, f, h, i⟩
  simp [ofFull, toFull, DataSetSM.toSum_ofSum, Drawdown.toGen_ofGen, Drawdown.toMeanGen_ofMeanGen,
    Drawdown.toMaxGen_ofMaxGen]

theorem full_init_agrees (t : Int) :
    ofFull (Generated.Machines.TearSheetGenerator.init t) = Metrics.Gen.init t := by
  simp only [ofFull, Generated.Machines.TearSheetGenerator.init, Metrics.Gen.init, Metrics.Gen.mk.injEq,
    true_and]
  exact ⟨rfl, rfl, rfl, rfl⟩

/-- `DataSetSummary::update` on an arbitrary GENERATED summary (from `DataSetSM.summary_update_agrees`). -/
theorem sum_update (sqrt : Rat → Option Rat) (hs : SqrtTotal sqrt) (s : G.DataSetSummary) (x : Rat) :
    ofSum (Generated.Machines.DataSetSummary.update sqrt s x) = (ofSum s).update (fnOf sqrt) x := by
  have := DataSetSM.summary_update_agrees sqrt hs (ofSum s) x
  rwa [DataSetSM.toSum_ofSum] at this

/-- `PnLReturns::update`, all three fields, on an arbitrary generated state. -/
theorem pnl_update_full (sqrt : Rat → Option Rat) (hs : SqrtTotal sqrt) (s : G.PnLReturns)
    (p : G.PositionExited A I) :
    (Generated.Machines.PnLReturns.update sqrt s p).pnl_raw = s.pnl_raw + p.pnl_realised
    ∧ ofSum (Generated.Machines.PnLReturns.update sqrt s p).total
        = (ofSum s.total).update (fnOf sqrt)
            (TearSheet.calculatePnlReturn p.pnl_realised p.price_entry_average p.quantity_abs_max)
    ∧ ofSum (Generated.Machines.PnLReturns.update sqrt s p).losses
        = if TearSheet.calculatePnlReturn p.pnl_realised p.price_entry_average p.quantity_abs_max < 0 then
            (ofSum s.losses).update (fnOf sqrt)
              (TearSheet.calculatePnlReturn p.pnl_realised p.price_entry_average p.quantity_abs_max)
          else ofSum s.losses := by
  simp only [Generated.Machines.PnLReturns.update, calculate_pnl_return_agrees]
  split <;> simp_all [sum_update sqrt hs]

/-- `TearSheetGenerator::update_from_position` is `Metrics.Gen.updateFromPosition`, all fields (clock,
`pnl_raw`, both summaries, all three drawdown generators). -/
theorem full_update_agrees (sqrt : Rat → Option Rat) (hs : SqrtTotal sqrt) (g : G.TearSheetGenerator)
    (p : G.PositionExited A I) :
    ofFull (Generated.Machines.TearSheetGenerator.update_from_position sqrt g p)
      = (ofFull g).updateFromPosition (fnOf sqrt) (ofExit p) := by
  rcases g with ⟨ts, tn, pr0, dg, dmean, dmax⟩
  obtain ⟨h1, h2, h3⟩ := pnl_update_full sqrt hs pr0 p
  simp only [Generated.Machines.TearSheetGenerator.update_from_position, Generated.Machines.Timed.new]
  generalize Generated.Machines.PnLReturns.update sqrt pr0 p = pr at *
  have hu := KernelsAgree.Drawdown.update_agrees (ofGen dg) ⟨p.time_exit, pr.pnl_raw⟩
  rw [KernelsAgree.Drawdown.toGen_ofGen] at hu
  simp only [toTimed] at hu
  have hm : ∀ d, (ofMeanGen dmean).update (ofDd d) = ofMeanGen (dmean.update d) := fun d => by
    rw [KernelsAgree.Drawdown.mean_update_agrees, KernelsAgree.Drawdown.toMeanGen_ofMeanGen,
      KernelsAgree.Drawdown.toDd_ofDd]
  have hx : ∀ d, (ofMaxGen dmax).update (ofDd d) = ofMaxGen (dmax.update d) := fun d => by
    rw [KernelsAgree.Drawdown.max_update_agrees, KernelsAgree.Drawdown.toMaxGen_ofMaxGen,
      KernelsAgree.Drawdown.toDd_ofDd]
  simp only [Metrics.Gen.updateFromPosition, ofFull, ofExit, ofClosed, BarterModel.Drawdown.Sheet.update,
    ← h1, hu]
  rcases hd : dg.update ⟨pr.pnl_raw, p.time_exit⟩ with ⟨g', _ | d⟩ <;>
    simp [h2, h3, hm, hx] <;> (split <;> simp_all)

/-- Everything `./check C16` re-proves against the current source, at once. -/
theorem pnl_returns_sm_agree :
    (∀ s : TearSheet.DataSetSummary, ofDS (toDS s) = s)
    ∧ (∀ s : TearSheet.PnLReturns, ofPnL (toPnL s) = s)
    ∧ (∀ g : TearSheet.TearSheetGenerator, ofTSG (toTSG g) = g)
    ∧ (∀ a b c : Rat, Generated.Machines.calculate_pnl_return a b c = TearSheet.calculatePnlReturn a b c)
    ∧ (∀ (sqrt : Rat → Option Rat) (s : G.DataSetSummary) (x : Rat),
        ofDS (Generated.Machines.DataSetSummary.update sqrt s x) = (ofDS s).update x)
    ∧ ofPnL Generated.Machines.PnLReturns.default = TearSheet.PnLReturns.default
    ∧ (∀ (A I : Type) [DecidableEq A] [DecidableEq I] (sqrt : Rat → Option Rat) (s : G.PnLReturns)
        (p : G.PositionExited A I),
        ofPnL (Generated.Machines.PnLReturns.update sqrt s p) = (ofPnL s).update (ofClosed p))
    ∧ (∀ t : Int, ofTSG (Generated.Machines.TearSheetGenerator.init t) = TearSheet.TearSheetGenerator.init)
    ∧ (∀ (A I : Type) [DecidableEq A] [DecidableEq I] (sqrt : Rat → Option Rat) (g : G.TearSheetGenerator)
        (p : G.PositionExited A I),
        ofTSG (Generated.Machines.TearSheetGenerator.update_from_position sqrt g p)
          = (ofTSG g).updateFromPosition (ofClosed p))
    ∧ (∀ g : Metrics.Gen, ofFull (toFull g) = g) ∧ (∀ g : G.TearSheetGenerator, toFull (ofFull g) = g)
    ∧ (∀ t : Int, ofFull (Generated.Machines.TearSheetGenerator.init t) = Metrics.Gen.init t)
    ∧ (∀ (A I : Type) [DecidableEq A] [DecidableEq I] (sqrt : Rat → Option Rat), SqrtTotal sqrt →
        ∀ (g : G.TearSheetGenerator) (p : G.PositionExited A I),
        ofFull (Generated.Machines.TearSheetGenerator.update_from_position sqrt g p)
          = (ofFull g).updateFromPosition (fnOf sqrt) (ofExit p)) :=
  ⟨ofDS_toDS, ofPnL_toPnL, ofTSG_toTSG, calculate_pnl_return_agrees, ds_update_proj, pnl_default_proj,
    fun _ _ _ _ => pnl_update_proj, tsg_init_proj, fun _ _ _ _ => tsg_update_proj, ofFull_toFull,
    toFull_ofFull, full_init_agrees, fun _ _ _ _ => full_update_agrees⟩

end BarterModel.KernelsAgree.PnLReturnsSM
