import BarterModel.Generated.Machines2
import BarterModel.Model.TearSheet
import BarterModel.Model.Metrics
import BarterModel.Lemmas.KernelsAgree.DataSetSM
import BarterModel.Lemmas.KernelsAgree.Drawdown
/-!
# Agreement: `PnLReturns::update` and `TearSheetGenerator::{init, update_from_position}` as state machines

`BarterModel.Generated.Machines.{calculate_pnl_return, PnLReturns.*, TearSheetGenerator.*}` (with the
derived `Default`s of `PnLReturns` and of the three drawdown generators and the derived constructor
`Timed::new`) are regenerated from `barter/src/statistic/summary/{pnl,instrument}.rs` (and
`position.rs`, `lib.rs`, `metric/drawdown/*.rs`) by `tools/rust2lean_sm.py` (group `pnl_returns`, file
`Generated/Machines2.lean`) on every run of `./check C16`. Two families of theorems, both for ALL
generator states, ALL exited positions and ALL key types `AssetKey`, `InstrumentKey`:

**A. The C16 model (`Model/TearSheet.lean`)** keeps of a `PositionExited` the three fields
`PnLReturns::update` reads (`Closed`), of a `DataSetSummary` only `count` and `sum`, and of the
generator only `pnl_returns`. The maps `ofClosed`, `ofDS`, `ofPnL`, `ofTSG` are these projections
(surjections; sections `toDS`, `toPnL`, `toTSG`), and the generated step functions commute with the
model's through them. Because the projection forgets mean / dispersion, these clauses hold for
EVERY `sqrt` parameter (no contract needed: the `expect` of `Dispersion::update` lands in `std_dev`).

**B. The complete model (`Model/Metrics.lean`, sub-check C16M: `Metrics.Gen`)** carries the clock,
`pnl_raw`, both full `DataSetSummary`s (C17 model) and the three drawdown generators (C18 model).
`ofFull` / `toFull` is a bijection of the generated `TearSheetGenerator` with `Metrics.Gen` (composed
from the bijections of `KernelsAgree/DataSetSM.lean` and `KernelsAgree/Drawdown.lean`), and `init` /
`update_from_position` agree for every `sqrt` honouring its contract (`DataSetSM.SqrtTotal`).

`generate` is not translated here (it calls the metric code; see `Props/C16M.lean`).
-/
namespace BarterModel.KernelsAgree.PnLReturnsSM
open BarterModel

namespace G
abbrev PositionExited := Generated.Machines.PositionExited
abbrev DataSetSummary := Generated.Machines.DataSetSummary
abbrev PnLReturns := Generated.Machines.PnLReturns
abbrev TearSheetGenerator := Generated.Machines.TearSheetGenerator
end G

variable {A I : Type} [DecidableEq A] [DecidableEq I]

/-! ## A. Projections onto the C16 model -/

/-- the three fields of `PositionExited` that `PnLReturns::update` reads. -/
def ofClosed (p : G.PositionExited A I) : TearSheet.Closed :=
  ⟨p.pnl_realised, p.price_entry_average, p.quantity_abs_max⟩

def ofDS (s : G.DataSetSummary) : TearSheet.DataSetSummary := ⟨s.count, s.sum⟩
def toDS (s : TearSheet.DataSetSummary) : G.DataSetSummary :=
  ⟨s.count, s.sum, 0, Generated.Machines.Dispersion.default⟩
theorem ofDS_toDS (s : TearSheet.DataSetSummary) : ofDS (toDS s) = s := rfl

def ofPnL (s : G.PnLReturns) : TearSheet.PnLReturns := ⟨s.pnl_raw, ofDS s.total, ofDS s.losses⟩
def toPnL (s : TearSheet.PnLReturns) : G.PnLReturns := ⟨s.pnlRaw, toDS s.total, toDS s.losses⟩
theorem ofPnL_toPnL (s : TearSheet.PnLReturns) : ofPnL (toPnL s) = s := rfl

def ofTSG (g : G.TearSheetGenerator) : TearSheet.TearSheetGenerator := ⟨ofPnL g.pnl_returns⟩
def toTSG (g : TearSheet.TearSheetGenerator) : G.TearSheetGenerator :=
  { Generated.Machines.TearSheetGenerator.init 0 with pnl_returns := toPnL g.pnlReturns }
theorem ofTSG_toTSG (g : TearSheet.TearSheetGenerator) : ofTSG (toTSG g) = g := rfl

/-! ### Shape-independent proofs

Every proof of this file unfolds *everything generated for the group* (`gen_pnl_returns`: the listed functions, the
derived `Default`s / constructor and whatever auxiliary functions the translator found by lookup, under whatever names)
together with the model's definitions and the record maps, and lets `grind` decide what is left (the sign test of the
return, constructors). The functions of the groups `dataset` (`DataSetSummary::update`) and `drawdown` (the three
generators) are NOT unfolded: they are rewritten by / generalised through the agreement theorems of
`KernelsAgree/DataSetSM.lean` and `KernelsAgree/Drawdown.lean`. Nothing depends on the names of helper functions or on
how the source spells a decision (`if let` or `let .. else { return }`, hoisted locals, reordered independent
assignments). -/

open Lean.Parser.Tactic in
/-- everything generated for the group and the C16 model's definitions (projection maps `ofDS` stay folded) -/
local macro "unfold_pnl" loc:(location)? : tactic => `(tactic|
  simp only [gen_pnl_returns, TearSheet.calculatePnlReturn, TearSheet.PnLReturns.update, TearSheet.PnLReturns.default,
    TearSheet.TearSheetGenerator.init, TearSheet.TearSheetGenerator.updateFromPosition, TearSheet.DataSetSummary.default,
    ofClosed, ofPnL, ofTSG] $[$loc]?)

theorem calculate_pnl_return_agrees (pnlRealised priceEntryAverage quantityAbsMax : Rat) :
    Generated.Machines.calculate_pnl_return pnlRealised priceEntryAverage quantityAbsMax
      = TearSheet.calculatePnlReturn pnlRealised priceEntryAverage quantityAbsMax := by
  first | rfl | (unfold_pnl; done) | (unfold_pnl; grind)

/-- `count += 1; sum += x` of `DataSetSummary::update`, whatever `sqrt` does (group `dataset`, unfolded here). -/
theorem ds_update_proj (sqrt : Rat → Option Rat) (s : G.DataSetSummary) (x : Rat) :
    ofDS (Generated.Machines.DataSetSummary.update sqrt s x) = (ofDS s).update x := by
  rcases s with ⟨c, sm, mn, d⟩
  first
  | rfl
  | (simp only [gen_dataset, ofDS, TearSheet.DataSetSummary.update]; done)
  | (simp only [gen_dataset, ofDS, TearSheet.DataSetSummary.update]; grind)

theorem pnl_default_proj : ofPnL Generated.Machines.PnLReturns.default = TearSheet.PnLReturns.default := by
  first | rfl | (unfold_pnl; simp only [gen_dataset, ofDS]; done) | (unfold_pnl; simp only [gen_dataset, ofDS]; grind)

/-- `PnLReturns::update` commutes with the projections, for every `sqrt`. -/
theorem pnl_update_proj (sqrt : Rat → Option Rat) (s : G.PnLReturns) (p : G.PositionExited A I) :
    ofPnL (Generated.Machines.PnLReturns.update sqrt s p) = (ofPnL s).update (ofClosed p) := by
  rcases s with ⟨pr, tot, los⟩
  unfold_pnl
  grind [ds_update_proj]

theorem tsg_init_proj (t : Int) :
    ofTSG (Generated.Machines.TearSheetGenerator.init t) = TearSheet.TearSheetGenerator.init := by
  first | rfl | (unfold_pnl; simp only [gen_dataset, ofDS]; done) | (unfold_pnl; simp only [gen_dataset, ofDS]; grind)

/-- `TearSheetGenerator::update_from_position` commutes with the projections, for every `sqrt`. -/
theorem tsg_update_proj (sqrt : Rat → Option Rat) (g : G.TearSheetGenerator) (p : G.PositionExited A I) :
    ofTSG (Generated.Machines.TearSheetGenerator.update_from_position sqrt g p)
      = (ofTSG g).updateFromPosition (ofClosed p) := by
  rcases g with ⟨ts, tn, ⟨pr, tot, los⟩, dg, dmean, dmax⟩
  unfold_pnl
  -- the drawdown generators (group `drawdown`, not unfolded) do not touch `pnl_returns`, whatever they return
  generalize Generated.Machines.DrawdownGenerator.update _ _ = r
  rcases r with ⟨g', _ | d⟩ <;> grind [ds_update_proj]

/-! ## B. Bijection with the complete generator model `Metrics.Gen` -/

open DataSetSM (SqrtTotal fnOf ofSum toSum)
open BarterModel.KernelsAgree.Drawdown (ofGen toGen ofMeanGen toMeanGen ofMaxGen toMaxGen toTimed ofDd toDd)

def ofExit (p : G.PositionExited A I) : Metrics.Exit := ⟨p.time_exit, ofClosed p⟩

def ofFull (g : G.TearSheetGenerator) : Metrics.Gen :=
  ⟨g.time_engine_start, g.time_engine_now, g.pnl_returns.pnl_raw, ofSum g.pnl_returns.total,
    ofSum g.pnl_returns.losses,
    ⟨ofGen g.pnl_drawdown, ofMeanGen g.pnl_drawdown_mean, ofMaxGen g.pnl_drawdown_max⟩⟩
def toFull (g : Metrics.Gen) : G.TearSheetGenerator :=
  ⟨g.timeEngineStart, g.timeEngineNow, ⟨g.pnlRaw, toSum g.total, toSum g.losses⟩,
    toGen g.sheet.gen, toMeanGen g.sheet.mean, toMaxGen g.sheet.max⟩
theorem ofFull_toFull (g : Metrics.Gen) : ofFull (toFull g) = g := by
  rcases g with ⟨a, b, c, d, e, ⟨f, h, i⟩⟩
  simp [ofFull, toFull, DataSetSM.ofSum_toSum, Drawdown.ofGen_toGen, Drawdown.ofMeanGen_toMeanGen,
    Drawdown.ofMaxGen_toMaxGen]
theorem toFull_ofFull (g : G.TearSheetGenerator) : toFull (ofFull g) = g := by
  rcases g with ⟨a, b, ⟨c, d, e⟩, f, h, i⟩
  simp [ofFull, toFull, DataSetSM.toSum_ofSum, Drawdown.toGen_ofGen, Drawdown.toMeanGen_ofMeanGen,
    Drawdown.toMaxGen_ofMaxGen]

open Lean.Parser.Tactic in
/-- everything generated for the group, the complete model's definitions and the record maps; the model's drawdown and
dataset steps are rewritten into the generated functions of their groups (which stay folded) -/
local macro "unfold_full" loc:(location)? : tactic => `(tactic|
  simp only [gen_pnl_returns, TearSheet.calculatePnlReturn, Metrics.Gen.init, Metrics.Gen.updateFromPosition,
    BarterModel.Drawdown.Sheet.update, BarterModel.Drawdown.Sheet.default, ofFull, ofExit, ofClosed,
    KernelsAgree.Drawdown.update_agrees, KernelsAgree.Drawdown.mean_update_agrees, KernelsAgree.Drawdown.max_update_agrees,
    KernelsAgree.Drawdown.toGen_ofGen, KernelsAgree.Drawdown.toMeanGen_ofMeanGen, KernelsAgree.Drawdown.toMaxGen_ofMaxGen,
    KernelsAgree.Drawdown.toDd_ofDd, KernelsAgree.Drawdown.toTimed] $[$loc]?)

theorem full_init_agrees (t : Int) :
    ofFull (Generated.Machines.TearSheetGenerator.init t) = Metrics.Gen.init t := by
  first
  | rfl
  | (unfold_full; simp only [gen_dataset, gen_drawdown, DataSetSM.summary_default_agrees]; rfl)

/-- `DataSetSummary::update` on an arbitrary GENERATED summary (from `DataSetSM.summary_update_agrees`). -/
theorem sum_update (sqrt : Rat → Option Rat) (hs : SqrtTotal sqrt) (s : G.DataSetSummary) (x : Rat) :
    ofSum (Generated.Machines.DataSetSummary.update sqrt s x) = (ofSum s).update (fnOf sqrt) x := by
  have := DataSetSM.summary_update_agrees sqrt hs (ofSum s) x
  rwa [DataSetSM.toSum_ofSum] at this

/-- `PnLReturns::update`, all three fields, on an arbitrary generated state. -/
theorem pnl_update_full (sqrt : Rat → Option Rat) (hs : SqrtTotal sqrt) (s : G.PnLReturns)
    (p : G.PositionExited A I) :
    (Generated.Machines.PnLReturns.update sqrt s p).pnl_raw = s.pnl_raw + p.pnl_realised
    ∧ ofSum (Generated.Machines.PnLReturns.update sqrt s p).total
        = (ofSum s.total).update (fnOf sqrt)
            (TearSheet.calculatePnlReturn p.pnl_realised p.price_entry_average p.quantity_abs_max)
    ∧ ofSum (Generated.Machines.PnLReturns.update sqrt s p).losses
        = if TearSheet.calculatePnlReturn p.pnl_realised p.price_entry_average p.quantity_abs_max < 0 then
            (ofSum s.losses).update (fnOf sqrt)
              (TearSheet.calculatePnlReturn p.pnl_realised p.price_entry_average p.quantity_abs_max)
          else ofSum s.losses := by
  have hsum := sum_update sqrt hs
  rcases s with ⟨pr, tot, los⟩
  unfold_full
  grind

/-- `TearSheetGenerator::update_from_position` is `Metrics.Gen.updateFromPosition`, all fields (clock,
`pnl_raw`, both summaries, all three drawdown generators). -/
theorem full_update_agrees (sqrt : Rat → Option Rat) (hs : SqrtTotal sqrt) (g : G.TearSheetGenerator)
    (p : G.PositionExited A I) :
    ofFull (Generated.Machines.TearSheetGenerator.update_from_position sqrt g p)
      = (ofFull g).updateFromPosition (fnOf sqrt) (ofExit p) := by
  have hsum := sum_update sqrt hs
  rcases g with ⟨ts, tn, ⟨pr, tot, los⟩, dg, dmean, dmax⟩
  unfold_full
  -- decide the sign test of the return first (DATA): afterwards both sides speak about the same call of the generated
  -- `DrawdownGenerator::update` (group `drawdown`, not unfolded), whose result is generalised
  by_cases hc : TearSheet.calculatePnlReturn p.pnl_realised p.price_entry_average p.quantity_abs_max < 0 <;>
    simp only [TearSheet.calculatePnlReturn] at hc <;>
    (try simp only [hc, if_true, if_false, ite_not, not_true_eq_false, not_false_eq_true, ite_self,
      apply_ite Generated.Machines.PnLReturns.pnl_raw, apply_ite Generated.Machines.PnLReturns.total,
      apply_ite Generated.Machines.PnLReturns.losses]) <;>
    generalize Generated.Machines.DrawdownGenerator.update _ _ = r <;>
    rcases r with ⟨g', _ | d⟩ <;> grind [KernelsAgree.Drawdown.toDd_ofDd]

/-- Everything `./check C16` re-proves against the current source, at once. -/
theorem pnl_returns_sm_agree :
    (∀ s : TearSheet.DataSetSummary, ofDS (toDS s) = s)
    ∧ (∀ s : TearSheet.PnLReturns, ofPnL (toPnL s) = s)
    ∧ (∀ g : TearSheet.TearSheetGenerator, ofTSG (toTSG g) = g)
    ∧ (∀ a b c : Rat, Generated.Machines.calculate_pnl_return a b c = TearSheet.calculatePnlReturn a b c)
    ∧ (∀ (sqrt : Rat → Option Rat) (s : G.DataSetSummary) (x : Rat),
        ofDS (Generated.Machines.DataSetSummary.update sqrt s x) = (ofDS s).update x)
    ∧ ofPnL Generated.Machines.PnLReturns.default = TearSheet.PnLReturns.default
    ∧ (∀ (A I : Type) [DecidableEq A] [DecidableEq I] (sqrt : Rat → Option Rat) (s : G.PnLReturns)
        (p : G.PositionExited A I),
        ofPnL (Generated.Machines.PnLReturns.update sqrt s p) = (ofPnL s).update (ofClosed p))
    ∧ (∀ t : Int, ofTSG (Generated.Machines.TearSheetGenerator.init t) = TearSheet.TearSheetGenerator.init)
    ∧ (∀ (A I : Type) [DecidableEq A] [DecidableEq I] (sqrt : Rat → Option Rat) (g : G.TearSheetGenerator)
        (p : G.PositionExited A I),
        ofTSG (Generated.Machines.TearSheetGenerator.update_from_position sqrt g p)
          = (ofTSG g).updateFromPosition (ofClosed p))
    ∧ (∀ g : Metrics.Gen, ofFull (toFull g) = g) ∧ (∀ g : G.TearSheetGenerator, toFull (ofFull g) = g)
    ∧ (∀ t : Int, ofFull (Generated.Machines.TearSheetGenerator.init t) = Metrics.Gen.init t)
    ∧ (∀ (A I : Type) [DecidableEq A] [DecidableEq I] (sqrt : Rat → Option Rat), SqrtTotal sqrt →
        ∀ (g : G.TearSheetGenerator) (p : G.PositionExited A I),
        ofFull (Generated.Machines.TearSheetGenerator.update_from_position sqrt g p)
          = (ofFull g).updateFromPosition (fnOf sqrt) (ofExit p)) :=
  ⟨ofDS_toDS, ofPnL_toPnL, ofTSG_toTSG, calculate_pnl_return_agrees, ds_update_proj, pnl_default_proj,
    fun _ _ _ _ => pnl_update_proj, tsg_init_proj, fun _ _ _ _ => tsg_update_proj, ofFull_toFull,
    toFull_ofFull, full_init_agrees, fun _ _ _ _ => full_update_agrees⟩

end BarterModel.KernelsAgree.PnLReturnsSM
