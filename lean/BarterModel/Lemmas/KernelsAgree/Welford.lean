import BarterModel.Generated.Kernels
import BarterModel.Model.DataSet
import BarterModel.Model.Drawdown
/-!
# Agreement: `welford_online` kernels (barter/src/statistic/algorithm.rs)

`BarterModel.Generated.welford_online.*` is regenerated from the Rust source by `tools/rust2lean.py` on
every run of the checks that list it in `PREBUILD`; the theorems below state that the generated
definitions are, for ALL arguments, the hand-written model definitions the property theorems are
about (`Model/DataSet.lean` for C17, `Model/Drawdown.lean` for the mean of C18). A change of one of
these kernels in the source makes the corresponding theorem fail to build.
-/
namespace BarterModel.KernelsAgree
open BarterModel

/-- Shape-independent: unfold *everything generated for the group* (`gen_welford`: the listed kernels and whatever
auxiliary functions the translator found by lookup, under whatever names) and the model's definitions, then let
`grind` decide (field arithmetic, the comparison with the guard constant). Nothing depends on whether the source
writes `match` on a bool, `if`/`else` or an early `return`, `x += e` or a fresh local, hoisted or renamed `let`s. -/
local macro "welford_agree" : tactic => `(tactic|
  first
  | rfl
  | (simp only [gen_welford, DataSet.calculateMean, DataSet.calculateRecurrenceRelationM,
      DataSet.calculatePopulationVariance, Drawdown.welfordMean]; done)
  | (simp only [gen_welford, DataSet.calculateMean, DataSet.calculateRecurrenceRelationM,
      DataSet.calculatePopulationVariance, Drawdown.welfordMean]; grind))

/-- `welford_online::calculate_mean` (source) = `DataSet.calculateMean` (model), no guard. -/
theorem calculate_mean_agrees (prevMean nextValue count : Rat) :
    Generated.welford_online.calculate_mean prevMean nextValue count
      = DataSet.calculateMean prevMean nextValue count := by welford_agree

/-- the same kernel is `Drawdown.welfordMean`, the mean-drawdown recurrence of C18. -/
theorem calculate_mean_agrees_drawdown (prev next count : Rat) :
    Generated.welford_online.calculate_mean prev next count = Drawdown.welfordMean prev next count := by welford_agree

/-- `welford_online::calculate_recurrence_relation_m` = `DataSet.calculateRecurrenceRelationM`. -/
theorem calculate_recurrence_relation_m_agrees (prevM prevMean newValue newMean : Rat) :
    Generated.welford_online.calculate_recurrence_relation_m prevM prevMean newValue newMean
      = DataSet.calculateRecurrenceRelationM prevM prevMean newValue newMean := by welford_agree

/-- `welford_online::calculate_population_variance` = `DataSet.calculatePopulationVariance`. -/
theorem calculate_population_variance_agrees (m count : Rat) :
    Generated.welford_online.calculate_population_variance m count
      = DataSet.calculatePopulationVariance m count := by welford_agree

/-- `welford_online::calculate_sample_variance` has no caller in the crate and no model definition;
its closed form is pinned here (Bessel's correction, `0` below two values) so that a change of it
is at least noticed. No property theorem depends on it. -/
theorem calculate_sample_variance_form (m count : Rat) :
    Generated.welford_online.calculate_sample_variance m count
      = if count < 2 then 0 else m / (count - 1) := by welford_agree

/-- All kernels `DataSetSummary::update` / `Dispersion::update` are built from, at once. -/
theorem welford_kernels_agree :
    (∀ a b c : Rat, Generated.welford_online.calculate_mean a b c = DataSet.calculateMean a b c)
    ∧ (∀ a b c d : Rat, Generated.welford_online.calculate_recurrence_relation_m a b c d
        = DataSet.calculateRecurrenceRelationM a b c d)
    ∧ (∀ a b : Rat, Generated.welford_online.calculate_population_variance a b
        = DataSet.calculatePopulationVariance a b) :=
  ⟨calculate_mean_agrees, calculate_recurrence_relation_m_agrees,
    calculate_population_variance_agrees⟩

end BarterModel.KernelsAgree
