import BarterModel.Generated.Kernels
import BarterModel.Model.Position
/-!
# Agreement: position kernels (barter/src/engine/state/position.rs)

Generated definitions (from the current Rust source) = hand-written model definitions of
`Model/Position.lean`, for ALL arguments. The generated file has its own `Side` (translated from
`enum Side` of barter-instrument/src/lib.rs); `sideOf` is the evident bijection with the model's.
-/
namespace BarterModel.KernelsAgree
open BarterModel

/-- model `Side` ↦ generated `Side` (translated from the source's `enum Side { Buy, Sell }`). -/
def sideOf : Position.Side → Generated.Side
  | .buy => .Buy
  | .sell => .Sell

/-- generated `Side` ↦ model `Side`. -/
def sideTo : Generated.Side → Position.Side
  | .Buy => .buy
  | .Sell => .sell

/-- `sideOf` / `sideTo` are inverse bijections: the two enumerations have the same variants. -/
theorem side_bijection : (∀ s, sideTo (sideOf s) = s) ∧ (∀ s, sideOf (sideTo s) = s) :=
  ⟨fun s => by cases s <;> rfl, fun s => by cases s <;> rfl⟩

/-- `Decimal::abs` of the translator's prelude = the model's `Position.abs`. -/
theorem abs_agrees (x : Rat) : Generated.Decimal.abs x = Position.abs x := by
  unfold Generated.Decimal.abs Position.abs
  by_cases h : x < 0
  · have : ¬ (0 ≤ x) := by grind
    simp [h, this]
  · have : 0 ≤ x := by grind
    simp [h, this]

/-- Shape-independent: unfold *everything generated for the group* (`gen_position`: the listed kernels and whatever
auxiliary functions the translator found by lookup, under whatever names), the model's definitions and `sideOf`, then
let `grind` decide (field arithmetic, the zero tests, the sign of `abs`). Nothing depends on whether the source writes an
early `return` or `if`/`else`, in which order the disjoint `Side` arms come, or which `let`s are hoisted / renamed. -/
local macro "position_agree" : tactic => `(tactic|
  first
  | rfl
  | (simp only [gen_position, sideOf, Position.calculatePriceEntryAverage, Position.approximateRemainingExitFees,
      Position.calculatePnlUnrealised, Position.calculatePnlRealised, abs_agrees]; done)
  | (simp only [gen_position, sideOf, Position.calculatePriceEntryAverage, Position.approximateRemainingExitFees,
      Position.calculatePnlUnrealised, Position.calculatePnlRealised, abs_agrees]; grind))

/-- `calculate_price_entry_average` (source) = `Position.calculatePriceEntryAverage` (model). -/
theorem calculate_price_entry_average_agrees (currentAvg currentQtyAbs tradePrice tradeQtyAbs : Rat) :
    Generated.calculate_price_entry_average currentAvg currentQtyAbs tradePrice tradeQtyAbs
      = Position.calculatePriceEntryAverage currentAvg currentQtyAbs tradePrice tradeQtyAbs := by position_agree

/-- `approximate_remaining_exit_fees` = `Position.approximateRemainingExitFees`. -/
theorem approximate_remaining_exit_fees_agrees (quantityAbs quantityAbsMax feesEnter : Rat) :
    Generated.approximate_remaining_exit_fees quantityAbs quantityAbsMax feesEnter
      = Position.approximateRemainingExitFees quantityAbs quantityAbsMax feesEnter := by position_agree

/-- `calculate_pnl_unrealised` = `Position.calculatePnlUnrealised` (both sides). -/
theorem calculate_pnl_unrealised_agrees (side : Position.Side)
    (priceEntryAverage quantityAbs quantityAbsMax feesEnter price : Rat) :
    Generated.calculate_pnl_unrealised (sideOf side) priceEntryAverage quantityAbs quantityAbsMax
        feesEnter price
      = Position.calculatePnlUnrealised side priceEntryAverage quantityAbs quantityAbsMax feesEnter
          price := by
  cases side <;> position_agree

/-- `calculate_pnl_realised` = `Position.calculatePnlRealised` (both sides, any sign of the closed
quantity). -/
theorem calculate_pnl_realised_agrees (side : Position.Side)
    (priceEntryAverage closedQuantity closedPrice closedFee : Rat) :
    Generated.calculate_pnl_realised (sideOf side) priceEntryAverage closedQuantity closedPrice
        closedFee
      = Position.calculatePnlRealised side priceEntryAverage closedQuantity closedPrice closedFee := by
  cases side <;> position_agree

/-- All position kernels at once (what `Position::update_from_trade` and
`Position::update_pnl_unrealised` are built from). -/
theorem position_kernels_agree :
    (∀ a b c d : Rat, Generated.calculate_price_entry_average a b c d
        = Position.calculatePriceEntryAverage a b c d)
    ∧ (∀ a b c : Rat, Generated.approximate_remaining_exit_fees a b c
        = Position.approximateRemainingExitFees a b c)
    ∧ (∀ (s : Position.Side) (a b c d e : Rat), Generated.calculate_pnl_unrealised (sideOf s) a b c d e
        = Position.calculatePnlUnrealised s a b c d e)
    ∧ (∀ (s : Position.Side) (a b c d : Rat), Generated.calculate_pnl_realised (sideOf s) a b c d
        = Position.calculatePnlRealised s a b c d)
    ∧ (∀ s, sideTo (sideOf s) = s) ∧ (∀ s, sideOf (sideTo s) = s) :=
  ⟨calculate_price_entry_average_agrees, approximate_remaining_exit_fees_agrees,
    calculate_pnl_unrealised_agrees, calculate_pnl_realised_agrees, side_bijection.1, side_bijection.2⟩

end BarterModel.KernelsAgree
