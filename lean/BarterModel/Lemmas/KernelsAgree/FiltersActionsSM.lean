import BarterModel.Generated.Machines4
import BarterModel.Model.Engine
import BarterModel.Lemmas.KernelsAgree.IterVocab
import BarterModel.Lemmas.KernelsAgree.OrdersSM
/-!
# Agreement: instrument filters and the request generators of `cancel_orders` / `close_positions` (C19)

`BarterModel.Generated.Machines.{InstrumentFilter (+ exchanges / instruments / underlyings), InstrumentStates.filtered,
instruments, orders, positions, tear_sheets, instrument_datas, Orders.orders, Order.to_request_cancel,
build_ioc_market_order_to_close_position, close_open_positions_with_market_orders}` with `InstrumentState`,
`InstrumentStates`, `EngineState` (restricted to `instruments`, as `EngineStateI`) and the trait `InstrumentDataState` (a
record) are regenerated from `barter/src/engine/state/instrument/{filter,mod}.rs`, `barter/src/engine/state/order/mod.rs`,
`barter-execution/src/order/mod.rs`, `barter/src/strategy/close_positions.rs` by `tools/rust2lean_sm.py` (group
`filters_actions`, file `Generated/Machines4.lean`) on every run of `./check C19`. The `IndexMap` of instrument states is
iterated in insertion order (`values()` = the list of its values), `itertools::Either` is transparent, `OneOrMany::contains`
is the fixed vocabulary of the prelude; the order table is a `FnvHashMap`: `Orders::orders()` is a `Rust.Bag` and stays one
under `filter_map` — the ORDER in which `cancel_orders` meets the orders of one instrument is hash order and is NOT
modelled (the model sorts by client order id, the harness canonicalises likewise): the agreement for the cancel requests
of one instrument is therefore stated up to PERMUTATION.

## Correspondence relation

An instrument state is read through `ofState price` (the model's `Instr`: exchange / base / quote as the numbers of the
index newtypes, the order table through `ofOrdersX` = `OrdersSM.ofOrder` with the exchange key read as its number, the
position as `(side, quantity_abs)`, the price through the parameter `price : InstrumentData → Option Rat` = the
`InstrumentDataState::price` of the data type, a trait method and hence a parameter); a filter through `ofFilter`
(`OneOrMany` as the list of its items); requests through `ofCancelReq` / `ofOpenReq` (the strategy id, the kind
`Market` and the time in force `ImmediateOrCancel` are dropped: the model's requests do not carry them; `open_request_shape`
states them separately).

* `filter_matches` — no hypothesis: the predicate the generated `filtered` applies to a state is the model's
  `Filter.matches` at the index `state.key`.
* `filtered_agrees` — under `KeysArePositions` (the `i`-th state of the `IndexMap` has `key = InstrumentIndex(i)`: how
  `generate_indexed_instrument_states` builds it; the model identifies an instrument with its position): the generated
  `filtered` / `instruments` are exactly the states the model's `zipIdx.filter (matches ..)` keeps, in the same order;
  `orders` / `positions` / `tear_sheets` / `instrument_datas` are projections of it (`projections_agree`).
* `to_request_cancel_agrees` — no hypothesis: per tracked order the generated `to_request_cancel` is the model's
  `toRequestCancel` at the order's OWN instrument key and client order id.
* `cancel_requests_perm` — for one instrument state whose table is `OrderKeysConsistent` (every order is stored under its
  own client order id and names the instrument it sits in: what `record_in_flight_*` / `update_from_order_snapshot`
  establish): the `Rust.Bag` `orders().filter_map(to_request_cancel)` is a PERMUTATION of the model's
  `(sortByCid ..).filterMap (toRequestCancel idx)`.
* `build_ioc_agrees` (no hypothesis) and `close_requests_agree` — under `KeysArePositions`, `PositionKeysConsistent` (a
  tracked position names the instrument it sits in) and the instantiation of the injected generator `gen_cid` with the
  model's `closeCid`: `close_open_positions_with_market_orders` returns no cancel requests and exactly the model's
  `closeRequests`, in order.

The three consistency hypotheses are invariants of REACHABLE engine states that the model bakes into its
representation (it has no field for a state's key, a position's instrument or an order's own cid / instrument); they
are not preconditions of the functions. Off them code and model differ by construction (e.g. a state whose `key` is not
its position is matched by `InstrumentFilter::Instruments` under its key, by the model under its position): no such
state can be produced through the public API of `EngineState`.

NOT translated (rejected by the translator, by design): `CancelOrders::cancel_orders` itself — it hands the hash-ordered
`flat_map(.. orders().filter_map ..)` on to `send_requests(impl IntoIterator)`, an ORDERED consumer —, `ClosePositions::
close_positions` / `Engine::action` (the `&mut` plumbing through three user traits), `filtered_mut` and the `_mut`
accessors (`values_mut()` behind `Either`).
-/
namespace BarterModel.KernelsAgree.FiltersActionsSM
open BarterModel BarterModel.Engine BarterModel.Orders BarterModel.KernelsAgree.IterVocab
open BarterModel.Generated.Machines (Rust.Map Rust.IndexMap Rust.OneOrMany Rust.Bag)

namespace G
abbrev XIdx := Generated.Machines.ExchangeIndex
abbrev AIdx := Generated.Machines.AssetIndex
abbrev IIdx := Generated.Machines.InstrumentIndex
abbrev Filter := Generated.Machines.InstrumentFilter XIdx AIdx IIdx
abbrev State (D : Type) := Generated.Machines.InstrumentState D XIdx AIdx IIdx
abbrev States (D : Type) := Generated.Machines.InstrumentStates D XIdx AIdx IIdx
abbrev Order := Generated.Machines.Order XIdx IIdx Generated.Machines.ActiveOrderState
abbrev Orders := Generated.Machines.Orders XIdx IIdx
abbrev CancelReq := Generated.Machines.OrderEvent Generated.Machines.RequestCancel XIdx IIdx
abbrev OpenReq := Generated.Machines.OrderEvent Generated.Machines.RequestOpen XIdx IIdx
abbrev Position := Generated.Machines.Position Generated.Machines.QuoteAsset IIdx
end G

set_option linter.unusedSectionVars false
variable {D : Type} [DecidableEq D]

/-! ## Abstraction -/

def ofSide : Generated.Machines.Side → Side
  | .Buy => .buy
  | .Sell => .sell

def ofFilter : G.Filter → Filter
  | .None => .none
  | .Exchanges c => .exchanges (c.to_list.map (·.f0))
  | .Instruments c => .instruments (c.to_list.map (·.f0))
  | .Underlyings c => .underlyings (c.to_list.map fun u => (u.base.f0, u.quote.f0))

def ofOrderX (o : G.Order) : Order := ⟨o.quantity, o.price, OrdersSM.ofActive o.state, o.key.exchange.f0⟩
def ofOrdersX (s : G.Orders) : Orders := s.f0.map fun kv => (kv.1, ofOrderX kv.2)

def ofState (price : D → Option Rat) (s : G.State D) : Instr :=
  ⟨s.instrument.exchange.f0, s.instrument.underlying.base.f0, s.instrument.underlying.quote.f0, ofOrdersX s.orders,
    s.position.current.map (fun p => (ofSide p.side, p.quantity_abs)), price s.data⟩

def ofCancelReq (r : G.CancelReq) : CancelReq := ⟨⟨r.key.exchange.f0, r.key.instrument.f0, r.key.cid⟩, r.state.id⟩
def ofOpenReq (r : G.OpenReq) : OpenReq :=
  ⟨⟨r.key.exchange.f0, r.key.instrument.f0, r.key.cid⟩, ofSide r.state.side, r.state.price, r.state.quantity⟩

/-- the states in map order -/
def statesOf (m : G.States D) : List (G.State D) := m.f0.map (·.2)

/-- the `i`-th instrument state has `key = InstrumentIndex(i)` -/
def KeysArePositions (m : G.States D) : Prop := (statesOf m).map (·.key.f0) = List.range (statesOf m).length

/-- a tracked position names the instrument it sits in -/
def PositionKeysConsistent (m : G.States D) : Prop :=
  ∀ s ∈ statesOf m, ∀ p, s.position.current = some p → p.instrument = s.key

/-- every order of the table is stored under its own client order id and names the instrument `k` -/
def OrderKeysConsistent (k : G.IIdx) (os : G.Orders) : Prop :=
  ∀ kv ∈ os.f0, kv.2.key.cid = kv.1 ∧ kv.2.key.instrument = k

/-! ## `OneOrMany::contains` and the filter predicate -/

theorem contains_map {T : Type} [DecidableEq T] (f : T → Nat) (hf : Function.Injective f) (c : Rust.OneOrMany T) (x : T) :
    Rust.OneOrMany.contains c x = (c.to_list.map f).contains (f x) := by
  cases c with
  | One v =>
    by_cases h : v = x
    · simp [Generated.Machines.Rust.OneOrMany.contains, Generated.Machines.Rust.OneOrMany.to_list, h]
    · have : ¬ f x = f v := fun e => h (hf e).symm
      simp [Generated.Machines.Rust.OneOrMany.contains, Generated.Machines.Rust.OneOrMany.to_list, h, this]
  | Many vs =>
    simp only [Generated.Machines.Rust.OneOrMany.contains, Generated.Machines.Rust.OneOrMany.to_list]
    induction vs with
    | nil => simp
    | cons a rest ih =>
      by_cases h : x = a
      · simp [h]
      · have : ¬ f x = f a := fun e => h (hf e)
        simp [h, this] at ih ⊢
        exact ih

theorem f0_injX : Function.Injective (fun a : G.XIdx => a.f0) := by
  intro a b h; cases a; cases b; simpa using h
theorem f0_injI : Function.Injective (fun a : G.IIdx => a.f0) := by
  intro a b h; cases a; cases b; simpa using h
/-- the predicate of the generated `filtered` (one `contains` per variant) -/
def matchesG (f : G.Filter) (s : G.State D) : Bool :=
  match f with
  | .None => true
  | .Exchanges c => Rust.OneOrMany.contains c s.instrument.exchange
  | .Instruments c => Rust.OneOrMany.contains c s.key
  | .Underlyings c => Rust.OneOrMany.contains c s.instrument.underlying

theorem contains_underlying (c : Rust.OneOrMany (Generated.Machines.Underlying G.AIdx))
    (u : Generated.Machines.Underlying G.AIdx) :
    Rust.OneOrMany.contains c u = (c.to_list.map fun u => (u.base.f0, u.quote.f0)).contains (u.base.f0, u.quote.f0) := by
  have hinj : Function.Injective (fun u : Generated.Machines.Underlying G.AIdx => (u.base.f0, u.quote.f0)) := by
    intro a b h
    rcases a with ⟨⟨a1⟩, ⟨a2⟩⟩; rcases b with ⟨⟨b1⟩, ⟨b2⟩⟩
    simp at h; simp [h]
  cases c with
  | One v =>
    by_cases h : v = u
    · simp [Generated.Machines.Rust.OneOrMany.contains, Generated.Machines.Rust.OneOrMany.to_list, h]
    · have : ¬ (u.base.f0, u.quote.f0) = (v.base.f0, v.quote.f0) := fun e => h (hinj e).symm
      simp only [Generated.Machines.Rust.OneOrMany.contains, Generated.Machines.Rust.OneOrMany.to_list, h,
        decide_false, List.map_cons, List.map_nil, List.contains_cons, List.contains_nil, Bool.or_false]
      simpa using this
  | Many vs =>
    simp only [Generated.Machines.Rust.OneOrMany.contains, Generated.Machines.Rust.OneOrMany.to_list]
    induction vs with
    | nil => simp
    | cons a rest ih =>
      by_cases h : u = a
      · simp [h]
      · have : ¬ (u.base.f0, u.quote.f0) = (a.base.f0, a.quote.f0) := fun e => h (hinj e)
        simp only [List.elem_cons, List.map_cons] at ih ⊢
        have h1 : (u == a) = false := by simpa using h
        have h2 : ((u.base.f0, u.quote.f0) == (a.base.f0, a.quote.f0)) = false := by simpa using this
        rw [h1, h2]; simpa using ih

/-- the generated predicate is the model's `Filter.matches` at the index `state.key` (no hypothesis) -/
theorem filter_matches (price : D → Option Rat) (f : G.Filter) (s : G.State D) :
    matchesG f s = (ofFilter f).matches s.key.f0 (ofState price s) := by
  cases f with
  | None => rfl
  | Exchanges c => simpa [matchesG, ofFilter, Filter.matches, ofState] using contains_map (·.f0) f0_injX c _
  | Instruments c => simpa [matchesG, ofFilter, Filter.matches, ofState] using contains_map (·.f0) f0_injI c _
  | Underlyings c => simpa [matchesG, ofFilter, Filter.matches, ofState] using contains_underlying c _

/-! ## `filtered` -/

theorem filtered_eq (m : G.States D) (f : G.Filter) :
    Generated.Machines.InstrumentStates.filtered m f = (statesOf m).filter (matchesG f) := by
  rcases m with ⟨l⟩
  cases f <;> simp only [gen_filters_actions, statesOf, Generated.Machines.Rust.IndexMap.values] <;>
    first
    | rfl
    | (symm; exact List.filter_eq_self.mpr (fun a _ => rfl))

theorem zipIdx_filter_of_keys (price : D → Option Rat) (f : G.Filter) (l : List (G.State D)) (i : Nat)
    (hk : l.map (·.key.f0) = List.range' i l.length) :
    (l.filter (matchesG f)).map (ofState price)
      = (((l.map (ofState price)).zipIdx i).filter fun si => (ofFilter f).matches si.2 si.1).map (·.1) := by
  induction l generalizing i with
  | nil => rfl
  | cons s rest ih =>
    simp only [List.map_cons, List.length_cons, List.range'_succ, List.cons.injEq] at hk
    obtain ⟨hs, hrest⟩ := hk
    have hm := filter_matches price f s
    rw [hs] at hm
    simp only [List.map_cons, List.zipIdx_cons, List.filter_cons, hm]
    by_cases hc : (ofFilter f).matches i (ofState price s) = true
    · simp [hc, ih (i + 1) hrest]
    · simp [hc, ih (i + 1) hrest]

/-- **`filtered` keeps exactly the states the model's filter keeps, in order** (under `KeysArePositions`). -/
theorem filtered_agrees (price : D → Option Rat) (m : G.States D) (f : G.Filter) (hk : KeysArePositions m) :
    (Generated.Machines.InstrumentStates.filtered m f).map (ofState price)
      = ((((statesOf m).map (ofState price)).zipIdx).filter fun si => (ofFilter f).matches si.2 si.1).map (·.1) := by
  rw [filtered_eq]
  exact zipIdx_filter_of_keys price f (statesOf m) 0 (by simpa [KeysArePositions, List.range_eq_range'] using hk)

/-- the other filtered accessors are `filtered` followed by a projection -/
theorem projections_agree (m : G.States D) (f : G.Filter) :
    Generated.Machines.InstrumentStates.instruments m f = Generated.Machines.InstrumentStates.filtered m f ∧
    Generated.Machines.InstrumentStates.orders m f = (Generated.Machines.InstrumentStates.filtered m f).map (·.orders) ∧
    Generated.Machines.InstrumentStates.positions m f
      = (Generated.Machines.InstrumentStates.filtered m f).map (·.position) ∧
    Generated.Machines.InstrumentStates.tear_sheets m f
      = (Generated.Machines.InstrumentStates.filtered m f).map (·.tear_sheet) ∧
    Generated.Machines.InstrumentStates.instrument_datas m f
      = (Generated.Machines.InstrumentStates.filtered m f).map (·.data) := by
  refine ⟨?_, ?_, ?_, ?_, ?_⟩ <;>
    simp only [Generated.Machines.InstrumentStates.instruments, Generated.Machines.InstrumentStates.orders,
      Generated.Machines.InstrumentStates.positions, Generated.Machines.InstrumentStates.tear_sheets,
      Generated.Machines.InstrumentStates.instrument_datas]

/-! ## `to_request_cancel` and the cancel requests of one instrument -/

/-- per tracked order, at the order's own instrument key and client order id (no hypothesis) -/
theorem to_request_cancel_agrees (o : G.Order) :
    (Generated.Machines.Order.to_request_cancel o).map ofCancelReq
      = toRequestCancel o.key.instrument.f0 (o.key.cid, ofOrderX o) := by
  rcases o with ⟨⟨ex, ins, st, cid⟩, side, price, qty, kind, tif, state⟩
  rcases state with ⟨⟨⟩⟩ | op | ⟨_ | op⟩ <;>
    simp [gen_filters_actions, toRequestCancel, ofOrderX, OrdersSM.ofActive, ofCancelReq, OrdersSM.ofOpen]

theorem insertByCid_perm (x : Nat × Order) (l : List (Nat × Order)) : (insertByCid x l).Perm (x :: l) := by
  induction l with
  | nil => exact List.Perm.refl _
  | cons y ys ih =>
    simp only [insertByCid]
    split
    · exact List.Perm.refl _
    · exact (List.Perm.cons y ih).trans (List.Perm.swap x y ys)

theorem sortByCid_perm (m : Orders) : (sortByCid m).Perm m := by
  induction m with
  | nil => exact List.Perm.refl _
  | cons x xs ih =>
    simp only [sortByCid, List.foldr_cons]
    exact (insertByCid_perm x _).trans (List.Perm.cons x ih)

/-- **the cancel requests of one instrument, as a bag**: a permutation of the model's (which are sorted by client order
id; the code's order is hash order) -/
theorem cancel_requests_perm (k : G.IIdx) (os : G.Orders) (hc : OrderKeysConsistent k os) :
    (((Generated.Machines.Orders.orders os).filterMap Generated.Machines.Order.to_request_cancel).map ofCancelReq).Perm
      ((sortByCid (ofOrdersX os)).filterMap (toRequestCancel k.f0)) := by
  have h1 : ((Generated.Machines.Orders.orders os).filterMap Generated.Machines.Order.to_request_cancel).map ofCancelReq
      = (ofOrdersX os).filterMap (toRequestCancel k.f0) := by
    rcases os with ⟨l⟩
    simp only [gen_filters_actions, Generated.Machines.Rust.Map.values, ofOrdersX, OrderKeysConsistent] at hc ⊢
    induction l with
    | nil => rfl
    | cons kv rest ih =>
      have hkv := hc kv (by simp)
      have hrest := ih (fun x hx => hc x (by simp [hx]))
      have := to_request_cancel_agrees kv.2
      rw [hkv.1, hkv.2] at this
      simp only [List.map_cons, List.filterMap_cons] at hrest ⊢
      rw [← this]
      cases Generated.Machines.Order.to_request_cancel kv.2 with
      | none => simpa using hrest
      | some r => simpa using hrest
  rw [h1]
  exact ((sortByCid_perm (ofOrdersX os)).filterMap _).symm

/-! ## The closing orders -/

theorem ofSide_opposite (s : Generated.Machines.Side) :
    ofSide (match s with | .Buy => .Sell | .Sell => .Buy) = (ofSide s).opposite := by
  cases s <;> rfl

/-- `build_ioc_market_order_to_close_position`, for every position, price and cid generator (no hypothesis) -/
theorem build_ioc_agrees (ex : G.XIdx) (p : G.Position) (sid : Nat) (price : Rat) (g : Unit → Nat) :
    ofOpenReq (Generated.Machines.build_ioc_market_order_to_close_position ex p sid price g)
      = ⟨⟨ex.f0, p.instrument.f0, g ()⟩, (ofSide p.side).opposite, price, p.quantity_abs⟩ := by
  rcases p with ⟨ins, side, pea, qa, qam, pu, pr, fe, fx, te, tu, tr⟩
  cases side <;> simp [gen_filters_actions, ofOpenReq, ofSide, Side.opposite]

/-- what `ofOpenReq` forgets: the closing order is an immediate-or-cancel MARKET order of the given strategy -/
theorem open_request_shape (ex : G.XIdx) (p : G.Position) (sid : Nat) (price : Rat) (g : Unit → Nat) :
    (Generated.Machines.build_ioc_market_order_to_close_position ex p sid price g).state.kind
        = Generated.Machines.OrderKind.Market ∧
    (Generated.Machines.build_ioc_market_order_to_close_position ex p sid price g).state.time_in_force
        = Generated.Machines.TimeInForce.ImmediateOrCancel ∧
    (Generated.Machines.build_ioc_market_order_to_close_position ex p sid price g).key.strategy = sid := by
  rcases p with ⟨ins, side, pea, qa, qam, pu, pr, fe, fx, te, tu, tr⟩
  cases side <;> simp [gen_filters_actions]

theorem filterMap_congr' {α β : Type} {f g : α → Option β} {l : List α} (h : ∀ a ∈ l, f a = g a) :
    l.filterMap f = l.filterMap g := by
  induction l with
  | nil => rfl
  | cons a rest ih =>
    simp only [List.filterMap_cons, h a (by simp)]
    rw [ih (fun x hx => h x (by simp [hx]))]

/-- the closing order of one instrument state, as the code builds it -/
def closeOne (price : D → Option Rat) (sid : Nat) (gen_cid : G.State D → Nat) (s : G.State D) : Option G.OpenReq :=
  match s.position.current, price s.data with
  | some p, some pr =>
    some (Generated.Machines.build_ioc_market_order_to_close_position s.instrument.exchange p sid pr fun _ => gen_cid s)
  | _, _ => none

/-- the generated `close_open_positions_with_market_orders`: no cancel requests, and `closeOne` of every filtered state that
yields one, in order — whichever way the closure spells "position, then price" -/
theorem close_eq {G' M : Type} [DecidableEq G'] [DecidableEq M]
    (rec : Generated.Machines.InstrumentDataState D G.XIdx G.AIdx G.IIdx M) (sid : Nat)
    (st : Generated.Machines.EngineStateI G' D) (f : G.Filter) (gen_cid : G.State D → Nat) :
    Generated.Machines.close_open_positions_with_market_orders rec sid st f gen_cid
      = ([], ((statesOf st.instruments).filter (matchesG f)).filterMap (closeOne rec.price sid gen_cid)) := by
  simp only [Generated.Machines.close_open_positions_with_market_orders, projections_agree, filtered_eq,
    Prod.mk.injEq, true_and]
  apply filterMap_congr'
  intro s _
  simp only [closeOne]
  cases s.position.current <;> cases rec.price s.data <;> rfl

theorem close_requests_list (price : D → Option Rat) (sid : Nat) (gen_cid : G.State D → Nat) (f : G.Filter)
    (hcid : ∀ s, gen_cid s = closeCid s.key.f0) (l : List (G.State D)) (i : Nat)
    (hk : l.map (·.key.f0) = List.range' i l.length)
    (hp : ∀ s ∈ l, ∀ p, s.position.current = some p → p.instrument = s.key) :
    ((l.filter (matchesG f)).filterMap (closeOne price sid gen_cid)).map ofOpenReq
      = (((l.map (ofState price)).zipIdx i).filter fun si => (ofFilter f).matches si.2 si.1).filterMap fun si =>
          match si.1.position, si.1.price with
          | some (side, q), some p => some ⟨⟨si.1.exchange, si.2, closeCid si.2⟩, side.opposite, p, q⟩
          | _, _ => none := by
  induction l generalizing i with
  | nil => rfl
  | cons s rest ih =>
    simp only [List.map_cons, List.length_cons, List.range'_succ, List.cons.injEq] at hk
    obtain ⟨hs, hrest⟩ := hk
    have hm := filter_matches price f s
    rw [hs] at hm
    have ih' := ih (i + 1) hrest (fun x hx => hp x (by simp [hx]))
    simp only [List.map_cons, List.zipIdx_cons, List.filter_cons, hm]
    by_cases hc : (ofFilter f).matches i (ofState price s) = true
    · simp only [hc, ↓reduceIte, List.filterMap_cons]
      have hps := hp s (by simp)
      cases hcur : s.position.current with
      | none => simpa [closeOne, hcur, ofState] using ih'
      | some p =>
        cases hpr : price s.data with
        | none => simpa [closeOne, hcur, hpr, ofState] using ih'
        | some pr =>
          have hi : p.instrument.f0 = i := by rw [hps p hcur, hs]
          simp only [closeOne, hcur, hpr, ofState, Option.map_some, List.map_cons, build_ioc_agrees, hcid, hs, hi]
          rw [ih']
    · simpa [hc] using ih'

/-- **`close_open_positions_with_market_orders` generates exactly the model's `closeRequests`**, in order, and no cancel
requests. -/
theorem close_requests_agree {G' M : Type} [DecidableEq G'] [DecidableEq M]
    (rec : Generated.Machines.InstrumentDataState D G.XIdx G.AIdx G.IIdx M) (sid : Nat)
    (st : Generated.Machines.EngineStateI G' D) (f : G.Filter) (gen_cid : G.State D → Nat) (e : Eng)
    (he : e.instruments = (statesOf st.instruments).map (ofState rec.price))
    (hk : KeysArePositions st.instruments) (hp : PositionKeysConsistent st.instruments)
    (hcid : ∀ s, gen_cid s = closeCid s.key.f0) :
    (Generated.Machines.close_open_positions_with_market_orders rec sid st f gen_cid).1
        = ([] : List G.CancelReq) ∧
    (Generated.Machines.close_open_positions_with_market_orders rec sid st f gen_cid).2.map ofOpenReq
        = closeRequests e (ofFilter f) := by
  rw [close_eq]
  refine ⟨rfl, ?_⟩
  simp only [closeRequests, he]
  exact close_requests_list rec.price sid gen_cid f hcid (statesOf st.instruments) 0
    (by simpa [KeysArePositions, List.range_eq_range'] using hk) hp

/-- the three consistency hypotheses are satisfiable together with a non-trivial state: one instrument, key 0, with a
position of its own instrument and one order stored under its own cid -/
theorem hypotheses_satisfiable :
    ∃ (m : G.States Nat), KeysArePositions m ∧ PositionKeysConsistent m ∧ (statesOf m).length = 1 ∧
      (∀ s ∈ statesOf m, OrderKeysConsistent s.key s.orders ∧ s.orders.f0.length = 1 ∧ s.position.current.isSome) := by
  let k : G.IIdx := ⟨0⟩
  let o : G.Order := ⟨⟨⟨0⟩, k, 1, 7⟩, .Buy, 1, 1, .Market, .ImmediateOrCancel, .OpenInFlight .mk⟩
  let p : G.Position := ⟨k, .Buy, 1, 1, 1, 0, 0, ⟨.mk, 0⟩, ⟨.mk, 0⟩, 0, 0, []⟩
  let s : G.State Nat := ⟨k, ⟨⟨0⟩, 0, 0, ⟨⟨0⟩, ⟨1⟩⟩, .UnderlyingQuote, .Spot, none⟩,
    Generated.Machines.TearSheetGenerator.init 0, ⟨some p⟩, ⟨[(7, o)]⟩, 0⟩
  refine ⟨⟨[(0, s)]⟩, by simp [KeysArePositions, statesOf, s, k], ?_, by simp [statesOf], ?_⟩
  · intro s' hs' p' hp'
    simp [statesOf] at hs'; subst hs'
    simp [s] at hp'; subst hp'; rfl
  · intro s' hs'
    simp [statesOf] at hs'; subst hs'
    refine ⟨?_, by simp [s], by simp [s]⟩
    intro kv hkv
    simp [s] at hkv; subst hkv
    exact ⟨rfl, rfl⟩

/-- Everything above in one statement (re-exported as the audited theorem `filters_and_request_generators_agree_with_source`
of Props/C19.lean). -/
theorem filters_actions_agree :
    (∀ {D : Type} [DecidableEq D] (price : D → Option Rat) (f : G.Filter) (s : G.State D),
      matchesG f s = (ofFilter f).matches s.key.f0 (ofState price s)) ∧
    (∀ {D : Type} [DecidableEq D] (m : G.States D) (f : G.Filter),
      Generated.Machines.InstrumentStates.filtered m f = (statesOf m).filter (matchesG f) ∧
      Generated.Machines.InstrumentStates.instruments m f = Generated.Machines.InstrumentStates.filtered m f ∧
      Generated.Machines.InstrumentStates.orders m f
        = (Generated.Machines.InstrumentStates.filtered m f).map (·.orders)) ∧
    (∀ {D : Type} [DecidableEq D] (price : D → Option Rat) (m : G.States D) (f : G.Filter), KeysArePositions m →
      (Generated.Machines.InstrumentStates.filtered m f).map (ofState price)
        = ((((statesOf m).map (ofState price)).zipIdx).filter fun si => (ofFilter f).matches si.2 si.1).map (·.1)) ∧
    (∀ (o : G.Order), (Generated.Machines.Order.to_request_cancel o).map ofCancelReq
        = toRequestCancel o.key.instrument.f0 (o.key.cid, ofOrderX o)) ∧
    (∀ (k : G.IIdx) (os : G.Orders), OrderKeysConsistent k os →
      (((Generated.Machines.Orders.orders os).filterMap Generated.Machines.Order.to_request_cancel).map ofCancelReq).Perm
        ((sortByCid (ofOrdersX os)).filterMap (toRequestCancel k.f0))) ∧
    (∀ (ex : G.XIdx) (p : G.Position) (sid : Nat) (price : Rat) (g : Unit → Nat),
      ofOpenReq (Generated.Machines.build_ioc_market_order_to_close_position ex p sid price g)
        = ⟨⟨ex.f0, p.instrument.f0, g ()⟩, (ofSide p.side).opposite, price, p.quantity_abs⟩) ∧
    (∀ {D G' M : Type} [DecidableEq D] [DecidableEq G'] [DecidableEq M]
        (rec : Generated.Machines.InstrumentDataState D G.XIdx G.AIdx G.IIdx M) (sid : Nat)
        (st : Generated.Machines.EngineStateI G' D) (f : G.Filter) (gen_cid : G.State D → Nat) (e : Eng),
      e.instruments = (statesOf st.instruments).map (ofState rec.price) →
      KeysArePositions st.instruments → PositionKeysConsistent st.instruments →
      (∀ s, gen_cid s = closeCid s.key.f0) →
      (Generated.Machines.close_open_positions_with_market_orders rec sid st f gen_cid).1 = ([] : List G.CancelReq) ∧
      (Generated.Machines.close_open_positions_with_market_orders rec sid st f gen_cid).2.map ofOpenReq
        = closeRequests e (ofFilter f)) :=
  ⟨filter_matches, fun m f => ⟨filtered_eq m f, (projections_agree m f).1, (projections_agree m f).2.1⟩,
   filtered_agrees, to_request_cancel_agrees, cancel_requests_perm, build_ioc_agrees,
   fun rec sid st f g e he hk hp hc => close_requests_agree rec sid st f g e he hk hp hc⟩

end BarterModel.KernelsAgree.FiltersActionsSM
