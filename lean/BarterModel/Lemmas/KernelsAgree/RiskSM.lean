import BarterModel.Generated.Machines2
import BarterModel.Model.Risk
/-!
# Agreement: `barter::risk` utilities (risk/mod.rs, risk/check/{mod,util}.rs) — sub-check C03R

`BarterModel.Generated.Machines.{RiskApproved, RiskRefused, CheckHigherThan, CheckFailHigherThan}` with
`RiskApproved::{new, into_item}`, `RiskRefused::into_item`, `CheckHigherThan::{new, check}` and the
three free functions `calculate_quote_notional`, `calculate_abs_percent_difference`,
`calculate_delta` are regenerated from the Rust source by `tools/rust2lean_sm.py` (group `risk`, file
`Generated/Machines2.lean`) on every run of `./check C03R` (and of its parent C03). The theorems state
that they are the hand-written definitions of `Model/Risk.lean`, for all arguments:

* the wrapper structs through the evident bijections (`f0` is the model's `item`);
* `CheckHigherThan::check` for EVERY `PartialOrd` implementation: the source compares values of the
  type parameter `T` with `<=`; the generated definition takes the four comparison methods of `T` as
  one record `T_ord : Rust.PartialOrd T` (no relation between them assumed) and uses `T_ord.le`, the
  model's `le` — a change of the operator in the source selects another field and breaks the theorem;
* the arithmetic helpers: the translator's `Decimal::checked_mul` / `checked_sub` never return `None`
  (overflow is not modelled, prelude of Machines2.lean) while the model takes a representability
  predicate `fits`. Two statements each: equality with the model at `fits = fun _ => true`, and, for
  EVERY `fits`, "whenever the model returns a value, the generated function returns the same value"
  (so the generated code is the model on the overflow-free domain of every notion of overflow; the
  model's extra `None`s — `calculate_delta`'s panic included — are exactly the overflow cases, which
  stay tied by correspondence only).

`RiskRefused::new` (`impl Into<String>`), `Unrecoverable for RiskRefused` (a trait method on the
type parameter) and `DefaultRiskManager::check` (`impl IntoIterator`, iterator adaptors) are outside
the accepted subset and are not translated.
-/
namespace BarterModel.KernelsAgree.RiskSM
open BarterModel BarterModel.Risk

namespace G
abbrev RiskApproved := Generated.Machines.RiskApproved
abbrev RiskRefused := Generated.Machines.RiskRefused
abbrev CheckHigherThan := Generated.Machines.CheckHigherThan
abbrev CheckFailHigherThan := Generated.Machines.CheckFailHigherThan
abbrev Side := Generated.Machines.Side
end G

variable {α ρ : Type}

/-! ## Wrappers -/

def ofApproved (r : G.RiskApproved α) : RiskApproved α := ⟨r.f0⟩
def toApproved (r : RiskApproved α) : G.RiskApproved α := ⟨r.item⟩
theorem ofApproved_toApproved (r : RiskApproved α) : ofApproved (toApproved r) = r := rfl
theorem toApproved_ofApproved (r : G.RiskApproved α) : toApproved (ofApproved r) = r := rfl

def ofRefused (r : G.RiskRefused α ρ) : RiskRefused α ρ := ⟨r.item, r.reason⟩
def toRefused (r : RiskRefused α ρ) : G.RiskRefused α ρ := ⟨r.item, r.reason⟩
theorem ofRefused_toRefused (r : RiskRefused α ρ) : ofRefused (toRefused r) = r := rfl
theorem toRefused_ofRefused (r : G.RiskRefused α ρ) : toRefused (ofRefused r) = r := rfl

/-- derived `RiskApproved::new`. -/
theorem approved_new_agrees [DecidableEq α] (a : α) : ofApproved (Generated.Machines.RiskApproved.new a) = RiskApproved.new a := rfl
theorem approved_into_item_agrees [DecidableEq α] (r : RiskApproved α) :
    Generated.Machines.RiskApproved.into_item (toApproved r) = r.intoItem := rfl
theorem refused_into_item_agrees [DecidableEq α] [DecidableEq ρ] (r : RiskRefused α ρ) :
    Generated.Machines.RiskRefused.into_item (toRefused r) = r.intoItem := rfl

/-! ## `CheckHigherThan` -/

def ofCheck (c : G.CheckHigherThan α) : CheckHigherThan α := ⟨c.limit⟩
def toCheck (c : CheckHigherThan α) : G.CheckHigherThan α := ⟨c.limit⟩
theorem ofCheck_toCheck (c : CheckHigherThan α) : ofCheck (toCheck c) = c := rfl
theorem toCheck_ofCheck (c : G.CheckHigherThan α) : toCheck (ofCheck c) = c := rfl

def ofFail (e : G.CheckFailHigherThan α) : CheckFailHigherThan α := ⟨e.limit, e.input⟩
def toFail (e : CheckFailHigherThan α) : G.CheckFailHigherThan α := ⟨e.limit, e.input⟩
theorem ofFail_toFail (e : CheckFailHigherThan α) : ofFail (toFail e) = e := rfl
theorem toFail_ofFail (e : G.CheckFailHigherThan α) : toFail (ofFail e) = e := rfl

/-- result of `check` read in the model's types. -/
def ofResult : Except (G.CheckFailHigherThan α) Unit → Except (CheckFailHigherThan α) Unit
  | .ok () => .ok ()
  | .error e => .error (ofFail e)

theorem check_new_agrees [DecidableEq α] (limit : α) : ofCheck (Generated.Machines.CheckHigherThan.new limit) = ⟨limit⟩ := rfl

/-- `CheckHigherThan::check`, for every checked type, every `PartialOrd` implementation `ord` of it
(four unrelated methods), limit and input: the decision is `ord.le`, the model's `le`, and no other method. -/
theorem check_agrees [DecidableEq α] (ord : Generated.Machines.Rust.PartialOrd α) (c : CheckHigherThan α)
    (input : α) :
    ofResult (Generated.Machines.CheckHigherThan.check ord (toCheck c) input) = c.check ord.le input := by
  by_cases h : ord.le input c.limit = true <;>
    simp [gen_risk, CheckHigherThan.check, toCheck, ofResult, ofFail, h]

/-! ## Arithmetic helpers -/

def toSide : Side → G.Side
  | .buy => .Buy
  | .sell => .Sell
def ofSide : G.Side → Side
  | .Buy => .buy
  | .Sell => .sell
theorem ofSide_toSide (s : Side) : ofSide (toSide s) = s := by cases s <;> rfl
theorem toSide_ofSide (s : G.Side) : toSide (ofSide s) = s := by cases s <;> rfl

/-- no notion of overflow at all. -/
def noOverflow : Rat → Bool := fun _ => true

theorem abs_agrees (x : Rat) : Generated.Machines.Decimal.abs x = x.abs := by
  unfold Generated.Machines.Decimal.abs
  grind [Rat.abs]

/-- `calculate_quote_notional` = the model without overflow. -/
theorem notional_agrees (quantity price contractSize : Rat) :
    Generated.Machines.calculate_quote_notional quantity price contractSize
      = calculateQuoteNotional noOverflow quantity price contractSize := by
  simp [gen_risk, calculateQuoteNotional, checkedMul, noOverflow, Generated.Machines.Decimal.checked_mul]

/-- … and for every `fits`: a value the model returns is the value the generated function returns. -/
theorem notional_agrees_when_fits (fits : Rat → Bool) (quantity price contractSize v : Rat)
    (h : calculateQuoteNotional fits quantity price contractSize = some v) :
    Generated.Machines.calculate_quote_notional quantity price contractSize = some v := by
  simp only [calculateQuoteNotional, checkedMul] at h
  simp only [gen_risk, Generated.Machines.Decimal.checked_mul]
  split at h <;> simp_all

/-- `calculate_abs_percent_difference` = the model without overflow (`None` exactly for `other = 0`). -/
theorem apd_agrees (current other : Rat) :
    Generated.Machines.calculate_abs_percent_difference current other
      = calculateAbsPercentDifference noOverflow current other := by
  simp [gen_risk, calculateAbsPercentDifference, checkedSub, checkedDiv, noOverflow, Generated.Machines.Decimal.checked_sub, Generated.Machines.Decimal.checked_div, abs_agrees]

theorem apd_agrees_when_fits (fits : Rat → Bool) (current other v : Rat)
    (h : calculateAbsPercentDifference fits current other = some v) :
    Generated.Machines.calculate_abs_percent_difference current other = some v := by
  simp only [calculateAbsPercentDifference, checkedSub, checkedDiv] at h
  simp only [gen_risk, Generated.Machines.Decimal.checked_sub, Generated.Machines.Decimal.checked_div, abs_agrees]
  split at h <;> simp_all

/-- `calculate_delta` = the model without overflow (the model's `none` is the overflow panic). -/
theorem delta_agrees (instrumentDelta contractSize : Rat) (side : Side) (quantityInKind : Rat) :
    calculateDelta noOverflow instrumentDelta contractSize side quantityInKind
      = some (Generated.Machines.calculate_delta instrumentDelta contractSize (toSide side) quantityInKind) := by
  cases side <;>
    simp [gen_risk, calculateDelta, checkedMul, noOverflow, toSide]

theorem delta_agrees_when_fits (fits : Rat → Bool) (instrumentDelta contractSize : Rat) (side : Side)
    (quantityInKind v : Rat)
    (h : calculateDelta fits instrumentDelta contractSize side quantityInKind = some v) :
    Generated.Machines.calculate_delta instrumentDelta contractSize (toSide side) quantityInKind = v := by
  simp only [calculateDelta, checkedMul] at h
  split at h <;> simp at h
  obtain ⟨_, h2⟩ := h
  cases side <;> simp_all [gen_risk, toSide]

/-- Everything `./check C03R` re-proves against the current source, at once. -/
theorem risk_sm_agree :
    (∀ (α : Type) [DecidableEq α] (a : α),
        ofApproved (Generated.Machines.RiskApproved.new a) = RiskApproved.new a)
    ∧ (∀ (α : Type) [DecidableEq α] (r : RiskApproved α),
        Generated.Machines.RiskApproved.into_item (toApproved r) = r.intoItem)
    ∧ (∀ (α ρ : Type) [DecidableEq α] [DecidableEq ρ] (r : RiskRefused α ρ),
        Generated.Machines.RiskRefused.into_item (toRefused r) = r.intoItem)
    ∧ (∀ (α : Type) [DecidableEq α] (limit : α),
        ofCheck (Generated.Machines.CheckHigherThan.new limit) = ⟨limit⟩)
    ∧ (∀ (α : Type) [DecidableEq α] (ord : Generated.Machines.Rust.PartialOrd α) (c : CheckHigherThan α) (input : α),
        ofResult (Generated.Machines.CheckHigherThan.check ord (toCheck c) input) = c.check ord.le input)
    ∧ (∀ q p c : Rat, Generated.Machines.calculate_quote_notional q p c = calculateQuoteNotional noOverflow q p c)
    ∧ (∀ (fits : Rat → Bool) (q p c v : Rat), calculateQuoteNotional fits q p c = some v →
        Generated.Machines.calculate_quote_notional q p c = some v)
    ∧ (∀ c o : Rat, Generated.Machines.calculate_abs_percent_difference c o
        = calculateAbsPercentDifference noOverflow c o)
    ∧ (∀ (fits : Rat → Bool) (c o v : Rat), calculateAbsPercentDifference fits c o = some v →
        Generated.Machines.calculate_abs_percent_difference c o = some v)
    ∧ (∀ (d cs : Rat) (side : Side) (q : Rat),
        calculateDelta noOverflow d cs side q = some (Generated.Machines.calculate_delta d cs (toSide side) q))
    ∧ (∀ (fits : Rat → Bool) (d cs : Rat) (side : Side) (q v : Rat), calculateDelta fits d cs side q = some v →
        Generated.Machines.calculate_delta d cs (toSide side) q = v)
    ∧ (∀ s : Side, ofSide (toSide s) = s) ∧ (∀ s : G.Side, toSide (ofSide s) = s) :=
  ⟨fun _ _ => approved_new_agrees, fun _ _ => approved_into_item_agrees,
    fun _ _ _ _ => refused_into_item_agrees, fun _ _ => check_new_agrees, fun _ _ => check_agrees,
    notional_agrees, notional_agrees_when_fits, apd_agrees, apd_agrees_when_fits, delta_agrees,
    delta_agrees_when_fits, ofSide_toSide, toSide_ofSide⟩

end BarterModel.KernelsAgree.RiskSM
