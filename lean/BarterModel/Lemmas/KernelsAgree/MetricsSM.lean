import BarterModel.Generated.Machines2
import BarterModel.Model.Metrics
import BarterModel.Lemmas.KernelsAgree.DataSetSM
/-!
# Agreement: risk-adjusted return metrics (statistic/metric/{sharpe,sortino,calmar,rate_of_return}.rs,
statistic/time.rs) — sub-check C16M

`BarterModel.Generated.Machines.{SharpeRatio, SortinoRatio, CalmarRatio, RateOfReturn}.{calculate, scale}`,
the trait `TimeInterval` (as the record of its translatable method `interval`) and the three unit
implementors `Daily`, `Annual252`, `Annual365` are regenerated from the Rust source by
`tools/rust2lean_sm.py` (group `metrics`, file `Generated/Machines2.lean`) on every run of
`./check C16M` (and of its parent C16). The generated definitions are generic in the interval types and
take the `TimeInterval` implementations as explicit records; the theorems instantiate them at the
model's closed type `Metrics.Interval` with the record `dict = ⟨Interval.interval⟩` and state equality
with the hand-written `Model/Metrics.lean`:

* the three unit implementors return the model's interval lengths;
* `calculate` of all four metrics, for all arguments: the `.unwrap()` after `checked_div` is dead code
  (the divisor was just tested against zero);
* `scale` of all four, for all metrics and targets, for every `decimal_sqrt` (rust_decimal's
  `MathematicalOps::sqrt`, NOT translated: a parameter) that returns `Some` on non-negative arguments
  (`DataSetSM.SqrtTotal`; the proof shows `.expect("ensured seconds are Positive")` dead), **on the
  overflow-free domain** `Fits v k` (`|v · k| ≤ Decimal::MAX`): the translator's `checked_mul` never
  returns `None` (overflow is not modelled, prelude of Machines2.lean) whereas the model saturates to
  `Decimal::MAX` there (`Model/Metrics.checkedMul`); that saturation branch — the one behind C16M's
  `very_bad_reported_as_very_good` — stays tied by correspondence only.

`TimeInterval for TimeDelta` (an impl for a foreign type) and `TearSheetGenerator::generate` (needs
trait-implementation resolution at `TimeDelta`) are outside the accepted subset.
-/
namespace BarterModel.KernelsAgree.MetricsSM
open BarterModel BarterModel.Metrics
open BarterModel.KernelsAgree.DataSetSM (SqrtTotal fnOf)

namespace G
abbrev TimeInterval := Generated.Machines.TimeInterval
abbrev SharpeRatio := Generated.Machines.SharpeRatio
abbrev SortinoRatio := Generated.Machines.SortinoRatio
abbrev CalmarRatio := Generated.Machines.CalmarRatio
abbrev RateOfReturn := Generated.Machines.RateOfReturn
end G

/-- the model's `TimeInterval` implementation of its closed `Interval` type. -/
def dict : G.TimeInterval Interval := ⟨Interval.interval⟩

/-! ## The unit implementors of `TimeInterval` -/

theorem daily_interval_agrees : Generated.Machines.Daily.interval .mk = Interval.interval .daily := by
  decide
theorem annual252_interval_agrees : Generated.Machines.Annual252.interval .mk = Interval.interval .annual252 := by
  decide
theorem annual365_interval_agrees : Generated.Machines.Annual365.interval .mk = Interval.interval .annual365 := by
  decide

/-! ## Record bijections (at `Interval := Metrics.Interval`) -/

def ofSharpe (m : G.SharpeRatio Interval) : Metric := ⟨m.value, m.interval⟩
def toSharpe (m : Metric) : G.SharpeRatio Interval := ⟨m.value, m.interval⟩
def ofSortino (m : G.SortinoRatio Interval) : Metric := ⟨m.value, m.interval⟩
def toSortino (m : Metric) : G.SortinoRatio Interval := ⟨m.value, m.interval⟩
def ofCalmar (m : G.CalmarRatio Interval) : Metric := ⟨m.value, m.interval⟩
def toCalmar (m : Metric) : G.CalmarRatio Interval := ⟨m.value, m.interval⟩
def ofRate (m : G.RateOfReturn Interval) : Metric := ⟨m.value, m.interval⟩
def toRate (m : Metric) : G.RateOfReturn Interval := ⟨m.value, m.interval⟩
theorem bijections :
    (∀ m, ofSharpe (toSharpe m) = m) ∧ (∀ m, toSharpe (ofSharpe m) = m)
    ∧ (∀ m, ofSortino (toSortino m) = m) ∧ (∀ m, toSortino (ofSortino m) = m)
    ∧ (∀ m, ofCalmar (toCalmar m) = m) ∧ (∀ m, toCalmar (ofCalmar m) = m)
    ∧ (∀ m, ofRate (toRate m) = m) ∧ (∀ m, toRate (ofRate m) = m) :=
  ⟨fun _ => rfl, fun _ => rfl, fun _ => rfl, fun _ => rfl, fun _ => rfl, fun _ => rfl, fun _ => rfl, fun _ => rfl⟩

/-! ## Vocabulary -/

theorem abs_agrees (x : Rat) : Generated.Machines.Decimal.abs x = x.abs := by
  unfold Generated.Machines.Decimal.abs
  grind [Rat.abs]

theorem checked_div_agrees (a b : Rat) : Generated.Machines.Decimal.checked_div a b = checkedDiv a b := rfl

theorem max_agrees : Generated.Machines.Decimal.MAX = decimalMax := rfl
theorem min_agrees : Generated.Machines.Decimal.MIN = decimalMin := rfl

/-- `Decimal::cmp` in the three cases. -/
theorem cmp_cases (mean rf : Rat) :
    (mean < rf ∧ ¬ rf < mean ∧ Generated.Machines.Decimal.cmp mean rf = .Less)
    ∨ (mean = rf ∧ Generated.Machines.Decimal.cmp mean rf = .Equal)
    ∨ (rf < mean ∧ ¬ mean < rf ∧ Generated.Machines.Decimal.cmp mean rf = .Greater) := by
  unfold Generated.Machines.Decimal.cmp
  by_cases h1 : mean < rf
  · exact .inl ⟨h1, by grind, by simp [h1]⟩
  · by_cases h2 : mean = rf
    · exact .inr (.inl ⟨h2, by simp [h2]⟩)
    · exact .inr (.inr ⟨by grind, h1, by simp [h1, h2]⟩)

/-! ## `calculate` -/

theorem sharpe_calculate_agrees (rf mean sd : Rat) (p : Interval) :
    ofSharpe (Generated.Machines.SharpeRatio.calculate rf mean sd p) = SharpeRatio.calculate rf mean sd p := by
  by_cases h : sd = 0 <;>
    simp [gen_metrics, SharpeRatio.calculate, ofSharpe, h, max_agrees, Generated.Machines.Decimal.checked_div]

theorem sortino_calculate_agrees (rf mean sd : Rat) (p : Interval) :
    ofSortino (Generated.Machines.SortinoRatio.calculate rf mean sd p) = SortinoRatio.calculate rf mean sd p := by
  by_cases h : sd = 0
  · rcases cmp_cases mean rf with ⟨h1, h2, hc⟩ | ⟨h1, hc⟩ | ⟨h1, h2, hc⟩ <;>
      simp_all [gen_metrics, SortinoRatio.calculate, ofSortino, max_agrees, min_agrees]
  · simp [gen_metrics, SortinoRatio.calculate, ofSortino, h, Generated.Machines.Decimal.checked_div]

theorem calmar_calculate_agrees (rf mean dd : Rat) (p : Interval) :
    ofCalmar (Generated.Machines.CalmarRatio.calculate rf mean dd p) = CalmarRatio.calculate rf mean dd p := by
  by_cases h : dd = 0
  · rcases cmp_cases mean rf with ⟨h1, h2, hc⟩ | ⟨h1, hc⟩ | ⟨h1, h2, hc⟩ <;>
      simp_all [gen_metrics, CalmarRatio.calculate, ofCalmar, max_agrees, min_agrees]
  ·     simp [gen_metrics, CalmarRatio.calculate, ofCalmar, h, Generated.Machines.Decimal.checked_div, abs_agrees]

theorem rate_calculate_agrees (mean : Rat) (p : Interval) :
    ofRate (Generated.Machines.RateOfReturn.calculate mean p) = RateOfReturn.calculate mean p := rfl

/-! ## `scale` -/

/-- no overflow of the final product: the domain on which `checked_mul(..).unwrap_or(MAX)` is the product. -/
def Fits (v k : Rat) : Prop := ¬ decimalMax < (v * k).abs

theorem checkedMul_of_fits {v k : Rat} (h : Fits v k) : checkedMul v k = some (v * k) := by
  unfold Fits at h
  simp [checkedMul, h]

theorem periods_nonneg (cur target : Interval) : 0 ≤ periods cur target := by
  unfold periods checkedDiv
  by_cases hc : cur.secs.abs = 0
  · simp [hc]; decide
  · have hpos : 0 < cur.secs.abs := by
      rcases Rat.le_iff_lt_or_eq.mp (Rat.abs_nonneg (x := cur.secs)) with h | h
      · exact h
      · exact absurd h.symm hc
    simp only [hc, if_false, Option.getD_some]
    rw [Rat.div_def]
    exact Rat.mul_nonneg Rat.abs_nonneg (Rat.le_of_lt (Rat.inv_pos.mpr hpos))

theorem sharpe_scale_agrees (sqrt : Rat → Option Rat) (hs : SqrtTotal sqrt) (m : Metric) (target : Interval)
    (hfit : Fits m.value (fnOf sqrt (periods m.interval target))) :
    ofSharpe (Generated.Machines.SharpeRatio.scale dict dict sqrt (toSharpe m) target)
      = SharpeRatio.scale (fnOf sqrt) m target := by
  obtain ⟨y, hy⟩ := hs _ (periods_nonneg m.interval target)
  have hf : fnOf sqrt (periods m.interval target) = y := by simp [fnOf, hy]
  rw [hf] at hfit
  simp only [gen_metrics, SharpeRatio.scale, Metric.scaleWith, ofSharpe, toSharpe, hf, checkedMul_of_fits hfit, Option.getD_some, checked_div_agrees, abs_agrees, dict, max_agrees, Generated.Machines.Decimal.checked_mul]
  unfold periods Interval.secs numSeconds at hy
  generalize checkedDiv _ _ = cd at hy ⊢
  cases cd <;> simp only [Option.getD_none, Option.getD_some] at hy <;> simp [hy]

theorem sortino_scale_agrees (sqrt : Rat → Option Rat) (hs : SqrtTotal sqrt) (m : Metric) (target : Interval)
    (hfit : Fits m.value (fnOf sqrt (periods m.interval target))) :
    ofSortino (Generated.Machines.SortinoRatio.scale dict dict sqrt (toSortino m) target)
      = SortinoRatio.scale (fnOf sqrt) m target := by
  obtain ⟨y, hy⟩ := hs _ (periods_nonneg m.interval target)
  have hf : fnOf sqrt (periods m.interval target) = y := by simp [fnOf, hy]
  rw [hf] at hfit
  simp only [gen_metrics, SortinoRatio.scale, Metric.scaleWith, ofSortino, toSortino, hf, checkedMul_of_fits hfit, Option.getD_some, checked_div_agrees, abs_agrees, dict, max_agrees, Generated.Machines.Decimal.checked_mul]
  unfold periods Interval.secs numSeconds at hy
  generalize checkedDiv _ _ = cd at hy ⊢
  cases cd <;> simp only [Option.getD_none, Option.getD_some] at hy <;> simp [hy]

theorem calmar_scale_agrees (sqrt : Rat → Option Rat) (hs : SqrtTotal sqrt) (m : Metric) (target : Interval)
    (hfit : Fits m.value (fnOf sqrt (periods m.interval target))) :
    ofCalmar (Generated.Machines.CalmarRatio.scale dict dict sqrt (toCalmar m) target)
      = CalmarRatio.scale (fnOf sqrt) m target := by
  obtain ⟨y, hy⟩ := hs _ (periods_nonneg m.interval target)
  have hf : fnOf sqrt (periods m.interval target) = y := by simp [fnOf, hy]
  rw [hf] at hfit
  simp only [gen_metrics, CalmarRatio.scale, Metric.scaleWith, ofCalmar, toCalmar, hf, checkedMul_of_fits hfit, Option.getD_some, checked_div_agrees, abs_agrees, dict, max_agrees, Generated.Machines.Decimal.checked_mul]
  unfold periods Interval.secs numSeconds at hy
  generalize checkedDiv _ _ = cd at hy ⊢
  cases cd <;> simp only [Option.getD_none, Option.getD_some] at hy <;> simp [hy]

/-- `RateOfReturn::scale`: linear, no root. -/
theorem rate_scale_agrees (m : Metric) (target : Interval) (hfit : Fits m.value (periods m.interval target)) :
    ofRate (Generated.Machines.RateOfReturn.scale dict dict (toRate m) target) = RateOfReturn.scale m target := by
  simp only [gen_metrics, RateOfReturn.scale, Metric.scaleWith, ofRate, toRate, id, checkedMul_of_fits hfit, Option.getD_some, checked_div_agrees, abs_agrees, dict, max_agrees, Generated.Machines.Decimal.checked_mul]
  unfold periods Interval.secs numSeconds
  generalize checkedDiv _ _ = cd
  cases cd <;> simp

/-- the domain restriction is not vacuous and not everything: ordinary values fit, the sentinels times a
factor above one do not. -/
theorem fits_examples : Fits (3 / 2) 19 ∧ ¬ Fits decimalMin 2 := by
  unfold Fits; constructor <;> decide +kernel

/-- Everything `./check C16M` re-proves against the current source, at once. -/
theorem metrics_sm_agree :
    (Generated.Machines.Daily.interval .mk = Interval.interval .daily
      ∧ Generated.Machines.Annual252.interval .mk = Interval.interval .annual252
      ∧ Generated.Machines.Annual365.interval .mk = Interval.interval .annual365)
    ∧ (∀ (rf mean sd : Rat) (p : Interval),
        ofSharpe (Generated.Machines.SharpeRatio.calculate rf mean sd p) = SharpeRatio.calculate rf mean sd p)
    ∧ (∀ (rf mean sd : Rat) (p : Interval),
        ofSortino (Generated.Machines.SortinoRatio.calculate rf mean sd p) = SortinoRatio.calculate rf mean sd p)
    ∧ (∀ (rf mean dd : Rat) (p : Interval),
        ofCalmar (Generated.Machines.CalmarRatio.calculate rf mean dd p) = CalmarRatio.calculate rf mean dd p)
    ∧ (∀ (mean : Rat) (p : Interval),
        ofRate (Generated.Machines.RateOfReturn.calculate mean p) = RateOfReturn.calculate mean p)
    ∧ (∀ (sqrt : Rat → Option Rat), SqrtTotal sqrt → ∀ (m : Metric) (target : Interval),
        Fits m.value (fnOf sqrt (periods m.interval target)) →
        ofSharpe (Generated.Machines.SharpeRatio.scale dict dict sqrt (toSharpe m) target)
          = SharpeRatio.scale (fnOf sqrt) m target)
    ∧ (∀ (sqrt : Rat → Option Rat), SqrtTotal sqrt → ∀ (m : Metric) (target : Interval),
        Fits m.value (fnOf sqrt (periods m.interval target)) →
        ofSortino (Generated.Machines.SortinoRatio.scale dict dict sqrt (toSortino m) target)
          = SortinoRatio.scale (fnOf sqrt) m target)
    ∧ (∀ (sqrt : Rat → Option Rat), SqrtTotal sqrt → ∀ (m : Metric) (target : Interval),
        Fits m.value (fnOf sqrt (periods m.interval target)) →
        ofCalmar (Generated.Machines.CalmarRatio.scale dict dict sqrt (toCalmar m) target)
          = CalmarRatio.scale (fnOf sqrt) m target)
    ∧ (∀ (m : Metric) (target : Interval), Fits m.value (periods m.interval target) →
        ofRate (Generated.Machines.RateOfReturn.scale dict dict (toRate m) target) = RateOfReturn.scale m target) :=
  ⟨⟨daily_interval_agrees, annual252_interval_agrees, annual365_interval_agrees⟩, sharpe_calculate_agrees,
    sortino_calculate_agrees, calmar_calculate_agrees, rate_calculate_agrees, sharpe_scale_agrees,
    sortino_scale_agrees, calmar_scale_agrees, rate_scale_agrees⟩

end BarterModel.KernelsAgree.MetricsSM
