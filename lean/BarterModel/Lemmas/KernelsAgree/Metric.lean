import BarterModel.Generated.Kernels
import BarterModel.Model.TearSheet
/-!
# Agreement: tear-sheet metric kernels

`calculate_pnl_return` (barter/src/engine/state/position.rs), `WinRate::calculate`
(barter/src/statistic/metric/win_rate.rs), `ProfitFactor::calculate`
(barter/src/statistic/metric/profit_factor.rs): generated definitions (from the current Rust source)
= the model definitions of `Model/TearSheet.lean` (C16), for ALL arguments. The generated functions
return the source's one-field structs (`WinRate { value }`, `ProfitFactor { value }`); the model
returns the value itself, so the statements project with `Option.map (·.value)`.
`checked_div` is `None` exactly on a zero divisor (overflow is not modelled).
-/
namespace BarterModel.KernelsAgree
open BarterModel

-- the proofs carry simp lemmas for constants the current source may not mention
set_option linter.unusedSimpArgs false

/-- `Decimal::abs` of the translator's prelude = the model's `TearSheet.ratAbs`. -/
theorem abs_agrees_ratAbs (x : Rat) : Generated.Decimal.abs x = TearSheet.ratAbs x := rfl

/-- `Decimal::MAX` / `Decimal::MIN` of the prelude = the model's constants. -/
theorem decimal_bounds_agree :
    Generated.Decimal.MAX = TearSheet.decimalMax ∧ Generated.Decimal.MIN = TearSheet.decimalMin :=
  ⟨rfl, rfl⟩

/-- `|x| = 0 ↔ x = 0`. -/
theorem ratAbs_eq_zero (x : Rat) : TearSheet.ratAbs x = 0 ↔ x = 0 := by
  unfold TearSheet.ratAbs
  split <;> grind

/-- the source may spell a zero test `ZERO == x`. -/
theorem zero_eq_iff (x : Rat) : 0 = x ↔ x = 0 := eq_comm

/-- Shape-independent: unfold *everything generated for the group* (`gen_metric`: the listed kernels and whatever
auxiliary functions the translator found by lookup, under whatever names), the model's definitions and the prelude's
`checked_div`, then let `grind` decide by cases on the DATA (which of the arguments are zero, the sign under `abs`).
Nothing depends on how the source spells the zero tests (`x == ZERO`, `ZERO == x`, `x.is_zero()`), on early `return`
vs. `if`/`else` chains, or on the order of the guards. -/
local macro "metric_agree" : tactic => `(tactic|
  first
  | rfl
  | (simp only [gen_metric, Generated.Decimal.checked_div, TearSheet.calculatePnlReturn, TearSheet.WinRate.calculate,
      TearSheet.ProfitFactor.calculate, abs_agrees_ratAbs, decimal_bounds_agree.1, decimal_bounds_agree.2]; done)
  | (simp only [gen_metric, Generated.Decimal.checked_div, TearSheet.calculatePnlReturn, TearSheet.WinRate.calculate,
      TearSheet.ProfitFactor.calculate, abs_agrees_ratAbs, decimal_bounds_agree.1, decimal_bounds_agree.2];
     grind [ratAbs_eq_zero]))

/-- `calculate_pnl_return` (source) = `TearSheet.calculatePnlReturn` (model). -/
theorem calculate_pnl_return_agrees (pnlRealised priceEntryAverage quantityAbsMax : Rat) :
    Generated.calculate_pnl_return pnlRealised priceEntryAverage quantityAbsMax
      = TearSheet.calculatePnlReturn pnlRealised priceEntryAverage quantityAbsMax := by metric_agree

/-- `WinRate::calculate` (source) = `TearSheet.WinRate.calculate` (model): the source's
`checked_div(..)?` never takes its `None` exit, because `total ≠ 0` on that branch. -/
theorem win_rate_calculate_agrees (wins total : Rat) :
    (Generated.WinRate.calculate wins total).map (·.value) = TearSheet.WinRate.calculate wins total := by
  metric_agree

/-- `ProfitFactor::calculate` (source) = `TearSheet.ProfitFactor.calculate` (model). -/
theorem profit_factor_calculate_agrees (profitsGrossAbs lossesGrossAbs : Rat) :
    (Generated.ProfitFactor.calculate profitsGrossAbs lossesGrossAbs).map (·.value)
      = TearSheet.ProfitFactor.calculate profitsGrossAbs lossesGrossAbs := by
  metric_agree

/-- All tear-sheet kernels at once. -/
theorem metric_kernels_agree :
    (∀ a b c : Rat, Generated.calculate_pnl_return a b c = TearSheet.calculatePnlReturn a b c)
    ∧ (∀ w t : Rat, (Generated.WinRate.calculate w t).map (·.value) = TearSheet.WinRate.calculate w t)
    ∧ (∀ p l : Rat, (Generated.ProfitFactor.calculate p l).map (·.value)
        = TearSheet.ProfitFactor.calculate p l) :=
  ⟨calculate_pnl_return_agrees, win_rate_calculate_agrees, profit_factor_calculate_agrees⟩

end BarterModel.KernelsAgree
