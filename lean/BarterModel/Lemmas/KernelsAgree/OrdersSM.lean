import BarterModel.Generated.Machines3
import BarterModel.Model.Orders
import BarterModel.Lemmas.KernelsAgree.MapVocab
/-!
# Agreement: the engine's order table (`Orders`) as a state machine over a `FnvHashMap` (C01, C09)

`BarterModel.Generated.Machines.Orders.{update_from_order_snapshot, update_from_cancel_response,
record_in_flight_cancel, record_in_flight_open, default}` — with `Order::to_active`, `Order::from(&OrderRequestOpen)`,
`ActiveOrderState::open_meta`, `Open::quantity_remaining` and the structs / enums they work on — are regenerated
from `barter/src/engine/state/order/mod.rs`, `barter-execution/src/order/{mod,state,request}.rs` by
`tools/rust2lean_sm.py` (group `orders`, file `Generated/Machines3.lean`) on every run of `./check C01` / `./check C09`.
The `FnvHashMap<ClientOrderId, Order<..>>` and its Entry API are read through the translator's explicit map
vocabulary (`Rust.Map`, prelude of Machines3.lean; `Lemmas/KernelsAgree/MapVocab.lean` proves it is a finite map).

The theorems state, for ALL order tables, snapshots, responses and requests and for all instrument / asset key
types, that the generated functions are the hand-written `BarterModel.Orders.*` step functions that the C01 and C09
theorems are about, read through explicit abstraction maps:

* `ofOpen`, `ofActive` — bijections (`toOpen`, `toActive`) between the generated `Open` / `ActiveOrderState` and the
  model's `Open` / `Active`;
* `ofInactive`, `ofOState` — surjections: the model keeps the discriminant of `InactiveOrderState` only (its payloads
  — the `Cancelled` record, the `OrderError` — are never read by the tracking code, which is what these theorems show);
* `ofOrder`, `ofSnap` — surjections that forget the static fields the model drops (side, kind, time in force,
  strategy, instrument; `key.cid` of a stored order); the exchange key type is instantiated at `Nat` (the model's
  `exchange` field), the instrument and asset key types stay arbitrary;
* `ofMap` — the generated association list with `ofOrder` applied to every value. The model's `Orders` is the same
  association list with the same `lookup` / `insert` / `erase` (`lookup_ofMap`, `ofMap_insert`, `ofMap_remove`), so the
  correspondence is an equality of lists, position by position: no invariant ("keys unique") is needed for it.

`toOrder` / `toSnap` / `toMap` are sections of these maps (`ofMap_toMap` …): every model table and every model
snapshot is the image of a generated one, so nothing on the model side is left uncovered.

No inequivalence was found: the four functions agree with the model on every state, reachable or not.
-/
namespace BarterModel.KernelsAgree.OrdersSM
open BarterModel BarterModel.Orders
open BarterModel.Generated.Machines (Rust.Map Rust.Map.get Rust.Map.insert Rust.Map.remove)

namespace G
abbrev Open := Generated.Machines.Open
abbrev Active := Generated.Machines.ActiveOrderState
abbrev Inactive (A I : Type) := Generated.Machines.InactiveOrderState A I
abbrev OState (A I : Type) := Generated.Machines.OrderState A I
abbrev Key (I : Type) := Generated.Machines.OrderKey Nat I
/-- a tracked order: `Order<ExchangeKey, InstrumentKey, ActiveOrderState>` -/
abbrev Order (I : Type) := Generated.Machines.Order Nat I Active
/-- an order snapshot: `Order<ExchangeKey, InstrumentKey, OrderState<AssetKey, InstrumentKey>>` -/
abbrev Snap (A I : Type) := Generated.Machines.Order Nat I (OState A I)
abbrev Orders (I : Type) := Generated.Machines.Orders Nat I
abbrev Map (I : Type) := Rust.Map Nat (Order I)
abbrev ReqOpen (I : Type) := Generated.Machines.OrderEvent Generated.Machines.RequestOpen Nat I
abbrev ReqCancel (I : Type) := Generated.Machines.OrderEvent Generated.Machines.RequestCancel Nat I
abbrev Err (A I : Type) := Generated.Machines.OrderError A I
abbrev RespCancel (A I : Type) :=
  Generated.Machines.OrderEvent (Except (Err A I) Generated.Machines.Cancelled) Nat I
end G

set_option linter.unusedSectionVars false
variable {A I : Type} [DecidableEq A] [DecidableEq I]

/-! ## Record maps -/

def ofOpen (o : G.Open) : Open := ⟨o.id, o.time_exchange, o.filled_quantity⟩
def toOpen (o : Open) : G.Open := ⟨o.id, o.t, o.filled⟩
theorem ofOpen_toOpen (o : Open) : ofOpen (toOpen o) = o := rfl
theorem toOpen_ofOpen (o : G.Open) : toOpen (ofOpen o) = o := rfl

def ofActive : G.Active → Active
  | .OpenInFlight _ => .inFlight
  | .Open o => .opn (ofOpen o)
  | .CancelInFlight c => .cancelInFlight (c.order.map ofOpen)
def toActive : Active → G.Active
  | .inFlight => .OpenInFlight .mk
  | .opn o => .Open (toOpen o)
  | .cancelInFlight o => .CancelInFlight ⟨o.map toOpen⟩
theorem ofActive_toActive (a : Active) : ofActive (toActive a) = a := by
  rcases a with _ | o | (_ | o) <;> rfl
theorem toActive_ofActive (a : G.Active) : toActive (ofActive a) = a := by
  rcases a with ⟨⟨⟩⟩ | o | ⟨_ | o⟩ <;> rfl

def ofInactive : G.Inactive A I → Inactive
  | .Cancelled _ => .cancelled
  | .FullyFilled => .fullyFilled
  | .OpenFailed _ => .openFailed
  | .Expired => .expired
/-- a generated inactive state over a model discriminant (payloads arbitrary). -/
def toInactive (c : Generated.Machines.Cancelled) (e : G.Err A I) : Inactive → G.Inactive A I
  | .cancelled => .Cancelled c
  | .fullyFilled => .FullyFilled
  | .openFailed => .OpenFailed e
  | .expired => .Expired
theorem ofInactive_toInactive (c : Generated.Machines.Cancelled) (e : G.Err A I) (k : Inactive) : ofInactive (toInactive (A := A) (I := I) c e k) = k := by
  cases k <;> rfl

def ofOState : G.OState A I → OState
  | .Active a => .active (ofActive a)
  | .Inactive k => .inactive (ofInactive k)
def toOState (c : Generated.Machines.Cancelled) (e : G.Err A I) : OState → G.OState A I
  | .active a => .Active (toActive a)
  | .inactive k => .Inactive (toInactive c e k)
theorem ofOState_toOState (c : Generated.Machines.Cancelled) (e : G.Err A I) (s : OState) : ofOState (toOState (A := A) (I := I) c e s) = s := by
  cases s <;> simp [ofOState, toOState, ofActive_toActive, ofInactive_toInactive]

/-- the model's view of a tracked order: quantity, price, state and `key.exchange`. -/
def ofOrder (o : G.Order I) : Order := ⟨o.quantity, o.price, ofActive o.state, o.key.exchange⟩
/-- the model's view of an order snapshot (with its client order id). -/
def ofSnap (s : G.Snap A I) : Snap := ⟨s.key.cid, s.quantity, s.price, ofOState s.state, s.key.exchange⟩
/-- the order table: the same association list, `ofOrder` on every value. -/
def ofMap (m : G.Map I) : Orders := m.map fun kv => (kv.1, ofOrder kv.2)
def ofOrders (s : G.Orders I) : Orders := ofMap s.f0

/-- did the cancel request succeed? (`response.state.is_ok()`) -/
def isOk {ε α : Type} : Except ε α → Bool
  | .ok _ => true
  | .error _ => false

/-! ### sections: every model value is the image of a generated one (the forgotten fields given) -/

structure Static (I : Type) where
  instrument : I
  strategy : Nat
  side : Generated.Machines.Side
  kind : Generated.Machines.OrderKind
  tif : Generated.Machines.TimeInForce

def toOrder (st : Static I) (cid : Nat) (o : Order) : G.Order I :=
  ⟨⟨o.exchange, st.instrument, st.strategy, cid⟩, st.side, o.price, o.quantity, st.kind, st.tif, toActive o.state⟩
theorem ofOrder_toOrder (st : Static I) (cid : Nat) (o : Order) : ofOrder (toOrder st cid o) = o := by
  cases o; simp [ofOrder, toOrder, ofActive_toActive]

def toSnap (st : Static I) (c : Generated.Machines.Cancelled) (e : G.Err A I) (s : Snap) : G.Snap A I :=
  ⟨⟨s.exchange, st.instrument, st.strategy, s.cid⟩, st.side, s.price, s.quantity, st.kind, st.tif, toOState c e s.state⟩
theorem ofSnap_toSnap (st : Static I) (c : Generated.Machines.Cancelled) (e : G.Err A I) (s : Snap) : ofSnap (toSnap (A := A) st c e s) = s := by
  cases s; simp [ofSnap, toSnap, ofOState_toOState]

def toMap (st : Static I) (m : Orders) : G.Map I := m.map fun kv => (kv.1, toOrder st kv.1 kv.2)
theorem ofMap_toMap (st : Static I) (m : Orders) : ofMap (toMap st m) = m := by
  induction m with
  | nil => rfl
  | cons kv rest ih =>
    simp only [toMap, ofMap, List.map_cons, List.map_map] at ih ⊢
    simp [ih, ofOrder_toOrder]

/-! ## The map vocabulary against the model's association-list operations -/

theorem lookup_ofMap (m : G.Map I) (c : Nat) : lookup (ofMap m) c = (Rust.Map.get m c).map ofOrder := by
  induction m with
  | nil => rfl
  | cons kv rest ih =>
    obtain ⟨k, v⟩ := kv
    simp only [ofMap, List.map_cons] at ih ⊢
    by_cases h : k = c <;> simp [lookup, Rust.Map.get, h, ih]

theorem ofMap_remove (m : G.Map I) (c : Nat) : ofMap (Rust.Map.remove m c) = erase (ofMap m) c := by
  induction m with
  | nil => rfl
  | cons kv rest ih =>
    obtain ⟨k, v⟩ := kv
    simp only [ofMap, List.map_cons] at ih ⊢
    by_cases h : k = c <;> simp [erase, Rust.Map.remove, h, ih]

theorem ofMap_insert (m : G.Map I) (c : Nat) (v : G.Order I) :
    ofMap (Rust.Map.insert m c v) = insert (ofMap m) c (ofOrder v) := by
  simp only [Rust.Map.insert, Orders.insert, ← ofMap_remove]
  rfl

/-! ## Shape-independent proofs

Every proof below takes the records apart (`rcases`: case analysis on the DATA — is the id tracked, which state is
held, which state is reported, did the cancel succeed), unfolds *everything generated for the group* (`gen_orders`:
the listed functions and whatever auxiliary functions the translator found by lookup, under whatever names), the
entry view of the prelude, the model's definitions and the record maps, rewrites the three map operations into the
model's (`lookup_ofMap`, `ofMap_insert`, `ofMap_remove`) and lets `grind` decide what is left (comparisons of
timestamps, `quantity - filled = 0`, constructors). Nothing depends on the names of helper functions or on how the
source spells a decision (Entry API or `get` / `get_mut` / `insert` / `remove`; a tuple `match` with early returns or
nested `if let`; guards or `if`; `take().filter(..).unwrap_or_else(..)` or a `match` with a guard; `is_none_or` with a
closure or a `match`; nested patterns; reordered disjoint arms; flipped comparisons; hoisted locals). -/

open Lean.Parser.Tactic in
/-- everything generated for the group, the entry view, the model's definitions, the record maps and the map laws -/
local macro "unfold_ord" loc:(location)? : tactic => `(tactic|
  simp only [gen_orders, Generated.Machines.Rust.Map.entry, Generated.Machines.Rust.Map.empty,
    updateFromSnapshot, updateFromCancelResponse, recordInFlightCancel,
    recordInFlightOpen, setState, remZero, Active.openMeta, ofOpen, ofActive, ofInactive, ofOState, ofOrder, ofSnap,
    ofOrders, isOk, lookup_ofMap, ofMap_insert, ofMap_remove, Option.map] $[$loc]?)

local macro "ord_agree" : tactic => `(tactic| first | rfl | (unfold_ord; done) | (unfold_ord; grind))

/-- after the case analysis on the data: unfold again (the `match`es on the data reduce), then `grind`, which may push
the abstraction map through what is left of the code's own `if`s with the three map laws -/
local macro "ord_close" : tactic => `(tactic| first
  | rfl
  | (unfold_ord; done)
  | (unfold_ord; grind [ofMap_insert, ofMap_remove, ofOrder, ofActive, ofOpen])
  | grind [ofMap_insert, ofMap_remove, ofOrder, ofActive, ofOpen])

theorem quantity_remaining_agrees (o : G.Open) (q : Rat) :
    decide (Generated.Machines.Open.quantity_remaining o q = 0) = remZero q (ofOpen o) := by
  rcases o with ⟨id, t, f⟩
  unfold_ord
  grind

theorem open_meta_agrees (a : G.Active) :
    (Generated.Machines.ActiveOrderState.open_meta a).map ofOpen = (ofActive a).openMeta := by
  rcases a with ⟨⟨⟩⟩ | o | ⟨_ | o⟩ <;> ord_agree

theorem to_active_agrees (s : G.Snap A I) :
    (Generated.Machines.Order.to_active s).map ofOrder
      = match (ofSnap s).state with
        | .active a => some ⟨(ofSnap s).quantity, (ofSnap s).price, a, (ofSnap s).exchange⟩
        | .inactive _ => none := by
  rcases s with ⟨⟨ex, ins, st, cid⟩, side, price, qty, kind, tif, state⟩
  rcases state with a | k <;> ord_agree

theorem default_agrees : ofOrders (Generated.Machines.Orders.default (InstrumentKey := I)) = [] := by ord_agree

/-- **`record_in_flight_open`** (with `Order::from(&OrderRequestOpen)`) is the model's `recordInFlightOpen`. -/
theorem record_in_flight_open_agrees (s : G.Orders I) (rq : G.ReqOpen I) :
    ofOrders (Generated.Machines.Orders.record_in_flight_open s rq)
      = recordInFlightOpen (ofOrders s) rq.key.cid rq.state.quantity rq.state.price rq.key.exchange := by
  rcases s with ⟨m⟩
  rcases rq with ⟨⟨ex, ins, st, cid⟩, ⟨side, price, qty, kind, tif⟩⟩
  unfold_ord
  cases Rust.Map.get m cid <;> ord_close

/-- **`record_in_flight_cancel`** is the model's `recordInFlightCancel`. -/
theorem record_in_flight_cancel_agrees (s : G.Orders I) (rq : G.ReqCancel I) :
    ofOrders (Generated.Machines.Orders.record_in_flight_cancel s rq)
      = recordInFlightCancel (ofOrders s) rq.key.cid := by
  rcases s with ⟨m⟩
  rcases rq with ⟨⟨ex, ins, st, cid⟩, ⟨id⟩⟩
  unfold_ord
  rcases Rust.Map.get m cid with _ | ⟨key, side, price, qty, kind, tif, (⟨⟨⟩⟩ | o | ⟨_ | o⟩)⟩ <;> ord_close

/-- **`update_from_cancel_response`** is the model's `updateFromCancelResponse`. -/
theorem update_from_cancel_response_agrees (s : G.Orders I) (r : G.RespCancel A I) :
    ofOrders (Generated.Machines.Orders.update_from_cancel_response s r)
      = updateFromCancelResponse (ofOrders s) r.key.cid (isOk r.state) := by
  rcases s with ⟨m⟩
  rcases r with ⟨⟨ex, ins, st, cid⟩, (e | c)⟩ <;>
  · unfold_ord
    rcases Rust.Map.get m cid with _ | ⟨key, side, price, qty, kind, tif, (⟨⟨⟩⟩ | o | ⟨_ | o⟩)⟩ <;> ord_close

/-- **`update_from_order_snapshot`** is the model's `updateFromSnapshot`. -/
theorem update_from_order_snapshot_agrees (s : G.Orders I) (sn : Generated.Machines.Snapshot (G.Snap A I)) :
    ofOrders (Generated.Machines.Orders.update_from_order_snapshot s sn)
      = updateFromSnapshot (ofOrders s) (ofSnap sn.f0) := by
  rcases s with ⟨m⟩
  rcases sn with ⟨⟨⟨ex, ins, st, cid⟩, side, price, qty, kind, tif, state⟩⟩
  rcases state with (⟨⟨⟩⟩ | u | ⟨_ | u⟩) | k <;>
  · unfold_ord
    rcases Rust.Map.get m cid with _ | ⟨key, side', price', qty', kind', tif', (⟨⟨⟩⟩ | o | ⟨_ | o⟩)⟩ <;> ord_close

/-! ## Everything at once -/

/-- One input to the generated order table, mirroring the model's `Op`. -/
inductive GOp (A I : Type) where
  | recOpen (rq : G.ReqOpen I)
  | recCancel (rq : G.ReqCancel I)
  | snapshot (sn : Generated.Machines.Snapshot (G.Snap A I))
  | cancelResp (r : G.RespCancel A I)

def GOp.toOp : GOp A I → Op
  | .recOpen rq => .recOpen rq.key.cid rq.state.quantity rq.state.price rq.key.exchange
  | .recCancel rq => .recCancel rq.key.cid
  | .snapshot sn => .snapshot (ofSnap sn.f0)
  | .cancelResp r => .cancelResp r.key.cid (isOk r.state)

/-- the generated step function: the four translated entry points -/
def gstep (s : G.Orders I) : GOp A I → G.Orders I
  | .recOpen rq => Generated.Machines.Orders.record_in_flight_open s rq
  | .recCancel rq => Generated.Machines.Orders.record_in_flight_cancel s rq
  | .snapshot sn => Generated.Machines.Orders.update_from_order_snapshot s sn
  | .cancelResp r => Generated.Machines.Orders.update_from_cancel_response s r

/-- the model's `step` IS the generated step, for every table and every input. -/
theorem step_agrees (s : G.Orders I) (op : GOp A I) : ofOrders (gstep s op) = step (ofOrders s) op.toOp := by
  cases op with
  | recOpen rq => exact record_in_flight_open_agrees s rq
  | recCancel rq => exact record_in_flight_cancel_agrees s rq
  | snapshot sn => exact update_from_order_snapshot_agrees s sn
  | cancelResp r => exact update_from_cancel_response_agrees s r

/-- ... and so is every run: folding the generated functions from the generated `default` is the model's `run`. -/
theorem run_agrees (s : G.Orders I) (ops : List (GOp A I)) :
    ofOrders (ops.foldl gstep s) = run (ofOrders s) (ops.map GOp.toOp) := by
  induction ops generalizing s with
  | nil => rfl
  | cons op rest ih => simp only [List.foldl_cons, List.map_cons, run] at ih ⊢; rw [ih, step_agrees]

/-- every model `Op` is the image of a generated input (the forgotten fields given), so `step_agrees` covers the
whole of the model's alphabet. -/
def ofOpSection (st : Static I) (c : Generated.Machines.Cancelled) (e : G.Err A I) : Op → GOp A I
  | .recOpen cid q p x => .recOpen ⟨⟨x, st.instrument, st.strategy, cid⟩, ⟨st.side, p, q, st.kind, st.tif⟩⟩
  | .recCancel cid => .recCancel ⟨⟨0, st.instrument, st.strategy, cid⟩, ⟨none⟩⟩
  | .snapshot s => .snapshot ⟨toSnap st c e s⟩
  | .cancelResp cid ok => .cancelResp ⟨⟨0, st.instrument, st.strategy, cid⟩, if ok then .ok c else .error e⟩

theorem toOp_section (st : Static I) (c : Generated.Machines.Cancelled) (e : G.Err A I) (op : Op) : (ofOpSection (A := A) st c e op).toOp = op := by
  rcases op with ⟨cid, q, p, x⟩ | cid | s | ⟨cid, ok⟩
  · rfl
  · rfl
  · simp [ofOpSection, GOp.toOp, ofSnap_toSnap]
  · cases ok <;> rfl

theorem orders_sm_agree :
    (∀ (s : G.Orders I) (sn : Generated.Machines.Snapshot (G.Snap A I)),
        updateFromSnapshot (ofOrders s) (ofSnap sn.f0) = ofOrders (Generated.Machines.Orders.update_from_order_snapshot s sn))
    ∧ (∀ (s : G.Orders I) (r : G.RespCancel A I),
        updateFromCancelResponse (ofOrders s) r.key.cid (isOk r.state)
          = ofOrders (Generated.Machines.Orders.update_from_cancel_response s r))
    ∧ (∀ (s : G.Orders I) (rq : G.ReqCancel I),
        recordInFlightCancel (ofOrders s) rq.key.cid = ofOrders (Generated.Machines.Orders.record_in_flight_cancel s rq))
    ∧ (∀ (s : G.Orders I) (rq : G.ReqOpen I),
        recordInFlightOpen (ofOrders s) rq.key.cid rq.state.quantity rq.state.price rq.key.exchange
          = ofOrders (Generated.Machines.Orders.record_in_flight_open s rq))
    ∧ (∀ (s : G.Orders I) (ops : List (GOp A I)), run (ofOrders s) (ops.map GOp.toOp) = ofOrders (ops.foldl gstep s))
    ∧ ofOrders (Generated.Machines.Orders.default (InstrumentKey := I)) = []
    ∧ (∀ (st : Static I) (m : Orders), ofMap (toMap st m) = m)
    ∧ (∀ (st : Static I) (c : Generated.Machines.Cancelled) (e : G.Err A I) (op : Op), (ofOpSection (A := A) st c e op).toOp = op)
    ∧ (∀ a : Active, ofActive (toActive a) = a) ∧ (∀ a : G.Active, toActive (ofActive a) = a) :=
  ⟨fun s sn => (update_from_order_snapshot_agrees s sn).symm, fun s r => (update_from_cancel_response_agrees s r).symm,
    fun s rq => (record_in_flight_cancel_agrees s rq).symm, fun s rq => (record_in_flight_open_agrees s rq).symm,
    fun s ops => (run_agrees s ops).symm, default_agrees, ofMap_toMap, toOp_section, ofActive_toActive, toActive_ofActive⟩

end BarterModel.KernelsAgree.OrdersSM
