import BarterModel.Generated.Machines4
import BarterModel.Model.Engine
/-!
# Agreement: `send_request`, `send_requests` and their output records (C03)

`BarterModel.Generated.Machines.{Engine.send_request, Engine.send_requests, SendRequestsOutput.{new, is_empty,
unrecoverable_errors}, SendCancelsAndOpensOutput.{new, is_empty, unrecoverable_errors}}` with `EngineError`,
`RecoverableEngineError`, `UnrecoverableEngineError`, `ExecutionRequest`, `SendRequestsOutput`, `SendCancelsAndOpensOutput`
and the traits `ExecutionTxMap`, `Tx`, `Unrecoverable` (records of their methods) are regenerated from
`barter/src/engine/action/send_requests.rs`, `barter/src/engine/{error,execution_tx}.rs`, `barter/src/execution/request.rs`,
`barter-integration/src/{lib,channel}.rs` by `tools/rust2lean_sm.py` (group `send_requests`, file `Generated/Machines4.lean`)
on every run of `./check C03`.

## How the code is read

`ExecutionTxs` is a type parameter bound by `ExecutionTxMap<ExchangeKey, InstrumentKey>`: `find` is the field of an explicit
record parameter, its associated type `ExecutionTx` a further type parameter bound by `Tx<Item = ExecutionRequest<..>>`,
whose `send` is again a record field, and `Tx::Error: Unrecoverable` gives `is_unrecoverable`. **A `&self` trait method is a
FUNCTION of its arguments**: `send` returns a result and changes nothing the translated code can see — the DELIVERY into the
channel (the model's `log`) is the transmitter's own, untranslated, effect; and the result of sending one request does not
depend on what was sent before within the same call. This is the model's own documented assumption about a link
(`linkResult`: the result is a function of the link's state, which a send does not change) — it is exact for the
`UnboundedTx` of the engine and an idealisation for a transmitter whose answers depend on its fill level.
`ExecutionRequest::from(request.clone())` is the explicit conversion parameter of the `where` bound; `NoneOneOrMany` is the
fixed vocabulary of the prelude; `partition_result()` is `Rust.Iter.partition_result`.

## What is stated (for ALL engines, transmitter maps, transmitters, requests; NO hypothesis)

* `send_request_agrees` — EQUALITY up to the message texts: `find` fails ⇒ that `UnrecoverableEngineError`, wrapped; `send`
  fails with an `is_unrecoverable` error ⇒ `Unrecoverable(ExecutionChannelTerminated)`; fails otherwise ⇒
  `Recoverable(ExecutionChannelUnhealthy)`; else `Ok(())`. `outcome` names the four cases with the model's `SendError`.
* `send_requests_agrees` — EQUALITY: `sent` is `NoneOneOrMany::from` of the requests whose `send_request` is `Ok`, `errors`
  of the others paired with their error, both in the order of the input: the model's `sendRequests` (its `filter` /
  `filterMap`) with the generated `send_request` in the place of `linkResult`.
* `send_requests_refines_model` — against the model's `sendRequests` itself, for request abstractions `toReq` and any
  engine `e`, under the instantiation hypothesis `LinksAgree` (for every request of the call the outcome of the generated
  `send_request` is the model's `linkResult` at the request's exchange): same `sent`, same `errors` with the same error
  kinds. What the model adds — the delivered requests are appended to `log` — is the untranslated effect of `Tx::send`.
* `is_empty_agrees`, `unrecoverable_errors_agrees`, `fatal_agrees`, `pair_*`: the readers of the output records are the
  model's `SendOut.isEmpty` / `fatal` (`unrecoverable_errors().is_none()` ⇔ no unrecoverable error was reported).
-/
namespace BarterModel.KernelsAgree.SendRequestsSM
open BarterModel BarterModel.Engine
open BarterModel.Generated.Machines (Rust.NoneOneOrMany Rust.Str)

namespace G
abbrev EngineError := Generated.Machines.EngineError
abbrev Unrec := Generated.Machines.UnrecoverableEngineError
abbrev Engine (C S X St R : Type) := Generated.Machines.Engine C S X St R
abbrev Req (K E I : Type) := Generated.Machines.OrderEvent K E I
abbrev XReq (E I : Type) := Generated.Machines.ExecutionRequest E I
abbrev TxMap (X E I T : Type) := Generated.Machines.ExecutionTxMap X E I T
abbrev Tx (T E I Er : Type) := Generated.Machines.Tx T (XReq E I) Er
abbrev UnrecT (Er : Type) := Generated.Machines.Unrecoverable Er
abbrev Out (K E I : Type) := Generated.Machines.SendRequestsOutput K E I
abbrev Pair (E I : Type) := Generated.Machines.SendCancelsAndOpensOutput E I
end G

set_option linter.unusedSectionVars false
set_option linter.unusedSimpArgs false   -- (proof scripts cover two spellings of the source: one of them leaves arguments unused)
variable {C S X St R E I K T Er : Type} [DecidableEq C] [DecidableEq S] [DecidableEq X] [DecidableEq St] [DecidableEq R]
  [DecidableEq E] [DecidableEq I] [DecidableEq K] [DecidableEq T] [DecidableEq Er]

/-! ## `send_request` -/

/-- the generated `send_request` / `send_requests` with their record parameters given BY NAME (the order in which the
translator lists them is an accident of the order of first use in the source) -/
abbrev sr (m : G.TxMap X E I T) (tx : G.Tx T E I Er) (conv : G.Req K E I → G.XReq E I) (u : G.UnrecT Er)
    (e : G.Engine C S X St R) (r : G.Req K E I) : Except G.EngineError Unit :=
  Generated.Machines.Engine.send_request (ExecutionTxs_ExecutionTxMap := m) (ExecutionTxs_ExecutionTx_Tx := tx)
    (ExecutionRequest_from := conv) (ExecutionTxs_ExecutionTx_Error_Unrecoverable := u) e r
abbrev srs (m : G.TxMap X E I T) (tx : G.Tx T E I Er) (conv : G.Req K E I → G.XReq E I) (u : G.UnrecT Er)
    (e : G.Engine C S X St R) (rs : List (G.Req K E I)) : G.Out K E I :=
  Generated.Machines.Engine.send_requests (ExecutionTxs_ExecutionTxMap := m) (ExecutionTxs_ExecutionTx_Tx := tx)
    (ExecutionRequest_from := conv) (ExecutionTxs_ExecutionTx_Error_Unrecoverable := u) e rs

/-- the four outcomes of sending one request, named as in the model (`none` = delivered) -/
def outcome (m : G.TxMap X E I T) (tx : G.Tx T E I Er) (conv : G.Req K E I → G.XReq E I) (u : G.UnrecT Er)
    (e : G.Engine C S X St R) (r : G.Req K E I) : Option SendError :=
  match m.find e.execution_txs r.key.exchange with
  | .error _ => some .index
  | .ok t =>
    match tx.send (fun x => x) t (conv r) with
    | .ok _ => none
    | .error er => if u.is_unrecoverable er then some .terminated else some .unhealthy

/-- an `EngineError` as the model's `SendError` (message texts forgotten; every `UnrecoverableEngineError` that `find` may
return counts as `index`: the model's "no link for the exchange / index out of range") -/
def ofErr : G.EngineError → SendError
  | .Recoverable _ => .unhealthy
  | .Unrecoverable (.ExecutionChannelTerminated _) => .terminated
  | .Unrecoverable _ => .index

theorem send_request_eq (m : G.TxMap X E I T) (tx : G.Tx T E I Er) (conv : G.Req K E I → G.XReq E I) (u : G.UnrecT Er)
    (e : G.Engine C S X St R) (r : G.Req K E I) :
    sr m tx conv u e r
      = match m.find e.execution_txs r.key.exchange with
        | .error ue => .error (.Unrecoverable ue)
        | .ok t =>
          match tx.send (fun x => x) t (conv r) with
          | .ok _ => .ok ()
          | .error er =>
            if u.is_unrecoverable er then .error (.Unrecoverable (.ExecutionChannelTerminated ⟨[]⟩))
            else .error (.Recoverable (.ExecutionChannelUnhealthy ⟨[]⟩)) := by
  simp only [sr, gen_send_requests]
  cases m.find e.execution_txs r.key.exchange with
  | error ue => rfl
  | ok t =>
    simp only
    cases tx.send (fun x => x) t (conv r) with
    | ok v => cases v; rfl
    | error er => by_cases h : u.is_unrecoverable er = true <;> simp [h]

/-- `send_request` is `Ok` exactly when the outcome is "delivered"; otherwise its error is of the outcome's kind — provided
`find` reports a missing link as an `IndexError` (what `MultiExchangeTxMap::find` does; any other `UnrecoverableEngineError`
but `ExecutionChannelTerminated` is read as `index` as well). -/
theorem send_request_agrees (m : G.TxMap X E I T) (tx : G.Tx T E I Er) (conv : G.Req K E I → G.XReq E I) (u : G.UnrecT Er)
    (e : G.Engine C S X St R) (r : G.Req K E I)
    (hfind : ∀ x ue s, m.find e.execution_txs x = .error ue → ue ≠ .ExecutionChannelTerminated s) :
    (match sr m tx conv u e r with
      | .ok _ => none
      | .error er => some (ofErr er)) = outcome m tx conv u e r := by
  rw [send_request_eq]
  unfold outcome
  cases hf : m.find e.execution_txs r.key.exchange with
  | error ue =>
    have := hfind r.key.exchange ue
    cases ue <;> simp_all [ofErr]
  | ok t =>
    simp only
    cases tx.send (fun x => x) t (conv r) with
    | ok v => rfl
    | error er => by_cases h : u.is_unrecoverable er = true <;> simp [h, ofErr]

/-! ## `send_requests` -/

theorem from_vec_to_list {α : Type} (l : List α) : (Rust.NoneOneOrMany.from_vec l).to_list = l := by
  match l with
  | [] => rfl
  | [x] => rfl
  | x :: y :: rest => rfl

/-- a `for` loop that pushes every item to one of two vectors according to `f` is the order-preserving partition by `f`
(for the loop spelling of `send_requests`) -/
theorem foldl_partition {α ε : Type} (f : α → Except ε Unit)
    (step : List α × List (α × ε) → α → List α × List (α × ε))
    (hstep : ∀ acc r, step acc r = match f r with
      | .ok _ => (acc.1 ++ [r], acc.2)
      | .error er => (acc.1, acc.2 ++ [(r, er)]))
    (l : List α) (acc : List α × List (α × ε)) :
    List.foldl step acc l
      = (acc.1 ++ l.filter (fun r => match f r with | .ok _ => true | .error _ => false),
         acc.2 ++ l.filterMap (fun r => match f r with | .ok _ => none | .error er => some (r, er))) := by
  induction l generalizing acc with
  | nil => simp
  | cons r rest ih =>
    simp only [List.foldl_cons, ih, hstep, List.filter_cons, List.filterMap_cons]
    cases f r <;> simp

/-- **`send_requests` is the order-preserving partition by `send_request`**: `sent` the requests whose `send_request` is
`Ok`, `errors` the others with their error. Two proof scripts, for the two spellings the source may use — the iterator
chain `map(..).partition_result()` (induction on the requests directly on the generated expression: no step names the
closure) and the `for` loop pushing to two vectors (`foldl_partition`; the loop body is matched by unification). -/
theorem partition_agrees (m : G.TxMap X E I T) (tx : G.Tx T E I Er) (conv : G.Req K E I → G.XReq E I) (u : G.UnrecT Er)
    (e : G.Engine C S X St R) (rs : List (G.Req K E I)) :
    srs m tx conv u e rs
      = ⟨Rust.NoneOneOrMany.from_vec (rs.filter fun r => match sr m tx conv u e r with
            | .ok _ => true | .error _ => false),
         Rust.NoneOneOrMany.from_vec (rs.filterMap fun r => match sr m tx conv u e r with
            | .ok _ => none | .error er => some (r, er))⟩ := by
  simp only [srs, sr, Generated.Machines.Engine.send_requests, Generated.Machines.SendRequestsOutput.new]
  first
  | (congr 1
     · congr 1
       induction rs with
       | nil => rfl
       | cons r rest ih =>
         simp only [List.map_cons, List.filter_cons]
         cases Generated.Machines.Engine.send_request m tx conv u e r with
         | ok v => simp [Generated.Machines.Rust.Iter.partition_result, ih]
         | error er => simp [Generated.Machines.Rust.Iter.partition_result, ih]
     · congr 1
       induction rs with
       | nil => rfl
       | cons r rest ih =>
         simp only [List.map_cons, List.filterMap_cons]
         cases Generated.Machines.Engine.send_request m tx conv u e r with
         | ok v => simp [Generated.Machines.Rust.Iter.partition_result, ih]
         | error er => simp [Generated.Machines.Rust.Iter.partition_result, ih])
  | (rw [foldl_partition (fun r => Generated.Machines.Engine.send_request m tx conv u e r)]
     · simp only [List.nil_append]
       congr 2
       · congr 1; funext r; cases Generated.Machines.Engine.send_request m tx conv u e r <;> rfl
       · congr 1; funext r; cases Generated.Machines.Engine.send_request m tx conv u e r <;> rfl
     · intro acc r
       rcases acc with ⟨s, er⟩
       cases Generated.Machines.Engine.send_request m tx conv u e r <;> rfl)

theorem send_requests_agrees (m : G.TxMap X E I T) (tx : G.Tx T E I Er) (conv : G.Req K E I → G.XReq E I) (u : G.UnrecT Er)
    (e : G.Engine C S X St R) (rs : List (G.Req K E I)) :
    (srs m tx conv u e rs).sent.to_list
        = (rs.filter fun r => match sr m tx conv u e r with
            | .ok _ => true | .error _ => false) ∧
    (srs m tx conv u e rs).errors.to_list
        = (rs.filterMap fun r => match sr m tx conv u e r with
            | .ok _ => none | .error er => some (r, er)) := by
  rw [partition_agrees]
  exact ⟨from_vec_to_list _, from_vec_to_list _⟩

/-- for every request of the call, the generated outcome is the model's `linkResult` at the request's exchange -/
def LinksAgree (links : List Link) (exch : E → Nat) (m : G.TxMap X E I T) (tx : G.Tx T E I Er)
    (conv : G.Req K E I → G.XReq E I) (u : G.UnrecT Er) (e : G.Engine C S X St R) (rs : List (G.Req K E I)) : Prop :=
  ∀ r ∈ rs, (match sr m tx conv u e r with
      | .ok _ => none
      | .error er => some (ofErr er)) = linkResult links (exch r.key.exchange)

/-- **`send_requests` refines the model's `sendRequests`** (its `SendOut`: what was sent, what failed and how). -/
theorem send_requests_refines_model {α : Type} (me : Eng) (toReq : α → Req) (abs : G.Req K E I → α) (exch : E → Nat)
    (hx : ∀ r, (toReq (abs r)).key.exchange = exch r.key.exchange)
    (m : G.TxMap X E I T) (tx : G.Tx T E I Er) (conv : G.Req K E I → G.XReq E I) (u : G.UnrecT Er)
    (e : G.Engine C S X St R) (rs : List (G.Req K E I)) (hl : LinksAgree me.links exch m tx conv u e rs) :
    (srs m tx conv u e rs).sent.to_list.map abs
        = (sendRequests me toReq (rs.map abs)).2.sent ∧
    (srs m tx conv u e rs).errors.to_list.map (fun p => (abs p.1, ofErr p.2))
        = (sendRequests me toReq (rs.map abs)).2.errors := by
  obtain ⟨hs, he⟩ := send_requests_agrees m tx conv u e rs
  rw [hs, he]
  clear hs he
  simp only [sendRequests]
  unfold LinksAgree at hl
  induction rs with
  | nil => exact ⟨rfl, rfl⟩
  | cons r rest ih =>
    have hr := hl r (by simp)
    have ih' := ih (fun x hx' => hl x (by simp [hx']))
    simp only [List.map_cons, List.filter_cons, List.filterMap_cons, hx]
    rw [← hr]
    cases sr m tx conv u e r with
    | ok v => simpa using ih'
    | error er => simpa using ih'

/-! ## The readers of the output records -/

theorem is_none_iff {α : Type} (c : Rust.NoneOneOrMany α) (hcanon : c = Rust.NoneOneOrMany.from_vec c.to_list) :
    c.is_none = c.to_list.isEmpty := by
  rw [hcanon]
  match c.to_list with
  | [] => rfl
  | [x] => rfl
  | x :: y :: rest => rfl

/-- `SendRequestsOutput::is_empty` on an output built by `send_requests` (canonical: `from(Vec)`): both lists empty -/
theorem is_empty_agrees (m : G.TxMap X E I T) (tx : G.Tx T E I Er) (conv : G.Req K E I → G.XReq E I) (u : G.UnrecT Er)
    (e : G.Engine C S X St R) (rs : List (G.Req K E I)) :
    Generated.Machines.SendRequestsOutput.is_empty (srs m tx conv u e rs)
      = ((srs m tx conv u e rs).sent.to_list.isEmpty &&
         (srs m tx conv u e rs).errors.to_list.isEmpty) := by
  rw [partition_agrees]
  simp only [Generated.Machines.SendRequestsOutput.is_empty, from_vec_to_list]
  generalize (rs.filter _) = a
  generalize (rs.filterMap _) = b
  match a, b with
  | [], [] => rfl
  | [], [y] => rfl
  | [], y :: z :: t => rfl
  | [x], _ => rfl
  | x :: y :: t, _ => rfl

/-- `unrecoverable_errors()`: `NoneOneOrMany::from_iter` of the unrecoverable errors among the reported ones, in order -/
theorem unrecoverable_errors_agrees (o : G.Out K E I) :
    (Generated.Machines.SendRequestsOutput.unrecoverable_errors o).to_list
      = o.errors.to_list.filterMap fun p => match p.2 with | .Unrecoverable ue => some ue | _ => none := by
  simp only [gen_send_requests, Generated.Machines.Rust.NoneOneOrMany.from_iter, from_vec_to_list]
  congr 1

/-- the audit's terminal test: `unrecoverable_errors()` is `None` exactly when no reported error is unrecoverable -/
theorem fatal_agrees (o : G.Out K E I) :
    (Generated.Machines.SendRequestsOutput.unrecoverable_errors o).is_none
      = !(o.errors.to_list.any fun p => (ofErr p.2).unrecoverable) := by
  simp only [gen_send_requests, Generated.Machines.Rust.NoneOneOrMany.from_iter]
  induction o.errors.to_list with
  | nil => rfl
  | cons p rest ih =>
    rcases p with ⟨r, er⟩
    cases er with
    | Recoverable x =>
      simp only [List.filterMap_cons, List.any_cons, ofErr, SendError.unrecoverable, Bool.false_or]
      exact ih
    | Unrecoverable ue =>
      have hu : (ofErr (.Unrecoverable ue)).unrecoverable = true := by cases ue <;> rfl
      simp only [List.filterMap_cons, List.any_cons, hu, Bool.true_or, Bool.not_true]
      match List.filterMap (fun p : G.Req K E I × G.EngineError =>
          match p.2 with | .Unrecoverable ue => some ue | _ => none) rest with
      | [] => rfl
      | x :: t => rfl

theorem pair_is_empty (p : G.Pair E I) :
    Generated.Machines.SendCancelsAndOpensOutput.is_empty p
      = (Generated.Machines.SendRequestsOutput.is_empty p.cancels && Generated.Machines.SendRequestsOutput.is_empty p.opens) := by
  rcases p with ⟨c, o⟩
  simp [gen_send_requests]

/-- `SendCancelsAndOpensOutput::unrecoverable_errors`: the cancels' errors `extend`ed by the opens' -/
theorem pair_unrecoverable_errors (p : G.Pair E I) :
    Generated.Machines.SendCancelsAndOpensOutput.unrecoverable_errors p
      = Rust.NoneOneOrMany.extend (Generated.Machines.SendRequestsOutput.unrecoverable_errors p.cancels)
          (Generated.Machines.SendRequestsOutput.unrecoverable_errors p.opens).to_list := by
  rcases p with ⟨c, o⟩
  simp only [Generated.Machines.SendCancelsAndOpensOutput.unrecoverable_errors]

/-- Everything above in one statement (re-exported as the audited theorem `send_requests_agree_with_source` of
Props/C03.lean). -/
theorem send_requests_agree :
    (∀ {C S X St R E I K T Er : Type} [DecidableEq C] [DecidableEq S] [DecidableEq X] [DecidableEq St] [DecidableEq R]
        [DecidableEq E] [DecidableEq I] [DecidableEq K] [DecidableEq T] [DecidableEq Er]
        (m : G.TxMap X E I T) (tx : G.Tx T E I Er) (conv : G.Req K E I → G.XReq E I) (u : G.UnrecT Er)
        (e : G.Engine C S X St R),
      (∀ (r : G.Req K E I),
        sr m tx conv u e r
          = match m.find e.execution_txs r.key.exchange with
            | .error ue => .error (.Unrecoverable ue)
            | .ok t =>
              match tx.send (fun x => x) t (conv r) with
              | .ok _ => .ok ()
              | .error er =>
                if u.is_unrecoverable er then .error (.Unrecoverable (.ExecutionChannelTerminated ⟨[]⟩))
                else .error (.Recoverable (.ExecutionChannelUnhealthy ⟨[]⟩))) ∧
      (∀ (rs : List (G.Req K E I)),
        (srs m tx conv u e rs).sent.to_list
            = (rs.filter fun r => match sr m tx conv u e r with
                | .ok _ => true | .error _ => false) ∧
        (srs m tx conv u e rs).errors.to_list
            = (rs.filterMap fun r => match sr m tx conv u e r with
                | .ok _ => none | .error er => some (r, er))) ∧
      (∀ {α : Type} (me : Eng) (toReq : α → Req) (abs : G.Req K E I → α) (exch : E → Nat),
        (∀ r, (toReq (abs r)).key.exchange = exch r.key.exchange) → ∀ (rs : List (G.Req K E I)),
        LinksAgree me.links exch m tx conv u e rs →
        (srs m tx conv u e rs).sent.to_list.map abs
            = (sendRequests me toReq (rs.map abs)).2.sent ∧
        (srs m tx conv u e rs).errors.to_list.map (fun p => (abs p.1, ofErr p.2))
            = (sendRequests me toReq (rs.map abs)).2.errors)) ∧
    (∀ {K E I : Type} [DecidableEq K] [DecidableEq E] [DecidableEq I] (o : G.Out K E I),
      (Generated.Machines.SendRequestsOutput.unrecoverable_errors o).to_list
        = (o.errors.to_list.filterMap fun p => match p.2 with | .Unrecoverable ue => some ue | _ => none) ∧
      (Generated.Machines.SendRequestsOutput.unrecoverable_errors o).is_none
        = !(o.errors.to_list.any fun p => (ofErr p.2).unrecoverable)) :=
  ⟨fun m tx conv u e => ⟨send_request_eq m tx conv u e, send_requests_agrees m tx conv u e,
     fun me toReq abs exch hx rs hl => send_requests_refines_model me toReq abs exch hx m tx conv u e rs hl⟩,
   fun o => ⟨unrecoverable_errors_agrees o, fatal_agrees o⟩⟩

end BarterModel.KernelsAgree.SendRequestsSM
