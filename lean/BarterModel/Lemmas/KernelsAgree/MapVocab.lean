import BarterModel.Generated.Machines3
/-!
# The map vocabulary of the translator is a finite map

`tools/rust2lean_sm.py` gives the `HashMap` / `IndexMap` operations it accepts a FIXED meaning on association
lists (prelude of `Generated/Machines3.lean`: `Rust.Map.{get, insert, remove, entry, values, map_values, len}`,
`Rust.IndexMap.{get, get_index, set, set_index, values, len}`). That meaning is part of the trusted reading of the
source. This file makes the trust small: it proves that the list implementation satisfies the laws that
characterise a finite map, so that what is trusted is only "a Rust `HashMap` is a finite map observed through
`get`" (and, for `IndexMap`, "a sequence of pairs observed through `get_index` and `get`").

* `get_empty`, `get_insert`, `get_remove`: the three equations of a finite map — hence the POSITION of a pair in
  the list is never observable through `get` (`get_congr_of_perm`-style facts are not even needed: every accepted
  operation is specified through `get`, `all` / `any` of the values, or is a homomorphism).
* `WF` (no key twice) is preserved by `insert`, `remove`, `map_values` and holds for `empty`; under `WF`
  `len` counts the keys (`len_insert_of_get_none`, `len_remove_of_get_some`), and `values` are exactly the bound
  values (`mem_values_iff`).
* the entry API is a view of `get` (`entry_occupied_iff`, `entry_vacant_iff`), write-back through an occupied entry
  or `get_mut` is `insert` (`get_insert` again).
* `IndexMap`: `set` / `set_index` keep length, keys and every other position (`get_index_set_index`,
  `get_set`, `keys_set`, `keys_set_index`).
-/
namespace BarterModel.KernelsAgree.MapVocab
open BarterModel.Generated.Machines

set_option linter.unusedSectionVars false
variable {K V : Type} [DecidableEq K]

/-! ## `HashMap` -/

theorem get_empty (k : K) : Rust.Map.get (Rust.Map.empty : Rust.Map K V) k = none := rfl

theorem get_remove (m : Rust.Map K V) (k k' : K) :
    Rust.Map.get (Rust.Map.remove m k) k' = if k' = k then none else Rust.Map.get m k' := by
  induction m with
  | nil => simp [Rust.Map.remove, Rust.Map.get]
  | cons kv rest ih =>
    obtain ⟨a, v⟩ := kv
    simp only [Rust.Map.remove]
    split <;> simp only [Rust.Map.get, ih] <;> grind

theorem get_insert (m : Rust.Map K V) (k k' : K) (v : V) :
    Rust.Map.get (Rust.Map.insert m k v) k' = if k' = k then some v else Rust.Map.get m k' := by
  simp only [Rust.Map.insert, Rust.Map.get, get_remove]
  grind

/-- no key occurs twice -/
def WF (m : Rust.Map K V) : Prop := (m.map (·.1)).Nodup

theorem wf_empty : WF (Rust.Map.empty : Rust.Map K V) := by simp [WF, Rust.Map.empty]

theorem keys_remove_subset (m : Rust.Map K V) (k a : K) :
    a ∈ (Rust.Map.remove m k).map (·.1) → a ∈ m.map (·.1) ∧ a ≠ k := by
  induction m with
  | nil => simp [Rust.Map.remove]
  | cons kv rest ih =>
    obtain ⟨b, v⟩ := kv
    by_cases h : b = k <;> simp [Rust.Map.remove, h] <;> grind

theorem wf_remove (m : Rust.Map K V) (k : K) (h : WF m) : WF (Rust.Map.remove m k) := by
  induction m with
  | nil => simpa [Rust.Map.remove] using h
  | cons kv rest ih =>
    obtain ⟨b, v⟩ := kv
    simp only [WF, List.map_cons, List.nodup_cons] at h
    by_cases hb : b = k
    · simpa [Rust.Map.remove, hb] using ih h.2
    · simp only [Rust.Map.remove, hb, ↓reduceIte, WF, List.map_cons, List.nodup_cons]
      exact ⟨fun hm => h.1 (keys_remove_subset rest k b hm).1, ih h.2⟩

theorem wf_insert (m : Rust.Map K V) (k : K) (v : V) (h : WF m) : WF (Rust.Map.insert m k v) := by
  simp only [Rust.Map.insert, WF, List.map_cons, List.nodup_cons]
  exact ⟨fun hm => (keys_remove_subset m k k hm).2 rfl, wf_remove m k h⟩

theorem wf_map_values (f : V → V) (m : Rust.Map K V) (h : WF m) : WF (Rust.Map.map_values f m) := by
  simpa [WF, Rust.Map.map_values, List.map_map, Function.comp_def] using h

theorem get_map_values (f : V → V) (m : Rust.Map K V) (k : K) :
    Rust.Map.get (Rust.Map.map_values f m) k = (Rust.Map.get m k).map f := by
  induction m with
  | nil => rfl
  | cons kv rest ih =>
    obtain ⟨a, v⟩ := kv
    by_cases h : a = k <;> simp_all [Rust.Map.map_values, Rust.Map.get]

theorem get_none_iff (m : Rust.Map K V) (k : K) : Rust.Map.get m k = none ↔ k ∉ m.map (·.1) := by
  induction m with
  | nil => simp [Rust.Map.get]
  | cons kv rest ih =>
    obtain ⟨a, v⟩ := kv
    by_cases h : a = k <;> simp [Rust.Map.get, h, ih] <;> grind

theorem remove_of_get_none (m : Rust.Map K V) (k : K) (h : Rust.Map.get m k = none) : Rust.Map.remove m k = m := by
  induction m with
  | nil => rfl
  | cons kv rest ih =>
    obtain ⟨a, v⟩ := kv
    by_cases ha : a = k
    · simp [Rust.Map.get, ha] at h
    · simp only [Rust.Map.get, ha, ↓reduceIte] at h
      simp [Rust.Map.remove, ha, ih h]

/-- inserting a NEW key makes the map one longer. -/
theorem len_insert_of_get_none (m : Rust.Map K V) (k : K) (v : V) (h : Rust.Map.get m k = none) :
    Rust.Map.len (Rust.Map.insert m k v) = Rust.Map.len m + 1 := by
  simp [Rust.Map.len, Rust.Map.insert, remove_of_get_none m k h]

/-- on a well-formed map, removing a bound key makes it one shorter. -/
theorem len_remove_of_get_some (m : Rust.Map K V) (k : K) (v : V) (hw : WF m) (h : Rust.Map.get m k = some v) :
    Rust.Map.len (Rust.Map.remove m k) + 1 = Rust.Map.len m := by
  induction m with
  | nil => simp [Rust.Map.get] at h
  | cons kv rest ih =>
    obtain ⟨a, w⟩ := kv
    simp only [WF, List.map_cons, List.nodup_cons] at hw
    by_cases ha : a = k
    · subst ha
      have : Rust.Map.get rest a = none := (get_none_iff rest a).2 hw.1
      simp [Rust.Map.remove, Rust.Map.len, remove_of_get_none rest a this]
    · simp only [Rust.Map.get, ha, ↓reduceIte] at h
      have := ih hw.2 h
      simp only [Rust.Map.len] at this
      simp [Rust.Map.remove, ha, Rust.Map.len, this]

/-- on a well-formed map `values()` are exactly the bound values. -/
theorem mem_values_iff (m : Rust.Map K V) (hw : WF m) (v : V) :
    v ∈ Rust.Map.values m ↔ ∃ k, Rust.Map.get m k = some v := by
  induction m with
  | nil => simp [Rust.Map.values, Rust.Map.get]
  | cons kv rest ih =>
    obtain ⟨a, w⟩ := kv
    simp only [WF, List.map_cons, List.nodup_cons] at hw
    have ih := ih hw.2
    simp only [Rust.Map.values, List.map_cons, List.mem_cons] at ih ⊢
    constructor
    · rintro (rfl | h)
      · exact ⟨a, by simp [Rust.Map.get]⟩
      · obtain ⟨k, hk⟩ := ih.1 h
        refine ⟨k, ?_⟩
        have : a ≠ k := by
          intro e; subst e
          rw [(get_none_iff rest a).2 hw.1] at hk; cases hk
        simp [Rust.Map.get, this, hk]
    · rintro ⟨k, hk⟩
      by_cases ha : a = k
      · left; simpa [Rust.Map.get, ha] using hk.symm
      · right; exact ih.2 ⟨k, by simpa [Rust.Map.get, ha] using hk⟩

/-! ### the entry API is a view of `get` -/

theorem entry_occupied_iff (m : Rust.Map K V) (k : K) (e : Rust.OccupiedEntry K V) :
    Rust.Map.entry m k = .Occupied e ↔ e.key = k ∧ Rust.Map.get m k = some e.value := by
  rcases e with ⟨ek, ev⟩
  cases h : Rust.Map.get m k <;> simp [Rust.Map.entry, h] <;> grind

theorem entry_vacant_iff (m : Rust.Map K V) (k : K) (e : Rust.VacantEntry K) :
    Rust.Map.entry m k = .Vacant e ↔ e.key = k ∧ Rust.Map.get m k = none := by
  rcases e with ⟨ek⟩
  cases h : Rust.Map.get m k <;> simp [Rust.Map.entry, h] <;> grind

/-! ## `IndexMap` -/

theorem length_set (m : Rust.IndexMap K V) (k : K) (v : V) : (Rust.IndexMap.set m k v).length = m.length := by
  induction m with
  | nil => rfl
  | cons kv rest ih =>
    obtain ⟨a, w⟩ := kv
    by_cases h : a = k <;> simp [Rust.IndexMap.set, h, ih]

theorem keys_set (m : Rust.IndexMap K V) (k : K) (v : V) : (Rust.IndexMap.set m k v).map (·.1) = m.map (·.1) := by
  induction m with
  | nil => rfl
  | cons kv rest ih =>
    obtain ⟨a, w⟩ := kv
    by_cases h : a = k <;> simp [Rust.IndexMap.set, h, ih]

theorem get_set (m : Rust.IndexMap K V) (k k' : K) (v : V) :
    Rust.IndexMap.get (Rust.IndexMap.set m k v) k'
      = if k' = k ∧ (Rust.IndexMap.get m k).isSome then some v else Rust.IndexMap.get m k' := by
  induction m with
  | nil => simp [Rust.IndexMap.set, Rust.IndexMap.get, Rust.Map.get]
  | cons kv rest ih =>
    obtain ⟨a, w⟩ := kv
    simp only [Rust.IndexMap.get] at ih ⊢
    simp only [Rust.IndexMap.set]
    split <;> simp only [Rust.Map.get, ih] <;> grind

theorem length_set_index (m : Rust.IndexMap K V) (i : Nat) (v : V) : (Rust.IndexMap.set_index m i v).length = m.length := by
  unfold Rust.IndexMap.set_index
  split <;> simp

theorem keys_set_index (m : Rust.IndexMap K V) (i : Nat) (v : V) :
    (Rust.IndexMap.set_index m i v).map (·.1) = m.map (·.1) := by
  unfold Rust.IndexMap.set_index
  split
  · next kv h =>
    apply List.ext_getElem?
    intro j
    by_cases hj : i = j
    · subst hj; simp [List.getElem?_set, h]; grind
    · simp [hj]
  · rfl

theorem get_index_set_index (m : Rust.IndexMap K V) (i j : Nat) (v : V) :
    Rust.IndexMap.get_index (Rust.IndexMap.set_index m i v) j
      = if j = i then (Rust.IndexMap.get_index m i).map fun kv => (kv.1, v) else Rust.IndexMap.get_index m j := by
  unfold Rust.IndexMap.set_index Rust.IndexMap.get_index
  split
  · next kv h =>
    by_cases hj : i = j
    · subst hj; simp [List.getElem?_set, h]; grind
    · have : ¬ j = i := fun e => hj e.symm
      simp [hj, this]
  · next h => by_cases hj : j = i <;> simp_all

end BarterModel.KernelsAgree.MapVocab
