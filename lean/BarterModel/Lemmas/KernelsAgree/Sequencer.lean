import BarterModel.Generated.Machines
import BarterModel.Model.BinanceL2
/-!
# Agreement: the Binance L2 sequencers (spot/l2.rs, futures/l2.rs) as state machines

`BarterModel.Generated.Machines.Binance{Spot,FuturesUsd}OrderBookL2Sequencer.*` are regenerated from
the Rust source by `tools/rust2lean_sm.py` on every run of `./check C06` (`PREBUILD`). The theorems
below state that, for ALL sequencer states and ALL updates, the generated step functions are the
hand-written `BarterModel.BinanceL2.Sequencer.*` definitions the C06 theorems are about, read through
explicit (and proved) bijections of the state records:

* spot: model `Sequencer` ≃ generated `BinanceSpotOrderBookL2Sequencer` (same three fields);
* futures: model `Sequencer` ≃ generated `BinanceFuturesUsdOrderBookL2Sequencer × Nat` — the Rust
  futures struct has no `prev_last_update_id`; the model's third field is shown to be a pure passenger
  (`futures` theorems carry it through unchanged);
* updates: the generated record has exactly the `u64` fields of the Rust update struct (the only
  ones the sequencer can read); `spotIds` / `futIds` project the model's `Update` onto them and the
  model's result is rebuilt with the *model's own* update (`Ok(Some(update))` returns the value it
  was given: `*_returns_same_update`);
* errors: the generated `DataError` is the source enum restricted to `InvalidSequence { .. }`,
  embedded into the model's `DataError` by `err` (injective).

A change of one of the ten translated functions in the source makes a theorem here fail to build.
-/
namespace BarterModel.KernelsAgree.Sequencer
open BarterModel BarterModel.BinanceL2
open BarterModel.Generated.Machines (BinanceSpotOrderBookL2Sequencer BinanceFuturesUsdOrderBookL2Sequencer
  BinanceSpotOrderBookL2Update BinanceFuturesOrderBookL2Update)

abbrev GSpot := BinanceSpotOrderBookL2Sequencer
abbrev GFut := BinanceFuturesUsdOrderBookL2Sequencer
abbrev GErr := Generated.Machines.DataError

/-! ## State, update and error maps -/

/-- model state → generated spot state (field by field). -/
def toSpot (s : Sequencer) : GSpot := ⟨s.updatesProcessed, s.lastUpdateId, s.prevLastUpdateId⟩
/-- generated spot state → model state. -/
def ofSpot (g : GSpot) : Sequencer := ⟨g.updates_processed, g.last_update_id, g.prev_last_update_id⟩

theorem ofSpot_toSpot (s : Sequencer) : ofSpot (toSpot s) = s := rfl
theorem toSpot_ofSpot (g : GSpot) : toSpot (ofSpot g) = g := rfl

/-- model state → generated futures state (drops the field the Rust futures struct does not have). -/
def toFut (s : Sequencer) : GFut := ⟨s.updatesProcessed, s.lastUpdateId⟩
/-- generated futures state + the passenger field → model state. -/
def ofFut (g : GFut) (prev : Nat) : Sequencer := ⟨g.updates_processed, g.last_update_id, prev⟩

theorem ofFut_toFut (s : Sequencer) : ofFut (toFut s) s.prevLastUpdateId = s := rfl
theorem toFut_ofFut (g : GFut) (p : Nat) : toFut (ofFut g p) = g ∧ (ofFut g p).prevLastUpdateId = p := ⟨rfl, rfl⟩

/-- the `u64` fields of `BinanceSpotOrderBookL2Update`. -/
def spotIds (u : Update) : BinanceSpotOrderBookL2Update := ⟨u.firstUpdateId, u.lastUpdateId⟩
/-- the `u64` fields of `BinanceFuturesOrderBookL2Update`. -/
def futIds (u : Update) : BinanceFuturesOrderBookL2Update := ⟨u.firstUpdateId, u.lastUpdateId, u.prevLastUpdateId⟩

/-- generated error → model error. -/
def err : GErr → DataError
  | .InvalidSequence p f => .invalidSequence p f

theorem err_injective (a b : GErr) (h : err a = err b) : a = b := by
  cases a; cases b; simp [err] at h; simp [h]

/-- the image of `err` is exactly the terminal errors (`DataError::is_terminal`). -/
theorem err_range (e : DataError) : (∃ g, err g = e) ↔ e.isTerminal = true := by
  cases e with
  | invalidSequence p f => simp [DataError.isTerminal]; exact ⟨.InvalidSequence p f, rfl⟩
  | unidentifiable s => simp [DataError.isTerminal]; intro g; cases g; simp [err]

/-- `Result<(), DataError>`: generated → model. -/
def check : Except GErr Unit → Check
  | .ok () => .ok ()
  | .error e => .error (err e)

/-- `Result<Option<Update>, DataError>`: generated → model, given the model update that was passed in. -/
def validated {α : Type} (u : Update) : Except GErr (Option α) → Validated
  | .ok none => .dropped
  | .ok (some _) => .valid u
  | .error e => .error (err e)

/-! ## Shape-independent proofs

Every proof below unfolds *everything generated for the group* (`gen_sequencer`: the listed functions and whatever
auxiliary functions the translator found by lookup, under whatever names) together with the model's definitions and
the maps above, and then decides the goal by case analysis on the DATA (`grind`: the comparisons of the identifiers,
the constructors of `Bool` / `Except` / `Option`). Nothing depends on the names of helper functions or on whether the
source writes `if`/`else`, `match` on a bool, an early `return`, a flipped comparison or a hoisted `let`. -/

open Lean.Parser.Tactic in
/-- the model's definitions and the maps between model and generated records -/
local macro "unfold_seq" loc:(location)? : tactic => `(tactic|
  simp only [gen_sequencer, Sequencer.new, Sequencer.isFirstUpdate, Sequencer.validateFirstUpdate,
    Sequencer.validateNextUpdate, Sequencer.validateSequence, Sequencer.isOutdated, toSpot, ofSpot, toFut, ofFut,
    spotIds, futIds] $[$loc]?)

/-- unfold both sides, then case analysis on the data -/
local macro "seq_agree" : tactic => `(tactic|
  first
  | rfl
  | (unfold_seq; grind [check, err, validated]))

/-! ## Spot -/

theorem spot_new (id : Nat) : Sequencer.new id = ofSpot (BinanceSpotOrderBookL2Sequencer.new id) := by seq_agree

theorem spot_is_first_update (s : Sequencer) :
    s.isFirstUpdate = (toSpot s).is_first_update := by seq_agree

theorem spot_validate_first_update (s : Sequencer) (u : Update) :
    s.validateFirstUpdate .spot u = check ((toSpot s).validate_first_update (spotIds u)) := by seq_agree

theorem spot_validate_next_update (s : Sequencer) (u : Update) :
    s.validateNextUpdate .spot u = check ((toSpot s).validate_next_update (spotIds u)) := by seq_agree

theorem spot_validate_sequence (s : Sequencer) (u : Update) :
    s.validateSequence .spot u =
      (ofSpot ((toSpot s).validate_sequence (spotIds u)).1,
        validated u ((toSpot s).validate_sequence (spotIds u)).2) := by
  rcases s with ⟨n, l, p⟩      -- the state record, field by field (so that `ofSpot (toSpot ⟨n, l, p⟩)` computes)
  seq_agree

/-- `Ok(Some(update))` hands back the update it was given (generated side: the same `u64` record). -/
theorem spot_returns_same_update (g : GSpot) (v r : BinanceSpotOrderBookL2Update)
    (h : (g.validate_sequence v).2 = .ok (some r)) : r = v := by
  simp only [gen_sequencer] at h
  grind

/-! ## Futures -/

theorem fut_new (id : Nat) : Sequencer.new id = ofFut (BinanceFuturesUsdOrderBookL2Sequencer.new id) id := by seq_agree

theorem fut_is_first_update (s : Sequencer) :
    s.isFirstUpdate = (toFut s).is_first_update := by seq_agree

theorem fut_validate_first_update (s : Sequencer) (u : Update) :
    s.validateFirstUpdate .futures u = check ((toFut s).validate_first_update (futIds u)) := by seq_agree

theorem fut_validate_next_update (s : Sequencer) (u : Update) :
    s.validateNextUpdate .futures u = check ((toFut s).validate_next_update (futIds u)) := by seq_agree

/-- the model's third field is a passenger under the futures rules: it is handed to `ofFut` unchanged. -/
theorem fut_validate_sequence (s : Sequencer) (u : Update) :
    s.validateSequence .futures u =
      (ofFut ((toFut s).validate_sequence (futIds u)).1 s.prevLastUpdateId,
        validated u ((toFut s).validate_sequence (futIds u)).2) := by
  rcases s with ⟨n, l, p⟩
  seq_agree

theorem fut_returns_same_update (g : GFut) (v r : BinanceFuturesOrderBookL2Update)
    (h : (g.validate_sequence v).2 = .ok (some r)) : r = v := by
  simp only [gen_sequencer] at h
  grind

/-! ## Everything at once (re-exported as `Props.C06.kernels_agree_with_source`) -/

theorem sequencer_kernels_agree :
    (∀ id, Sequencer.new id = ofSpot (BinanceSpotOrderBookL2Sequencer.new id))
    ∧ (∀ s : Sequencer, s.isFirstUpdate = (toSpot s).is_first_update)
    ∧ (∀ (s : Sequencer) (u : Update),
        s.validateFirstUpdate .spot u = check ((toSpot s).validate_first_update (spotIds u)))
    ∧ (∀ (s : Sequencer) (u : Update),
        s.validateNextUpdate .spot u = check ((toSpot s).validate_next_update (spotIds u)))
    ∧ (∀ (s : Sequencer) (u : Update),
        s.validateSequence .spot u =
          (ofSpot ((toSpot s).validate_sequence (spotIds u)).1,
            validated u ((toSpot s).validate_sequence (spotIds u)).2))
    ∧ (∀ id, Sequencer.new id = ofFut (BinanceFuturesUsdOrderBookL2Sequencer.new id) id)
    ∧ (∀ s : Sequencer, s.isFirstUpdate = (toFut s).is_first_update)
    ∧ (∀ (s : Sequencer) (u : Update),
        s.validateFirstUpdate .futures u = check ((toFut s).validate_first_update (futIds u)))
    ∧ (∀ (s : Sequencer) (u : Update),
        s.validateNextUpdate .futures u = check ((toFut s).validate_next_update (futIds u)))
    ∧ (∀ (s : Sequencer) (u : Update),
        s.validateSequence .futures u =
          (ofFut ((toFut s).validate_sequence (futIds u)).1 s.prevLastUpdateId,
            validated u ((toFut s).validate_sequence (futIds u)).2)) :=
  ⟨spot_new, spot_is_first_update, spot_validate_first_update, spot_validate_next_update,
    spot_validate_sequence, fut_new, fut_is_first_update, fut_validate_first_update,
    fut_validate_next_update, fut_validate_sequence⟩

end BarterModel.KernelsAgree.Sequencer
