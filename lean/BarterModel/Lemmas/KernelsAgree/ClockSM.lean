import BarterModel.Generated.Machines2
import BarterModel.Model.Clock
/-!
# Agreement: `engine/clock.rs` (LiveClock, HistoricalClock) as state machines — sub-check C20K

`BarterModel.Generated.Machines.{LiveClock, HistoricalClock}.*` (`LiveClock::{time, process}`,
`HistoricalClock::{new, time, process}`, the structs, and the trait `TimeExchange` as the record of its
method) are regenerated from `barter/src/engine/clock.rs` by `tools/rust2lean_sm.py` (group `clock`,
file `Generated/Machines2.lean`) on every run of `./check C20K` (and of its parent C20).

* **Wall clock.** `Utc::now()` is the explicit parameter `utc_now` of every generated function that
  reads it (each reads it once), exactly as the model's `now`.
* **Lock.** `Arc<parking_lot::RwLock<HistoricalClockInner>>` is transparent in the translation (one
  owner, one thread): `read()` is the content, the `write()` guard is a local written back to
  `self.inner` after each assignment. The model makes the same simplification.
* **Resolution.** The translator's `DateTime` / `TimeDelta` are whole **milliseconds**
  (`num_milliseconds()` is the identity), the model's are **nanoseconds** (it keeps chrono's truncating
  `num_milliseconds` / `num_seconds`). The theorems embed the generated clock into the model by
  `ns = 1 000 000 · ms` (`scale`, `toClock`: injective) and state that on these millisecond-aligned
  instants the model's `new` / `time` / `process` ARE the generated functions. What the model says
  about instants between two milliseconds (e.g. `submillisecond_backstep`) is outside this tie.
* **Events.** `process` is generic in the event type; `event.time_exchange()` is a field of the
  explicit record `Event_TimeExchange : TimeExchange Event`; the model takes the already evaluated
  `Option` timestamp. The log severity of the out-of-order branch (`tracing` macros: skipped by the
  translator) is not part of the generated state, so the `Outcome` component is not compared.
-/
namespace BarterModel.KernelsAgree.ClockSM
open BarterModel

namespace G
abbrev LiveClock := Generated.Machines.LiveClock
abbrev HistoricalClock := Generated.Machines.HistoricalClock
abbrev TimeExchange := Generated.Machines.TimeExchange
end G

/-- milliseconds → nanoseconds. -/
def scale (ms : Int) : Int := 1000000 * ms

theorem scale_injective {a b : Int} (h : scale a = scale b) : a = b := by unfold scale at h; omega

/-- the generated clock state read at the model's resolution. -/
def toClock (c : G.HistoricalClock) : Clock.HistoricalClock :=
  ⟨scale c.inner.time_exchange_last, scale c.inner.time_live_last_event⟩

theorem toClock_injective {a b : G.HistoricalClock} (h : toClock a = toClock b) : a = b := by
  rcases a with ⟨⟨a1, a2⟩⟩; rcases b with ⟨⟨b1, b2⟩⟩
  simp only [toClock, Clock.HistoricalClock.mk.injEq] at h
  rw [scale_injective h.1, scale_injective h.2]

theorem numMilliseconds_scale (d : Int) : Clock.numMilliseconds (scale d) = d := by
  unfold Clock.numMilliseconds scale
  exact Int.mul_tdiv_cancel_left d (by decide)

theorem numSeconds_scale (d : Int) : Clock.numSeconds (scale d) = Int.tdiv d 1000 := by
  unfold Clock.numSeconds scale
  have : (1000000000 : Int) = 1000000 * 1000 := by decide
  rw [this, Int.mul_tdiv_mul_of_pos _ _ (by decide)]

/-! ## `LiveClock` -/

theorem live_time_agrees (now : Int) (c : G.LiveClock) :
    Generated.Machines.LiveClock.time now c = Clock.LiveClock.time ⟨⟩ now := rfl

theorem live_process_agrees {Event : Type} [DecidableEq Event] (c : G.LiveClock) (ev : Event) :
    Generated.Machines.LiveClock.process c ev = c := rfl

/-! ## `HistoricalClock` -/

theorem new_agrees (now t : Int) :
    toClock (Generated.Machines.HistoricalClock.new now t) = Clock.HistoricalClock.new (scale t) (scale now) := rfl

/-- `HistoricalClock::time`: the model at millisecond-aligned instants. -/
theorem time_agrees (now : Int) (c : G.HistoricalClock) :
    Clock.HistoricalClock.time (toClock c) (scale now) = scale (Generated.Machines.HistoricalClock.time now c) := by
  rcases c with ⟨⟨e, l⟩⟩
  have hd : scale now - scale l = scale (now - l) := by unfold scale; omega
  simp only [Clock.HistoricalClock.time, gen_clock, toClock, hd, numMilliseconds_scale]
  split <;> unfold scale <;> omega

/-- `HistoricalClock::process`: the model's state transition at millisecond-aligned instants, for every
event type and every implementation of `TimeExchange`. -/
theorem process_agrees {Event : Type} [DecidableEq Event] (dict : G.TimeExchange Event) (now : Int)
    (c : G.HistoricalClock) (ev : Event) :
    (Clock.HistoricalClock.process (toClock c) ((dict.time_exchange ev).map scale) (scale now)).1
      = toClock (Generated.Machines.HistoricalClock.process dict now c ev) := by
  rcases c with ⟨⟨e, l⟩⟩
  simp only [Clock.HistoricalClock.process, gen_clock, toClock]
  cases dict.time_exchange ev with
  | none => rfl
  | some t =>
    have hge : scale t ≥ scale e ↔ t ≥ e := by unfold scale; omega
    by_cases h : t ≥ e
    · simp [h, hge]
    · simp [hge, h]

/-- which branch `process` takes is decided identically (the out-of-order severity, logged only, is the
model's `outOfOrderSeverity` of the same difference in whole seconds). -/
theorem severity_seconds_agree (t e : Int) :
    (Clock.numSeconds (scale t - scale e)).natAbs = (Int.tdiv (t - e) 1000).natAbs := by
  have hd : scale t - scale e = scale (t - e) := by unfold scale; omega
  rw [hd, numSeconds_scale]

/-- Everything `./check C20K` re-proves against the current source, at once. -/
theorem clock_sm_agree :
    (∀ a b : G.HistoricalClock, toClock a = toClock b → a = b)
    ∧ (∀ (now : Int) (c : G.LiveClock), Generated.Machines.LiveClock.time now c = Clock.LiveClock.time ⟨⟩ now)
    ∧ (∀ (Event : Type) [DecidableEq Event] (c : G.LiveClock) (ev : Event),
        Generated.Machines.LiveClock.process c ev = c)
    ∧ (∀ now t : Int,
        toClock (Generated.Machines.HistoricalClock.new now t) = Clock.HistoricalClock.new (scale t) (scale now))
    ∧ (∀ (now : Int) (c : G.HistoricalClock),
        Clock.HistoricalClock.time (toClock c) (scale now) = scale (Generated.Machines.HistoricalClock.time now c))
    ∧ (∀ (Event : Type) [DecidableEq Event] (dict : G.TimeExchange Event) (now : Int) (c : G.HistoricalClock)
        (ev : Event),
        (Clock.HistoricalClock.process (toClock c) ((dict.time_exchange ev).map scale) (scale now)).1
          = toClock (Generated.Machines.HistoricalClock.process dict now c ev)) :=
  ⟨fun _ _ => toClock_injective, live_time_agrees, fun _ _ => live_process_agrees, new_agrees, time_agrees,
    fun _ _ => process_agrees⟩

end BarterModel.KernelsAgree.ClockSM
