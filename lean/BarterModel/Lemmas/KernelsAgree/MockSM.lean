import BarterModel.Generated.Machines3
import BarterModel.Lemmas.MockExchange
import BarterModel.Lemmas.KernelsAgree.MapVocab
/-!
# Agreement: the simulated exchange (`MockExchange`, `AccountState`) as a state machine over `FnvHashMap`s (C08)

`BarterModel.Generated.Machines.MockExchange.{open_order, validate_order_kind_supported, find_instrument_data,
order_id_sequence_fetch_add, update_time_exchange, time_exchange}`, `build_open_order_err_response`,
`AccountState.{update_time_exchange, trades, ack_trade}` (and `balance_mut`, a `&mut`-returning accessor that is read in
place at its calls), `AssetFees::quote_fees` and the structs / enums they work on are regenerated from
`barter-execution/src/exchange/mock/{mod,account}.rs` (and `error.rs`, `balance.rs`, `trade.rs`, `order/*.rs`,
`barter-instrument`) by `tools/rust2lean_sm.py` (group `mock`, file `Generated/Machines3.lean`) on every run of
`./check C08`. The two `FnvHashMap`s (balances by `AssetNameExchange`, instruments by `InstrumentNameExchange`) are
read through the translator's explicit map vocabulary (`Rust.Map`; `MapVocab.lean` proves it is a finite map).
`MockExchange` is translated WITHOUT its two channel fields (`request_rx`, `event_tx`): no translated function reads
them; the request loop `run`, the latency sleeps and the broadcast are not translated (C08C models them).

## The abstraction: a SIMULATION, up to the order of the maps

The model (`Model/MockExchange.lean`) identifies an asset / instrument with its POSITION in the configuration and keeps
`balances` / `instruments` as lists; the code keys hash maps by name. Names are opaque identifiers (`Nat` in the
generated code: "any injective coding would do"), and this file takes the position as the name. A hash map has no
canonical list form (the generated `insert` puts the written pair in front), so the correspondence is stated up to
that: `Sim g s` says that the generated state `g` and the model state `s` agree on every scalar field and that, FOR
EVERY KEY, `Rust.Map.get` of the generated map is the model's list entry at that position (`none` beyond the end) —
i.e. the generated maps, read as finite maps, ARE the model's lists. `toMock` builds a generated state from every model
state (`sim_toMock`), so `Sim` is total on the model side.

The theorems: from related states, for ALL requests, each generated function yields related states and the model's
result — `open_order_sim` (with `ofResp`, which reads the `Order` response and the `OpenOrderNotifications` as the model's
`Result`; error messages are read through the values `format!` puts into them), `update_time_sim`, `ack_trade_sim`,
`trades_sim`, and `step_open_sim`, the composition the request loop performs for an open request.

**Hypothesis: `WF s`** (Lemmas/MockExchange.lean: every balance has `total = free`, both assets of every instrument
have a balance): it is exactly what rules out the two panics of `open_order` (`expect(..)`, `assert_eq!(..)`), which are
the opaque `Rust.unreachable` in the generated definition and `Result.panic` in the model; C08 proves `WF` for every
reachable state (`reach_wf`), and `Sim` transports it (`openOrder_wf`). No inequivalence was found.
-/
set_option linter.unusedSimpArgs false   -- the proofs name both spellings of a decision (`0 ≤ x` / `¬ x < 0`)
namespace BarterModel.KernelsAgree.MockSM
open BarterModel BarterModel.MockExchange
open BarterModel.Generated.Machines (Rust.Map Rust.Map.get Rust.Map.insert Rust.Map.map_values Rust.Str Rust.FmtArg)

namespace G
abbrev Mock := Generated.Machines.MockExchange
abbrev Account := Generated.Machines.AccountState
abbrev AB := Generated.Machines.AssetBalance Generated.Machines.AssetNameExchange
abbrev Instr := Generated.Machines.Instrument Generated.Machines.ExchangeId Generated.Machines.AssetNameExchange
abbrev Trade := Generated.Machines.Trade Generated.Machines.QuoteAsset Generated.Machines.InstrumentNameExchange
abbrev Req := Generated.Machines.OrderEvent Generated.Machines.RequestOpen Generated.Machines.ExchangeId
  Generated.Machines.InstrumentNameExchange
abbrev Err := Generated.Machines.OrderError Generated.Machines.AssetNameExchange Generated.Machines.InstrumentNameExchange
abbrev Resp := Generated.Machines.Order Generated.Machines.ExchangeId Generated.Machines.InstrumentNameExchange
  (Except Err Generated.Machines.Open)
abbrev Notif := Generated.Machines.OpenOrderNotifications
end G

/-! ## Record maps -/

def ofSide : Generated.Machines.Side → Side
  | .Buy => .buy
  | .Sell => .sell
def toSide : Side → Generated.Machines.Side
  | .buy => .Buy
  | .sell => .Sell
def ofKind : Generated.Machines.OrderKind → Kind
  | .Market => .market
  | .Limit => .limit
def toKind : Kind → Generated.Machines.OrderKind
  | .market => .Market
  | .limit => .Limit

def ofBal (b : G.AB) : Bal := ⟨b.balance.total, b.balance.free, b.time_exchange⟩
/-- the generated balance of asset `a` (its name is its position) -/
def toBal (a : Nat) (b : Bal) : G.AB := ⟨a, ⟨b.total, b.free⟩, b.time⟩
def toInstr (u : Instr) : G.Instr := ⟨⟨u.base, u.quote⟩⟩
def ofTrade (t : G.Trade) : Trade :=
  ⟨t.id, t.order_id, t.instrument, t.strategy, t.time_exchange, ofSide t.side, t.price, t.quantity, t.fees.fees⟩
def toTrade (t : Trade) : G.Trade :=
  ⟨t.id, t.orderId, t.instr, t.strategy, t.time, toSide t.side, t.price, t.qty, ⟨.mk, t.fees⟩⟩
theorem ofTrade_toTrade (t : Trade) : ofTrade (toTrade t) = t := by
  rcases t with ⟨a, b, c, d, e, s, f, g, h⟩; cases s <;> rfl
theorem toTrade_ofTrade (t : G.Trade) : toTrade (ofTrade t) = t := by
  rcases t with ⟨a, b, c, d, e, s, f, g, ⟨⟨⟩, h⟩⟩; cases s <;> rfl

/-- the model's view of an open request (`key.exchange` and `time_in_force` are not read by the exchange) -/
def ofReq (r : G.Req) : Req :=
  ⟨r.key.instrument, r.key.strategy, r.key.cid, ofSide r.state.side, r.state.price, r.state.quantity, ofKind r.state.kind⟩
def toReq (ex : Nat) (tif : Generated.Machines.TimeInForce) (r : Req) : G.Req :=
  ⟨⟨ex, r.instr, r.strategy, r.cid⟩, ⟨toSide r.side, r.price, r.qty, toKind r.kind, tif⟩⟩
theorem ofReq_toReq (ex : Nat) (tif) (r : Req) : ofReq (toReq ex tif r) = r := by
  rcases r with ⟨a, b, c, s, d, e, k⟩; cases s <;> cases k <;> rfl

/-- the error of a rejected order as the model's `Err`: which rule fired, with the values the message carries -/
def ofErr : G.Err → Option Err
  | .Rejected (.OrderRejected _) => some .kindUnsupported
  | .Rejected (.InstrumentInvalid i _) => some (.instrumentInvalid i)
  | .Rejected (.BalanceInsufficient a ⟨[.dec available, .dec required]⟩) => some (.balanceInsufficient a available required)
  | _ => none

/-- response + notifications as the model's `Result` (`none`: not a shape `open_order` produces) -/
def ofResp : G.Resp × Option G.Notif → Option Result
  | (resp, none) =>
    match resp.state with
    | .error e => (ofErr e).map .rejected
    | .ok _ => none
  | (resp, some n) =>
    match resp.state with
    | .ok o => some (.accepted ⟨o.id, o.time_exchange, o.filled_quantity, n.balance.f0.asset, ofBal n.balance.f0, ofTrade n.trade⟩)
    | .error _ => none

/-- **The simulation relation** (see the header): scalars equal, maps equal as finite maps, key = position. -/
structure Sim (g : G.Mock) (s : State) : Prop where
  latency : g.latency_ms = s.latency
  fee : g.fees_percent = s.fee
  seq : g.order_sequence = s.seq
  time : g.time_exchange_latest = s.time
  instruments : ∀ i : Nat, Rust.Map.get g.instruments i = (s.instruments[i]?).map toInstr
  balances : ∀ a : Nat, Rust.Map.get g.account.balances a = (s.balances[a]?).map (toBal a)
  trades : g.account.trades = s.trades.map toTrade

/-! ### every model state has a generated counterpart -/

def enum {α β : Type} (f : Nat → α → β) : Nat → List α → List (Nat × β)
  | _, [] => []
  | n, x :: xs => (n, f n x) :: enum f (n + 1) xs

theorem get_enum {α β : Type} (f : Nat → α → β) (n : Nat) (l : List α) (k : Nat) :
    Rust.Map.get (enum f n l) k = if n ≤ k then (l[k - n]?).map (f k) else none := by
  induction l generalizing n with
  | nil => simp [enum, Rust.Map.get]
  | cons x xs ih =>
    simp only [enum, Rust.Map.get, ih]
    by_cases h : n = k
    · subst h; simp
    · by_cases h2 : n ≤ k
      · have : k - n = (k - (n + 1)) + 1 := by omega
        have h3 : n + 1 ≤ k := by omega
        simp [h, h2, h3, this]
      · have h3 : ¬ n + 1 ≤ k := by omega
        simp [h, h2, h3]

def toMock (ex : Nat) (s : State) : G.Mock :=
  { exchange := ex, latency_ms := s.latency, fees_percent := s.fee,
    instruments := enum (fun _ u => toInstr u) 0 s.instruments,
    account := { balances := enum toBal 0 s.balances, orders_open := [], orders_cancelled := [],
                 trades := s.trades.map toTrade },
    order_sequence := s.seq, time_exchange_latest := s.time }

theorem sim_toMock (ex : Nat) (s : State) : Sim (toMock ex s) s where
  latency := rfl
  fee := rfl
  seq := rfl
  time := rfl
  instruments i := by simp [toMock, get_enum]
  balances a := by simp [toMock, get_enum]
  trades := rfl

/-! ## Shape-independent proofs

Each proof takes the records apart, unfolds everything generated for the group (`gen_mock`) and the model's
definitions, reads the generated maps through the simulation (`h.instruments`, `h.balances`) and the finite-map laws
(`get_insert`, `get_map_values`), splits on the DATA (the order kind, is the instrument known, the side, the held
balance, are the funds sufficient) and lets `grind` finish (field arithmetic, list positions). Nothing depends on the
names of helper functions or on how the source spells a decision. -/

theorem abs_agrees (x : Rat) : Generated.Machines.Decimal.abs x = absR x := by
  unfold Generated.Machines.Decimal.abs absR; rfl

open Lean.Parser.Tactic in
local macro "unfold_mock" loc:(location)? : tactic => `(tactic|
  simp only [gen_mock, openOrder, updateTime, tradesSince, ackTrade, orderValue, feesQuote, spentAsset, ofSide, ofKind, ofBal,
    toBal, toInstr, ofTrade, toTrade, ofReq, ofErr, ofResp, abs_agrees, MapVocab.get_insert, MapVocab.get_map_values,
    Option.map] $[$loc]?)

theorem validate_order_kind_agrees (g : G.Mock) (k : Generated.Machines.OrderKind) :
    (Generated.Machines.MockExchange.validate_order_kind_supported g k).isOk = decide (ofKind k = .market) := by
  cases k <;> simp [gen_mock, ofKind, Except.isOk, Except.toBool]

theorem find_instrument_data_agrees {g : G.Mock} {s : State} (h : Sim g s) (i : Nat) :
    (match Generated.Machines.MockExchange.find_instrument_data g i with
      | .ok u => some u
      | .error _ => none) = (s.instruments[i]?).map toInstr := by
  simp only [gen_mock, h.instruments i]
  cases s.instruments[i]? <;> rfl

theorem order_id_sequence_agrees (g : G.Mock) :
    Generated.Machines.MockExchange.order_id_sequence_fetch_add g
      = ({ g with order_sequence := g.order_sequence + 1 }, g.order_sequence) := by
  simp [gen_mock]

theorem time_exchange_agrees (g : G.Mock) : Generated.Machines.MockExchange.time_exchange g = g.time_exchange_latest := by
  simp [gen_mock]

theorem map_filter_section (p : G.Trade → Bool) (l : List Trade) :
    List.map ofTrade (List.filter p (List.map toTrade l)) = List.filter (fun t => p (toTrade t)) l := by
  induction l with
  | nil => rfl
  | cons t ts ih =>
    simp only [List.map_cons, List.filter_cons]
    split <;> simp [ih, ofTrade_toTrade]

/-- **`AccountState::trades`** is the model's `tradesSince` (in order). -/
theorem trades_sim {g : G.Mock} {s : State} (h : Sim g s) (since : Int) :
    (Generated.Machines.AccountState.trades_fn g.account since).map ofTrade = tradesSince s since := by
  simp only [gen_mock, tradesSince, h.trades, map_filter_section]
  apply List.filter_congr
  intro t _
  first | rfl | simp [toTrade, ge_iff_le]

/-- **`AccountState::ack_trade`** is the model's `ackTrade`. -/
theorem ack_trade_sim {g : G.Mock} {s : State} (h : Sim g s) (t : Trade) :
    Sim { g with account := Generated.Machines.AccountState.ack_trade g.account (toTrade t) } (ackTrade s t) where
  latency := h.latency
  fee := h.fee
  seq := h.seq
  time := h.time
  instruments := h.instruments
  balances := by simpa [gen_mock, ackTrade] using h.balances
  trades := by simp [gen_mock, ackTrade, h.trades]

/-- **`MockExchange::update_time_exchange`** (with `AccountState::update_time_exchange`) is the model's `updateTime`. -/
theorem update_time_sim {g : G.Mock} {s : State} (h : Sim g s) (t : Int) :
    Sim (Generated.Machines.MockExchange.update_time_exchange g t) (updateTime s t) := by
  rcases g with ⟨ex, lat, fee, ins, ⟨bal, oo, oc, tr⟩, sq, tm⟩
  have hl := h.latency; have hf := h.fee; have hs := h.seq; have hi := h.instruments
  have hb := h.balances; have ht := h.trades
  simp only at hl hf hs hi hb ht
  subst hl hf hs
  constructor
  · rfl
  · rfl
  · rfl
  · unfold_mock; simp
  · intro i; unfold_mock; exact hi i
  · intro a
    unfold_mock
    rw [hb a]
    simp only [List.getElem?_map]
    cases s.balances[a]? <;> simp [toBal]
  · unfold_mock; exact ht

/-- writing asset `a` (in range) in the generated map and in the model's list keeps the balances related -/
theorem sim_balances_set {bal : Rust.Map Nat G.AB} {l : List Bal} (hb : ∀ a : Nat, Rust.Map.get bal a = (l[a]?).map (toBal a))
    (a : Nat) (ha : a < l.length) (b : Bal) (m' : Rust.Map Nat G.AB)
    (hm : ∀ k : Nat, Rust.Map.get m' k = if k = a then some (toBal a b) else Rust.Map.get bal k) :
    ∀ k : Nat, Rust.Map.get m' k = ((l.set a b)[k]?).map (toBal k) := by
  intro k
  rw [hm k]
  by_cases hk : k = a
  · subst hk; simp [ha]
  · have : ¬ a = k := fun e => hk e.symm
    simp [hk, this, hb k]


/-- closes `Sim g' s'` after the case analysis: the scalar fields by `rfl`, instruments and trades unchanged, the balances
KEY BY KEY through the finite-map laws (so it does not matter whether, in which order and how often the code writes the
spent asset's balance back) -/
local macro "sim_close" hi:ident hb:ident ht:ident : tactic => `(tactic|
  (refine ⟨rfl, rfl, rfl, rfl, $hi, ?_, $ht⟩
   intro k
   (simp only [MapVocab.get_insert, $hb:ident k]) <;> grind [toBal]))

/-- **`MockExchange::open_order`** is the model's `openOrder`: related states in, related states and the model's result
out, for every request (under `WF`, which excludes the two panics). -/
theorem open_order_sim {g : G.Mock} {s : State} (h : Sim g s) (hw : WF s) (r : G.Req) :
    Sim (Generated.Machines.MockExchange.open_order g r).1 (openOrder s (ofReq r)).1
    ∧ ofResp (Generated.Machines.MockExchange.open_order g r).2 = some (openOrder s (ofReq r)).2 := by
  rcases g with ⟨ex, lat, fee, ins, ⟨bal, oo, oc, tr⟩, sq, tm⟩
  rcases r with ⟨⟨rex, ri, rst, rcid⟩, ⟨side, price, qty, kind, tif⟩⟩
  have hl := h.latency; have hf := h.fee; have hs := h.seq; have htm := h.time; have hi := h.instruments
  have hb := h.balances; have ht := h.trades
  simp only at hl hf hs htm hi hb ht
  subst hl hf hs htm
  have hgi := hi ri
  cases kind
  · -- a market order
    rcases hu : s.instruments[ri]? with _ | ⟨base, quote⟩
    · rw [hu] at hgi
      unfold_mock
      simp [hu, hgi]
      all_goals sim_close hi hb ht
    · rw [hu] at hgi
      have hlt := hw.2 ⟨base, quote⟩ (List.mem_of_getElem? hu)
      simp only at hlt
      cases side
      · -- buy: spends the quote asset
        have hgb := hb quote
        rcases hc : s.balances[quote]? with _ | ⟨tot, fr, tme⟩
        · rw [List.getElem?_eq_none_iff] at hc; omega
        · rw [hc] at hgb
          have heq : tot = fr := hw.1 ⟨tot, fr, tme⟩ (List.mem_of_getElem? hc)
          subst heq
          unfold_mock
          simp only [hu, hgi, hc, hgb, toInstr, toBal, Option.map]
          by_cases hn : 0 ≤ tot - (price * absR qty + price * absR qty * s.fee)
          · have hn' : ¬ tot - (price * absR qty + price * absR qty * s.fee) < 0 := Rat.not_lt.mpr hn
            simp [hn, hn']
            all_goals sim_close hi hb ht
          · have hn' : tot - (price * absR qty + price * absR qty * s.fee) < 0 := Rat.not_le.mp hn
            simp [hn, hn']
            all_goals sim_close hi hb ht
      · -- sell: spends the base asset
        have hgb := hb base
        rcases hc : s.balances[base]? with _ | ⟨tot, fr, tme⟩
        · rw [List.getElem?_eq_none_iff] at hc; omega
        · rw [hc] at hgb
          have heq : tot = fr := hw.1 ⟨tot, fr, tme⟩ (List.mem_of_getElem? hc)
          subst heq
          unfold_mock
          simp only [hu, hgi, hc, hgb, toInstr, toBal, Option.map]
          by_cases hn : 0 ≤ tot - (absR qty + absR qty * s.fee)
          · have hn' : ¬ tot - (absR qty + absR qty * s.fee) < 0 := Rat.not_lt.mpr hn
            simp [hn, hn']
            all_goals sim_close hi hb ht
          · have hn' : tot - (absR qty + absR qty * s.fee) < 0 := Rat.not_le.mp hn
            simp [hn, hn']
            all_goals sim_close hi hb ht
  · -- a limit order: rejected, nothing changes
    unfold_mock
    simp
    all_goals sim_close hi hb ht

/-! ## The request loop's handling of an open request

`MockExchange::run` is `async` and not translated; for an `OpenOrder` request it performs exactly
`update_time_exchange(time_request)`, `open_order(request)` and, if there are notifications, `account.ack_trade(trade)`
(mock/mod.rs:72-119). `gstepOpen` composes the three GENERATED functions in that order. -/

def gstepOpen (g : G.Mock) (t : Int) (r : G.Req) : G.Mock × (G.Resp × Option G.Notif) :=
  let g := Generated.Machines.MockExchange.update_time_exchange g t
  let out := Generated.Machines.MockExchange.open_order g r
  match out.2.2 with
  | some n => ({ out.1 with account := Generated.Machines.AccountState.ack_trade out.1.account n.trade }, out.2)
  | none => out

/-- the composition is the model's `step` on an open request: state, response and the two events. -/
theorem step_open_sim {g : G.Mock} {s : State} (h : Sim g s) (hw : WF s) (t : Int) (r : G.Req) :
    Sim (gstepOpen g t r).1 (step s t (.openOrder (ofReq r))).1
    ∧ (ofResp (gstepOpen g t r).2).map Response.order = some (step s t (.openOrder (ofReq r))).2.1 := by
  have h1 := update_time_sim h t
  have hw1 := updateTime_wf t hw
  obtain ⟨h2, h3⟩ := open_order_sim h1 hw1 r
  simp only [gstepOpen, step]
  generalize Generated.Machines.MockExchange.open_order (Generated.Machines.MockExchange.update_time_exchange g t) r = out at h2 h3
  rcases out with ⟨g', resp, _ | n⟩
  · -- no notifications: not accepted
    rcases hm : openOrder (updateTime s t) (ofReq r) with ⟨s', res⟩
    rw [hm] at h2 h3
    simp only [ofResp] at h3
    cases hr : resp.state with
    | ok o => simp [hr] at h3
    | error e =>
      simp only [hr] at h3
      cases res with
      | accepted f => cases he : ofErr e <;> simp [he] at h3
      | rejected e' => exact ⟨h2, by simp [ofResp, hr, h3]⟩
      | panic => cases he : ofErr e <;> simp [he] at h3
  · rcases hm : openOrder (updateTime s t) (ofReq r) with ⟨s', res⟩
    rw [hm] at h2 h3
    simp only [ofResp] at h3
    cases hr : resp.state with
    | error e => simp [hr] at h3
    | ok o =>
      simp only [hr, Option.some.injEq] at h3
      subst h3
      refine ⟨?_, by simp [ofResp, hr]⟩
      have := ack_trade_sim h2 (ofTrade n.trade)
      simpa [toTrade_ofTrade] using this

/-! ## Everything at once -/

theorem mock_sm_agree :
    (∀ (g : G.Mock) (s : State), Sim g s → WF s → ∀ r : G.Req,
        Sim (Generated.Machines.MockExchange.open_order g r).1 (openOrder s (ofReq r)).1
        ∧ ofResp (Generated.Machines.MockExchange.open_order g r).2 = some (openOrder s (ofReq r)).2)
    ∧ (∀ (g : G.Mock) (s : State), Sim g s → ∀ t : Int,
        Sim (Generated.Machines.MockExchange.update_time_exchange g t) (updateTime s t))
    ∧ (∀ (g : G.Mock) (s : State), Sim g s → ∀ t : Trade,
        Sim { g with account := Generated.Machines.AccountState.ack_trade g.account (toTrade t) } (ackTrade s t))
    ∧ (∀ (g : G.Mock) (s : State), Sim g s → ∀ since : Int,
        (Generated.Machines.AccountState.trades_fn g.account since).map ofTrade = tradesSince s since)
    ∧ (∀ (g : G.Mock) (s : State), Sim g s → WF s → ∀ (t : Int) (r : G.Req),
        Sim (gstepOpen g t r).1 (step s t (.openOrder (ofReq r))).1
        ∧ (ofResp (gstepOpen g t r).2).map Response.order = some (step s t (.openOrder (ofReq r))).2.1)
    ∧ (∀ (g : G.Mock) (k : Generated.Machines.OrderKind),
        (Generated.Machines.MockExchange.validate_order_kind_supported g k).isOk = decide (ofKind k = .market))
    ∧ (∀ g : G.Mock, Generated.Machines.MockExchange.order_id_sequence_fetch_add g
        = ({ g with order_sequence := g.order_sequence + 1 }, g.order_sequence))
    ∧ (∀ (ex : Nat) (s : State), Sim (toMock ex s) s)
    ∧ (∀ (ex : Nat) (tif : Generated.Machines.TimeInForce) (r : Req), ofReq (toReq ex tif r) = r)
    ∧ (∀ t : Trade, ofTrade (toTrade t) = t) ∧ (∀ t : G.Trade, toTrade (ofTrade t) = t) :=
  ⟨fun _ _ h hw r => open_order_sim h hw r, fun _ _ h t => update_time_sim h t, fun _ _ h t => ack_trade_sim h t,
    fun _ _ h since => trades_sim h since, fun _ _ h hw t r => step_open_sim h hw t r, validate_order_kind_agrees,
    order_id_sequence_agrees, sim_toMock, ofReq_toReq, ofTrade_toTrade, toTrade_ofTrade⟩

end BarterModel.KernelsAgree.MockSM
