import BarterModel.Generated.Machines3
import BarterModel.Lemmas.KernelsAgree.Connectivity
import BarterModel.Lemmas.KernelsAgree.MapVocab
/-!
# Agreement: the update arms of `ConnectivityStates` as a state machine over an `IndexMap` (C14)

`BarterModel.Generated.Machines.ConnectivityStates.{update_from_account_reconnecting, update_from_account_event,
update_from_market_reconnecting, update_from_market_event, connectivity, connectivity_index, exchange_states}` and
`ExchangeIndex::index` are regenerated from `barter/src/engine/state/connectivity/mod.rs` (and
`barter-instrument/src/exchange.rs`) by `tools/rust2lean_sm.py` (group `connectivity_updates`, file
`Generated/Machines3.lean`) on every run of `./check C14`. The `&mut`-returning accessors `connectivity_mut` /
`connectivity_index_mut` are read IN PLACE at their calls (their bodies are one `get_mut` / `get_index_mut` accessor
expression each; their source hashes are in the header of the generated file): the `IndexMap<ExchangeId,
ConnectivityState>` is read through the translator's map vocabulary (`Rust.IndexMap`: a list of pairs addressed by
position and by key, written back in place).

The model (`Model/Connectivity.lean`) identifies an exchange with its POSITION in the map; the theorems read the
generated state through

* `ofStates` — `global` through the `Health` bijection of `KernelsAgree/Connectivity.lean`, `exchanges` as the list of
  the values in map order (the keys are forgotten: `keys_unchanged` shows that no translated function changes them);
* for the functions addressed by `ExchangeIndex`: the position itself;
* for the functions addressed by `ExchangeId`: `pos s k`, the position of the FIRST pair with key `k` (on the
  `IndexMap` of the engine the keys are distinct and this is *the* position of `k`: C14's "distinct exchange ids").

**Hypothesis of every update theorem: the addressed exchange exists** (`i < length` / `pos s k < length`). Without
it the code panics (`panic!("ConnectivityStates does not contain: ..")`, the opaque `Rust.unreachable` in the generated
definitions) while the model leaves the state unchanged; this is the documented guard `e < n` that every C14 theorem
carries, now explicit. Under it the generated functions ARE the model's, for all states.
-/
namespace BarterModel.KernelsAgree.ConnectivityUpdSM
open BarterModel BarterModel.Conn BarterModel.KernelsAgree.Connectivity
open BarterModel.Generated.Machines (Rust.IndexMap Rust.IndexMap.get Rust.IndexMap.set Rust.IndexMap.set_index
  Rust.IndexMap.get_index Rust.IndexMap.values Rust.Map.get)

namespace G
abbrev Id := Generated.Machines.ExchangeId
abbrev Index := Generated.Machines.ExchangeIndex
abbrev States := Generated.Machines.ConnectivityStates
abbrev Map := Rust.IndexMap Id GState
end G

/-! ## Abstraction -/

/-- the values in map order, as model states -/
def vals (m : G.Map) : List CState := m.map fun kv => ofState kv.2
def keys (m : G.Map) : List G.Id := m.map (·.1)
def ofStates (s : G.States) : States := ⟨ofHealth s.global, vals s.exchanges⟩
/-- a generated state over a model state, the keys given (a section of `ofStates`) -/
def toStates (ks : List G.Id) (s : States) : G.States := ⟨toHealth s.global, ks.zip (s.exchanges.map toState)⟩
/-- position of the first pair with key `k` (`length` if there is none) -/
def pos (s : G.States) (k : G.Id) : Nat := (keys s.exchanges).idxOf k

theorem ofStates_toStates (ks : List G.Id) (s : States) (h : ks.length = s.exchanges.length) :
    ofStates (toStates ks s) = s := by
  rcases s with ⟨g, ex⟩
  simp only [ofStates, toStates, vals, ofHealth_toHealth, States.mk.injEq, true_and]
  induction ex generalizing ks with
  | nil => cases ks <;> simp_all
  | cons c rest ih =>
    cases ks with
    | nil => simp at h
    | cons k ks => simp [ofState_toState] at h ⊢; exact ih ks h

/-! ## The map vocabulary against the model's list operations -/

theorem vals_length (m : G.Map) : (vals m).length = m.length := by simp [vals]

theorem getElem?_vals (m : G.Map) (i : Nat) : (vals m)[i]? = (m[i]?).map fun kv => ofState kv.2 := by simp [vals]

/-- by position: `get_index_mut(i)` written back is `List.set` at `i` -/
theorem vals_set_index (m : G.Map) (i : Nat) (v : GState) :
    vals (Rust.IndexMap.set_index m i v) = (vals m).set i (ofState v) := by
  unfold Rust.IndexMap.set_index
  cases h : m[i]? with
  | none =>
    have : m.length ≤ i := by simpa using h
    simp [vals]; rw [List.set_eq_of_length_le (by simpa using this)]
  | some kv => simp [vals, List.map_set]

theorem idxOf_cons_ne {a k : G.Id} (l : List G.Id) (h : a ≠ k) : (a :: l).idxOf k = l.idxOf k + 1 := by
  have : (a == k) = false := by simpa using h
  simp [List.idxOf_cons, this]

/-- by key: `get(k)` is the value at the position of the first pair with key `k` -/
theorem get_eq_getElem?_idxOf (m : G.Map) (k : G.Id) :
    Rust.IndexMap.get m k = (m[(keys m).idxOf k]?).map (·.2) := by
  induction m with
  | nil => rfl
  | cons kv rest ih =>
    obtain ⟨a, w⟩ := kv
    simp only [Rust.IndexMap.get] at ih
    by_cases h : a = k
    · simp [Rust.IndexMap.get, Rust.Map.get, keys, h]
    · simp only [Rust.IndexMap.get, Rust.Map.get, h, ↓reduceIte, keys, List.map_cons, ih]
      rw [idxOf_cons_ne _ h]
      simp

/-- by key: `get_mut(k)` written back is `List.set` at the position of the first pair with key `k` -/
theorem vals_set (m : G.Map) (k : G.Id) (v : GState) :
    vals (Rust.IndexMap.set m k v) = (vals m).set ((keys m).idxOf k) (ofState v) := by
  induction m with
  | nil => rfl
  | cons kv rest ih =>
    obtain ⟨a, w⟩ := kv
    by_cases h : a = k
    · simp [Rust.IndexMap.set, vals, keys, h]
    · simp only [Rust.IndexMap.set, h, ↓reduceIte, keys, List.map_cons]
      rw [idxOf_cons_ne _ h]
      simpa [vals, keys] using ih

theorem all_values (m : G.Map) :
    List.all (Rust.IndexMap.values m) (fun x => Generated.Machines.ConnectivityState.all_healthy x)
      = (vals m).all CState.allHealthy := by
  simp [Rust.IndexMap.values, vals, List.all_map, Function.comp_def, all_healthy_agrees]

theorem any_values (m : G.Map) :
    List.any (Rust.IndexMap.values m) (fun x => !Generated.Machines.ConnectivityState.all_healthy x)
      = !(vals m).all CState.allHealthy := by
  simp [Rust.IndexMap.values, vals, List.all_map, List.any_map, Function.comp_def, all_healthy_agrees]
  induction m with
  | nil => rfl
  | cons kv rest ih => simp [List.any_cons, List.all_cons, ih, Bool.not_and]

/-! ## Shape-independent proofs

Each proof takes the state apart, unfolds everything generated for the group (`gen_connectivity_updates`, plus
`gen_connectivity` for `all_healthy`) and the model's definitions, rewrites the map operations into the model's list
operations with the lemmas above, then splits on the DATA (is the addressed slot there, what does it hold) and lets
`grind` finish. Nothing depends on how the source spells the decisions (early `return` or `match` on `self.global`,
`==` with the operands either way round, `!=` and a nested block, an extracted `refresh_global_health`,
`values().all(p)` or `!values().any(!p)`). -/

open Lean.Parser.Tactic in
local macro "unfold_cu" loc:(location)? : tactic => `(tactic|
  simp only [gen_connectivity_updates, States.accountReconnecting, States.marketReconnecting, States.accountEvent,
    States.marketEvent, Conn.modify, ofStates, pos, Generated.Machines.Rust.IndexMap.get_index, get_eq_getElem?_idxOf,
    vals_set, vals_set_index, all_values, any_values, getElem?_vals, Option.map] $[$loc]?)

local macro "cu_close" : tactic => `(tactic| first
  | rfl
  | (unfold_cu; done)
  | (unfold_cu; grind [ofState, ofHealth, CState.allHealthy, vals_set, vals_set_index, all_values, any_values])
  | grind [ofState, ofHealth, CState.allHealthy, vals_set, vals_set_index, all_values, any_values])

theorem index_agrees (i : G.Index) : Generated.Machines.ExchangeIndex.index i = i.f0 := by
  rcases i with ⟨n⟩; cu_close

theorem exchange_states_agrees (s : G.States) :
    (Generated.Machines.ConnectivityStates.exchange_states s).map ofState = (ofStates s).exchanges := by
  rcases s with ⟨g, m⟩
  simp [gen_connectivity_updates, ofStates, vals, Rust.IndexMap.values]

/-- `connectivity_index` reads the slot at the position (when it exists). -/
theorem connectivity_index_agrees (s : G.States) (i : G.Index) (c : G.Id × GState) (h : s.exchanges[i.f0]? = some c) :
    Generated.Machines.ConnectivityStates.connectivity_index s i = c.2 := by
  rcases s with ⟨g, m⟩; rcases i with ⟨n⟩; rcases c with ⟨k, c⟩
  simp only [gen_connectivity_updates, Generated.Machines.Rust.IndexMap.get_index] at h ⊢
  simp [h]

/-- `connectivity` reads the slot of the first pair with that key (when there is one). -/
theorem connectivity_agrees (s : G.States) (k : G.Id) (c : G.Id × GState) (h : s.exchanges[pos s k]? = some c) :
    Generated.Machines.ConnectivityStates.connectivity s k = c.2 := by
  rcases s with ⟨g, m⟩; rcases c with ⟨k', c⟩
  simp only [gen_connectivity_updates, get_eq_getElem?_idxOf, pos] at h ⊢
  simp [h]

/-- **`update_from_account_reconnecting`** (addressed by `ExchangeId`). -/
theorem account_reconnecting_agrees (s : G.States) (k : G.Id) (h : pos s k < s.exchanges.length) :
    ofStates (Generated.Machines.ConnectivityStates.update_from_account_reconnecting s k)
      = (ofStates s).accountReconnecting (pos s k) := by
  rcases s with ⟨g, m⟩
  simp only [pos] at h
  unfold_cu
  rcases hm : m[(keys m).idxOf k]? with _ | ⟨k', md, ac⟩
  · simp at hm; omega
  · cases g <;> cases md <;> cases ac <;> cu_close

/-- **`update_from_market_reconnecting`** (addressed by `ExchangeId`). -/
theorem market_reconnecting_agrees (s : G.States) (k : G.Id) (h : pos s k < s.exchanges.length) :
    ofStates (Generated.Machines.ConnectivityStates.update_from_market_reconnecting s k)
      = (ofStates s).marketReconnecting (pos s k) := by
  rcases s with ⟨g, m⟩
  simp only [pos] at h
  unfold_cu
  rcases hm : m[(keys m).idxOf k]? with _ | ⟨k', md, ac⟩
  · simp at hm; omega
  · cases g <;> cases md <;> cases ac <;> cu_close

/-- **`update_from_account_event`** (addressed by `ExchangeIndex`). -/
theorem account_event_agrees (s : G.States) (i : G.Index) (h : i.f0 < s.exchanges.length) :
    ofStates (Generated.Machines.ConnectivityStates.update_from_account_event s i)
      = (ofStates s).accountEvent i.f0 := by
  rcases s with ⟨g, m⟩; rcases i with ⟨n⟩
  unfold_cu
  rcases hm : m[n]? with _ | ⟨k', md, ac⟩
  · simp at hm h; omega
  · cases g <;> cases md <;> cases ac <;> cu_close

/-- **`update_from_market_event`** (addressed by `ExchangeId`). -/
theorem market_event_agrees (s : G.States) (k : G.Id) (h : pos s k < s.exchanges.length) :
    ofStates (Generated.Machines.ConnectivityStates.update_from_market_event s k)
      = (ofStates s).marketEvent (pos s k) := by
  rcases s with ⟨g, m⟩
  simp only [pos] at h
  unfold_cu
  rcases hm : m[(keys m).idxOf k]? with _ | ⟨k', md, ac⟩
  · simp at hm; omega
  · cases g <;> cases md <;> cases ac <;> cu_close

/-! ## The keys never change (so `pos` is stable along every run) -/

theorem keys_set (m : G.Map) (k : G.Id) (v : GState) : keys (Rust.IndexMap.set m k v) = keys m :=
  MapVocab.keys_set m k v
theorem keys_set_index (m : G.Map) (i : Nat) (v : GState) : keys (Rust.IndexMap.set_index m i v) = keys m :=
  MapVocab.keys_set_index m i v

/-- under the same hypothesis (the addressed exchange exists) no update changes the key list. -/
theorem keys_unchanged (s : G.States) (k : G.Id) (i : G.Index)
    (hk : pos s k < s.exchanges.length) (hi : i.f0 < s.exchanges.length) :
    keys (Generated.Machines.ConnectivityStates.update_from_account_reconnecting s k).exchanges = keys s.exchanges
    ∧ keys (Generated.Machines.ConnectivityStates.update_from_market_reconnecting s k).exchanges = keys s.exchanges
    ∧ keys (Generated.Machines.ConnectivityStates.update_from_market_event s k).exchanges = keys s.exchanges
    ∧ keys (Generated.Machines.ConnectivityStates.update_from_account_event s i).exchanges = keys s.exchanges := by
  rcases s with ⟨g, m⟩; rcases i with ⟨n⟩
  simp only [pos] at hk
  have hk' : ∃ c, Rust.IndexMap.get m k = some c := by
    rw [get_eq_getElem?_idxOf]
    rcases hm : m[(keys m).idxOf k]? with _ | c
    · simp at hm; omega
    · exact ⟨c.2, rfl⟩
  have hi' : ∃ c, m[n]? = some c := by
    rcases hm : m[n]? with _ | c
    · simp at hm hi; omega
    · exact ⟨c, rfl⟩
  obtain ⟨c, hc⟩ := hk'
  obtain ⟨d, hd⟩ := hi'
  simp only [gen_connectivity_updates, Generated.Machines.Rust.IndexMap.get_index, hc, hd]
  refine ⟨?_, ?_, ?_, ?_⟩ <;> grind [keys_set, keys_set_index]

/-! ## Everything at once -/

theorem connectivity_updates_agree :
    (∀ (s : G.States) (k : G.Id), pos s k < s.exchanges.length →
        (ofStates s).accountReconnecting (pos s k)
          = ofStates (Generated.Machines.ConnectivityStates.update_from_account_reconnecting s k))
    ∧ (∀ (s : G.States) (k : G.Id), pos s k < s.exchanges.length →
        (ofStates s).marketReconnecting (pos s k)
          = ofStates (Generated.Machines.ConnectivityStates.update_from_market_reconnecting s k))
    ∧ (∀ (s : G.States) (i : G.Index), i.f0 < s.exchanges.length →
        (ofStates s).accountEvent i.f0 = ofStates (Generated.Machines.ConnectivityStates.update_from_account_event s i))
    ∧ (∀ (s : G.States) (k : G.Id), pos s k < s.exchanges.length →
        (ofStates s).marketEvent (pos s k) = ofStates (Generated.Machines.ConnectivityStates.update_from_market_event s k))
    ∧ (∀ (s : G.States) (k : G.Id) (i : G.Index), pos s k < s.exchanges.length → i.f0 < s.exchanges.length →
        keys (Generated.Machines.ConnectivityStates.update_from_account_reconnecting s k).exchanges = keys s.exchanges
        ∧ keys (Generated.Machines.ConnectivityStates.update_from_market_reconnecting s k).exchanges = keys s.exchanges
        ∧ keys (Generated.Machines.ConnectivityStates.update_from_market_event s k).exchanges = keys s.exchanges
        ∧ keys (Generated.Machines.ConnectivityStates.update_from_account_event s i).exchanges = keys s.exchanges)
    ∧ (∀ (s : G.States) (i : G.Index) (c : G.Id × GState), s.exchanges[i.f0]? = some c →
        Generated.Machines.ConnectivityStates.connectivity_index s i = c.2)
    ∧ (∀ (s : G.States) (k : G.Id) (c : G.Id × GState), s.exchanges[pos s k]? = some c →
        Generated.Machines.ConnectivityStates.connectivity s k = c.2)
    ∧ (∀ s : G.States, (Generated.Machines.ConnectivityStates.exchange_states s).map ofState = (ofStates s).exchanges)
    ∧ (∀ (ks : List G.Id) (s : States), ks.length = s.exchanges.length → ofStates (toStates ks s) = s) :=
  ⟨fun s k h => (account_reconnecting_agrees s k h).symm, fun s k h => (market_reconnecting_agrees s k h).symm,
    fun s i h => (account_event_agrees s i h).symm, fun s k h => (market_event_agrees s k h).symm,
    fun s k i hk hi => keys_unchanged s k i hk hi, connectivity_index_agrees, connectivity_agrees,
    exchange_states_agrees, ofStates_toStates⟩

end BarterModel.KernelsAgree.ConnectivityUpdSM
