import BarterModel.Generated.Machines
import BarterModel.Model.Drawdown
/-!
# Agreement: the drawdown generators (statistic/metric/drawdown/{mod,max,mean}.rs) as state machines

`BarterModel.Generated.Machines.{DrawdownGenerator, MaxDrawdownGenerator, MeanDrawdownGenerator}.*`
(and `Drawdown.duration`, the two instances of the generic `welford_online::calculate_mean`) are
regenerated from the Rust source by `tools/rust2lean_sm.py` on every run of `./check C18`
(`PREBUILD`). The theorems below state that, for ALL generator states and ALL inputs, the generated
step functions are the hand-written `BarterModel.Drawdown.{Gen, MaxGen, MeanGen}.*` definitions the
C18 theorems are about, read through explicit (and proved) bijections of the records:

* `Pt` (t, v) ≃ generated `Timed Rat` (value, time) — field order differs;
* `Drawdown`, `Gen`, `MeanDrawdown`, `MeanGen` — same fields, Rust names;
* `MaxGen` (max : Option Drawdown) ≃ generated `MaxDrawdownGenerator` (max : Option (MaxDrawdown ⟨Drawdown⟩))
  — the Rust newtype `MaxDrawdown(pub Drawdown)` is unwrapped by the model.

A change of one of the translated functions in the source makes a theorem here fail to build.
-/
namespace BarterModel.KernelsAgree.Drawdown
open BarterModel BarterModel.Drawdown

/-! the generated types, under short names (`GM` = `BarterModel.Generated.Machines`) -/
namespace G
abbrev Timed := Generated.Machines.Timed
abbrev Drawdown := Generated.Machines.Drawdown
abbrev DrawdownGenerator := Generated.Machines.DrawdownGenerator
abbrev MaxDrawdown := Generated.Machines.MaxDrawdown
abbrev MaxDrawdownGenerator := Generated.Machines.MaxDrawdownGenerator
abbrev MeanDrawdown := Generated.Machines.MeanDrawdown
abbrev MeanDrawdownGenerator := Generated.Machines.MeanDrawdownGenerator
end G

/-! ## Record bijections -/

def toTimed (p : Pt) : G.Timed Rat := ⟨p.v, p.t⟩
def ofTimed (p : G.Timed Rat) : Pt := ⟨p.time, p.value⟩
theorem ofTimed_toTimed (p : Pt) : ofTimed (toTimed p) = p := rfl
theorem toTimed_ofTimed (p : G.Timed Rat) : toTimed (ofTimed p) = p := rfl

def toDd (d : Drawdown) : G.Drawdown := ⟨d.value, d.timeStart, d.timeEnd⟩
def ofDd (d : G.Drawdown) : Drawdown := ⟨d.value, d.time_start, d.time_end⟩
theorem ofDd_toDd (d : Drawdown) : ofDd (toDd d) = d := rfl
theorem toDd_ofDd (d : G.Drawdown) : toDd (ofDd d) = d := rfl
theorem toDd_value (d : Drawdown) : (toDd d).value = d.value := rfl

def toGen (g : Gen) : G.DrawdownGenerator := ⟨g.peak, g.drawdownMax, g.timePeak, g.timeNow⟩
def ofGen (g : G.DrawdownGenerator) : Gen := ⟨g.peak, g.drawdown_max, g.time_peak, g.time_now⟩
theorem ofGen_toGen (g : Gen) : ofGen (toGen g) = g := rfl
theorem toGen_ofGen (g : G.DrawdownGenerator) : toGen (ofGen g) = g := rfl

def toMaxGen (m : MaxGen) : G.MaxDrawdownGenerator := ⟨m.max.map fun d => ⟨toDd d⟩⟩
def ofMaxGen (m : G.MaxDrawdownGenerator) : MaxGen := ⟨m.max.map fun d => ofDd d.f0⟩
theorem ofMaxGen_toMaxGen (m : MaxGen) : ofMaxGen (toMaxGen m) = m := by
  cases m with | mk x => cases x <;> rfl
theorem toMaxGen_ofMaxGen (m : G.MaxDrawdownGenerator) : toMaxGen (ofMaxGen m) = m := by
  cases m with | mk x => cases x <;> rfl

def toMean (m : Drawdown.MeanDrawdown) : G.MeanDrawdown := ⟨m.meanDrawdown, m.meanDrawdownMs⟩
def ofMean (m : G.MeanDrawdown) : Drawdown.MeanDrawdown := ⟨m.mean_drawdown, m.mean_drawdown_ms⟩
def toMeanGen (m : MeanGen) : G.MeanDrawdownGenerator := ⟨m.count, m.mean.map toMean⟩
def ofMeanGen (m : G.MeanDrawdownGenerator) : MeanGen := ⟨m.count, m.mean_drawdown.map ofMean⟩
theorem ofMeanGen_toMeanGen (m : MeanGen) : ofMeanGen (toMeanGen m) = m := by
  cases m with | mk c x => cases x <;> rfl
theorem toMeanGen_ofMeanGen (m : G.MeanDrawdownGenerator) : toMeanGen (ofMeanGen m) = m := by
  cases m with | mk c x => cases x <;> rfl

/-! ## Vocabulary (the translator's fixed prelude, which is not part of any group's simp set) -/

theorem checked_div_agrees (a b : Rat) : Generated.Machines.Decimal.checked_div a b = checkedDiv a b := rfl

theorem abs_agrees (x : Rat) : Generated.Machines.Decimal.abs x = x.abs := by
  unfold Generated.Machines.Decimal.abs
  grind [Rat.abs]

/-! ## Shape-independent proofs

Every proof below takes the state records apart (`rcases`: case analysis on the DATA), unfolds *everything generated
for the group* (`gen_drawdown`: the listed functions, the instances of the generic `calculate_mean` and whatever
auxiliary functions the translator found by lookup, under whatever names) together with the model's definitions and
the record maps, and lets `grind` decide the remaining case distinctions (comparisons of rationals, the constructors
of `Option`). Nothing depends on the names of helper functions or on how the source spells a decision (`if`/`else`,
early `return`, `match` with guards, `then_some`, flipped comparisons, hoisted or renamed locals, `take()` vs. a match
on `&self.max`). -/

open Lean.Parser.Tactic in
/-- everything generated for the group, the model's definitions and the record maps -/
local macro "unfold_dd" loc:(location)? : tactic => `(tactic|
  simp only [gen_drawdown, Gen.init, Gen.generate, Gen.update, MaxGen.update, MaxGen.generate, MeanGen.update,
    MeanGen.generate, welfordMean, welfordMeanInt, BarterModel.Drawdown.Drawdown.duration, toTimed, ofTimed, toDd, ofDd,
    toGen, ofGen, toMaxGen, ofMaxGen, toMean, ofMean, toMeanGen, ofMeanGen, checked_div_agrees, abs_agrees,
    Option.map] $[$loc]?)

/-- unfold both sides, then case analysis on the data -/
local macro "dd_agree" : tactic => `(tactic| first | rfl | (unfold_dd; done) | (unfold_dd; grind))

theorem duration_agrees (d : Drawdown) : d.duration = (toDd d).duration := by dd_agree

theorem calculate_mean_decimal_agrees (prev next count : Rat) :
    Generated.Machines.welford_online.calculate_mean_Decimal prev next count = welfordMean prev next count := by dd_agree

theorem calculate_mean_i64_agrees (prev next count : Int) :
    Generated.Machines.welford_online.calculate_mean_i64 prev next count = welfordMeanInt prev next count := by dd_agree

/-! ## `DrawdownGenerator` -/

theorem init_agrees (p : Pt) : Gen.init p = ofGen (Generated.Machines.DrawdownGenerator.init (toTimed p)) := by dd_agree

/-- `generate(&mut self)` does not change the state and returns the model's value. -/
theorem generate_agrees (g : Gen) :
    ((toGen g).generate).1 = toGen g ∧ g.generate = ((toGen g).generate).2.map ofDd := by
  rcases g with ⟨peak, dmax, _ | tpeak, tnow⟩ <;> dd_agree

theorem update_agrees (g : Gen) (p : Pt) :
    g.update p = (ofGen ((toGen g).update (toTimed p)).1, ((toGen g).update (toTimed p)).2.map ofDd) := by
  rcases p with ⟨t, v⟩
  rcases g with ⟨_ | peak, dmax, _ | tpeak, tnow⟩ <;> dd_agree

/-! ## `MaxDrawdownGenerator` -/

/-- `MaxDrawdownGenerator::init(d)` is the model state holding `d`. -/
theorem max_init_agrees (d : Drawdown) :
    (⟨some d⟩ : MaxGen) = ofMaxGen (Generated.Machines.MaxDrawdownGenerator.init (toDd d)) := by dd_agree

theorem max_update_agrees (m : MaxGen) (d : Drawdown) :
    m.update d = ofMaxGen ((toMaxGen m).update (toDd d)) := by
  rcases d with ⟨v, ts, te⟩
  rcases m with ⟨_ | ⟨cv, cts, cte⟩⟩ <;> dd_agree

theorem max_generate_agrees (m : MaxGen) :
    m.generate = ((toMaxGen m).generate).map fun x => ofDd x.f0 := by
  rcases m with ⟨_ | ⟨cv, cts, cte⟩⟩ <;> dd_agree

/-! ## `MeanDrawdownGenerator` -/

/-- `MeanDrawdownGenerator::init(d)`: count 1, mean = `d` itself. -/
theorem mean_init_agrees (d : Drawdown) :
    (⟨1, some ⟨d.value, d.duration⟩⟩ : MeanGen) = ofMeanGen (Generated.Machines.MeanDrawdownGenerator.init (toDd d)) := by
  dd_agree

theorem mean_update_agrees (m : MeanGen) (d : Drawdown) :
    m.update d = ofMeanGen ((toMeanGen m).update (toDd d)) := by
  rcases d with ⟨v, ts, te⟩
  rcases m with ⟨c, _ | ⟨md, ms⟩⟩ <;> dd_agree

theorem mean_generate_agrees (m : MeanGen) :
    m.generate = ((toMeanGen m).generate).map ofMean := by
  rcases m with ⟨c, _ | ⟨md, ms⟩⟩ <;> dd_agree

/-! ## Everything at once (re-exported as `Props.C18.kernels_agree_with_source`) -/

theorem drawdown_kernels_agree :
    (∀ p : Pt, Gen.init p = ofGen (Generated.Machines.DrawdownGenerator.init (toTimed p)))
    ∧ (∀ g : Gen, ((toGen g).generate).1 = toGen g ∧ g.generate = ((toGen g).generate).2.map ofDd)
    ∧ (∀ (g : Gen) (p : Pt),
        g.update p = (ofGen ((toGen g).update (toTimed p)).1, ((toGen g).update (toTimed p)).2.map ofDd))
    ∧ (∀ (m : MaxGen) (d : Drawdown), m.update d = ofMaxGen ((toMaxGen m).update (toDd d)))
    ∧ (∀ m : MaxGen, m.generate = ((toMaxGen m).generate).map fun x => ofDd x.f0)
    ∧ (∀ (m : MeanGen) (d : Drawdown), m.update d = ofMeanGen ((toMeanGen m).update (toDd d)))
    ∧ (∀ m : MeanGen, m.generate = ((toMeanGen m).generate).map ofMean) :=
  ⟨init_agrees, generate_agrees, update_agrees, max_update_agrees, max_generate_agrees,
    mean_update_agrees, mean_generate_agrees⟩

end BarterModel.KernelsAgree.Drawdown
