import BarterModel.Generated.Machines4
import BarterModel.Lemmas.KernelsAgree.MapVocab
/-!
# The iterator vocabulary of the translator (prelude of `Generated/Machines4.lean`)

`tools/rust2lean_sm.py` reads an iterator as the LIST of the items it will yield and gives the adaptors / consumers it
accepts a FIXED meaning: core `List` functions (`map`, `filter`, `filterMap`, `find?`, `findSome?`, `any`, `all`, `++`,
`zip`, `flatten`, `length`) and the five definitions of the prelude: `Rust.IndexMap.insert`, `Rust.IndexMap.collect`,
`Rust.Map.collect`, `Rust.Iter.enumerate`, `Rust.Iter.position` (+ `Rust.IndexMap.keys`, `Rust.u64_sub`). That meaning is
part of the trusted reading of the source. This file makes the trust small by proving what the five definitions amount to:

* `IndexMap::insert`: the finite-map law `get_insert`; the key list is unchanged when the key is present and extended at
  the END otherwise (`keys_insert`); the length likewise; distinct keys stay distinct (`nodup_keys_insert`).
* `collect` into an `IndexMap`: the value of a key is the value of its LAST pair in the iterator (`get_collect`,
  `lastOf`), the keys are pairwise distinct (`nodup_keys_collect`), every key of the iterator is a key of the map and vice
  versa (`mem_keys_collect`), and an iterator without repeated keys is collected UNCHANGED (`collect_of_nodup`) — the
  documented `FromIterator` of indexmap ("the last corresponding value prevails", "keeps the existing order").
* `collect` into a `HashMap`: the same finite map (`get_map_collect`, `map_collect_eq_indexmap_collect`): the value of the
  last pair wins; position has no meaning. Keys stay distinct (`wf_map_collect`).
* collecting commutes with re-labelling keys injectively and values arbitrarily (`collect_map`): what lets an agreement
  proof move between the generated key types (`AssetIndex`, ..) and a model's `Nat`s.
* `enumerate` pairs every item with its index from 0 (`getElem?_enumerate`, `length_enumerate`, `enumerate_map_snd`),
  `position` is core's `List.findIdx?` (`position_eq_findIdx?`), and `u64_sub` is `-` when it does not underflow.
-/
namespace BarterModel.KernelsAgree.IterVocab
open BarterModel.Generated.Machines

set_option linter.unusedSectionVars false
variable {K V K' V' T : Type} [DecidableEq K] [DecidableEq K']

/-! ## `IndexMap::insert` -/

theorem get_insert (m : Rust.IndexMap K V) (k k' : K) (v : V) :
    Rust.IndexMap.get (Rust.IndexMap.insert m k v) k' = if k' = k then some v else Rust.IndexMap.get m k' := by
  induction m with
  | nil => simp [Rust.IndexMap.insert, Rust.IndexMap.get, Rust.Map.get]; grind
  | cons kv rest ih =>
    obtain ⟨a, w⟩ := kv
    simp only [Rust.IndexMap.get] at ih ⊢
    by_cases h : a = k
    · simp [Rust.IndexMap.insert, Rust.Map.get, h]; grind
    · simp only [Rust.IndexMap.insert, h, ↓reduceIte, Rust.Map.get, ih]; grind

theorem keys_insert (m : Rust.IndexMap K V) (k : K) (v : V) :
    Rust.IndexMap.keys (Rust.IndexMap.insert m k v)
      = if k ∈ Rust.IndexMap.keys m then Rust.IndexMap.keys m else Rust.IndexMap.keys m ++ [k] := by
  induction m with
  | nil => simp [Rust.IndexMap.insert, Rust.IndexMap.keys]
  | cons kv rest ih =>
    obtain ⟨a, w⟩ := kv
    simp only [Rust.IndexMap.keys] at ih ⊢
    by_cases h : a = k
    · simp [Rust.IndexMap.insert, h]
    · have hk : ¬ k = a := fun e => h e.symm
      simp only [Rust.IndexMap.insert, h, ↓reduceIte, List.map_cons, ih, List.mem_cons, hk, false_or]
      split <;> simp_all

theorem nodup_keys_insert (m : Rust.IndexMap K V) (k : K) (v : V) (h : (Rust.IndexMap.keys m).Nodup) :
    (Rust.IndexMap.keys (Rust.IndexMap.insert m k v)).Nodup := by
  rw [keys_insert]
  split
  · exact h
  · rename_i hk
    rw [List.nodup_append]
    exact ⟨h, by simp, by intro a ha b hb; simp at hb; subst hb; exact fun e => hk (e ▸ ha)⟩

theorem insert_of_not_mem (m : Rust.IndexMap K V) (k : K) (v : V) (h : k ∉ Rust.IndexMap.keys m) :
    Rust.IndexMap.insert m k v = m ++ [(k, v)] := by
  induction m with
  | nil => rfl
  | cons kv rest ih =>
    obtain ⟨a, w⟩ := kv
    simp only [Rust.IndexMap.keys, List.map_cons, List.mem_cons, not_or] at h
    have ha : ¬ a = k := fun e => h.1 e.symm
    simp only [Rust.IndexMap.insert, ha, ↓reduceIte, List.cons_append, List.cons.injEq, true_and]
    exact ih h.2

/-- re-labelling: an injective map on keys and any map on values commute with `insert` -/
theorem insert_map (f : K → K') (hf : Function.Injective f) (g : V → V') (m : Rust.IndexMap K V) (k : K) (v : V) :
    (Rust.IndexMap.insert m k v).map (fun kv => (f kv.1, g kv.2))
      = Rust.IndexMap.insert (m.map fun kv => (f kv.1, g kv.2)) (f k) (g v) := by
  induction m with
  | nil => rfl
  | cons kv rest ih =>
    obtain ⟨a, w⟩ := kv
    by_cases h : a = k
    · simp [Rust.IndexMap.insert, h]
    · have h' : ¬ f a = f k := fun e => h (hf e)
      simp only [Rust.IndexMap.insert, h, ↓reduceIte, List.map_cons, h', ih]

/-! ## `collect` into an `IndexMap` -/

/-- the value of the LAST pair with key `k` -/
def lastOf (l : List (K × V)) (k : K) : Option V :=
  l.foldl (fun acc kv => if kv.1 = k then some kv.2 else acc) none

theorem foldl_lastOf (l : List (K × V)) (k : K) (init : Option V) :
    l.foldl (fun acc kv => if kv.1 = k then some kv.2 else acc) init
      = match lastOf l k with | some v => some v | none => init := by
  induction l generalizing init with
  | nil => rfl
  | cons kv rest ih =>
    simp only [lastOf, List.foldl_cons]
    rw [ih, ih (if kv.1 = k then some kv.2 else none)]
    cases lastOf rest k <;> simp <;> split <;> rfl

theorem lastOf_cons (kv : K × V) (rest : List (K × V)) (k : K) :
    lastOf (kv :: rest) k
      = match lastOf rest k with | some v => some v | none => if kv.1 = k then some kv.2 else none := by
  simp only [lastOf, List.foldl_cons]
  rw [foldl_lastOf]
  rfl

theorem get_foldl_insert (l : List (K × V)) (m : Rust.IndexMap K V) (k : K) :
    Rust.IndexMap.get (l.foldl (fun m kv => Rust.IndexMap.insert m kv.1 kv.2) m) k
      = match lastOf l k with | some v => some v | none => Rust.IndexMap.get m k := by
  induction l generalizing m with
  | nil => rfl
  | cons kv rest ih =>
    simp only [List.foldl_cons, ih, get_insert, lastOf_cons]
    cases lastOf rest k <;> simp
    split <;> simp_all [eq_comm]

/-- **the value of a key in a collected `IndexMap` is the value of its last pair in the iterator** -/
theorem get_collect (l : List (K × V)) (k : K) :
    Rust.IndexMap.get (Rust.IndexMap.collect l) k = lastOf l k := by
  simp only [Rust.IndexMap.collect, get_foldl_insert]
  cases lastOf l k <;> rfl

theorem nodup_keys_foldl_insert (l : List (K × V)) (m : Rust.IndexMap K V) (h : (Rust.IndexMap.keys m).Nodup) :
    (Rust.IndexMap.keys (l.foldl (fun m kv => Rust.IndexMap.insert m kv.1 kv.2) m)).Nodup := by
  induction l generalizing m with
  | nil => exact h
  | cons kv rest ih => exact ih _ (nodup_keys_insert m kv.1 kv.2 h)

/-- the keys of a collected `IndexMap` are pairwise distinct -/
theorem nodup_keys_collect (l : List (K × V)) : (Rust.IndexMap.keys (Rust.IndexMap.collect l)).Nodup :=
  nodup_keys_foldl_insert l [] (by simp [Rust.IndexMap.keys])

theorem mem_keys_foldl_insert (l : List (K × V)) (m : Rust.IndexMap K V) (k : K) :
    k ∈ Rust.IndexMap.keys (l.foldl (fun m kv => Rust.IndexMap.insert m kv.1 kv.2) m)
      ↔ k ∈ Rust.IndexMap.keys m ∨ k ∈ l.map (·.1) := by
  induction l generalizing m with
  | nil => simp
  | cons kv rest ih =>
    simp only [List.foldl_cons, ih, keys_insert, List.map_cons, List.mem_cons]
    split <;> simp <;> grind

/-- the keys of a collected `IndexMap` are exactly the keys the iterator yields -/
theorem mem_keys_collect (l : List (K × V)) (k : K) :
    k ∈ Rust.IndexMap.keys (Rust.IndexMap.collect l) ↔ k ∈ l.map (·.1) := by
  have := mem_keys_foldl_insert l ([] : Rust.IndexMap K V) k
  simpa [Rust.IndexMap.collect, Rust.IndexMap.keys] using this

theorem foldl_insert_of_nodup (l : List (K × V)) (m : Rust.IndexMap K V)
    (hn : (l.map (·.1)).Nodup) (hd : ∀ k ∈ l.map (·.1), k ∉ Rust.IndexMap.keys m) :
    l.foldl (fun m kv => Rust.IndexMap.insert m kv.1 kv.2) m = m ++ l := by
  induction l generalizing m with
  | nil => simp
  | cons kv rest ih =>
    obtain ⟨a, w⟩ := kv
    simp only [List.map_cons, List.nodup_cons] at hn
    simp only [List.foldl_cons]
    rw [insert_of_not_mem m a w (hd a (by simp))]
    rw [ih _ hn.2]
    · simp
    · intro k hk
      simp only [Rust.IndexMap.keys, List.map_append, List.map_cons, List.map_nil, List.mem_append,
        List.mem_singleton, not_or]
      refine ⟨by simpa [Rust.IndexMap.keys] using hd k (by simp [hk]), ?_⟩
      intro e; subst e; exact hn.1 hk

/-- an iterator without repeated keys is collected unchanged (same pairs, same order) -/
theorem collect_of_nodup (l : List (K × V)) (hn : (l.map (·.1)).Nodup) : Rust.IndexMap.collect l = l := by
  simpa [Rust.IndexMap.collect] using foldl_insert_of_nodup l [] hn (by simp [Rust.IndexMap.keys])

theorem foldl_insert_map (f : K → K') (hf : Function.Injective f) (g : V → V') (l : List (K × V))
    (m : Rust.IndexMap K V) :
    (l.foldl (fun m kv => Rust.IndexMap.insert m kv.1 kv.2) m).map (fun kv => (f kv.1, g kv.2))
      = (l.map fun kv => (f kv.1, g kv.2)).foldl (fun m kv => Rust.IndexMap.insert m kv.1 kv.2)
          (m.map fun kv => (f kv.1, g kv.2)) := by
  induction l generalizing m with
  | nil => rfl
  | cons kv rest ih => simp only [List.foldl_cons, List.map_cons, ih, insert_map f hf g]

/-- **collecting commutes with re-labelling** keys injectively and values arbitrarily -/
theorem collect_map (f : K → K') (hf : Function.Injective f) (g : V → V') (l : List (K × V)) :
    (Rust.IndexMap.collect l).map (fun kv => (f kv.1, g kv.2))
      = Rust.IndexMap.collect (l.map fun kv => (f kv.1, g kv.2)) := by
  simpa [Rust.IndexMap.collect] using foldl_insert_map f hf g l []

/-! ## `collect` into a `HashMap` -/

theorem get_foldl_map_insert (l : List (K × V)) (m : Rust.Map K V) (k : K) :
    Rust.Map.get (l.foldl (fun m kv => Rust.Map.insert m kv.1 kv.2) m) k
      = match lastOf l k with | some v => some v | none => Rust.Map.get m k := by
  induction l generalizing m with
  | nil => rfl
  | cons kv rest ih =>
    simp only [List.foldl_cons, ih, MapVocab.get_insert, lastOf_cons]
    cases lastOf rest k <;> simp
    split <;> simp_all [eq_comm]

/-- **the value of a key in a collected `HashMap` is the value of its last pair in the iterator** -/
theorem get_map_collect (l : List (K × V)) (k : K) : Rust.Map.get (Rust.Map.collect l) k = lastOf l k := by
  simp only [Rust.Map.collect, get_foldl_map_insert]
  cases lastOf l k <;> rfl

/-- collected into a `HashMap` or into an `IndexMap`: the same finite map -/
theorem map_collect_eq_indexmap_collect (l : List (K × V)) (k : K) :
    Rust.Map.get (Rust.Map.collect l) k = Rust.IndexMap.get (Rust.IndexMap.collect l) k := by
  rw [get_map_collect, get_collect]

theorem wf_map_collect (l : List (K × V)) : MapVocab.WF (Rust.Map.collect l) := by
  have : ∀ (m : Rust.Map K V), MapVocab.WF m →
      MapVocab.WF (l.foldl (fun m kv => Rust.Map.insert m kv.1 kv.2) m) := by
    induction l with
    | nil => intro m h; exact h
    | cons kv rest ih => intro m h; exact ih _ (MapVocab.wf_insert m kv.1 kv.2 h)
  exact this [] (by simp [MapVocab.WF])

/-- `lastOf` after re-labelling keys injectively -/
theorem lastOf_map (f : K → K') (hf : Function.Injective f) (g : V → V') (l : List (K × V)) (k : K) :
    lastOf (l.map fun kv => (f kv.1, g kv.2)) (f k) = (lastOf l k).map g := by
  have : ∀ (init : Option V),
      (l.map fun kv => (f kv.1, g kv.2)).foldl (fun acc kv => if kv.1 = f k then some kv.2 else acc) (init.map g)
        = (l.foldl (fun acc kv => if kv.1 = k then some kv.2 else acc) init).map g := by
    induction l with
    | nil => intro init; rfl
    | cons kv rest ih =>
      intro init
      simp only [List.map_cons, List.foldl_cons]
      by_cases h : kv.1 = k
      · simp only [↓reduceIte, h]
        exact ih (some kv.2)
      · have : ¬ f kv.1 = f k := fun e => h (hf e)
        simp only [this, ↓reduceIte, h]
        exact ih init
  simpa [lastOf] using this none

theorem lastOf_eq_none_iff (l : List (K × V)) (k : K) : lastOf l k = none ↔ k ∉ l.map (·.1) := by
  rw [← get_collect, ← mem_keys_collect (l := l)]
  exact MapVocab.get_none_iff _ _

/-! ## `enumerate`, `position`, `u64_sub` -/

theorem length_enumerate_from (i : Nat) (l : List T) : (Rust.Iter.enumerate_from i l).length = l.length := by
  induction l generalizing i with
  | nil => rfl
  | cons x xs ih => simp [Rust.Iter.enumerate_from, ih]

theorem length_enumerate (l : List T) : (Rust.Iter.enumerate l).length = l.length :=
  length_enumerate_from 0 l

theorem getElem?_enumerate_from (i j : Nat) (l : List T) :
    (Rust.Iter.enumerate_from i l)[j]? = (l[j]?).map fun x => (i + j, x) := by
  induction l generalizing i j with
  | nil => simp [Rust.Iter.enumerate_from]
  | cons x xs ih =>
    cases j with
    | zero => simp [Rust.Iter.enumerate_from]
    | succ j => simp [Rust.Iter.enumerate_from, ih]; grind

/-- the `j`-th item of `enumerate` is `(j, x_j)` -/
theorem getElem?_enumerate (j : Nat) (l : List T) :
    (Rust.Iter.enumerate l)[j]? = (l[j]?).map fun x => (j, x) := by
  simpa [Rust.Iter.enumerate] using getElem?_enumerate_from 0 j l

theorem enumerate_from_map_snd (i : Nat) (l : List T) : (Rust.Iter.enumerate_from i l).map (·.2) = l := by
  induction l generalizing i with
  | nil => rfl
  | cons x xs ih => simp [Rust.Iter.enumerate_from, ih]

theorem enumerate_map_snd (l : List T) : (Rust.Iter.enumerate l).map (·.2) = l := enumerate_from_map_snd 0 l

theorem enumerate_from_map_fst (i : Nat) (l : List T) :
    (Rust.Iter.enumerate_from i l).map (·.1) = List.range' i l.length := by
  induction l generalizing i with
  | nil => rfl
  | cons x xs ih => simp [Rust.Iter.enumerate_from, ih, List.range'_succ]

/-- the indices of `enumerate` are `0, 1, .., n-1` -/
theorem enumerate_map_fst (l : List T) : (Rust.Iter.enumerate l).map (·.1) = List.range l.length := by
  simpa [Rust.Iter.enumerate, List.range_eq_range'] using enumerate_from_map_fst 0 l

/-- `position` is core's `findIdx?` -/
theorem position_eq_findIdx? (p : T → Bool) (l : List T) : Rust.Iter.position p l = l.findIdx? p := by
  induction l with
  | nil => rfl
  | cons x xs ih => simp only [Rust.Iter.position, List.findIdx?_cons, ih]

/-! ## Normal forms: the two spellings of "first / every item satisfying `p`, mapped by `f`" coincide

`find_map(|x| c.then_some(e))` and `find(|x| c).map(|x| e)`, `filter_map(|x| c.then_some(e))` and
`filter(|x| c).map(|x| e)`: agreement proofs rewrite the fused spelling into the split one (`find?` / `filter` followed
by `map`), so that either way of writing the chain in the source gives the same goal. -/

theorem findSome?_ite (p : T → Prop) [DecidablePred p] (f : T → V) (l : List T) :
    l.findSome? (fun x => if p x then some (f x) else none) = (l.find? fun x => decide (p x)).map f := by
  induction l with
  | nil => rfl
  | cons x xs ih => by_cases h : p x <;> simp [h, ih]

theorem filterMap_ite (p : T → Prop) [DecidablePred p] (f : T → V) (l : List T) :
    l.filterMap (fun x => if p x then some (f x) else none) = (l.filter fun x => decide (p x)).map f := by
  induction l with
  | nil => rfl
  | cons x xs ih => by_cases h : p x <;> simp [h, ih]

theorem u64_sub_of_le {a b : Nat} (h : b ≤ a) : Rust.u64_sub a b = a - b := by
  simp [Rust.u64_sub, h]

end BarterModel.KernelsAgree.IterVocab
