import BarterModel.Generated.Machines4
import BarterModel.Model.Audit
/-!
# Agreement: the audit sequence — `Sequence::fetch_add`, `Engine::audit`, `process_with_audit`, the replica's gap check (C10)

`BarterModel.Generated.Machines.{Sequence.value, Sequence.fetch_add, Engine.new, Engine.time, Engine.reset_metadata,
Engine.audit, Engine.audit_snapshot, process_with_audit, StateReplicaManager.new,
StateReplicaManager.validate_and_update_context}` with the structs `Sequence`, `EngineContext`, `EngineMeta`,
`AuditTick`, `Engine`, `StateReplicaManager` and the traits `EngineClock`, `Processor`, `Auditor` (records of their
methods) are regenerated from `barter/src/lib.rs`, `barter/src/engine/{mod,clock}.rs`,
`barter/src/engine/audit/{mod,context,state_replica}.rs` by `tools/rust2lean_sm.py` (group `audit_seq`, file
`Generated/Machines4.lean`) on every run of `./check C10`.

## What is stated (for ALL engines, clocks, events, conversion functions, replica states)

* `fetch_add_agrees`, `audit_agrees`, `audit_snapshot_agrees` — EQUALITIES: `audit` stamps the record with the engine's
  CURRENT sequence and the clock's time, wraps `From::from(kind)`, and returns the engine with `meta.sequence + 1` and
  nothing else changed. This is the model's `processWithAudit` after its `process`: `(⟨.., s.seq + 1⟩, .process s.seq ..)`.
* `process_with_audit_is_process_then_audit` — EQUALITY, no hypothesis: for every `Processor` and every `Auditor` record
  the generated `process_with_audit` is "process, then audit the OUTPUT of that process (converted by the identity
  `From<T> for T`) on the engine AFTER that process". `process_with_audit_agrees` plugs in the generated
  `Engine::audit` (the `impl Auditor for Engine`, `engineAuditor`).
* `process_with_audit_refines_model` — SIMULATION up to abstraction maps `absE` (engine state), `absA` (audit): the
  generated function refines the model's `Audit.processWithAudit` — same sequence stamp, same next sequence, same
  audit, same engine state — under ONE hypothesis on the parameter `P` (`Engine::process`, which is NOT translated:
  the whole engine is behind it): `SimProcess`, i.e. `P` is simulated by the model's `Engine.process` (what the
  C03 / C10 correspondence runs tie) and does not write `meta.sequence` (no code path of `Engine::process` touches
  `self.meta`; `reset_metadata` is a separate public method).
* `validate_agrees` / `replica_step_agrees` — the replica's `validate_and_update_context` accepts exactly
  `next = current + 1`, then stores `next`, else leaves the replica unchanged and returns an error: the model's
  `Replica.step` after its duplicate test. **Hypothesis `1 ≤ next.sequence`**: the code computes
  `next.sequence.value() - 1` on `u64`, which panics (debug) / wraps (release) at 0 — `Rust.u64_sub`'s
  `Rust.unreachable`. The function is private and its only caller `run` tests `current >= next` first
  (`run_guard_excludes_underflow`: that test failing implies `1 ≤ next`), so the excluded point is unreachable through
  the public API; `replica_step_agrees` therefore has NO hypothesis.
* `new_starts_at_zero`, `reset_metadata_agrees`, `replica_new_agrees` — the initial values.

Left untranslated: `Engine::process` and everything below it (a parameter), the `loop`s of `run.rs` and of
`StateReplicaManager::run` (`while` / `loop` are outside the subset), `update_from_event` (EngineState methods).
-/
namespace BarterModel.KernelsAgree.AuditSeqSM
open BarterModel BarterModel.Audit BarterModel.Engine
open BarterModel.Generated.Machines (Rust.u64_sub Rust.Str)

namespace G
abbrev Sequence := Generated.Machines.Sequence
abbrev Context := Generated.Machines.EngineContext
abbrev Meta := Generated.Machines.EngineMeta
abbrev Tick (K : Type) := Generated.Machines.AuditTick K Context
abbrev Clock (C : Type) := Generated.Machines.EngineClock C
abbrev Engine (C S X St R : Type) := Generated.Machines.Engine C S X St R
abbrev Processor (E Ev A : Type) := Generated.Machines.Processor E Ev A
abbrev Auditor (E A S : Type) := Generated.Machines.Auditor E A S Context
abbrev Replica (S U : Type) := Generated.Machines.StateReplicaManager S U
end G

set_option linter.unusedSectionVars false
variable {C S X St R K A Ev U : Type} [DecidableEq C] [DecidableEq S] [DecidableEq X] [DecidableEq St] [DecidableEq R]
  [DecidableEq K] [DecidableEq A] [DecidableEq Ev] [DecidableEq U]

/-! ## Shape-independent proofs: take the records apart, unfold everything generated for the group, `grind` -/

open Lean.Parser.Tactic in
local macro "unfold_as" loc:(location)? : tactic => `(tactic| simp only [gen_audit_seq] $[$loc]?)

local macro "as_close" : tactic => `(tactic| first
  | rfl
  | (unfold_as; done)
  | (unfold_as; grind)
  | grind)

/-- the engine's sequence number -/
def seqOf (e : G.Engine C S X St R) : Nat := e.meta.sequence.f0

/-- the engine with its sequence number advanced by one, nothing else changed -/
def bump (e : G.Engine C S X St R) : G.Engine C S X St R :=
  { e with «meta» := { e.meta with sequence := ⟨e.meta.sequence.f0 + 1⟩ } }

theorem value_agrees (s : G.Sequence) : Generated.Machines.Sequence.value s = s.f0 := by
  rcases s with ⟨n⟩; as_close

/-- `fetch_add`: returns the CURRENT value, stores the successor. -/
theorem fetch_add_agrees (s : G.Sequence) : Generated.Machines.Sequence.fetch_add s = (⟨s.f0 + 1⟩, s) := by
  rcases s with ⟨n⟩; as_close

/-- `Engine::audit`: the record carries `From::from(kind)`, the engine's current sequence and the clock's time; the
engine afterwards differs in `meta.sequence` only, which advanced by exactly one. -/
theorem audit_agrees (f : K → A) (clk : G.Clock C) (e : G.Engine C S X St R) (k : K) :
    Generated.Machines.Engine.audit f clk e k
      = (bump e, ⟨f k, ⟨e.meta.sequence, clk.time e.clock⟩⟩) := by
  rcases e with ⟨c, ⟨t0, ⟨n⟩⟩, s, x, st, r⟩
  unfold bump
  as_close

/-- `audit_snapshot` is `audit` of (a clone of) the state with the identity conversion. -/
theorem audit_snapshot_agrees (clk : G.Clock C) (e : G.Engine C S X St R) :
    Generated.Machines.Engine.audit_snapshot clk e
      = (bump e, ⟨e.state, ⟨e.meta.sequence, clk.time e.clock⟩⟩) := by
  rcases e with ⟨c, ⟨t0, ⟨n⟩⟩, s, x, st, r⟩
  unfold bump
  as_close

theorem time_agrees (clk : G.Clock C) (e : G.Engine C S X St R) :
    Generated.Machines.Engine.time clk e = clk.time e.clock := by
  rcases e with ⟨c, ⟨t0, ⟨n⟩⟩, s, x, st, r⟩; as_close

/-- `Engine::new`: `Sequence(0)`, start time = the clock's time. -/
theorem new_starts_at_zero (clk : G.Clock C) (c : C) (s : S) (x : X) (st : St) (r : R) :
    Generated.Machines.Engine.new clk c s x st r = ⟨c, ⟨clk.time c, ⟨0⟩⟩, s, x, st, r⟩ := by
  as_close

theorem reset_metadata_agrees (clk : G.Clock C) (e : G.Engine C S X St R) :
    Generated.Machines.Engine.reset_metadata clk e = { e with «meta» := ⟨clk.time e.clock, ⟨0⟩⟩ } := by
  rcases e with ⟨c, ⟨t0, ⟨n⟩⟩, s, x, st, r⟩; as_close

/-- the `impl Auditor<Audit> for Engine` as a record: the generated `audit` / `audit_snapshot` -/
def engineAuditor (clk : G.Clock C) : G.Auditor (G.Engine C S X St R) S S where
  audit_snapshot := fun e => Generated.Machines.Engine.audit_snapshot clk e
  audit := fun f e k => Generated.Machines.Engine.audit f clk e k

/-- `process_with_audit`, for EVERY processor and auditor: process the event, then audit the output of that process
(identity conversion) on the engine as that process left it. No hypothesis. -/
theorem process_with_audit_is_process_then_audit {E Sn : Type} [DecidableEq E] [DecidableEq Sn]
    (P : G.Processor E Ev A) (Au : G.Auditor E A Sn) (e : E) (ev : Ev) :
    Generated.Machines.process_with_audit P Au e ev
      = Au.audit (fun x => x) (P.process e ev).1 (P.process e ev).2 := by
  as_close

/-- `process_with_audit` on the real `Engine` type with its own `Auditor` impl: the record carries the output of
`process`, stamped with the sequence the engine has AFTER `process` and the clock's time after `process`; the engine is
the one `process` returned with its sequence advanced by one. -/
theorem process_with_audit_agrees (P : G.Processor (G.Engine C S X St R) Ev S) (clk : G.Clock C)
    (e : G.Engine C S X St R) (ev : Ev) :
    Generated.Machines.process_with_audit P (engineAuditor clk) e ev
      = (bump (P.process e ev).1,
         ⟨(P.process e ev).2, ⟨(P.process e ev).1.meta.sequence, clk.time (P.process e ev).1.clock⟩⟩) := by
  rw [process_with_audit_is_process_then_audit]
  simp only [engineAuditor]
  rw [audit_agrees]

/-! ## Against the model (`Model/Audit.lean`) -/

/-- the model's `EngA` of a generated engine, the engine state read through `absE` -/
def ofEngA (absE : G.Engine C S X St R → Eng) (e : G.Engine C S X St R) : EngA := ⟨absE e, seqOf e⟩

/-- the model's record of a generated `AuditTick` whose event is the audit of processing `ev` -/
def ofTick (absA : S → Engine.Audit) (ev : Event) (t : G.Tick S) : Tick :=
  .process t.context.sequence.f0 ev (absA t.event)

/-- The ONE hypothesis on the untranslated `Engine::process` (the parameter `P`): on this engine and this event it
is simulated by the model's `process` — engine state through `absE`, audit through `absA` — and it does not write
`meta.sequence`. `absE` must not look at `meta.sequence` (`hframe`). -/
structure SimProcess (absE : G.Engine C S X St R → Eng) (absA : S → Engine.Audit)
    (P : G.Processor (G.Engine C S X St R) Ev S) (e : G.Engine C S X St R) (gev : Ev) (ev : Event) (ask : Ask) : Prop where
  state : absE (P.process e gev).1 = (process (absE e) ev ask.algoC ask.algoO ask.refuse).1
  audit : absA (P.process e gev).2 = (process (absE e) ev ask.algoC ask.algoO ask.refuse).2
  keeps_sequence : (P.process e gev).1.meta.sequence = e.meta.sequence
  hframe : absE (bump (P.process e gev).1) = absE (P.process e gev).1

/-- **`process_with_audit` refines the model's `processWithAudit`**: same engine state, same next sequence, and the
record is `.process <sequence before> ev <audit of the model's process>`. -/
theorem process_with_audit_refines_model (absE : G.Engine C S X St R → Eng) (absA : S → Engine.Audit)
    (P : G.Processor (G.Engine C S X St R) Ev S) (clk : G.Clock C) (e : G.Engine C S X St R) (gev : Ev)
    (ev : Event) (ask : Ask) (h : SimProcess absE absA P e gev ev ask) :
    ofEngA absE (Generated.Machines.process_with_audit P (engineAuditor clk) e gev).1
        = (processWithAudit (ofEngA absE e) ev ask).1 ∧
    ofTick absA ev (Generated.Machines.process_with_audit P (engineAuditor clk) e gev).2
        = (processWithAudit (ofEngA absE e) ev ask).2 := by
  rw [process_with_audit_agrees]
  obtain ⟨hs, ha, hk, hf⟩ := h
  refine ⟨?_, ?_⟩
  · simp only [ofEngA, processWithAudit, EngA.mk.injEq]
    refine ⟨by rw [hf, hs], ?_⟩
    simp only [seqOf, bump, hk]
  · simp only [ofTick, processWithAudit, ofEngA, seqOf, hk, ha]

/-- Consequence in the model's own words (C10 `one_record_per_event`): the record is stamped with the sequence the
engine had, the engine's sequence is that plus one. -/
theorem stamp_then_advance (P : G.Processor (G.Engine C S X St R) Ev S) (clk : G.Clock C)
    (e : G.Engine C S X St R) (ev : Ev) (hk : (P.process e ev).1.meta.sequence = e.meta.sequence) :
    (Generated.Machines.process_with_audit P (engineAuditor clk) e ev).2.context.sequence.f0 = seqOf e ∧
    seqOf (Generated.Machines.process_with_audit P (engineAuditor clk) e ev).1 = seqOf e + 1 := by
  rw [process_with_audit_agrees]
  simp [seqOf, bump, hk]

/-! ## The replica's gap check -/

/-- the sequence of the last applied record -/
def seqOfR (r : G.Replica S U) : Nat := r.state_replica.context.sequence.f0

theorem replica_new_agrees (snap : G.Tick S) (u : U) :
    Generated.Machines.StateReplicaManager.new snap u
      = ⟨⟨snap.context.time, snap.context.sequence⟩, snap, u⟩ := by
  rcases snap with ⟨ev, ⟨⟨n⟩, t⟩⟩; as_close

theorem u64_sub_of_le {a b : Nat} (h : b ≤ a) : Rust.u64_sub a b = a - b := by
  simp [Rust.u64_sub, h]

/-- `validate_and_update_context`, where `next.sequence - 1` does not underflow: `Ok` exactly when `next` follows the
current sequence, and then `next` is stored; otherwise the replica is unchanged. -/
theorem validate_agrees (r : G.Replica S U) (next : G.Context) (h1 : 1 ≤ next.sequence.f0) :
    (Generated.Machines.StateReplicaManager.validate_and_update_context r next).1
        = (if seqOfR r + 1 = next.sequence.f0 then { r with state_replica := { r.state_replica with context := next } } else r) ∧
    ((Generated.Machines.StateReplicaManager.validate_and_update_context r next).2 = .ok () ↔
        seqOfR r + 1 = next.sequence.f0) := by
  rcases r with ⟨m, ⟨st, ⟨⟨n⟩, t⟩⟩, u⟩
  rcases next with ⟨⟨k⟩, t'⟩
  simp only at h1
  unfold_as
  simp only [seqOfR, u64_sub_of_le h1]
  by_cases hk : n + 1 = k
  · have : n = k - 1 := by omega
    have h2 : k - 1 + 1 = k := by omega
    simp [this, h2]
  · have : n ≠ k - 1 := by omega
    simp [hk, this]

/-- `run`'s duplicate test (`current >= next` ⇒ `continue`) failing leaves `1 ≤ next`: the subtraction in
`validate_and_update_context` cannot underflow where `run` calls it. -/
theorem run_guard_excludes_underflow (r : G.Replica S U) (next : G.Context)
    (h : ¬ (seqOfR r ≥ next.sequence.f0)) : 1 ≤ next.sequence.f0 := by omega

/-- **The replica's step is the model's `Replica.step`** (no hypothesis): after `run`'s duplicate test, the generated
`validate_and_update_context` decides error / applied exactly as the model does, and an applied record leaves the
replica at the record's sequence. (`replicaApply` — `update_from_event` — is not translated: `st` is a parameter.) -/
theorem replica_step_agrees (r : G.Replica S U) (st : Eng) (next : G.Context) (ev : Event) (a : Engine.Audit) :
    Audit.Replica.step ⟨st, seqOfR r⟩ (.process next.sequence.f0 ev a)
      = if seqOfR r ≥ next.sequence.f0 then .skipped
        else match (Generated.Machines.StateReplicaManager.validate_and_update_context r next).2 with
          | .error _ => .error
          | .ok _ => .applied
              ⟨replicaApply st ev, seqOfR (Generated.Machines.StateReplicaManager.validate_and_update_context r next).1⟩
              ((Tick.process next.sequence.f0 ev a).terminal) := by
  by_cases hge : seqOfR r ≥ next.sequence.f0
  · simp [Audit.Replica.step, hge]
  · have h1 := run_guard_excludes_underflow r next hge
    obtain ⟨hst, hok⟩ := validate_agrees r next h1
    simp only [Audit.Replica.step, hge, ↓reduceIte]
    by_cases hk : seqOfR r + 1 = next.sequence.f0
    · have := hok.mpr hk
      rw [this, hst]
      simp only [seqOfR] at hk ⊢
      simp [hk]
    · have hne : (Generated.Machines.StateReplicaManager.validate_and_update_context r next).2 ≠ .ok () :=
        fun h => hk (hok.mp h)
      simp only [ne_eq, hk, not_false_eq_true, ↓reduceIte]
      cases hres : (Generated.Machines.StateReplicaManager.validate_and_update_context r next).2 with
      | error _ => rfl
      | ok u => exact absurd (by cases u; exact hres) hne

/-- Everything above in one statement (re-exported as the audited theorem `audit_sequence_agrees_with_source` of
Props/C10.lean). -/
theorem audit_seq_agrees :
    (∀ (s : G.Sequence), Generated.Machines.Sequence.fetch_add s = (⟨s.f0 + 1⟩, s)) ∧
    (∀ {C S X St R K A : Type} [DecidableEq C] [DecidableEq S] [DecidableEq X] [DecidableEq St] [DecidableEq R]
        [DecidableEq K] [DecidableEq A] (f : K → A) (clk : G.Clock C) (e : G.Engine C S X St R) (k : K),
      Generated.Machines.Engine.audit f clk e k = (bump e, ⟨f k, ⟨e.meta.sequence, clk.time e.clock⟩⟩)) ∧
    (∀ {C S X St R : Type} [DecidableEq C] [DecidableEq S] [DecidableEq X] [DecidableEq St] [DecidableEq R]
        (clk : G.Clock C) (e : G.Engine C S X St R),
      Generated.Machines.Engine.audit_snapshot clk e = (bump e, ⟨e.state, ⟨e.meta.sequence, clk.time e.clock⟩⟩)) ∧
    (∀ {E Ev A Sn : Type} [DecidableEq E] [DecidableEq Ev] [DecidableEq A] [DecidableEq Sn]
        (P : G.Processor E Ev A) (Au : G.Auditor E A Sn) (e : E) (ev : Ev),
      Generated.Machines.process_with_audit P Au e ev = Au.audit (fun x => x) (P.process e ev).1 (P.process e ev).2) ∧
    (∀ {C S X St R Ev : Type} [DecidableEq C] [DecidableEq S] [DecidableEq X] [DecidableEq St] [DecidableEq R]
        [DecidableEq Ev] (absE : G.Engine C S X St R → Eng) (absA : S → Engine.Audit)
        (P : G.Processor (G.Engine C S X St R) Ev S) (clk : G.Clock C) (e : G.Engine C S X St R) (gev : Ev)
        (ev : Event) (ask : Ask), SimProcess absE absA P e gev ev ask →
      ofEngA absE (Generated.Machines.process_with_audit P (engineAuditor clk) e gev).1
          = (processWithAudit (ofEngA absE e) ev ask).1 ∧
      ofTick absA ev (Generated.Machines.process_with_audit P (engineAuditor clk) e gev).2
          = (processWithAudit (ofEngA absE e) ev ask).2) ∧
    (∀ {C S X St R : Type} [DecidableEq C] [DecidableEq S] [DecidableEq X] [DecidableEq St] [DecidableEq R]
        (clk : G.Clock C) (c : C) (s : S) (x : X) (st : St) (r : R),
      seqOf (Generated.Machines.Engine.new clk c s x st r) = 0) ∧
    (∀ {S U : Type} [DecidableEq S] [DecidableEq U] (snap : G.Tick S) (u : U),
      seqOfR (Generated.Machines.StateReplicaManager.new snap u) = snap.context.sequence.f0) ∧
    (∀ {S U : Type} [DecidableEq S] [DecidableEq U] (r : G.Replica S U) (st : Eng) (next : G.Context) (ev : Event)
        (a : Engine.Audit),
      Audit.Replica.step ⟨st, seqOfR r⟩ (.process next.sequence.f0 ev a)
        = if seqOfR r ≥ next.sequence.f0 then .skipped
          else match (Generated.Machines.StateReplicaManager.validate_and_update_context r next).2 with
            | .error _ => .error
            | .ok _ => .applied
                ⟨replicaApply st ev, seqOfR (Generated.Machines.StateReplicaManager.validate_and_update_context r next).1⟩
                ((Tick.process next.sequence.f0 ev a).terminal)) :=
  ⟨fetch_add_agrees, audit_agrees, audit_snapshot_agrees, process_with_audit_is_process_then_audit,
   process_with_audit_refines_model,
   fun clk c s x st r => by rw [new_starts_at_zero]; rfl,
   fun snap u => by rw [replica_new_agrees]; rfl,
   replica_step_agrees⟩

end BarterModel.KernelsAgree.AuditSeqSM
