import BarterModel.Generated.Machines4
import BarterModel.Model.ExecMap
import BarterModel.Lemmas.KernelsAgree.IterVocab
/-!
# Agreement: `ExecutionInstrumentMap` and `generate_execution_instrument_map` (C04)

`BarterModel.Generated.Machines.{ExecutionInstrumentMap.new, exchange_assets, exchange_instruments, find_exchange_id,
find_exchange_index, find_asset_name_exchange, find_asset_index, find_instrument_name_exchange, find_instrument_index,
generate_execution_instrument_map}` with `IndexedInstruments` (+ its three slice accessors), `Keyed`, the index
newtypes, `ExchangeAsset`, `Asset`, the full `Instrument` (as `InstrumentFull`), `KeyError`, `IndexError` are regenerated
from `barter-execution/src/map.rs`, `barter-instrument/src/{lib,asset/mod,instrument/*,index/mod,index/error}.rs` by
`tools/rust2lean_sm.py` (group `exec_map`, file `Generated/Machines4.lean`) on every run of `./check C04`. Iterator chains
(`iter().map(..).collect()`, `find_map(.. then_some ..)`, `filter_map(.. then_some ..).collect()`) are read through the
iterator vocabulary of that file's prelude (`Lemmas/KernelsAgree/IterVocab.lean`): lists, `collect` into an `IndexMap` =
insert in order (value replaced in place, last wins), `collect` into a `FnvHashMap` = the same finite map.

## Correspondence relation

The model (`Model/ExecMap.lean`, what every C04 theorem is about) writes every identifier as a `Nat` and every table
as an association list `List (Nat × Nat)`. The generated state is read through

* `ofColl` — `IndexedInstruments` ↦ `Coll`: per entry the key's number, the exchange id, the `name_exchange` (everything
  else an entry carries — internal names, underlying, kind, spec — is forgotten: no translated function reads it);
* `Rel g m` — for an `ExecutionInstrumentMap` `g` and a model map `m`:
  **EQUALITY** of the `exchange` pair and of the two forward tables (`assets`, `instruments`: `IndexMap`s, position by
  position, `AssetIndex(n)` ↦ `n`), and **equality as finite maps** of the two reverse tables (`asset_names`,
  `instrument_names`: `FnvHashMap`s; `get` on the generated side = `List.lookup` on the model side, for every name) —
  the order of a hash map is not modelled on either side, the model merely happens to keep a list.

Theorems, for ALL collections, maps, keys and names, with NO hypothesis:
`new_agrees` (the constructor establishes `Rel`), the six `find_*_agrees` (under `Rel` the generated lookup returns the
model's answer, `Ok` payloads through `.f0`, errors through the constructor: the message text is not modelled),
`exchange_assets_agrees` / `exchange_instruments_agrees`, and `generate_agrees`: the generated
`generate_execution_instrument_map` fails exactly when the model's `genMap` fails, with the same error kind, and
otherwise the two results are `Rel`ated. `rel_total`: every model map is `Rel`ated to a generated one.

Of `barter-execution/src/indexer.rs` the four LEAF translations of `AccountEventIndexer` are translated as well —
`order_key`, `order_request` (the two the route model `ExecMap.orderKey` / `orderRequest` of Props/C04 is about),
`asset_balance`, `trade` — and are the model's functions under `Rel` (`order_key_agrees`, ..), for every way of coding
the fields the model lumps into one payload.

Left untranslated in this group: the rest of `indexer.rs` (`account_event`, `snapshot`, `order_snapshot`,
`order_response_cancel`, `api_error`, `order_error`, `client_error`: `?` inside `match` arms of an `Ok(match ..)`, and
`collect::<Result<Vec<_>, _>>()`, are outside the subset) and the call sites in `barter/src/execution/manager.rs`; the
model's `orderSnapshot` / `snapshot` / `accountEvent` / .. are tied by the correspondence run only.
-/
namespace BarterModel.KernelsAgree.ExecMapSM
open BarterModel BarterModel.ExecMap BarterModel.KernelsAgree.IterVocab
open BarterModel.Generated.Machines (Rust.Map Rust.IndexMap Rust.Map.get Rust.IndexMap.get Rust.Str)

namespace G
abbrev XIdx := Generated.Machines.ExchangeIndex
abbrev AIdx := Generated.Machines.AssetIndex
abbrev IIdx := Generated.Machines.InstrumentIndex
abbrev KX := Generated.Machines.Keyed XIdx Nat
abbrev KA := Generated.Machines.Keyed AIdx (Generated.Machines.ExchangeAsset Generated.Machines.AssetFull)
abbrev KI := Generated.Machines.Keyed IIdx (Generated.Machines.InstrumentFull KX AIdx)
abbrev Coll := Generated.Machines.IndexedInstruments
abbrev EMap := Generated.Machines.ExecutionInstrumentMap
abbrev KeyError := Generated.Machines.KeyError
abbrev IndexError := Generated.Machines.IndexError
end G

/-! ## Abstraction -/

def ofKX (k : G.KX) : KExchange := ⟨k.key.f0, k.value⟩
def ofKA (k : G.KA) : KAsset := ⟨k.key.f0, k.value.exchange, k.value.asset.name_exchange⟩
def ofKI (k : G.KI) : KInstrument := ⟨k.key.f0, k.value.exchange.value, k.value.name_exchange⟩
def ofColl (c : G.Coll) : Coll := ⟨c.exchanges.map ofKX, c.assets.map ofKA, c.instruments.map ofKI⟩

def ofA (m : Rust.IndexMap G.AIdx Nat) : List (Nat × Nat) := m.map fun kv => (kv.1.f0, kv.2)
def ofI (m : Rust.IndexMap G.IIdx Nat) : List (Nat × Nat) := m.map fun kv => (kv.1.f0, kv.2)

def ofKeyError : G.KeyError → KeyError
  | .ExchangeId _ => .exchangeId
  | .AssetKey _ => .assetKey
  | .InstrumentKey _ => .instrumentKey

def ofIndexError : G.IndexError → IndexError
  | .ExchangeIndex _ => .exchangeIndex
  | .AssetIndex _ => .assetIndex
  | .InstrumentIndex _ => .instrumentIndex

/-- a generated `Result` as the model's: the payload through `f`, the error through `g` -/
def ofRes {ε ε' α β : Type} (g : ε → ε') (f : α → β) : Except ε α → Except ε' β
  | .ok a => .ok (f a)
  | .error e => .error (g e)

/-- the correspondence relation between a generated map and a model map (see the header) -/
structure Rel (g : G.EMap) (m : EMap) : Prop where
  exchange : ofKX g.exchange = m.exchange
  assets : ofA g.assets = m.assets
  instruments : ofI g.instruments = m.instruments
  assetNames : ∀ n : Nat, (Rust.Map.get g.asset_names n).map (·.f0) = m.assetNames.lookup n
  instrumentNames : ∀ n : Nat, (Rust.Map.get g.instrument_names n).map (·.f0) = m.instrumentNames.lookup n

/-! ## The model's tables in the vocabulary -/

theorem upsert_eq_insert (m : List (Nat × Nat)) (k v : Nat) : upsert m k v = Rust.IndexMap.insert m k v := by
  induction m with
  | nil => rfl
  | cons kv rest ih =>
    obtain ⟨a, w⟩ := kv
    simp only [upsert, Generated.Machines.Rust.IndexMap.insert, ih]

theorem collect_eq_collect (l : List (Nat × Nat)) : ExecMap.collect l = Rust.IndexMap.collect l := by
  simp only [ExecMap.collect, Generated.Machines.Rust.IndexMap.collect]
  congr 1
  funext m kv
  exact upsert_eq_insert m kv.1 kv.2

theorem lookup_eq_get (l : List (Nat × Nat)) (k : Nat) : l.lookup k = Rust.Map.get l k := by
  induction l with
  | nil => rfl
  | cons kv rest ih =>
    obtain ⟨a, w⟩ := kv
    by_cases h : a = k
    · subst h; simp [List.lookup, Generated.Machines.Rust.Map.get]
    · have : (k == a) = false := by simpa using fun e => h e.symm
      simp [List.lookup, Generated.Machines.Rust.Map.get, this, h, ih]

theorem f0_injA : Function.Injective (fun a : G.AIdx => a.f0) := by
  intro a b h; cases a; cases b; simpa using h
theorem f0_injI : Function.Injective (fun a : G.IIdx => a.f0) := by
  intro a b h; cases a; cases b; simpa using h

theorem get_ofA (m : Rust.IndexMap G.AIdx Nat) (a : G.AIdx) : (ofA m).lookup a.f0 = Rust.IndexMap.get m a := by
  rw [lookup_eq_get]
  induction m with
  | nil => rfl
  | cons kv rest ih =>
    obtain ⟨b, w⟩ := kv
    by_cases h : b = a
    · subst h; simp [ofA, Generated.Machines.Rust.Map.get, Generated.Machines.Rust.IndexMap.get]
    · have : ¬ b.f0 = a.f0 := fun e => h (f0_injA e)
      simp only [ofA, List.map_cons, Generated.Machines.Rust.Map.get, this, ↓reduceIte,
        Generated.Machines.Rust.IndexMap.get, h]
      simpa [ofA, Generated.Machines.Rust.IndexMap.get] using ih

theorem get_ofI (m : Rust.IndexMap G.IIdx Nat) (a : G.IIdx) : (ofI m).lookup a.f0 = Rust.IndexMap.get m a := by
  rw [lookup_eq_get]
  induction m with
  | nil => rfl
  | cons kv rest ih =>
    obtain ⟨b, w⟩ := kv
    by_cases h : b = a
    · subst h; simp [ofI, Generated.Machines.Rust.Map.get, Generated.Machines.Rust.IndexMap.get]
    · have : ¬ b.f0 = a.f0 := fun e => h (f0_injI e)
      simp only [ofI, List.map_cons, Generated.Machines.Rust.Map.get, this, ↓reduceIte,
        Generated.Machines.Rust.IndexMap.get, h]
      simpa [ofI, Generated.Machines.Rust.IndexMap.get] using ih

/-- the reverse table: collected from the swapped forward table into a `FnvHashMap` on the generated side, into a
list by `upsert` on the model side — the same finite map -/
theorem reverse_table {I : Type} [DecidableEq I] (f0 : I → Nat) (l : Rust.IndexMap I Nat) (n : Nat) :
    (Rust.Map.get (Generated.Machines.Rust.Map.collect (l.map fun kv => (kv.2, kv.1))) n).map f0
      = (ExecMap.collect ((l.map fun kv => (f0 kv.1, kv.2)).map fun kv => (kv.2, kv.1))).lookup n := by
  rw [get_map_collect, collect_eq_collect, lookup_eq_get]
  have h := get_collect (((l.map fun kv => (f0 kv.1, kv.2)).map fun kv => (kv.2, kv.1))) n
  simp only [Generated.Machines.Rust.IndexMap.get] at h
  rw [h]
  have := lastOf_map (fun x : Nat => x) (fun _ _ e => e) f0 (l.map fun kv => (kv.2, kv.1)) n
  simp only [List.map_map, Function.comp_def] at this ⊢
  exact this.symm

/-! ## Shape-independent unfolding -/

theorem swap_lambda {α β : Type} :
    (fun (x : α × β) => match x with | (key, value) => (value, key)) = fun kv => (kv.2, kv.1) := by
  funext ⟨a, b⟩; rfl

open Lean.Parser.Tactic in
local macro "unfold_em" loc:(location)? : tactic => `(tactic|
  simp only [gen_exec_map, swap_lambda, EMap.new, EMap.findExchangeId, EMap.findExchangeIndex, EMap.findAssetName,
    EMap.findAssetIndex, EMap.findInstrumentName, EMap.findInstrumentIndex, EMap.exchangeAssets,
    EMap.exchangeInstruments, ofRes] $[$loc]?)

/-! ## Constructor and lookups -/

/-- a generated map whose reverse tables are collected from the swapped forward tables is related to the model's
`EMap.new` of the abstracted forward tables -/
theorem rel_mk (ex : G.KX) (as : Rust.IndexMap G.AIdx Nat) (ins : Rust.IndexMap G.IIdx Nat) :
    Rel ⟨ex, as, ins, Generated.Machines.Rust.Map.collect (as.map fun kv => (kv.2, kv.1)),
        Generated.Machines.Rust.Map.collect (ins.map fun kv => (kv.2, kv.1))⟩
      (EMap.new (ofKX ex) (ofA as) (ofI ins)) :=
  ⟨rfl, rfl, rfl, fun n => reverse_table (fun a : G.AIdx => a.f0) as n,
    fun n => reverse_table (fun a : G.IIdx => a.f0) ins n⟩

/-- `ExecutionInstrumentMap::new` establishes the relation, for all forward tables. -/
theorem new_agrees (ex : G.KX) (as : Rust.IndexMap G.AIdx Nat) (ins : Rust.IndexMap G.IIdx Nat) :
    Rel (Generated.Machines.ExecutionInstrumentMap.new ex as ins) (EMap.new (ofKX ex) (ofA as) (ofI ins)) := by
  simp only [gen_exec_map]
  exact rel_mk ex as ins

theorem exchange_assets_agrees {g : G.EMap} {m : EMap} (h : Rel g m) :
    Generated.Machines.ExecutionInstrumentMap.exchange_assets g = m.exchangeAssets := by
  unfold_em
  rw [← h.assets]
  simp [Generated.Machines.Rust.IndexMap.values, ofA]

theorem exchange_instruments_agrees {g : G.EMap} {m : EMap} (h : Rel g m) :
    Generated.Machines.ExecutionInstrumentMap.exchange_instruments g = m.exchangeInstruments := by
  unfold_em
  rw [← h.instruments]
  simp [Generated.Machines.Rust.IndexMap.values, ofI]

theorem find_exchange_id_agrees {g : G.EMap} {m : EMap} (h : Rel g m) (x : G.XIdx) :
    ofRes ofKeyError id (Generated.Machines.ExecutionInstrumentMap.find_exchange_id g x) = m.findExchangeId x.f0 := by
  have hk : m.exchange.key = g.exchange.key.f0 := by rw [← h.exchange]; rfl
  have hv : m.exchange.id = g.exchange.value := by rw [← h.exchange]; rfl
  have hiff : g.exchange.key = x ↔ g.exchange.key.f0 = x.f0 :=
    ⟨fun e => by rw [e], fun e => by cases hx : g.exchange.key; cases x; simp_all⟩
  unfold_em
  rw [hk, hv]
  by_cases hc : g.exchange.key = x
  · simp [hc]
  · have : ¬ g.exchange.key.f0 = x.f0 := fun e => hc (hiff.mpr e)
    simp [hc, this, ofKeyError]

theorem find_exchange_index_agrees {g : G.EMap} {m : EMap} (h : Rel g m) (id : Nat) :
    ofRes ofIndexError (·.f0) (Generated.Machines.ExecutionInstrumentMap.find_exchange_index g id)
      = m.findExchangeIndex id := by
  have hk : m.exchange.key = g.exchange.key.f0 := by rw [← h.exchange]; rfl
  have hv : m.exchange.id = g.exchange.value := by rw [← h.exchange]; rfl
  unfold_em
  rw [hk, hv]
  by_cases hc : g.exchange.value = id <;> simp [hc, ofIndexError]

theorem find_asset_name_exchange_agrees {g : G.EMap} {m : EMap} (h : Rel g m) (a : G.AIdx) :
    ofRes ofKeyError id (Generated.Machines.ExecutionInstrumentMap.find_asset_name_exchange g a)
      = m.findAssetName a.f0 := by
  unfold_em
  rw [← h.assets, get_ofA]
  cases Rust.IndexMap.get g.assets a <;> simp [ofKeyError]

theorem find_instrument_name_exchange_agrees {g : G.EMap} {m : EMap} (h : Rel g m) (i : G.IIdx) :
    ofRes ofKeyError id (Generated.Machines.ExecutionInstrumentMap.find_instrument_name_exchange g i)
      = m.findInstrumentName i.f0 := by
  unfold_em
  rw [← h.instruments, get_ofI]
  cases Rust.IndexMap.get g.instruments i <;> simp [ofKeyError]

theorem find_asset_index_agrees {g : G.EMap} {m : EMap} (h : Rel g m) (n : Nat) :
    ofRes ofIndexError (·.f0) (Generated.Machines.ExecutionInstrumentMap.find_asset_index g n)
      = m.findAssetIndex n := by
  unfold_em
  rw [← h.assetNames n]
  cases Rust.Map.get g.asset_names n <;> simp [ofIndexError]

theorem find_instrument_index_agrees {g : G.EMap} {m : EMap} (h : Rel g m) (n : Nat) :
    ofRes ofIndexError (·.f0) (Generated.Machines.ExecutionInstrumentMap.find_instrument_index g n)
      = m.findInstrumentIndex n := by
  unfold_em
  rw [← h.instrumentNames n]
  cases Rust.Map.get g.instrument_names n <;> simp [ofIndexError]

/-! ## `generate_execution_instrument_map` -/

theorem find_exchanges (l : List G.KX) (ex : Nat) :
    ((l.find? fun k => decide (k.value = ex)).map fun k => k.key)
      = ((l.map ofKX).find? fun ke => ke.id == ex).map fun ke => (⟨ke.key⟩ : G.XIdx) := by
  induction l with
  | nil => rfl
  | cons k rest ih =>
    by_cases h : k.value = ex
    · simp [ofKX, h]
    · simp [ofKX, h] at ih ⊢; exact ih

theorem filter_assets (l : List G.KA) (ex : Nat) :
    ofA ((l.filter fun a => decide (a.value.exchange = ex)).map fun a => (a.key, a.value.asset.name_exchange))
      = (l.map ofKA).filterMap fun a => if a.exchange == ex then some (a.key, a.nameExchange) else none := by
  induction l with
  | nil => rfl
  | cons k rest ih =>
    by_cases h : k.value.exchange = ex
    · simp [ofKA, ofA, h] at ih ⊢; exact ih
    · simp [ofKA, ofA, h] at ih ⊢; exact ih

theorem filter_instruments (l : List G.KI) (ex : Nat) :
    ofI ((l.filter fun i => decide (i.value.exchange.value = ex)).map fun i => (i.key, i.value.name_exchange))
      = (l.map ofKI).filterMap fun i => if i.exchange == ex then some (i.key, i.nameExchange) else none := by
  induction l with
  | nil => rfl
  | cons k rest ih =>
    by_cases h : k.value.exchange.value = ex
    · simp [ofKI, ofI, h] at ih ⊢; exact ih
    · simp [ofKI, ofI, h] at ih ⊢; exact ih

theorem ofA_collect (l : List (G.AIdx × Nat)) :
    ofA (Generated.Machines.Rust.IndexMap.collect l) = ExecMap.collect (ofA l) := by
  rw [collect_eq_collect]
  exact collect_map (fun a : G.AIdx => a.f0) f0_injA (fun n : Nat => n) l

theorem ofI_collect (l : List (G.IIdx × Nat)) :
    ofI (Generated.Machines.Rust.IndexMap.collect l) = ExecMap.collect (ofI l) := by
  rw [collect_eq_collect]
  exact collect_map (fun a : G.IIdx => a.f0) f0_injI (fun n : Nat => n) l

/-- the outcome relation of `generate_execution_instrument_map` against `genMap` -/
def GenRel : Except G.IndexError G.EMap → Except IndexError EMap → Prop
  | .ok g, .ok m => Rel g m
  | .error e, .error e' => ofIndexError e = e'
  | _, _ => False

set_option linter.unusedSimpArgs false in   -- (either spelling of the chains in the source: one of the two normal-form lemmas is unused)
/-- **`generate_execution_instrument_map` is the model's `genMap`**: same failure (unknown exchange id), else related
maps. For all collections and exchange ids, no hypothesis. -/
theorem generate_agrees (c : G.Coll) (ex : Nat) :
    GenRel (Generated.Machines.generate_execution_instrument_map c ex) (genMap (ofColl c) ex) := by
  simp only [gen_exec_map, findSome?_ite, filterMap_ite]
  simp only [genMap, ofColl]
  rw [find_exchanges]
  cases hf : (c.exchanges.map ofKX).find? fun ke => ke.id == ex with
  | none => simp [GenRel, ofIndexError]
  | some ke =>
    simp only [Option.map_some, GenRel]
    have := rel_mk (⟨⟨ke.key⟩, ex⟩ : G.KX)
      (Generated.Machines.Rust.IndexMap.collect
        ((c.assets.filter fun a => decide (a.value.exchange = ex)).map fun a => (a.key, a.value.asset.name_exchange)))
      (Generated.Machines.Rust.IndexMap.collect
        ((c.instruments.filter fun i => decide (i.value.exchange.value = ex)).map fun i => (i.key, i.value.name_exchange)))
    rw [ofA_collect, ofI_collect, filter_assets, filter_instruments] at this
    exact this

/-- every model map is the image of a generated one: nothing on the model side is left uncovered -/
theorem rel_total (m : EMap) : ∃ g : G.EMap, Rel g m := by
  refine ⟨⟨⟨⟨m.exchange.key⟩, m.exchange.id⟩, m.assets.map (fun kv => (⟨kv.1⟩, kv.2)),
    m.instruments.map (fun kv => (⟨kv.1⟩, kv.2)), m.assetNames.map (fun kv => (kv.1, ⟨kv.2⟩)),
    m.instrumentNames.map (fun kv => (kv.1, ⟨kv.2⟩))⟩, ?_, ?_, ?_, ?_, ?_⟩
  · rfl
  · simp [ofA, Function.comp_def]
  · simp [ofI, Function.comp_def]
  · intro n
    rw [lookup_eq_get]
    induction m.assetNames with
    | nil => rfl
    | cons kv rest ih => simp only [List.map_cons, Generated.Machines.Rust.Map.get]; split <;> simp_all
  · intro n
    rw [lookup_eq_get]
    induction m.instrumentNames with
    | nil => rfl
    | cons kv rest ih => simp only [List.map_cons, Generated.Machines.Rust.Map.get]; split <;> simp_all

/-! ## `AccountEventIndexer`: the four leaf translations (`order_key`, `order_request`, `asset_balance`, `trade`)

The model keeps `strategy` + `cid` of a key as ONE `Nat` and everything else an order request / balance / trade carries
as ONE opaque `Nat` payload ("carried untouched by the code"). The theorems quantify over ARBITRARY coding functions
(`code`, `pay`, ..): whatever the payload is taken to be, the generated function returns the model's result — which
also shows that the code does carry those fields over untouched. -/

namespace G
abbrev Indexer := Generated.Machines.AccountEventIndexer
abbrev OKey (E I : Type) := Generated.Machines.OrderKey E I
abbrev OEvent (K E I : Type) := Generated.Machines.OrderEvent K E I
abbrev Bal (A : Type) := Generated.Machines.AssetBalance A
abbrev Trade (I : Type) := Generated.Machines.Trade Generated.Machines.QuoteAsset I
end G

def ofKey {E I : Type} (fe : E → Nat) (fi : I → Nat) (code : Nat → Nat → Nat) (k : G.OKey E I) : OKey Nat Nat :=
  ⟨fe k.exchange, fi k.instrument, code k.strategy k.cid⟩
def ofEvent {Kd E I : Type} (fe : E → Nat) (fi : I → Nat) (code : Nat → Nat → Nat) (pay : Kd → Nat)
    (e : G.OEvent Kd E I) : OEvent Nat Nat := ⟨ofKey fe fi code e.key, pay e.state⟩
def ofBal {A : Type} (fa : A → Nat) (pay : Generated.Machines.Balance → Int → Nat) (b : G.Bal A) : Bal Nat :=
  ⟨fa b.asset, pay b.balance b.time_exchange⟩
def ofTrade {I : Type} (fi : I → Nat) (pay : G.Trade Unit → Nat) (t : G.Trade I) : Trade Nat :=
  ⟨fi t.instrument, pay { t with instrument := () }⟩

/- From here on the six table lookups are used through their agreement lemmas above: they are taken out of the group's
simp set, so that `simp only [gen_exec_map]` unfolds everything ELSE generated for the group — auxiliary helpers
extracted by a refactoring included, whatever they are called. -/
attribute [-gen_exec_map] Generated.Machines.ExecutionInstrumentMap.find_exchange_id
  Generated.Machines.ExecutionInstrumentMap.find_exchange_index
  Generated.Machines.ExecutionInstrumentMap.find_asset_name_exchange
  Generated.Machines.ExecutionInstrumentMap.find_asset_index
  Generated.Machines.ExecutionInstrumentMap.find_instrument_name_exchange
  Generated.Machines.ExecutionInstrumentMap.find_instrument_index

open Lean.Parser.Tactic in
local macro "unfold_ix" loc:(location)? : tactic => `(tactic|
  simp only [gen_exec_map, orderKey, orderRequest, assetBalance, ExecMap.trade, ofRes, ofKey, ofEvent, ofBal, ofTrade] $[$loc]?)

/-- `order_key` (inbound: exchange id ↦ index first, then instrument name ↦ index). -/
theorem order_key_agrees {g : G.Indexer} {m : EMap} (h : Rel g.map m) (code : Nat → Nat → Nat)
    (k : G.OKey Nat Nat) :
    ofRes ofIndexError (ofKey (·.f0) (·.f0) code) (Generated.Machines.AccountEventIndexer.order_key g k)
      = orderKey m (ofKey id id code k) := by
  have h1 := find_exchange_index_agrees h k.exchange
  have h2 := find_instrument_index_agrees h k.instrument
  rcases k with ⟨ex, ins, st, cid⟩
  unfold_ix
  simp only [id, ← h1, ← h2]
  cases Generated.Machines.ExecutionInstrumentMap.find_exchange_index g.map ex with
  | error e => simp [ofRes]
  | ok x =>
    cases Generated.Machines.ExecutionInstrumentMap.find_instrument_index g.map ins with
    | error e => simp [ofRes]
    | ok i => simp [ofRes]

/-- `order_request` (outbound: exchange index ↦ id first, then instrument index ↦ name). -/
theorem order_request_agrees {Kd : Type} [DecidableEq Kd] {g : G.Indexer} {m : EMap} (h : Rel g.map m)
    (code : Nat → Nat → Nat) (pay : Kd → Nat) (o : G.OEvent Kd G.XIdx G.IIdx) :
    ofRes ofKeyError (ofEvent id id code pay) (Generated.Machines.AccountEventIndexer.order_request g o)
      = orderRequest m (ofEvent (·.f0) (·.f0) code pay o) := by
  have h1 := find_exchange_id_agrees h o.key.exchange
  have h2 := find_instrument_name_exchange_agrees h o.key.instrument
  rcases o with ⟨⟨ex, ins, st, cid⟩, state⟩
  unfold_ix
  simp only [id, ← h1, ← h2]
  cases Generated.Machines.ExecutionInstrumentMap.find_exchange_id g.map ex with
  | error e => simp [ofRes]
  | ok x =>
    cases Generated.Machines.ExecutionInstrumentMap.find_instrument_name_exchange g.map ins with
    | error e => simp [ofRes]
    | ok i => simp [ofRes]

theorem asset_balance_agrees {g : G.Indexer} {m : EMap} (h : Rel g.map m)
    (pay : Generated.Machines.Balance → Int → Nat) (b : G.Bal Nat) :
    ofRes ofIndexError (ofBal (·.f0) pay) (Generated.Machines.AccountEventIndexer.asset_balance g b)
      = assetBalance m (ofBal id pay b) := by
  have h1 := find_asset_index_agrees h b.asset
  rcases b with ⟨a, bal, t⟩
  unfold_ix
  simp only [id, ← h1]
  cases Generated.Machines.ExecutionInstrumentMap.find_asset_index g.map a <;> simp [ofRes]

theorem trade_agrees {g : G.Indexer} {m : EMap} (h : Rel g.map m) (pay : G.Trade Unit → Nat) (t : G.Trade Nat) :
    ofRes ofIndexError (ofTrade (·.f0) pay) (Generated.Machines.AccountEventIndexer.trade g t)
      = ExecMap.trade m (ofTrade id pay t) := by
  have h1 := find_instrument_index_agrees h t.instrument
  rcases t with ⟨tid, oid, ins, st, te, side, price, qty, fees⟩
  unfold_ix
  simp only [id, ← h1]
  cases Generated.Machines.ExecutionInstrumentMap.find_instrument_index g.map ins <;> simp [ofRes]

/-- Everything above in one statement (re-exported as the audited theorem `execution_map_agrees_with_source` of
Props/C04.lean). -/
theorem exec_map_agrees :
    (∀ (ex : G.KX) (as : Rust.IndexMap G.AIdx Nat) (ins : Rust.IndexMap G.IIdx Nat),
      Rel (Generated.Machines.ExecutionInstrumentMap.new ex as ins) (EMap.new (ofKX ex) (ofA as) (ofI ins))) ∧
    (∀ (c : G.Coll) (ex : Nat),
      GenRel (Generated.Machines.generate_execution_instrument_map c ex) (genMap (ofColl c) ex)) ∧
    (∀ (g : G.EMap) (m : EMap), Rel g m →
      (∀ x : G.XIdx, ofRes ofKeyError id (Generated.Machines.ExecutionInstrumentMap.find_exchange_id g x)
          = m.findExchangeId x.f0) ∧
      (∀ id : Nat, ofRes ofIndexError (·.f0) (Generated.Machines.ExecutionInstrumentMap.find_exchange_index g id)
          = m.findExchangeIndex id) ∧
      (∀ a : G.AIdx, ofRes ofKeyError id (Generated.Machines.ExecutionInstrumentMap.find_asset_name_exchange g a)
          = m.findAssetName a.f0) ∧
      (∀ n : Nat, ofRes ofIndexError (·.f0) (Generated.Machines.ExecutionInstrumentMap.find_asset_index g n)
          = m.findAssetIndex n) ∧
      (∀ i : G.IIdx, ofRes ofKeyError id (Generated.Machines.ExecutionInstrumentMap.find_instrument_name_exchange g i)
          = m.findInstrumentName i.f0) ∧
      (∀ n : Nat, ofRes ofIndexError (·.f0) (Generated.Machines.ExecutionInstrumentMap.find_instrument_index g n)
          = m.findInstrumentIndex n) ∧
      Generated.Machines.ExecutionInstrumentMap.exchange_assets g = m.exchangeAssets ∧
      Generated.Machines.ExecutionInstrumentMap.exchange_instruments g = m.exchangeInstruments) ∧
    (∀ m : EMap, ∃ g : G.EMap, Rel g m) ∧
    (∀ (g : G.Indexer) (m : EMap), Rel g.map m → ∀ (code : Nat → Nat → Nat),
      (∀ k : G.OKey Nat Nat,
        ofRes ofIndexError (ofKey (·.f0) (·.f0) code) (Generated.Machines.AccountEventIndexer.order_key g k)
          = orderKey m (ofKey id id code k)) ∧
      (∀ {Kd : Type} [DecidableEq Kd] (pay : Kd → Nat) (o : G.OEvent Kd G.XIdx G.IIdx),
        ofRes ofKeyError (ofEvent id id code pay) (Generated.Machines.AccountEventIndexer.order_request g o)
          = orderRequest m (ofEvent (·.f0) (·.f0) code pay o)) ∧
      (∀ (pay : Generated.Machines.Balance → Int → Nat) (b : G.Bal Nat),
        ofRes ofIndexError (ofBal (·.f0) pay) (Generated.Machines.AccountEventIndexer.asset_balance g b)
          = assetBalance m (ofBal id pay b)) ∧
      (∀ (pay : G.Trade Unit → Nat) (t : G.Trade Nat),
        ofRes ofIndexError (ofTrade (·.f0) pay) (Generated.Machines.AccountEventIndexer.trade g t)
          = ExecMap.trade m (ofTrade id pay t))) :=
  ⟨new_agrees, generate_agrees,
   fun _ _ h => ⟨find_exchange_id_agrees h, find_exchange_index_agrees h, find_asset_name_exchange_agrees h,
     find_asset_index_agrees h, find_instrument_name_exchange_agrees h, find_instrument_index_agrees h,
     exchange_assets_agrees h, exchange_instruments_agrees h⟩,
   rel_total,
   fun _ _ h code => ⟨order_key_agrees h code, fun pay o => order_request_agrees h code pay o,
     asset_balance_agrees h, trade_agrees h⟩⟩

end BarterModel.KernelsAgree.ExecMapSM
