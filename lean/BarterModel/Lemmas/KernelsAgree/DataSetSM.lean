import BarterModel.Generated.Machines2
import BarterModel.Model.DataSet
/-!
# Agreement: `DataSetSummary` / `Dispersion` / `Range` as state machines (statistic/summary/dataset/*.rs)

`BarterModel.Generated.Machines.{Range, Dispersion, DataSetSummary}.*` (structs, the three derived
`Default`s, `Range::{init, update, range}`, `Dispersion::update`, `DataSetSummary::update`, and the
`welford_online` kernels they call) are regenerated from the Rust source by `tools/rust2lean_sm.py`
(group `dataset`, file `Generated/Machines2.lean`) on every run of `./check C17` (`PREBUILD`). The
theorems below state that, for ALL states and ALL inputs, the generated step functions are the
hand-written `BarterModel.DataSet.{Range, Dispersion, Summary}.*` definitions the C17 theorems are
about, read through the record bijections `ofRange`/`toRange`, `ofDisp`/`toDisp`, `ofSum`/`toSum`
(same fields, Rust names on the generated side).

**The square root.** `crate::statistic::algorithm::sqrt` is NOT translated: the generated
`Dispersion.update` / `DataSetSummary.update` take it as an explicit parameter
`sqrt : Rat → Option Rat` (its Rust signature), exactly as the model takes `sqrtFn : Rat → Rat`. The
code calls `sqrt(self.variance.abs()).expect("variance cannot be negative")`; the generated definition
has the opaque `Rust.unreachable` in the `None` arm, so agreement can only hold where that arm is dead.
The theorems therefore quantify over every `sqrt` that satisfies the documented contract of
`algorithm::sqrt` ("Returns `None` if the value is negative", i.e. `Some` on every non-negative
argument: `SqrtTotal`), prove the `expect` dead from `0 ≤ |variance|`, and identify the model's
`sqrtFn` with `fun x => (sqrt x).getD 0`. Conversely every model `sqrtFn` arises this way
(`sqrt := some ∘ sqrtFn`, theorems `*_of_fn`), so nothing is lost on the model side.

A change of one of the translated functions in the source makes a theorem here fail to build.
-/
namespace BarterModel.KernelsAgree.DataSetSM
open BarterModel BarterModel.DataSet

namespace G
abbrev Range := Generated.Machines.Range
abbrev Dispersion := Generated.Machines.Dispersion
abbrev DataSetSummary := Generated.Machines.DataSetSummary
end G

/-! ## Record bijections -/

def toRange (r : Range) : G.Range := ⟨r.activated, r.high, r.low⟩
def ofRange (r : G.Range) : Range := ⟨r.activated, r.high, r.low⟩
theorem ofRange_toRange (r : Range) : ofRange (toRange r) = r := rfl
theorem toRange_ofRange (r : G.Range) : toRange (ofRange r) = r := rfl

def toDisp (d : Dispersion) : G.Dispersion :=
  ⟨toRange d.range, d.recurrenceRelationM, d.variance, d.stdDev⟩
def ofDisp (d : G.Dispersion) : Dispersion :=
  ⟨ofRange d.range, d.recurrence_relation_m, d.variance, d.std_dev⟩
theorem ofDisp_toDisp (d : Dispersion) : ofDisp (toDisp d) = d := rfl
theorem toDisp_ofDisp (d : G.Dispersion) : toDisp (ofDisp d) = d := rfl

def toSum (s : Summary) : G.DataSetSummary := ⟨s.count, s.sum, s.mean, toDisp s.dispersion⟩
def ofSum (s : G.DataSetSummary) : Summary := ⟨s.count, s.sum, s.mean, ofDisp s.dispersion⟩
theorem ofSum_toSum (s : Summary) : ofSum (toSum s) = s := rfl
theorem toSum_ofSum (s : G.DataSetSummary) : toSum (ofSum s) = s := rfl

/-! ## The square root parameter -/

/-- The documented contract of `statistic::algorithm::sqrt`: `None` only for a negative value. -/
def SqrtTotal (sqrt : Rat → Option Rat) : Prop := ∀ x : Rat, 0 ≤ x → ∃ y, sqrt x = some y

/-- The model's `sqrtFn` that a Rust-shaped `sqrt` stands for. -/
def fnOf (sqrt : Rat → Option Rat) : Rat → Rat := fun x => (sqrt x).getD 0

theorem sqrtTotal_some (sqrtFn : Rat → Rat) : SqrtTotal (fun x => some (sqrtFn x)) :=
  fun x _ => ⟨sqrtFn x, rfl⟩

theorem fnOf_some (sqrtFn : Rat → Rat) : fnOf (fun x => some (sqrtFn x)) = sqrtFn := rfl

/-! ## Vocabulary (the translator's fixed prelude, which is not part of any group's simp set) -/

theorem abs_agrees (x : Rat) : Generated.Machines.Decimal.abs x = x.abs := by
  unfold Generated.Machines.Decimal.abs
  grind [Rat.abs]

theorem abs_nonneg (x : Rat) : 0 ≤ Generated.Machines.Decimal.abs x := by
  unfold Generated.Machines.Decimal.abs
  grind

/-- a `sqrt` honouring its contract, applied to an absolute value (the only way the code calls it), is `Some` of the
model's `sqrtFn`: the `.expect("variance cannot be negative")` is dead code whatever the argument is. -/
theorem sqrt_abs (sqrt : Rat → Option Rat) (hs : SqrtTotal sqrt) (x : Rat) :
    sqrt x.abs = some (fnOf sqrt x.abs) := by
  obtain ⟨y, hy⟩ := hs x.abs (by rw [← abs_agrees]; exact abs_nonneg x)
  simp [fnOf, hy]

/-! ## Shape-independent proofs

Every proof below takes the state records apart (`rcases`: case analysis on the DATA), unfolds *everything generated
for the group* (`gen_dataset`: the listed functions, the instance of the generic `calculate_mean`, the derived
`Default`s and whatever auxiliary functions the translator found by lookup, under whatever names) together with the
model's definitions and the record maps, rewrites `sqrt |x|` with `sqrt_abs`, and lets `grind` decide what is left
(comparisons of rationals, field arithmetic). Nothing depends on the names of helper functions or on how the source
spells a decision (`if`/`else`, `match` on a bool, early `return`, `*self = Self::init(..)`, flipped comparisons,
reordered independent assignments, hoisted or renamed locals). -/

open Lean.Parser.Tactic in
/-- everything generated for the group, the model's definitions and the record maps -/
local macro "unfold_ds" loc:(location)? : tactic => `(tactic|
  simp only [gen_dataset, calculateMean, calculateRecurrenceRelationM, calculatePopulationVariance, Range.default,
    Range.update, Range.range, Dispersion.default, Dispersion.update, Summary.default, Summary.update, toRange, ofRange,
    toDisp, ofDisp, toSum, ofSum, abs_agrees] $[$loc]?)

/-- unfold both sides, then case analysis on the data -/
local macro "ds_agree" : tactic => `(tactic| first | rfl | (unfold_ds; done) | (unfold_ds; grind))

theorem calculate_mean_agrees (prevMean nextValue count : Rat) :
    Generated.Machines.welford_online.calculate_mean_Decimal prevMean nextValue count
      = calculateMean prevMean nextValue count := by ds_agree

theorem calculate_recurrence_relation_m_agrees (prevM prevMean newValue newMean : Rat) :
    Generated.Machines.welford_online.calculate_recurrence_relation_m prevM prevMean newValue newMean
      = calculateRecurrenceRelationM prevM prevMean newValue newMean := by ds_agree

theorem calculate_population_variance_agrees (m count : Rat) :
    Generated.Machines.welford_online.calculate_population_variance m count
      = calculatePopulationVariance m count := by ds_agree

/-! ## `Range` -/

/-- derived `Default` of `Range` = `Range.default`. -/
theorem range_default_agrees : ofRange Generated.Machines.Range.default = Range.default := by ds_agree

/-- `Range::update`, for all ranges and values. -/
theorem range_update_agrees (r : Range) (x : Rat) :
    ofRange (Generated.Machines.Range.update (toRange r) x) = r.update x := by
  rcases r with ⟨_ | _, h, l⟩ <;> ds_agree

/-- `Range::init(first)` (no model definition of its own) is the first update of the default range. -/
theorem range_init_agrees (x : Rat) :
    ofRange (Generated.Machines.Range.init x) = Range.default.update x := by ds_agree

/-- `Range::range`. -/
theorem range_range_agrees (r : Range) :
    Generated.Machines.Range.range (toRange r) = r.range := by ds_agree

/-! ## `Dispersion` -/

theorem dispersion_default_agrees :
    ofDisp Generated.Machines.Dispersion.default = Dispersion.default := by ds_agree

/-- `Dispersion::update`, for all states and arguments and every `sqrt` honouring its contract; the
proof shows that `.expect("variance cannot be negative")` cannot fire (`sqrt_abs`). -/
theorem dispersion_update_agrees (sqrt : Rat → Option Rat) (hs : SqrtTotal sqrt) (d : Dispersion)
    (prevMean newMean newValue valueCount : Rat) :
    ofDisp (Generated.Machines.Dispersion.update sqrt (toDisp d) prevMean newMean newValue valueCount)
      = d.update (fnOf sqrt) prevMean newMean newValue valueCount := by
  have key := sqrt_abs sqrt hs
  rcases d with ⟨⟨_ | _, h, l⟩, m, v, sd⟩ <;> unfold_ds <;> simp only [key] <;> grind

/-! ## `DataSetSummary` -/

theorem summary_default_agrees :
    ofSum Generated.Machines.DataSetSummary.default = Summary.default := by ds_agree

/-- `DataSetSummary::update`, for all summaries and values and every `sqrt` honouring its contract. -/
theorem summary_update_agrees (sqrt : Rat → Option Rat) (hs : SqrtTotal sqrt) (s : Summary) (x : Rat) :
    ofSum (Generated.Machines.DataSetSummary.update sqrt (toSum s) x) = s.update (fnOf sqrt) x := by
  have key := sqrt_abs sqrt hs
  rcases s with ⟨c, sm, mn, ⟨⟨_ | _, h, l⟩, m, v, sd⟩⟩ <;> unfold_ds <;> simp only [key] <;> grind

/-- The same for a model square root `sqrtFn` (every one arises as `fnOf (some ∘ sqrtFn)`). -/
theorem summary_update_agrees_of_fn (sqrtFn : Rat → Rat) (s : Summary) (x : Rat) :
    ofSum (Generated.Machines.DataSetSummary.update (fun v => some (sqrtFn v)) (toSum s) x)
      = s.update sqrtFn x :=
  summary_update_agrees _ (sqrtTotal_some sqrtFn) s x

/-- Whole histories: folding the GENERATED `update` over any dataset from the GENERATED `default`
is the model's `Summary.run`, the function every C17 theorem is about. -/
theorem summary_run_agrees (sqrt : Rat → Option Rat) (hs : SqrtTotal sqrt) (xs : List Rat) :
    ofSum (xs.foldl (Generated.Machines.DataSetSummary.update sqrt) Generated.Machines.DataSetSummary.default)
      = Summary.run (fnOf sqrt) xs := by
  have key : ∀ (xs : List Rat) (s : Summary),
      ofSum (xs.foldl (Generated.Machines.DataSetSummary.update sqrt) (toSum s))
        = xs.foldl (Summary.update (fnOf sqrt)) s := by
    intro xs
    induction xs with
    | nil => intro s; rfl
    | cons x xs ih =>
      intro s
      have h := summary_update_agrees sqrt hs s x
      simp only [List.foldl_cons]
      rw [← h, ← ih, toSum_ofSum]
  exact key xs Summary.default

/-- Everything `./check C17` re-proves against the current source, at once. -/
theorem dataset_sm_agree :
    (∀ r : Range, ofRange (toRange r) = r) ∧ (∀ r : G.Range, toRange (ofRange r) = r)
    ∧ (∀ d : Dispersion, ofDisp (toDisp d) = d) ∧ (∀ d : G.Dispersion, toDisp (ofDisp d) = d)
    ∧ (∀ s : Summary, ofSum (toSum s) = s) ∧ (∀ s : G.DataSetSummary, toSum (ofSum s) = s)
    ∧ ofRange Generated.Machines.Range.default = Range.default
    ∧ ofDisp Generated.Machines.Dispersion.default = Dispersion.default
    ∧ ofSum Generated.Machines.DataSetSummary.default = Summary.default
    ∧ (∀ (r : Range) (x : Rat), ofRange (Generated.Machines.Range.update (toRange r) x) = r.update x)
    ∧ (∀ x : Rat, ofRange (Generated.Machines.Range.init x) = Range.default.update x)
    ∧ (∀ r : Range, Generated.Machines.Range.range (toRange r) = r.range)
    ∧ (∀ (sqrt : Rat → Option Rat), SqrtTotal sqrt → ∀ (d : Dispersion) (prevMean newMean newValue valueCount : Rat),
        ofDisp (Generated.Machines.Dispersion.update sqrt (toDisp d) prevMean newMean newValue valueCount)
          = d.update (fnOf sqrt) prevMean newMean newValue valueCount)
    ∧ (∀ (sqrt : Rat → Option Rat), SqrtTotal sqrt → ∀ (s : Summary) (x : Rat),
        ofSum (Generated.Machines.DataSetSummary.update sqrt (toSum s) x) = s.update (fnOf sqrt) x)
    ∧ (∀ (sqrtFn : Rat → Rat) (s : Summary) (x : Rat),
        ofSum (Generated.Machines.DataSetSummary.update (fun v => some (sqrtFn v)) (toSum s) x)
          = s.update sqrtFn x)
    ∧ (∀ (sqrt : Rat → Option Rat), SqrtTotal sqrt → ∀ xs : List Rat,
        ofSum (xs.foldl (Generated.Machines.DataSetSummary.update sqrt)
          Generated.Machines.DataSetSummary.default) = Summary.run (fnOf sqrt) xs) :=
  ⟨ofRange_toRange, toRange_ofRange, ofDisp_toDisp, toDisp_ofDisp, ofSum_toSum, toSum_ofSum,
    range_default_agrees, dispersion_default_agrees, summary_default_agrees, range_update_agrees,
    range_init_agrees, range_range_agrees, dispersion_update_agrees, summary_update_agrees,
    summary_update_agrees_of_fn, summary_run_agrees⟩

end BarterModel.KernelsAgree.DataSetSM
