import BarterModel.Generated.Machines4
import BarterModel.Model.Index
import BarterModel.Lemmas.KernelsAgree.IterVocab
/-!
# Agreement: `IndexedInstrumentsBuilder` and the `find_*` lookups of `IndexedInstruments` (C11)

`BarterModel.Generated.Machines.{IndexedInstrumentsBuilder.new, add_instrument, build, IndexedInstruments.new, builder,
find_exchange_index, find_exchange, find_asset_index, find_asset, find_instrument_index, find_instrument,
find_exchange_by_exchange_id, find_asset_by_exchange_and_name_internal, InstrumentFull.map_exchange_key,
InstrumentFull.map_asset_key_with_lookup, InstrumentKind.settlement_asset, ExchangeAsset.new, Underlying.new}` with the
full `Instrument` (as `InstrumentFull`), `InstrumentKind` and its contracts, `InstrumentSpec*`, `OrderQuantityUnits`,
`Asset` (as `AssetFull`), `ExchangeAsset`, `Keyed`, the index newtypes and `IndexError` are regenerated from
`barter-instrument/src/{lib,asset/mod,instrument/mod,instrument/kind/*,instrument/spec,instrument/quote,index/mod,
index/builder,index/error}.rs` by `tools/rust2lean_sm.py` (group `indexer`, file `Generated/Machines4.lean`) on every run
of `./check C11`. `sort()` is core's stable `List.mergeSort` by an EXPLICIT ordering parameter per element type
(`Ord_ExchangeId`, `Ord_InstrumentFull_ExchangeId_AssetFull`, `Ord_ExchangeAsset_AssetFull`: `#[derive(Ord)]` is not
translated), `dedup()` is `Rust.Vec.dedup`, `into_iter().enumerate().map(..).collect()` are the list functions of the
iterator vocabulary, the closure passed to `map_asset_key_with_lookup` a pure function value.

## Correspondence relation

The model (`Model/Index.lean`) writes every identifier, name, `Decimal` and `DateTime` as a `Nat` and flattens
`underlying`, the contracts and the spec into the instrument record. The generated values are read through abstraction
maps that are parametrised by a `Coding`: an INJECTIVE `dec : Rat → Nat` and an injective `tm : Int → Nat` (any; the
harness uses an order-preserving one on the values it generates) — `ofAsset`, `ofEA`, `ofKind`, `ofSpec`, `ofInstr`,
`ofBuilder`, `ofIndexed`, all injective, the enum tags as in the model's comments (`Call` 0 / `Put` 1, `American` 0 /
`Bermudan` 1 / `European` 2, `UnderlyingBase` 0 / `UnderlyingQuote` 1).

* `add_instrument_agrees` — EQUALITY, no hypothesis: `ofBuilder (add_instrument b d) = (ofBuilder b).addInstrument (ofDef d)`.
* `find_exchange_by_exchange_id_agrees`, `find_asset_by_exchange_and_name_internal_agrees`, the six `find_*_agrees` —
  EQUALITY up to `toOption` (the model returns `Option`: which `IndexError` variant and message a failed lookup carries
  is not modelled there; C11N has it), no hypothesis.
* `map_exchange_key_agrees` (equality), `map_asset_key_with_lookup_agrees` (for every lookup function: equality up to
  `toOption`, the model's `mapAssetKeyWithLookup` over the lookup read through `toOption`).
* `build_agrees` — under the hypotheses `OrdHyp` on the three UNTRANSLATED ordering parameters — each is the model's
  key order read through the abstraction (`leKey exchangeKey`, `leKey Instrument.sortKey ∘ ofDef`,
  `leKey ExchangeAsset.sortKey ∘ ofEA`), i.e. "`#[derive(Ord)]` is the lexicographic order the model's sort keys
  spell out" — whenever the model's `Builder.build` returns `some r` (it always does on builders filled by
  `add_instrument`: C11 `build_total`), the generated `build` returns a value whose abstraction is `r`. Where the model
  says `none` (one of the two `expect`s panics) nothing is claimed: the generated definition has `Rust.unreachable` there.
* `new_agrees`: `IndexedInstruments::new` is the fold of `add_instrument` followed by `build`, hence the model's `build`.

Left untranslated: `#[derive(Ord)]` / `#[derive(PartialEq)]` themselves (parameters / Lean's `=`),
`Instrument::{new, spot}` and the name constructors (C11N), `impl FromIterator`.
-/
set_option linter.unusedSimpArgs false   -- the proof scripts name the equations of every spelling of a search (`find?` / `findSome?` / ..): some stay unused

namespace BarterModel.KernelsAgree.IndexerSM
open BarterModel BarterModel.Index BarterModel.KernelsAgree.IterVocab
open BarterModel.Generated.Machines (Rust.Str)

namespace G
abbrev XIdx := Generated.Machines.ExchangeIndex
abbrev AIdx := Generated.Machines.AssetIndex
abbrev IIdx := Generated.Machines.InstrumentIndex
abbrev Asset := Generated.Machines.AssetFull
abbrev EA := Generated.Machines.ExchangeAsset Asset
abbrev Kind (A : Type) := Generated.Machines.InstrumentKind A
abbrev Units (A : Type) := Generated.Machines.OrderQuantityUnits A
abbrev Spec (A : Type) := Generated.Machines.InstrumentSpec A
abbrev Instr (E A : Type) := Generated.Machines.InstrumentFull E A
abbrev Def := Instr Nat Asset
abbrev KX := Generated.Machines.Keyed XIdx Nat
abbrev KA := Generated.Machines.Keyed AIdx EA
abbrev IInstr := Instr KX AIdx
abbrev KI := Generated.Machines.Keyed IIdx IInstr
abbrev Builder := Generated.Machines.IndexedInstrumentsBuilder
abbrev Indexed := Generated.Machines.IndexedInstruments
abbrev IndexError := Generated.Machines.IndexError
end G

/-- how `Decimal` and `DateTime` values are written as the model's `Nat`s: any injective coding -/
structure Coding where
  dec : Rat → Nat
  tm : Int → Nat
  dec_inj : Function.Injective dec
  tm_inj : Function.Injective tm

variable (cd : Coding)

/-! ## Abstraction -/

def ofAsset (a : G.Asset) : Asset := ⟨a.name_internal, a.name_exchange⟩
def ofEA (x : G.EA) : ExchangeAsset := ⟨x.exchange, ofAsset x.asset⟩
def ofPut : Generated.Machines.OptionKind → Nat
  | .Call => 0
  | .Put => 1
def ofExercise : Generated.Machines.OptionExercise → Nat
  | .American => 0
  | .Bermudan => 1
  | .European => 2
def ofQuoteAsset : Generated.Machines.InstrumentQuoteAsset → Nat
  | .UnderlyingBase => 0
  | .UnderlyingQuote => 1

def ofKind {A A' : Type} (fa : A → A') : G.Kind A → Kind A'
  | .Spot => .spot
  | .Perpetual c => .perpetual (cd.dec c.contract_size) (fa c.settlement_asset)
  | .Future c => .future (cd.dec c.contract_size) (fa c.settlement_asset) (cd.tm c.expiry)
  | .Option c => .option (cd.dec c.contract_size) (fa c.settlement_asset) (ofPut c.kind) (ofExercise c.exercise)
      (cd.tm c.expiry) (cd.dec c.strike)

def ofUnits {A A' : Type} (fa : A → A') : G.Units A → Units A'
  | .Asset a => .asset (fa a)
  | .Contract => .contract
  | .Quote => .quote

def ofSpec {A A' : Type} (fa : A → A') (s : G.Spec A) : Spec A' :=
  ⟨cd.dec s.price.min, cd.dec s.price.tick_size, ofUnits fa s.quantity.unit, cd.dec s.quantity.min,
    cd.dec s.quantity.increment, cd.dec s.notional.min⟩

def ofInstr {E E' A A' : Type} (fe : E → E') (fa : A → A') (i : G.Instr E A) : Instrument E' A' :=
  ⟨fe i.exchange, i.name_internal, i.name_exchange, fa i.underlying.base, fa i.underlying.quote,
    ofQuoteAsset i.quote, ofKind cd fa i.kind, i.spec.map (ofSpec cd fa)⟩

/-- an instrument definition as handed to `add_instrument` -/
def ofDef (d : G.Def) : Def := ofInstr cd id ofAsset d

def ofKX (k : G.KX) : Keyed Nat Nat := ⟨k.key.f0, k.value⟩
def ofKA (k : G.KA) : Keyed Nat ExchangeAsset := ⟨k.key.f0, ofEA k.value⟩
def ofIInstr (i : G.IInstr) : IInstrument := ofInstr cd ofKX (fun a : G.AIdx => a.f0) i
def ofKI (k : G.KI) : Keyed Nat IInstrument := ⟨k.key.f0, ofIInstr cd k.value⟩

def ofBuilder (b : G.Builder) : Builder := ⟨b.exchanges, b.instruments.map (ofDef cd), b.assets.map ofEA⟩
def ofIndexed (r : G.Indexed) : Indexed :=
  ⟨r.exchanges.map ofKX, r.assets.map ofKA, r.instruments.map (ofKI cd)⟩

/-- a generated `Result` as the model's `Option` -/
def toOpt {ε α β : Type} (f : α → β) : Except ε α → Option β
  | .ok a => some (f a)
  | .error _ => none

/-! ## Shape-independent unfolding -/

open Lean.Parser.Tactic in
local macro "unfold_ix" loc:(location)? : tactic => `(tactic|
  simp only [gen_indexer, gen_exec_map, findSome?_ite, filterMap_ite] $[$loc]?)

/-! ## `add_instrument` -/

theorem settlement_asset_agrees {A A' : Type} [DecidableEq A] (fa : A → A') (k : G.Kind A) :
    (Generated.Machines.InstrumentKind.settlement_asset k).map fa = (ofKind cd fa k).settlementAsset := by
  cases k <;> simp [gen_indexer, ofKind, Kind.settlementAsset]

theorem specUnitAsset_agrees {A A' : Type} (fa : A → A') (s : Option (G.Spec A)) :
    specUnitAsset (s.map (ofSpec cd fa))
      = (match s with
        | some sp => (match sp.quantity.unit with | .Asset a => some (fa a) | _ => none)
        | none => none) := by
  cases s with
  | none => rfl
  | some sp =>
    rcases sp with ⟨p, ⟨u, mn, inc⟩, n⟩
    cases u <;> rfl

/-- `add_instrument`: the exchange id, then base / quote / settlement asset / quantity-unit asset as exchange assets, then the
definition itself — the model's `Builder.addInstrument`, for every builder and definition. -/
theorem add_instrument_agrees (b : G.Builder) (d : G.Def) :
    ofBuilder cd (Generated.Machines.IndexedInstrumentsBuilder.add_instrument b d)
      = (ofBuilder cd b).addInstrument (ofDef cd d) := by
  rcases b with ⟨xs, is, as⟩
  rcases d with ⟨ex, ni, ne, ⟨base, quote⟩, q, kind, spec⟩
  unfold_ix
  simp only [Builder.addInstrument, ofBuilder, ofDef, ofInstr, defAssets, Instrument.assetRefs, id]
  rw [← settlement_asset_agrees cd ofAsset kind, specUnitAsset_agrees]
  cases kind <;> (try simp only [gen_indexer]) <;> cases spec with
  | none => simp [ofEA, ofDef, ofInstr]
  | some sp =>
    rcases sp with ⟨p, ⟨u, mn, inc⟩, n⟩
    cases u <;> simp [ofEA, ofDef, ofInstr]

/-! ## The two free lookups and the six methods -/

/- Every lookup below is proved the same way, whatever iterator chain / helper / orientation of `==` the source uses: take
the records apart, induct on the haystack, unfold EVERYTHING generated for the group together with the model's definition
and the `cons` equations of the list searches written as `if`s (`lookup_unfold`), decide the comparison(s) of the step on
the DATA (`cmp_cases`: both orientations at hand), and simplify. -/

theorem find?_cons_if {α : Type} (p : α → Bool) (a : α) (l : List α) :
    (a :: l).find? p = if p a = true then some a else l.find? p := by
  cases h : p a <;> simp [h]

theorem findSome?_cons_if {α β : Type} (f : α → Option β) (a : α) (l : List α) :
    (a :: l).findSome? f = if (f a).isSome = true then f a else l.findSome? f := by
  cases h : f a <;> simp [h]

open Lean.Parser.Tactic in
local macro "lookup_unfold" loc:(location)? : tactic => `(tactic|
  simp only [gen_indexer, gen_exec_map, findExchangeByExchangeId, findAssetByExchangeAndNameInternal,
     Indexed.findExchangeIndex, Indexed.findExchange, Indexed.findAssetIndex, Indexed.findAsset,
     Indexed.findInstrumentIndex, Indexed.findInstrument, ofIndexed,
     find?_cons_if, findSome?_cons_if, List.find?_nil, List.findSome?_nil, List.map_cons, List.map_nil,
     Option.map_map, decide_eq_true_eq, ofKX, ofKA, ofKI,
     Generated.Machines.ExchangeIndex.mk.injEq, Generated.Machines.AssetIndex.mk.injEq,
     Generated.Machines.InstrumentIndex.mk.injEq] $[$loc]?)

/-- decide the comparison `a = b` of a search step on the data: in the positive case the two are identified, in the negative
one both orientations of the inequality are at hand (the source may write either) -/
local macro "cmp_cases" a:term:max b:term:max : tactic => `(tactic|
  by_cases hcmp : $a = $b <;> first | subst hcmp | (have hcmp' : ¬ $b = $a := fun e => hcmp e.symm) | skip)

local macro "lookup_close" : tactic => `(tactic|
  simp_all [toOpt, ofEA, ofAsset, ofIInstr, ofInstr, ofKX])

theorem find_exchange_by_exchange_id_agrees (h : List G.KX) (n : Nat) :
    toOpt (·.f0) (Generated.Machines.find_exchange_by_exchange_id h n)
      = findExchangeByExchangeId (h.map ofKX) n := by
  induction h with
  | nil => lookup_unfold; lookup_close
  | cons k rest ih =>
    rcases k with ⟨⟨key⟩, value⟩
    lookup_unfold at ih ⊢
    cmp_cases value n <;> lookup_close

theorem find_asset_by_exchange_and_name_internal_agrees (h : List G.KA) (e ni : Nat) :
    toOpt (·.f0) (Generated.Machines.find_asset_by_exchange_and_name_internal h e ni)
      = findAssetByExchangeAndNameInternal (h.map ofKA) e ni := by
  induction h with
  | nil => lookup_unfold; lookup_close
  | cons k rest ih =>
    rcases k with ⟨⟨key⟩, ⟨ex, ⟨ani, ane⟩⟩⟩
    lookup_unfold at ih ⊢
    cmp_cases ex e <;> cmp_cases ani ni <;> lookup_close

theorem find_exchange_index_agrees (r : G.Indexed) (e : Nat) :
    toOpt (·.f0) (Generated.Machines.IndexedInstruments.find_exchange_index r e)
      = (ofIndexed cd r).findExchangeIndex e := by
  rcases r with ⟨xs, as, is⟩
  induction xs with
  | nil => lookup_unfold; lookup_close
  | cons k rest ih =>
    rcases k with ⟨⟨key⟩, value⟩
    lookup_unfold at ih ⊢
    cmp_cases value e <;> lookup_close

theorem find_asset_index_agrees (r : G.Indexed) (e ni : Nat) :
    toOpt (·.f0) (Generated.Machines.IndexedInstruments.find_asset_index r e ni)
      = (ofIndexed cd r).findAssetIndex e ni := by
  rcases r with ⟨xs, as, is⟩
  induction as with
  | nil => lookup_unfold; lookup_close
  | cons k rest ih =>
    rcases k with ⟨⟨key⟩, ⟨ex, ⟨ani, ane⟩⟩⟩
    lookup_unfold at ih ⊢
    cmp_cases ex e <;> cmp_cases ani ni <;> lookup_close

theorem f0_injX : Function.Injective (fun a : G.XIdx => a.f0) := by
  intro a b h; cases a; cases b; simpa using h
theorem f0_injA : Function.Injective (fun a : G.AIdx => a.f0) := by
  intro a b h; cases a; cases b; simpa using h
theorem f0_injI : Function.Injective (fun a : G.IIdx => a.f0) := by
  intro a b h; cases a; cases b; simpa using h

theorem find_exchange_agrees (r : G.Indexed) (k : G.XIdx) :
    toOpt id (Generated.Machines.IndexedInstruments.find_exchange r k) = (ofIndexed cd r).findExchange k.f0 := by
  rcases r with ⟨xs, as, is⟩
  rcases k with ⟨k⟩
  induction xs with
  | nil => lookup_unfold; lookup_close
  | cons x rest ih =>
    rcases x with ⟨⟨key⟩, value⟩
    lookup_unfold at ih ⊢
    cmp_cases key k <;> lookup_close

theorem find_asset_agrees (r : G.Indexed) (k : G.AIdx) :
    toOpt ofEA (Generated.Machines.IndexedInstruments.find_asset r k) = (ofIndexed cd r).findAsset k.f0 := by
  rcases r with ⟨xs, as, is⟩
  rcases k with ⟨k⟩
  induction as with
  | nil => lookup_unfold; lookup_close
  | cons x rest ih =>
    rcases x with ⟨⟨key⟩, v⟩
    lookup_unfold at ih ⊢
    cmp_cases key k <;> lookup_close

theorem find_instrument_agrees (r : G.Indexed) (k : G.IIdx) :
    toOpt (ofIInstr cd) (Generated.Machines.IndexedInstruments.find_instrument r k)
      = (ofIndexed cd r).findInstrument k.f0 := by
  rcases r with ⟨xs, as, is⟩
  rcases k with ⟨k⟩
  induction is with
  | nil => lookup_unfold; lookup_close
  | cons x rest ih =>
    rcases x with ⟨⟨key⟩, v⟩
    lookup_unfold at ih ⊢
    cmp_cases key k <;> simp_all [toOpt]

theorem find_instrument_index_agrees (r : G.Indexed) (e ni : Nat) :
    toOpt (·.f0) (Generated.Machines.IndexedInstruments.find_instrument_index r e ni)
      = (ofIndexed cd r).findInstrumentIndex e ni := by
  rcases r with ⟨xs, as, is⟩
  induction is with
  | nil => lookup_unfold; lookup_close
  | cons x rest ih =>
    rcases x with ⟨⟨key⟩, ⟨⟨⟨xk⟩, xv⟩, nmi, nme, ⟨base, quote⟩, q, kind, spec⟩⟩
    lookup_unfold at ih ⊢
    cmp_cases xv e <;> cmp_cases nmi ni <;> lookup_close

/-! ## `map_exchange_key`, `map_asset_key_with_lookup` -/

theorem map_exchange_key_agrees {E E' F F' A A' : Type} [DecidableEq E] [DecidableEq A] [DecidableEq F]
    (fe : E → E') (ff : F → F') (fa : A → A') (i : G.Instr E A) (e : F) :
    ofInstr cd ff fa (Generated.Machines.InstrumentFull.map_exchange_key i e)
      = (ofInstr cd fe fa i).mapExchangeKey (ff e) := by
  rcases i with ⟨ex, ni, ne, ⟨base, quote⟩, q, kind, spec⟩
  simp [gen_indexer, ofInstr, Instrument.mapExchangeKey]

theorem toOpt_eq_some {ε α β : Type} {f : α → β} {r : Except ε α} {b : β} (h : toOpt f r = some b) :
    ∃ a, r = .ok a ∧ f a = b := by
  cases r with
  | ok a => exact ⟨a, rfl, by simpa [toOpt] using h⟩
  | error e => simp [toOpt] at h

theorem toOpt_eq_none {ε α β : Type} {f : α → β} {r : Except ε α} (h : toOpt f r = none) : ∃ e, r = .error e := by
  cases r with
  | ok a => simp [toOpt] at h
  | error e => exact ⟨e, rfl⟩

/-- `map_asset_key_with_lookup`, for EVERY lookup function `g`: base, quote, the settlement asset of the contract, the
asset of the quantity unit are looked up in this order, the first failure is returned; the model's
`mapAssetKeyWithLookup` over `g` read through `toOpt`. -/
theorem map_asset_key_with_lookup_agrees {E E' A A' B B' Err : Type} [DecidableEq E] [DecidableEq A] [DecidableEq B]
    [DecidableEq Err] (fe : E → E') (fa : A → A') (fb : B → B') (g : A → Except Err B) (g' : A' → Option B')
    (hg : ∀ a, toOpt fb (g a) = g' (fa a)) (i : G.Instr E A) :
    toOpt (ofInstr cd fe fb) (Generated.Machines.InstrumentFull.map_asset_key_with_lookup i g)
      = (ofInstr cd fe fa i).mapAssetKeyWithLookup g' := by
  have hg' : ∀ a, g' (fa a) = toOpt fb (g a) := fun a => (hg a).symm
  rcases i with ⟨ex, ni, ne, ⟨base, quote⟩, q, kind, spec⟩
  -- every lookup the function can make, as a case split on DATA (what the lookup returns), then plain simplification
  cases hb : g base <;> cases hq : g quote <;>
  cases kind <;>
  (try (rename_i c; cases hs : g c.settlement_asset)) <;>
  cases spec <;>
  (try (rename_i sp; rcases sp with ⟨p, ⟨u, mn, inc⟩, n⟩; cases u)) <;>
  (try (rename_i a; cases ha : g a)) <;>
  simp [gen_indexer, Instrument.mapAssetKeyWithLookup, ofInstr, ofKind, Kind.mapOpt, specMapOpt, Units.mapOpt, ofSpec,
    ofUnits, toOpt, *]

/-! ## Injectivity of the abstraction (needed for `dedup`: equal images ⇒ equal values) -/

theorem ofAsset_inj : Function.Injective ofAsset := by
  intro a b h; cases a; cases b; simp_all [ofAsset]

theorem ofEA_inj : Function.Injective ofEA := by
  intro a b h
  rcases a with ⟨e, a⟩; rcases b with ⟨e', a'⟩
  simp only [ofEA, ExchangeAsset.mk.injEq] at h
  rw [h.1, ofAsset_inj h.2]

theorem ofPut_inj : Function.Injective ofPut := by
  intro a b h; cases a <;> cases b <;> simp_all [ofPut]
theorem ofExercise_inj : Function.Injective ofExercise := by
  intro a b h; cases a <;> cases b <;> simp_all [ofExercise]
theorem ofQuoteAsset_inj : Function.Injective ofQuoteAsset := by
  intro a b h; cases a <;> cases b <;> simp_all [ofQuoteAsset]

theorem ofKind_inj {A A' : Type} (fa : A → A') (hfa : Function.Injective fa) : Function.Injective (ofKind cd fa) := by
  intro a b h
  rcases a with _ | ⟨s, x⟩ | ⟨s, x, e⟩ | ⟨s, x, k, ex, e, st⟩ <;>
  rcases b with _ | ⟨s', x'⟩ | ⟨s', x', e'⟩ | ⟨s', x', k', ex', e', st'⟩ <;>
  simp only [ofKind, Kind.perpetual.injEq, Kind.future.injEq, Kind.option.injEq, reduceCtorEq] at h <;>
  first
  | rfl
  | (obtain ⟨h1, h2⟩ := h; rw [cd.dec_inj h1, hfa h2])
  | (obtain ⟨h1, h2, h3⟩ := h; rw [cd.dec_inj h1, hfa h2, cd.tm_inj h3])
  | (obtain ⟨h1, h2, h3, h4, h5, h6⟩ := h
     rw [cd.dec_inj h1, hfa h2, ofPut_inj h3, ofExercise_inj h4, cd.tm_inj h5, cd.dec_inj h6])

theorem ofUnits_inj {A A' : Type} (fa : A → A') (hfa : Function.Injective fa) : Function.Injective (ofUnits fa) := by
  intro a b h
  cases a <;> cases b <;> simp_all [ofUnits]
  exact hfa h

theorem ofSpec_inj {A A' : Type} (fa : A → A') (hfa : Function.Injective fa) : Function.Injective (ofSpec cd fa) := by
  intro a b h
  rcases a with ⟨⟨p1, p2⟩, ⟨u, q1, q2⟩, ⟨n⟩⟩; rcases b with ⟨⟨p1', p2'⟩, ⟨u', q1', q2'⟩, ⟨n'⟩⟩
  simp only [ofSpec, Spec.mk.injEq] at h
  obtain ⟨h1, h2, h3, h4, h5, h6⟩ := h
  rw [cd.dec_inj h1, cd.dec_inj h2, ofUnits_inj fa hfa h3, cd.dec_inj h4, cd.dec_inj h5, cd.dec_inj h6]

theorem option_map_inj {α β : Type} (f : α → β) (hf : Function.Injective f) : Function.Injective (Option.map f) := by
  intro a b h; cases a <;> cases b <;> simp_all
  exact hf h

theorem ofInstr_inj {E E' A A' : Type} (fe : E → E') (hfe : Function.Injective fe) (fa : A → A')
    (hfa : Function.Injective fa) : Function.Injective (ofInstr cd fe fa) := by
  intro a b h
  rcases a with ⟨e, ni, ne, ⟨ba, qu⟩, q, k, sp⟩; rcases b with ⟨e', ni', ne', ⟨ba', qu'⟩, q', k', sp'⟩
  simp only [ofInstr, Instrument.mk.injEq] at h
  obtain ⟨h1, h2, h3, h4, h5, h6, h7, h8⟩ := h
  rw [hfe h1, h2, h3, hfa h4, hfa h5, ofQuoteAsset_inj h6, ofKind_inj cd fa hfa h7,
    option_map_inj _ (ofSpec_inj cd fa hfa) h8]

theorem ofDef_inj : Function.Injective (ofDef cd) := ofInstr_inj cd id (fun _ _ e => e) ofAsset ofAsset_inj

/-! ## `sort` + `dedup`, `enumerate` -/

theorem dedup_map {α β : Type} [DecidableEq α] [DecidableEq β] (f : α → β) (hf : Function.Injective f) (l : List α) :
    (Generated.Machines.Rust.Vec.dedup l).map f = Index.dedup (l.map f) := by
  induction l with
  | nil => rfl
  | cons a t ih =>
    cases t with
    | nil => rfl
    | cons b t' =>
      by_cases h : a = b
      · subst h
        simpa [Generated.Machines.Rust.Vec.dedup, Index.dedup] using ih
      · have : ¬ f a = f b := fun e => h (hf e)
        simp only [Generated.Machines.Rust.Vec.dedup, h, ↓reduceIte, List.map_cons, Index.dedup, this,
          List.cons.injEq, true_and]
        simpa using ih

/-- `v.sort(); v.dedup();` by an ordering parameter that is the model's key order through `f`: the model's `sortDedup` -/
theorem sortDedup_map {α β : Type} [DecidableEq α] [DecidableEq β] (f : α → β) (hf : Function.Injective f)
    (key : β → List Nat) (ord : α → α → Bool) (hord : ∀ a b, ord a b = leKey key (f a) (f b)) (l : List α) :
    (Generated.Machines.Rust.Vec.dedup (l.mergeSort ord)).map f = sortDedup key (l.map f) := by
  rw [dedup_map f hf, sortDedup, List.map_mergeSort (s := leKey key) (fun a _ b _ => hord a b)]

theorem enumerate_from_map {α β : Type} (f : α → β) (i : Nat) (l : List α) :
    (Generated.Machines.Rust.Iter.enumerate_from i l).map (fun p => (⟨p.1, f p.2⟩ : Keyed Nat β))
      = (l.map f).mapIdx (fun j v => (⟨i + j, v⟩ : Keyed Nat β)) := by
  induction l generalizing i with
  | nil => rfl
  | cons x xs ih =>
    simp only [Generated.Machines.Rust.Iter.enumerate_from, List.map_cons, List.mapIdx_cons, Nat.add_zero,
      List.cons.injEq, true_and]
    rw [ih (i + 1)]
    congr 1; funext j v; congr 1; omega

/-- `into_iter().enumerate().map(|(index, x)| Keyed::new(Index::new(index), x))` is the model's `enumerate` -/
theorem enumerate_map {α β : Type} (f : α → β) (l : List α) :
    (Generated.Machines.Rust.Iter.enumerate l).map (fun p => (⟨p.1, f p.2⟩ : Keyed Nat β)) = Index.enumerate (l.map f) := by
  have := enumerate_from_map f 0 l
  simpa [Generated.Machines.Rust.Iter.enumerate, Index.enumerate] using this

/-! ## `build` -/

/-- The hypotheses on the three UNTRANSLATED ordering parameters (`#[derive(Ord)]` of `ExchangeId`,
`Instrument<ExchangeId, Asset>`, `ExchangeAsset<Asset>`): each is the model's sort-key order read through the abstraction. -/
structure OrdHyp (ordX : Nat → Nat → Bool) (ordI : G.Def → G.Def → Bool) (ordA : G.EA → G.EA → Bool) : Prop where
  exchanges : ∀ a b, ordX a b = leKey exchangeKey a b
  instruments : ∀ a b, ordI a b = leKey Instrument.sortKey (ofDef cd a) (ofDef cd b)
  assets : ∀ a b, ordA a b = leKey ExchangeAsset.sortKey (ofEA a) (ofEA b)

/-- mapping a per-item function over the enumerated definitions agrees with the model's `traverse (indexInstrument ..)`
whenever the latter succeeds, provided the function agrees with `indexInstrument` item by item -/
theorem map_of_traverse (exs : List (Keyed Nat Nat)) (as : List (Keyed Nat ExchangeAsset)) (f : Nat × G.Def → G.KI)
    (hf : ∀ p y, indexInstrument exs as ⟨p.1, ofDef cd p.2⟩ = some y → ofKI cd (f p) = y)
    (i : Nat) (l : List G.Def) (res : List (Keyed Nat IInstrument))
    (h : traverse (indexInstrument exs as) ((l.map (ofDef cd)).mapIdx fun j v => ⟨i + j, v⟩) = some res) :
    ((Generated.Machines.Rust.Iter.enumerate_from i l).map f).map (ofKI cd) = res := by
  induction l generalizing i res with
  | nil => simpa [traverse, Generated.Machines.Rust.Iter.enumerate_from] using h
  | cons d rest ih =>
    simp only [List.map_cons, List.mapIdx_cons, Nat.add_zero, traverse] at h
    cases h1 : indexInstrument exs as ⟨i, ofDef cd d⟩ with
    | none => simp [h1] at h
    | some y =>
      simp only [h1] at h
      have hshift : (fun j v => (⟨i + (j + 1), v⟩ : Keyed Nat Def)) = fun j v => ⟨(i + 1) + j, v⟩ := by
        funext j v; congr 1; omega
      rw [hshift] at h
      cases h2 : traverse (indexInstrument exs as) ((rest.map (ofDef cd)).mapIdx fun j v => ⟨(i + 1) + j, v⟩) with
      | none => simp [h2] at h
      | some ys =>
        simp only [h2, Option.some.injEq] at h
        subst h
        simp only [Generated.Machines.Rust.Iter.enumerate_from, List.map_cons, List.cons.injEq]
        exact ⟨hf (i, d) y h1, ih (i + 1) ys h2⟩

theorem map_of_traverse0 (exs : List (Keyed Nat Nat)) (as : List (Keyed Nat ExchangeAsset)) (f : Nat × G.Def → G.KI)
    (hf : ∀ p y, indexInstrument exs as ⟨p.1, ofDef cd p.2⟩ = some y → ofKI cd (f p) = y)
    (l : List G.Def) (res : List (Keyed Nat IInstrument))
    (h : traverse (indexInstrument exs as) (Index.enumerate (l.map (ofDef cd))) = some res) :
    ((Generated.Machines.Rust.Iter.enumerate l).map f).map (ofKI cd) = res := by
  have hz : (fun (j : Nat) (v : Def) => (⟨j, v⟩ : Keyed Nat Def)) = fun j v => ⟨0 + j, v⟩ := by
    funext j v; simp
  simp only [Index.enumerate] at h
  rw [hz] at h
  exact map_of_traverse cd exs as f hf 0 l res h

/- From here on the lookups and the two `Instrument` maps are used through their agreement lemmas above: they are taken
out of the group's simp set, so that `simp only [gen_indexer]` unfolds everything ELSE generated for the group. -/
attribute [-gen_indexer] Generated.Machines.find_exchange_by_exchange_id
  Generated.Machines.find_asset_by_exchange_and_name_internal
  Generated.Machines.InstrumentFull.map_exchange_key
  Generated.Machines.InstrumentFull.map_asset_key_with_lookup

/-- **`IndexedInstrumentsBuilder::build` is the model's `Builder.build`** wherever the model's does not panic, under the
hypotheses on the ordering parameters. -/
theorem build_agrees (ordX : Nat → Nat → Bool) (ordI : G.Def → G.Def → Bool) (ordA : G.EA → G.EA → Bool)
    (hord : OrdHyp cd ordX ordI ordA) (b : G.Builder) (r : Indexed) (hb : (ofBuilder cd b).build = some r) :
    ofIndexed cd (Generated.Machines.IndexedInstrumentsBuilder.build (Ord_ExchangeId := ordX)
          (Ord_InstrumentFull_ExchangeId_AssetFull := ordI) (Ord_ExchangeAsset_AssetFull := ordA) b) = r := by
  rcases b with ⟨xs, is, as⟩
  -- the three sorted + dedup'd lists, generated and model side
  have hX : (Generated.Machines.Rust.Vec.dedup (xs.mergeSort ordX)).map id = sortDedup exchangeKey (xs.map id) :=
    sortDedup_map id (fun _ _ e => e) exchangeKey ordX hord.exchanges xs
  have hI := sortDedup_map (ofDef cd) (ofDef_inj cd) Instrument.sortKey ordI hord.instruments is
  have hA := sortDedup_map ofEA ofEA_inj ExchangeAsset.sortKey ordA hord.assets as
  simp only [List.map_id] at hX
  simp only [Builder.build, ofBuilder] at hb
  simp only [gen_indexer, ofIndexed]
  -- exchanges and assets: enumerate
  have hEx : (List.map (fun p => (⟨⟨p.1⟩, p.2⟩ : G.KX))
      (Generated.Machines.Rust.Iter.enumerate (Generated.Machines.Rust.Vec.dedup (xs.mergeSort ordX)))).map ofKX
      = Index.enumerate (sortDedup exchangeKey xs) := by
    rw [← hX, List.map_map]
    have := enumerate_map (fun v : Nat => v) (Generated.Machines.Rust.Vec.dedup (xs.mergeSort ordX))
    simpa [Function.comp_def, ofKX] using this
  have hAs : (List.map (fun p => (⟨⟨p.1⟩, p.2⟩ : G.KA))
      (Generated.Machines.Rust.Iter.enumerate (Generated.Machines.Rust.Vec.dedup (as.mergeSort ordA)))).map ofKA
      = Index.enumerate (sortDedup ExchangeAsset.sortKey (as.map ofEA)) := by
    rw [← hA, List.map_map]
    have := enumerate_map ofEA (Generated.Machines.Rust.Vec.dedup (as.mergeSort ordA))
    simpa [Function.comp_def, ofKA] using this
  rw [← hI] at hb
  cases ht : traverse (indexInstrument (Index.enumerate (sortDedup exchangeKey xs))
      (Index.enumerate (sortDedup ExchangeAsset.sortKey (as.map ofEA))))
      (Index.enumerate ((Generated.Machines.Rust.Vec.dedup (is.mergeSort ordI)).map (ofDef cd))) with
  | none => simp [ht] at hb
  | some res =>
    simp only [ht, Option.some.injEq] at hb
    subst hb
    simp only [Indexed.mk.injEq]
    refine ⟨hEx, hAs, ?_⟩
    refine map_of_traverse0 cd _ _ _ ?_ _ res ht
    intro p y hy
    rcases p with ⟨idx, d⟩
    simp only [indexInstrument] at hy
    rw [← hEx, ← hAs] at hy
    have hfx := find_exchange_by_exchange_id_agrees
      (List.map (fun p => (⟨⟨p.1⟩, p.2⟩ : G.KX))
        (Generated.Machines.Rust.Iter.enumerate (Generated.Machines.Rust.Vec.dedup (xs.mergeSort ordX)))) d.exchange
    have hde : (ofDef cd d).exchange = d.exchange := rfl
    rw [hde, ← hfx] at hy
    cases hfe : Generated.Machines.find_exchange_by_exchange_id
        (List.map (fun p => (⟨⟨p.1⟩, p.2⟩ : G.KX))
          (Generated.Machines.Rust.Iter.enumerate (Generated.Machines.Rust.Vec.dedup (xs.mergeSort ordX)))) d.exchange with
    | error e => simp [hfe, toOpt] at hy
    | ok ek =>
      simp only [hfe, toOpt] at hy
      have hmx := map_exchange_key_agrees cd (fun v : Nat => v) ofKX ofAsset d (⟨ek, d.exchange⟩ : G.KX)
      have hmk : ofKX (⟨ek, d.exchange⟩ : G.KX) = (⟨ek.f0, d.exchange⟩ : Keyed Nat Nat) := rfl
      rw [hmk] at hmx
      have hd : ofInstr cd (fun v : Nat => v) ofAsset d = ofDef cd d := rfl
      rw [hd] at hmx
      rw [← hmx] at hy
      have hma := map_asset_key_with_lookup_agrees cd ofKX ofAsset (fun a : G.AIdx => a.f0)
        (fun asset : G.Asset => Generated.Machines.find_asset_by_exchange_and_name_internal
          (List.map (fun p => (⟨⟨p.1⟩, p.2⟩ : G.KA))
            (Generated.Machines.Rust.Iter.enumerate (Generated.Machines.Rust.Vec.dedup (as.mergeSort ordA))))
          d.exchange asset.name_internal)
        (fun a : Asset => findAssetByExchangeAndNameInternal
          (List.map ofKA (List.map (fun p => (⟨⟨p.1⟩, p.2⟩ : G.KA))
            (Generated.Machines.Rust.Iter.enumerate (Generated.Machines.Rust.Vec.dedup (as.mergeSort ordA)))))
          d.exchange a.nameInternal)
        (fun a => find_asset_by_exchange_and_name_internal_agrees _ d.exchange a.name_internal)
        (Generated.Machines.InstrumentFull.map_exchange_key d (⟨ek, d.exchange⟩ : G.KX))
      rw [← hma] at hy
      cases hmr : Generated.Machines.InstrumentFull.map_asset_key_with_lookup
          (Generated.Machines.InstrumentFull.map_exchange_key d (⟨ek, d.exchange⟩ : G.KX))
          (fun asset : G.Asset => Generated.Machines.find_asset_by_exchange_and_name_internal
            (List.map (fun p => (⟨⟨p.1⟩, p.2⟩ : G.KA))
              (Generated.Machines.Rust.Iter.enumerate (Generated.Machines.Rust.Vec.dedup (as.mergeSort ordA))))
            d.exchange asset.name_internal) with
      | error e => simp [hmr, toOpt] at hy
      | ok i2 =>
        simp only [hmr, toOpt, Option.some.injEq] at hy
        subst hy
        simp [ofKI, ofIInstr]

/-- `IndexedInstruments::new`: fold `add_instrument` over the (converted) definitions from the empty builder, then `build`:
the model's `build` of the abstracted definitions. -/
theorem new_agrees {I : Type} [DecidableEq I] (conv : I → G.Def) (ordX : Nat → Nat → Bool) (ordI : G.Def → G.Def → Bool)
    (ordA : G.EA → G.EA → Bool) (hord : OrdHyp cd ordX ordI ordA) (defs : List I) (r : Indexed)
    (hb : Index.build (defs.map fun d => ofDef cd (conv d)) = some r) :
    ofIndexed cd (Generated.Machines.IndexedInstruments.new (I_into := conv) (Ord_ExchangeId := ordX)
          (Ord_InstrumentFull_ExchangeId_AssetFull := ordI) (Ord_ExchangeAsset_AssetFull := ordA) defs) = r := by
  have hfold : ∀ (l : List I) (b : G.Builder),
      ofBuilder cd (l.foldl (fun b d => Generated.Machines.IndexedInstrumentsBuilder.add_instrument b (conv d)) b)
        = (l.map fun d => ofDef cd (conv d)).foldl Builder.addInstrument (ofBuilder cd b) := by
    intro l
    induction l with
    | nil => intro b; rfl
    | cons d rest ih => intro b; simp only [List.foldl_cons, List.map_cons, ih, add_instrument_agrees]
  have h0 : ofBuilder cd Generated.Machines.IndexedInstrumentsBuilder.default = ({} : Builder) := rfl
  simp only [Generated.Machines.IndexedInstruments.new, Generated.Machines.IndexedInstruments.builder]
  apply build_agrees cd ordX ordI ordA hord
  rw [hfold, h0]
  exact hb

/-- the hypotheses of `build_agrees` are satisfiable for every coding: take the orderings they describe -/
theorem ordHyp_satisfiable : ∃ ordX ordI ordA, OrdHyp cd ordX ordI ordA :=
  ⟨_, _, _, ⟨fun _ _ => rfl, fun _ _ => rfl, fun _ _ => rfl⟩⟩

/-! ## Non-vacuity: a `Coding` exists (Cantor pairing of an integer code of the numerator with the denominator) -/

def tri : Nat → Nat
  | 0 => 0
  | n + 1 => tri n + n + 1

theorem tri_lt {s t : Nat} (h : s < t) : tri s + s < tri t := by
  induction t with
  | zero => omega
  | succ t ih =>
    by_cases hs : s = t
    · subst hs; simp [tri]
    · have := ih (by omega); simp only [tri]; omega

def pair (a b : Nat) : Nat := tri (a + b) + b

theorem pair_inj {a b c d : Nat} (h : pair a b = pair c d) : a = c ∧ b = d := by
  unfold pair at h
  rcases Nat.lt_trichotomy (a + b) (c + d) with hlt | heq | hgt
  · have := tri_lt hlt; omega
  · rw [heq] at h; omega
  · have := tri_lt hgt; omega

def intCode (z : Int) : Nat := 2 * z.natAbs + (if z < 0 then 1 else 0)

theorem intCode_inj : Function.Injective intCode := by
  intro a b h
  unfold intCode at h
  split at h <;> split at h <;> omega

/-- a coding: `Decimal`s by pairing numerator and denominator, instants by the integer code -/
def stdCoding : Coding where
  dec q := pair (intCode q.num) q.den
  tm := intCode
  dec_inj := by
    intro a b h
    obtain ⟨h1, h2⟩ := pair_inj h
    exact Rat.ext (intCode_inj h1) h2
  tm_inj := intCode_inj

/-- Everything above in one statement (re-exported as the audited theorem `index_builder_agrees_with_source` of
Props/C11.lean). -/
theorem indexer_agrees (cd : Coding) :
    (∀ (b : G.Builder) (d : G.Def),
      ofBuilder cd (Generated.Machines.IndexedInstrumentsBuilder.add_instrument b d)
        = (ofBuilder cd b).addInstrument (ofDef cd d)) ∧
    (∀ (ordX : Nat → Nat → Bool) (ordI : G.Def → G.Def → Bool) (ordA : G.EA → G.EA → Bool),
      OrdHyp cd ordX ordI ordA →
      (∀ (b : G.Builder) (r : Indexed), (ofBuilder cd b).build = some r →
        ofIndexed cd (Generated.Machines.IndexedInstrumentsBuilder.build (Ord_ExchangeId := ordX)
          (Ord_InstrumentFull_ExchangeId_AssetFull := ordI) (Ord_ExchangeAsset_AssetFull := ordA) b) = r) ∧
      (∀ {I : Type} [DecidableEq I] (conv : I → G.Def) (defs : List I) (r : Indexed),
        Index.build (defs.map fun d => ofDef cd (conv d)) = some r →
        ofIndexed cd (Generated.Machines.IndexedInstruments.new (I_into := conv) (Ord_ExchangeId := ordX)
          (Ord_InstrumentFull_ExchangeId_AssetFull := ordI) (Ord_ExchangeAsset_AssetFull := ordA) defs) = r)) ∧
    (∀ (h : List G.KX) (n : Nat),
      toOpt (·.f0) (Generated.Machines.find_exchange_by_exchange_id h n) = findExchangeByExchangeId (h.map ofKX) n) ∧
    (∀ (h : List G.KA) (e ni : Nat),
      toOpt (·.f0) (Generated.Machines.find_asset_by_exchange_and_name_internal h e ni)
        = findAssetByExchangeAndNameInternal (h.map ofKA) e ni) ∧
    (∀ (r : G.Indexed),
      (∀ e, toOpt (·.f0) (Generated.Machines.IndexedInstruments.find_exchange_index r e)
          = (ofIndexed cd r).findExchangeIndex e) ∧
      (∀ k : G.XIdx, toOpt id (Generated.Machines.IndexedInstruments.find_exchange r k)
          = (ofIndexed cd r).findExchange k.f0) ∧
      (∀ e ni, toOpt (·.f0) (Generated.Machines.IndexedInstruments.find_asset_index r e ni)
          = (ofIndexed cd r).findAssetIndex e ni) ∧
      (∀ k : G.AIdx, toOpt ofEA (Generated.Machines.IndexedInstruments.find_asset r k)
          = (ofIndexed cd r).findAsset k.f0) ∧
      (∀ e ni, toOpt (·.f0) (Generated.Machines.IndexedInstruments.find_instrument_index r e ni)
          = (ofIndexed cd r).findInstrumentIndex e ni) ∧
      (∀ k : G.IIdx, toOpt (ofIInstr cd) (Generated.Machines.IndexedInstruments.find_instrument r k)
          = (ofIndexed cd r).findInstrument k.f0)) ∧
    (∀ {E E' A A' B B' Err : Type} [DecidableEq E] [DecidableEq A] [DecidableEq B] [DecidableEq Err]
        (fe : E → E') (fa : A → A') (fb : B → B') (g : A → Except Err B) (g' : A' → Option B'),
      (∀ a, toOpt fb (g a) = g' (fa a)) → ∀ (i : G.Instr E A),
      toOpt (ofInstr cd fe fb) (Generated.Machines.InstrumentFull.map_asset_key_with_lookup i g)
        = (ofInstr cd fe fa i).mapAssetKeyWithLookup g') ∧
    Function.Injective (ofDef cd) ∧ Function.Injective ofEA ∧
    (∃ ordX ordI ordA, OrdHyp cd ordX ordI ordA) :=
  ⟨add_instrument_agrees cd,
   fun ordX ordI ordA h => ⟨build_agrees cd ordX ordI ordA h, fun conv defs r hb => new_agrees cd conv ordX ordI ordA h defs r hb⟩,
   find_exchange_by_exchange_id_agrees, find_asset_by_exchange_and_name_internal_agrees,
   fun r => ⟨find_exchange_index_agrees cd r, find_exchange_agrees cd r, find_asset_index_agrees cd r,
     find_asset_agrees cd r, find_instrument_index_agrees cd r, find_instrument_agrees cd r⟩,
   fun fe fa fb g g' hg i => map_asset_key_with_lookup_agrees cd fe fa fb g g' hg i,
   ofDef_inj cd, ofEA_inj, ordHyp_satisfiable cd⟩

end BarterModel.KernelsAgree.IndexerSM
